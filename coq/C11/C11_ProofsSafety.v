(* C11_ProofsSafety.v — the inductive invariant of the FIXED protocol (s_fix = true) and
   `no access after return` for every schedule of the transition system `step`. *)
From Coq Require Import ZArith List Bool Arith Lia.
From PV Require Import Base.U64 C04.C04_Heap C11.C11_Model.
Import ListNotations.
Local Open Scope Z_scope.

(* ---- the part of the state the invariant talks about ------------------------------------------ *)
Definition pcof (s : state) (t : tid) : pc := t_pc (s_thr s t).

Definition is_follower (p : pc) : bool :=
  match p with PWaitLoop _ | PParked _ => true | _ => false end.
Definition reader_otag (p : pc) : option Z :=
  match p with
  | PReaderLoop o | PHdrRead o _ _ | PHdrSleep o _ _ | PBodyRead o _ _ _ _ | PBodySleep o _ _ _ _ => Some o
  | _ => None
  end.
Definition is_reader (p : pc) : bool := match reader_otag p with Some _ => true | None => false end.
Definition inside (p : pc) : bool := is_follower p || is_reader p.
Definition adopted_by (p : pc) : option tid :=
  match p with PBodyRead _ g _ _ _ | PBodySleep _ g _ _ _ => Some g | _ => None end.

Record same_view (s s' : state) : Prop := {
  sv_pc : forall t, pcof s' t = pcof s t;
  sv_ctx : forall t, s_ctx s' t = s_ctx s t;
  sv_map : s_map s' = s_map s;
  sv_rlock : s_rlock s' = s_rlock s;
  sv_acc : s_acc s' = s_acc s;
  sv_mtag : s_mtag s' = s_mtag s;
  sv_fix : s_fix s' = s_fix s;
  sv_calls : s_calls s' = s_calls s }.

Lemma same_view_refl s : same_view s s.
Proof. constructor; reflexivity. Qed.
Lemma same_view_trans s1 s2 s3 : same_view s1 s2 -> same_view s2 s3 -> same_view s1 s3.
Proof.
  intros [a1 a2 a3 a4 a5 a6 a7 a8] [b1 b2 b3 b4 b5 b6 b7 b8]; constructor; intros; congruence.
Qed.

Record Inv (s : state) : Prop := {
  i_fix : s_fix s = true;
  i_live : forall t, c_live (s_ctx s t) = inside (pcof s t);
  i_ctx : forall t, inside (pcof s t) = true ->
          c_made (s_ctx s t) = true /\ c_th (s_ctx s t) = Some t /\ c_phase (s_ctx s t) <> BEFORE_ISSUE;
  i_tag0 : forall t, c_made (s_ctx s t) = true -> 0 < c_tag0 (s_ctx s t) <= s_mtag s;
  i_inj : forall t u, c_made (s_ctx s t) = true -> c_made (s_ctx s u) = true ->
          c_tag0 (s_ctx s t) = c_tag0 (s_ctx s u) -> t = u;
  i_map : forall g c, In (g, c) (s_map s) ->
          inside (pcof s c) = true /\ c_tag0 (s_ctx s c) = g /\ c_phase (s_ctx s c) <> COLLECTED;
  i_ftag : forall t, is_follower (pcof s t) = true -> c_tag (s_ctx s t) = c_tag0 (s_ctx s t);
  i_otag : forall t o, reader_otag (pcof s t) = Some o -> o = c_tag0 (s_ctx s t) /\ s_rlock s = Some t;
  i_adopt : forall t g, adopted_by (pcof s t) = Some g ->
            inside (pcof s g) = true /\ (forall k, ~ In (k, g) (s_map s)) /\
            c_tag (s_ctx s t) = c_tag0 (s_ctx s g) /\
            (g <> t -> is_follower (pcof s g) = true /\ c_phase (s_ctx s g) <> COLLECTED);
  i_acc : forall a, In a (s_acc s) -> a_live a = true }.

Lemma Inv_view s s' : same_view s s' -> Inv s -> Inv s'.
Proof.
  intros [v1 v2 v3 v4 v5 v6 v7 v8] [h1 h2 h3 h4 h5 h6 h7 h8 h9 h10].
  constructor.
  - congruence.
  - intros t. rewrite v1, v2. apply h2.
  - intros t. rewrite v1, v2. apply h3.
  - intros t. rewrite v2, v6. apply h4.
  - intros t u. rewrite !v2. apply h5.
  - intros g c. rewrite v3, v1, v2. apply h6.
  - intros t. rewrite v1, v2. apply h7.
  - intros t o. rewrite v1, v2, v4. apply h8.
  - intros t g. rewrite !v1, !v2, v3. intros H. destruct (h9 t g H) as (a & b & c & d).
    split; [exact a|split; [exact b|split; [exact c|exact d]]].
  - intros a. rewrite v5. apply h10.
Qed.

(* ---- view of the helper operations --------------------------------------------------------------- *)
Lemma updn_same {A} (f : nat -> A) k v : updn f k v k = v.
Proof. unfold updn. rewrite Nat.eqb_refl. reflexivity. Qed.
Lemma updn_other {A} (f : nat -> A) k v x : x <> k -> updn f k v x = f x.
Proof. unfold updn. intros H. destruct (Nat.eqb_spec x k); congruence. Qed.

Lemma pcof_wake s h e x : pcof (wake s h e) x = pcof s x.
Proof. unfold pcof, wake. cbn. unfold updn. destruct (Nat.eqb_spec x h); subst; reflexivity. Qed.

Lemma sv_wake s h e : same_view s (wake s h e).
Proof. constructor; try reflexivity. intros; apply pcof_wake. Qed.

Lemma sv_set_err s t e : same_view s (set_err s t e).
Proof.
  constructor; try reflexivity. intros x. unfold pcof, set_err. cbn. unfold updn.
  destruct (Nat.eqb_spec x t); subst; reflexivity.
Qed.

Lemma sv_interrupt s h e : same_view s (interrupt s h e).
Proof.
  unfold interrupt. destruct (t_stat (s_thr s h)).
  - destruct (t_err (s_thr s h) =? 0). apply sv_set_err. apply same_view_refl.
  - apply sv_wake.
Qed.

Lemma sv_notify_one s : same_view s (notify_one s).
Proof. unfold notify_one. destruct (s_waitq s). apply same_view_refl. apply sv_wake. Qed.

Lemma sv_set_errno s e : same_view s (set_errno s e).
Proof. constructor; reflexivity. Qed.
Lemma sv_set_stmo s e : same_view s (set_stmo s e).
Proof. constructor; reflexivity. Qed.
Lemma sv_set_hdr s e : same_view s (set_hdr s e).
Proof. constructor; reflexivity. Qed.
Lemma sv_set_script s e : same_view s (set_script s e).
Proof. constructor; reflexivity. Qed.
Lemma sv_set_consumed s e : same_view s (set_consumed s e).
Proof. constructor; reflexivity. Qed.
Lemma sv_set_waitq s e : same_view s (set_waitq s e).
Proof. constructor; reflexivity. Qed.
Lemma sv_add_trace s e : same_view s (add_trace s e).
Proof. constructor; reflexivity. Qed.
Lemma sv_shutdown s t : same_view s (stream_shutdown s t).
Proof. constructor; reflexivity. Qed.
Lemma sv_set_now s e : same_view s (set_now s e).
Proof. constructor; reflexivity. Qed.

Lemma sv_usleep_ret s t : same_view s (fst (usleep_ret s t)).
Proof.
  unfold usleep_ret. destruct (t_err (s_thr s t) =? 0); cbn [fst].
  - apply same_view_refl.
  - eapply same_view_trans. apply sv_set_err. apply sv_set_errno.
Qed.

Lemma sv_cvwait_ret s t : same_view s (fst (cvwait_ret s t)).
Proof.
  unfold cvwait_ret. pose proof (sv_usleep_ret s t) as H.
  destruct (usleep_ret s t) as [s1 r]. cbn [fst] in H.
  destruct (r =? 0); cbn [fst].
  - eapply same_view_trans. apply H. apply sv_set_errno.
  - destruct (s_errno s1 =? -1); exact H.
Qed.

(* ---- map facts ----------------------------------------------------------------------------------- *)
Lemma map_find_In g m c : map_find g m = Some c -> In (g, c) m.
Proof.
  induction m as [|[k v] r IH]; cbn; [discriminate|].
  destruct (Z.eqb_spec k g); intros H.
  - inversion H; subst. left; reflexivity.
  - right; auto.
Qed.
Lemma map_find_None g m : map_find g m = None -> forall c, ~ In (g, c) m.
Proof.
  induction m as [|[k v] r IH]; cbn; intros H c; [tauto|].
  destruct (Z.eqb_spec k g); [discriminate|].
  intros [E|E]. inversion E; congruence. eapply IH; eauto.
Qed.
Lemma map_erase_In g m k c : In (k, c) (map_erase g m) <-> In (k, c) m /\ k <> g.
Proof.
  unfold map_erase. rewrite filter_In. cbn. split; intros [H1 H2]; split; auto.
  - destruct (Z.eqb_spec k g); [discriminate|auto].
  - destruct (Z.eqb_spec k g); [contradiction|reflexivity].
Qed.
Lemma map_find_app g m c : map_find g (m ++ [(g, c)]) <> None.
Proof.
  induction m as [|[k v] r IH]; cbn.
  - rewrite Z.eqb_refl. discriminate.
  - destruct (k =? g); [discriminate|exact IH].
Qed.

(* ---- basic consequences of the invariant ------------------------------------------------------------ *)
Lemma inside_follower_or_reader p : inside p = true -> is_reader p = false -> is_follower p = true.
Proof. unfold inside. destruct (is_follower p); cbn; congruence. Qed.

Lemma reader_unique s t u : Inv s -> is_reader (pcof s t) = true -> is_reader (pcof s u) = true -> t = u.
Proof.
  intros I Ht Hu. unfold is_reader in *.
  destruct (reader_otag (pcof s t)) eqn:Et; [|discriminate].
  destruct (reader_otag (pcof s u)) eqn:Eu; [|discriminate].
  destruct (i_otag _ I _ _ Et) as [_ A]. destruct (i_otag _ I _ _ Eu) as [_ B]. congruence.
Qed.

Lemma adopted_is_reader p g : adopted_by p = Some g -> is_reader p = true.
Proof. destruct p; cbn; congruence. Qed.

Lemma erase_keeps_Inv s by_ g ad : Inv s -> Inv (erase_tag s by_ g ad).
Proof.
  intros [h1 h2 h3 h4 h5 h6 h7 h8 h9 h10]. constructor; cbn; auto.
  - intros k c H. apply map_erase_In in H. destruct H as [H _]. exact (h6 _ _ H).
  - intros t g0 H. destruct (h9 t g0 H) as (a & b & c & d).
    split; [exact a|split; [|split; [exact c|exact d]]].
    intros k Hk. apply map_erase_In in Hk. destruct Hk. eapply b; eauto.
Qed.

(* ---- generic transitions ---------------------------------------------------------------------------- *)
Lemma pcof_set_pc s t p x : pcof (set_pc s t p) x = if Nat.eqb x t then p else pcof s x.
Proof. unfold pcof, set_pc. cbn. unfold updn. destruct (Nat.eqb x t); reflexivity. Qed.
Lemma pcof_sleep s t w p x : pcof (sleep s t w p) x = if Nat.eqb x t then p else pcof s x.
Proof. unfold pcof, sleep. cbn. unfold updn. destruct (Nat.eqb x t); reflexivity. Qed.
Lemma ctx_upd_ctx s g c x : s_ctx (upd_ctx s g c) x = if Nat.eqb x g then c else s_ctx s x.
Proof. unfold upd_ctx. cbn. unfold updn. reflexivity. Qed.

(* a state whose view is that of s except that thread t is at p *)
Record pc_upd (s s' : state) (t : tid) (p : pc) : Prop := {
  pu_pc : forall x, pcof s' x = if Nat.eqb x t then p else pcof s x;
  pu_ctx : forall x, s_ctx s' x = s_ctx s x;
  pu_map : s_map s' = s_map s;
  pu_rlock : s_rlock s' = s_rlock s;
  pu_acc : s_acc s' = s_acc s;
  pu_mtag : s_mtag s' = s_mtag s;
  pu_fix : s_fix s' = s_fix s }.

Lemma pc_upd_set_pc s t p : pc_upd s (set_pc s t p) t p.
Proof. constructor; try reflexivity. apply pcof_set_pc. Qed.
Lemma pc_upd_sleep s t w p : pc_upd s (sleep s t w p) t p.
Proof. constructor; try reflexivity. apply pcof_sleep. Qed.

Ltac eqb_case x t := destruct (Nat.eqb_spec x t); [subst x|].

(* the thread stays in the same class (follower / reader with the same o_tag / adopting the same context) *)
Lemma Inv_pc_same_class s s' t p :
  Inv s -> pc_upd s s' t p ->
  is_follower p = is_follower (pcof s t) ->
  reader_otag p = reader_otag (pcof s t) ->
  adopted_by p = adopted_by (pcof s t) ->
  Inv s'.
Proof.
  intros [h1 h2 h3 h4 h5 h6 h7 h8 h9 h10] [u1 u2 u3 u4 u5 u6 u7] Hf Hr Ha.
  assert (Hin : inside p = inside (pcof s t)).
  { unfold inside, is_reader. rewrite Hf, Hr. reflexivity. }
  assert (Hins : forall x, inside (pcof s' x) = inside (pcof s x)).
  { intros x. rewrite u1. eqb_case x t; auto. }
  assert (Hfol : forall x, is_follower (pcof s' x) = is_follower (pcof s x)).
  { intros x. rewrite u1. eqb_case x t; auto. }
  assert (Hro : forall x, reader_otag (pcof s' x) = reader_otag (pcof s x)).
  { intros x. rewrite u1. eqb_case x t; auto. }
  assert (Had : forall x, adopted_by (pcof s' x) = adopted_by (pcof s x)).
  { intros x. rewrite u1. eqb_case x t; auto. }
  constructor.
  - congruence.
  - intros x. rewrite u2, Hins. apply h2.
  - intros x. rewrite u2, Hins. apply h3.
  - intros x. rewrite u2, u6. apply h4.
  - intros x y. rewrite !u2. apply h5.
  - intros g c. rewrite u3, u2, Hins. apply h6.
  - intros x. rewrite u2, Hfol. apply h7.
  - intros x o. rewrite u2, u4, Hro. apply h8.
  - intros x g. rewrite Had, !u2, u3, Hins, Hfol. apply h9.
  - intros a. rewrite u5. apply h10.
Qed.

(* returning from do_call *)
Definition ret_mid (s : state) (r : Z) (w rd : bool) : state :=
  let s1 := if rd then set_rlock s None else s in
  let s2 := if w then notify_one s1 else s1 in
  if r <? 0 then (if s_errno s2 =? ECONNRESET then s2 else set_errno s2 EFAULT) else s2.

Lemma sv_ret_mid s r w (rd : bool) : same_view (if rd then set_rlock s None else s) (ret_mid s r w rd).
Proof.
  unfold ret_mid. set (s1 := if rd then set_rlock s None else s).
  assert (H2 : same_view s1 (if w then notify_one s1 else s1)).
  { destruct w. apply sv_notify_one. apply same_view_refl. }
  set (s2 := if w then notify_one s1 else s1) in *.
  destruct (r <? 0); [|exact H2].
  destruct (s_errno s2 =? ECONNRESET); [exact H2|].
  eapply same_view_trans. exact H2. apply sv_set_errno.
Qed.

Lemma ret_call_view s t r w rd s' :
  s' = ret_call s t r w rd ->
  (forall x, pcof s' x = if Nat.eqb x t then PDone else pcof s x) /\
  (forall x, s_ctx s' x = if Nat.eqb x t then cset_live (s_ctx s t) false else s_ctx s x) /\
  s_map s' = s_map s /\ s_rlock s' = (if rd then None else s_rlock s) /\
  s_acc s' = s_acc s /\ s_mtag s' = s_mtag s /\ s_fix s' = s_fix s.
Proof.
  pose proof (sv_ret_mid s r w rd) as [v1 v2 v3 v4 v5 v6 v7 v8].
  assert (E : ret_call s t r w rd =
              park (add_trace (upd_ctx (ret_mid s r w rd) t (cset_live (s_ctx (ret_mid s r w rd) t) false))
                      (TvRet t (if r <? 0 then -1 else r)
                             (if (if r <? 0 then -1 else r) <? 0 then s_errno (ret_mid s r w rd) else 0)
                             (if (if r <? 0 then -1 else r) <? 0 then [] else c_buf (s_ctx (ret_mid s r w rd) t)) (s_now s))) t)
    by reflexivity.
  intros ->. rewrite E. clear E.
  set (m := ret_mid s r w rd) in *.
  repeat split.
  - intros x. unfold park. rewrite pcof_sleep. destruct (Nat.eqb x t); [reflexivity|].
    change (pcof m x = pcof s x). rewrite v1. destruct rd; reflexivity.
  - intros x. unfold park, sleep, add_trace. cbn. unfold updn.
    destruct (Nat.eqb x t).
    + rewrite v2. destruct rd; reflexivity.
    + rewrite v2. destruct rd; reflexivity.
  - unfold park, sleep, add_trace, upd_ctx. cbn. rewrite v3. destruct rd; reflexivity.
  - unfold park, sleep, add_trace, upd_ctx. cbn. rewrite v4. destruct rd; reflexivity.
  - unfold park, sleep, add_trace, upd_ctx. cbn. rewrite v5. destruct rd; reflexivity.
  - unfold park, sleep, add_trace, upd_ctx. cbn. rewrite v6. destruct rd; reflexivity.
  - unfold park, sleep, add_trace, upd_ctx. cbn. rewrite v7. destruct rd; reflexivity.
Qed.

Lemma Inv_ret s t r w rd :
  Inv s -> inside (pcof s t) = true ->
  (forall k, ~ In (k, t) (s_map s)) ->
  (forall u, u <> t -> adopted_by (pcof s u) <> Some t) ->
  rd = is_reader (pcof s t) ->
  Inv (ret_call s t r w rd).
Proof.
  intros [h1 h2 h3 h4 h5 h6 h7 h8 h9 h10] Hin Hmap Had Hrd.
  destruct (ret_call_view s t r w rd _ eq_refl) as (u1 & u2 & u3 & u4 & u5 & u6 & u7).
  set (s' := ret_call s t r w rd) in *.
  assert (Hm : forall x, c_made (s_ctx s' x) = c_made (s_ctx s x)).
  { intros x. rewrite u2. eqb_case x t; reflexivity. }
  assert (Ht0 : forall x, c_tag0 (s_ctx s' x) = c_tag0 (s_ctx s x)).
  { intros x. rewrite u2. eqb_case x t; reflexivity. }
  constructor.
  - congruence.
  - intros x. rewrite u1, u2. eqb_case x t; [reflexivity|apply h2].
  - intros x. rewrite u1, u2. eqb_case x t; [cbn; discriminate|apply h3].
  - intros x. rewrite Hm, Ht0, u6. apply h4.
  - intros x y. rewrite !Hm, !Ht0. apply h5.
  - intros g c. rewrite u3. intros H. assert (c <> t) by (intros ->; eapply Hmap; eauto).
    rewrite u1, u2. destruct (Nat.eqb_spec c t); [contradiction|]. apply h6; auto.
  - intros x. rewrite u1, u2. eqb_case x t; [cbn; discriminate|apply h7].
  - intros x o. rewrite u1, u2, u4. eqb_case x t; [cbn; discriminate|].
    intros H. destruct (h8 x o H) as [A B]. split; [exact A|].
    destruct rd; [|exact B]. exfalso. apply n.
    assert (Hx : is_reader (pcof s x) = true) by (unfold is_reader; rewrite H; reflexivity).
    symmetry in Hrd.
    assert (I : Inv s) by (constructor; auto).
    eapply reader_unique; eauto.
  - intros x g. rewrite u1. eqb_case x t; [cbn; discriminate|].
    intros H. assert (g <> t) by (intros ->; eapply Had; eauto).
    destruct (h9 x g H) as (a & b & c & d).
    rewrite u1, !u2, u3. destruct (Nat.eqb_spec g t); [contradiction|].
    destruct (Nat.eqb_spec x t); [contradiction|].
    split; [exact a|split; [exact b|split; [exact c|exact d]]].
  - intros a. rewrite u5. apply h10.
Qed.

(* ---- more generic transitions ------------------------------------------------------------------------- *)
Lemma Inv_add_acc s by_ g k : Inv s -> c_live (s_ctx s g) = true -> Inv (add_acc s by_ g k).
Proof.
  intros [h1 h2 h3 h4 h5 h6 h7 h8 h9 h10] L. constructor; cbn; auto.
  intros a [<-|H]; cbn; auto.
Qed.

Lemma Inv_ctx_upd s g c' :
  Inv s ->
  c_made c' = c_made (s_ctx s g) -> c_tag0 c' = c_tag0 (s_ctx s g) -> c_live c' = c_live (s_ctx s g) ->
  c_th c' = c_th (s_ctx s g) ->
  (c_tag c' = c_tag (s_ctx s g) \/ (is_follower (pcof s g) = false /\ forall x, adopted_by (pcof s x) = None)) ->
  (c_phase c' = c_phase (s_ctx s g) \/
   (c_phase c' <> BEFORE_ISSUE /\
    (c_phase c' = COLLECTED -> (forall k, ~ In (k, g) (s_map s)) /\ forall x, x <> g -> adopted_by (pcof s x) <> Some g))) ->
  Inv (upd_ctx s g c').
Proof.
  intros [h1 h2 h3 h4 h5 h6 h7 h8 h9 h10] Em E0 El Eh Et Ep.
  assert (P : forall x, pcof (upd_ctx s g c') x = pcof s x) by reflexivity.
  assert (Hm : forall x, c_made (s_ctx (upd_ctx s g c') x) = c_made (s_ctx s x)).
  { intros x. rewrite ctx_upd_ctx. eqb_case x g; auto. }
  assert (Ht0 : forall x, c_tag0 (s_ctx (upd_ctx s g c') x) = c_tag0 (s_ctx s x)).
  { intros x. rewrite ctx_upd_ctx. eqb_case x g; auto. }
  assert (Hth : forall x, c_th (s_ctx (upd_ctx s g c') x) = c_th (s_ctx s x)).
  { intros x. rewrite ctx_upd_ctx. eqb_case x g; auto. }
  assert (Hl : forall x, c_live (s_ctx (upd_ctx s g c') x) = c_live (s_ctx s x)).
  { intros x. rewrite ctx_upd_ctx. eqb_case x g; auto. }
  constructor.
  - exact h1.
  - intros x. rewrite Hl, P. apply h2.
  - intros x. rewrite Hm, Hth, P. intros H. destruct (h3 x H) as (a & b & c). split; [exact a|split; [exact b|]].
    rewrite ctx_upd_ctx. eqb_case x g; [|exact c]. destruct Ep as [Ep|[Ep _]]; congruence.
  - intros x. rewrite Hm, Ht0. apply h4.
  - intros x y. rewrite !Hm, !Ht0. apply h5.
  - intros k c H. change (s_map (upd_ctx s g c')) with (s_map s) in H.
    destruct (h6 k c H) as (a & b & d). rewrite P, Ht0. split; [exact a|split; [exact b|]].
    rewrite ctx_upd_ctx. eqb_case c g; [|exact d]. destruct Ep as [Ep|[_ Ep]]; [congruence|].
    intros E. destruct (Ep E) as [A _]. eapply A; eauto.
  - intros x. rewrite P, Ht0. intros H. rewrite ctx_upd_ctx. eqb_case x g; [|apply h7; auto].
    destruct Et as [Et|[Et _]]; [rewrite Et; apply h7; auto|congruence].
  - intros x o. rewrite P, Ht0. apply h8.
  - intros x y. rewrite !P, Ht0. change (s_map (upd_ctx s g c')) with (s_map s). intros H.
    destruct (h9 x y H) as (a & b & c & d). split; [exact a|split; [exact b|split]].
    + rewrite ctx_upd_ctx. eqb_case x g; [|exact c].
      destruct Et as [Et|[_ Et]]; [congruence|]. rewrite Et in H. discriminate.
    + intros N. destruct (d N) as [d1 d2]. split; [exact d1|].
      rewrite ctx_upd_ctx. eqb_case y g; [|exact d2]. destruct Ep as [Ep|[_ Ep]]; [congruence|].
      intros E. destruct (Ep E) as [_ B]. eapply B; eauto.
  - exact h10.
Qed.

Lemma Inv_become_reader s t o :
  Inv s -> is_follower (pcof s t) = true -> s_rlock s = None -> o = c_tag (s_ctx s t) ->
  Inv (set_pc (set_rlock s (Some t)) t (PReaderLoop o)).
Proof.
  intros I F R Eo. pose proof I as [h1 h2 h3 h4 h5 h6 h7 h8 h9 h10].
  assert (NR : forall x, reader_otag (pcof s x) = None).
  { intros x. destruct (reader_otag (pcof s x)) eqn:E; auto. destruct (h8 x z E). congruence. }
  assert (NA : forall x, adopted_by (pcof s x) = None).
  { intros x. destruct (adopted_by (pcof s x)) eqn:E; auto. apply adopted_is_reader in E.
    unfold is_reader in E. rewrite NR in E. discriminate. }
  assert (P : forall x, pcof (set_pc (set_rlock s (Some t)) t (PReaderLoop o)) x =
                        if Nat.eqb x t then PReaderLoop o else pcof s x).
  { intros x. rewrite pcof_set_pc. reflexivity. }
  assert (Hin : forall x, inside (pcof (set_pc (set_rlock s (Some t)) t (PReaderLoop o)) x) = inside (pcof s x)).
  { intros x. rewrite P. eqb_case x t; auto. unfold inside. rewrite F. reflexivity. }
  constructor.
  - exact h1.
  - intros x. rewrite Hin. apply h2.
  - intros x. rewrite Hin. apply h3.
  - exact h4.
  - exact h5.
  - intros g c H. rewrite Hin. apply h6. exact H.
  - intros x. rewrite P. eqb_case x t; [cbn; discriminate|apply h7].
  - intros x o'. rewrite P. eqb_case x t.
    + cbn. intros E. inversion E; subst o'. split; [|reflexivity]. rewrite Eo. apply h7. exact F.
    + rewrite NR. discriminate.
  - intros x g. rewrite P. eqb_case x t; [cbn; discriminate|]. rewrite NA. discriminate.
  - exact h10.
Qed.

(* the reader stops adopting (or never was): fewer obligations *)
Lemma Inv_drop_adopt s s' t p :
  Inv s -> pc_upd s s' t p ->
  is_follower p = is_follower (pcof s t) -> reader_otag p = reader_otag (pcof s t) -> adopted_by p = None ->
  Inv s'.
Proof.
  intros [h1 h2 h3 h4 h5 h6 h7 h8 h9 h10] [u1 u2 u3 u4 u5 u6 u7] Hf Hr Ha.
  assert (Hins : forall x, inside (pcof s' x) = inside (pcof s x)).
  { intros x. rewrite u1. eqb_case x t; auto. unfold inside, is_reader. rewrite Hf, Hr. reflexivity. }
  assert (Hfol : forall x, is_follower (pcof s' x) = is_follower (pcof s x)).
  { intros x. rewrite u1. eqb_case x t; auto. }
  assert (Hro : forall x, reader_otag (pcof s' x) = reader_otag (pcof s x)).
  { intros x. rewrite u1. eqb_case x t; auto. }
  constructor.
  - congruence.
  - intros x. rewrite u2, Hins. apply h2.
  - intros x. rewrite u2, Hins. apply h3.
  - intros x. rewrite u2, u6. apply h4.
  - intros x y. rewrite !u2. apply h5.
  - intros g c. rewrite u3, u2, Hins. apply h6.
  - intros x. rewrite u2, Hfol. apply h7.
  - intros x o. rewrite u2, u4, Hro. apply h8.
  - intros x g. rewrite u1. eqb_case x t; [rewrite Ha; discriminate|].
    rewrite !u2, u3, Hins, Hfol. apply h9.
  - intros a. rewrite u5. apply h10.
Qed.

(* the reader starts collecting targ's body *)
Lemma Inv_start_body s s' t otag targ p :
  Inv s -> pc_upd s s' t p ->
  reader_otag (pcof s t) = Some otag -> reader_otag p = Some otag -> adopted_by p = Some targ ->
  inside (pcof s targ) = true -> (forall k, ~ In (k, targ) (s_map s)) ->
  c_tag (s_ctx s t) = c_tag0 (s_ctx s targ) -> c_phase (s_ctx s targ) <> COLLECTED ->
  Inv s'.
Proof.
  intros I [u1 u2 u3 u4 u5 u6 u7] Ro Rp Ap Tin Tmap Ttag Tph.
  pose proof I as [h1 h2 h3 h4 h5 h6 h7 h8 h9 h10].
  assert (Ft : is_follower (pcof s t) = false) by (destruct (pcof s t); cbn in *; congruence).
  assert (Fp : is_follower p = false) by (destruct p; cbn in *; congruence).
  assert (Hins : forall x, inside (pcof s' x) = inside (pcof s x)).
  { intros x. rewrite u1. eqb_case x t; auto. unfold inside, is_reader. rewrite Ft, Fp, Ro, Rp. reflexivity. }
  assert (Hfol : forall x, is_follower (pcof s' x) = is_follower (pcof s x)).
  { intros x. rewrite u1. eqb_case x t; auto. congruence. }
  assert (Hro : forall x, reader_otag (pcof s' x) = reader_otag (pcof s x)).
  { intros x. rewrite u1. eqb_case x t; auto. congruence. }
  constructor.
  - congruence.
  - intros x. rewrite u2, Hins. apply h2.
  - intros x. rewrite u2, Hins. apply h3.
  - intros x. rewrite u2, u6. apply h4.
  - intros x y. rewrite !u2. apply h5.
  - intros g c. rewrite u3, u2, Hins. apply h6.
  - intros x. rewrite u2, Hfol. apply h7.
  - intros x o. rewrite u2, u4, Hro. apply h8.
  - intros x g. rewrite u1. eqb_case x t.
    + rewrite Ap. intros E. inversion E; subst g. rewrite !u2, u3, Hins, Hfol.
      split; [exact Tin|split; [exact Tmap|split; [exact Ttag|]]].
      intros N. split; [|exact Tph]. apply inside_follower_or_reader; [exact Tin|].
      destruct (is_reader (pcof s targ)) eqn:E'; [|reflexivity]. exfalso. apply N.
      eapply reader_unique; eauto. unfold is_reader. rewrite Ro. reflexivity.
    + rewrite !u2, u3, Hins, Hfol. apply h9.
  - intros a. rewrite u5. apply h10.
Qed.

(* the reader has collected another thread's response: COLLECTED, and back to the top of the loop *)
Lemma Inv_collect_other s s' t otag targ c' :
  Inv s -> adopted_by (pcof s t) = Some targ -> reader_otag (pcof s t) = Some otag -> targ <> t ->
  (forall x, pcof s' x = if Nat.eqb x t then PReaderLoop otag else pcof s x) ->
  (forall x, s_ctx s' x = if Nat.eqb x targ then c' else s_ctx s x) ->
  c_made c' = c_made (s_ctx s targ) -> c_tag0 c' = c_tag0 (s_ctx s targ) -> c_live c' = c_live (s_ctx s targ) ->
  c_th c' = c_th (s_ctx s targ) -> c_tag c' = c_tag (s_ctx s targ) -> c_phase c' = COLLECTED ->
  s_map s' = s_map s -> s_rlock s' = s_rlock s ->
  (forall a, In a (s_acc s') -> In a (s_acc s) \/ a_live a = true) ->
  s_mtag s' = s_mtag s -> s_fix s' = s_fix s ->
  Inv s'.
Proof.
  intros I Ad Ro N u1 u2 Em E0 El Eh Et Ep u3 u4 u5 u6 u7.
  pose proof I as [h1 h2 h3 h4 h5 h6 h7 h8 h9 h10].
  destruct (h9 t targ Ad) as (Tin & Tmap & Ttag & Tf). destruct (Tf N) as [Tfol Tph].
  assert (Hins : forall x, inside (pcof s' x) = inside (pcof s x)).
  { intros x. rewrite u1. eqb_case x t; auto. unfold inside, is_reader. rewrite Ro.
    destruct (pcof s t); cbn in *; congruence. }
  assert (Hfol : forall x, is_follower (pcof s' x) = is_follower (pcof s x)).
  { intros x. rewrite u1. eqb_case x t; auto. destruct (pcof s t); cbn in *; congruence. }
  assert (Hro : forall x, reader_otag (pcof s' x) = reader_otag (pcof s x)).
  { intros x. rewrite u1. eqb_case x t; auto. }
  assert (Hm : forall x, c_made (s_ctx s' x) = c_made (s_ctx s x)).
  { intros x. rewrite u2. eqb_case x targ; auto. }
  assert (Ht0 : forall x, c_tag0 (s_ctx s' x) = c_tag0 (s_ctx s x)).
  { intros x. rewrite u2. eqb_case x targ; auto. }
  assert (Hth : forall x, c_th (s_ctx s' x) = c_th (s_ctx s x)).
  { intros x. rewrite u2. eqb_case x targ; auto. }
  assert (Hl : forall x, c_live (s_ctx s' x) = c_live (s_ctx s x)).
  { intros x. rewrite u2. eqb_case x targ; auto. }
  assert (Htg : forall x, c_tag (s_ctx s' x) = c_tag (s_ctx s x)).
  { intros x. rewrite u2. eqb_case x targ; auto. }
  constructor.
  - congruence.
  - intros x. rewrite Hl, Hins. apply h2.
  - intros x. rewrite Hm, Hth, Hins. intros H. destruct (h3 x H) as (a & b & c). split; [exact a|split; [exact b|]].
    rewrite u2. eqb_case x targ; [|exact c]. rewrite Ep. discriminate.
  - intros x. rewrite Hm, Ht0, u6. apply h4.
  - intros x y. rewrite !Hm, !Ht0. apply h5.
  - intros k c. rewrite u3, Hins, Ht0. intros H. destruct (h6 k c H) as (a & b & d).
    split; [exact a|split; [exact b|]]. rewrite u2. eqb_case c targ; [|exact d]. exfalso. eapply Tmap; eauto.
  - intros x. rewrite Htg, Ht0, Hfol. apply h7.
  - intros x o. rewrite Ht0, u4, Hro. apply h8.
  - intros x g. rewrite u1. eqb_case x t; [cbn; discriminate|].
    intros H. assert (R : is_reader (pcof s x) = true) by (eapply adopted_is_reader; eauto).
    exfalso. apply n. eapply reader_unique; eauto. unfold is_reader. rewrite Ro. reflexivity.
  - intros a H. destruct (u5 a H); auto.
Qed.
