(* C11_Model.v — executable model of the RPC out-of-order engine on ONE vCPU.

   Anchors (pinned tree):
     rpc/out-of-order-execution.cpp  OooEngine::issue_operation (61-109), wait_completion (113-227)
     rpc/rpc.cpp                     StubImpl::do_send (65-92), do_recv_header (93-117),
                                     do_recv_body (118-137), OooArgs (138-157), do_call (159-183)
     thread/thread.cpp               cvar_do_wait (1863-1878), waitq_translate_errno (1695),
                                     thread_interrupt / prelocked_thread_interrupt (1459-1492),
                                     set_error_number (232-239), resume_threads (1263-1304), idler (2092-2121)

   EXECUTABLE DEFINITIONS ONLY (proofs in C11_Proofs*.v).

   The stub must stay on one vCPU (rpc.h 69-70), so the cooperative model is the full model: a photon
   thread runs until it blocks.  Thread i performs call i with context i (the OooArgs on its stack).
   A thread's code between two blocking points is cut into MICRO steps (`micro`); the transition
   system (`step`) lets ANY ready thread make a micro step at any time, lets any expired sleeper be
   woken, and lets time advance by any amount — a superset of the schedules of the real scheduler.
   The deterministic cooperative run (`drive`: run queue ring + the C04 sleep-queue heap + the idler)
   applies `step` only, so every state it visits is reachable and it is compared verbatim with the
   real stub under the E2 virtual clock.

   `s_fix` selects the follower time-out path: false = the pinned code (146-160), true = the code
   with repo_patches/C11-fix-follower-timeout.diff.

   Not modelled (see notes/C11.md): a blocking `writev` (the scripted stream's write never blocks, so
   `m_mutex_w` is never contended), `shutdown()` of the engine, user-defined tags, `set_stream`;
   `m_tag` does not wrap (needs 2^64 calls).  Spinlocks (`phaselock`) and `m_mutex_map` are never held
   across a blocking point, hence invisible on one vCPU. *)
From Coq Require Import ZArith List Bool Arith.
From PV Require Import Base.U64 C04.C04_Heap.
Import ListNotations.
Local Open Scope Z_scope.

(* errno values (Linux) *)
Definition ENOENT : Z := 2.
Definition EINTR : Z := 4.
Definition EFAULT : Z := 14.
Definition EINVAL : Z := 22.
Definition EPIPE : Z := 32.
Definition ECONNRESET : Z := 104.
Definition ETIMEDOUT : Z := 110.

Definition MAGIC : Z := 0x87de5d02e6ab95c7.     (* rpc::Header::MAGIC, rpc.h 46 *)
Definition VERSION : Z := 0.
Definition HDRLEN : nat := 40.

Inductive phase : Type := BEFORE_ISSUE | ISSUED | WAITING | COLLECTED.
Definition phase_eqb (a b : phase) : bool :=
  match a, b with
  | BEFORE_ISSUE, BEFORE_ISSUE | ISSUED, ISSUED | WAITING, WAITING | COLLECTED, COLLECTED => true
  | _, _ => false
  end.

(* one call of the program: start delay (µs), rpc timeout (µs; MAX64 = none), request bytes *)
Record call : Type := mkCall { k_start : Z; k_tmo : Z; k_req : Z }.
Definition dummy_call : call := mkCall 0 0 0.

(* scripted stream: what the peer sends and when (absolute virtual times) *)
Inductive sev : Type := SData (t : Z) (bs : list Z) | SEof (t : Z).

Inductive tstat : Type := TReady | TSleep (dl : Z).

(* where a caller thread is.  Reader states carry o_tag (line 171). *)
Inductive pc : Type :=
| PInit                                   (* thread created *)
| PStartSleep                             (* in thread_usleep(start) *)
| PCall                                   (* about to call do_call *)
| PWaitLoop (tmo : Z)                     (* top of the for-loop, 130; tmo = the deadline of m_wait.wait *)
| PParked (tmo : Z)                       (* inside m_wait.wait, 146 *)
| PReaderLoop (otag : Z)                  (* top of for(;;), 173 *)
| PHdrRead (otag : Z) (got : nat) (dl : Z)          (* inside m_stream->read(&m_header,40): running *)
| PHdrSleep (otag : Z) (got : nat) (dl : Z)         (* ... sleeping until more bytes / the deadline *)
| PBodyRead (otag : Z) (targ : tid) (size need : nat) (dl : Z)    (* inside readv of targ's body *)
| PBodySleep (otag : Z) (targ : tid) (size need : nat) (dl : Z)
| PDone.                                  (* do_call has returned; parked for ever *)

Record thr : Type := mkThr { t_pc : pc; t_stat : tstat; t_err : Z (* thread::error_number *) }.

(* observable trace: what the scripted stream and the callers see (same events as the harness) *)
Inductive tev : Type :=
| TvWrite (t : tid) (tag size ret now : Z)
| TvHdr (t : tid) (tmo ret now : Z)
| TvChunk (t : tid) (owner : tid) (dead : bool) (n : nat) (now : Z)
| TvBody (t : tid) (owner : option tid) (dead : bool) (tmo ret now : Z)
| TvShut (t : tid) (now : Z)
| TvRet (t : tid) (ret errno : Z) (payload : list Z) (now : Z).

(* ghost: accesses to a context (or its buffers) by a thread OTHER than its owner *)
Inductive akind : Type := AkAdopt | AkBuf | AkRet | AkPhase.
Record access : Type := mkAcc { a_by : tid; a_ctx : tid; a_kind : akind; a_live : bool }.

(* ghost: every m_map.erase: who, which tag, and whether it is the reader taking over (adopting) a context *)
Record erase_ev : Type := mkErase { e_by : tid; e_tag : Z; e_adopt : option tid }.

Record ctx : Type := mkCtx {
  c_tag : Z;
  c_phase : phase;
  c_ret : Z;
  c_th : option tid;
  c_dl : Z;
  c_live : bool;
  c_buf : list Z;
  c_tag0 : Z;
  c_hoff : nat;
  c_made : bool }.

Definition cset_tag (c : ctx) (v : Z) : ctx :=
  mkCtx v (c_phase c) (c_ret c) (c_th c) (c_dl c) (c_live c) (c_buf c) (c_tag0 c) (c_hoff c) (c_made c).
Definition cset_phase (c : ctx) (v : phase) : ctx :=
  mkCtx (c_tag c) v (c_ret c) (c_th c) (c_dl c) (c_live c) (c_buf c) (c_tag0 c) (c_hoff c) (c_made c).
Definition cset_ret (c : ctx) (v : Z) : ctx :=
  mkCtx (c_tag c) (c_phase c) v (c_th c) (c_dl c) (c_live c) (c_buf c) (c_tag0 c) (c_hoff c) (c_made c).
Definition cset_th (c : ctx) (v : option tid) : ctx :=
  mkCtx (c_tag c) (c_phase c) (c_ret c) v (c_dl c) (c_live c) (c_buf c) (c_tag0 c) (c_hoff c) (c_made c).
Definition cset_dl (c : ctx) (v : Z) : ctx :=
  mkCtx (c_tag c) (c_phase c) (c_ret c) (c_th c) v (c_live c) (c_buf c) (c_tag0 c) (c_hoff c) (c_made c).
Definition cset_live (c : ctx) (v : bool) : ctx :=
  mkCtx (c_tag c) (c_phase c) (c_ret c) (c_th c) (c_dl c) v (c_buf c) (c_tag0 c) (c_hoff c) (c_made c).
Definition cset_buf (c : ctx) (v : list Z) : ctx :=
  mkCtx (c_tag c) (c_phase c) (c_ret c) (c_th c) (c_dl c) (c_live c) v (c_tag0 c) (c_hoff c) (c_made c).
Definition cset_tag0 (c : ctx) (v : Z) : ctx :=
  mkCtx (c_tag c) (c_phase c) (c_ret c) (c_th c) (c_dl c) (c_live c) (c_buf c) v (c_hoff c) (c_made c).
Definition cset_hoff (c : ctx) (v : nat) : ctx :=
  mkCtx (c_tag c) (c_phase c) (c_ret c) (c_th c) (c_dl c) (c_live c) (c_buf c) (c_tag0 c) v (c_made c).
Definition cset_made (c : ctx) (v : bool) : ctx :=
  mkCtx (c_tag c) (c_phase c) (c_ret c) (c_th c) (c_dl c) (c_live c) (c_buf c) (c_tag0 c) (c_hoff c) v.


Record state : Type := mkState {
  s_fix : bool;
  s_calls : list call;
  s_thr : tid -> thr;
  s_ctx : tid -> ctx;
  s_map : list (Z * tid);
  s_mtag : Z;
  s_rlock : option tid;
  s_waitq : list tid;
  s_woken : list tid;
  s_script : list sev;
  s_shut : bool;
  s_stmo : Z;
  s_hdr : list Z;
  s_now : Z;
  s_errno : Z;
  s_bad : bool;
  s_trace : list tev;
  s_acc : list access;
  s_consumed : list Z;
  s_erases : list erase_ev }.

Definition set_fix (s : state) (v : bool) : state :=
  mkState v (s_calls s) (s_thr s) (s_ctx s) (s_map s) (s_mtag s) (s_rlock s) (s_waitq s) (s_woken s) (s_script s) (s_shut s) (s_stmo s) (s_hdr s) (s_now s) (s_errno s) (s_bad s) (s_trace s) (s_acc s) (s_consumed s) (s_erases s).
Definition set_calls (s : state) (v : list call) : state :=
  mkState (s_fix s) v (s_thr s) (s_ctx s) (s_map s) (s_mtag s) (s_rlock s) (s_waitq s) (s_woken s) (s_script s) (s_shut s) (s_stmo s) (s_hdr s) (s_now s) (s_errno s) (s_bad s) (s_trace s) (s_acc s) (s_consumed s) (s_erases s).
Definition set_thr (s : state) (v : tid -> thr) : state :=
  mkState (s_fix s) (s_calls s) v (s_ctx s) (s_map s) (s_mtag s) (s_rlock s) (s_waitq s) (s_woken s) (s_script s) (s_shut s) (s_stmo s) (s_hdr s) (s_now s) (s_errno s) (s_bad s) (s_trace s) (s_acc s) (s_consumed s) (s_erases s).
Definition set_ctx (s : state) (v : tid -> ctx) : state :=
  mkState (s_fix s) (s_calls s) (s_thr s) v (s_map s) (s_mtag s) (s_rlock s) (s_waitq s) (s_woken s) (s_script s) (s_shut s) (s_stmo s) (s_hdr s) (s_now s) (s_errno s) (s_bad s) (s_trace s) (s_acc s) (s_consumed s) (s_erases s).
Definition set_map (s : state) (v : list (Z * tid)) : state :=
  mkState (s_fix s) (s_calls s) (s_thr s) (s_ctx s) v (s_mtag s) (s_rlock s) (s_waitq s) (s_woken s) (s_script s) (s_shut s) (s_stmo s) (s_hdr s) (s_now s) (s_errno s) (s_bad s) (s_trace s) (s_acc s) (s_consumed s) (s_erases s).
Definition set_mtag (s : state) (v : Z) : state :=
  mkState (s_fix s) (s_calls s) (s_thr s) (s_ctx s) (s_map s) v (s_rlock s) (s_waitq s) (s_woken s) (s_script s) (s_shut s) (s_stmo s) (s_hdr s) (s_now s) (s_errno s) (s_bad s) (s_trace s) (s_acc s) (s_consumed s) (s_erases s).
Definition set_rlock (s : state) (v : option tid) : state :=
  mkState (s_fix s) (s_calls s) (s_thr s) (s_ctx s) (s_map s) (s_mtag s) v (s_waitq s) (s_woken s) (s_script s) (s_shut s) (s_stmo s) (s_hdr s) (s_now s) (s_errno s) (s_bad s) (s_trace s) (s_acc s) (s_consumed s) (s_erases s).
Definition set_waitq (s : state) (v : list tid) : state :=
  mkState (s_fix s) (s_calls s) (s_thr s) (s_ctx s) (s_map s) (s_mtag s) (s_rlock s) v (s_woken s) (s_script s) (s_shut s) (s_stmo s) (s_hdr s) (s_now s) (s_errno s) (s_bad s) (s_trace s) (s_acc s) (s_consumed s) (s_erases s).
Definition set_woken (s : state) (v : list tid) : state :=
  mkState (s_fix s) (s_calls s) (s_thr s) (s_ctx s) (s_map s) (s_mtag s) (s_rlock s) (s_waitq s) v (s_script s) (s_shut s) (s_stmo s) (s_hdr s) (s_now s) (s_errno s) (s_bad s) (s_trace s) (s_acc s) (s_consumed s) (s_erases s).
Definition set_script (s : state) (v : list sev) : state :=
  mkState (s_fix s) (s_calls s) (s_thr s) (s_ctx s) (s_map s) (s_mtag s) (s_rlock s) (s_waitq s) (s_woken s) v (s_shut s) (s_stmo s) (s_hdr s) (s_now s) (s_errno s) (s_bad s) (s_trace s) (s_acc s) (s_consumed s) (s_erases s).
Definition set_shut (s : state) (v : bool) : state :=
  mkState (s_fix s) (s_calls s) (s_thr s) (s_ctx s) (s_map s) (s_mtag s) (s_rlock s) (s_waitq s) (s_woken s) (s_script s) v (s_stmo s) (s_hdr s) (s_now s) (s_errno s) (s_bad s) (s_trace s) (s_acc s) (s_consumed s) (s_erases s).
Definition set_stmo (s : state) (v : Z) : state :=
  mkState (s_fix s) (s_calls s) (s_thr s) (s_ctx s) (s_map s) (s_mtag s) (s_rlock s) (s_waitq s) (s_woken s) (s_script s) (s_shut s) v (s_hdr s) (s_now s) (s_errno s) (s_bad s) (s_trace s) (s_acc s) (s_consumed s) (s_erases s).
Definition set_hdr (s : state) (v : list Z) : state :=
  mkState (s_fix s) (s_calls s) (s_thr s) (s_ctx s) (s_map s) (s_mtag s) (s_rlock s) (s_waitq s) (s_woken s) (s_script s) (s_shut s) (s_stmo s) v (s_now s) (s_errno s) (s_bad s) (s_trace s) (s_acc s) (s_consumed s) (s_erases s).
Definition set_now (s : state) (v : Z) : state :=
  mkState (s_fix s) (s_calls s) (s_thr s) (s_ctx s) (s_map s) (s_mtag s) (s_rlock s) (s_waitq s) (s_woken s) (s_script s) (s_shut s) (s_stmo s) (s_hdr s) v (s_errno s) (s_bad s) (s_trace s) (s_acc s) (s_consumed s) (s_erases s).
Definition set_errno (s : state) (v : Z) : state :=
  mkState (s_fix s) (s_calls s) (s_thr s) (s_ctx s) (s_map s) (s_mtag s) (s_rlock s) (s_waitq s) (s_woken s) (s_script s) (s_shut s) (s_stmo s) (s_hdr s) (s_now s) v (s_bad s) (s_trace s) (s_acc s) (s_consumed s) (s_erases s).
Definition set_bad (s : state) (v : bool) : state :=
  mkState (s_fix s) (s_calls s) (s_thr s) (s_ctx s) (s_map s) (s_mtag s) (s_rlock s) (s_waitq s) (s_woken s) (s_script s) (s_shut s) (s_stmo s) (s_hdr s) (s_now s) (s_errno s) v (s_trace s) (s_acc s) (s_consumed s) (s_erases s).
Definition set_trace (s : state) (v : list tev) : state :=
  mkState (s_fix s) (s_calls s) (s_thr s) (s_ctx s) (s_map s) (s_mtag s) (s_rlock s) (s_waitq s) (s_woken s) (s_script s) (s_shut s) (s_stmo s) (s_hdr s) (s_now s) (s_errno s) (s_bad s) v (s_acc s) (s_consumed s) (s_erases s).
Definition set_acc (s : state) (v : list access) : state :=
  mkState (s_fix s) (s_calls s) (s_thr s) (s_ctx s) (s_map s) (s_mtag s) (s_rlock s) (s_waitq s) (s_woken s) (s_script s) (s_shut s) (s_stmo s) (s_hdr s) (s_now s) (s_errno s) (s_bad s) (s_trace s) v (s_consumed s) (s_erases s).
Definition set_consumed (s : state) (v : list Z) : state :=
  mkState (s_fix s) (s_calls s) (s_thr s) (s_ctx s) (s_map s) (s_mtag s) (s_rlock s) (s_waitq s) (s_woken s) (s_script s) (s_shut s) (s_stmo s) (s_hdr s) (s_now s) (s_errno s) (s_bad s) (s_trace s) (s_acc s) v (s_erases s).
Definition set_erases (s : state) (v : list erase_ev) : state :=
  mkState (s_fix s) (s_calls s) (s_thr s) (s_ctx s) (s_map s) (s_mtag s) (s_rlock s) (s_waitq s) (s_woken s) (s_script s) (s_shut s) (s_stmo s) (s_hdr s) (s_now s) (s_errno s) (s_bad s) (s_trace s) (s_acc s) (s_consumed s) v.

Definition updn {A : Type} (f : nat -> A) (k : nat) (v : A) : nat -> A :=
  fun x => if Nat.eqb x k then v else f x.

Definition dead_ctx : ctx := mkCtx 0 BEFORE_ISSUE (-1) None 0 false [] 0 0 false.

(* ---- small helpers ------------------------------------------------------------------------ *)
Definition thr_of (s : state) (t : tid) : thr := s_thr s t.
Definition set_pc (s : state) (t : tid) (p : pc) : state :=
  set_thr s (updn (s_thr s) t (mkThr p (t_stat (s_thr s t)) (t_err (s_thr s t)))).
Definition set_err (s : state) (t : tid) (e : Z) : state :=
  set_thr s (updn (s_thr s) t (mkThr (t_pc (s_thr s t)) (t_stat (s_thr s t)) e)).
Definition sleep (s : state) (t : tid) (w : Z) (p : pc) : state :=
  set_thr s (updn (s_thr s) t (mkThr p (TSleep w) (t_err (s_thr s t)))).
Definition upd_ctx (s : state) (t : tid) (c : ctx) : state := set_ctx s (updn (s_ctx s) t c).
Definition add_trace (s : state) (e : tev) : state := set_trace s (e :: s_trace s).
Definition add_acc (s : state) (by_ c : tid) (k : akind) : state :=
  set_acc s (mkAcc by_ c k (c_live (s_ctx s c)) :: s_acc s).

Definition remove_tid (t : tid) (l : list tid) : list tid := filter (fun x => negb (Nat.eqb x t)) l.

(* prelocked_thread_interrupt, same-vCPU arm (1459-1475): error_number := e; leave the wait queue
   and the sleep queue; READY at the run queue's tail *)
Definition wake (s : state) (t : tid) (e : Z) : state :=
  set_woken (set_waitq (set_thr s (updn (s_thr s) t (mkThr (t_pc (s_thr s t)) TReady e)))
                       (remove_tid t (s_waitq s)))
            (s_woken s ++ [t]).
(* thread_interrupt (1476-1492) *)
Definition interrupt (s : state) (t : tid) (e : Z) : state :=
  match t_stat (s_thr s t) with
  | TSleep _ => wake s t e
  | TReady => if t_err (s_thr s t) =? 0 then set_err s t e else s
  end.
(* condition_variable::notify_one = waitq::resume_one(-1) (1740) *)
Definition notify_one (s : state) : state :=
  match s_waitq s with [] => s | h :: _ => wake s h (-1) end.

(* thread::set_error_number (232-239) at the return of a sleep *)
Definition usleep_ret (s : state) (t : tid) : state * Z :=
  let e := t_err (s_thr s t) in
  if e =? 0 then (s, 0) else (set_errno (set_err s t 0) e, -1).
(* cvar_do_wait + waitq_translate_errno *)
Definition cvwait_ret (s : state) (t : tid) : state * Z :=
  let '(s1, r) := usleep_ret s t in
  if r =? 0 then (set_errno s1 ETIMEDOUT, -1)
  else if s_errno s1 =? -1 then (s1, 0) else (s1, -1).

(* unordered_map<uint64_t, OutOfOrderContext*> *)
Fixpoint map_find (g : Z) (m : list (Z * tid)) : option tid :=
  match m with [] => None | (k, v) :: r => if k =? g then Some v else map_find g r end.
Definition map_erase (g : Z) (m : list (Z * tid)) : list (Z * tid) :=
  filter (fun kv => negb (fst kv =? g)) m.
Definition map_mem (g : Z) (m : list (Z * tid)) : bool :=
  match map_find g m with Some _ => true | None => false end.
Definition erase_tag (s : state) (by_ : tid) (g : Z) (ad : option tid) : state :=
  set_erases (set_map s (map_erase g (s_map s))) (mkErase by_ g ad :: s_erases s).

(* rpc::Header, little endian: magic[0,8) version[8,12) size[12,16) function[16,24) tag[24,32) reserved[32,40) *)
Fixpoint le_dec (bs : list Z) : Z := match bs with [] => 0 | b :: r => b + 256 * le_dec r end.
Definition slice (bs : list Z) (off len : nat) : list Z := firstn len (skipn off bs).
Definition hdr_magic (h : list Z) : Z := le_dec (slice h 0 8).
Definition hdr_version (h : list Z) : Z := le_dec (slice h 8 4).
Definition hdr_size (h : list Z) : Z := le_dec (slice h 12 4).
Definition hdr_tag (h : list Z) : Z := le_dec (slice h 24 8).
Fixpoint le_enc (n : nat) (v : Z) : list Z :=
  match n with O => [] | S m => (v mod 256) :: le_enc m (v / 256) end.
Definition mk_hdr (tag size : Z) : list Z :=
  le_enc 8 MAGIC ++ le_enc 4 VERSION ++ le_enc 4 size ++ le_enc 8 0 ++ le_enc 8 tag ++ le_enc 8 0.
Definition overwrite (h : list Z) (off : nat) (g : list Z) : list Z :=
  firstn off h ++ g ++ skipn (off + length g) h.

(* ---- the scripted stream (harness/C11/harness.cpp ScriptStream::do_read) ------------------ *)
(* take up to n bytes that have arrived by `now` *)
Fixpoint stake (now : Z) (n : nat) (sc : list sev) {struct sc} : list Z * list sev :=
  match n with
  | O => ([], sc)
  | _ =>
    match sc with
    | [] => ([], [])
    | SEof t :: r => ([], sc)
    | SData t bs :: r =>
        if t <=? now then
          if Nat.leb (length bs) n
          then let '(g, sc') := stake now (n - length bs) r in (bs ++ g, sc')
          else (firstn n bs, SData t (skipn n bs) :: r)
        else ([], sc)
    end
  end.

Inductive rstat : Type := RS_full | RS_eof | RS_timeout | RS_block (w : Z).
Definition read_status (now dl : Z) (remaining : nat) (sc : list sev) : rstat :=
  match remaining with
  | O => RS_full
  | _ =>
    match sc with
    | SEof te :: _ => if te <=? now then RS_eof
                      else if dl <=? now then RS_timeout else RS_block (Z.min dl te)
    | SData td _ :: _ => if dl <=? now then RS_timeout else RS_block (Z.min dl td)
    | [] => if dl <=? now then RS_timeout else RS_block dl
    end
  end.

Definition stream_shutdown (s : state) (t : tid) : state :=
  add_trace (set_shut s true) (TvShut t (s_now s)).

(* ---- returning from do_call ------------------------------------------------------------------ *)
Definition park (s : state) (t : tid) : state := sleep s t MAX64 PDone.

(* wait_completion / issue_operation returned r.  DEFERs in reverse order of declaration:
   m_mutex_r.unlock() (172) then m_wait.notify_one() (123); then do_call 167-183; the context dies. *)
Definition ret_call (s : state) (t : tid) (r : Z) (in_wait reader : bool) : state :=
  let s1 := if reader then set_rlock s None else s in
  let s2 := if in_wait then notify_one s1 else s1 in
  let s3 := if r <? 0 then (if s_errno s2 =? ECONNRESET then s2 else set_errno s2 EFAULT) else s2 in
  let rr := if r <? 0 then -1 else r in
  let c := s_ctx s3 t in
  let s4 := upd_ctx s3 t (cset_live c false) in
  let s5 := add_trace s4 (TvRet t rr (if rr <? 0 then s_errno s3 else 0)
                                 (if rr <? 0 then [] else c_buf c) (s_now s)) in
  park s5 t.

(* do_call 161-163: "Timed out before rpc start" — no context was created *)
Definition ret_nocall (s : state) (t : tid) : state :=
  park (add_trace s (TvRet t (-1) (s_errno s) [] (s_now s))) t.

(* StubImpl::do_send (rpc.cpp 65-92) over the scripted stream (whose writev never blocks) *)
Definition do_send (s3 : state) (t : tid) (tag dl : Z) : state * Z :=
  let k := nth t (s_calls s3) dummy_call in
  let now := s_now s3 in
  if dl <? now then (set_errno s3 ETIMEDOUT, -1)                  (* rpc.cpp 68 *)
  else if 4294967295 <? k_req k then (set_errno s3 EINVAL, -1)    (* 72 *)
  else
    let wr := if s_shut s3 then -1 else k_req k + 40 in           (* mock writev *)
    let s3a := if s_shut s3 then set_errno s3 EPIPE else s3 in
    let s3b := add_trace s3a (TvWrite t tag (k_req k) wr now) in
    if wr =? k_req k + 40 then (s3b, 0)
    else (set_errno (stream_shutdown s3b t) ECONNRESET, -1).      (* 86-90 *)

(* ---- PCall: do_call up to the wait loop ------------------------------------------------------ *)
Definition step_call (s : state) (t : tid) : state :=
  let k := nth t (s_calls s) dummy_call in
  let now := s_now s in
  let exp := if k_tmo k =? 0 then 0 else sat_add now (k_tmo k) in       (* harness: Timeout tmo(k_tmo) *)
  if exp <? now then ret_nocall (set_errno s ETIMEDOUT) t               (* 161 *)
  else
    let rem := sat_sub exp now in                                       (* tmo.timeout(), 165 *)
    let dl := if rem =? 0 then 0 else sat_add now rem in                (* OooArgs: timeout = Timeout(rem) *)
    (* issue_operation 61-106 *)
    let tag := s_mtag s + 1 in                                          (* 71 *)
    let s1 := set_mtag s tag in
    let s2 := upd_ctx s1 t (mkCtx tag BEFORE_ISSUE 0 (Some t) dl true [] tag 0 true) in   (* 73-78 *)
    match map_find tag (s_map s2) with
    | Some _ => set_bad s2 true                                         (* `goto again` — never: tags are fresh *)
    | None =>
      let s3 := set_map s2 (s_map s2 ++ [(tag, t)]) in                  (* 81 *)
      let '(s4, r2) := do_send s3 t tag dl in
      if r2 <? 0 then                                                   (* 95-100 *)
        ret_call (erase_tag s4 t tag None) t (-1) false false
      else
        let s5 := upd_ctx s4 t (cset_phase (s_ctx s4 t) ISSUED) in      (* 103 *)
        (* wait_completion 113-129 *)
        match map_find (c_tag (s_ctx s5 t)) (s_map s5) with
        | None => ret_call (set_errno s5 EINVAL) t (-1) false false     (* 118-121 *)
        | Some _ =>
          match c_phase (s_ctx s5 t) with
          | BEFORE_ISSUE | WAITING => ret_call (set_errno s5 EINVAL) t (-1) true false   (* 126-129 *)
          | _ => set_pc s5 t (PWaitLoop dl)                             (* `auto timeout = args.timeout` *)
          end
        end
    end.

(* ---- PWaitLoop: the for-loop 130-166 (phaselock held) ---------------------------------------- *)
Definition step_waitloop (s : state) (t : tid) (tmo : Z) : state :=
  let c := s_ctx s t in
  match c_phase c with
  | COLLECTED =>                                                        (* 132-136 *)
      match c_th c with
      | Some h => if Nat.eqb h t then ret_call s t (c_ret c) true false
                  else ret_call (set_errno s EINVAL) t (-1) true false
      | None => ret_call (set_errno s EINVAL) t (-1) true false
      end
  | BEFORE_ISSUE => ret_call (set_errno s EINVAL) t (-1) true false     (* default: 164 *)
  | ISSUED | WAITING =>
      let s1 := match c_phase c with
                | ISSUED => upd_ctx s t (cset_phase (cset_th c (Some t)) WAITING)   (* 138-139 *)
                | _ => s end in
      match s_rlock s1 with
      | None => set_pc (set_rlock s1 (Some t)) t (PReaderLoop (c_tag (s_ctx s1 t)))   (* 142-145, 171 *)
      | Some _ => sleep (set_waitq s1 (s_waitq s1 ++ [t])) t tmo (PParked tmo)         (* 146 *)
      end
  end.

(* ---- PParked: m_wait.wait returned (146-161) ------------------------------------------------- *)
Definition step_parked (s : state) (t : tid) (tmo : Z) : state :=
  let '(s1, r) := cvwait_ret s t in
  let c := s_ctx s1 t in
  let mine := match c_th c with Some h => Nat.eqb h t | None => false end in
  if phase_eqb (c_phase c) COLLECTED && mine then ret_call s1 t (c_ret c) true false   (* 148-151 *)
  else if r =? -1 then
    let erased := map_mem (c_tag c) (s_map s1) in
    let s2 := erase_tag s1 t (c_tag c) None in                           (* 155-157 *)
    if s_fix s && negb erased
    then set_pc s2 t (PWaitLoop MAX64)        (* the fix: adopted by the reader — keep waiting, no deadline *)
    else ret_call (set_errno s2 ETIMEDOUT) t (-1) true false             (* 159 *)
  else set_pc s1 t (PWaitLoop tmo).                                      (* 161: break *)

(* ---- the reader ------------------------------------------------------------------------------ *)
(* 186-190: do_completion failed *)
Definition hdr_fail (s : state) (t : tid) (otag : Z) : state :=
  ret_call (erase_tag s t otag None) t (-1) true true.

(* do_recv_header after a short read (rpc.cpp 104-109) *)
Definition hdr_short (s : state) (t : tid) (otag : Z) (ret : Z) : state :=
  let s1 := set_stmo (add_trace s (TvHdr t (s_stmo s) ret (s_now s))) MAX64 in
  let s2 := upd_ctx s1 t (cset_tag (s_ctx s1 t) (hdr_tag (s_hdr s1))) in
  hdr_fail (set_errno (stream_shutdown s2 t) ECONNRESET) t otag.

(* PReaderLoop: do_recv_header up to the read (rpc.cpp 93-103) *)
Definition step_readerloop (s : state) (t : tid) (otag : Z) : state :=
  let c := s_ctx s t in
  let s1 := set_hdr s (repeat 0 8 ++ skipn 8 (s_hdr s)) in               (* m_header.magic = 0 *)
  if c_dl c <? s_now s then hdr_fail (set_errno s1 ETIMEDOUT) t otag     (* 97-100 *)
  else
    let s2 := set_stmo s1 (sat_sub (c_dl c) (s_now s)) in                (* 101 *)
    if s_shut s2 then hdr_short s2 t otag 0                              (* mock: a shut-down stream reads 0 *)
    else set_pc s2 t (PHdrRead otag 0 (sat_add (s_now s) (s_stmo s2))).

(* the body read returned rd; back in wait_completion 204-224 *)
Definition body_end (s : state) (t : tid) (otag : Z) (targ : tid) (size : nat) (rd : Z) : state :=
  let ow := match size with O => None | _ => Some targ end in
  let dd := match size with O => false | _ => negb (c_live (s_ctx s targ)) end in
  let s1 := set_stmo (add_trace s (TvBody t ow dd (s_stmo s) rd (s_now s))) MAX64 in
  let '(s2, r) := if rd =? Z.of_nat size then (s1, rd)
                  else (set_errno (stream_shutdown s1 t) ECONNRESET, -1) in    (* rpc.cpp 131-135 *)
  let s3 := add_acc s2 t targ AkRet in
  let s4 := upd_ctx s3 targ (cset_ret (s_ctx s3 targ) r) in              (* 204 *)
  let th := c_th (s_ctx s4 targ) in                                      (* 210 *)
  let s5 := add_acc s4 t targ AkPhase in
  let s6 := upd_ctx s5 targ (cset_phase (s_ctx s5 targ) COLLECTED) in    (* 211 *)
  if otag =? c_tag (s_ctx s6 t) then                                     (* 213 *)
    match th with
    | Some h => if Nat.eqb h t then ret_call s6 t (c_ret (s_ctx s6 t)) true true       (* 217 *)
                else ret_call (set_errno s6 EINVAL) t (-1) true true                   (* 215 *)
    | None => ret_call (set_errno s6 EINVAL) t (-1) true true
    end
  else
    match th with
    | None => ret_call (set_errno s6 ENOENT) t (-2) true true            (* 222 *)
    | Some h => set_pc (interrupt s6 h EINTR) t (PReaderLoop otag)       (* 223 *)
    end.

(* a complete header has been read (rpc.cpp 103-116, then out-of-order-execution.cpp 183-204) *)
Definition hdr_complete (s : state) (t : tid) (otag : Z) : state :=
  let s1 := set_stmo (add_trace s (TvHdr t (s_stmo s) 40 (s_now s))) MAX64 in
  let h := s_hdr s1 in
  let s2 := upd_ctx s1 t (cset_tag (s_ctx s1 t) (hdr_tag h)) in          (* 104 *)
  if negb ((hdr_magic h =? MAGIC) && (hdr_version h =? VERSION)) then
    hdr_fail (set_errno (stream_shutdown s2 t) ECONNRESET) t otag        (* 110-115 *)
  else
    match map_find (hdr_tag h) (s_map s2) with                           (* 192 *)
    | None => ret_call (set_errno (erase_tag s2 t otag None) ENOENT) t (-2) true true   (* 194-198 *)
    | Some targ =>
        let s3 := erase_tag s2 t (hdr_tag h) (Some targ) in              (* 199-200 *)
        let s4 := add_acc s3 t targ AkAdopt in                           (* targ->do_collect, response, timeout *)
        let size := Z.to_nat (hdr_size h) in
        let s5 := upd_ctx s4 targ (cset_hoff (cset_buf (s_ctx s4 targ) []) (length (s_consumed s4))) in   (* truncate *)
        let s6 := set_stmo s5 (sat_sub (c_dl (s_ctx s5 targ)) (s_now s5)) in   (* rpc.cpp 126 *)
        match size with
        | O => body_end s6 t otag targ O 0                               (* readv of nothing returns 0 *)
        | _ => if s_shut s6 then body_end s6 t otag targ size 0
               else set_pc s6 t (PBodyRead otag targ size size (sat_add (s_now s6) (s_stmo s6)))
        end
    end.

(* PHdrRead: one pass of the mock's read loop *)
Definition step_hdrread (s : state) (t : tid) (otag : Z) (got : nat) (dl : Z) : state :=
  let '(g, sc') := stake (s_now s) (HDRLEN - got) (s_script s) in
  let got' := (got + length g)%nat in
  let s1 := set_pc (set_consumed (set_script (set_hdr s (overwrite (s_hdr s) got g)) sc') (s_consumed s ++ g))
                   t (PHdrRead otag got' dl) in
  match read_status (s_now s) dl (HDRLEN - got') sc' with
  | RS_full => hdr_complete s1 t otag
  | RS_eof => hdr_short s1 t otag (Z.of_nat got')
  | RS_timeout => hdr_short (set_errno s1 ETIMEDOUT) t otag (-1)
  | RS_block w => sleep s1 t w (PHdrSleep otag got' dl)
  end.

(* PBodyRead: one pass of the mock's readv loop; the bytes go into targ's response buffer *)
Definition step_bodyread (s : state) (t : tid) (otag : Z) (targ : tid) (size need : nat) (dl : Z) : state :=
  let '(g, sc') := stake (s_now s) need (s_script s) in
  let s1 := set_consumed (set_script s sc') (s_consumed s ++ g) in
  let s2 := match g with
            | [] => s1
            | _ => let s1a := add_acc s1 t targ AkBuf in
                   let s1b := add_trace s1a (TvChunk t targ (negb (c_live (s_ctx s1a targ))) (length g) (s_now s)) in
                   upd_ctx s1b targ (cset_buf (s_ctx s1b targ) (c_buf (s_ctx s1b targ) ++ g))
            end in
  let need' := (need - length g)%nat in
  let s3 := set_pc s2 t (PBodyRead otag targ size need' dl) in
  match read_status (s_now s) dl need' sc' with
  | RS_full => body_end s3 t otag targ size (Z.of_nat size)
  | RS_eof => body_end s3 t otag targ size (Z.of_nat (size - need'))
  | RS_timeout => body_end (set_errno s3 ETIMEDOUT) t otag targ size (-1)
  | RS_block w => sleep s3 t w (PBodySleep otag targ size need' dl)
  end.

(* ---- one micro step of thread t (which must be READY) ----------------------------------------- *)
Definition micro (s : state) (t : tid) : state :=
  match t_pc (s_thr s t) with
  | PInit =>
      let k := nth t (s_calls s) dummy_call in
      if 0 <? k_start k then sleep s t (sat_add (s_now s) (k_start k)) PStartSleep
      else set_pc s t PCall
  | PStartSleep => set_pc (fst (usleep_ret s t)) t PCall
  | PCall => step_call s t
  | PWaitLoop tmo => step_waitloop s t tmo
  | PParked tmo => step_parked s t tmo
  | PReaderLoop otag => step_readerloop s t otag
  | PHdrRead otag got dl => step_hdrread s t otag got dl
  | PHdrSleep otag got dl => set_pc (fst (usleep_ret s t)) t (PHdrRead otag got dl)
  | PBodyRead otag targ size need dl => step_bodyread s t otag targ size need dl
  | PBodySleep otag targ size need dl => set_pc (fst (usleep_ret s t)) t (PBodyRead otag targ size need dl)
  | PDone => park (fst (usleep_ret s t)) t
  end.

(* ---- the transition system ---------------------------------------------------------------------- *)
Inductive event : Type :=
| EvStep (t : tid)        (* a READY thread makes a micro step *)
| EvTimeout (t : tid)     (* resume_threads: a sleeper whose deadline has passed becomes READY (error_number untouched) *)
| EvTick (d : Z)          (* time advances *)
| EvAck.                  (* scheduler bookkeeping: the list of threads woken by the running thread has been
                             moved to the run queue (clears s_woken; touches nothing else) *)

Definition nthreads (s : state) : nat := length (s_calls s).

Definition step (s : state) (e : event) : option state :=
  match e with
  | EvStep t =>
      if Nat.ltb t (nthreads s) then
        match t_stat (s_thr s t) with TReady => Some (micro s t) | TSleep _ => None end
      else None
  | EvTimeout t =>
      if Nat.ltb t (nthreads s) then
        match t_stat (s_thr s t) with
        | TSleep dl => if dl <=? s_now s
                       then Some (set_waitq (set_thr s (updn (s_thr s) t (mkThr (t_pc (s_thr s t)) TReady (t_err (s_thr s t)))))
                                            (remove_tid t (s_waitq s)))
                       else None
        | TReady => None
        end
      else None
  | EvTick d => if 0 <=? d then Some (set_now s (s_now s + d)) else None
  | EvAck => Some (set_woken s [])
  end.

Fixpoint run_events (s : state) (es : list event) : option state :=
  match es with
  | [] => Some s
  | e :: r => match step s e with Some s' => run_events s' r | None => None end
  end.

Definition VSTART : Z := 1000.
Definition hdr0 : list Z := repeat 0 HDRLEN.

Definition init (fix_ : bool) (calls : list call) (script : list sev) : state :=
  mkState fix_ calls (fun _ => mkThr PInit TReady 0) (fun _ => dead_ctx) [] 0 None [] []
          script false MAX64 hdr0 VSTART 0 false [] [] [] [].

(* ---- the deterministic cooperative run (the real scheduler on one vCPU) ---------------------------- *)
(* run queue ring, current first: RIdle = the vCPU's idler thread, RT t = caller t.  The main photon
   thread created the callers in order and sleeps for ever: it only occupies a slot of the sleep queue.
   Sleep-queue ids: 0 = main, S t = caller t. *)
Inductive rent : Type := RIdle | RT (t : tid).

Record dstate : Type := mkD { d_st : state; d_ring : list rent; d_heap : heap; d_ts : nat -> Z;
                              d_evs : list event (* reversed: the schedule actually taken *);
                              d_fail : bool (* fuel exhausted / an event was not enabled: never (checked by the runner) *) }.

Definition d_init (s : state) : dstate :=
  let ts0 := updf (fun _ => 0) 0%nat MAX64 in
  mkD s (RIdle :: map RT (seq 0 (nthreads s))) (push ts0 heap_empty 0%nat) ts0 [] false.

(* apply one event of the transition system; an event that is not enabled only raises d_fail *)
Definition d_apply (d : dstate) (e : event) : dstate :=
  match step (d_st d) e with
  | Some s' => mkD s' (d_ring d) (d_heap d) (d_ts d) (e :: d_evs d) (d_fail d)
  | None => mkD (d_st d) (d_ring d) (d_heap d) (d_ts d) (d_evs d) true
  end.

(* threads woken during the current thread's run: sleepq.pop(th); insert_tail(th) — in order *)
Fixpoint d_wake_list (d : dstate) (l : list tid) : dstate :=
  match l with
  | [] => d
  | w :: r => d_wake_list (mkD (d_st d) (d_ring d ++ [RT w]) (fst (pop (d_ts d) (d_heap d) (S w))) (d_ts d) (d_evs d) (d_fail d)) r
  end.

(* run caller t until it sleeps *)
Fixpoint d_run_thread (fuel : nat) (d : dstate) (t : tid) : dstate :=
  match fuel with
  | O => mkD (d_st d) (d_ring d) (d_heap d) (d_ts d) (d_evs d) true
  | S f =>
      match t_stat (s_thr (d_st d) t) with
      | TSleep dl =>
          (* prepare_usleep: leave the ring, ts_wakeup := dl, sleepq.push *)
          let d1 := d_wake_list (d_apply d EvAck) (s_woken (d_st d)) in
          let ts' := updf (d_ts d1) (S t) dl in
          mkD (d_st d1) (tl (d_ring d1)) (push ts' (d_heap d1) (S t)) ts' (d_evs d1) (d_fail d1)
      | TReady => d_run_thread f (d_apply d (EvStep t)) t
      end
  end.

(* resume_threads: pop every expired sleeper, in heap order, to the ring's tail *)
Fixpoint d_resume (fuel : nat) (d : dstate) : dstate :=
  match fuel with
  | O => d
  | S f =>
      match front (d_heap d) with
      | Some (S t) =>
          if d_ts d (S t) <=? s_now (d_st d) then
            let h' := fst (pop_front (d_ts d) (d_heap d)) in
            let d1 := d_apply (mkD (d_st d) (d_ring d ++ [RT t]) h' (d_ts d) (d_evs d) (d_fail d)) (EvTimeout t) in
            d_resume f d1
          else d
      | _ => d
      end
  end.

Definition IDLE_MAX : Z := 10485760.     (* 10 * 1024 * 1024 µs, idler 2110 *)

(* the whole run; returns when only the idler is left and nothing can wake any more *)
Fixpoint drive (tfuel fuel : nat) (d : dstate) : dstate :=
  match fuel with
  | O => mkD (d_st d) (d_ring d) (d_heap d) (d_ts d) (d_evs d) true
  | S f =>
      match d_ring d with
      | RT t :: _ => drive tfuel f (d_run_thread tfuel d t)
      | RIdle :: rest =>
          let d1 := d_resume (S (length (hq (d_heap d)))) d in
          match d_ring d1 with
          | RIdle :: ((_ :: _) as rest') => drive tfuel f (mkD (d_st d1) (rest' ++ [RIdle]) (d_heap d1) (d_ts d1) (d_evs d1) (d_fail d1))
          | _ =>
              (* only the idler: sleep until the next deadline (H-idle advances the virtual clock) *)
              match front (d_heap d1) with
              | None => d1
              | Some x =>
                  let w := d_ts d1 x in
                  if w =? MAX64 then d1
                  else drive tfuel f (d_apply d1 (EvTick (Z.min IDLE_MAX (sat_sub w (s_now (d_st d1))))))
              end
          end
      | [] => d
      end
  end.

Definition run_case (fix_ : bool) (calls : list call) (script : list sev) (tfuel fuel : nat) : dstate :=
  drive tfuel fuel (d_init (init fix_ calls script)).
