(* C04_HeapProofs.v — correctness of the sleep-queue heap model (C04_Heap.v, which mirrors
   `class SleepQueue`, thread/thread.cpp 374-483).

   Main results (all for an ARBITRARY deadline assignment ts : tid -> Z — equal deadlines,
   2^64-1, anything — and queues of any size):
     Inv_empty, Inv_ts_ext, front_is_min,
     push_Inv, push_perm, pop_front_Inv (= pop_front_min), pop_Inv (= pop_removes_exactly),
     pop_absent, hops_Inv, hops_pop_front_min.

   Proof idea for the two sift loops.  While a loop runs, position `i` of the array holds a
   stale value and the element being moved is kept aside in `tmp`; the *virtual* array
   `vg q i tmp` (q with position i read as tmp) is what the invariants talk about:
     LWf   : the virtual array is duplicate-free, has the same members as a fixed reference
             list L0, thread::idx is right at every position but i, idx of non-members untouched;
     E1    : every parent/child edge not touching i is ordered;
     E3    : the parent of i is <= the children of i          (grandparent <= grandchildren);
     UpOK  : tmp <= the children of i;     DownOK : parent of i <= tmp.
   When a loop stops, E1 + UpOK + DownOK make `setq q i tmp` a heap. *)
From Coq Require Import ZArith List Bool Arith Lia Permutation.
From PV Require Import C04.C04_Heap.
Import ListNotations.
Local Open Scope nat_scope.

(* ------------------------------------------------------------------------------------ *)
(** * Index arithmetic: parent of a position *)

Definition par (j : nat) : nat := Nat.div2 (j - 1).

Lemma par_cases j : 0 < j -> j = 2 * par j + 1 \/ j = 2 * par j + 2.
Proof.
  intros Hj. unfold par. pose proof (Nat.div2_odd (j - 1)) as H.
  destruct (Nat.odd (j - 1)); simpl Nat.b2n in H; lia.
Qed.

Lemma par_lt j : 0 < j -> par j < j.
Proof. intros Hj. pose proof (par_cases j Hj). lia. Qed.

Lemma par_left i : par (2 * i + 1) = i.
Proof. unfold par. replace (2 * i + 1 - 1) with (2 * i) by lia. apply Nat.div2_double. Qed.

Lemma par_right i : par (2 * i + 1 + 1) = i.
Proof. unfold par. replace (2 * i + 1 + 1 - 1) with (S (2 * i)) by lia. apply Nat.div2_succ_double. Qed.

Lemma par_child j i : 0 < j -> par j = i -> j = 2 * i + 1 \/ j = 2 * i + 1 + 1.
Proof. intros Hj <-. pose proof (par_cases j Hj). lia. Qed.

(* ------------------------------------------------------------------------------------ *)
(** * getq / setq / removelast / last *)

Lemma setq_length q i v : length (setq q i v) = length q.
Proof. revert i; induction q as [|x q IH]; intros [|i]; simpl; auto. Qed.

Lemma getq_setq q i v k :
  i < length q -> getq (setq q i v) k = if k =? i then v else getq q k.
Proof.
  unfold getq. revert i k; induction q as [|x q IH]; intros i k Hi; simpl in Hi; [lia|].
  destruct i as [|i], k as [|k]; simpl; auto.
  apply IH; lia.
Qed.

Lemma getq_app_l q r k : k < length q -> getq (q ++ r) k = getq q k.
Proof. intros; unfold getq; apply app_nth1; auto. Qed.

Lemma getq_app_last q t : getq (q ++ [t]) (length q) = t.
Proof. unfold getq. rewrite app_nth2 by lia. rewrite Nat.sub_diag. reflexivity. Qed.

Lemma removelast_len (q : list tid) : length (removelast q) = length q - 1.
Proof.
  destruct q as [|x q]; [reflexivity|].
  pose proof (app_removelast_last 0 (l := x :: q) ltac:(discriminate)) as H.
  apply (f_equal (@length tid)) in H. rewrite app_length in H. simpl in H. simpl length. lia.
Qed.

Lemma getq_removelast q k : k < length q - 1 -> getq (removelast q) k = getq q k.
Proof.
  intros Hk. destruct q as [|x q]; [simpl in Hk; lia|].
  pose proof (app_removelast_last 0 (l := x :: q) ltac:(discriminate)) as H.
  rewrite H at 2. rewrite getq_app_l; auto. rewrite removelast_len. exact Hk.
Qed.

Lemma getq_last q : q <> [] -> getq q (length q - 1) = last q 0.
Proof.
  intros Hq. pose proof (app_removelast_last 0 Hq) as H.
  rewrite H at 1 2. rewrite app_length. simpl length. rewrite Nat.add_sub.
  apply getq_app_last.
Qed.

Lemma In_getq q t : In t q <-> exists k, k < length q /\ getq q k = t.
Proof.
  split.
  - intros H. apply (In_nth q t 0) in H. exact H.
  - intros (k & Hk & <-). apply nth_In; auto.
Qed.

Lemma NoDup_getq q :
  NoDup q <-> (forall a b, a < length q -> b < length q -> getq q a = getq q b -> a = b).
Proof. apply NoDup_nth. Qed.

(* ------------------------------------------------------------------------------------ *)
(** * Heap order, the invariant *)

Definition heap_order (ts : tid -> Z) (q : list tid) : Prop :=
  forall j, 0 < j < length q -> (ts (getq q (par j)) <= ts (getq q j))%Z.

(* the user-facing form: ts (q[(i-1)/2]) <= ts (q[i]) *)
Lemma heap_order_div ts q :
  heap_order ts q <->
  (forall i, 0 < i < length q -> (ts (nth ((i - 1) / 2)%nat q 0%nat) <= ts (nth i q 0%nat))%Z).
Proof.
  unfold heap_order, par, getq.
  split; intros H j Hj; specialize (H j Hj); rewrite Nat.div2_div in *; exact H.
Qed.

Definition Inv (ts : tid -> Z) (h : heap) : Prop :=
  hbad h = false /\
  heap_order ts (hq h) /\
  (forall i, i < length (hq h) -> hidx h (nth i (hq h) 0) = Z.of_nat i) /\
  (forall t, ~ In t (hq h) -> hidx h t = (-1)%Z) /\
  NoDup (hq h).

(* Inv without the order and without the "non-members have idx -1" part *)
Definition Wf0 (h : heap) : Prop :=
  hbad h = false /\
  NoDup (hq h) /\
  (forall k, k < length (hq h) -> hidx h (getq (hq h) k) = Z.of_nat k).

Lemma Inv_Wf0 ts h : Inv ts h -> Wf0 h.
Proof. intros (Hb & _ & Hi & _ & Hn). repeat split; auto. Qed.

Lemma Inv_intro ts h :
  Wf0 h -> heap_order ts (hq h) -> (forall t, ~ In t (hq h) -> hidx h t = (-1)%Z) -> Inv ts h.
Proof. intros (Hb & Hn & Hi) Ho Hout. repeat split; auto. Qed.

Theorem Inv_empty ts : Inv ts heap_empty.
Proof.
  repeat split; simpl; try (intros; lia); auto.
  - intros j Hj. simpl in Hj. lia.
  - constructor.
Qed.

(** A concrete non-trivial heap used by the [Example]s below: 4 queued threads, two equal
    deadlines (threads 0 and 1: 5) and one 2^64-1 (thread 2).  q = [3;0;2;1]. *)
Definition ex_ts : tid -> Z := fun t =>
  match t with 0 => 5%Z | 1 => 5%Z | 2 => 18446744073709551615%Z | 3 => 3%Z | _ => 0%Z end.
Definition ex_h : heap :=
  mkHeap [3; 0; 2; 1]
         (fun t => match t with 0 => 1%Z | 1 => 3%Z | 2 => 2%Z | 3 => 0%Z | _ => (-1)%Z end) false.

Example ex_Inv : Inv ex_ts ex_h.
Proof.
  unfold Inv. split; [reflexivity|]. split; [|split; [|split]].
  - intros j Hj. cbn [ex_h hq length] in Hj.
    assert (Hc : j = 1 \/ j = 2 \/ j = 3) by lia.
    destruct Hc as [-> | [-> | ->]]; vm_compute; discriminate.
  - intros i Hi. cbn [ex_h hq length] in Hi.
    assert (Hc : i = 0 \/ i = 1 \/ i = 2 \/ i = 3) by lia.
    destruct Hc as [-> | [-> | [-> | ->]]]; reflexivity.
  - intros t Hnin. destruct t as [|[|[|[|t]]]]; try (exfalso; apply Hnin; simpl; tauto).
    reflexivity.
  - cbn [ex_h hq]. repeat constructor; simpl; lia.
Qed.

Theorem Inv_ts_ext ts ts' h :
  Inv ts h -> (forall t, In t (hq h) -> ts' t = ts t) -> Inv ts' h.
Proof.
  intros (Hb & Ho & Hi & Hout & Hn) Hext. repeat split; auto.
  intros j Hj. pose proof (par_lt j ltac:(lia)) as Hp.
  rewrite !Hext by (apply nth_In; lia). apply Ho; auto.
Qed.

Example Inv_ts_ext_ex :
  Inv ex_ts ex_h /\ (forall t, In t (hq ex_h) -> updf ex_ts 7 42%Z t = ex_ts t).
Proof.
  split; [exact ex_Inv|]. intros t Ht. simpl in Ht.
  destruct Ht as [<- | [<- | [<- | [<- | []]]]]; reflexivity.
Qed.

Lemma Inv_idx_of_member ts h t :
  Inv ts h -> In t (hq h) -> exists k, k < length (hq h) /\ getq (hq h) k = t /\ hidx h t = Z.of_nat k.
Proof.
  intros (_ & _ & Hi & _ & _) Hin. apply In_getq in Hin. destruct Hin as (k & Hk & <-).
  exists k. repeat split; auto. apply Hi; auto.
Qed.

Lemma Inv_idx_m1_not_in ts h t : Inv ts h -> hidx h t = (-1)%Z -> ~ In t (hq h).
Proof.
  intros HI Hm Hin. destruct (Inv_idx_of_member ts h t HI Hin) as (k & _ & _ & Hk). lia.
Qed.

(* the root is a minimum *)
Lemma heap_order_root ts q :
  heap_order ts q -> forall k, k < length q -> (ts (getq q 0) <= ts (getq q k))%Z.
Proof.
  intros Ho k. induction k as [k IH] using lt_wf_ind. intros Hk.
  destruct (Nat.eq_dec k 0) as [->|Hne]; [lia|].
  pose proof (par_lt k ltac:(lia)) as Hp.
  specialize (IH (par k) Hp ltac:(lia)). specialize (Ho k ltac:(lia)). lia.
Qed.

Theorem front_is_min ts h t :
  Inv ts h -> front h = Some t -> forall u, In u (hq h) -> (ts t <= ts u)%Z.
Proof.
  intros (_ & Ho & _) Hf u Hu. unfold front in Hf.
  destruct (hq h) as [|x q] eqn:Eq; [discriminate|]. injection Hf as ->.
  apply In_getq in Hu. destruct Hu as (k & Hk & <-).
  change t with (getq (t :: q) 0). apply heap_order_root; auto.
Qed.

Example front_is_min_ex : Inv ex_ts ex_h /\ front ex_h = Some 3.
Proof. split; [exact ex_Inv | reflexivity]. Qed.

(* ------------------------------------------------------------------------------------ *)
(** * The virtual array of a running sift loop *)

Definition vg (q : list tid) (i : nat) (tmp : tid) (k : nat) : tid :=
  if k =? i then tmp else getq q k.

Lemma vg_self q i k : vg q i (getq q i) k = getq q k.
Proof. unfold vg. destruct (k =? i) eqn:E; auto. apply Nat.eqb_eq in E; subst; auto. Qed.

Lemma vg_setq q i tmp k : i < length q -> getq (setq q i tmp) k = vg q i tmp k.
Proof. intros Hi. unfold vg. apply getq_setq; auto. Qed.

(* exchange of two positions *)
Definition sw (i c a : nat) : nat := if a =? c then i else if a =? i then c else a.

Lemma sw_invol i c a : sw i c (sw i c a) = a.
Proof.
  unfold sw.
  destruct (a =? c) eqn:E1; [apply Nat.eqb_eq in E1|apply Nat.eqb_neq in E1].
  - subst. destruct (i =? c) eqn:E2; [apply Nat.eqb_eq in E2; auto|]. rewrite Nat.eqb_refl. auto.
  - destruct (a =? i) eqn:E2; [apply Nat.eqb_eq in E2|apply Nat.eqb_neq in E2].
    + subst. rewrite Nat.eqb_refl. auto.
    + apply Nat.eqb_neq in E1, E2. rewrite E1, E2. auto.
Qed.

Lemma sw_lt i c a n : i < n -> c < n -> a < n -> sw i c a < n.
Proof. unfold sw; intros. destruct (a =? c); auto. destruct (a =? i); auto. Qed.

Lemma vg_step q i c tmp a :
  i < length q -> c <> i ->
  vg (setq q i (getq q c)) c tmp a = vg q i tmp (sw i c a).
Proof.
  intros Hi Hc. unfold vg, sw. rewrite getq_setq by auto.
  destruct (a =? c) eqn:E1.
  - rewrite Nat.eqb_refl. auto.
  - destruct (a =? i) eqn:E2.
    + apply Nat.eqb_neq in Hc. rewrite Hc. auto.
    + rewrite E2. auto.
Qed.

(** Well-formedness part of the loop invariant, relative to a reference list [L0] (the
    members) and a reference heap [h0] (idx of non-members). *)
Definition LWf (L0 : list tid) (h0 h : heap) (tmp : tid) (i : nat) : Prop :=
  hbad h = false /\
  length (hq h) = length L0 /\
  i < length (hq h) /\
  (forall a b, a < length (hq h) -> b < length (hq h) ->
               vg (hq h) i tmp a = vg (hq h) i tmp b -> a = b) /\
  (forall k, k < length (hq h) -> k <> i -> hidx h (getq (hq h) k) = Z.of_nat k) /\
  (forall t, In t L0 <-> exists k, k < length (hq h) /\ vg (hq h) i tmp k = t) /\
  (forall t, ~ In t L0 -> hidx h t = hidx h0 t).

Lemma LWf_init h i : Wf0 h -> i < length (hq h) -> LWf (hq h) h h (getq (hq h) i) i.
Proof.
  intros (Hb & Hn & Hi) Hlt. unfold LWf. repeat split; auto.
  - intros a b Ha Hb'. rewrite !vg_self. apply NoDup_getq; auto.
  - intros Hin. apply In_getq in Hin. destruct Hin as (k & Hk & <-). exists k. rewrite vg_self. auto.
  - intros (k & Hk & <-). rewrite vg_self. apply In_getq. eauto.
Qed.

Lemma update_node_in h i t :
  i < length (hq h) ->
  update_node h i t = mkHeap (setq (hq h) i t) (updf (hidx h) t (Z.of_nat i)) (hbad h).
Proof. intros Hi. unfold update_node. apply Nat.ltb_lt in Hi. rewrite Hi. reflexivity. Qed.

Lemma updf_same {A} (f : tid -> A) k v : updf f k v k = v.
Proof. unfold updf. rewrite Nat.eqb_refl. auto. Qed.

Lemma updf_other {A} (f : tid -> A) k v x : x <> k -> updf f k v x = f x.
Proof. unfold updf. intros H. apply Nat.eqb_neq in H. rewrite H. auto. Qed.

(* one loop step: the element at c moves into the hole i, the hole moves to c *)
Lemma LWf_step L0 h0 h tmp i c :
  LWf L0 h0 h tmp i -> c < length (hq h) -> c <> i ->
  LWf L0 h0 (update_node h i (getq (hq h) c)) tmp c.
Proof.
  intros (Hb & Hlen & Hi & Hinj & Hidx & Hmem & Hfr) Hc Hci.
  rewrite update_node_in by auto. unfold LWf. cbn [hq hidx hbad]. rewrite setq_length.
  split; [auto|]. split; [auto|]. split; [auto|].
  assert (Hqc : forall k, k < length (hq h) -> k <> c -> k <> i -> getq (hq h) k <> getq (hq h) c).
  { intros k Hk Hkc Hki Heq. apply Hkc. apply Hinj; auto. unfold vg.
    apply Nat.eqb_neq in Hki, Hci. rewrite Hki, Hci. exact Heq. }
  split; [|split; [|split]].
  - intros a b Ha Hb'. rewrite !vg_step by auto. intros Heq.
    apply Hinj in Heq; try (apply sw_lt; auto).
    rewrite <- (sw_invol i c a), <- (sw_invol i c b). congruence.
  - intros k Hk Hkc. rewrite getq_setq by auto.
    destruct (k =? i) eqn:E; [apply Nat.eqb_eq in E|apply Nat.eqb_neq in E].
    + subst k. apply updf_same.
    + rewrite updf_other by (apply Hqc; auto). apply Hidx; auto.
  - intros t. rewrite Hmem. split; intros (k & Hk & Hv).
    + exists (sw i c k). split; [apply sw_lt; auto|]. rewrite vg_step by auto. rewrite sw_invol. auto.
    + exists (sw i c k). split; [apply sw_lt; auto|]. rewrite <- vg_step by auto. auto.
  - intros t Ht. rewrite updf_other; auto.
    intros ->. apply Ht. apply Hmem. exists c. split; auto.
    unfold vg. apply Nat.eqb_neq in Hci. rewrite Hci. auto.
Qed.

(* closing the hole: write tmp at the final position *)
Lemma LWf_finish L0 h0 h tmp j :
  LWf L0 h0 h tmp j ->
  let h' := update_node h j tmp in
  Wf0 h' /\ hq h' = setq (hq h) j tmp /\ length (hq h') = length L0 /\
  (forall t, In t (hq h') <-> In t L0) /\
  (forall t, ~ In t L0 -> hidx h' t = hidx h0 t).
Proof.
  intros (Hb & Hlen & Hj & Hinj & Hidx & Hmem & Hfr). intros h'. subst h'.
  rewrite update_node_in by auto. cbn [hq hidx hbad].
  split; [|split; [reflexivity|split; [rewrite setq_length; auto|split]]].
  - unfold Wf0. cbn [hq hidx hbad]. rewrite setq_length. split; [auto|split].
    + apply NoDup_getq. rewrite setq_length. intros a b Ha Hb'. rewrite !vg_setq by auto. auto.
    + intros k Hk. rewrite getq_setq by auto.
      destruct (k =? j) eqn:E; [apply Nat.eqb_eq in E|apply Nat.eqb_neq in E].
      * subst. apply updf_same.
      * rewrite updf_other; [apply Hidx; auto|].
        intros Heq. apply E. apply Hinj; auto. unfold vg. rewrite Nat.eqb_refl.
        apply Nat.eqb_neq in E. rewrite E. auto.
  - intros t. rewrite Hmem. rewrite In_getq. rewrite setq_length.
    split; intros (k & Hk & Hv); exists k; (split; [auto|]).
    + rewrite <- vg_setq; auto.
    + rewrite vg_setq; auto.
  - intros t Ht. rewrite updf_other; auto. intros ->. apply Ht. apply Hmem.
    exists j. split; auto. unfold vg. rewrite Nat.eqb_refl. auto.
Qed.

(* ------------------------------------------------------------------------------------ *)
(** * Order part of the loop invariants *)

Definition E1 (ts : tid -> Z) (q : list tid) (i : nat) : Prop :=
  forall j, 0 < j < length q -> j <> i -> par j <> i -> (ts (getq q (par j)) <= ts (getq q j))%Z.

Definition E3 (ts : tid -> Z) (q : list tid) (i : nat) : Prop :=
  0 < i -> forall j, 0 < j < length q -> par j = i -> (ts (getq q (par i)) <= ts (getq q j))%Z.

Definition UpOK (ts : tid -> Z) (q : list tid) (i : nat) (tmp : tid) : Prop :=
  forall j, 0 < j < length q -> par j = i -> (ts tmp <= ts (getq q j))%Z.

Definition DownOK (ts : tid -> Z) (q : list tid) (i : nat) (tmp : tid) : Prop :=
  0 < i -> (ts (getq q (par i)) <= ts tmp)%Z.

Lemma order_finish ts q i tmp :
  i < length q -> E1 ts q i -> UpOK ts q i tmp -> DownOK ts q i tmp ->
  heap_order ts (setq q i tmp).
Proof.
  intros Hi H1 HU HD j Hj. rewrite setq_length in Hj. rewrite !getq_setq by auto.
  pose proof (par_lt j ltac:(lia)) as Hp.
  destruct (j =? i) eqn:Eji; [apply Nat.eqb_eq in Eji|apply Nat.eqb_neq in Eji].
  - subst j. destruct (par i =? i) eqn:E; [apply Nat.eqb_eq in E; lia|].
    apply HD. lia.
  - destruct (par j =? i) eqn:E; [apply Nat.eqb_eq in E|apply Nat.eqb_neq in E].
    + apply HU; auto.
    + apply H1; auto.
Qed.

Lemma heap_order_E1 ts q i : heap_order ts q -> E1 ts q i.
Proof. intros H j Hj _ _. apply H; auto. Qed.

(* up: the parent c of the hole i moves down into i *)
Lemma up_step_order ts q i tmp :
  i < length q -> 0 < i -> E1 ts q i -> E3 ts q i ->
  (ts tmp < ts (getq q (par i)))%Z ->
  let q2 := setq q i (getq q (par i)) in
  E1 ts q2 (par i) /\ E3 ts q2 (par i) /\ UpOK ts q2 (par i) tmp.
Proof.
  intros Hi H0 H1 H3 Hlt q2. subst q2.
  pose proof (par_lt i H0) as Hc.
  assert (Hpc : 0 < par i -> (ts (getq q (par (par i))) <= ts (getq q (par i)))%Z).
  { intros Hc0. pose proof (par_lt (par i) Hc0). apply H1; lia. }
  split; [|split].
  - intros j Hj Hjc Hpj. rewrite setq_length in Hj. rewrite !getq_setq by auto.
    destruct (j =? i) eqn:Eji; [apply Nat.eqb_eq in Eji; subst; lia|apply Nat.eqb_neq in Eji].
    destruct (par j =? i) eqn:E; [apply Nat.eqb_eq in E|apply Nat.eqb_neq in E].
    + apply H3; auto.
    + apply H1; auto.
  - intros Hc0 j Hj Hpj. rewrite setq_length in Hj. rewrite !getq_setq by auto.
    pose proof (par_lt (par i) Hc0) as Hpp.
    destruct (par (par i) =? i) eqn:E; [apply Nat.eqb_eq in E; lia|].
    specialize (Hpc Hc0).
    destruct (j =? i) eqn:Eji; [auto|apply Nat.eqb_neq in Eji].
    assert ((ts (getq q (par j)) <= ts (getq q j))%Z) as Hx by (apply H1; auto; lia).
    rewrite Hpj in Hx. lia.
  - intros j Hj Hpj. rewrite setq_length in Hj. rewrite !getq_setq by auto.
    destruct (j =? i) eqn:Eji; [lia|apply Nat.eqb_neq in Eji].
    assert ((ts (getq q (par j)) <= ts (getq q j))%Z) as Hx by (apply H1; auto; lia).
    rewrite Hpj in Hx. lia.
Qed.

(* down: the smaller child c of the hole i moves up into i *)
Lemma down_step_order ts q i c tmp :
  i < length q -> 0 < c < length q -> par c = i -> E1 ts q i -> E3 ts q i ->
  (forall j, 0 < j < length q -> par j = i -> (ts (getq q c) <= ts (getq q j))%Z) ->
  (ts (getq q c) < ts tmp)%Z ->
  let q2 := setq q i (getq q c) in
  E1 ts q2 c /\ E3 ts q2 c /\ DownOK ts q2 c tmp.
Proof.
  intros Hi Hc Hpc H1 H3 Hmin Hlt q2. subst q2.
  pose proof (par_lt c ltac:(lia)) as Hci.
  split; [|split].
  - intros j Hj Hjc Hpj. rewrite setq_length in Hj. rewrite !getq_setq by auto.
    pose proof (par_lt j ltac:(lia)) as Hpjl.
    destruct (j =? i) eqn:Eji; [apply Nat.eqb_eq in Eji|apply Nat.eqb_neq in Eji].
    + subst j. destruct (par i =? i) eqn:E; [apply Nat.eqb_eq in E; lia|].
      apply H3; auto. lia.
    + destruct (par j =? i) eqn:E; [apply Nat.eqb_eq in E|apply Nat.eqb_neq in E].
      * apply Hmin; auto.
      * apply H1; auto.
  - intros _ j Hj Hpj. rewrite setq_length in Hj. rewrite !getq_setq by auto.
    pose proof (par_lt j ltac:(lia)) as Hpjl.
    rewrite Hpc, Nat.eqb_refl.
    destruct (j =? i) eqn:Eji; [apply Nat.eqb_eq in Eji; lia|apply Nat.eqb_neq in Eji].
    assert ((ts (getq q (par j)) <= ts (getq q j))%Z) as Hx by (apply H1; auto; lia).
    rewrite Hpj in Hx. exact Hx.
  - intros _. rewrite getq_setq by auto. rewrite Hpc, Nat.eqb_refl. lia.
Qed.

(* ------------------------------------------------------------------------------------ *)
(** * The two loops *)

Lemma hq_update_node h i t : i < length (hq h) -> hq (update_node h i t) = setq (hq h) i t.
Proof. intros Hi. rewrite update_node_in by auto. reflexivity. Qed.

Ltac splits := repeat match goal with |- _ /\ _ => split end.

Lemma up_loop_correct ts L0 h0 : forall fuel h tmp i moved h' j m,
  i < fuel -> LWf L0 h0 h tmp i -> E1 ts (hq h) i -> E3 ts (hq h) i ->
  (moved = true -> UpOK ts (hq h) i tmp) ->
  up_loop fuel ts h tmp i moved = (h', j, m) ->
  LWf L0 h0 h' tmp j /\ E1 ts (hq h') j /\ DownOK ts (hq h') j tmp /\
  (m = true -> UpOK ts (hq h') j tmp) /\ (m = false -> h' = h /\ j = i) /\
  (moved = true -> m = true).
Proof.
  induction fuel as [|f IH]; intros h tmp i moved h' j m Hfuel HW H1 H3 HU Hrun; [lia|].
  cbn [up_loop] in Hrun.
  destruct (i =? 0) eqn:Ei0; [apply Nat.eqb_eq in Ei0|apply Nat.eqb_neq in Ei0].
  - inversion Hrun; subst. splits; auto. intros Hlt; lia.
  - change (Nat.div2 (i - 1)) with (par i) in Hrun.
    assert (Hi : i < length (hq h)) by (destruct HW as (_ & _ & Hi & _); exact Hi).
    pose proof (par_lt i ltac:(lia)) as Hc.
    destruct (ts tmp <? ts (getq (hq h) (par i)))%Z eqn:Et;
      [apply Z.ltb_lt in Et|apply Z.ltb_ge in Et].
    + pose proof (up_step_order ts (hq h) i tmp Hi ltac:(lia) H1 H3 Et) as (H1' & H3' & HU').
      apply IH in Hrun; try lia.
      * destruct Hrun as (HW' & H1'' & HD'' & HU'' & _ & Hm).
        specialize (Hm eq_refl). splits; auto;
          try (intros Hf; rewrite Hm in Hf; discriminate).
      * apply LWf_step; auto; lia.
      * rewrite hq_update_node by auto. exact H1'.
      * rewrite hq_update_node by auto. exact H3'.
      * intros _. rewrite hq_update_node by auto. exact HU'.
    + inversion Hrun; subst. splits; auto. intros _. lia.
Qed.

Lemma min_child_spec ts q i :
  2 * i + 1 < length q ->
  let c := 2 * i + 1 in
  let c' := if (c + 1 <? length q) && (ts (getq q (c + 1)) <? ts (getq q c))%Z then c + 1 else c in
  0 < c' < length q /\ par c' = i /\
  (forall j, 0 < j < length q -> par j = i -> (ts (getq q c') <= ts (getq q j))%Z).
Proof.
  intros Hc c c'. subst c c'.
  destruct (2 * i + 1 + 1 <? length q) eqn:E2; [apply Nat.ltb_lt in E2|apply Nat.ltb_ge in E2];
    cbn [andb].
  - destruct (ts (getq q (2 * i + 1 + 1)) <? ts (getq q (2 * i + 1)))%Z eqn:Et;
      [apply Z.ltb_lt in Et|apply Z.ltb_ge in Et].
    + split; [lia|]. split; [apply par_right|].
      intros j Hj Hp. destruct (par_child j i ltac:(lia) Hp) as [-> | ->]; lia.
    + split; [lia|]. split; [apply par_left|].
      intros j Hj Hp. destruct (par_child j i ltac:(lia) Hp) as [-> | ->]; lia.
  - split; [lia|]. split; [apply par_left|].
    intros j Hj Hp. destruct (par_child j i ltac:(lia) Hp) as [-> | ->]; lia.
Qed.

Lemma down_loop_correct ts L0 h0 : forall fuel h tmp i moved h' j m,
  length (hq h) < fuel + i -> LWf L0 h0 h tmp i -> E1 ts (hq h) i -> E3 ts (hq h) i ->
  DownOK ts (hq h) i tmp ->
  down_loop fuel ts h tmp i moved = (h', j, m) ->
  LWf L0 h0 h' tmp j /\ E1 ts (hq h') j /\ UpOK ts (hq h') j tmp /\ DownOK ts (hq h') j tmp /\
  (m = false -> h' = h /\ j = i) /\ (moved = true -> m = true).
Proof.
  induction fuel as [|f IH]; intros h tmp i moved h' j m Hfuel HW H1 H3 HD Hrun.
  { destruct HW as (_ & _ & Hi & _). lia. }
  cbn [down_loop] in Hrun. cbv zeta in Hrun.
  assert (Hi : i < length (hq h)) by (destruct HW as (_ & _ & Hi & _); exact Hi).
  destruct (2 * i + 1 <? length (hq h)) eqn:Ec; [apply Nat.ltb_lt in Ec|apply Nat.ltb_ge in Ec].
  - pose proof (min_child_spec ts (hq h) i Ec) as Hmc. cbv zeta in Hmc.
    remember (if (2 * i + 1 + 1 <? length (hq h)) &&
                 (ts (getq (hq h) (2 * i + 1 + 1)) <? ts (getq (hq h) (2 * i + 1)))%Z
              then 2 * i + 1 + 1 else 2 * i + 1) as c' eqn:Ec'.
    destruct Hmc as (Hc'r & Hpc & Hmin).
    pose proof (par_lt c' ltac:(lia)) as Hlt.
    destruct (ts (getq (hq h) c') <? ts tmp)%Z eqn:Et; [apply Z.ltb_lt in Et|apply Z.ltb_ge in Et].
    + pose proof (down_step_order ts (hq h) i c' tmp Hi Hc'r Hpc H1 H3 Hmin Et) as (H1' & H3' & HD').
      apply IH in Hrun.
      * destruct Hrun as (HW' & H1'' & HU'' & HD'' & _ & Hm).
        specialize (Hm eq_refl). splits; auto;
          try (intros Hf; rewrite Hm in Hf; discriminate).
      * rewrite hq_update_node by auto. rewrite setq_length. lia.
      * apply LWf_step; auto; lia.
      * rewrite hq_update_node by auto. exact H1'.
      * rewrite hq_update_node by auto. exact H3'.
      * rewrite hq_update_node by auto. exact HD'.
    + inversion Hrun; subst h' j m. splits; auto.
      intros j Hj Hp. specialize (Hmin j Hj Hp). lia.
  - inversion Hrun; subst h' j m. splits; auto.
    intros j Hj Hp. destruct (par_child j i ltac:(lia) Hp); lia.
Qed.

(* ------------------------------------------------------------------------------------ *)
(** * up() and down() as a whole *)

Lemma up_correct ts h i h' m :
  Wf0 h -> i < length (hq h) -> E1 ts (hq h) i -> E3 ts (hq h) i ->
  up ts h i = (h', m) ->
  Wf0 h' /\ length (hq h') = length (hq h) /\
  (forall t, In t (hq h') <-> In t (hq h)) /\
  (forall t, ~ In t (hq h) -> hidx h' t = hidx h t) /\
  (m = true -> heap_order ts (hq h')) /\
  (m = false -> h' = h /\ DownOK ts (hq h) i (getq (hq h) i)).
Proof.
  intros HW Hi H1 H3 Hup. unfold up in Hup.
  destruct (up_loop (S (length (hq h))) ts h (getq (hq h) i) i false) as [[h1 j] m1] eqn:EL.
  apply (up_loop_correct ts (hq h) h) in EL; auto; try lia; try discriminate;
    [|apply LWf_init; auto].
  destruct EL as (HW1 & H1' & HD' & HU' & Hnm & _).
  destruct m1.
  - inversion Hup; subst h' m. clear Hup.
    pose proof (LWf_finish _ _ _ _ _ HW1) as HF. cbv zeta in HF.
    destruct HF as (HWf & Hq & Hlen & Hin & Hfr).
    splits; auto; try discriminate.
    intros _. rewrite Hq. apply order_finish; auto.
    destruct HW1 as (_ & _ & Hj & _). exact Hj.
  - inversion Hup; subst h' m. clear Hup.
    destruct (Hnm eq_refl) as (-> & ->).
    splits; auto; try discriminate; try tauto.
Qed.

Lemma down_correct ts h i h' m :
  Wf0 h -> i < length (hq h) -> E1 ts (hq h) i -> E3 ts (hq h) i ->
  DownOK ts (hq h) i (getq (hq h) i) ->
  down ts h i = (h', m) ->
  Wf0 h' /\ length (hq h') = length (hq h) /\
  (forall t, In t (hq h') <-> In t (hq h)) /\
  (forall t, ~ In t (hq h) -> hidx h' t = hidx h t) /\
  heap_order ts (hq h').
Proof.
  intros HW Hi H1 H3 HD Hdn. unfold down in Hdn.
  destruct (down_loop (S (length (hq h))) ts h (getq (hq h) i) i false) as [[h1 j] m1] eqn:EL.
  apply (down_loop_correct ts (hq h) h) in EL; auto; try lia; [|apply LWf_init; auto].
  destruct EL as (HW1 & H1' & HU' & HD' & Hnm & _).
  assert (Hj : j < length (hq h1)) by (destruct HW1 as (_ & _ & Hj & _); exact Hj).
  destruct m1.
  - inversion Hdn; subst h' m. clear Hdn.
    pose proof (LWf_finish _ _ _ _ _ HW1) as HF. cbv zeta in HF.
    destruct HF as (HWf & Hq & Hlen & Hin & Hfr).
    splits; auto.
    rewrite Hq. apply order_finish; auto.
  - inversion Hdn; subst h' m. clear Hdn.
    destruct (Hnm eq_refl) as (-> & ->).
    splits; auto; try tauto.
    (* nothing moved: q = setq q i q[i] *)
    intros k Hk. pose proof (order_finish ts (hq h) i (getq (hq h) i) Hi H1' HU' HD' k) as Ho.
    rewrite setq_length in Ho. specialize (Ho Hk).
    rewrite !vg_setq, !vg_self in Ho by auto. exact Ho.
Qed.

Lemma up_zero ts h : up ts h 0 = (h, false).
Proof. unfold up. cbn [up_loop Nat.eqb]. reflexivity. Qed.

(* ------------------------------------------------------------------------------------ *)
(** * push *)

Theorem push_spec ts h t :
  Inv ts h -> hidx h t = (-1)%Z ->
  Inv ts (push ts h t) /\ Permutation (hq (push ts h t)) (t :: hq h).
Proof.
  intros HI Hm1.
  pose proof (Inv_idx_m1_not_in ts h t HI Hm1) as Hnin.
  destruct HI as (Hb & Ho & Hi & Hout & Hn).
  unfold push.
  set (h1 := mkHeap (hq h ++ [t]) (updf (hidx h) t (Z.of_nat (length (hq h)))) (hbad h)).
  assert (Hperm1 : Permutation (hq h ++ [t]) (t :: hq h))
    by (apply Permutation_sym, Permutation_cons_append).
  assert (Hlen1 : length (hq h1) = length (hq h) + 1) by (subst h1; cbn [hq]; rewrite app_length; reflexivity).
  assert (HW1 : Wf0 h1).
  { unfold Wf0. splits; auto.
    - subst h1; cbn [hq]. apply (Permutation_NoDup (Permutation_sym Hperm1)).
      constructor; auto.
    - intros k Hk. rewrite Hlen1 in Hk. subst h1; cbn [hq hidx].
      destruct (Nat.eq_dec k (length (hq h))) as [->|Hne].
      + rewrite getq_app_last. apply updf_same.
      + rewrite getq_app_l by lia. rewrite updf_other.
        * apply Hi. lia.
        * intros Heq. apply Hnin. rewrite <- Heq. apply nth_In. lia. }
  assert (HE1 : E1 ts (hq h1) (length (hq h))).
  { intros j Hj Hji Hpj. rewrite Hlen1 in Hj. pose proof (par_lt j ltac:(lia)).
    subst h1; cbn [hq]. rewrite !getq_app_l by lia. apply Ho. lia. }
  assert (HE3 : E3 ts (hq h1) (length (hq h))).
  { intros H0 j Hj Hpj. rewrite Hlen1 in Hj. destruct (par_child j _ ltac:(lia) Hpj); lia. }
  destruct (up ts h1 (length (hq h))) as [h' m] eqn:Eup. cbn [fst].
  apply up_correct in Eup; auto; [|lia].
  destruct Eup as (HW' & Hlen' & Hin' & Hfr' & Hmt & Hmf).
  assert (Hord : heap_order ts (hq h')).
  { destruct m; [apply Hmt; auto|]. destruct (Hmf eq_refl) as (-> & HD).
    intros j Hj. rewrite Hlen1 in Hj.
    destruct (Nat.eq_dec j (length (hq h))) as [->|Hne].
    - apply HD. lia.
    - apply HE1; auto; try lia. pose proof (par_lt j ltac:(lia)). lia. }
  split.
  - apply Inv_intro; auto.
    intros x Hx. rewrite Hin' in Hx. rewrite Hfr' by auto.
    subst h1; cbn [hq hidx] in *. rewrite in_app_iff in Hx. simpl In in Hx.
    rewrite updf_other by (intros ->; tauto). apply Hout. tauto.
  - apply Permutation_trans with (hq h1); auto.
    destruct HW' as (_ & Hn' & _). destruct HW1 as (_ & Hn1 & _).
    apply NoDup_Permutation; auto.
Qed.

Theorem push_Inv ts h t : Inv ts h -> hidx h t = (-1)%Z -> Inv ts (push ts h t).
Proof. intros H1 H2. apply push_spec; auto. Qed.

Theorem push_perm ts h t :
  Inv ts h -> hidx h t = (-1)%Z -> Permutation (hq (push ts h t)) (t :: hq h).
Proof. intros H1 H2. apply push_spec; auto. Qed.

(* thread 4 is not queued; pushing it with deadline 3 (a tie with the current minimum) or 4 *)
Example push_Inv_ex :
  Inv (updf ex_ts 4 3%Z) ex_h /\ hidx ex_h 4 = (-1)%Z /\
  hq (push (updf ex_ts 4 3%Z) ex_h 4) = [3; 4; 2; 1; 0] /\
  hq (push (updf ex_ts 4 4%Z) ex_h 4) = [3; 4; 2; 1; 0] /\
  hq (push (updf ex_ts 4 2%Z) ex_h 4) = [4; 3; 2; 1; 0].
Proof.
  split; [|vm_compute; auto].
  apply Inv_ts_ext with (ts := ex_ts); [exact ex_Inv|].
  intros t Ht. simpl in Ht. destruct Ht as [<- | [<- | [<- | [<- | []]]]]; reflexivity.
Qed.

(* ------------------------------------------------------------------------------------ *)
(** * removing the last element *)

Lemma remove_last_correct ts h :
  Inv ts h -> hq h <> [] ->
  let t := last (hq h) 0 in
  Inv ts (set_idx (pop_back h) t (-1)) /\ Permutation (hq h) (t :: removelast (hq h)) /\
  ~ In t (removelast (hq h)).
Proof.
  intros (Hb & Ho & Hi & Hout & Hn) Hne t.
  assert (Hlen : 0 < length (hq h)) by (destruct (hq h); [congruence|simpl; lia]).
  assert (Ht : t = getq (hq h) (length (hq h) - 1)) by (subst t; rewrite getq_last; auto).
  assert (Hperm : Permutation (hq h) (t :: removelast (hq h))).
  { rewrite (app_removelast_last 0 Hne) at 1. fold t.
    apply Permutation_sym, Permutation_cons_append. }
  assert (Hn2 : NoDup (t :: removelast (hq h))) by (apply (Permutation_NoDup Hperm); auto).
  inversion Hn2 as [|? ? Hnin Hn3]; subst.
  split; [|split; auto].
  apply Inv_intro.
  - unfold Wf0, set_idx, pop_back. cbn [hq hidx hbad]. splits; auto.
    intros k Hk. rewrite removelast_len in Hk. rewrite getq_removelast by auto.
    rewrite updf_other.
    + apply Hi. lia.
    + intros Heq. apply Hnin. rewrite <- Heq. rewrite <- (getq_removelast (hq h) k) by auto.
      apply nth_In. rewrite removelast_len. auto.
  - unfold set_idx, pop_back. cbn [hq]. intros j Hj. rewrite removelast_len in Hj.
    pose proof (par_lt j ltac:(lia)). rewrite !getq_removelast by lia. apply Ho. lia.
  - unfold set_idx, pop_back. cbn [hq hidx]. intros x Hx.
    destruct (Nat.eq_dec x t) as [->|Hxt]; [apply updf_same|].
    rewrite updf_other by auto. apply Hout. intros Hin.
    apply (Permutation_in _ Hperm) in Hin. simpl In in Hin. destruct Hin; [congruence|tauto].
Qed.

(* ------------------------------------------------------------------------------------ *)
(** * replacing position i by the last element, then sifting *)

Lemma getq_replaced q i k :
  q <> [] -> i < length q - 1 -> k < length q - 1 ->
  getq (removelast (setq q i (last q 0))) k = getq q (if k =? i then length q - 1 else k).
Proof.
  intros Hne Hi Hk. rewrite getq_removelast by (rewrite setq_length; auto).
  rewrite getq_setq by lia. destruct (k =? i); auto. symmetry. apply getq_last; auto.
Qed.

Lemma replace_last_correct ts h i :
  Inv ts h -> i < length (hq h) - 1 ->
  let b := last (hq h) 0 in
  let h2 := pop_back (update_node h i b) in
  Wf0 h2 /\ E1 ts (hq h2) i /\ E3 ts (hq h2) i /\ length (hq h2) = length (hq h) - 1 /\
  Permutation (hq h) (getq (hq h) i :: hq h2) /\
  (forall x, x <> b -> hidx h2 x = hidx h x) /\ In b (hq h2).
Proof.
  intros (Hb & Ho & Hi & Hout & Hn) Hlt b h2.
  assert (Hne : hq h <> []) by (intros E; rewrite E in Hlt; simpl in Hlt; lia).
  assert (Hq2 : hq h2 = removelast (setq (hq h) i b)).
  { subst h2. unfold pop_back. rewrite update_node_in by lia. reflexivity. }
  assert (Hidx2 : hidx h2 = updf (hidx h) b (Z.of_nat i)).
  { subst h2. unfold pop_back. rewrite update_node_in by lia. reflexivity. }
  assert (Hbad2 : hbad h2 = false).
  { subst h2. unfold pop_back. rewrite update_node_in by lia. exact Hb. }
  clearbody h2.
  assert (Hlen2 : length (hq h2) = length (hq h) - 1).
  { rewrite Hq2, removelast_len, setq_length. reflexivity. }
  assert (Hg : forall k, k < length (hq h) - 1 ->
                         getq (hq h2) k = getq (hq h) (if k =? i then length (hq h) - 1 else k)).
  { intros k Hk. rewrite Hq2. apply getq_replaced; auto. }
  assert (Hgo : forall k, k < length (hq h) - 1 -> k <> i -> getq (hq h2) k = getq (hq h) k).
  { intros k Hk Hki. rewrite Hg by auto. apply Nat.eqb_neq in Hki. rewrite Hki. auto. }
  assert (Hgi : getq (hq h2) i = b).
  { rewrite Hg by auto. rewrite Nat.eqb_refl. apply getq_last; auto. }
  assert (Hbq : b = getq (hq h) (length (hq h) - 1)) by (symmetry; apply getq_last; auto).
  pose proof (proj1 (NoDup_getq (hq h)) Hn) as Hinj.
  assert (Hsig : forall k, k < length (hq h) - 1 ->
                           (if k =? i then length (hq h) - 1 else k) < length (hq h) /\
                           (if k =? i then length (hq h) - 1 else k) <> i).
  { intros k Hk. destruct (k =? i) eqn:E; [|apply Nat.eqb_neq in E]; lia. }
  assert (Hn2 : NoDup (hq h2)).
  { apply NoDup_getq. rewrite Hlen2. intros a c Ha Hc. rewrite !Hg by auto. intros Heq.
    apply Hinj in Heq; try (apply Hsig; auto).
    destruct (a =? i) eqn:Ea, (c =? i) eqn:Ec;
      try apply Nat.eqb_eq in Ea; try apply Nat.eqb_eq in Ec; lia. }
  assert (Hnin : ~ In (getq (hq h) i) (hq h2)).
  { intros Hin. apply In_getq in Hin. destruct Hin as (k & Hk & Heq). rewrite Hlen2 in Hk.
    rewrite Hg in Heq by auto. apply Hinj in Heq; try lia; apply Hsig in Hk; lia. }
  splits; auto.
  - unfold Wf0. splits; auto. rewrite Hlen2, Hidx2. intros k Hk.
    destruct (Nat.eq_dec k i) as [->|Hki].
    + rewrite Hgi. apply updf_same.
    + rewrite Hgo by auto. rewrite updf_other; [apply Hi; lia|].
      rewrite Hbq. intros Heq. apply Hinj in Heq; lia.
  - intros j Hj Hji Hpj. rewrite Hlen2 in Hj. pose proof (par_lt j ltac:(lia)).
    rewrite !Hgo by lia. apply Ho. lia.
  - intros H0 j Hj Hpj. rewrite Hlen2 in Hj. pose proof (par_lt j ltac:(lia)).
    pose proof (par_lt i H0). rewrite !Hgo by lia.
    pose proof (Ho i ltac:(lia)). pose proof (Ho j ltac:(lia)) as Hoj. rewrite Hpj in Hoj. lia.
  - apply NoDup_Permutation; auto.
    + constructor; auto.
    + intros x. cbn [In]. rewrite !In_getq. split.
      * intros (k & Hk & <-).
        destruct (Nat.eq_dec k i) as [->|Hki]; [left; auto|right].
        destruct (Nat.eq_dec k (length (hq h) - 1)) as [->|Hkl].
        -- exists i. split; [lia|]. rewrite Hgi. auto.
        -- exists k. split; [lia|]. apply Hgo; lia.
      * intros [<- | (k & Hk & <-)].
        -- exists i. split; [lia|auto].
        -- rewrite Hlen2 in Hk. rewrite Hg by auto. eexists; split; [|reflexivity]. apply Hsig; auto.
  - intros x Hx. rewrite Hidx2. apply updf_other; auto.
  - apply In_getq. exists i. rewrite Hlen2. split; auto.
Qed.

Lemma remove_mid_correct ts h i :
  Inv ts h -> i < length (hq h) - 1 ->
  let t := getq (hq h) i in
  let b := last (hq h) 0 in
  let h2 := pop_back (update_node h i b) in
  forall h3 m, up ts h2 i = (h3, m) ->
  let h4 := if m then h3 else fst (down ts h3 i) in
  Inv ts (set_idx h4 t (-1)) /\ Permutation (hq h) (t :: hq h4) /\ ~ In t (hq h4).
Proof.
  intros HI Hlt t b h2 h3 m Hup h4.
  pose proof (replace_last_correct ts h i HI Hlt) as R. cbv zeta in R.
  fold b in R. fold h2 in R. fold t in R.
  destruct R as (HW2 & HE1 & HE3 & Hlen2 & Hperm & Hfr2 & Hbin).
  clearbody h2.
  assert (Hi2 : i < length (hq h2)) by lia.
  apply up_correct in Hup; auto.
  destruct Hup as (HW3 & Hlen3 & Hin3 & Hfr3 & Hmt & Hmf).
  assert (H4 : Wf0 h4 /\ (forall x, In x (hq h4) <-> In x (hq h2)) /\
               (forall x, ~ In x (hq h2) -> hidx h4 x = hidx h2 x) /\ heap_order ts (hq h4)).
  { subst h4. destruct m.
    - splits; auto.
    - destruct (Hmf eq_refl) as (-> & HD).
      destruct (down ts h2 i) as [h5 m5] eqn:Edn. cbn [fst].
      apply down_correct in Edn; auto.
      destruct Edn as (HW5 & _ & Hin5 & Hfr5 & Ho5). splits; auto. }
  clearbody h4. destruct H4 as (HW4 & Hin4 & Hfr4 & Ho4).
  destruct HI as (Hb & Ho & Hi & Hout & Hn).
  assert (Hn2 : NoDup (t :: hq h2)) by (apply (Permutation_NoDup Hperm); auto).
  inversion Hn2 as [|? ? Hnin2 Hn2']; subst.
  assert (Hnin4 : ~ In t (hq h4)) by (rewrite Hin4; auto).
  assert (Hperm4 : Permutation (hq h) (t :: hq h4)).
  { apply Permutation_trans with (t :: hq h2); auto. apply perm_skip.
    destruct HW4 as (_ & Hn4 & _). apply NoDup_Permutation; auto. intros x. symmetry. apply Hin4. }
  splits; auto.
  apply Inv_intro.
  - destruct HW4 as (Hb4 & Hn4 & Hi4). unfold Wf0, set_idx. cbn [hq hidx hbad]. splits; auto.
    intros k Hk. rewrite updf_other; auto.
    intros Heq. apply Hnin4. rewrite <- Heq. apply nth_In; auto.
  - unfold set_idx. cbn [hq]. auto.
  - unfold set_idx. cbn [hq hidx]. intros x Hx.
    destruct (Nat.eq_dec x t) as [->|Hxt]; [apply updf_same|].
    rewrite updf_other by auto.
    assert (Hx2 : ~ In x (hq h2)) by (rewrite <- Hin4; auto).
    rewrite Hfr4 by auto. rewrite Hfr2 by (intros ->; auto).
    apply Hout. intros Hin. apply (Permutation_in _ Hperm) in Hin. cbn [In] in Hin.
    destruct Hin; [congruence|tauto].
Qed.

(* ------------------------------------------------------------------------------------ *)
(** * pop_front *)

Theorem pop_front_correct ts h :
  Inv ts h -> hq h <> [] ->
  exists h' t,
    pop_front ts h = (h', Some t) /\ front h = Some t /\
    (forall u, In u (hq h) -> (ts t <= ts u)%Z) /\
    Inv ts h' /\ Permutation (hq h) (t :: hq h') /\ hidx h' t = (-1)%Z.
Proof.
  intros HI Hne.
  assert (Hcore : exists h' t, pop_front ts h = (h', Some t) /\ front h = Some t /\
                               Inv ts h' /\ Permutation (hq h) (t :: hq h') /\ ~ In t (hq h')).
  { unfold pop_front, front. destruct (hq h) as [|ret r] eqn:Eq; [congruence|].
    rewrite <- Eq. rewrite <- Eq in Hne.
    assert (Hret : ret = getq (hq h) 0) by (rewrite Eq; reflexivity).
    destruct (length (hq h) =? 1) eqn:E1; [apply Nat.eqb_eq in E1|apply Nat.eqb_neq in E1].
    - pose proof (remove_last_correct ts h HI Hne) as R. cbv zeta in R.
      assert (Hl : last (hq h) 0 = ret).
      { rewrite <- getq_last by auto. rewrite E1. auto. }
      rewrite Hl in R. destruct R as (R1 & R2 & R3).
      eexists; eexists; splits; eauto.
    - assert (Hlen : 0 < length (hq h) - 1) by (rewrite Eq in *; simpl in *; lia).
      pose proof (remove_mid_correct ts h 0 HI Hlen) as R. cbv zeta in R.
      specialize (R _ _ (up_zero ts _)). cbv iota in R. rewrite <- Hret in R.
      destruct R as (R1 & R2 & R3).
      eexists; eexists; splits; eauto. }
  destruct Hcore as (h' & t & Hpf & Hfr & HI' & Hperm & Hnin).
  exists h', t. splits; auto.
  - apply front_is_min; auto.
  - destruct HI' as (_ & _ & _ & Hout & _). auto.
Qed.

Theorem pop_front_Inv ts h :
  Inv ts h -> hq h <> [] ->
  exists h' t, pop_front ts h = (h', Some t) /\ front h = Some t /\ Inv ts h' /\
               Permutation (hq h) (t :: hq h') /\ hidx h' t = (-1)%Z.
Proof.
  intros HI Hne. destruct (pop_front_correct ts h HI Hne) as (h' & t & H1 & H2 & _ & H3 & H4 & H5).
  exists h', t. splits; auto.
Qed.

Theorem pop_front_min ts h h' t :
  Inv ts h -> pop_front ts h = (h', Some t) ->
  In t (hq h) /\ forall u, In u (hq h) -> (ts t <= ts u)%Z.
Proof.
  intros HI Hpf.
  assert (Hne : hq h <> []).
  { intros E. unfold pop_front in Hpf. rewrite E in Hpf. discriminate. }
  destruct (pop_front_correct ts h HI Hne) as (h'' & t' & H1 & _ & H2 & _ & H3 & _).
  rewrite H1 in Hpf. inversion Hpf; subst. split; auto.
  apply (Permutation_in _ (Permutation_sym H3)). left; auto.
Qed.

Example pop_front_ex :
  Inv ex_ts ex_h /\ hq ex_h <> [] /\
  (let (h', r) := pop_front ex_ts ex_h in (hq h', r)) = ([1; 0; 2], Some 3).
Proof. split; [exact ex_Inv|]. split; [discriminate | vm_compute; reflexivity]. Qed.

(* ------------------------------------------------------------------------------------ *)
(** * pop *)

Theorem pop_correct ts h t :
  Inv ts h -> In t (hq h) ->
  exists h', pop ts h t = (h', 0%Z) /\ Inv ts h' /\ Permutation (hq h) (t :: hq h') /\
             hidx h' t = (-1)%Z.
Proof.
  intros HI Hin.
  destruct (Inv_idx_of_member ts h t HI Hin) as (k & Hk & Hgk & Hik).
  assert (Hne : hq h <> []) by (intros E; rewrite E in Hk; simpl in Hk; lia).
  assert (Hcore : exists h', pop ts h t = (h', 0%Z) /\ Inv ts h' /\
                             Permutation (hq h) (t :: hq h') /\ ~ In t (hq h')).
  { unfold pop. rewrite Hik.
    destruct (Z.of_nat k =? -1)%Z eqn:E0; [apply Z.eqb_eq in E0; lia|].
    destruct ((Z.of_nat k <? 0)%Z || (Z.of_nat (length (hq h)) <=? Z.of_nat k)%Z) eqn:E1.
    { apply orb_true_iff in E1. destruct E1 as [E1|E1];
        [apply Z.ltb_lt in E1|apply Z.leb_le in E1]; lia. }
    rewrite Nat2Z.id.
    destruct (k =? length (hq h) - 1) eqn:E2; [apply Nat.eqb_eq in E2|apply Nat.eqb_neq in E2].
    - pose proof (remove_last_correct ts h HI Hne) as R. cbv zeta in R.
      assert (Hl : last (hq h) 0 = t) by (rewrite <- getq_last by auto; rewrite <- E2; auto).
      rewrite Hl in R. destruct R as (R1 & R2 & R3).
      eexists; splits; eauto.
    - destruct (length (hq h) =? 1) eqn:E3; [apply Nat.eqb_eq in E3; lia|].
      assert (Hlt : k < length (hq h) - 1) by lia.
      pose proof (remove_mid_correct ts h k HI Hlt) as R. cbv zeta in R.
      destruct (up ts (pop_back (update_node h k (last (hq h) 0))) k) as [h3 m] eqn:Eup.
      specialize (R _ _ eq_refl). rewrite Hgk in R. destruct R as (R1 & R2 & R3).
      eexists; splits; eauto. }
  destruct Hcore as (h' & Hp & HI' & Hperm & Hnin).
  exists h'. splits; auto. destruct HI' as (_ & _ & _ & Hout & _). auto.
Qed.

Theorem pop_absent ts h t : Inv ts h -> ~ In t (hq h) -> pop ts h t = (h, (-1)%Z).
Proof.
  intros (_ & _ & _ & Hout & _) Hnin. unfold pop. rewrite (Hout t Hnin). reflexivity.
Qed.

Theorem pop_Inv ts h t :
  Inv ts h -> In t (hq h) -> exists h', pop ts h t = (h', 0%Z) /\ Inv ts h'.
Proof.
  intros HI Hin. destruct (pop_correct ts h t HI Hin) as (h' & H1 & H2 & _). eauto.
Qed.

Theorem pop_removes_exactly ts h t :
  Inv ts h ->
  (In t (hq h) ->
   exists h', pop ts h t = (h', 0%Z) /\ Inv ts h' /\ Permutation (hq h) (t :: hq h') /\
              hidx h' t = (-1)%Z) /\
  (~ In t (hq h) -> pop ts h t = (h, (-1)%Z)).
Proof.
  intros HI. split; [apply pop_correct; auto | apply pop_absent; auto].
Qed.

(* removing thread 0 (position 1, middle of the array, deadline tied with thread 1); thread 9
   is not queued *)
Example pop_ex :
  Inv ex_ts ex_h /\ In 0 (hq ex_h) /\ ~ In 9 (hq ex_h) /\
  (let (h', r) := pop ex_ts ex_h 0 in (hq h', r)) = ([3; 1; 2], 0%Z) /\
  snd (pop ex_ts ex_h 9) = (-1)%Z.
Proof.
  split; [exact ex_Inv|]. split; [simpl; tauto|]. split; [simpl; lia|].
  split; vm_compute; reflexivity.
Qed.

(* ------------------------------------------------------------------------------------ *)
(** * arbitrary op sequences *)

Definition HSInv (s : hstate) : Prop := Inv (hs_ts s) (hs_heap s).

Lemma hempty_false h : hempty h = false -> hq h <> [].
Proof. unfold hempty. destruct (hq h); [discriminate|]. intros _; discriminate. Qed.

Lemma hempty_true h : hempty h = true -> hq h = [].
Proof. unfold hempty. destruct (hq h); [auto|discriminate]. Qed.

(* what a pop_front step does in a state satisfying the invariant *)
Lemma hop_step_pop_front s s' v :
  HSInv s -> hop_step s HPopFront = (s', v) ->
  (hq (hs_heap s) = [] /\ v = (-2)%Z /\ s' = s) \/
  (exists t, v = Z.of_nat t /\ front (hs_heap s) = Some t /\
             (forall u, In u (hq (hs_heap s)) -> (hs_ts s t <= hs_ts s u)%Z) /\
             Permutation (hq (hs_heap s)) (t :: hq (hs_heap s')) /\
             hidx (hs_heap s') t = (-1)%Z /\ hs_ts s' = hs_ts s /\ HSInv s').
Proof.
  intros HI Hst. cbn [hop_step] in Hst.
  destruct (hempty (hs_heap s)) eqn:Ee.
  - left. inversion Hst; subst. splits; auto. apply hempty_true; auto.
  - right. apply hempty_false in Ee.
    destruct (pop_front_correct _ _ HI Ee) as (h' & t & Hpf & Hfr & Hmin & HI' & Hperm & Hm1).
    rewrite Hpf in Hst. inversion Hst; subst. exists t. splits; auto.
Qed.

Lemma hop_step_Inv s o s' v : HSInv s -> hop_step s o = (s', v) -> HSInv s'.
Proof.
  intros HI Hst. destruct o as [t d| |t].
  - cbn [hop_step] in Hst.
    destruct (hidx (hs_heap s) t =? -1)%Z eqn:E; [apply Z.eqb_eq in E|inversion Hst; subst; auto].
    inversion Hst; subst. unfold HSInv. cbn [hs_ts hs_heap].
    apply push_Inv; auto.
    apply Inv_ts_ext with (ts := hs_ts s); auto.
    intros x Hx. apply updf_other. intros ->.
    exact (Inv_idx_m1_not_in _ _ _ HI E Hx).
  - destruct (hop_step_pop_front s s' v HI Hst) as [(_ & _ & ->) | (t & _ & _ & _ & _ & _ & _ & H)]; auto.
  - cbn [hop_step] in Hst.
    destruct (in_dec Nat.eq_dec t (hq (hs_heap s))) as [Hin|Hnin].
    + destruct (pop_correct _ _ _ HI Hin) as (h' & Hp & HI' & _).
      rewrite Hp in Hst. inversion Hst; subst. exact HI'.
    + rewrite (pop_absent _ _ _ HI Hnin) in Hst. inversion Hst; subst. destruct s; exact HI.
Qed.

Lemma hops_run_Inv : forall l s acc s' rs,
  HSInv s -> hops_run s l acc = (s', rs) -> HSInv s'.
Proof.
  induction l as [|o l IH]; intros s acc s' rs HI Hrun; cbn [hops_run] in Hrun.
  - inversion Hrun; subst; auto.
  - destruct (hop_step s o) as [s1 v] eqn:Est. eapply IH; [|exact Hrun].
    eapply hop_step_Inv; eauto.
Qed.

Lemma HSInv_init : HSInv hstate_init.
Proof. apply Inv_empty. Qed.

(* every state reachable by ANY op list satisfies the invariant; in particular hbad is never set *)
Theorem hops_Inv : forall l s rs,
  hops_run hstate_init l [] = (s, rs) ->
  Inv (hs_ts s) (hs_heap s) /\ hbad (hs_heap s) = false.
Proof.
  intros l s rs Hrun. pose proof (hops_run_Inv l _ _ _ _ HSInv_init Hrun) as HI.
  split; [exact HI|]. destruct HI as (Hb & _). exact Hb.
Qed.

(* the ops of a run are hop_steps on the reached states: running l ++ [o] = running l, then o *)
Lemma hops_run_snoc : forall l o s acc,
  hops_run s (l ++ [o]) acc =
  let (s1, r1) := hops_run s l acc in
  (fst (hop_step s1 o), r1 ++ [snd (hop_step s1 o)]).
Proof.
  induction l as [|x l IH]; intros o s acc; cbn [app hops_run].
  - destruct (hop_step s o) as [s1 v]. cbn [fst snd rev]. reflexivity.
  - destruct (hop_step s x) as [s1 v]. apply IH.
Qed.

(* every pop_front issued after ANY op list returns the front, which is a minimum of the queue
   at that moment, and removes exactly it (or is skipped on an empty queue) *)
Theorem hops_pop_front_min : forall l s rs s' v,
  hops_run hstate_init l [] = (s, rs) -> hop_step s HPopFront = (s', v) ->
  (hq (hs_heap s) = [] /\ v = (-2)%Z /\ s' = s) \/
  (exists t, v = Z.of_nat t /\ front (hs_heap s) = Some t /\
             (forall u, In u (hq (hs_heap s)) -> (hs_ts s t <= hs_ts s u)%Z) /\
             Permutation (hq (hs_heap s)) (t :: hq (hs_heap s')) /\
             hidx (hs_heap s') t = (-1)%Z /\ hs_ts s' = hs_ts s /\ HSInv s').
Proof.
  intros l s rs s' v Hrun Hst. apply hop_step_pop_front; auto.
  exact (hops_run_Inv l _ _ _ _ HSInv_init Hrun).
Qed.

(* a concrete run: 5 pushes (ties and 2^64-1), a pop from the middle, two pop_fronts *)
Definition ex_ops : list hop :=
  [HPush 0 5%Z; HPush 1 5%Z; HPush 2 18446744073709551615%Z; HPush 3 3%Z; HPush 4 5%Z;
   HPop 0; HPopFront; HPush 3 7%Z; HPopFront].

Example hops_Inv_ex :
  exists s rs, hops_run hstate_init ex_ops [] = (s, rs) /\
               hq (hs_heap s) = [4; 3; 2] /\ rs = [0; 0; 0; 0; 0; 0; 3; 0; 1]%Z /\
               hop_step s HPopFront = (fst (hop_step s HPopFront), 4%Z).
Proof.
  exists (fst (hops_run hstate_init ex_ops [])), (snd (hops_run hstate_init ex_ops [])).
  split; [apply surjective_pairing|]. split; [vm_compute; reflexivity|].
  split; [vm_compute; reflexivity|].
  rewrite (surjective_pairing (hop_step _ _)) at 1. f_equal.
Qed.
