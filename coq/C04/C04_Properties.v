(* C04_Properties.v — the property theorems of C04.  ONLY `Theorem .. exact lemma. Qed.` + Print Assumptions.
   Part A: the sleep-queue heap (C04_Heap.v).  Part B: the wake-up contract of the scheduler model
   (Sched/Core.v + Sched/Prog.v), over every program of the core op language whose interrupts carry a
   non-zero errno, every run length, every event of the trace. *)
From Coq Require Import ZArith List Permutation.
From PV Require Import Base.U64 C04.C04_Heap C04.C04_HeapProofs Sched.Core Sched.Prog Sched.Invariant
                       C04.C04_Inv C04.C04_Step2 C04.C04_Proofs C04.C04_Proofs2.
Import ListNotations.

(* ================= Part A: SleepQueue ================= *)
Theorem heap_inv_init : forall ts, Inv ts heap_empty.
Proof. exact Inv_empty. Qed.
Print Assumptions heap_inv_init.

Theorem heap_inv_ts_ext : forall ts ts' h,
  Inv ts h -> (forall t, In t (hq h) -> ts' t = ts t) -> Inv ts' h.
Proof. exact Inv_ts_ext. Qed.
Print Assumptions heap_inv_ts_ext.

Theorem heap_front_is_min : forall ts h t,
  Inv ts h -> front h = Some t -> forall u, In u (hq h) -> (ts t <= ts u)%Z.
Proof. exact front_is_min. Qed.
Print Assumptions heap_front_is_min.

Theorem heap_inv_push : forall ts h t,
  Inv ts h -> hidx h t = (-1)%Z -> Inv ts (push ts h t).
Proof. exact push_Inv. Qed.
Print Assumptions heap_inv_push.

Theorem heap_push_perm : forall ts h t,
  Inv ts h -> hidx h t = (-1)%Z -> Permutation (hq (push ts h t)) (t :: hq h).
Proof. exact push_perm. Qed.
Print Assumptions heap_push_perm.

Theorem heap_inv_pop_front : forall ts h,
  Inv ts h -> hq h <> [] ->
  exists h' t, pop_front ts h = (h', Some t) /\ front h = Some t /\ Inv ts h' /\
               Permutation (hq h) (t :: hq h') /\ hidx h' t = (-1)%Z.
Proof. exact pop_front_Inv. Qed.
Print Assumptions heap_inv_pop_front.

Theorem heap_pop_front_min : forall ts h h' t,
  Inv ts h -> pop_front ts h = (h', Some t) ->
  In t (hq h) /\ forall u, In u (hq h) -> (ts t <= ts u)%Z.
Proof. exact pop_front_min. Qed.
Print Assumptions heap_pop_front_min.

Theorem heap_inv_pop : forall ts h t,
  Inv ts h -> In t (hq h) -> exists h', pop ts h t = (h', 0%Z) /\ Inv ts h'.
Proof. exact pop_Inv. Qed.
Print Assumptions heap_inv_pop.

Theorem heap_pop_removes_exactly : forall ts h t,
  Inv ts h ->
  (In t (hq h) ->
   exists h', pop ts h t = (h', 0%Z) /\ Inv ts h' /\ Permutation (hq h) (t :: hq h') /\
              hidx h' t = (-1)%Z) /\
  (~ In t (hq h) -> pop ts h t = (h, (-1)%Z)).
Proof. exact pop_removes_exactly. Qed.
Print Assumptions heap_pop_removes_exactly.

Theorem heap_ops_inv : forall l s rs,
  hops_run hstate_init l [] = (s, rs) ->
  Inv (hs_ts s) (hs_heap s) /\ hbad (hs_heap s) = false.
Proof. exact hops_Inv. Qed.
Print Assumptions heap_ops_inv.

Theorem heap_ops_pop_front_min : forall l s rs s' v,
  hops_run hstate_init l [] = (s, rs) -> hop_step s HPopFront = (s', v) ->
  (hq (hs_heap s) = [] /\ v = (-2)%Z /\ s' = s) \/
  (exists t, v = Z.of_nat t /\ front (hs_heap s) = Some t /\
             (forall u, In u (hq (hs_heap s)) -> (hs_ts s t <= hs_ts s u)%Z) /\
             Permutation (hq (hs_heap s)) (t :: hq (hs_heap s')) /\
             hidx (hs_heap s') t = (-1)%Z /\ hs_ts s' = hs_ts s /\ HSInv s').
Proof. exact hops_pop_front_min. Qed.
Print Assumptions heap_ops_pop_front_min.

(* ================= Part B: the contract ================= *)
Local Open Scope Z_scope.

(* the invariant from which everything follows holds in every reachable state of every program *)
Theorem sched_invariant : forall fuel ps, ps <> [] -> NZ_progs ps ->
  GI (core_progs ps) (run_state fuel ps) /\ TI (core_progs ps) (run_state fuel ps).
Proof. exact run_GI_TI. Qed.
Print Assumptions sched_invariant.

Theorem usleep_returns_0_or_minus1 : forall ps fuel ev d, ps <> [] -> NZ_progs ps ->
  In ev (s_trace (run_state fuel ps)) -> ev_cop ps ev = Some (OUsleep d) -> ev_ret ev = 0 \/ ev_ret ev = -1.
Proof. exact usleep_ret_0_or_m1. Qed.
Print Assumptions usleep_returns_0_or_minus1.

(* thread_usleep(t) returns 0 only at (hence not before) its deadline — or, for an already expired
   (zero) timeout, after a mere yield *)
Theorem sleep_zero_means_elapsed : forall ps fuel ev d, ps <> [] -> NZ_progs ps ->
  In ev (s_trace (run_state fuel ps)) -> ev_cop ps ev = Some (OUsleep d) -> ev_ret ev = 0 ->
  (expired (ev_issued ev) (timeout_of (ev_issued ev) d) = false /\ ev_time ev = timeout_of (ev_issued ev) d) \/
  (expired (ev_issued ev) (timeout_of (ev_issued ev) d) = true /\ ev_issued ev <= ev_time ev).
Proof. exact sleep_zero_means_elapsed_lemma. Qed.
Print Assumptions sleep_zero_means_elapsed.

Theorem sleep_zero_elapsed_at_least : forall ps fuel ev d, ps <> [] -> NZ_progs ps ->
  In ev (s_trace (run_state fuel ps)) -> ev_cop ps ev = Some (OUsleep d) ->
  ev_ret ev = 0 -> 0 <= d -> ev_issued ev + d <= MAX64 -> ev_time ev - ev_issued ev >= d.
Proof. exact sleep_zero_elapsed_lemma. Qed.
Print Assumptions sleep_zero_elapsed_at_least.

(* thread_usleep returns -1 only with the errno of a completed thread_interrupt(self, errno) /
   thread_shutdown(self) (event number ev_src of the trace), or as the 10 ms cap of a shut-down thread *)
Theorem sleep_minus1_means_interrupted : forall ps fuel ev d, ps <> [] -> NZ_progs ps ->
  In ev (s_trace (run_state fuel ps)) -> ev_cop ps ev = Some (OUsleep d) -> ev_ret ev = -1 ->
  (ev_err ev <> 0 /\
   exists ev', nth_error (run_trace fuel ps) (ev_src ev) = Some ev' /\ ev_ret ev' = 0 /\
               (ev_cop ps ev' = Some (OInterrupt (ev_tid ev) (ev_err ev)) \/
                (exists f, ev_cop ps ev' = Some (OShutdown (ev_tid ev) f) /\ ev_err ev = EPERM))) \/
  (ev_shut ev = true /\ ev_err ev = EPERM /\ ev_k ev = [3]).
Proof. exact sleep_minus1_means_interrupted_lemma. Qed.
Print Assumptions sleep_minus1_means_interrupted.

Theorem interrupt_wakes_sleeper : forall (st : cstate) t e,
  WF st -> th_state (getth st t) = SLEEPING ->
  let st' := thread_interrupt st t e in
  th_state (getth st' t) = READY /\ th_err (getth st' t) = e /\ th_waitq (getth st' t) = None /\
  In t (s_runq st') /\ ~ In t (hq (s_sleepq st')) /\ WF st'.
Proof. exact interrupt_wakes_sleeper_lemma. Qed.
Print Assumptions interrupt_wakes_sleeper.

Theorem pending_errno_not_overwritten : forall (st : cstate) t e,
  th_state (getth st t) = READY -> th_err (getth st t) <> 0 ->
  getth (thread_interrupt st t e) t = getth st t.
Proof. exact pending_errno_not_overwritten_lemma. Qed.
Print Assumptions pending_errno_not_overwritten.

(* after every round of the idler no thread whose deadline has been reached is still SLEEPING *)
Theorem deadline_met : forall progs (st : cstate) rest,
  GI progs st -> s_runq st = idler_tid st :: rest ->
  forall u, th_state (getth (idler_round st) u) = SLEEPING ->
            s_now (idler_round st) < th_ts (getth (idler_round st) u).
Proof. exact deadline_met_round. Qed.
Print Assumptions deadline_met.

(* the part of shutdown_bound that holds: thread_usleep of a thread marked by thread_shutdown *)
Theorem shutdown_bound_usleep : forall ps fuel ev d, ps <> [] -> NZ_progs ps ->
  In ev (s_trace (run_state fuel ps)) -> ev_cop ps ev = Some (OUsleep d) ->
  ev_shut ev = true -> expired (ev_issued ev) (timeout_of (ev_issued ev) d) = false ->
  ev_ret ev = -1 /\ ev_time ev <= ev_issued ev + SHUTDOWN_CAP.
Proof. exact shutdown_bound_usleep_lemma. Qed.
Print Assumptions shutdown_bound_usleep.

(* the part of interrupt_at_most_once that holds: a thread_usleep that really slept consumes the
   interrupt it reports; no later event of that thread reports the same (or an older) delivery *)
Theorem sleep_consumes_interrupt : forall ps fuel i j e1 e2 d, ps <> [] -> NZ_progs ps ->
  nth_error (run_trace fuel ps) i = Some e1 -> nth_error (run_trace fuel ps) j = Some e2 -> (i < j)%nat ->
  ev_tid e1 = ev_tid e2 ->
  ev_cop ps e1 = Some (OUsleep d) -> ev_k e1 = [1] -> ev_ret e1 = -1 ->
  reports_interrupt ps e2 -> (ev_src e1 < ev_src e2)%nat.
Proof. exact sleep_consumes_interrupt_lemma. Qed.
Print Assumptions sleep_consumes_interrupt.

(* FINDINGS: the model, faithful to the code, refutes the two remaining clauses *)
Theorem interrupt_at_most_once_refuted : ~ interrupt_at_most_once.
Proof. exact interrupt_at_most_once_refuted_lemma. Qed.
Print Assumptions interrupt_at_most_once_refuted.

Theorem shutdown_bound_refuted : ~ shutdown_bound.
Proof. exact shutdown_bound_refuted_lemma. Qed.
Print Assumptions shutdown_bound_refuted.
