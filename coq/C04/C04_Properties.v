From Coq Require Import ZArith List.
From PV Require Import Base.U64 C04.C04_Heap Sched.Core Sched.Prog C04.C04_Proofs.
Theorem c04_placeholder : True. Proof. exact placeholder. Qed.
Print Assumptions c04_placeholder.
