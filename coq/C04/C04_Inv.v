(* C04_Inv.v — the invariant of the C04 instance of the scheduler model (core ops only) from
   which the contract theorems follow: definitions and the basic lemmas. *)
From Coq Require Import ZArith List Bool Arith Lia Permutation.
From PV Require Import Base.U64 C04.C04_Heap C04.C04_HeapProofs Sched.Core Sched.Prog Sched.Lemmas
                       Sched.Invariant Sched.Effects.
Import ListNotations.
Local Open Scope Z_scope.

Notation cstate := (state unit).

Section C04INV.
  Variable progs : list (list (op no_op)).

  Definition cur_op (t : tid) (th : thread) : option (op no_op) := nth_error (prog_of progs t) (th_pc th).
  Definition ev_op (ev : event) : option (op no_op) := nth_error (prog_of progs (ev_tid ev)) (ev_pc ev).

  (* the event `ev` is a completed thread_interrupt(t, e), or a thread_shutdown(t, _) with e = EPERM *)
  Definition delivers (ev : event) (t : tid) (e : Z) : Prop :=
    ev_ret ev = 0 /\
    (ev_op ev = Some (OCore (OInterrupt t e)) \/ (exists f, ev_op ev = Some (OCore (OShutdown t f)) /\ e = EPERM)).

  (* `src` is the index (oldest first) of an event that delivers e to t *)
  Definition src_ok (tr : list event) (t : tid) (e : Z) (src : nat) : Prop :=
    exists ev, nth_error (rev tr) src = Some ev /\ delivers ev t e.

  Lemma src_ok_mono tr x t e src : src_ok tr t e src -> src_ok (x :: tr) t e src.
  Proof.
    intros (ev & Hn & Hd). exists ev. split; auto. simpl.
    rewrite nth_error_app1; auto. apply nth_error_Some. congruence.
  Qed.

  Lemma src_ok_new tr ev t e : delivers ev t e -> src_ok (ev :: tr) t e (length tr).
  Proof.
    intros Hd. exists ev. split; auto. simpl.
    rewrite nth_error_app2 by (rewrite rev_length; lia). rewrite rev_length, Nat.sub_diag. reflexivity.
  Qed.

  (* a phase-[1] thread_usleep that returned -1: it CONSUMED (cleared) the error_number it reports *)
  Definition clearing (ev : event) : Prop :=
    (exists d, ev_op ev = Some (OCore (OUsleep d))) /\ ev_k ev = [1] /\ ev_ret ev = -1.
  (* the event reports an interrupt to its thread: a usleep returning -1 other than by the 10 ms
     cap path, or a yield / yield_to returning a non-zero error_number *)
  Definition reports (ev : event) : Prop :=
    ((exists d, ev_op ev = Some (OCore (OUsleep d))) /\ ev_ret ev = -1 /\ ev_k ev <> [3]) \/
    (ev_op ev = Some (OCore OYield) /\ ev_ret ev <> 0) \/
    ((exists j, ev_op ev = Some (OCore (OYieldTo j))) /\ ev_k ev = [1] /\ ev_ret ev <> 0).

  (* every delivery still pending for t is newer than everything t's real sleeps have consumed *)
  Definition fresh (t : tid) (th : thread) (tr : list event) : Prop :=
    forall e1, In e1 tr -> ev_tid e1 = t -> clearing e1 ->
      (ev_src e1 < length tr)%nat /\ (th_err th <> 0 -> (ev_src e1 < th_esrc th)%nat).

  Definition usleep_exp (th : thread) (d : Z) : Z := timeout_of (th_issued th) d.
  Definition usleep_exp3 (th : thread) (d : Z) : Z := timeout_at_most (th_issued th) (usleep_exp th d) SHUTDOWN_CAP.

  (* per-thread invariant, as a function of the thread record, the two clocks and the trace *)
  Record GoodT (t : tid) (th : thread) (now clock : Z) (tr : list event) : Prop := mkGoodT {
    g_issued : 0 <= th_issued th <= now;
    g_sleep_clock : th_state th = SLEEPING -> clock <= th_ts th <= MAX64;
    g_usleep : forall d, cur_op t th = Some (OCore (OUsleep d)) ->
      (th_k th = [] \/ th_k th = [1] \/ th_k th = [2] \/ th_k th = [3]) /\
      (th_k th = [1] ->
         th_shut_issue th = false /\ expired (th_issued th) (usleep_exp th d) = false /\
         th_ts th = usleep_exp th d /\ clock <= th_ts th /\
         (th_state th = SLEEPING \/ th_err th <> 0 \/ clock = th_ts th)) /\
      (th_k th = [2] -> expired (th_issued th) (usleep_exp th d) = true /\ th_state th <> SLEEPING) /\
      (th_k th = [3] ->
         th_shut_issue th = true /\ expired (th_issued th) (usleep_exp th d) = false /\
         th_ts th = usleep_exp3 th d /\ clock <= th_ts th /\
         (th_state th = SLEEPING \/ th_err th <> 0 \/ clock = th_ts th));
    g_src : th_err th <> 0 ->
            src_ok tr t (th_err th) (th_esrc th) \/
            (th_err th = -1 /\ (exists j, cur_op t th = Some (OCore (OJoin j))) /\ th_k th = [1]);
    g_wq : forall q, th_waitq th = Some q ->
           exists j, q = QJoin j /\ cur_op t th = Some (OCore (OJoin j)) /\ th_k th = [1];
    (* a thread is inside an op only while it exists and has not died *)
    g_kstate : th_k th <> [] -> th_state th = READY \/ th_state th = RUNNING \/ th_state th = SLEEPING;
    (* past the end of its program a thread (other than the parked main thread) is in no op *)
    g_end : t <> 0%nat -> cur_op t th = None -> th_k th = [];
    g_fresh : fresh t th tr
  }.

  Lemma fresh_mono t th tr x : fresh t th tr -> (ev_tid x = t -> ~ clearing x) -> fresh t th (x :: tr).
  Proof.
    intros F Hx e1 [<-|Hin] Ht Hc.
    - exfalso. apply (Hx Ht). exact Hc.
    - destruct (F e1 Hin Ht Hc) as (A & B). split; [simpl; lia|exact B].
  Qed.

  Lemma GoodT_mono t th now clock tr x :
    GoodT t th now clock tr -> (ev_tid x = t -> ~ clearing x) -> GoodT t th now clock (x :: tr).
  Proof.
    intros [A B C D E F G H] Hx. constructor; auto.
    - intros H0. destruct (D H0) as [S|S]; [left; apply src_ok_mono; auto|right; auto].
    - apply fresh_mono; auto.
  Qed.

  (* what the theorems say about one trace event *)
  Definition EvOK (tr : list event) (ev : event) : Prop :=
    0 <= ev_issued ev <= ev_time ev /\
    (forall d, ev_op ev = Some (OCore (OUsleep d)) ->
       let exp := timeout_of (ev_issued ev) d in
       (ev_k ev = [1] \/ ev_k ev = [2] \/ ev_k ev = [3]) /\
       (ev_k ev = [1] ->
          ev_shut ev = false /\ expired (ev_issued ev) exp = false /\
          ((ev_ret ev = 0 /\ ev_err ev = 0 /\ ev_time ev = exp) \/
           (ev_ret ev = -1 /\ ev_err ev <> 0 /\ ev_time ev <= exp /\
            src_ok tr (ev_tid ev) (ev_err ev) (ev_src ev)))) /\
       (ev_k ev = [2] ->
          expired (ev_issued ev) exp = true /\
          ((ev_ret ev = 0 /\ ev_err ev = 0) \/
           (ev_ret ev = -1 /\ ev_err ev <> 0 /\ src_ok tr (ev_tid ev) (ev_err ev) (ev_src ev)))) /\
       (ev_k ev = [3] ->
          ev_shut ev = true /\ expired (ev_issued ev) exp = false /\ ev_ret ev = -1 /\
          ev_time ev <= ev_issued ev + SHUTDOWN_CAP /\
          (ev_err ev = EPERM \/ (ev_err ev <> 0 /\ src_ok tr (ev_tid ev) (ev_err ev) (ev_src ev))))) /\
    (ev_op ev = Some (OCore OYield) \/ (exists j, ev_op ev = Some (OCore (OYieldTo j)) /\ ev_k ev = [1]) ->
       ev_ret ev = 0 \/ src_ok tr (ev_tid ev) (ev_ret ev) (ev_src ev)).

  Lemma EvOK_mono tr x ev : EvOK tr ev -> EvOK (x :: tr) ev.
  Proof.
    intros (A & B & C). split; auto. split.
    - intros d Hd. specialize (B d Hd). cbv zeta in *. destruct B as (B0 & B1 & B2 & B3).
      split; [exact B0|]. split; [|split].
      + intros Hk. destruct (B1 Hk) as (X1 & X2 & [X3|(X3 & X4 & X5 & X6)]); repeat split; auto.
        right. repeat split; auto. apply src_ok_mono; auto.
      + intros Hk. destruct (B2 Hk) as (X1 & [X3|(X3 & X4 & X6)]); repeat split; auto.
        right. repeat split; auto. apply src_ok_mono; auto.
      + intros Hk. destruct (B3 Hk) as (X1 & X2 & X3 & X4 & [X5|(X5 & X6)]); repeat split; auto.
        right. split; auto. apply src_ok_mono; auto.
    - intros H. destruct (C H) as [?|S]; auto. right. apply src_ok_mono; auto.
  Qed.

  (* `tr` is newest first: x :: tr means x happened after everything in tr *)
  Fixpoint Pairs (tr : list event) : Prop :=
    match tr with
    | [] => True
    | x :: r => Pairs r /\
                (reports x -> forall e1, In e1 r -> ev_tid e1 = ev_tid x -> clearing e1 -> (ev_src e1 < ev_src x)%nat)
    end.

  Definition TI (st : cstate) : Prop :=
    (forall ev, In ev (s_trace st) -> EvOK (s_trace st) ev) /\ Pairs (s_trace st).

  Lemma TI_same (st st' : cstate) : TI st -> s_trace st' = s_trace st -> TI st'.
  Proof. unfold TI. intros T ->. exact T. Qed.

  Record GI (st : cstate) : Prop := mkGI {
    gi_wf : WF st;
    gi_n : nthreads st = S (length progs);
    gi_sync : s_now st = s_clock st \/ (s_runq st = [idler_tid st] /\ hq (s_sleepq st) <> []);
    gi_max : s_clock st <= MAX64;
    gi_pos : 0 <= s_now st;
    gi_ring : forall t, th_state (getth st t) = READY \/ th_state (getth st t) = RUNNING -> In t (s_runq st);
    gi_good : forall t, (t < length progs)%nat -> GoodT t (getth st t) (s_now st) (s_clock st) (s_trace st);
    gi_idler_k : th_state (getth st (idler_tid st)) <> SLEEPING
  }.

  Lemma gi_idler_tid st : GI st -> idler_tid st = length progs.
  Proof. intros G. unfold idler_tid. pose proof (gi_n _ G) as H. unfold nthreads in H. rewrite H. simpl. lia. Qed.

  (* a thread that is awake is in no wait queue *)
  Lemma awake_no_waitq (st : cstate) t : WF st -> th_state (getth st t) <> SLEEPING -> th_waitq (getth st t) = None.
  Proof.
    intros W H. destruct (th_waitq (getth st t)) as [q|] eqn:E; auto.
    apply (wf_wq_of _ _ W) in E. apply (wf_wq_in _ _ W) in E. tauto.
  Qed.

End C04INV.
