(* Extraction of the C04 models: ExtrOcamlBasic only; Z, positive, nat stay Coq's datatypes. *)
From Coq Require Import ZArith List.
From PV Require Import Base.U64 C04.C04_Heap Sched.Core Sched.Prog.
Require Extraction.
Require Import ExtrOcamlBasic.
Extraction "c04_model.ml" core_run hops_run hstate_init hobs.
