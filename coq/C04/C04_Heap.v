(* C04_Heap.v — executable model of `class SleepQueue` (thread/thread.cpp 374-483):
   a binary min-heap of threads ordered by `ts_wakeup`, stored in a std::vector, with the
   position of every queued thread kept in the thread itself (`thread::idx`, -1 = not queued).

   EXECUTABLE DEFINITIONS ONLY (proofs are in C04_HeapProofs.v).

   Representation
     hq   : list tid        the vector `q` (index 0 = front)
     hidx : tid -> Z        `thread::idx` of every thread (C++ `int`)
     hbad : bool            set when the model leaves the domain in which the C++ is defined
                            (index out of range / loop fuel exhausted).  The theorems show it
                            is never set from a state satisfying the invariant.
   The deadlines `ts : tid -> Z` (thread::ts_wakeup, uint64) are a parameter of every
   operation: the heap never writes them.  Comparison is `thread::operator<` (292-294):
   strict `<` on ts_wakeup. *)
From Coq Require Import ZArith List Bool Arith.
Import ListNotations.
Local Open Scope Z_scope.

Definition tid := nat.

Definition updf {A : Type} (f : tid -> A) (k : tid) (v : A) : tid -> A :=
  fun x => if Nat.eqb x k then v else f x.

Record heap : Type := mkHeap { hq : list tid; hidx : tid -> Z; hbad : bool }.

Definition heap_empty : heap := mkHeap [] (fun _ => -1) false.

Definition getq (q : list tid) (i : nat) : tid := nth i q 0%nat.

Fixpoint setq (q : list tid) (i : nat) (v : tid) : list tid :=
  match q, i with
  | [], _ => []
  | _ :: r, O => v :: r
  | x :: r, S j => x :: setq r j v
  end.

Definition set_bad (h : heap) : heap := mkHeap (hq h) (hidx h) true.

(* update_node(idx, obj): q[idx] = obj; q[idx]->idx = idx      (436-440) *)
Definition update_node (h : heap) (i : nat) (t : tid) : heap :=
  if Nat.ltb i (length (hq h))
  then mkHeap (setq (hq h) i t) (updf (hidx h) t (Z.of_nat i)) (hbad h)
  else set_bad h.

(* bool up(int idx)  (443-460).  The loop: `i` is the hole, `tmp` the element being moved.
   Returns the heap, the final hole position and `ret`. *)
Fixpoint up_loop (fuel : nat) (ts : tid -> Z) (h : heap) (tmp : tid) (i : nat) (moved : bool)
  : heap * nat * bool :=
  match fuel with
  | O => (set_bad h, i, moved)
  | S f =>
      if Nat.eqb i 0 then (h, i, moved)
      else
        let c := Nat.div2 (i - 1) in                      (* cmpIdx = (idx - 1) >> 1 *)
        if ts tmp <? ts (getq (hq h) c)                   (* *tmp < *q[cmpIdx] *)
        then up_loop f ts (update_node h i (getq (hq h) c)) tmp c true
        else (h, i, moved)
  end.

Definition up (ts : tid -> Z) (h : heap) (i : nat) : heap * bool :=
  let tmp := getq (hq h) i in
  match up_loop (S (length (hq h))) ts h tmp i false with
  | (h', j, m) => (if m then update_node h' j tmp else h', m)
  end.

(* bool down(int idx)  (463-482) *)
Fixpoint down_loop (fuel : nat) (ts : tid -> Z) (h : heap) (tmp : tid) (i : nat) (moved : bool)
  : heap * nat * bool :=
  match fuel with
  | O => (set_bad h, i, moved)
  | S f =>
      let n := length (hq h) in
      let c := (2 * i + 1)%nat in                         (* cmpIdx = (idx << 1) + 1 *)
      if Nat.ltb c n then
        let c' := if Nat.ltb (c + 1) n && (ts (getq (hq h) (c + 1)) <? ts (getq (hq h) c))
                  then (c + 1)%nat else c in
        if ts (getq (hq h) c') <? ts tmp                  (* *q[cmpIdx] < *tmp *)
        then down_loop f ts (update_node h i (getq (hq h) c')) tmp c' true
        else (h, i, moved)
      else (h, i, moved)
  end.

Definition down (ts : tid -> Z) (h : heap) (i : nat) : heap * bool :=
  let tmp := getq (hq h) i in
  match down_loop (S (length (hq h))) ts h tmp i false with
  | (h', j, m) => (if m then update_node h' j tmp else h', m)
  end.

Definition set_idx (h : heap) (t : tid) (v : Z) : heap := mkHeap (hq h) (updf (hidx h) t v) (hbad h).
Definition pop_back (h : heap) : heap := mkHeap (removelast (hq h)) (hidx h) (hbad h).

(* int push(thread* obj)  (388-394) *)
Definition push (ts : tid -> Z) (h : heap) (t : tid) : heap :=
  let h1 := mkHeap (hq h ++ [t]) (updf (hidx h) t (Z.of_nat (length (hq h)))) (hbad h) in
  fst (up ts h1 (length (hq h))).

(* thread* pop_front()  (396-410); None on an empty queue (the C++ is undefined there; every
   caller checks `empty()` first) *)
Definition pop_front (ts : tid -> Z) (h : heap) : heap * option tid :=
  match hq h with
  | [] => (set_bad h, None)
  | ret :: _ =>
      if Nat.eqb (length (hq h)) 1 then (set_idx (pop_back h) ret (-1), Some ret)
      else
        let b := last (hq h) 0%nat in
        let h1 := update_node h 0 b in                    (* q[0] = q.back(); q[0]->idx = 0 *)
        let h2 := pop_back h1 in
        let h3 := fst (down ts h2 0) in
        (set_idx h3 ret (-1), Some ret)
  end.

(* int pop(thread* obj)  (412-434): returns (heap, return value 0 / -1) *)
Definition pop (ts : tid -> Z) (h : heap) (t : tid) : heap * Z :=
  let id := hidx h t in
  if id =? -1 then (h, -1)
  else if (id <? 0) || (Z.of_nat (length (hq h)) <=? id) then (set_bad h, 0)   (* q[id] out of range: UB *)
  else
    let i := Z.to_nat id in
    if Nat.eqb i (length (hq h) - 1) then (set_idx (pop_back h) t (-1), 0)
    else if Nat.eqb (length (hq h)) 1 then (set_idx (pop_back h) t (-1), 0)
    else
      let b := last (hq h) 0%nat in
      let h1 := update_node h i b in
      let h2 := pop_back h1 in
      let (h3, m) := up ts h2 i in
      let h4 := if m then h3 else fst (down ts h3 i) in
      (set_idx h4 t (-1), 0).

Definition front (h : heap) : option tid := match hq h with [] => None | t :: _ => Some t end.
Definition hempty (h : heap) : bool := match hq h with [] => true | _ => false end.

(* ---- op sequences (for the E1 correspondence and for the induction theorem) ------------- *)
Inductive hop : Type :=
| HPush (t : tid) (d : Z)      (* ts t := d; push t     (only when t is not queued: idx = -1) *)
| HPopFront                    (* only when non-empty *)
| HPop (t : tid).

Record hstate : Type := mkHS { hs_heap : heap; hs_ts : tid -> Z }.

Definition hstate_init : hstate := mkHS heap_empty (fun _ => 0).

(* result of one op: the value returned by the C++ call (pop_front: the thread id, -1 if the
   op was skipped because its precondition failed) *)
Definition hop_step (s : hstate) (o : hop) : hstate * Z :=
  match o with
  | HPush t d =>
      if hidx (hs_heap s) t =? -1
      then let ts' := updf (hs_ts s) t d in (mkHS (push ts' (hs_heap s) t) ts', 0)
      else (s, -2)                                       (* skipped: already queued *)
  | HPopFront =>
      if hempty (hs_heap s) then (s, -2)
      else match pop_front (hs_ts s) (hs_heap s) with
           | (h', Some t) => (mkHS h' (hs_ts s), Z.of_nat t)
           | (h', None) => (mkHS h' (hs_ts s), -3)
           end
  | HPop t => let (h', r) := pop (hs_ts s) (hs_heap s) t in (mkHS h' (hs_ts s), r)
  end.

Fixpoint hops_run (s : hstate) (l : list hop) (acc : list Z) : hstate * list Z :=
  match l with
  | [] => (s, rev acc)
  | o :: r => let (s', v) := hop_step s o in hops_run s' r (v :: acc)
  end.

(* observation used by the correspondence: queue, idx of threads 0..n-1, results *)
Definition hobs (n : nat) (s : hstate) : list tid * list Z * bool :=
  (hq (hs_heap s), map (hidx (hs_heap s)) (seq 0 n), hbad (hs_heap s)).
