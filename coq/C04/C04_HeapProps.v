(* C04_HeapProps.v — user-facing theorems of the sleep-queue heap (part A of C04).
   ONLY restatements of lemmas proved in C04_HeapProofs.v + Print Assumptions. *)
From Coq Require Import ZArith List Permutation.
From PV Require Import C04.C04_Heap C04.C04_HeapProofs.
Import ListNotations.

Theorem heap_inv_init : forall ts, Inv ts heap_empty.
Proof. exact Inv_empty. Qed.
Print Assumptions heap_inv_init.

Theorem heap_inv_ts_ext : forall ts ts' h,
  Inv ts h -> (forall t, In t (hq h) -> ts' t = ts t) -> Inv ts' h.
Proof. exact Inv_ts_ext. Qed.
Print Assumptions heap_inv_ts_ext.

Theorem heap_front_is_min : forall ts h t,
  Inv ts h -> front h = Some t -> forall u, In u (hq h) -> (ts t <= ts u)%Z.
Proof. exact front_is_min. Qed.
Print Assumptions heap_front_is_min.

Theorem heap_inv_push : forall ts h t,
  Inv ts h -> hidx h t = (-1)%Z -> Inv ts (push ts h t).
Proof. exact push_Inv. Qed.
Print Assumptions heap_inv_push.

Theorem heap_push_perm : forall ts h t,
  Inv ts h -> hidx h t = (-1)%Z -> Permutation (hq (push ts h t)) (t :: hq h).
Proof. exact push_perm. Qed.
Print Assumptions heap_push_perm.

Theorem heap_inv_pop_front : forall ts h,
  Inv ts h -> hq h <> [] ->
  exists h' t, pop_front ts h = (h', Some t) /\ front h = Some t /\ Inv ts h' /\
               Permutation (hq h) (t :: hq h') /\ hidx h' t = (-1)%Z.
Proof. exact pop_front_Inv. Qed.
Print Assumptions heap_inv_pop_front.

Theorem heap_pop_front_min : forall ts h h' t,
  Inv ts h -> pop_front ts h = (h', Some t) ->
  In t (hq h) /\ forall u, In u (hq h) -> (ts t <= ts u)%Z.
Proof. exact pop_front_min. Qed.
Print Assumptions heap_pop_front_min.

Theorem heap_inv_pop : forall ts h t,
  Inv ts h -> In t (hq h) -> exists h', pop ts h t = (h', 0%Z) /\ Inv ts h'.
Proof. exact pop_Inv. Qed.
Print Assumptions heap_inv_pop.

Theorem heap_pop_removes_exactly : forall ts h t,
  Inv ts h ->
  (In t (hq h) ->
   exists h', pop ts h t = (h', 0%Z) /\ Inv ts h' /\ Permutation (hq h) (t :: hq h') /\
              hidx h' t = (-1)%Z) /\
  (~ In t (hq h) -> pop ts h t = (h, (-1)%Z)).
Proof. exact pop_removes_exactly. Qed.
Print Assumptions heap_pop_removes_exactly.

Theorem heap_ops_inv : forall l s rs,
  hops_run hstate_init l [] = (s, rs) ->
  Inv (hs_ts s) (hs_heap s) /\ hbad (hs_heap s) = false.
Proof. exact hops_Inv. Qed.
Print Assumptions heap_ops_inv.

Theorem heap_ops_pop_front_min : forall l s rs s' v,
  hops_run hstate_init l [] = (s, rs) -> hop_step s HPopFront = (s', v) ->
  (hq (hs_heap s) = [] /\ v = (-2)%Z /\ s' = s) \/
  (exists t, v = Z.of_nat t /\ front (hs_heap s) = Some t /\
             (forall u, In u (hq (hs_heap s)) -> (hs_ts s t <= hs_ts s u)%Z) /\
             Permutation (hq (hs_heap s)) (t :: hq (hs_heap s')) /\
             hidx (hs_heap s') t = (-1)%Z /\ hs_ts s' = hs_ts s /\ HSInv s').
Proof. exact hops_pop_front_min. Qed.
Print Assumptions heap_ops_pop_front_min.
