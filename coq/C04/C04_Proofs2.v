(* C04_Proofs2.v — deadline_met (state level), the interrupt delivery lemmas, and the refutations
   interrupt_at_most_once_refuted (F6/F7) and shutdown_bound_refuted (F8) with concrete witnesses. *)
From Coq Require Import ZArith List Bool Arith Lia Permutation.
From PV Require Import Base.U64 C04.C04_Heap C04.C04_HeapProofs Sched.Core Sched.Prog Sched.Lemmas
                       Sched.Invariant Sched.Effects C04.C04_Inv C04.C04_Good C04.C04_Step C04.C04_Step2
                       C04.C04_Proofs.
Import ListNotations.
Local Open Scope Z_scope.

(* ---- deadline_met ------------------------------------------------------------------------------------
   resume_threads runs only in the idler; after every round of the idler (whatever it does next:
   yield to the woken threads, advance the clock, end the run) no thread whose deadline has been
   reached is still SLEEPING. *)
Lemma deadline_met_round (progs : list (list (op no_op))) (st : cstate) rest :
  GI progs st -> s_runq st = idler_tid st :: rest ->
  forall u, th_state (getth (idler_round st) u) = SLEEPING ->
            s_now (idler_round st) < th_ts (getth (idler_round st) u).
Proof.
  intros G Hr. pose proof (gi_wf _ _ G) as W.
  unfold idler_round.
  destruct (resume_threads_spec unit st W) as (wk & Hcount & W1 & Hnd & R1 & N1 & C1 & Tr1 & L1 & _ & E1 & K1 & Hw & Ho & Hd).
  destruct (resume_threads st) as (st1, count). cbn [fst snd] in *.
  set (now1 := if hempty (s_sleepq st) then s_now st else s_clock st) in *.
  assert (Hsl : forall u, th_state (getth st1 u) = SLEEPING -> s_clock st1 = s_now st1).
  { intros u Hu.
    assert (Hnw : ~ In u wk) by (intros X; destruct (Hw u X) as (_ & _ & Y); rewrite Y in Hu; discriminate).
    rewrite (Ho u Hnw) in Hu. apply (wf_sleep _ _ W) in Hu.
    rewrite N1, C1. subst now1. unfold hempty. destruct (hq (s_sleepq st)); [destruct Hu|reflexivity]. }
  destruct (negb (Nat.eqb count 0) || negb (match s_runq st1 with [_] => true | _ => false end)) eqn:E.
  - destruct (s_runq st1) as [|a [|to r]] eqn:Er.
    + intros u Hu. unfold do_yield in *. rewrite Er in *. change (getth (set_stuck st1) u) with (getth st1 u) in *.
      change (s_now (set_stuck st1)) with (s_now st1). rewrite N1. apply Hd. exact Hu.
    + intros u Hu. unfold do_yield in *. rewrite Er in *. change (getth (set_stuck st1) u) with (getth st1 u) in *.
      change (s_now (set_stuck st1)) with (s_now st1). rewrite N1. apply Hd. exact Hu.
    + pose proof (wf_nodup _ _ W1) as Hnd1. rewrite Er in Hnd1.
      assert (Hne : a <> to) by (inversion Hnd1 as [|? ? Hx _]; subst; intros ->; apply Hx; left; auto).
      assert (Hf : (a < nthreads st1)%nat) by (apply (ring_in_range unit); auto; rewrite Er; left; auto).
      assert (Hto : (to < nthreads st1)%nat) by (apply (ring_in_range unit); auto; rewrite Er; right; left; auto).
      pose proof (fun u => getth_do_yield unit st1 a to r u Er Hne Hf Hto) as Gt.
      assert (N : s_now (do_yield st1) = s_clock st1) by (unfold do_yield; rewrite Er; reflexivity).
      intros u. rewrite Gt, N.
      destruct (Nat.eqb_spec u to); [thsimpl; discriminate|].
      destruct (Nat.eqb_spec u a); [thsimpl; discriminate|].
      intros Hu. rewrite (Hsl u Hu), N1. apply Hd. exact Hu.
  - destruct (front (s_sleepq st1)) as [f|].
    + destruct (th_ts (getth st1 f) =? MAX64); intros u Hu;
        (match goal with |- ?a < _ => change a with (s_now st1) end); rewrite N1; apply Hd; exact Hu.
    + intros u Hu. (match goal with |- ?a < _ => change a with (s_now st1) end). rewrite N1. apply Hd. exact Hu.
Qed.

(* ---- delivery of an interrupt ----------------------------------------------------------------------------
   thread_interrupt(th, e) on a SLEEPING thread makes it READY with error_number = e, in the run
   queue and out of the sleep queue; on a READY thread with a pending error_number it changes nothing
   (so the first interrupt is the one reported). *)
Lemma interrupt_wakes_sleeper_lemma (st : cstate) t e :
  WF st -> th_state (getth st t) = SLEEPING ->
  let st' := thread_interrupt st t e in
  th_state (getth st' t) = READY /\ th_err (getth st' t) = e /\ th_waitq (getth st' t) = None /\
  In t (s_runq st') /\ ~ In t (hq (s_sleepq st')) /\ WF st'.
Proof.
  intros W Hs st'. pose proof (WF_thread_interrupt _ st t e W) as W'. fold st' in W'.
  assert (G : getth st' t = interrupted (getth st t) e (length (s_trace st))).
  { unfold st'. rewrite getth_thread_interrupt, Nat.eqb_refl. reflexivity. }
  unfold interrupted in G. rewrite Hs in G.
  destruct (thread_interrupt_frame unit st t e) as (R & _). fold st' in R.
  destruct (tstate_eqb_spec (th_state (getth st t)) SLEEPING); [|contradiction].
  rewrite G. thsimpl.
  split; [reflexivity|]. split; [reflexivity|]. split; [reflexivity|].
  split; [rewrite R, in_app_iff; right; left; reflexivity|].
  split; [|exact W'].
  intros X. apply (wf_sleep _ _ W') in X. rewrite G in X. discriminate.
Qed.

Lemma pending_errno_not_overwritten_lemma (st : cstate) t e :
  th_state (getth st t) = READY -> th_err (getth st t) <> 0 ->
  getth (thread_interrupt st t e) t = getth st t.
Proof.
  intros Hs He. rewrite getth_thread_interrupt, Nat.eqb_refl. unfold interrupted. rewrite Hs.
  destruct (th_err (getth st t) =? 0) eqn:E; [apply Z.eqb_eq in E; contradiction|reflexivity].
Qed.

(* ---- interrupt_at_most_once: REFUTED (F6, F7) --------------------------------------------------------------
   An event REPORTS an interrupt if it is a usleep that returned -1 other than by the 10 ms cap of a
   shut-down thread, or a yield that returned a non-zero error_number.  `ev_src` identifies the
   delivery (the index of the interrupting op's event).  The property says that two different
   events of a thread never report the same delivery. *)
Definition reports_interrupt (ps : list (list core_op)) (ev : event) : Prop :=
  (exists d, ev_cop ps ev = Some (OUsleep d) /\ ev_ret ev = -1 /\ ev_k ev <> [3]) \/
  (ev_cop ps ev = Some OYield /\ ev_ret ev <> 0) \/
  (exists j, ev_cop ps ev = Some (OYieldTo j) /\ ev_k ev = [1] /\ ev_ret ev <> 0).

Definition interrupt_at_most_once : Prop :=
  forall ps fuel i j e1 e2, ps <> [] -> NZ_progs ps ->
    nth_error (run_trace fuel ps) i = Some e1 -> nth_error (run_trace fuel ps) j = Some e2 -> i <> j ->
    reports_interrupt ps e1 -> reports_interrupt ps e2 -> ev_tid e1 = ev_tid e2 ->
    ev_src e1 <> ev_src e2.

(* the witness: T0 creates T1, yields to it, interrupts it (it is READY inside thread_yield), then
   sleeps; T1 yields, then sleeps 200 us.  T1's yield returns 4, and its usleep(200) sleeps the full
   200 us and returns -1 / errno 4 for the SAME interrupt (event 2). *)
Definition f6_witness : list (list core_op) :=
  [[OCreate 1%nat false; OYield; OInterrupt 1%nat 4; OUsleep 500]; [OYield; OUsleep 200]].

Lemma f6_witness_trace :
  map (fun e => (ev_tid e, ev_pc e, ev_ret e, ev_err e, ev_time e, ev_src e)) (run_trace 100 f6_witness) =
  [(0%nat, 0%nat, 0, 0, 1000, 0%nat); (0%nat, 1%nat, 0, 0, 1000, 0%nat); (0%nat, 2%nat, 0, 0, 1000, 0%nat);
   (1%nat, 0%nat, 4, 0, 1000, 2%nat); (1%nat, 1%nat, -1, 4, 1200, 2%nat); (0%nat, 3%nat, 0, 0, 1500, 0%nat)].
Proof. vm_compute. reflexivity. Qed.

Lemma interrupt_at_most_once_refuted_lemma : ~ interrupt_at_most_once.
Proof.
  intros H.
  assert (Hne : f6_witness <> []) by discriminate.
  assert (Hnz : NZ_progs f6_witness).
  { intros t pc k e. destruct t as [|[|[|t]]]; destruct pc as [|[|[|[|pc]]]]; simpl; try discriminate; try (destruct pc; discriminate).
    intros [= _ <-]. discriminate. }
  remember (nth 3 (run_trace 100 f6_witness) (mkEv 0%nat 0%nat 0 0 0 0 false [] 0%nat)) as e1 eqn:E1.
  remember (nth 4 (run_trace 100 f6_witness) (mkEv 0%nat 0%nat 0 0 0 0 false [] 0%nat)) as e2 eqn:E2.
  apply (H f6_witness 100%nat 3%nat 4%nat e1 e2 Hne Hnz).
  - subst e1. vm_compute. reflexivity.
  - subst e2. vm_compute. reflexivity.
  - discriminate.
  - right; left. subst e1. vm_compute. split; [reflexivity|discriminate].
  - left. exists 200. subst e2. vm_compute. split; [reflexivity|]. split; [reflexivity|discriminate].
  - subst e1 e2. vm_compute. reflexivity.
  - subst e1 e2. vm_compute. reflexivity.
Qed.

(* ---- shutdown_bound: REFUTED for wait-queue blocking (F8) ----------------------------------------------------
   The full property: no completed op of a thread that was marked by thread_shutdown when it issued
   the op takes more than 10 ms. *)
Definition shutdown_bound : Prop :=
  forall ps fuel ev, ps <> [] -> NZ_progs ps -> In ev (run_trace fuel ps) ->
    ev_shut ev = true -> ev_time ev <= ev_issued ev + SHUTDOWN_CAP.

(* the witness: T2 is marked by thread_shutdown before it first runs; its thread_join(T1) waits on
   T1's condition variable (cvar_do_wait -> thread_usleep_defer(timeout, waitq, ...): no cap) until
   T1 finishes its 30 ms sleep. *)
Definition f8_witness : list (list core_op) :=
  [[OCreate 1%nat true; OCreate 2%nat false; OShutdown 2%nat true; OUsleep 50000]; [OUsleep 30000]; [OJoin 1%nat]].

Lemma f8_witness_trace :
  map (fun e => (ev_tid e, ev_pc e, ev_ret e, ev_time e, ev_issued e, ev_shut e)) (run_trace 100 f8_witness) =
  [(0%nat, 0%nat, 0, 1000, 1000, false); (0%nat, 1%nat, 0, 1000, 1000, false); (0%nat, 2%nat, 0, 1000, 1000, false);
   (1%nat, 0%nat, 0, 31000, 1000, false); (2%nat, 0%nat, 1001, 31000, 1000, true); (0%nat, 3%nat, 0, 51000, 1000, false)].
Proof. vm_compute. reflexivity. Qed.

Lemma shutdown_bound_refuted_lemma : ~ shutdown_bound.
Proof.
  intros H.
  assert (Hne : f8_witness <> []) by discriminate.
  assert (Hnz : NZ_progs f8_witness).
  { intros t pc k e. destruct t as [|[|[|[|t]]]]; destruct pc as [|[|[|[|pc]]]]; simpl; try discriminate; try (destruct pc; discriminate). }
  remember (nth 4 (run_trace 100 f8_witness) (mkEv 0%nat 0%nat 0 0 0 0 false [] 0%nat)) as e1 eqn:E1.
  assert (Hin : In e1 (run_trace 100 f8_witness)) by (subst e1; vm_compute; tauto).
  pose proof (H f8_witness 100%nat e1 Hne Hnz Hin) as X.
  assert (Hs : ev_shut e1 = true) by (subst e1; vm_compute; reflexivity).
  specialize (X Hs). subst e1. vm_compute in X. apply X. reflexivity.
Qed.

(* ---- what does hold: a real sleep CONSUMES the interrupt it reports -------------------------------------
   If a thread_usleep that actually slept (phase [1]) returns -1 for delivery number s, no later
   event of that thread reports a delivery <= s: duplicates arise only from yields (thread_yield,
   thread_yield_to, usleep(0)), which report without consuming. *)
Lemma Pairs_rev progs tr : Pairs progs tr ->
  forall i j e1 e2, nth_error (rev tr) i = Some e1 -> nth_error (rev tr) j = Some e2 -> (i < j)%nat ->
    ev_tid e1 = ev_tid e2 -> clearing progs e1 -> reports progs e2 -> (ev_src e1 < ev_src e2)%nat.
Proof.
  induction tr as [|x r IH]; intros P i j e1 e2 H1 H2 Hij Ht Hc Hr.
  - destruct i; discriminate.
  - simpl in P. destruct P as (P & Hx). simpl in H1, H2.
    assert (Hj : (j < length (rev r ++ [x]))%nat) by (apply nth_error_Some; congruence).
    rewrite app_length, rev_length in Hj. simpl in Hj.
    destruct (Nat.eq_dec j (length r)) as [->|Hne].
    + rewrite nth_error_app2 in H2 by (rewrite rev_length; lia). rewrite rev_length, Nat.sub_diag in H2.
      injection H2 as <-. rewrite nth_error_app1 in H1 by (rewrite rev_length; lia).
      apply Hx; auto. apply in_rev. eapply nth_error_In; eauto.
    + rewrite nth_error_app1 in H1 by (rewrite rev_length; lia).
      rewrite nth_error_app1 in H2 by (rewrite rev_length; lia).
      eapply IH; eauto.
Qed.

Lemma sleep_consumes_interrupt_lemma : forall ps fuel i j e1 e2 d, ps <> [] -> NZ_progs ps ->
  nth_error (run_trace fuel ps) i = Some e1 -> nth_error (run_trace fuel ps) j = Some e2 -> (i < j)%nat ->
  ev_tid e1 = ev_tid e2 ->
  ev_cop ps e1 = Some (OUsleep d) -> ev_k e1 = [1] -> ev_ret e1 = -1 ->
  reports_interrupt ps e2 -> (ev_src e1 < ev_src e2)%nat.
Proof.
  intros ps fuel i j e1 e2 d Hne Hnz H1 H2 Hij Ht Hop Hk Hr Hrep.
  destruct (run_GI_TI fuel ps Hne Hnz) as (_ & (_ & P)).
  eapply (Pairs_rev (core_progs ps)); eauto.
  - split; [exists d; apply ev_op_core; exact Hop|auto].
  - destruct Hrep as [(d' & A & B & C)|[(A & B)|(j' & A & B & C)]].
    + left. split; [exists d'; apply ev_op_core; exact A|auto].
    + right; left. split; [apply ev_op_core; exact A|exact B].
    + right; right. split; [exists j'; apply ev_op_core; exact A|auto].
Qed.

(* ---- Examples: concrete non-trivial instances of the hypotheses of the theorems --------------------------- *)
Example f6_witness_NZ : f6_witness <> [] /\ NZ_progs f6_witness.
Proof.
  split; [discriminate|].
  intros t pc k e. destruct t as [|[|[|t]]]; destruct pc as [|[|[|[|pc]]]]; simpl; try discriminate; try (destruct pc; discriminate).
  intros [= _ <-]. discriminate.
Qed.

(* hypotheses of sleep_zero_means_elapsed / sleep_zero_elapsed_at_least: T0's usleep(500) returns 0 *)
Example ex_sleep_zero :
  exists ev d, In ev (s_trace (run_state 100 f6_witness)) /\ ev_cop f6_witness ev = Some (OUsleep d) /\
               ev_ret ev = 0 /\ 0 <= d /\ ev_issued ev + d <= MAX64 /\ ev_time ev - ev_issued ev = 500.
Proof.
  exists (nth 5 (run_trace 100 f6_witness) (mkEv 0%nat 0%nat 0 0 0 0 false [] 0%nat)), 500.
  vm_compute. repeat split; try discriminate; tauto.
Qed.

(* hypotheses of sleep_minus1_means_interrupted: T1's usleep(200) returns -1 / errno 4 *)
Example ex_sleep_minus1 :
  exists ev d, In ev (s_trace (run_state 100 f6_witness)) /\ ev_cop f6_witness ev = Some (OUsleep d) /\
               ev_ret ev = -1 /\ ev_err ev = 4.
Proof.
  exists (nth 4 (run_trace 100 f6_witness) (mkEv 0%nat 0%nat 0 0 0 0 false [] 0%nat)), 200.
  vm_compute. repeat split; tauto.
Qed.

(* hypotheses of shutdown_bound_usleep: T1 is marked before it first runs; its usleep(30000) returns
   -1 / EPERM after exactly 10000 us *)
Definition shut_witness : list (list core_op) :=
  [[OCreate 1%nat false; OShutdown 1%nat true; OUsleep 50000]; [OUsleep 30000]].
Example ex_shutdown_usleep :
  exists ev d, In ev (s_trace (run_state 100 shut_witness)) /\ ev_cop shut_witness ev = Some (OUsleep d) /\
               ev_shut ev = true /\ expired (ev_issued ev) (timeout_of (ev_issued ev) d) = false /\
               ev_ret ev = -1 /\ ev_err ev = EPERM /\ ev_time ev = ev_issued ev + 10000.
Proof.
  exists (nth 2 (run_trace 100 shut_witness) (mkEv 0%nat 0%nat 0 0 0 0 false [] 0%nat)), 30000.
  vm_compute. repeat split; tauto.
Qed.

(* hypotheses of deadline_met and of interrupt_wakes_sleeper: after 10 steps of the F6 witness both
   program threads sleep (deadlines 1200 and 1500) and the idler (thread 2) is the current thread *)
Example ex_idler_round :
  let st := run_state 10 f6_witness in
  GI (core_progs f6_witness) st /\ s_runq st = [idler_tid st] /\
  th_state (getth st 0%nat) = SLEEPING /\ th_state (getth st 1%nat) = SLEEPING /\
  th_ts (getth st 1%nat) = 1200 /\ WF st.
Proof.
  destruct f6_witness_NZ as (A & B). destruct (run_GI_TI 10 f6_witness A B) as (G & _).
  cbv zeta. split; [exact G|]. split; [vm_compute; reflexivity|]. split; [vm_compute; reflexivity|].
  split; [vm_compute; reflexivity|]. split; [vm_compute; reflexivity|]. apply (gi_wf _ _ G).
Qed.

(* hypotheses of sleep_consumes_interrupt: T1's first sleep consumes delivery 2, its second sleep
   reports delivery 5 *)
Definition consume_witness : list (list core_op) :=
  [[OCreate 1%nat false; OUsleep 10; OInterrupt 1%nat 4; OUsleep 100; OInterrupt 1%nat 11; OUsleep 100];
   [OUsleep 1000; OUsleep 1000]].
Example ex_consumes :
  exists e1 e2, nth_error (run_trace 200 consume_witness) 3 = Some e1 /\ nth_error (run_trace 200 consume_witness) 6 = Some e2 /\
    ev_tid e1 = ev_tid e2 /\ ev_cop consume_witness e1 = Some (OUsleep 1000) /\ ev_k e1 = [1] /\ ev_ret e1 = -1 /\
    reports_interrupt consume_witness e2 /\ ev_src e1 = 2%nat /\ ev_src e2 = 5%nat.
Proof.
  exists (nth 3 (run_trace 200 consume_witness) (mkEv 0%nat 0%nat 0 0 0 0 false [] 0%nat)),
         (nth 6 (run_trace 200 consume_witness) (mkEv 0%nat 0%nat 0 0 0 0 false [] 0%nat)).
  split; [vm_compute; reflexivity|]. split; [vm_compute; reflexivity|].
  split; [vm_compute; reflexivity|]. split; [vm_compute; reflexivity|].
  split; [vm_compute; reflexivity|]. split; [vm_compute; reflexivity|].
  split; [|split; vm_compute; reflexivity].
  left. exists 1000. vm_compute. split; [reflexivity|]. split; [reflexivity|discriminate].
Qed.
