(* C04_Step.v — every step of the cooperative interpreter (core ops) preserves GI and TI *)
From Coq Require Import ZArith List Bool Arith Lia Permutation.
From PV Require Import Base.U64 C04.C04_Heap C04.C04_HeapProofs Sched.Core Sched.Prog Sched.Lemmas
                       Sched.Invariant Sched.Effects C04.C04_Inv C04.C04_Good.
Import ListNotations.
Local Open Scope Z_scope.

Section STEP.
  Variable progs : list (list (op no_op)).
  (* thread_interrupt(th, 0) is thread_resume: it legitimately ends a sleep early with result 0;
     the contract theorems are about interrupts with a non-zero errno *)
  Hypothesis NZ : forall t pc k e, nth_error (prog_of progs t) pc = Some (OCore (OInterrupt k e)) -> e <> 0.

  Notation GoodT := (GoodT progs).
  Notation GI := (GI progs).
  Notation TI := (TI progs).
  Notation EvOK := (EvOK progs).
  Notation cur_op := (cur_op progs).

  Lemma sat_add_le_max x y : sat_add x y <= MAX64.
  Proof. unfold sat_add. destruct (MAX64 <? x + y) eqn:E; [lia|apply Z.ltb_ge in E; lia]. Qed.
  Lemma sat_add_ge x y : 0 <= y -> x <= MAX64 -> x <= sat_add x y.
  Proof. intros. unfold sat_add. destruct (MAX64 <? x + y) eqn:E; lia. Qed.
  Lemma sat_add_le_sum x y : 0 <= y -> sat_add x y <= x + y.
  Proof. intros. unfold sat_add. destruct (MAX64 <? x + y) eqn:E; [apply Z.ltb_lt in E|]; lia. Qed.

  Lemma not_expired now exp : expired now exp = false -> now < exp.
  Proof. unfold expired. intros H. apply orb_false_iff in H. destruct H as (_ & H). apply Z.leb_gt in H. exact H. Qed.

  (* ---- context of a step of a user thread ------------------------------------------------------ *)
  Lemma user_ctx (st : cstate) t rest :
    GI st -> s_runq st = t :: rest -> t <> idler_tid st ->
    (t < length progs)%nat /\ s_now st = s_clock st /\ th_state (getth st t) <> SLEEPING /\
    th_waitq (getth st t) = None /\ exists to rest', rest = to :: rest'.
  Proof.
    intros G Hr Hid. pose proof (gi_wf _ _ G) as W.
    assert (Hin : In t (s_runq st)) by (rewrite Hr; left; auto).
    assert (Hs : th_state (getth st t) <> SLEEPING) by (apply (wf_runq _ _ W); auto).
    split.
    - pose proof (ring_in_range _ _ _ W Hin) as Hl. rewrite (gi_n _ _ G) in Hl.
      rewrite (gi_idler_tid _ _ G) in Hid. lia.
    - split.
      + destruct (gi_sync _ _ G) as [?|(X & _)]; auto. rewrite Hr in X. congruence.
      + split; auto. split; [apply awake_no_waitq; auto|].
        pose proof (In_idler_tail _ _ _ _ W Hr Hid) as Hi. destruct rest as [|to r]; [destruct Hi|eauto].
  Qed.

  (* ---- GI with the per-thread part dropped for the thread t that is being rewritten ------------ *)
  Record GIw (st : cstate) (t : tid) (tr : list event) : Prop := mkGIw {
    gw_wf : WF st;
    gw_n : nthreads st = S (length progs);
    gw_sync : s_now st = s_clock st;
    gw_max : s_clock st <= MAX64;
    gw_pos : 0 <= s_now st;
    gw_ring : forall u, th_state (getth st u) = READY \/ th_state (getth st u) = RUNNING -> In u (s_runq st);
    gw_good : forall u, (u < length progs)%nat -> u <> t -> GoodT u (getth st u) (s_now st) (s_clock st) tr;
    gw_idler : th_state (getth st (idler_tid st)) <> SLEEPING;
    gw_t : (t < length progs)%nat;
    gw_issued : 0 <= th_issued (getth st t) <= s_now st;
    gw_awake : th_state (getth st t) <> SLEEPING;
    gw_cur : exists rest, s_runq st = t :: rest
  }.

  Lemma GI_GIw st t rest : GI st -> s_runq st = t :: rest -> t <> idler_tid st -> GIw st t (s_trace st).
  Proof.
    intros G Hr Hid. destruct (user_ctx st t rest G Hr Hid) as (Ht & Hs & Haw & _).
    constructor.
    - apply (gi_wf _ _ G).
    - apply (gi_n _ _ G).
    - exact Hs.
    - apply (gi_max _ _ G).
    - apply (gi_pos _ _ G).
    - apply (gi_ring _ _ G).
    - intros u Hu _. apply (gi_good _ _ G); auto.
    - apply (gi_idler_k _ _ G).
    - exact Ht.
    - apply (g_issued _ _ _ _ _ _ (gi_good _ _ G t Ht)).
    - exact Haw.
    - eauto.
  Qed.

  Lemma GIw_idler_tid st t tr : GIw st t tr -> idler_tid st = length progs.
  Proof. intros G. unfold idler_tid. pose proof (gw_n _ _ _ G) as H. unfold nthreads in H. rewrite H. simpl. lia. Qed.

  Lemma GIw_t_range st t tr : GIw st t tr -> (t < nthreads st)%nat.
  Proof. intros G. rewrite (gw_n _ _ _ G). pose proof (gw_t _ _ _ G). lia. Qed.

  Lemma GIw_mono st t tr x : GIw st t tr -> ev_tid x = t -> GIw st t (x :: tr).
  Proof.
    intros [A B C D D' E F G H I J K] Hx. constructor; auto. intros u Hu Hne. apply GoodT_mono; auto.
    intros X. congruence.
  Qed.

  (* rewriting fields of t that the scheduler ignores keeps GIw *)
  Lemma GIw_modth st t tr f :
    GIw st t tr -> sched_neutral f -> (forall th, 0 <= th_issued (f th) <= s_now st \/ th_issued (f th) = th_issued th) ->
    GIw (modth st t f) t tr.
  Proof.
    intros G Hf Hi. pose proof (GIw_t_range _ _ _ G) as Hr.
    assert (Hst : forall u, th_state (getth (modth st t f) u) = th_state (getth st u)).
    { intros u. apply (getth_modth_proj unit th_state). intros; apply Hf. }
    constructor.
    - apply WF_modth_neutral; [exact Hf|apply (gw_wf _ _ _ G)].
    - rewrite nthreads_modth. apply (gw_n _ _ _ G).
    - apply (gw_sync _ _ _ G).
    - apply (gw_max _ _ _ G).
    - apply (gw_pos _ _ _ G).
    - intros u. rewrite Hst. apply (gw_ring _ _ _ G).
    - intros u Hu Hne. rewrite getth_modth_other by auto. apply (gw_good _ _ _ G); auto.
    - change (idler_tid (modth st t f)) with (idler_tid (setth st t (f (getth st t)))).
      rewrite (idler_tid_nthreads _ _ _ (nthreads_setth _ _ _ _)). rewrite Hst. apply (gw_idler _ _ _ G).
    - apply (gw_t _ _ _ G).
    - rewrite getth_modth_same by auto. change (s_now (modth st t f)) with (s_now st).
      destruct (Hi (getth st t)) as [X|X]; [exact X|rewrite X; apply (gw_issued _ _ _ G)].
    - rewrite Hst. apply (gw_awake _ _ _ G).
    - apply (gw_cur _ _ _ G).
  Qed.

  (* ---- the op completes (ARet) -------------------------------------------------------------------- *)
  Lemma aret_inv st t r e :
    let th := getth st t in
    let ev := mkEv t (th_pc th) r e (s_now st) (th_issued th) (th_shut_issue th) (th_k th) (th_esrc th) in
    GIw st t (ev :: s_trace st) -> TI st ->
    EvOK (ev :: s_trace st) ev ->
    (th_err th <> 0 -> src_ok progs (ev :: s_trace st) t (th_err th) (th_esrc th)) ->
    fresh progs t th (ev :: s_trace st) ->
    (reports progs ev -> forall e1, In e1 (s_trace st) -> ev_tid e1 = t -> clearing progs e1 -> (ev_src e1 < ev_src ev)%nat) ->
    GI (apply_action st t (ARet r e) true) /\ TI (apply_action st t (ARet r e) true).
  Proof.
    intros th ev G T Hev Hsrc HF HP.
    pose proof (GIw_t_range _ _ _ G) as Hr.
    unfold apply_action. fold th. fold ev.
    set (st1 := set_trace st (ev :: s_trace st)).
    set (f := fun x : thread => set_tk (set_tpc x (S (th_pc x))) []).
    assert (Hst : forall u, th_state (getth (modth st1 t f) u) = th_state (getth st u)).
    { intros u. change (getth st u) with (getth st1 u). apply (getth_modth_proj unit th_state). reflexivity. }
    assert (Hn : nthreads (modth st1 t f) = nthreads st) by (change (nthreads st) with (nthreads st1); apply nthreads_modth).
    assert (W' : WF (modth st1 t f)).
    { apply WF_modth_neutral; [intros x; repeat split; reflexivity|].
      apply (WF_same _ st); [apply same_sched_set_trace|apply (gw_wf _ _ _ G)]. }
    assert (Gd : forall u, (u < length progs)%nat ->
                 GoodT u (getth (modth st1 t f) u) (s_now st) (s_clock st) (ev :: s_trace st)).
    { intros u Hu. destruct (Nat.eq_dec u t) as [->|Hne].
      - rewrite getth_modth_same by exact Hr. change (getth st1 t) with th. unfold f.
        constructor; thsimpl.
        + apply (gw_issued _ _ _ G).
        + intros X. exfalso. apply (gw_awake _ _ _ G). exact X.
        + intros d _. split; [left; reflexivity|]. split; [intros X; discriminate|split; intros X; discriminate].
        + intros X. left. apply Hsrc. exact X.
        + intros q Hq. pose proof (awake_no_waitq st t (gw_wf _ _ _ G) (gw_awake _ _ _ G)) as X. fold th in X. congruence.
        + intros X. congruence.
        + intros _ _. reflexivity.
        + exact HF.
      - rewrite getth_modth_other by auto. change (getth st1 u) with (getth st u).
        apply (gw_good _ _ _ G); auto. }
    split.
    - constructor.
      + exact W'.
      + rewrite Hn. apply (gw_n _ _ _ G).
      + left. apply (gw_sync _ _ _ G).
      + apply (gw_max _ _ _ G).
      + apply (gw_pos _ _ _ G).
      + intros u. rewrite Hst. apply (gw_ring _ _ _ G).
      + exact Gd.
      + rewrite (idler_tid_nthreads _ _ _ Hn), Hst. apply (gw_idler _ _ _ G).
    - split.
      + intros x [<-|Hin]; [exact Hev|]. apply EvOK_mono. apply (proj1 T). exact Hin.
      + change (s_trace (modth st1 t f)) with (ev :: s_trace st). split; [exact (proj2 T)|exact HP].
  Qed.

  (* ---- thread_interrupt by the current thread -------------------------------------------------- *)
  Lemma interrupted_state_cases th e src :
    (th_state th = SLEEPING /\ th_state (interrupted th e src) = READY) \/
    (th_state th <> SLEEPING /\ th_state (interrupted th e src) = th_state th).
  Proof.
    unfold interrupted. destruct (th_state th) eqn:E; thsimpl; try (right; split; [discriminate|auto]; fail).
    - right. split; [discriminate|]. destruct (th_err th =? 0); thsimpl; auto.
    - left. auto.
  Qed.
  Lemma interrupted_issued th e src : th_issued (interrupted th e src) = th_issued th.
  Proof. unfold interrupted. destruct (th_state th); auto. destruct (th_err th =? 0); auto. Qed.

  Lemma GIw_interrupt st t j e ev :
    GIw st t (s_trace st) -> e <> 0 -> delivers progs ev j e -> (j < length progs)%nat ->
    GIw (thread_interrupt st j e) t (ev :: s_trace st).
  Proof.
    intros G He Hd Hj.
    pose proof (fun u => getth_thread_interrupt unit st j e u) as Gt.
    destruct (thread_interrupt_frame unit st j e) as (R & N & F1 & F2 & F3 & _).
    set (st' := thread_interrupt st j e) in *.
    pose proof (interrupted_state_cases (getth st j) e (length (s_trace st))) as Hc.
    assert (Hidl : idler_tid st' = idler_tid st) by (apply idler_tid_nthreads; exact N).
    constructor.
    - apply WF_thread_interrupt. apply (gw_wf _ _ _ G).
    - rewrite N. apply (gw_n _ _ _ G).
    - rewrite F1, F2. apply (gw_sync _ _ _ G).
    - rewrite F2. apply (gw_max _ _ _ G).
    - rewrite F1. apply (gw_pos _ _ _ G).
    - intros u. rewrite Gt, R. destruct (Nat.eqb_spec u j) as [->|Hne].
      + destruct Hc as [(Hs & ->)|(Hs & ->)].
        * intros _. rewrite Hs. simpl. rewrite in_app_iff. right; left; auto.
        * intros Hu. destruct (tstate_eqb_spec (th_state (getth st j)) SLEEPING); [congruence|].
          apply (gw_ring _ _ _ G); auto.
      + intros Hu. destruct (tstate_eqb (th_state (getth st j)) SLEEPING); [rewrite in_app_iff; left|];
          apply (gw_ring _ _ _ G); auto.
    - intros u Hu Hne. rewrite Gt, F1, F2. destruct (Nat.eqb_spec u j) as [->|Hne'].
      + apply GoodT_interrupted; auto. apply (gw_good _ _ _ G); auto.
      + apply GoodT_mono; [apply (gw_good _ _ _ G); auto|]. intros _. eapply delivers_not_clearing; eauto.
    - rewrite Hidl, Gt. rewrite (GIw_idler_tid _ _ _ G).
      destruct (Nat.eqb_spec (length progs) j); [lia|]. rewrite <- (GIw_idler_tid _ _ _ G). apply (gw_idler _ _ _ G).
    - apply (gw_t _ _ _ G).
    - rewrite Gt, F1. destruct (Nat.eqb_spec t j) as [->|]; [rewrite interrupted_issued|]; apply (gw_issued _ _ _ G).
    - rewrite Gt. destruct (Nat.eqb_spec t j) as [<-|]; [|apply (gw_awake _ _ _ G)].
      destruct Hc as [(Hs & _)|(Hs & ->)]; [exfalso; apply (gw_awake _ _ _ G); auto|auto].
    - destruct (gw_cur _ _ _ G) as (rest & Hr). rewrite R, Hr.
      destruct (tstate_eqb (th_state (getth st j)) SLEEPING); simpl; eauto.
  Qed.

  (* the current thread's own record after it interrupted somebody (possibly itself) *)
  Lemma interrupt_self_fields (st : cstate) t j e :
    th_state (getth st t) <> SLEEPING ->
    let th' := getth (thread_interrupt st j e) t in
    th_pc th' = th_pc (getth st t) /\ th_k th' = th_k (getth st t) /\ th_issued th' = th_issued (getth st t) /\
    th_shut_issue th' = th_shut_issue (getth st t).
  Proof.
    intros Hs. cbv zeta. rewrite getth_thread_interrupt. destruct (Nat.eqb_spec t j) as [<-|]; [|auto].
    unfold interrupted. destruct (th_state (getth st t)); auto. destruct (th_err (getth st t) =? 0); auto.
  Qed.

  Definition plain_op (c : core_op) : Prop :=
    match c with OUsleep _ | OYield | OYieldTo _ => False | _ => True end.

  Lemma EvOK_plain tr ev c : ev_op progs ev = Some (OCore c) -> plain_op c -> 0 <= ev_issued ev <= ev_time ev -> EvOK tr ev.
  Proof.
    intros Hop Hp Hi. split; [exact Hi|]. split.
    - intros d Hd. rewrite Hop in Hd. injection Hd as ->. destruct Hp.
    - intros [H|(j & H & _)]; rewrite Hop in H; injection H as ->; destruct Hp.
  Qed.

  Lemma not_clearing_op ev c : ev_op progs ev = Some (OCore c) -> (forall d, c <> OUsleep d) -> ~ clearing progs ev.
  Proof. intros H Hc ((d & Hd) & _). rewrite H in Hd. injection Hd as ->. apply (Hc d). reflexivity. Qed.
  Lemma not_reports_op ev c : ev_op progs ev = Some (OCore c) -> plain_op c -> ~ reports progs ev.
  Proof.
    intros H Hp [((d & Hd) & _)|[(Hd & _)|((j & Hd) & _)]]; rewrite H in Hd; injection Hd as ->; destruct Hp.
  Qed.
  Lemma plain_not_usleep c : plain_op c -> forall d, c <> OUsleep d.
  Proof. intros Hp d ->. destruct Hp. Qed.
  Lemma fresh_interrupted t th e tr : fresh progs t th tr -> fresh progs t (interrupted th e (length tr)) tr.
  Proof.
    intros F. unfold interrupted. destruct (th_state th); try exact F.
    - destruct (th_err th =? 0); [|exact F]. eapply fresh_deliver; [exact F|reflexivity].
    - eapply fresh_deliver; [exact F|reflexivity].
  Qed.

  Lemma case_interrupt st t j e :
    GIw st t (s_trace st) -> TI st ->
    cur_op t (getth st t) = Some (OCore (OInterrupt j e)) -> (j < length progs)%nat ->
    (th_err (getth st t) <> 0 -> src_ok progs (s_trace st) t (th_err (getth st t)) (th_esrc (getth st t))) ->
    fresh progs t (getth st t) (s_trace st) ->
    GI (apply_action (thread_interrupt st j e) t (ARet 0 0) true) /\
    TI (apply_action (thread_interrupt st j e) t (ARet 0 0) true).
  Proof.
    intros G T Hop Hj Hsrc0 HF0.
    assert (He : e <> 0) by (eapply NZ; exact Hop).
    destruct (interrupt_self_fields st t j e (gw_awake _ _ _ G)) as (F1 & F2 & F3 & F4).
    destruct (thread_interrupt_frame unit st j e) as (R & N & N1 & N2 & N3 & _).
    set (st1 := thread_interrupt st j e) in *.
    set (th1 := getth st1 t) in *.
    set (ev := mkEv t (th_pc th1) 0 0 (s_now st1) (th_issued th1) (th_shut_issue th1) (th_k th1) (th_esrc th1)).
    assert (Hevop : ev_op progs ev = Some (OCore (OInterrupt j e))).
    { unfold ev_op, ev. simpl. rewrite F1. exact Hop. }
    assert (Hd : delivers progs ev j e) by (split; [reflexivity|left; exact Hevop]).
    assert (G1 : GIw st1 t (ev :: s_trace st1)).
    { rewrite N3. apply GIw_interrupt; auto. }
    apply aret_inv; auto.
    - apply (TI_same _ st); [exact T|exact N3].
    - eapply EvOK_plain; [exact Hevop|exact I|]. simpl. apply (gw_issued _ _ _ G1).
    - fold th1. rewrite N3. clearbody ev. unfold th1, st1. rewrite getth_thread_interrupt.
      destruct (Nat.eqb_spec t j) as [<-|Hne].
      + unfold interrupted. destruct (th_state (getth st t)) eqn:Es;
          try (intros X; apply src_ok_mono; auto; fail).
        * destruct (th_err (getth st t) =? 0) eqn:Ee.
          -- thsimpl. intros _. apply src_ok_new. split; [reflexivity|left; unfold ev_op; simpl; exact Hop].
          -- intros X. apply src_ok_mono; auto.
        * exfalso. apply (gw_awake _ _ _ G). exact Es.
      + intros X. apply src_ok_mono; auto.
    - fold th1. rewrite N3. apply fresh_mono; [|intros _; eapply not_clearing_op; [exact Hevop|intros d; discriminate]].
      unfold th1, st1. rewrite getth_thread_interrupt.
      destruct (Nat.eqb_spec t j) as [<-|]; [apply fresh_interrupted|]; exact HF0.
    - intros X. exfalso. eapply not_reports_op; [exact Hevop|exact I|exact X].
  Qed.

  (* rewriting scheduler-neutral fields of ANY thread j, given GoodT survives the rewrite *)
  Lemma GIw_modth_any st t tr j f :
    GIw st t tr -> sched_neutral f -> (forall th, th_issued (f th) = th_issued th) ->
    (forall u th now clock, GoodT u th now clock tr -> GoodT u (f th) now clock tr) ->
    GIw (modth st j f) t tr.
  Proof.
    intros G Hf Hi Hg.
    assert (Hst : forall u, th_state (getth (modth st j f) u) = th_state (getth st u)).
    { intros u. apply (getth_modth_proj unit th_state). intros; apply Hf. }
    assert (His : forall u, th_issued (getth (modth st j f) u) = th_issued (getth st u)).
    { intros u. apply (getth_modth_proj unit th_issued). exact Hi. }
    constructor.
    - apply WF_modth_neutral; [exact Hf|apply (gw_wf _ _ _ G)].
    - rewrite nthreads_modth. apply (gw_n _ _ _ G).
    - apply (gw_sync _ _ _ G).
    - apply (gw_max _ _ _ G).
    - apply (gw_pos _ _ _ G).
    - intros u. rewrite Hst. apply (gw_ring _ _ _ G).
    - intros u Hu Hne. rewrite getth_modth.
      destruct (Nat.eqb u j && Nat.ltb j (nthreads st)) eqn:E.
      + apply andb_true_iff in E. destruct E as (E & _). apply Nat.eqb_eq in E. subst j.
        apply Hg. apply (gw_good _ _ _ G); auto.
      + apply (gw_good _ _ _ G); auto.
    - change (idler_tid (modth st j f)) with (idler_tid (setth st j (f (getth st j)))).
      rewrite (idler_tid_nthreads _ _ _ (nthreads_setth _ _ _ _)). rewrite Hst. apply (gw_idler _ _ _ G).
    - apply (gw_t _ _ _ G).
    - rewrite His. apply (gw_issued _ _ _ G).
    - rewrite Hst. apply (gw_awake _ _ _ G).
    - apply (gw_cur _ _ _ G).
  Qed.

  Lemma case_shutdown st t j flag :
    GIw st t (s_trace st) -> TI st ->
    cur_op t (getth st t) = Some (OCore (OShutdown j flag)) -> (j < length progs)%nat ->
    (th_err (getth st t) <> 0 -> src_ok progs (s_trace st) t (th_err (getth st t)) (th_esrc (getth st t))) ->
    fresh progs t (getth st t) (s_trace st) ->
    GI (apply_action (thread_shutdown st j flag) t (ARet 0 0) true) /\
    TI (apply_action (thread_shutdown st j flag) t (ARet 0 0) true).
  Proof.
    intros G T Hop Hj Hsrc0 HF00. unfold thread_shutdown.
    set (st0 := modth st j (fun th => set_tshutdown th flag)).
    assert (G0 : GIw st0 t (s_trace st0)).
    { apply GIw_modth_any; auto.
      - intros th; repeat split; reflexivity.
      - intros u th now clock X. apply GoodT_set_shutdown; auto. }
    assert (T0 : TI st0) by exact T.
    assert (P : forall (p : thread -> Z), (forall th, p (set_tshutdown th flag) = p th) -> p (getth st0 t) = p (getth st t)).
    { intros p Hp. apply (getth_modth_proj unit p). exact Hp. }
    assert (Hop0 : cur_op t (getth st0 t) = Some (OCore (OShutdown j flag))).
    { unfold cur_op. replace (th_pc (getth st0 t)) with (th_pc (getth st t)); [exact Hop|].
      symmetry. apply (getth_modth_proj unit th_pc). reflexivity. }
    assert (Hsrc1 : th_err (getth st0 t) <> 0 -> src_ok progs (s_trace st0) t (th_err (getth st0 t)) (th_esrc (getth st0 t))).
    { rewrite (P th_err) by reflexivity.
      replace (th_esrc (getth st0 t)) with (th_esrc (getth st t)); [exact Hsrc0|].
      symmetry. apply (getth_modth_proj unit th_esrc). reflexivity. }
    assert (HF0 : fresh progs t (getth st0 t) (s_trace st0)).
    { eapply fresh_same; [exact HF00| |].
      - apply (getth_modth_proj unit th_err). reflexivity.
      - apply (getth_modth_proj unit th_esrc). reflexivity. }
    clearbody st0. clear G T Hop Hsrc0 P HF00 st. rename st0 into st, G0 into G, T0 into T, Hop0 into Hop, Hsrc1 into Hsrc0.
    destruct (tstate_eqb (th_state (getth st j)) SLEEPING) eqn:Esl.
    - (* the target sleeps: it is interrupted with EPERM *)
      destruct (interrupt_self_fields st t j EPERM (gw_awake _ _ _ G)) as (F1 & F2 & F3 & F4).
      destruct (thread_interrupt_frame unit st j EPERM) as (R & N & N1 & N2 & N3 & _).
      set (st1 := thread_interrupt st j EPERM) in *.
      set (th1 := getth st1 t) in *.
      set (ev := mkEv t (th_pc th1) 0 0 (s_now st1) (th_issued th1) (th_shut_issue th1) (th_k th1) (th_esrc th1)).
      assert (Hevop : ev_op progs ev = Some (OCore (OShutdown j flag))).
      { unfold ev_op, ev. simpl. rewrite F1. exact Hop. }
      assert (Hd : delivers progs ev j EPERM) by (split; [reflexivity|right; exists flag; split; [exact Hevop|reflexivity]]).
      assert (G1 : GIw st1 t (ev :: s_trace st1)).
      { rewrite N3. apply GIw_interrupt; auto. discriminate. }
      apply aret_inv; auto.
      + apply (TI_same _ st); [exact T|exact N3].
      + eapply EvOK_plain; [exact Hevop|exact I|]. simpl. apply (gw_issued _ _ _ G1).
      + fold th1. rewrite N3. clearbody ev. unfold th1, st1. rewrite getth_thread_interrupt.
        destruct (Nat.eqb_spec t j) as [<-|Hne].
        * exfalso. apply (gw_awake _ _ _ G). destruct (tstate_eqb_spec (th_state (getth st t)) SLEEPING); [auto|discriminate].
        * intros X. apply src_ok_mono; auto.
      + fold th1. rewrite N3. apply fresh_mono; [|intros _; eapply not_clearing_op; [exact Hevop|intros d; discriminate]].
        unfold th1, st1. rewrite getth_thread_interrupt.
        destruct (Nat.eqb_spec t j) as [<-|]; [apply fresh_interrupted|]; exact HF0.
      + intros X. exfalso. eapply not_reports_op; [exact Hevop|exact I|exact X].
    - set (th1 := getth st t).
      set (ev := mkEv t (th_pc th1) 0 0 (s_now st) (th_issued th1) (th_shut_issue th1) (th_k th1) (th_esrc th1)).
      assert (Hevop : ev_op progs ev = Some (OCore (OShutdown j flag))) by exact Hop.
      apply aret_inv; auto.
      + apply GIw_mono; [exact G|reflexivity].
      + eapply EvOK_plain; [exact Hop|exact I|]. simpl. apply (gw_issued _ _ _ G).
      + intros X. apply src_ok_mono; auto.
      + apply fresh_mono; [exact HF0|]. intros _. eapply not_clearing_op; [exact Hevop|intros d; discriminate].
      + intros X. exfalso. eapply not_reports_op; [exact Hevop|exact I|exact X].
  Qed.

  Lemma GIw_cur_exists st t tr : GIw st t tr -> th_state (getth st t) <> NOTCREATED.
  Proof.
    intros G. destruct (gw_cur _ _ _ G) as (rest & Hr).
    apply (wf_runq _ _ (gw_wf _ _ _ G)). rewrite Hr. left; auto.
  Qed.

  Lemma case_create st t k jn :
    GIw st t (s_trace st) -> TI st ->
    cur_op t (getth st t) = Some (OCore (OCreate k jn)) ->
    (k < length progs)%nat -> th_state (getth st k) = NOTCREATED ->
    (th_err (getth st t) <> 0 -> src_ok progs (s_trace st) t (th_err (getth st t)) (th_esrc (getth st t))) ->
    fresh progs t (getth st t) (s_trace st) ->
    GI (apply_action (do_create st k jn) t (ARet 0 0) true) /\
    TI (apply_action (do_create st k jn) t (ARet 0 0) true).
  Proof.
    intros G T Hop Hk Hs Hsrc0 HF0.
    assert (Hkr : (k < nthreads st)%nat) by (rewrite (gw_n _ _ _ G); lia).
    assert (Hkt : k <> t) by (intros ->; apply (GIw_cur_exists _ _ _ G); exact Hs).
    pose proof (fun u => getth_do_create unit st k jn u Hkr) as Gt.
    set (st1 := do_create st k jn) in *.
    assert (N : nthreads st1 = nthreads st).
    { unfold st1, do_create. change (nthreads (set_runq ?a ?b)) with (nthreads a). apply nthreads_setth. }
    assert (R : s_runq st1 = s_runq st ++ [k]) by reflexivity.
    assert (Ht1 : getth st1 t = getth st t).
    { rewrite Gt. destruct (Nat.eqb_spec t k); [congruence|reflexivity]. }
    set (th1 := getth st1 t).
    set (ev := mkEv t (th_pc th1) 0 0 (s_now st1) (th_issued th1) (th_shut_issue th1) (th_k th1) (th_esrc th1)).
    assert (Hevop : ev_op progs ev = Some (OCore (OCreate k jn))).
    { unfold ev_op, ev. simpl. unfold th1. rewrite Ht1. exact Hop. }
    assert (Hnc : forall u, ev_tid ev = u -> ~ clearing progs ev).
    { intros u _. eapply not_clearing_op; [exact Hevop|intros d; discriminate]. }
    assert (G1 : GIw st1 t (ev :: s_trace st1)).
    { constructor.
      - apply WF_do_create; auto. apply (gw_wf _ _ _ G).
      - rewrite N. apply (gw_n _ _ _ G).
      - apply (gw_sync _ _ _ G).
      - apply (gw_max _ _ _ G).
      - apply (gw_pos _ _ _ G).
      - intros u. rewrite Gt, R, in_app_iff. destruct (Nat.eqb_spec u k) as [->|]; [right; left; auto|].
        intros Hu. left. apply (gw_ring _ _ _ G); auto.
      - intros u Hu Hne. rewrite Gt. destruct (Nat.eqb_spec u k) as [->|].
        + apply (GoodT_fresh progs k (getth st k)); [apply (gw_pos _ _ _ G)|].
          apply fresh_mono; [apply (g_fresh _ _ _ _ _ _ (gw_good _ _ _ G k Hu Hne))|apply Hnc].
        + apply GoodT_mono; [apply (gw_good _ _ _ G); auto|apply Hnc].
      - rewrite (idler_tid_nthreads _ _ _ N), Gt. rewrite (GIw_idler_tid _ _ _ G).
        destruct (Nat.eqb_spec (length progs) k); [lia|]. rewrite <- (GIw_idler_tid _ _ _ G). apply (gw_idler _ _ _ G).
      - apply (gw_t _ _ _ G).
      - rewrite Ht1. apply (gw_issued _ _ _ G).
      - rewrite Ht1. apply (gw_awake _ _ _ G).
      - destruct (gw_cur _ _ _ G) as (rest & Hr). rewrite R, Hr. simpl. eauto. }
    apply aret_inv; auto.
    - apply (EvOK_plain _ _ (OCreate k jn)); [|exact I|].
      + unfold ev_op, ev. simpl. unfold th1. rewrite Ht1. exact Hop.
      + simpl. apply (gw_issued _ _ _ G1).
    - fold th1. unfold th1. rewrite Ht1. intros X. apply src_ok_mono. auto.
    - assert (HFt : fresh progs t th1 (s_trace st1)) by (unfold th1; rewrite Ht1; exact HF0).
      exact (fresh_mono progs t th1 (s_trace st1) ev HFt (Hnc t)).
    - intros X. exfalso. exact (not_reports_op ev _ Hevop I X).
  Qed.

  (* ---- the current thread goes to sleep ----------------------------------------------------------- *)
  Lemma case_sleep st t to rest exp wq k' b :
    GIw st t (s_trace st) -> TI st -> s_runq st = t :: to :: rest -> t <> idler_tid st ->
    GoodT t (set_tts (match wq with
                      | Some q => set_twaitq (set_tstate (set_tk (getth st t) k') SLEEPING) (Some q)
                      | None => set_tstate (set_tk (getth st t) k') SLEEPING end) exp)
          (s_now st) (s_clock st) (s_trace st) ->
    GI (apply_action st t (ASleep exp wq None k') b) /\ TI (apply_action st t (ASleep exp wq None k') b).
  Proof.
    intros G T Hr Hid HG. unfold apply_action.
    pose proof (GIw_t_range _ _ _ G) as Htr.
    set (st0 := modth st t (fun x => set_tk x k')).
    assert (G0 : GIw st0 t (s_trace st)).
    { apply GIw_modth; auto. intros th; repeat split; reflexivity. }
    assert (E0 : getth st0 t = set_tk (getth st t) k') by (apply getth_modth_same; exact Htr).
    assert (O0 : forall u, u <> t -> getth st0 u = getth st u) by (intros; apply getth_modth_other; auto).
    assert (Hr0 : s_runq st0 = t :: to :: rest) by exact Hr.
    assert (I0 : idler_tid st0 = idler_tid st) by (apply idler_tid_nthreads; apply nthreads_modth).
    pose proof (gw_wf _ _ _ G0) as W0.
    pose proof (fun u => getth_do_sleep unit st0 t to rest exp wq u W0 Hr0) as Gt.
    destruct (do_sleep_spec unit st0 t to rest exp wq W0 Hr0) as (_&_&_&_&_&R&_&_&N&C&L&Tr&_).
    assert (Wf : WF (do_sleep st0 exp wq)).
    { eapply WF_do_sleep; eauto; [congruence|].
      apply awake_no_waitq; [exact W0|apply (gw_awake _ _ _ G0)]. }
    set (st' := do_sleep st0 exp wq) in *.
    pose proof (wf_nodup _ _ W0) as Hnd. rewrite Hr0 in Hnd.
    assert (Hne : t <> to) by (inversion Hnd as [|? ? Hx _]; subst; intros ->; apply Hx; left; auto).
    assert (Htos : th_state (getth st to) <> SLEEPING).
    { apply (wf_runq _ _ (gw_wf _ _ _ G)). rewrite Hr. right; left; auto. }
    change (s_clock st0) with (s_clock st) in *. change (s_trace st0) with (s_trace st) in *.
    pose proof (gw_sync _ _ _ G) as Hsy.
    assert (Hneb : Nat.eqb to t = false) by (apply Nat.eqb_neq; auto).
    assert (GG : forall u, (u < length progs)%nat -> u <> t -> GoodT u (getth st u) (s_now st) (s_now st) (s_trace st)).
    { intros u Hu Hne'. pose proof (gw_good _ _ _ G u Hu Hne') as X. rewrite <- Hsy in X. exact X. }
    rewrite <- Hsy in HG.
    split.
    - constructor.
      + exact Wf.
      + rewrite L. unfold st0. rewrite nthreads_modth. apply (gw_n _ _ _ G).
      + left. congruence.
      + rewrite C. apply (gw_max _ _ _ G).
      + rewrite N, <- Hsy. apply (gw_pos _ _ _ G).
      + intros u. rewrite Gt, R. destruct (Nat.eqb_spec u t) as [->|Hut].
        * thsimpl. destruct wq; thsimpl; intros [X|X]; discriminate.
        * destruct (Nat.eqb_spec u to) as [->|]; [intros _; left; auto|].
          rewrite O0 by auto. intros Hu. pose proof (gw_ring _ _ _ G u Hu) as Hin. rewrite Hr in Hin.
          destruct Hin as [?|Hin]; [congruence|exact Hin].
      + intros u Hu. rewrite Gt, N, C, Tr, <- Hsy. destruct (Nat.eqb_spec u t) as [->|Hut].
        * rewrite E0. exact HG.
        * destruct (Nat.eqb_spec u to) as [->|].
          -- rewrite O0 by auto. apply GoodT_restate; [apply GG; auto|exact Htos|discriminate|intros _; right; reflexivity].
          -- rewrite O0 by auto. apply GG; auto.
      + rewrite (idler_tid_nthreads _ _ _ L), I0, Gt.
        destruct (Nat.eqb_spec (idler_tid st) t); [congruence|].
        destruct (Nat.eqb_spec (idler_tid st) to); [thsimpl; discriminate|].
        rewrite O0 by auto. apply (gw_idler _ _ _ G).
    - apply (TI_same _ st); [exact T|exact Tr].
  Qed.

  (* ---- the current thread yields ------------------------------------------------------------------ *)
  Lemma case_yield st t to rest k' :
    GIw st t (s_trace st) -> TI st -> s_runq st = t :: to :: rest -> t <> idler_tid st ->
    GoodT t (set_tstate (set_terr (set_tk (getth st t) k') 0) READY) (s_now st) (s_clock st) (s_trace st) ->
    GI (apply_action st t (AYield k') true) /\ TI (apply_action st t (AYield k') true).
  Proof.
    intros G T Hr Hid HG. unfold apply_action.
    pose proof (GIw_t_range _ _ _ G) as Htr.
    set (st0 := modth st t (fun x => set_tk x k')).
    assert (G0 : GIw st0 t (s_trace st)).
    { apply GIw_modth; auto. intros th; repeat split; reflexivity. }
    assert (E0 : getth st0 t = set_tk (getth st t) k') by (apply getth_modth_same; exact Htr).
    assert (O0 : forall u, u <> t -> getth st0 u = getth st u) by (intros; apply getth_modth_other; auto).
    assert (Hr0 : s_runq st0 = t :: to :: rest) by exact Hr.
    assert (N0 : nthreads st0 = nthreads st) by apply nthreads_modth.
    assert (I0 : idler_tid st0 = idler_tid st) by (apply idler_tid_nthreads; exact N0).
    pose proof (gw_wf _ _ _ G0) as W0.
    pose proof (wf_nodup _ _ W0) as Hnd. rewrite Hr0 in Hnd.
    assert (Hne : t <> to) by (inversion Hnd as [|? ? Hx _]; subst; intros ->; apply Hx; left; auto).
    assert (Hto : (to < nthreads st0)%nat) by (apply (ring_in_range unit); auto; rewrite Hr0; right; left; auto).
    pose proof (fun u => getth_do_yield unit st0 t to rest u Hr0 Hne ltac:(rewrite N0; exact Htr) Hto) as Gt.
    assert (Wf : WF (do_yield st0)) by (eapply WF_do_yield; eauto).
    assert (R : s_runq (do_yield st0) = to :: rest ++ [t]) by (unfold do_yield; rewrite Hr0; reflexivity).
    assert (N : s_now (do_yield st0) = s_clock st) by (unfold do_yield; rewrite Hr0; reflexivity).
    assert (C : s_clock (do_yield st0) = s_clock st) by (unfold do_yield; rewrite Hr0; reflexivity).
    assert (Tr : s_trace (do_yield st0) = s_trace st) by (unfold do_yield; rewrite Hr0; reflexivity).
    assert (L : nthreads (do_yield st0) = nthreads st).
    { unfold do_yield; rewrite Hr0. change (nthreads (set_runq ?a ?b)) with (nthreads a). rewrite !nthreads_modth. exact N0. }
    set (st' := do_yield st0) in *.
    assert (Htos : th_state (getth st to) <> SLEEPING).
    { apply (wf_runq _ _ (gw_wf _ _ _ G)). rewrite Hr. right; left; auto. }
    pose proof (gw_sync _ _ _ G) as Hsy.
    assert (GG : forall u, (u < length progs)%nat -> u <> t -> GoodT u (getth st u) (s_now st) (s_now st) (s_trace st)).
    { intros u Hu Hne'. pose proof (gw_good _ _ _ G u Hu Hne') as X. rewrite <- Hsy in X. exact X. }
    rewrite <- Hsy in HG.
    split.
    - constructor.
      + exact Wf.
      + rewrite L. apply (gw_n _ _ _ G).
      + left. congruence.
      + rewrite C. apply (gw_max _ _ _ G).
      + rewrite N, <- Hsy. apply (gw_pos _ _ _ G).
      + intros u. rewrite Gt, R. destruct (Nat.eqb_spec u to) as [->|Hut]; [intros _; left; auto|].
        destruct (Nat.eqb_spec u t) as [->|]; [intros _; right; rewrite in_app_iff; right; left; auto|].
        rewrite O0 by auto. intros Hu. pose proof (gw_ring _ _ _ G u Hu) as Hin. rewrite Hr in Hin.
        destruct Hin as [?|[?|Hin]]; try congruence. right. rewrite in_app_iff. left; exact Hin.
      + intros u Hu. rewrite Gt, N, C, Tr, <- Hsy. destruct (Nat.eqb_spec u to) as [->|Hut].
        * rewrite O0 by auto. apply GoodT_restate; [apply GG; auto|exact Htos|discriminate|intros _; right; reflexivity].
        * destruct (Nat.eqb_spec u t) as [->|]; [rewrite E0; exact HG|].
          rewrite O0 by auto. apply GG; auto.
      + rewrite (idler_tid_nthreads _ _ _ L), Gt.
        destruct (Nat.eqb_spec (idler_tid st) to); [thsimpl; discriminate|].
        destruct (Nat.eqb_spec (idler_tid st) t); [congruence|].
        rewrite O0 by auto. apply (gw_idler _ _ _ G).
    - apply (TI_same _ st); [exact T|exact Tr].
  Qed.

  Lemma case_yield_to st t rest j k' :
    GIw st t (s_trace st) -> TI st -> s_runq st = t :: rest -> t <> idler_tid st ->
    j <> t -> th_state (getth st j) = READY ->
    GoodT t (set_tstate (set_terr (set_tk (getth st t) k') 0) READY) (s_now st) (s_clock st) (s_trace st) ->
    GI (apply_action st t (AYieldTo j k') true) /\ TI (apply_action st t (AYieldTo j k') true).
  Proof.
    intros G T Hr Hid Hjt Hjs HG. unfold apply_action.
    pose proof (GIw_t_range _ _ _ G) as Htr.
    set (st0 := modth st t (fun x => set_tk x k')).
    assert (G0 : GIw st0 t (s_trace st)).
    { apply GIw_modth; auto. intros th; repeat split; reflexivity. }
    assert (E0 : getth st0 t = set_tk (getth st t) k') by (apply getth_modth_same; exact Htr).
    assert (O0 : forall u, u <> t -> getth st0 u = getth st u) by (intros; apply getth_modth_other; auto).
    assert (Hr0 : s_runq st0 = t :: rest) by exact Hr.
    assert (N0 : nthreads st0 = nthreads st) by apply nthreads_modth.
    pose proof (gw_wf _ _ _ G0) as W0.
    assert (Hjs0 : th_state (getth st0 j) = READY) by (rewrite O0; auto).
    assert (Hjr : (j < nthreads st0)%nat).
    { destruct (Nat.ltb_spec j (nthreads st0)); auto. rewrite getth_out in Hjs0 by auto. discriminate. }
    pose proof (fun u => getth_do_yield_to unit st0 t rest j u Hr0 (not_eq_sym Hjt) ltac:(rewrite N0; exact Htr) Hjr) as Gt.
    assert (Wf : WF (do_yield_to st0 j)) by (eapply WF_do_yield_to; eauto).
    assert (R : s_runq (do_yield_to st0 j) = j :: t :: remove_tid j rest) by (unfold do_yield_to; rewrite Hr0; reflexivity).
    assert (N : s_now (do_yield_to st0 j) = s_clock st) by (unfold do_yield_to; rewrite Hr0; reflexivity).
    assert (C : s_clock (do_yield_to st0 j) = s_clock st) by (unfold do_yield_to; rewrite Hr0; reflexivity).
    assert (Tr : s_trace (do_yield_to st0 j) = s_trace st) by (unfold do_yield_to; rewrite Hr0; reflexivity).
    assert (L : nthreads (do_yield_to st0 j) = nthreads st).
    { unfold do_yield_to; rewrite Hr0. change (nthreads (set_runq ?a ?b)) with (nthreads a). rewrite !nthreads_modth. exact N0. }
    set (st' := do_yield_to st0 j) in *.
    pose proof (gw_sync _ _ _ G) as Hsy.
    pose proof (wf_nodup _ _ (gw_wf _ _ _ G)) as Hnd. rewrite Hr in Hnd. inversion Hnd as [|? ? Hx Hy]; subst.
    assert (GG : forall u, (u < length progs)%nat -> u <> t -> GoodT u (getth st u) (s_now st) (s_now st) (s_trace st)).
    { intros u Hu Hne'. pose proof (gw_good _ _ _ G u Hu Hne') as X. rewrite <- Hsy in X. exact X. }
    rewrite <- Hsy in HG.
    split.
    - constructor.
      + exact Wf.
      + rewrite L. apply (gw_n _ _ _ G).
      + left. congruence.
      + rewrite C. apply (gw_max _ _ _ G).
      + rewrite N, <- Hsy. apply (gw_pos _ _ _ G).
      + intros u. rewrite Gt, R. destruct (Nat.eqb_spec u j) as [->|Huj]; [intros _; left; auto|].
        destruct (Nat.eqb_spec u t) as [->|]; [intros _; right; left; auto|].
        rewrite O0 by auto. intros Hu. pose proof (gw_ring _ _ _ G u Hu) as Hin. rewrite Hr in Hin.
        destruct Hin as [?|Hin]; [congruence|]. right; right. apply In_remove_tid; auto.
      + intros u Hu. rewrite Gt, N, C, Tr, <- Hsy. destruct (Nat.eqb_spec u j) as [->|Huj].
        * rewrite O0 by auto. apply GoodT_restate; [apply GG; auto| |discriminate|intros _; right; reflexivity].
          rewrite Hjs. discriminate.
        * destruct (Nat.eqb_spec u t) as [->|]; [rewrite E0; exact HG|].
          rewrite O0 by auto. apply GG; auto.
      + rewrite (idler_tid_nthreads _ _ _ L), Gt.
        destruct (Nat.eqb_spec (idler_tid st) j); [thsimpl; discriminate|].
        destruct (Nat.eqb_spec (idler_tid st) t); [congruence|].
        rewrite O0 by auto. apply (gw_idler _ _ _ G).
    - apply (TI_same _ st); [exact T|exact Tr].
  Qed.

  (* ---- the entry function of the current thread returns: thread::die ----------------------------- *)
  Lemma GoodT_join_notify x th now clock tr j :
    GoodT x th now clock tr -> th_state th = SLEEPING -> th_waitq th = Some (QJoin j) ->
    GoodT x (set_tstate (set_twaitq (set_tesrc (set_terr th (-1)) (length tr)) None) READY) now clock tr.
  Proof.
    intros [A B C D E F G H] Hs Hw.
    destruct (E _ Hw) as (j' & Hj & Hop & Hk).
    constructor; thsimpl; [exact A| | | | | |exact G|eapply fresh_deliver; [exact H|reflexivity]].
    - discriminate.
    - intros d Hd. unfold cur_op in *. thsimpl. rewrite Hop in Hd. discriminate.
    - intros _. right. split; [reflexivity|]. split; [exists j'; exact Hop|exact Hk].
    - discriminate.
    - intros _. left; reflexivity.
  Qed.

  Lemma case_die st t to rest :
    GIw st t (s_trace st) -> TI st -> s_runq st = t :: to :: rest -> t <> idler_tid st ->
    GoodT t (getth st t) (s_now st) (s_clock st) (s_trace st) -> th_k (getth st t) = [] ->
    GI (do_die st t (retval_of t)) /\ TI (do_die st t (retval_of t)).
  Proof.
    intros G T Hr Hid HG Hk.
    pose proof (gw_wf _ _ _ G) as W.
    destruct (do_die_spec unit st t (retval_of t) to rest W Hr Hid) as (Gt & R & N & F1 & F2 & F3 & _ & _ & _ & Hx).
    set (st' := do_die st t (retval_of t)) in *.
    assert (Wf : WF st') by (eapply WF_do_die; eauto).
    pose proof (wf_nodup _ _ W) as Hnd. rewrite Hr in Hnd.
    assert (Hne : t <> to) by (inversion Hnd as [|? ? Hx' _]; subst; intros ->; apply Hx'; left; auto).
    assert (Htos : th_state (getth st to) <> SLEEPING).
    { apply (wf_runq _ _ W). rewrite Hr. right; left; auto. }
    pose proof (gw_sync _ _ _ G) as Hsy.
    set (h := match wq_get st (QJoin t) with [] => None | x :: _ => Some x end) in *.
    split.
    - constructor.
      + exact Wf.
      + rewrite N. apply (gw_n _ _ _ G).
      + left. congruence.
      + rewrite F2. apply (gw_max _ _ _ G).
      + rewrite F1. apply (gw_pos _ _ _ G).
      + intros u. rewrite Gt, R. destruct (Nat.eqb_spec u t) as [->|Hut].
        * thsimpl. intros [X|X]; discriminate.
        * cbv zeta. destruct (Nat.eqb_spec u to) as [->|Huto]; [intros _; left; auto|].
          destruct h as [x|] eqn:Eh.
          -- destruct (Nat.eqb_spec u x) as [->|Hux]; [intros _; rewrite in_app_iff; right; left; auto|].
             intros Hu. pose proof (gw_ring _ _ _ G u Hu) as Hin. rewrite Hr in Hin.
             destruct Hin as [?|[?|Hin]]; try congruence. rewrite in_app_iff. left. right. exact Hin.
          -- intros Hu. pose proof (gw_ring _ _ _ G u Hu) as Hin. rewrite Hr in Hin.
             destruct Hin as [?|[?|Hin]]; try congruence. rewrite app_nil_r. right. exact Hin.
      + intros u Hu. rewrite Gt, F1, F2, F3. destruct (Nat.eqb_spec u t) as [->|Hut].
        * apply GoodT_set_retval. apply GoodT_restate; auto; try discriminate.
          -- apply (gw_awake _ _ _ G).
          -- intros X. congruence.
        * cbv zeta.
          assert (GX : GoodT u (match h with
                        | Some x => if Nat.eqb u x then set_tstate (set_twaitq (set_tesrc (set_terr (getth st x) (-1)) (length (s_trace st))) None) READY
                                    else getth st u
                        | None => getth st u end) (s_now st) (s_clock st) (s_trace st)).
          { destruct h as [x|] eqn:Eh; [|apply (gw_good _ _ _ G); auto].
            destruct (Nat.eqb_spec u x) as [->|]; [|apply (gw_good _ _ _ G); auto].
            destruct (Hx x eq_refl) as (X1 & X2 & X3 & X4).
            eapply GoodT_join_notify; eauto. apply (gw_good _ _ _ G); auto. }
          destruct (Nat.eqb_spec u to) as [->|]; [|exact GX].
          apply GoodT_restate; [exact GX| |discriminate|intros _; right; reflexivity].
          destruct h as [x|] eqn:Eh; [|exact Htos].
          destruct (Hx x eq_refl) as (X1 & X2 & X3 & X4).
          destruct (Nat.eqb_spec to x); [congruence|exact Htos].
      + rewrite (idler_tid_nthreads _ _ _ N), Gt.
        destruct (Nat.eqb_spec (idler_tid st) t); [congruence|]. cbv zeta.
        assert (Hidle : th_state (match h with
                        | Some x => if Nat.eqb (idler_tid st) x then set_tstate (set_twaitq (set_tesrc (set_terr (getth st x) (-1)) (length (s_trace st))) None) READY
                                    else getth st (idler_tid st)
                        | None => getth st (idler_tid st) end) <> SLEEPING).
        { destruct h as [x|]; [|apply (gw_idler _ _ _ G)].
          destruct (Nat.eqb_spec (idler_tid st) x); [thsimpl; discriminate|apply (gw_idler _ _ _ G)]. }
        destruct (Nat.eqb_spec (idler_tid st) to); [thsimpl; discriminate|exact Hidle].
    - apply (TI_same _ st); [exact T|exact F3].
  Qed.

  (* ---- the idler's round -------------------------------------------------------------------------- *)
  Lemma idler_inv st rest :
    GI st -> TI st -> s_runq st = idler_tid st :: rest -> GI (idler_round st) /\ TI (idler_round st).
  Proof.
    intros G T Hr. pose proof (gi_wf _ _ G) as W.
    unfold idler_round.
    destruct (resume_threads_spec unit st W) as (wk & Hcount & W1 & Hnd & R1 & N1 & C1 & Tr1 & L1 & _ & E1 & K1 & Hw & Ho & Hd).
    destruct (resume_threads st) as (st1, count). cbn [fst snd] in *.
    set (now1 := if hempty (s_sleepq st) then s_now st else s_clock st) in *.
    pose proof (wf_clock _ _ W) as Hclk.
    pose proof (gi_idler_tid _ _ G) as Hidl.
    assert (I1 : idler_tid st1 = idler_tid st) by (apply idler_tid_nthreads; exact L1).
    assert (Hsync1 : now1 = s_clock st).
    { unfold now1. destruct (hempty (s_sleepq st)) eqn:He; auto.
      destruct (gi_sync _ _ G) as [?|(_ & X)]; auto. unfold hempty in He. destruct (hq (s_sleepq st)); [congruence|discriminate]. }
    assert (Hwk_ne : wk <> [] -> hempty (s_sleepq st) = false).
    { intros X. destruct wk as [|x wk']; [congruence|]. destruct (Hw x (or_introl eq_refl)) as (Y & _).
      apply (wf_sleep _ _ W) in Y. unfold hempty. destruct (hq (s_sleepq st)); [destruct Y|reflexivity]. }
    assert (A1 : forall u, (u < length progs)%nat -> GoodT u (getth st1 u) (s_clock st) (s_clock st) (s_trace st)).
    { intros u Hu. destruct (in_dec Nat.eq_dec u wk) as [Hin|Hnin].
      - destruct (Hw u Hin) as (X1 & X2 & X3). rewrite X3.
        apply (GoodT_timer_wake progs _ _ (s_now st)); [apply (gi_good _ _ G); auto|exact X1| |exact Hclk].
        rewrite Hsync1 in X2. exact X2.
      - rewrite (Ho u Hnin). eapply GoodT_now_ge; [apply (gi_good _ _ G); auto|exact Hclk]. }
    assert (A2 : forall u, th_state (getth st1 u) = READY \/ th_state (getth st1 u) = RUNNING -> In u (s_runq st1)).
    { intros u Hu. rewrite R1, in_app_iff. destruct (in_dec Nat.eq_dec u wk) as [Hin|Hnin]; [right; auto|].
      left. rewrite (Ho u Hnin) in Hu. apply (gi_ring _ _ G); auto. }
    assert (A3 : th_state (getth st1 (idler_tid st)) <> SLEEPING).
    { destruct (in_dec Nat.eq_dec (idler_tid st) wk) as [Hin|Hnin].
      - destruct (Hw _ Hin) as (X1 & _). exfalso. apply (gi_idler_k _ _ G). exact X1.
      - rewrite (Ho _ Hnin). apply (gi_idler_k _ _ G). }
    rewrite Hsync1 in N1.
    destruct (negb (Nat.eqb count 0) || negb (match s_runq st1 with [_] => true | _ => false end)) eqn:E.
    - (* the idler yields *)
      destruct (s_runq st1) as [|a [|to r]] eqn:Er.
      + exfalso. pose proof (wf_idler _ _ W1) as X. rewrite Er in X. destruct X.
      + exfalso. rewrite orb_false_r in E. apply negb_true_iff, Nat.eqb_neq in E.
        rewrite Hr in R1. destruct wk as [|y wk']; [simpl in Hcount; congruence|].
        destruct rest; simpl in R1; discriminate.
      + assert (Ha : a = idler_tid st) by (rewrite Hr in R1; simpl in R1; congruence). subst a.
        pose proof (wf_nodup _ _ W1) as Hnd1. rewrite Er in Hnd1.
        assert (Hne : idler_tid st <> to) by (inversion Hnd1 as [|? ? Hx _]; subst; intros X; apply Hx; rewrite <- X; left; auto).
        assert (Hf : (idler_tid st < nthreads st1)%nat) by (apply (ring_in_range unit); auto; rewrite Er; left; auto).
        assert (Hto : (to < nthreads st1)%nat) by (apply (ring_in_range unit); auto; rewrite Er; right; left; auto).
        pose proof (fun u => getth_do_yield unit st1 (idler_tid st) to r u Er Hne Hf Hto) as Gt.
        assert (Wf : WF (do_yield st1)) by (eapply WF_do_yield; eauto).
        assert (R : s_runq (do_yield st1) = to :: r ++ [idler_tid st]) by (unfold do_yield; rewrite Er; reflexivity).
        assert (N : s_now (do_yield st1) = s_clock st) by (unfold do_yield; rewrite Er; simpl; congruence).
        assert (C : s_clock (do_yield st1) = s_clock st) by (unfold do_yield; rewrite Er; simpl; congruence).
        assert (Tr : s_trace (do_yield st1) = s_trace st) by (unfold do_yield; rewrite Er; simpl; congruence).
        assert (L : nthreads (do_yield st1) = nthreads st).
        { unfold do_yield; rewrite Er. change (nthreads (set_runq ?x ?y)) with (nthreads x). rewrite !nthreads_modth. exact L1. }
        set (st' := do_yield st1) in *.
        assert (Htos : th_state (getth st1 to) <> SLEEPING).
        { apply (wf_runq _ _ W1). rewrite Er. right; left; auto. }
        split.
        * constructor.
          -- exact Wf.
          -- rewrite L. apply (gi_n _ _ G).
          -- left. congruence.
          -- rewrite C. apply (gi_max _ _ G).
          -- rewrite N. pose proof (gi_pos _ _ G). lia.
          -- intros u. rewrite Gt, R. destruct (Nat.eqb_spec u to) as [->|Hut]; [intros _; left; auto|].
             destruct (Nat.eqb_spec u (idler_tid st)) as [->|]; [intros _; right; rewrite in_app_iff; right; left; auto|].
             intros Hu. pose proof (A2 u Hu) as Hin.
             destruct Hin as [?|[?|Hin]]; try congruence. right. rewrite in_app_iff. left; exact Hin.
          -- intros u Hu. rewrite Gt, N, C, Tr. destruct (Nat.eqb_spec u to) as [->|Hut].
             ++ apply GoodT_restate; [apply A1; auto|exact Htos|discriminate|intros _; right; reflexivity].
             ++ destruct (Nat.eqb_spec u (idler_tid st)) as [->|]; [lia|]. apply A1; auto.
          -- rewrite (idler_tid_nthreads _ _ _ L), Gt.
             destruct (Nat.eqb_spec (idler_tid st) to); [congruence|]. rewrite Nat.eqb_refl. thsimpl. discriminate.
        * apply (TI_same _ st); [exact T|exact Tr].
    - (* nothing to run: idle *)
      apply orb_false_iff in E. destruct E as (E0 & Es). apply negb_false_iff in E0, Es. apply Nat.eqb_eq in E0.
      assert (Hwk : wk = []) by (destruct wk; [auto|simpl in Hcount; congruence]). subst wk. rewrite app_nil_r in R1.
      assert (Hsingle : s_runq st1 = [idler_tid st]).
      { rewrite R1, Hr in *. destruct rest; [reflexivity|discriminate]. }
      assert (Gend : forall st2, same_sched st1 st2 -> s_trace st2 = s_trace st1 -> (forall u, getth st2 u = getth st1 u) ->
                     GI st2 /\ TI st2).
      { intros st2 (S1&S2&S3&S4&S5&S6&S7&S8) Str Sg. split.
        - constructor.
          + apply (WF_same _ st1); auto. repeat split; auto; apply S8.
          + rewrite S7, L1. apply (gi_n _ _ G).
          + left. congruence.
          + rewrite S6, C1. apply (gi_max _ _ G).
          + rewrite S5, N1. pose proof (gi_pos _ _ G). lia.
          + intros u. rewrite Sg, S1. apply A2.
          + intros u Hu. rewrite Sg, S5, S6, N1, C1, Str, Tr1. apply A1; auto.
          + rewrite (idler_tid_nthreads _ _ _ S7), I1, Sg. exact A3.
        - apply (TI_same _ st); [exact T|congruence]. }
      destruct (front (s_sleepq st1)) as [f|] eqn:Hfr.
      + destruct (th_ts (getth st1 f) =? MAX64) eqn:Emax.
        * apply Gend; [apply same_sched_set_end|reflexivity|reflexivity].
        * (* the virtual clock advances to the next deadline (at most IDLE_CAP) *)
          apply Z.eqb_neq in Emax.
          assert (Hfin : In f (hq (s_sleepq st1))) by (unfold front in Hfr; destruct (hq (s_sleepq st1)); [discriminate|injection Hfr as ->; left; auto]).
          assert (Hfs : th_state (getth st1 f) = SLEEPING) by (apply (wf_sleep _ _ W1); auto).
          assert (Hflt : (f < length progs)%nat).
          { pose proof (sleeping_in_range _ _ _ Hfs) as X. rewrite L1, (gi_n _ _ G) in X.
            assert (f <> idler_tid st) by (intros ->; auto). rewrite Hidl in H. lia. }
          pose proof (Hd f Hfs) as Hdf. rewrite Hsync1 in Hdf.
          pose proof (g_sleep_clock _ _ _ _ _ _ (A1 f Hflt) Hfs) as Hfts.
          set (adv := Z.min IDLE_CAP (sat_sub (th_ts (getth st1 f)) (s_now st1))).
          assert (Hadv : 0 <= adv /\ s_clock st + adv <= th_ts (getth st1 f)).
          { unfold adv, sat_sub, IDLE_CAP. rewrite N1. destruct (_ <? _) eqn:X; [apply Z.ltb_lt in X; lia|]. lia. }
          set (st2 := set_clock st1 (s_clock st1 + adv)).
          assert (Hmin : forall u, th_state (getth st1 u) = SLEEPING -> th_ts (getth st1 f) <= th_ts (getth st1 u)).
          { intros u Hu. apply (wf_sleep _ _ W1) in Hu.
            exact (front_is_min _ _ _ (wf_heap _ _ W1) Hfr u Hu). }
          split.
          -- constructor.
             ++ apply WF_set_clock; auto. rewrite N1, C1. lia.
             ++ change (nthreads st2) with (nthreads st1). rewrite L1. apply (gi_n _ _ G).
             ++ right. split; [exact (eq_trans Hsingle (f_equal (fun x => [x]) (eq_sym I1)))|].
                change (s_sleepq st2) with (s_sleepq st1). intros X. rewrite X in Hfin. destruct Hfin.
             ++ change (s_clock st2) with (s_clock st1 + adv). rewrite C1. lia.
             ++ change (s_now st2) with (s_now st1). rewrite N1. pose proof (gi_pos _ _ G). lia.
             ++ intros u. change (getth st2 u) with (getth st1 u). change (s_runq st2) with (s_runq st1). apply A2.
             ++ intros u Hu. change (getth st2 u) with (getth st1 u). change (s_now st2) with (s_now st1).
                change (s_clock st2) with (s_clock st1 + adv). change (s_trace st2) with (s_trace st1).
                rewrite N1, C1, Tr1.
                destruct (tstate_eqb_spec (th_state (getth st1 u)) SLEEPING) as [Hs|Hns].
                ** eapply GoodT_idle_sleeping; [apply A1; auto|exact Hs|lia|]. specialize (Hmin u Hs). lia.
                ** eapply GoodT_idle_dead; [apply A1; auto|exact Hns| |].
                   --- intros X. pose proof (A2 u (or_introl X)) as Y. rewrite Hsingle in Y. destruct Y as [Y|[]]. lia.
                   --- intros X. pose proof (A2 u (or_intror X)) as Y. rewrite Hsingle in Y. destruct Y as [Y|[]]. lia.
             ++ change (idler_tid st2) with (idler_tid st1). rewrite I1. exact A3.
          -- apply (TI_same _ st); [exact T|exact Tr1].
      + apply Gend; [apply same_sched_set_end|reflexivity|reflexivity].
  Qed.

End STEP.
