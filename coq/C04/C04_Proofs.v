(* C04_Proofs.v — the contract theorems of C04 over ALL programs of the core op language and all
   run lengths of the cooperative scheduler model (Sched/Core.v, Sched/Prog.v), derived from the
   inductive invariant GI /\ TI (C04_Inv.v, C04_Step.v, C04_Step2.v); and the two refutations. *)
From Coq Require Import ZArith List Bool Arith Lia Permutation.
From PV Require Import Base.U64 C04.C04_Heap C04.C04_HeapProofs Sched.Core Sched.Prog Sched.Lemmas
                       Sched.Invariant Sched.Effects C04.C04_Inv C04.C04_Good C04.C04_Step C04.C04_Step2.
Import ListNotations.
Local Open Scope Z_scope.

(* ---- programs, runs ------------------------------------------------------------------------------ *)
(* thread_interrupt(th, 0) is thread_resume (thread.h 135-138): it ends a sleep early with result 0
   by design, so the contract is stated for programs whose interrupts carry a non-zero errno *)
Definition NZ_progs (ps : list (list core_op)) : Prop :=
  forall t pc k e, nth_error (nth t ps []) pc = Some (OInterrupt k e) -> e <> 0.

Definition run_state (fuel : nat) (ps : list (list core_op)) : cstate :=
  coop_run no_prim (core_progs ps) fuel (init_state (length (core_progs ps)) VCLOCK_START tt).

(* the trace, oldest event first (what harness/E2 prints) *)
Definition run_trace (fuel : nat) (ps : list (list core_op)) : list event := rev (s_trace (run_state fuel ps)).

Definition ev_cop (ps : list (list core_op)) (ev : event) : option core_op :=
  nth_error (nth (ev_tid ev) ps []) (ev_pc ev).

Lemma prog_of_core ps t : prog_of (core_progs ps) t = map OCore (nth t ps []).
Proof. unfold prog_of, core_progs. change (@nil (op no_op)) with (map (@OCore no_op) []). apply map_nth. Qed.

Lemma ev_op_core ps ev c : ev_cop ps ev = Some c -> ev_op (core_progs ps) ev = Some (OCore c).
Proof. unfold ev_cop, ev_op. rewrite prog_of_core. intros H. rewrite nth_error_map, H. reflexivity. Qed.

Lemma ev_op_core_inv ps ev c : ev_op (core_progs ps) ev = Some (OCore c) -> ev_cop ps ev = Some c.
Proof.
  unfold ev_cop, ev_op. rewrite prog_of_core, nth_error_map.
  destruct (nth_error (nth (ev_tid ev) ps []) (ev_pc ev)); simpl; congruence.
Qed.

Lemma NZ_core ps : NZ_progs ps ->
  forall t pc k e, nth_error (prog_of (core_progs ps) t) pc = Some (OCore (OInterrupt k e)) -> e <> 0.
Proof.
  intros H t pc k e. rewrite prog_of_core, nth_error_map.
  destruct (nth_error (nth t ps []) pc) eqn:E; simpl; [|discriminate]. intros [= ->]. eapply H; eauto.
Qed.

(* ---- the initial state satisfies the invariant ------------------------------------------------------ *)
Section INIT.
  Variable ps : list (list core_op).
  Hypothesis Hne : ps <> [].
  Let progs := core_progs ps.
  Let n := length progs.
  Let st0 : cstate := init_state n VCLOCK_START tt.
  Let mainT := mkThread RUNNING 0 None 0 false false 0 0 [] VCLOCK_START false 0 false false.
  Let idlT := mkThread READY 0 None 0 true false 0 0 [] VCLOCK_START false 0 false false.

  Lemma n_pos : (1 <= n)%nat.
  Proof. unfold n, progs, core_progs. rewrite map_length. destruct ps; [congruence|simpl; lia]. Qed.

  Lemma getth_init u :
    getth st0 u = if Nat.eqb u 0 then mainT else if Nat.eqb u n then idlT else thread0.
  Proof.
    pose proof n_pos as Hn. unfold st0, init_state, getth. cbn [s_threads].
    destruct u as [|u]; [reflexivity|]. change (Nat.eqb (S u) 0) with false. cbv iota. cbn [nth].
    destruct (Nat.eqb_spec (S u) n) as [E|E].
    - rewrite app_nth2 by (rewrite repeat_length; lia). rewrite repeat_length.
      replace (u - (n - 1))%nat with 0%nat by lia. reflexivity.
    - destruct (Nat.ltb_spec u (n - 1)).
      + rewrite app_nth1 by (rewrite repeat_length; lia). apply nth_repeat.
      + apply nth_overflow. rewrite app_length, repeat_length. simpl. lia.
  Qed.

  Lemma nthreads_init : nthreads st0 = S n.
  Proof. pose proof n_pos. unfold nthreads, st0, init_state. cbn [s_threads length]. rewrite app_length, repeat_length. simpl. lia. Qed.

  Lemma idler_init : idler_tid st0 = n.
  Proof. unfold idler_tid. fold (nthreads st0). rewrite nthreads_init. lia. Qed.

  Lemma state_init u : th_state (getth st0 u) <> SLEEPING /\ th_waitq (getth st0 u) = None /\ th_k (getth st0 u) = [] /\
                       th_err (getth st0 u) = 0 /\ 0 <= th_issued (getth st0 u) <= VCLOCK_START.
  Proof.
    rewrite getth_init. destruct (Nat.eqb u 0); [|destruct (Nat.eqb u n)]; simpl; repeat split; try discriminate; unfold VCLOCK_START; lia.
  Qed.

  Lemma init_WF : WF st0.
  Proof.
    pose proof n_pos as Hn.
    constructor.
    - unfold st0, init_state. cbn [s_runq]. constructor; [simpl; intros [X|[]]; lia|constructor; [intros []|constructor]].
    - intros u Hu. unfold st0, init_state in Hu. cbn [s_runq] in Hu. rewrite getth_init.
      destruct Hu as [<-|[<-|[]]].
      + simpl. split; discriminate.
      + destruct (Nat.eqb_spec n 0); [lia|]. rewrite Nat.eqb_refl. simpl. split; discriminate.
    - rewrite idler_init. unfold st0, init_state. cbn [s_runq]. right; left; reflexivity.
    - apply Inv_empty.
    - intros u. split; [intros []|]. intros X. exfalso. apply (proj1 (state_init u)). exact X.
    - reflexivity.
    - intros q u [].
    - intros u q X. rewrite (proj1 (proj2 (state_init u))) in X. discriminate.
    - intros q. constructor.
    - simpl. lia.
  Qed.

  Lemma init_GI : GI progs st0.
  Proof.
    pose proof n_pos as Hn.
    constructor.
    - exact init_WF.
    - exact nthreads_init.
    - left. reflexivity.
    - simpl. unfold VCLOCK_START, MAX64. lia.
    - simpl. unfold VCLOCK_START. lia.
    - intros u. rewrite getth_init. unfold st0, init_state. cbn [s_runq].
      destruct (Nat.eqb_spec u 0) as [->|]; [intros _; left; reflexivity|].
      destruct (Nat.eqb_spec u n) as [->|]; [intros _; right; left; reflexivity|].
      simpl. intros [X|X]; discriminate.
    - intros u Hu. destruct (state_init u) as (S1 & S2 & S3 & S4 & S5).
      constructor.
      + exact S5.
      + intros X. contradiction.
      + intros d _. rewrite S3. split; [left; reflexivity|]. split; [intros X; discriminate|split; intros X; discriminate].
      + intros X. contradiction.
      + intros q X. rewrite S2 in X. discriminate.
      + intros X. contradiction.
      + intros _ _. exact S3.
      + intros e1 [].
    - rewrite idler_init. apply (proj1 (state_init n)).
  Qed.

  Lemma init_TI : TI progs st0.
  Proof. split; [intros ev []|exact I]. Qed.
End INIT.

Lemma run_GI_TI fuel ps : ps <> [] -> NZ_progs ps ->
  GI (core_progs ps) (run_state fuel ps) /\ TI (core_progs ps) (run_state fuel ps).
Proof.
  intros Hne Hnz. unfold run_state. apply run_inv.
  - apply NZ_core; exact Hnz.
  - apply init_GI; exact Hne.
  - apply init_TI.
Qed.

(* ---- the contract theorems, about every event of every run of every program ------------------------- *)
Section CONTRACT.
  Variables (ps : list (list core_op)) (fuel : nat) (ev : event) (d : Z).
  Hypothesis Hne : ps <> [].
  Hypothesis Hnz : NZ_progs ps.
  Hypothesis Hin : In ev (s_trace (run_state fuel ps)).
  Hypothesis Hop : ev_cop ps ev = Some (OUsleep d).

  Let exp := timeout_of (ev_issued ev) d.

  Lemma usleep_event_facts :
    0 <= ev_issued ev <= ev_time ev /\
    (ev_k ev = [1] \/ ev_k ev = [2] \/ ev_k ev = [3]) /\
    (ev_k ev = [1] ->
       ev_shut ev = false /\ expired (ev_issued ev) exp = false /\
       ((ev_ret ev = 0 /\ ev_err ev = 0 /\ ev_time ev = exp) \/
        (ev_ret ev = -1 /\ ev_err ev <> 0 /\ ev_time ev <= exp /\
         src_ok (core_progs ps) (s_trace (run_state fuel ps)) (ev_tid ev) (ev_err ev) (ev_src ev)))) /\
    (ev_k ev = [2] ->
       expired (ev_issued ev) exp = true /\
       ((ev_ret ev = 0 /\ ev_err ev = 0) \/
        (ev_ret ev = -1 /\ ev_err ev <> 0 /\
         src_ok (core_progs ps) (s_trace (run_state fuel ps)) (ev_tid ev) (ev_err ev) (ev_src ev)))) /\
    (ev_k ev = [3] ->
       ev_shut ev = true /\ expired (ev_issued ev) exp = false /\ ev_ret ev = -1 /\
       ev_time ev <= ev_issued ev + SHUTDOWN_CAP /\
       (ev_err ev = EPERM \/
        (ev_err ev <> 0 /\ src_ok (core_progs ps) (s_trace (run_state fuel ps)) (ev_tid ev) (ev_err ev) (ev_src ev)))).
  Proof.
    destruct (run_GI_TI fuel ps Hne Hnz) as (_ & T). destruct (proj1 T ev Hin) as (A & B & _).
    split; [exact A|]. exact (B d (ev_op_core ps ev _ Hop)).
  Qed.

  (* thread_usleep returns only 0 or -1 *)
  Lemma usleep_ret_0_or_m1 : ev_ret ev = 0 \/ ev_ret ev = -1.
  Proof.
    destruct usleep_event_facts as (_ & K & C1 & C2 & C3).
    destruct K as [K|[K|K]].
    - destruct (C1 K) as (_ & _ & [(X & _)|(X & _)]); auto.
    - destruct (C2 K) as (_ & [(X & _)|(X & _)]); auto.
    - destruct (C3 K) as (_ & _ & X & _); auto.
  Qed.

  (* A usleep that returns 0 returned exactly AT its deadline (virtual time passes only while the
     vCPU is idle, and then exactly up to the next deadline) — or its timeout was already expired
     when it was called (zero timeout), in which case it only yielded. *)
  Lemma sleep_zero_means_elapsed_lemma :
    ev_ret ev = 0 ->
    (expired (ev_issued ev) exp = false /\ ev_time ev = exp) \/
    (expired (ev_issued ev) exp = true /\ ev_issued ev <= ev_time ev).
  Proof.
    intros Hr. destruct usleep_event_facts as (A & K & C1 & C2 & C3).
    destruct K as [K|[K|K]].
    - destruct (C1 K) as (_ & E & [(_ & _ & X)|(X & _)]); [left; auto|lia].
    - destruct (C2 K) as (E & _). right. split; [exact E|lia].
    - destruct (C3 K) as (_ & _ & X & _). lia.
  Qed.

  (* in terms of elapsed time: at least (in virtual time: exactly) the requested duration *)
  Lemma sleep_zero_elapsed_lemma :
    ev_ret ev = 0 -> 0 <= d -> ev_issued ev + d <= MAX64 -> ev_time ev - ev_issued ev >= d.
  Proof.
    intros Hr Hd Hsat. destruct usleep_event_facts as (A & _).
    assert (Hexp : exp = if d =? 0 then 0 else ev_issued ev + d).
    { unfold exp, timeout_of. destruct (d =? 0); auto. unfold sat_add.
      destruct (MAX64 <? ev_issued ev + d) eqn:E; [apply Z.ltb_lt in E; lia|reflexivity]. }
    destruct (sleep_zero_means_elapsed_lemma Hr) as [(E & X)|(E & X)].
    - rewrite Hexp in X. destruct (d =? 0) eqn:D; [apply Z.eqb_eq in D|]; lia.
    - destruct (d =? 0) eqn:D; [apply Z.eqb_eq in D; lia|apply Z.eqb_neq in D].
      unfold expired in E. rewrite Hexp in E. apply orb_true_iff in E.
      destruct E as [E|E]; [apply Z.eqb_eq in E|apply Z.leb_le in E]; lia.
  Qed.

  (* A usleep that returns -1 reports, in errno, an error_number that a completed
     thread_interrupt(self, errno) / thread_shutdown(self) wrote (the event at index ev_src of the
     trace), or it is the 10 ms cap of a thread marked by thread_shutdown (EPERM). *)
  Lemma sleep_minus1_means_interrupted_lemma :
    ev_ret ev = -1 ->
    (ev_err ev <> 0 /\
     exists ev', nth_error (run_trace fuel ps) (ev_src ev) = Some ev' /\ ev_ret ev' = 0 /\
                 (ev_cop ps ev' = Some (OInterrupt (ev_tid ev) (ev_err ev)) \/
                  (exists f, ev_cop ps ev' = Some (OShutdown (ev_tid ev) f) /\ ev_err ev = EPERM))) \/
    (ev_shut ev = true /\ ev_err ev = EPERM /\ ev_k ev = [3]).
  Proof.
    intros Hr. destruct usleep_event_facts as (A & K & C1 & C2 & C3).
    assert (S : forall e, e <> 0 -> src_ok (core_progs ps) (s_trace (run_state fuel ps)) (ev_tid ev) e (ev_src ev) ->
                e <> 0 /\ exists ev', nth_error (run_trace fuel ps) (ev_src ev) = Some ev' /\ ev_ret ev' = 0 /\
                 (ev_cop ps ev' = Some (OInterrupt (ev_tid ev) e) \/
                  (exists f, ev_cop ps ev' = Some (OShutdown (ev_tid ev) f) /\ e = EPERM))).
    { intros e He (ev' & Hn & Hr' & Hd). split; auto. exists ev'. split; [exact Hn|]. split; [exact Hr'|].
      destruct Hd as [X|(f & X & Y)]; [left; apply ev_op_core_inv; exact X|right; exists f; split; [apply ev_op_core_inv; exact X|exact Y]]. }
    destruct K as [K|[K|K]].
    - destruct (C1 K) as (_ & _ & [(X & _)|(_ & E & _ & X)]); [lia|left; apply S; auto].
    - destruct (C2 K) as (_ & [(X & _)|(_ & E & X)]); [lia|left; apply S; auto].
    - destruct (C3 K) as (Sh & _ & _ & _ & [X|(E & X)]); [right; auto|left; apply S; auto].
  Qed.

  (* A thread marked by thread_shutdown when it calls thread_usleep with a timeout that has not
     expired gets -1 back within 10 ms. *)
  Lemma shutdown_bound_usleep_lemma :
    ev_shut ev = true -> expired (ev_issued ev) exp = false ->
    ev_ret ev = -1 /\ ev_time ev <= ev_issued ev + SHUTDOWN_CAP.
  Proof.
    intros Hs He. destruct usleep_event_facts as (A & K & C1 & C2 & C3).
    destruct K as [K|[K|K]].
    - destruct (C1 K) as (X & _). congruence.
    - destruct (C2 K) as (X & _). congruence.
    - destruct (C3 K) as (_ & _ & X & Y & _). auto.
  Qed.
End CONTRACT.
