(* C04_Proofs.v — proofs about the scheduler model (being written; see notes/C04.md). *)
From Coq Require Import ZArith List.
From PV Require Import Base.U64 C04.C04_Heap Sched.Core Sched.Prog.
Lemma placeholder : True. Proof. exact I. Qed.
