(* C04_Step2.v — the step of a user thread, op by op; the main preservation theorem *)
From Coq Require Import ZArith List Bool Arith Lia Permutation.
From PV Require Import Base.U64 C04.C04_Heap C04.C04_HeapProofs Sched.Core Sched.Prog Sched.Lemmas
                       Sched.Invariant Sched.Effects C04.C04_Inv C04.C04_Good C04.C04_Step.
Import ListNotations.
Local Open Scope Z_scope.

Section STEP2.
  Variable progs : list (list (op no_op)).
  Hypothesis NZ : forall t pc k e, nth_error (prog_of progs t) pc = Some (OCore (OInterrupt k e)) -> e <> 0.

  Notation GoodT := (GoodT progs).
  Notation GI := (GI progs).
  Notation TI := (TI progs).
  Notation EvOK := (EvOK progs).
  Notation cur_op := (cur_op progs).
  Notation GIw := (GIw progs).

  Lemma GI_same (st st' : cstate) :
    GI st -> same_sched st st' -> s_trace st' = s_trace st -> (forall u, getth st' u = getth st u) -> GI st'.
  Proof.
    intros G (S1&S2&S3&S4&S5&S6&S7&S8) Str Sg. constructor.
    - apply (WF_same _ st); [repeat split; auto; apply S8|apply (gi_wf _ _ G)].
    - rewrite S7. apply (gi_n _ _ G).
    - destruct (gi_sync _ _ G) as [X|(X & Y)]; [left; congruence|right].
      rewrite S1, S2, (idler_tid_nthreads _ _ _ S7). auto.
    - rewrite S6. apply (gi_max _ _ G).
    - rewrite S5. apply (gi_pos _ _ G).
    - intros u. rewrite Sg, S1. apply (gi_ring _ _ G).
    - intros u Hu. rewrite Sg, S5, S6, Str. apply (gi_good _ _ G); auto.
    - rewrite (idler_tid_nthreads _ _ _ S7), Sg. apply (gi_idler_k _ _ G).
  Qed.

  Lemma GI_TI_stuck st : GI st -> TI st -> GI (set_stuck st) /\ TI (set_stuck st).
  Proof.
    intros G T. split; [|exact T].
    apply (GI_same st); auto. apply same_sched_set_stuck.
  Qed.

  (* ---- context of the step of user thread t executing core op c ------------------------------- *)
  Record UCtx (st : cstate) (t to : tid) (rest : list tid) (c : core_op) : Prop := mkUCtx {
    uc_gi : GI st;
    uc_ti : TI st;
    uc_runq : s_runq st = t :: to :: rest;
    uc_nid : t <> idler_tid st;
    uc_op : cur_op t (getth st t) = Some (OCore c);
    uc_start : th_k (getth st t) = [] ->
               th_issued (getth st t) = s_now st /\ th_shut_issue (getth st t) = th_shutdown (getth st t)
  }.

  Section WITHCTX.
    Variables (st : cstate) (t to : tid) (rest : list tid) (c : core_op).
    Hypothesis UC : UCtx st t to rest c.

    Let th := getth st t.
    Lemma uc_lt : (t < length progs)%nat.
    Proof. destruct (user_ctx progs st t _ (uc_gi _ _ _ _ _ UC) (uc_runq _ _ _ _ _ UC) (uc_nid _ _ _ _ _ UC)) as (X&_); exact X. Qed.
    Lemma uc_sync : s_now st = s_clock st.
    Proof. destruct (user_ctx progs st t _ (uc_gi _ _ _ _ _ UC) (uc_runq _ _ _ _ _ UC) (uc_nid _ _ _ _ _ UC)) as (_&X&_); exact X. Qed.
    Lemma uc_awake : th_state th <> SLEEPING.
    Proof. destruct (user_ctx progs st t _ (uc_gi _ _ _ _ _ UC) (uc_runq _ _ _ _ _ UC) (uc_nid _ _ _ _ _ UC)) as (_&_&X&_); exact X. Qed.
    Lemma uc_nowq : th_waitq th = None.
    Proof. destruct (user_ctx progs st t _ (uc_gi _ _ _ _ _ UC) (uc_runq _ _ _ _ _ UC) (uc_nid _ _ _ _ _ UC)) as (_&_&_&X&_); exact X. Qed.
    Lemma uc_good : GoodT t th (s_now st) (s_clock st) (s_trace st).
    Proof. apply (gi_good _ _ (uc_gi _ _ _ _ _ UC)). exact uc_lt. Qed.
    Lemma uc_gw : GIw st t (s_trace st).
    Proof. eapply GI_GIw; [apply (uc_gi _ _ _ _ _ UC)|apply (uc_runq _ _ _ _ _ UC)|apply (uc_nid _ _ _ _ _ UC)]. Qed.
    Lemma uc_range : (t < nthreads st)%nat.
    Proof. apply (GIw_t_range progs _ _ _ uc_gw). Qed.

    (* the pending error_number of the current thread comes from a recorded delivery, unless the
       thread is a joiner that thread::die has just notified *)
    Lemma uc_src : ~ ((exists j, c = OJoin j) /\ th_k th = [1]) -> th_err th <> 0 ->
                   src_ok progs (s_trace st) t (th_err th) (th_esrc th).
    Proof.
      intros Hnj He. destruct (g_src _ _ _ _ _ _ uc_good He) as [X|(_ & (j & Hj) & Hk)]; auto.
      exfalso. apply Hnj. split; auto. exists j. pose proof (uc_op _ _ _ _ _ UC) as Hop. fold th in Hop. congruence.
    Qed.

    (* the event of an op that completes now *)
    Definition ev_now (th' : thread) (r e : Z) : event :=
      mkEv t (th_pc th') r e (s_now st) (th_issued th') (th_shut_issue th') (th_k th') (th_esrc th').

    Lemma ev_now_op r e : ev_op progs (ev_now th r e) = Some (OCore c).
    Proof. unfold ev_op, ev_now. simpl. apply (uc_op _ _ _ _ _ UC). Qed.

    Lemma uc_fresh : fresh progs t th (s_trace st).
    Proof. apply (g_fresh _ _ _ _ _ _ uc_good). Qed.

    Lemma src_ok_lt tr t' e' src : src_ok progs tr t' e' src -> (src < length tr)%nat.
    Proof. intros (ev & Hn & _). rewrite <- rev_length. apply nth_error_Some. congruence. Qed.

    Lemma clearing_now r e : clearing progs (ev_now th r e) -> th_k th = [1] /\ r = -1.
    Proof. intros (_ & A & B). simpl in *. auto. Qed.
    Lemma reports_now r e : reports progs (ev_now th r e) ->
      (r = -1 /\ th_k th <> [3] /\ exists d, c = OUsleep d) \/ (c = OYield /\ r <> 0) \/
      ((exists j, c = OYieldTo j) /\ th_k th = [1] /\ r <> 0).
    Proof.
      pose proof (uc_op _ _ _ _ _ UC) as Hop. fold th in Hop.
      intros [((d & Hd) & A & B)|[(Hd & A)|((j & Hd) & A & B)]]; unfold ev_op, ev_now in Hd; simpl in *;
        unfold cur_op in Hop; rewrite Hop in Hd; injection Hd as ->.
      - left. eauto.
      - right; left. auto.
      - right; right. eauto.
    Qed.

    Lemma aret_ctx r e :
      (th_err th <> 0 -> ~ ((exists j, c = OJoin j) /\ th_k th = [1])) ->
      ~ clearing progs (ev_now th r e) ->
      (reports progs (ev_now th r e) -> th_err th <> 0) ->
      EvOK (ev_now th r e :: s_trace st) (ev_now th r e) ->
      GI (apply_action st t (ARet r e) true) /\ TI (apply_action st t (ARet r e) true).
    Proof.
      intros Hnj Hnc Hrep Hev. apply aret_inv.
      - apply GIw_mono; [exact uc_gw|reflexivity].
      - apply (uc_ti _ _ _ _ _ UC).
      - exact Hev.
      - intros X. apply src_ok_mono. apply uc_src; auto.
      - apply fresh_mono; [exact uc_fresh|intros _; exact Hnc].
      - intros Hr e1 Hin Ht Hc. destruct (uc_fresh e1 Hin Ht Hc) as (_ & X). apply X. apply Hrep. exact Hr.
    Qed.

    (* the same after set_error_number has cleared a non-zero error_number *)
    Lemma aret_ctx_clear r e :
      let st1 := modth st t (fun x => set_terr x 0) in
      th_err th <> 0 -> ~ ((exists j, c = OJoin j) /\ th_k th = [1]) ->
      EvOK (ev_now th r e :: s_trace st) (ev_now th r e) ->
      GI (apply_action st1 t (ARet r e) true) /\ TI (apply_action st1 t (ARet r e) true).
    Proof.
      intros st1 Herr Hnj Hev.
      assert (E1 : getth st1 t = set_terr th 0) by (apply getth_modth_same; exact uc_range).
      assert (G1 : GIw st1 t (s_trace st)).
      { apply GIw_modth; [exact uc_gw|intros x; repeat split; reflexivity|intros x; right; reflexivity]. }
      pose proof (src_ok_lt _ _ _ _ (uc_src Hnj Herr)) as Hlt.
      pose proof (aret_inv progs st1 t r e) as A. cbv zeta in A. rewrite E1 in A. thsimpl.
      apply A.
      - apply GIw_mono; [exact G1|reflexivity].
      - apply (uc_ti _ _ _ _ _ UC).
      - exact Hev.
      - intros X. exfalso. apply X. reflexivity.
      - intros e1 [<-|Hin] Ht Hc.
        + split; [simpl; lia|]. thsimpl. intros X. exfalso. apply X; reflexivity.
        + destruct (uc_fresh e1 Hin Ht Hc) as (X & _). split; [simpl; lia|]. thsimpl. intros Y. exfalso. apply Y; reflexivity.
      - intros _ e1 Hin Ht Hc. destruct (uc_fresh e1 Hin Ht Hc) as (_ & X). apply X. exact Herr.
    Qed.

    Lemma plain_not_clearing_now r e : (forall d, c <> OUsleep d) -> ~ clearing progs (ev_now th r e).
    Proof. intros H. eapply not_clearing_op; [apply ev_now_op|exact H]. Qed.
    Lemma plain_not_reports_now r e : plain_op c -> ~ reports progs (ev_now th r e).
    Proof. intros H. eapply not_reports_op; [apply ev_now_op|exact H]. Qed.

    Lemma aret_ctx_plain r e :
      plain_op c -> (th_err th <> 0 -> ~ ((exists j, c = OJoin j) /\ th_k th = [1])) ->
      EvOK (ev_now th r e :: s_trace st) (ev_now th r e) ->
      GI (apply_action st t (ARet r e) true) /\ TI (apply_action st t (ARet r e) true).
    Proof.
      intros Hp Hnj Hev. apply aret_ctx; auto.
      - apply plain_not_clearing_now. apply plain_not_usleep; exact Hp.
      - intros X. exfalso. eapply plain_not_reports_now; eauto.
    Qed.

    Lemma EvOK_plain_now r e th' : plain_op c -> th_pc th' = th_pc th -> 0 <= th_issued th' <= s_now st ->
      EvOK (ev_now th' r e :: s_trace st) (ev_now th' r e).
    Proof.
      intros Hp Hpc Hi. apply (EvOK_plain progs _ _ c); auto.
      unfold ev_op, ev_now. simpl. rewrite Hpc. apply (uc_op _ _ _ _ _ UC).
    Qed.

  End WITHCTX.
  (* ---- arithmetic of deadlines ---------------------------------------------------------------------- *)
  Lemma exp_bounds now d : expired now (timeout_of now d) = false -> now < timeout_of now d <= MAX64.
  Proof.
    intros H. split; [apply not_expired; exact H|].
    unfold timeout_of in *. destruct (d =? 0) eqn:E; [unfold expired in H; simpl in H; discriminate|].
    apply sat_add_le_max.
  Qed.
  Lemma exp3_bounds now exp : now <= MAX64 -> now < exp <= MAX64 ->
    now <= timeout_at_most now exp SHUTDOWN_CAP <= MAX64 /\ timeout_at_most now exp SHUTDOWN_CAP <= now + SHUTDOWN_CAP.
  Proof.
    intros Hn He. unfold timeout_at_most.
    assert (Hc : 0 <= SHUTDOWN_CAP) by (unfold SHUTDOWN_CAP; lia).
    pose proof (sat_add_ge now SHUTDOWN_CAP Hc Hn). pose proof (sat_add_le_sum now SHUTDOWN_CAP Hc).
    pose proof (sat_add_le_max now SHUTDOWN_CAP).
    destruct (sat_add now SHUTDOWN_CAP <? exp) eqn:E; [apply Z.ltb_lt in E|apply Z.ltb_ge in E]; lia.
  Qed.

  (* ---- usleep ---------------------------------------------------------------------------------------- *)
  Lemma step_usleep st t to rest d :
    UCtx st t to rest (OUsleep d) ->
    let '(st1, a) := exec_core st t (OUsleep d) (th_k (getth st t)) in
    GI (apply_action st1 t a true) /\ TI (apply_action st1 t a true).
  Proof.
    intros UC.
    pose proof (uc_good _ _ _ _ _ UC) as GT. pose proof (uc_op _ _ _ _ _ UC) as Hop.
    pose proof (uc_sync _ _ _ _ _ UC) as Hsy. pose proof (uc_gw _ _ _ _ _ UC) as GW.
    pose proof (uc_awake _ _ _ _ _ UC) as Haw. pose proof (uc_nowq _ _ _ _ _ UC) as Hnq.
    pose proof (gi_max _ _ (uc_gi _ _ _ _ _ UC)) as Hmax.
    set (th := getth st t) in *.
    destruct (g_usleep _ _ _ _ _ _ GT d Hop) as (Hk & C1 & C2 & C3).
    assert (Hnj : ~ ((exists j, OUsleep d = OJoin j) /\ th_k th = [1])) by (intros ((j & X) & _); discriminate).
    assert (Hend : t <> 0%nat -> cur_op t th <> None) by (intros _; rewrite Hop; discriminate).
    destruct Hk as [Hk|[Hk|[Hk|Hk]]]; rewrite Hk; cbn [exec_core].
    - (* the op starts *)
      destruct (uc_start _ _ _ _ _ UC Hk) as (Hiss & Hsh). fold th in Hiss, Hsh.
      destruct (expired (s_now st) (timeout_of (s_now st) d)) eqn:Eexp.
      + (* yield_as_sleep *)
        eapply case_yield; [exact GW|apply (uc_ti _ _ _ _ _ UC)|apply (uc_runq _ _ _ _ _ UC)|apply (uc_nid _ _ _ _ _ UC)|].
        apply GoodT_yield_record; auto.
        intros d' Hd'. subst th. unfold yield_record, cur_op in *. thsimpl. rewrite Hop in Hd'. injection Hd' as <-.
        split; [right; right; left; reflexivity|].
        split; [intros X; discriminate|]. split; [|intros X; discriminate].
        intros _. unfold usleep_exp. thsimpl. rewrite Hiss. split; [exact Eexp|discriminate].
      + destruct (exp_bounds _ _ Eexp) as (He1 & He2).
        destruct (th_shutdown (getth st t)) eqn:Eshut; fold th in Eshut.
        * (* do_shutdown_usleep: capped *)
          destruct (exp3_bounds (s_now st) (timeout_of (s_now st) d) ltac:(lia) (conj He1 He2)) as (B1 & B2).
          eapply case_sleep; [exact GW|apply (uc_ti _ _ _ _ _ UC)|apply (uc_runq _ _ _ _ _ UC)|apply (uc_nid _ _ _ _ _ UC)|].
          apply (GoodT_sleep_record progs t th _ _ _ [3] None); auto; try discriminate; try lia.
          -- intros d' Hd'. subst th. unfold sleep_record, cur_op in *. thsimpl. rewrite Hop in Hd'. injection Hd' as <-.
             split; [right; right; right; reflexivity|].
             split; [intros X; discriminate|]. split; [intros X; discriminate|].
             intros _. unfold usleep_exp3, usleep_exp. thsimpl. rewrite Hiss, Hsh.
             repeat split; auto; try lia.
          -- apply (uc_src _ _ _ _ _ UC); auto.
        * (* do_thread_usleep *)
          eapply case_sleep; [exact GW|apply (uc_ti _ _ _ _ _ UC)|apply (uc_runq _ _ _ _ _ UC)|apply (uc_nid _ _ _ _ _ UC)|].
          apply (GoodT_sleep_record progs t th _ _ _ [1] None); auto; try discriminate; try lia.
          -- intros d' Hd'. subst th. unfold sleep_record, cur_op in *. thsimpl. rewrite Hop in Hd'. injection Hd' as <-.
             split; [right; left; reflexivity|].
             split; [|split; intros X; discriminate].
             intros _. unfold usleep_exp. thsimpl. rewrite Hiss, Hsh.
             repeat split; auto; try lia.
          -- apply (uc_src _ _ _ _ _ UC); auto.
    - (* woken from do_thread_usleep: r.from->set_error_number() *)
      destruct (C1 Hk) as (S1 & S2 & S3 & S4 & S5).
      assert (S5' : th_err th <> 0 \/ s_clock st = th_ts th) by (destruct S5 as [X|X]; [contradiction|exact X]).
      unfold set_error_number. fold th.
      destruct (th_err th =? 0) eqn:Ee.
      + apply Z.eqb_eq in Ee. destruct S5' as [X|X]; [contradiction|].
        apply (aret_ctx _ _ _ _ _ UC); [intros _; exact Hnj
          |intros Y; apply clearing_now in Y; destruct Y as (_ & Y); discriminate
          |intros Y; apply (reports_now _ _ _ _ _ UC) in Y; destruct Y as [(Y & _)|[(Y & _)|((j & Y) & _)]]; discriminate|].
        split; [simpl; apply (g_issued _ _ _ _ _ _ GT)|]. split.
        * intros d' Hd'. rewrite (ev_now_op _ _ _ _ _ UC) in Hd'. injection Hd' as <-. cbv zeta. simpl. fold th. rewrite Hk.
          split; [left; reflexivity|]. split; [|split; intros Y; discriminate].
          intros _. split; [exact S1|]. split; [exact S2|]. left. repeat split; auto.
          unfold usleep_exp in S3. lia.
        * intros [Y|(j & Y & _)]; rewrite (ev_now_op _ _ _ _ _ UC) in Y; discriminate.
      + apply Z.eqb_neq in Ee.
        apply (aret_ctx_clear _ _ _ _ _ UC); [exact Ee|exact Hnj|].
        split; [simpl; apply (g_issued _ _ _ _ _ _ GT)|]. split.
        * intros d' Hd'. rewrite (ev_now_op _ _ _ _ _ UC) in Hd'. injection Hd' as <-. cbv zeta. simpl. fold th. rewrite Hk.
          split; [left; reflexivity|]. split; [|split; intros Y; discriminate].
          intros _. split; [exact S1|]. split; [exact S2|]. right. repeat split; auto.
          -- unfold usleep_exp in S3. lia.
          -- apply src_ok_mono. apply (uc_src _ _ _ _ _ UC); auto.
        * intros [Y|(j & Y & _)]; rewrite (ev_now_op _ _ _ _ _ UC) in Y; discriminate.
    - (* back from yield_as_sleep: error_number is read, not cleared *)
      destruct (C2 Hk) as (S1 & S2).
      unfold ret_after_yield. fold th.
      destruct (th_err th =? 0) eqn:Ee; [apply Z.eqb_eq in Ee|apply Z.eqb_neq in Ee].
      + apply (aret_ctx _ _ _ _ _ UC); [intros _; exact Hnj
          |intros Y; apply clearing_now in Y; destruct Y as (_ & Y); discriminate
          |intros Y; apply (reports_now _ _ _ _ _ UC) in Y; destruct Y as [(Y & _)|[(Y & _)|((j & Y) & _)]]; discriminate|].
        split; [simpl; apply (g_issued _ _ _ _ _ _ GT)|]. split.
        * intros d' Hd'. rewrite (ev_now_op _ _ _ _ _ UC) in Hd'. injection Hd' as <-. cbv zeta. simpl. fold th. rewrite Hk.
          split; [right; left; reflexivity|]. split; [intros Y; discriminate|]. split; [|intros Y; discriminate].
          intros _. split; [exact S1|]. left. split; reflexivity.
        * intros [Y|(j & Y & _)]; rewrite (ev_now_op _ _ _ _ _ UC) in Y; discriminate.
      + apply (aret_ctx _ _ _ _ _ UC); [intros _; exact Hnj
          |intros Y; apply clearing_now in Y; destruct Y as (Y & _); fold th in Y; rewrite Hk in Y; discriminate
          |intros _; exact Ee|].
        split; [simpl; apply (g_issued _ _ _ _ _ _ GT)|]. split.
        * intros d' Hd'. rewrite (ev_now_op _ _ _ _ _ UC) in Hd'. injection Hd' as <-. cbv zeta. simpl. fold th. rewrite Hk.
          split; [right; left; reflexivity|]. split; [intros Y; discriminate|]. split; [|intros Y; discriminate].
          intros _. split; [exact S1|]. right. repeat split; auto.
          apply src_ok_mono. apply (uc_src _ _ _ _ _ UC); auto.
        * intros [Y|(j & Y & _)]; rewrite (ev_now_op _ _ _ _ _ UC) in Y; discriminate.
    - (* woken from do_shutdown_usleep *)
      destruct (C3 Hk) as (S1 & S2 & S3 & S4 & S5).
      assert (Hcap : s_now st <= th_issued th + SHUTDOWN_CAP).
      { pose proof (g_issued _ _ _ _ _ _ GT) as Hi.
        pose proof (gi_pos _ _ (uc_gi _ _ _ _ _ UC)).
        destruct (exp_bounds _ _ S2) as (E1 & E2). unfold usleep_exp3, usleep_exp in S3.
        destruct (exp3_bounds (th_issued th) _ ltac:(lia) (conj E1 E2)) as (_ & B2). lia. }
      unfold set_error_number. fold th.
      destruct (th_err th =? 0) eqn:Ee.
      + apply Z.eqb_eq in Ee. simpl.
        apply (aret_ctx _ _ _ _ _ UC); [intros _; exact Hnj
          |intros Y; apply clearing_now in Y; destruct Y as (Y & _); fold th in Y; rewrite Hk in Y; discriminate
          |intros Y; apply (reports_now _ _ _ _ _ UC) in Y; destruct Y as [(_ & Y & _)|[(Y & _)|((j & Y) & _)]];
             [fold th in Y; rewrite Hk in Y; exfalso; apply Y; reflexivity|discriminate|discriminate]|].
        split; [simpl; apply (g_issued _ _ _ _ _ _ GT)|]. split.
        * intros d' Hd'. rewrite (ev_now_op _ _ _ _ _ UC) in Hd'. injection Hd' as <-. cbv zeta. simpl. fold th. rewrite Hk.
          split; [right; right; reflexivity|]. split; [intros Y; discriminate|]. split; [intros Y; discriminate|].
          intros _. repeat split; auto.
        * intros [Y|(j & Y & _)]; rewrite (ev_now_op _ _ _ _ _ UC) in Y; discriminate.
      + apply Z.eqb_neq in Ee. simpl.
        apply (aret_ctx_clear _ _ _ _ _ UC); [exact Ee|exact Hnj|].
        split; [simpl; apply (g_issued _ _ _ _ _ _ GT)|]. split.
        * intros d' Hd'. rewrite (ev_now_op _ _ _ _ _ UC) in Hd'. injection Hd' as <-. cbv zeta. simpl. fold th. rewrite Hk.
          split; [right; right; reflexivity|]. split; [intros Y; discriminate|]. split; [intros Y; discriminate|].
          intros _. split; [exact S1|]. split; [exact S2|]. split; [reflexivity|]. split; [exact Hcap|].
          right. split; [exact Ee|]. apply src_ok_mono. apply (uc_src _ _ _ _ _ UC); auto.
        * intros [Y|(j & Y & _)]; rewrite (ev_now_op _ _ _ _ _ UC) in Y; discriminate.
  Qed.

  (* ---- helpers ------------------------------------------------------------------------------------- *)
  Lemma kmatch2 {A} (k : kont) (a b c : A) :
    (match k with [] => a | [1] => b | _ => c end) =
    if list_eq_dec Z.eq_dec k [] then a else if list_eq_dec Z.eq_dec k [1] then b else c.
  Proof.
    destruct k as [|z l]; [reflexivity|].
    destruct (list_eq_dec Z.eq_dec (z :: l) []) as [X|_]; [discriminate|].
    destruct (list_eq_dec Z.eq_dec (z :: l) [1]) as [X|X].
    - injection X as -> ->. reflexivity.
    - destruct z as [|p|p]; try reflexivity. destruct p; try reflexivity. destruct l; [congruence|reflexivity].
  Qed.

  Lemma usleep_clauses_other t th clock :
    (forall d, cur_op t th <> Some (OCore (OUsleep d))) -> usleep_clauses progs t th clock.
  Proof. intros H d Hd. exfalso. apply (H d). exact Hd. Qed.

  Lemma update_now_sync (st : cstate) : s_now st = s_clock st -> update_now st = st.
  Proof. intros H. destruct st; unfold update_now, set_now; simpl in *; subst; reflexivity. Qed.

  Lemma EvOK_yieldlike tr ev : 
    (forall d, ev_op progs ev <> Some (OCore (OUsleep d))) -> 0 <= ev_issued ev <= ev_time ev ->
    (ev_op progs ev = Some (OCore OYield) \/ (exists j, ev_op progs ev = Some (OCore (OYieldTo j)) /\ ev_k ev = [1]) ->
       ev_ret ev = 0 \/ src_ok progs tr (ev_tid ev) (ev_ret ev) (ev_src ev)) ->
    EvOK tr ev.
  Proof.
    intros H1 H2 H3. split; [exact H2|]. split; [|exact H3].
    intros d Hd. exfalso. apply (H1 d). exact Hd.
  Qed.

  (* GI survives a scheduler-neutral, GoodT-preserving rewrite of any thread record *)
  Lemma GI_modth (st : cstate) j f :
    GI st -> sched_neutral f ->
    (GoodT j (getth st j) (s_now st) (s_clock st) (s_trace st) -> GoodT j (f (getth st j)) (s_now st) (s_clock st) (s_trace st)) ->
    GI (modth st j f).
  Proof.
    intros G Hf Hg.
    assert (Hst : forall u, th_state (getth (modth st j f) u) = th_state (getth st u)).
    { intros u. apply (getth_modth_proj unit th_state). intros; apply Hf. }
    constructor.
    - apply WF_modth_neutral; [exact Hf|apply (gi_wf _ _ G)].
    - rewrite nthreads_modth. apply (gi_n _ _ G).
    - change (idler_tid (modth st j f)) with (idler_tid (setth st j (f (getth st j)))).
      rewrite (idler_tid_nthreads _ _ _ (nthreads_setth _ _ _ _)). apply (gi_sync _ _ G).
    - apply (gi_max _ _ G).
    - apply (gi_pos _ _ G).
    - intros u. rewrite Hst. apply (gi_ring _ _ G).
    - intros u Hu. rewrite getth_modth. destruct (Nat.eqb u j && Nat.ltb j (nthreads st)) eqn:E.
      + apply andb_true_iff in E. destruct E as (E & _). apply Nat.eqb_eq in E. subst j.
        apply Hg. apply (gi_good _ _ G); auto.
      + apply (gi_good _ _ G); auto.
    - change (idler_tid (modth st j f)) with (idler_tid (setth st j (f (getth st j)))).
      rewrite (idler_tid_nthreads _ _ _ (nthreads_setth _ _ _ _)), Hst. apply (gi_idler_k _ _ G).
  Qed.

  Lemma UCtx_modth st t to rest c j f :
    UCtx st t to rest c -> sched_neutral f ->
    (GoodT j (getth st j) (s_now st) (s_clock st) (s_trace st) -> GoodT j (f (getth st j)) (s_now st) (s_clock st) (s_trace st)) ->
    (forall th, th_pc (f th) = th_pc th /\ th_k (f th) = th_k th /\ th_issued (f th) = th_issued th /\
                th_shut_issue (f th) = th_shut_issue th /\ th_shutdown (f th) = th_shutdown th) ->
    UCtx (modth st j f) t to rest c.
  Proof.
    intros UC Hf Hg Hp.
    assert (P : forall (X : Type) (p : thread -> X), (forall th, p (f th) = p th) ->
                p (getth (modth st j f) t) = p (getth st t)).
    { intros X p Hpp. apply (getth_modth_proj unit p). exact Hpp. }
    constructor.
    - apply GI_modth; auto. apply (uc_gi _ _ _ _ _ UC).
    - apply (uc_ti _ _ _ _ _ UC).
    - apply (uc_runq _ _ _ _ _ UC).
    - change (idler_tid (modth st j f)) with (idler_tid (setth st j (f (getth st j)))).
      rewrite (idler_tid_nthreads _ _ _ (nthreads_setth _ _ _ _)). apply (uc_nid _ _ _ _ _ UC).
    - unfold cur_op. rewrite (P _ th_pc) by (intros; apply Hp). apply (uc_op _ _ _ _ _ UC).
    - rewrite (P _ th_k), (P _ th_issued), (P _ th_shut_issue), (P _ th_shutdown) by (intros; apply Hp).
      apply (uc_start _ _ _ _ _ UC).
  Qed.

  Lemma GoodT_clear_err t th now clock tr :
    GoodT t th now clock tr -> (forall d, cur_op t th <> Some (OCore (OUsleep d))) -> GoodT t (set_terr th 0) now clock tr.
  Proof.
    intros [A B C D E F G H0] H. constructor; thsimpl; [exact A|exact B| | |exact E|exact F|exact G| ].
    - intros d Hd. exfalso. apply (H d). exact Hd.
    - intros X. exfalso. apply X. reflexivity.
    - eapply fresh_zero; [exact H0|reflexivity].
  Qed.

  (* ---- yield ----------------------------------------------------------------------------------------- *)
  Lemma ret_errno_event st t to rest c (UC : UCtx st t to rest c) :
    (forall d, c <> OUsleep d) -> ~ ((exists j, c = OJoin j)) ->
    EvOK (ev_now st t (getth st t) (th_err (getth st t)) 0 :: s_trace st) (ev_now st t (getth st t) (th_err (getth st t)) 0).
  Proof.
    intros Hnu Hnj. apply EvOK_yieldlike.
    - intros d. rewrite (ev_now_op _ _ _ _ _ UC). intros X. injection X as X. apply (Hnu d). exact X.
    - simpl. apply (g_issued _ _ _ _ _ _ (uc_good _ _ _ _ _ UC)).
    - intros _. simpl. destruct (Z.eq_dec (th_err (getth st t)) 0) as [X|X]; [left; exact X|right].
      apply src_ok_mono. apply (uc_src _ _ _ _ _ UC); auto. intros (Y & _). auto.
  Qed.

  Lemma step_yield st t to rest :
    UCtx st t to rest OYield ->
    let '(st1, a) := exec_core st t OYield (th_k (getth st t)) in
    GI (apply_action st1 t a true) /\ TI (apply_action st1 t a true).
  Proof.
    intros UC. cbn [exec_core].
    rewrite (kmatch2 (th_k (getth st t))).
    destruct (list_eq_dec Z.eq_dec (th_k (getth st t)) []) as [Hk|Hk0].
    - eapply case_yield; [apply (uc_gw _ _ _ _ _ UC)|apply (uc_ti _ _ _ _ _ UC)|apply (uc_runq _ _ _ _ _ UC)|apply (uc_nid _ _ _ _ _ UC)|].
      apply GoodT_yield_record; [apply (uc_good _ _ _ _ _ UC)|apply (uc_nowq _ _ _ _ _ UC)|apply (uc_awake _ _ _ _ _ UC)| |].
      + apply usleep_clauses_other. intros d. unfold yield_record, cur_op. thsimpl.
        pose proof (uc_op _ _ _ _ _ UC) as X. unfold cur_op in X. rewrite X. discriminate.
      + intros _. rewrite (uc_op _ _ _ _ _ UC). discriminate.
    - destruct (list_eq_dec Z.eq_dec (th_k (getth st t)) [1]) as [Hk|Hk1].
      + apply (aret_ctx _ _ _ _ _ UC).
        * intros _ ((j & X) & _). discriminate.
        * apply (plain_not_clearing_now _ _ _ _ _ UC). intros d; discriminate.
        * intros Y. apply (reports_now _ _ _ _ _ UC) in Y. destruct Y as [(_ & _ & (d & Y))|[(_ & Y)|((j & Y) & _)]]; try discriminate. exact Y.
        * apply (ret_errno_event _ _ _ _ _ UC); [intros d; discriminate|intros (j & X); discriminate].
      + apply GI_TI_stuck; [apply (uc_gi _ _ _ _ _ UC)|apply (uc_ti _ _ _ _ _ UC)].
  Qed.

  (* ---- ops that complete at once without touching the scheduler ----------------------------------- *)
  Lemma plain_aret st t to rest c r e :
    UCtx st t to rest c -> plain_op c -> th_k (getth st t) <> [1] ->
    GI (apply_action st t (ARet r e) true) /\ TI (apply_action st t (ARet r e) true).
  Proof.
    intros UC Hp Hk. apply (aret_ctx_plain _ _ _ _ _ UC); auto.
    - intros _ (_ & X). auto.
    - apply (EvOK_plain_now _ _ _ _ _ UC); auto. apply (g_issued _ _ _ _ _ _ (uc_good _ _ _ _ _ UC)).
  Qed.

  Lemma alive_lt (st : cstate) j : GI st -> alive st j = true -> (j < length progs)%nat.
  Proof.
    intros G H. unfold alive in H. apply andb_true_iff in H. destruct H as (H & _).
    apply andb_true_iff in H. destruct H as (H & _). apply Nat.ltb_lt in H. rewrite (gi_idler_tid _ _ G) in H. exact H.
  Qed.

  (* ---- yield_to ---------------------------------------------------------------------------------------- *)
  Lemma yieldto_k0_event st t to rest j r e (UC : UCtx st t to rest (OYieldTo j)) :
    th_k (getth st t) <> [1] ->
    EvOK (ev_now st t (getth st t) r e :: s_trace st) (ev_now st t (getth st t) r e).
  Proof.
    intros Hk. apply EvOK_yieldlike.
    - intros d. rewrite (ev_now_op _ _ _ _ _ UC). discriminate.
    - simpl. apply (g_issued _ _ _ _ _ _ (uc_good _ _ _ _ _ UC)).
    - intros [X|(j' & _ & X)]; [rewrite (ev_now_op _ _ _ _ _ UC) in X; discriminate|]. simpl in X. contradiction.
  Qed.

  Lemma step_yield_to st t to rest j :
    UCtx st t to rest (OYieldTo j) ->
    let '(st1, a) := exec_core st t (OYieldTo j) (th_k (getth st t)) in
    GI (apply_action st1 t a true) /\ TI (apply_action st1 t a true).
  Proof.
    intros UC. cbn [exec_core].
    rewrite (kmatch2 (th_k (getth st t))).
    destruct (list_eq_dec Z.eq_dec (th_k (getth st t)) []) as [Hk|Hk0].
    - assert (Hk1 : th_k (getth st t) <> [1]) by (rewrite Hk; discriminate).
      assert (Hnj : th_err (getth st t) <> 0 -> ~ ((exists j0, OYieldTo j = OJoin j0) /\ th_k (getth st t) = [1]))
        by (intros _ ((j0 & X) & _); discriminate).
      assert (ARET : forall r e, GI (apply_action st t (ARet r e) true) /\ TI (apply_action st t (ARet r e) true)).
      { intros r e. apply (aret_ctx _ _ _ _ _ UC).
        - exact Hnj.
        - apply (plain_not_clearing_now _ _ _ _ _ UC). intros d; discriminate.
        - intros Y. apply (reports_now _ _ _ _ _ UC) in Y.
          destruct Y as [(_ & _ & (d & Y))|[(Y & _)|(_ & Y & _)]]; try discriminate. contradiction.
        - apply (yieldto_k0_event _ _ _ _ _ _ _ UC); auto. }
      destruct (alive st j) eqn:Eal; cbn [negb].
      + destruct (Nat.eqb_spec j t) as [->|Hjt].
        * rewrite (update_now_sync st (uc_sync _ _ _ _ _ UC)). apply ARET.
        * destruct (th_state (getth st j)) eqn:Es; try (apply ARET; fail).
          -- (* READY *)
             rewrite (uc_runq _ _ _ _ _ UC).
             assert (HG : GoodT t (yield_record (getth st t) [1]) (s_now st) (s_clock st) (s_trace st)).
             { apply GoodT_yield_record; [apply (uc_good _ _ _ _ _ UC)|apply (uc_nowq _ _ _ _ _ UC)|apply (uc_awake _ _ _ _ _ UC)| |].
               - apply usleep_clauses_other. intros d. unfold yield_record, cur_op. thsimpl.
                 pose proof (uc_op _ _ _ _ _ UC) as X. unfold cur_op in X. rewrite X. discriminate.
               - intros _. rewrite (uc_op _ _ _ _ _ UC). discriminate. }
             destruct (Nat.eqb to j).
             ++ eapply case_yield; [apply (uc_gw _ _ _ _ _ UC)|apply (uc_ti _ _ _ _ _ UC)|apply (uc_runq _ _ _ _ _ UC)|apply (uc_nid _ _ _ _ _ UC)|exact HG].
             ++ eapply case_yield_to; [apply (uc_gw _ _ _ _ _ UC)|apply (uc_ti _ _ _ _ _ UC)|apply (uc_runq _ _ _ _ _ UC)|apply (uc_nid _ _ _ _ _ UC)|exact Hjt|exact Es|exact HG].
          -- (* STANDBY: cross-vCPU only *)
             apply GI_TI_stuck; [apply (uc_gi _ _ _ _ _ UC)|apply (uc_ti _ _ _ _ _ UC)].
      + apply ARET.
    - destruct (list_eq_dec Z.eq_dec (th_k (getth st t)) [1]) as [Hk|Hk1].
      + apply (aret_ctx _ _ _ _ _ UC).
        * intros _ ((j0 & X) & _). discriminate.
        * apply (plain_not_clearing_now _ _ _ _ _ UC). intros d; discriminate.
        * intros Y. apply (reports_now _ _ _ _ _ UC) in Y.
          destruct Y as [(_ & _ & (d & Y))|[(Y & _)|(_ & _ & Y)]]; try discriminate. exact Y.
        * apply EvOK_yieldlike.
          -- intros d. rewrite (ev_now_op _ _ _ _ _ UC). discriminate.
          -- simpl. apply (g_issued _ _ _ _ _ _ (uc_good _ _ _ _ _ UC)).
          -- intros _. simpl. destruct (Z.eq_dec (th_err (getth st t)) 0) as [X|X]; [left; exact X|right].
             apply src_ok_mono. apply (uc_src _ _ _ _ _ UC); auto. intros ((j0 & Y) & _). discriminate.
      + apply GI_TI_stuck; [apply (uc_gi _ _ _ _ _ UC)|apply (uc_ti _ _ _ _ _ UC)].
  Qed.

  (* ---- interrupt / shutdown / create / state / nop ------------------------------------------------------ *)
  Lemma uc_src_plain st t to rest c (UC : UCtx st t to rest c) :
    ~ (exists j, c = OJoin j) -> th_err (getth st t) <> 0 ->
    src_ok progs (s_trace st) t (th_err (getth st t)) (th_esrc (getth st t)).
  Proof. intros H. apply (uc_src _ _ _ _ _ UC). intros (X & _). auto. Qed.

  Lemma step_interrupt st t to rest j e :
    UCtx st t to rest (OInterrupt j e) ->
    let '(st1, a) := exec_core st t (OInterrupt j e) (th_k (getth st t)) in
    GI (apply_action st1 t a true) /\ TI (apply_action st1 t a true).
  Proof.
    intros UC. cbn [exec_core]. destruct (alive st j) eqn:Eal.
    - apply case_interrupt; auto.
      + apply (uc_gw _ _ _ _ _ UC).
      + apply (uc_ti _ _ _ _ _ UC).
      + apply (uc_op _ _ _ _ _ UC).
      + apply (alive_lt st j (uc_gi _ _ _ _ _ UC) Eal).
      + apply (uc_src_plain _ _ _ _ _ UC). intros (j0 & X); discriminate.
      + apply (uc_fresh _ _ _ _ _ UC).
    - apply (aret_ctx_plain _ _ _ _ _ UC); [exact I|intros _ ((j0 & X) & _); discriminate|].
      apply (EvOK_plain_now _ _ _ _ _ UC); [exact I|reflexivity|apply (g_issued _ _ _ _ _ _ (uc_good _ _ _ _ _ UC))].
  Qed.

  Lemma step_shutdown st t to rest j f :
    UCtx st t to rest (OShutdown j f) ->
    let '(st1, a) := exec_core st t (OShutdown j f) (th_k (getth st t)) in
    GI (apply_action st1 t a true) /\ TI (apply_action st1 t a true).
  Proof.
    intros UC. cbn [exec_core]. destruct (alive st j) eqn:Eal.
    - apply case_shutdown; auto.
      + apply (uc_gw _ _ _ _ _ UC).
      + apply (uc_ti _ _ _ _ _ UC).
      + apply (uc_op _ _ _ _ _ UC).
      + apply (alive_lt st j (uc_gi _ _ _ _ _ UC) Eal).
      + apply (uc_src_plain _ _ _ _ _ UC). intros (j0 & X); discriminate.
      + apply (uc_fresh _ _ _ _ _ UC).
    - apply (aret_ctx_plain _ _ _ _ _ UC); [exact I|intros _ ((j0 & X) & _); discriminate|].
      apply (EvOK_plain_now _ _ _ _ _ UC); [exact I|reflexivity|apply (g_issued _ _ _ _ _ _ (uc_good _ _ _ _ _ UC))].
  Qed.

  Lemma step_create st t to rest j jn :
    UCtx st t to rest (OCreate j jn) ->
    let '(st1, a) := exec_core st t (OCreate j jn) (th_k (getth st t)) in
    GI (apply_action st1 t a true) /\ TI (apply_action st1 t a true).
  Proof.
    intros UC. cbn [exec_core].
    destruct (Nat.ltb 0 j && Nat.ltb j (idler_tid st) && tstate_eqb (th_state (getth st j)) NOTCREATED) eqn:Ec.
    - apply andb_true_iff in Ec. destruct Ec as (Ec & E3). apply andb_true_iff in Ec. destruct Ec as (E1 & E2).
      apply Nat.ltb_lt in E2. rewrite (gi_idler_tid _ _ (uc_gi _ _ _ _ _ UC)) in E2.
      apply case_create; auto.
      + apply (uc_gw _ _ _ _ _ UC).
      + apply (uc_ti _ _ _ _ _ UC).
      + apply (uc_op _ _ _ _ _ UC).
      + destruct (tstate_eqb_spec (th_state (getth st j)) NOTCREATED); [auto|discriminate].
      + apply (uc_src_plain _ _ _ _ _ UC). intros (j0 & X); discriminate.
      + apply (uc_fresh _ _ _ _ _ UC).
    - apply (aret_ctx_plain _ _ _ _ _ UC); [exact I|intros _ ((j0 & X) & _); discriminate|].
      apply (EvOK_plain_now _ _ _ _ _ UC); [exact I|reflexivity|apply (g_issued _ _ _ _ _ _ (uc_good _ _ _ _ _ UC))].
  Qed.

  Lemma step_state st t to rest j :
    UCtx st t to rest (OState j) ->
    let '(st1, a) := exec_core st t (OState j) (th_k (getth st t)) in
    GI (apply_action st1 t a true) /\ TI (apply_action st1 t a true).
  Proof.
    intros UC. cbn [exec_core].
    destruct (alive st j); (apply (aret_ctx_plain _ _ _ _ _ UC);
      [exact I|intros _ ((j0 & X) & _); discriminate
      |apply (EvOK_plain_now _ _ _ _ _ UC); [exact I|reflexivity|apply (g_issued _ _ _ _ _ _ (uc_good _ _ _ _ _ UC))]]).
  Qed.

  Lemma step_nop st t to rest :
    UCtx st t to rest ONop ->
    let '(st1, a) := exec_core st t ONop (th_k (getth st t)) in
    GI (apply_action st1 t a true) /\ TI (apply_action st1 t a true).
  Proof.
    intros UC. cbn [exec_core]. apply (aret_ctx_plain _ _ _ _ _ UC);
      [exact I|intros _ ((j0 & X) & _); discriminate
      |apply (EvOK_plain_now _ _ _ _ _ UC); [exact I|reflexivity|apply (g_issued _ _ _ _ _ _ (uc_good _ _ _ _ _ UC))]].
  Qed.

  (* ---- join -------------------------------------------------------------------------------------------- *)
  Lemma join_check_inv st t to rest j :
    UCtx st t to rest (OJoin j) -> (th_err (getth st t) = 0 \/ th_k (getth st t) <> [1]) ->
    let '(st1, a) := join_check st j in
    GI (apply_action st1 t a true) /\ TI (apply_action st1 t a true).
  Proof.
    intros UC Hek. unfold join_check.
    destruct (tstate_eqb (th_state (getth st j)) DONE) eqn:Ed.
    - assert (UC1 : UCtx (modth st j (fun x => set_tjoined x true)) t to rest (OJoin j)).
      { apply UCtx_modth; [exact UC|intros th; repeat split; reflexivity| |intros th; repeat split; reflexivity].
        intros X. apply GoodT_set_joined. exact X. }
      assert (Ee : th_err (getth (modth st j (fun x => set_tjoined x true)) t) = th_err (getth st t))
        by (apply (getth_modth_proj unit th_err); reflexivity).
      assert (Ek : th_k (getth (modth st j (fun x => set_tjoined x true)) t) = th_k (getth st t))
        by (apply (getth_modth_proj unit th_k); reflexivity).
      apply (aret_ctx_plain _ _ _ _ _ UC1); [exact I| |].
      + rewrite Ee, Ek. intros He (_ & Hk). destruct Hek as [X|X]; auto.
      + apply (EvOK_plain_now _ _ _ _ _ UC1); [exact I|reflexivity|apply (g_issued _ _ _ _ _ _ (uc_good _ _ _ _ _ UC1))].
    - eapply case_sleep; [apply (uc_gw _ _ _ _ _ UC)|apply (uc_ti _ _ _ _ _ UC)|apply (uc_runq _ _ _ _ _ UC)|apply (uc_nid _ _ _ _ _ UC)|].
      apply (GoodT_sleep_record progs t (getth st t) _ _ _ [1] (Some (QJoin j)) MAX64).
      + apply (uc_good _ _ _ _ _ UC).
      + apply (uc_nowq _ _ _ _ _ UC).
      + pose proof (gi_max _ _ (uc_gi _ _ _ _ _ UC)). lia.
      + discriminate.
      + apply usleep_clauses_other. intros d. unfold sleep_record, cur_op. thsimpl.
        pose proof (uc_op _ _ _ _ _ UC) as X. unfold cur_op in X. rewrite X. discriminate.
      + intros He. apply (uc_src _ _ _ _ _ UC); auto. intros (_ & Hk). destruct Hek as [X|X]; auto.
      + intros q Hq. injection Hq as <-. exists j. split; [reflexivity|]. split; [apply (uc_op _ _ _ _ _ UC)|reflexivity].
      + intros _. rewrite (uc_op _ _ _ _ _ UC). discriminate.
  Qed.

  Lemma step_join st t to rest j :
    UCtx st t to rest (OJoin j) ->
    let '(st1, a) := exec_core st t (OJoin j) (th_k (getth st t)) in
    GI (apply_action st1 t a true) /\ TI (apply_action st1 t a true).
  Proof.
    intros UC. cbn [exec_core].
    rewrite (kmatch2 (th_k (getth st t))).
    destruct (list_eq_dec Z.eq_dec (th_k (getth st t)) []) as [Hk|Hk0].
    - destruct (alive st j && negb (Nat.eqb j t) && th_joinable (getth st j) && negb (th_join_claimed (getth st j))) eqn:Eg.
      + assert (UC1 : UCtx (modth st j (fun x => set_tjoin_claimed x true)) t to rest (OJoin j)).
        { apply UCtx_modth; [exact UC|intros th; repeat split; reflexivity| |intros th; repeat split; reflexivity].
          intros X. apply GoodT_set_join_claimed. exact X. }
        apply (join_check_inv _ _ _ _ _ UC1).
        right. rewrite (getth_modth_proj unit th_k) by reflexivity. rewrite Hk. discriminate.
      + apply (aret_ctx_plain _ _ _ _ _ UC); [exact I| |].
        * intros _ (_ & X). rewrite Hk in X. discriminate.
        * apply (EvOK_plain_now _ _ _ _ _ UC); [exact I|reflexivity|apply (g_issued _ _ _ _ _ _ (uc_good _ _ _ _ _ UC))].
    - destruct (list_eq_dec Z.eq_dec (th_k (getth st t)) [1]) as [Hk|Hk1].
      + (* woken inside thread_join: the error_number is consumed, the target's state re-checked *)
        unfold set_error_number.
        destruct (th_err (getth st t) =? 0) eqn:Ee.
        * apply Z.eqb_eq in Ee. apply (join_check_inv _ _ _ _ _ UC). left; exact Ee.
        * assert (UC1 : UCtx (modth st t (fun x => set_terr x 0)) t to rest (OJoin j)).
          { apply UCtx_modth; [exact UC|intros th; repeat split; reflexivity| |intros th; repeat split; reflexivity].
            intros X. apply GoodT_clear_err; auto.
            intros d. rewrite (uc_op _ _ _ _ _ UC). discriminate. }
          apply (join_check_inv _ _ _ _ _ UC1). left.
          rewrite getth_modth_same by (apply (uc_range _ _ _ _ _ UC)). reflexivity.
      + apply GI_TI_stuck; [apply (uc_gi _ _ _ _ _ UC)|apply (uc_ti _ _ _ _ _ UC)].
  Qed.

  (* ---- the main thread parks after its program: while (true) thread_usleep(-1) ---------------------- *)
  Lemma kmatch4 {A} (k : kont) (a b c d e : A) :
    (match k with [] => a | [1] => b | [2] => c | [3] => d | _ => e end) =
    if list_eq_dec Z.eq_dec k [] then a else if list_eq_dec Z.eq_dec k [1] then b
    else if list_eq_dec Z.eq_dec k [2] then c else if list_eq_dec Z.eq_dec k [3] then d else e.
  Proof.
    destruct k as [|z l]; [reflexivity|].
    destruct (list_eq_dec Z.eq_dec (z :: l) []) as [X|_]; [discriminate|].
    destruct (list_eq_dec Z.eq_dec (z :: l) [1]) as [X|X1]; [injection X as -> ->; reflexivity|].
    destruct (list_eq_dec Z.eq_dec (z :: l) [2]) as [X|X2]; [injection X as -> ->; reflexivity|].
    destruct (list_eq_dec Z.eq_dec (z :: l) [3]) as [X|X3]; [injection X as -> ->; reflexivity|].
    destruct z as [|p|p]; try reflexivity.
    destruct p as [p|p|]; try reflexivity.
    - destruct p; try reflexivity. destruct l; [congruence|reflexivity].
    - destruct p; try reflexivity. destruct l; [congruence|reflexivity].
    - destruct l; [congruence|reflexivity].
  Qed.

  Lemma GoodT_set_k_nil t th now clock tr :
    GoodT t th now clock tr -> th_waitq th = None ->
    (th_err th <> 0 -> src_ok progs tr t (th_err th) (th_esrc th)) -> GoodT t (set_tk th []) now clock tr.
  Proof.
    intros [A B C D E F G H] Hw Hs. constructor; thsimpl; [exact A|exact B| | | | | |exact H].
    - intros d _. split; [left; reflexivity|]. split; [intros X; discriminate|split; intros X; discriminate].
    - intros X. left. apply Hs. exact X.
    - intros q Hq. congruence.
    - intros X. congruence.
    - intros _ _. reflexivity.
  Qed.

  (* the context of a parked main thread: like UCtx but the thread is past the end of its program *)
  Lemma park_inv st to rest :
    GI st -> TI st -> s_runq st = 0%nat :: to :: rest -> 0%nat <> idler_tid st ->
    cur_op 0%nat (getth st 0%nat) = None ->
    let '(st1, a) := exec_core st 0%nat (OUsleep MAX64) (th_k (getth st 0%nat)) in
    GI (apply_action st1 0%nat a false) /\ TI (apply_action st1 0%nat a false).
  Proof.
    intros G T Hr Hid Hop.
    destruct (user_ctx progs st 0%nat _ G Hr Hid) as (Hlt & Hsy & Haw & Hnq & _).
    pose proof (gi_good _ _ G 0%nat Hlt) as GT.
    pose proof (GI_GIw progs st 0%nat _ G Hr Hid) as GW.
    pose proof (gi_max _ _ G) as Hmax.
    set (th := getth st 0%nat) in *.
    assert (Hsrc : th_err th <> 0 -> src_ok progs (s_trace st) 0%nat (th_err th) (th_esrc th)).
    { intros He. destruct (g_src _ _ _ _ _ _ GT He) as [X|(_ & (j & Hj) & _)]; auto. congruence. }
    assert (Hcl : forall th', th_pc th' = th_pc th -> usleep_clauses progs 0%nat th' (s_clock st)).
    { intros th' Hpc. apply usleep_clauses_other. intros d. unfold cur_op in *. rewrite Hpc, Hop. discriminate. }
    assert (Hend : 0%nat <> 0%nat -> cur_op 0%nat th <> None) by (intros X; congruence).
    (* completion of a park round: k := [] without trace event *)
    assert (Hret : forall st1, (st1 = st \/ st1 = modth st 0%nat (fun x => set_terr x 0)) -> forall r e,
               GI (apply_action st1 0%nat (ARet r e) false) /\ TI (apply_action st1 0%nat (ARet r e) false)).
    { intros st1 Hst1 r e. unfold apply_action.
      assert (G1 : GI st1 /\ th_waitq (getth st1 0%nat) = None /\ s_trace st1 = s_trace st /\
                   (th_err (getth st1 0%nat) <> 0 -> src_ok progs (s_trace st1) 0%nat (th_err (getth st1 0%nat)) (th_esrc (getth st1 0%nat)))).
      { destruct Hst1 as [->| ->]; [auto|].
        split; [|split; [|split]].
        - apply GI_modth; auto; [intros x; repeat split; reflexivity|].
          intros X. apply GoodT_clear_err; auto. intros d. fold th. rewrite Hop. discriminate.
        - rewrite (getth_modth_proj unit th_waitq) by reflexivity. exact Hnq.
        - reflexivity.
        - rewrite getth_modth_same by (apply (GIw_t_range progs _ _ _ GW)). thsimpl. intros X. exfalso. apply X; reflexivity. }
      destruct G1 as (G1 & W1 & Tr1 & S1).
      split.
      - apply GI_modth; auto; [intros x; repeat split; reflexivity|].
        intros X. apply GoodT_set_k_nil; auto.
      - apply (TI_same _ st); [exact T|exact Tr1]. }
    cbn [exec_core]. rewrite (kmatch4 (th_k th)).
    destruct (list_eq_dec Z.eq_dec (th_k th) []) as [Hk|Hk0].
    - destruct (expired (s_now st) (timeout_of (s_now st) MAX64)) eqn:Eexp.
      + eapply case_yield; [exact GW|exact T|exact Hr|exact Hid|].
        apply GoodT_yield_record; auto; try (apply Hcl; reflexivity).
      + destruct (exp_bounds _ _ Eexp) as (He1 & He2).
        destruct (th_shutdown (getth st 0%nat)) eqn:Eshut.
        * destruct (exp3_bounds (s_now st) (timeout_of (s_now st) MAX64) ltac:(lia) (conj He1 He2)) as (B1 & B2).
          eapply case_sleep; [exact GW|exact T|exact Hr|exact Hid|].
          apply (GoodT_sleep_record progs 0%nat th _ _ _ [3] None); auto; try discriminate; try lia;
            try (apply Hcl; unfold sleep_record; reflexivity).
        * eapply case_sleep; [exact GW|exact T|exact Hr|exact Hid|].
          apply (GoodT_sleep_record progs 0%nat th _ _ _ [1] None); auto; try discriminate; try lia;
            try (apply Hcl; unfold sleep_record; reflexivity).
    - destruct (list_eq_dec Z.eq_dec (th_k th) [1]) as [Hk|Hk1].
      + unfold set_error_number. fold th. destruct (th_err th =? 0); cbv beta iota zeta; apply Hret; auto.
      + destruct (list_eq_dec Z.eq_dec (th_k th) [2]) as [Hk|Hk2].
        * unfold ret_after_yield. fold th. destruct (th_err th =? 0); cbv beta iota zeta; apply Hret; auto.
        * destruct (list_eq_dec Z.eq_dec (th_k th) [3]) as [Hk|Hk3].
          -- unfold set_error_number. fold th. destruct (th_err th =? 0); cbv beta iota zeta; destruct (0 <=? _); apply Hret; auto.
          -- apply GI_TI_stuck; auto.
  Qed.

  (* ---- every step preserves GI /\ TI ------------------------------------------------------------------ *)
  Theorem step_inv st : GI st -> TI st -> GI (step no_prim progs st) /\ TI (step no_prim progs st).
  Proof.
    intros G T. unfold step.
    destruct (s_end st || s_stuck st); [auto|].
    destruct (s_runq st) as [|t rest] eqn:Hr; [apply GI_TI_stuck; auto|].
    destruct (Nat.eqb_spec t (idler_tid st)) as [->|Hid].
    - eapply idler_inv; eauto.
    - destruct (user_ctx progs st t rest G Hr Hid) as (Hlt & Hsy & Haw & Hnq & to & rest' & ->).
      pose proof (gi_good _ _ G t Hlt) as GT.
      destruct (nth_error (prog_of progs t) (th_pc (getth st t))) as [o|] eqn:Hop.
      + destruct o as [c|u]; [|destruct u].
        set (f := fun x : thread => set_tshut_issue (set_tissued x (s_now st)) (th_shutdown x)).
        set (st0 := match th_k (getth st t) with [] => modth st t f | _ :: _ => st end).
        assert (Hr0 : (t < nthreads st)%nat) by (rewrite (gi_n _ _ G); lia).
        assert (UC : UCtx st0 t to rest' c /\ th_k (getth st0 t) = th_k (getth st t)).
        { unfold st0. destruct (th_k (getth st t)) as [|z l] eqn:Hk.
          - assert (Gm : GI (modth st t f)).
            { apply GI_modth; auto; [intros x; repeat split; reflexivity|]. intros X. apply GoodT_start; auto. }
            assert (Et : getth (modth st t f) t = f (getth st t)) by (apply getth_modth_same; exact Hr0).
            split.
            + constructor; auto.
              * change (idler_tid (modth st t f)) with (idler_tid (setth st t (f (getth st t)))).
                rewrite (idler_tid_nthreads _ _ _ (nthreads_setth _ _ _ _)). exact Hid.
              * unfold cur_op. rewrite Et. exact Hop.
              * intros _. rewrite Et. split; reflexivity.
            + rewrite Et. exact Hk.
          - split; [|exact Hk]. constructor; auto. intros X. rewrite Hk in X. discriminate. }
        destruct UC as (UC & Hk0). clearbody st0.
        unfold exec. rewrite <- Hk0.
        destruct c.
        * pose proof (step_usleep _ _ _ _ _ UC) as X. destruct (exec_core _ _ _ _) as (st1, a). exact X.
        * pose proof (step_yield _ _ _ _ UC) as X. destruct (exec_core _ _ _ _) as (st1, a). exact X.
        * pose proof (step_yield_to _ _ _ _ _ UC) as X. destruct (exec_core _ _ _ _) as (st1, a). exact X.
        * pose proof (step_interrupt _ _ _ _ _ _ UC) as X. destruct (exec_core _ _ _ _) as (st1, a). exact X.
        * pose proof (step_shutdown _ _ _ _ _ _ UC) as X. destruct (exec_core _ _ _ _) as (st1, a). exact X.
        * pose proof (step_create _ _ _ _ _ _ UC) as X. destruct (exec_core _ _ _ _) as (st1, a). exact X.
        * pose proof (step_join _ _ _ _ _ UC) as X. destruct (exec_core _ _ _ _) as (st1, a). exact X.
        * pose proof (step_state _ _ _ _ _ UC) as X. destruct (exec_core _ _ _ _) as (st1, a). exact X.
        * pose proof (step_nop _ _ _ _ UC) as X. destruct (exec_core _ _ _ _) as (st1, a). exact X.
      + destruct (Nat.eqb_spec t 0) as [->|Ht0].
        * pose proof (park_inv st to rest' G T Hr Hid Hop) as X. destruct (exec_core _ _ _ _) as (st1, a). exact X.
        * eapply case_die; eauto.
          -- eapply GI_GIw; eauto.
          -- apply (g_end _ _ _ _ _ _ GT); auto.
  Qed.

  Theorem run_inv fuel st : GI st -> TI st -> GI (coop_run no_prim progs fuel st) /\ TI (coop_run no_prim progs fuel st).
  Proof.
    revert st. induction fuel as [|f IH]; intros st G T; simpl; auto.
    destruct (s_end st || s_stuck st); auto.
    destruct (step_inv st G T) as (G' & T'). apply IH; auto.
  Qed.

End STEP2.
