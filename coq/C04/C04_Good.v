(* C04_Good.v — how the per-thread invariant GoodT reacts to each kind of change of a thread record *)
From Coq Require Import ZArith List Bool Arith Lia Permutation.
From PV Require Import Base.U64 C04.C04_Heap C04.C04_HeapProofs Sched.Core Sched.Prog Sched.Lemmas
                       Sched.Invariant Sched.Effects C04.C04_Inv.
Import ListNotations.
Local Open Scope Z_scope.

Section GOOD.
  Variable progs : list (list (op no_op)).
  Notation GoodT := (GoodT progs).
  Notation cur_op := (cur_op progs).

  Lemma GoodT_ext t th now clock tr evs : GoodT t th now clock tr -> GoodT t th now clock (evs ++ tr).
  Proof. induction evs as [|x l IH]; simpl; auto. intros H. apply GoodT_mono; auto. Qed.

  (* READY <-> RUNNING <-> DONE ...: a change of th_state between two non-sleeping values *)
  Lemma GoodT_restate t th now clock tr ns :
    GoodT t th now clock tr -> th_state th <> SLEEPING -> ns <> SLEEPING ->
    GoodT t (set_tstate th ns) now clock tr.
  Proof.
    intros [A B C D E] Hs Hns. constructor; thsimpl; [exact A| | |exact D|exact E].
    - intros X; congruence.
    - intros d Hd. destruct (C d Hd) as (C0 & C1 & C2 & C3). split; [exact C0|]. split; [|split].
      + intros Hk. destruct (C1 Hk) as (X1&X2&X3&X4&[X5|X5]); repeat split; auto; try tauto.
      + intros Hk. destruct (C2 Hk). split; auto.
      + intros Hk. destruct (C3 Hk) as (X1&X2&X3&X4&[X5|X5]); repeat split; auto; try tauto.
  Qed.

  (* a delivery by thread_interrupt / thread_shutdown whose event `ev` is pushed in the same step *)
  Lemma GoodT_interrupted t th now clock tr e ev :
    GoodT t th now clock tr -> e <> 0 -> delivers progs ev t e ->
    GoodT t (interrupted th e (length tr)) now clock (ev :: tr).
  Proof.
    intros G He Hd. pose proof (GoodT_mono progs _ _ _ _ _ ev G) as G'.
    destruct G' as [A B C D E]. unfold interrupted.
    destruct (th_state th) eqn:Es; try (constructor; auto; fail).
    - (* READY *)
      destruct (th_err th =? 0) eqn:Ee; [|constructor; auto].
      apply Z.eqb_eq in Ee.
      constructor; thsimpl; [exact A|exact B| | |exact E].
      + intros d Hd'. destruct (C d Hd') as (C0 & C1 & C2 & C3). split; [exact C0|]. split; [|split].
        * intros Hk. destruct (C1 Hk) as (X1&X2&X3&X4&X5). repeat split; auto.
        * intros Hk. destruct (C2 Hk). split; auto.
        * intros Hk. destruct (C3 Hk) as (X1&X2&X3&X4&X5). repeat split; auto.
      + intros _. left. apply src_ok_new; auto.
    - (* SLEEPING *)
      constructor; thsimpl; [exact A| | | | ].
      + discriminate.
      + intros d Hd'. destruct (C d Hd') as (C0 & C1 & C2 & C3). split; [exact C0|]. split; [|split].
        * intros Hk. destruct (C1 Hk) as (X1&X2&X3&X4&X5). repeat split; auto.
        * intros Hk. destruct (C2 Hk). split; auto. discriminate.
        * intros Hk. destruct (C3 Hk) as (X1&X2&X3&X4&X5). repeat split; auto.
      + intros _. left. apply src_ok_new; auto.
      + intros q Hq. discriminate.
  Qed.

  Lemma GoodT_set_shutdown t th now clock tr b : GoodT t th now clock tr -> GoodT t (set_tshutdown th b) now clock tr.
  Proof. intros [A B C D E]. constructor; auto. Qed.
  Lemma GoodT_set_joined t th now clock tr b : GoodT t th now clock tr -> GoodT t (set_tjoined th b) now clock tr.
  Proof. intros [A B C D E]. constructor; auto. Qed.
  Lemma GoodT_set_join_claimed t th now clock tr b : GoodT t th now clock tr -> GoodT t (set_tjoin_claimed th b) now clock tr.
  Proof. intros [A B C D E]. constructor; auto. Qed.
  Lemma GoodT_set_retval t th now clock tr b : GoodT t th now clock tr -> GoodT t (set_tretval th b) now clock tr.
  Proof. intros [A B C D E]. constructor; auto. Qed.

  (* the op completes: pc+1, k = [] *)
  Lemma GoodT_aret t th now clock tr :
    GoodT t th now clock tr -> th_state th <> SLEEPING -> th_waitq th = None ->
    (th_err th <> 0 -> src_ok progs tr t (th_err th) (th_esrc th)) ->
    GoodT t (set_tk (set_tpc th (S (th_pc th))) []) now clock tr.
  Proof.
    intros [A B C D E] Hs Hw Hsrc. constructor; thsimpl; [exact A|exact B| | | ].
    - intros d _. split; [left; auto|]. repeat split; intros X; discriminate.
    - intros X. left. auto.
    - intros q Hq. congruence.
  Qed.

  (* the op starts: ghost fields *)
  Lemma GoodT_start t th now clock tr :
    GoodT t th now clock tr -> th_k th = [] ->
    GoodT t (set_tshut_issue (set_tissued th now) (th_shutdown th)) now clock tr.
  Proof.
    intros [A B C D E] Hk. constructor; thsimpl; [lia|exact B| |exact D|exact E].
    intros d _. rewrite Hk. split; [left; auto|]. repeat split; intros X; discriminate.
  Qed.

  Lemma GoodT_fresh t now clock tr j :
    0 <= now -> GoodT t (mkThread READY 0 None 0 j false 0 0 [] 0 false 0 false false) now clock tr.
  Proof.
    intros Hn. constructor; simpl; [exact Hn|discriminate| |congruence|discriminate].
    intros d _. split; [left; auto|]. repeat split; intros X; discriminate.
  Qed.

  (* woken by the timer: state SLEEPING -> READY, waitq := None, at a moment when ts <= now *)
  Lemma GoodT_timer_wake t th now clock tr now' :
    GoodT t th now clock tr -> th_state th = SLEEPING -> th_ts th <= now' -> now' <= clock -> now <= now' ->
    GoodT t (set_tstate (set_twaitq th None) READY) now' clock tr.
  Proof.
    intros [A B C D E] Hs Hts Hnc Hnn. specialize (B Hs). constructor; thsimpl; [lia| | |exact D| ].
    - discriminate.
    - intros d Hd. destruct (C d Hd) as (C0 & C1 & C2 & C3). split; [exact C0|]. split; [|split].
      + intros Hk. destruct (C1 Hk) as (X1&X2&X3&X4&X5). repeat split; auto. right; right. lia.
      + intros Hk. destruct (C2 Hk). tauto.
      + intros Hk. destruct (C3 Hk) as (X1&X2&X3&X4&X5). repeat split; auto. right; right. lia.
    - discriminate.
  Qed.

  (* only the clocks move (now' >= now), thread untouched: sleeping threads need clock' <= ts;
     awake threads in [1]/[3] need the clocks unchanged *)
  Lemma GoodT_clock_same t th now clock tr : GoodT t th now clock tr -> GoodT t th now clock tr.
  Proof. auto. Qed.

  Lemma GoodT_now_refresh t th now clock tr :
    GoodT t th now clock tr -> now <= clock -> (th_state th <> SLEEPING -> now = clock) ->
    GoodT t th clock clock tr.
  Proof.
    intros [A B C D E] Hnc Haw. constructor; [lia|exact B| |exact D|exact E].
    intros d Hd. destruct (C d Hd) as (C0 & C1 & C2 & C3). split; [exact C0|]. split; [|split]; auto.
    - intros Hk. destruct (C1 Hk) as (X1&X2&X3&X4&[X5|[X5|X5]]); repeat split; auto.
      right; right. destruct (tstate_eqb_spec (th_state th) SLEEPING) as [Y|Y]; [|rewrite <- (Haw Y); auto].
      specialize (B Y). lia.
    - intros Hk. destruct (C3 Hk) as (X1&X2&X3&X4&[X5|[X5|X5]]); repeat split; auto.
      right; right. destruct (tstate_eqb_spec (th_state th) SLEEPING) as [Y|Y]; [|rewrite <- (Haw Y); auto].
      specialize (B Y). lia.
  Qed.

  (* idle: the clock advances to clock' while the thread sleeps until ts >= clock' *)
  Lemma GoodT_idle_advance t th now clock tr clock' :
    GoodT t th now clock tr -> th_state th = SLEEPING -> clock <= clock' -> clock' <= th_ts th ->
    GoodT t th now clock' tr.
  Proof.
    intros [A B C D E] Hs H1 H2. specialize (B Hs). constructor; [exact A|intros _; lia| |exact D|exact E].
    intros d Hd. destruct (C d Hd) as (C0 & C1 & C2 & C3). split; [exact C0|]. split; [|split]; auto.
    - intros Hk. destruct (C1 Hk) as (X1&X2&X3&X4&X5); repeat split; auto.
    - intros Hk. destruct (C3 Hk) as (X1&X2&X3&X4&X5); repeat split; auto.
  Qed.

End GOOD.
