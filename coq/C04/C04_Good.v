(* C04_Good.v — how the per-thread invariant GoodT reacts to each kind of change of a thread record *)
From Coq Require Import ZArith List Bool Arith Lia Permutation.
From PV Require Import Base.U64 C04.C04_Heap C04.C04_HeapProofs Sched.Core Sched.Prog Sched.Lemmas
                       Sched.Invariant Sched.Effects C04.C04_Inv.
Import ListNotations.
Local Open Scope Z_scope.

Section GOOD.
  Variable progs : list (list (op no_op)).
  Notation GoodT := (GoodT progs).
  Notation cur_op := (cur_op progs).


  (* the three usleep clauses survive any change that keeps the fields they mention and does not
     put the thread to sleep in phase [2] *)
  Definition usleep_clauses (t : tid) (th : thread) (clock : Z) : Prop :=
    forall d, cur_op t th = Some (OCore (OUsleep d)) ->
      (th_k th = [] \/ th_k th = [1] \/ th_k th = [2] \/ th_k th = [3]) /\
      (th_k th = [1] ->
         th_shut_issue th = false /\ expired (th_issued th) (usleep_exp th d) = false /\
         th_ts th = usleep_exp th d /\ clock <= th_ts th /\
         (th_state th = SLEEPING \/ th_err th <> 0 \/ clock = th_ts th)) /\
      (th_k th = [2] -> expired (th_issued th) (usleep_exp th d) = true /\ th_state th <> SLEEPING) /\
      (th_k th = [3] ->
         th_shut_issue th = true /\ expired (th_issued th) (usleep_exp th d) = false /\
         th_ts th = usleep_exp3 th d /\ clock <= th_ts th /\
         (th_state th = SLEEPING \/ th_err th <> 0 \/ clock = th_ts th)).

  Lemma usleep_clauses_k_nil t th clock : th_k th = [] -> usleep_clauses t th clock.
  Proof.
    intros Hk d _. rewrite Hk. split; [left; auto|].
    split; [intros X; discriminate|split; intros X; discriminate].
  Qed.

  Notation fresh := (fresh progs).
  Lemma fresh_same t th th' tr : fresh t th tr -> th_err th' = th_err th -> th_esrc th' = th_esrc th -> fresh t th' tr.
  Proof. intros F E1 E2 e1 Hin Ht Hc. rewrite E1, E2. apply F; auto. Qed.
  Lemma fresh_zero t th th' tr : fresh t th tr -> th_err th' = 0 -> fresh t th' tr.
  Proof. intros F E e1 Hin Ht Hc. destruct (F e1 Hin Ht Hc) as (A & _). split; [exact A|]. intros X. congruence. Qed.
  Lemma fresh_deliver t th th' tr : fresh t th tr -> th_esrc th' = length tr -> fresh t th' tr.
  Proof. intros F E e1 Hin Ht Hc. destruct (F e1 Hin Ht Hc) as (A & _). split; [exact A|]. intros _. rewrite E. exact A. Qed.

  (* READY <-> RUNNING <-> DONE ...: a change of th_state between two non-sleeping values *)
  Lemma GoodT_restate t th now clock tr ns :
    GoodT t th now clock tr -> th_state th <> SLEEPING -> ns <> SLEEPING ->
    (th_k th <> [] -> ns = READY \/ ns = RUNNING) ->
    GoodT t (set_tstate th ns) now clock tr.
  Proof.
    intros [A B C D E F G H] Hs Hns Hk. constructor; thsimpl; [exact A| | |exact D|exact E| |exact G|exact H].
    - intros X; congruence.
    - intros d Hd. destruct (C d Hd) as (C0 & C1 & C2 & C3). split; [exact C0|]. split; [|split].
      + intros Hk1. destruct (C1 Hk1) as (X1&X2&X3&X4&[X5|X5]); repeat split; auto; try tauto.
      + intros Hk1. destruct (C2 Hk1). split; auto.
      + intros Hk1. destruct (C3 Hk1) as (X1&X2&X3&X4&[X5|X5]); repeat split; auto; try tauto.
    - intros X. destruct (Hk X); auto.
  Qed.

  (* a delivery by thread_interrupt / thread_shutdown whose event `ev` is pushed in the same step *)
  Lemma delivers_not_clearing ev t e : delivers progs ev t e -> ~ clearing progs ev.
  Proof.
    intros (_ & [H|(f & H & _)]) ((d & Hd) & _); congruence.
  Qed.

  Lemma GoodT_interrupted t th now clock tr e ev :
    GoodT t th now clock tr -> e <> 0 -> delivers progs ev t e ->
    GoodT t (interrupted th e (length tr)) now clock (ev :: tr).
  Proof.
    intros G0 He Hd.
    assert (Hnc : ev_tid ev = t -> ~ clearing progs ev) by (intros _; eapply delivers_not_clearing; eauto).
    pose proof (GoodT_mono progs _ _ _ _ _ ev G0 Hnc) as G'.
    pose proof (g_fresh _ _ _ _ _ _ G0) as F0.
    unfold interrupted.
    destruct (tstate_eqb_spec (th_state th) READY) as [Es|Hnr].
    - rewrite Es. destruct (th_err th =? 0) eqn:Ee; [|exact G'].
      apply Z.eqb_eq in Ee. destruct G' as [A B C D E F G H].
      constructor; thsimpl; [exact A|exact B| | |exact E|exact F|exact G| ].
      + intros d Hd'. destruct (C d Hd') as (C0 & C1 & C2 & C3). split; [exact C0|]. split; [|split].
        * intros Hk. destruct (C1 Hk) as (X1&X2&X3&X4&[X5|[X5|X5]]); repeat split; auto; congruence.
        * intros Hk. destruct (C2 Hk). split; auto.
        * intros Hk. destruct (C3 Hk) as (X1&X2&X3&X4&[X5|[X5|X5]]); repeat split; auto; congruence.
      + intros _. left. apply src_ok_new; auto.
      + apply fresh_mono; [|exact Hnc]. eapply fresh_deliver; [exact F0|reflexivity].
    - destruct (tstate_eqb_spec (th_state th) SLEEPING) as [Es|Hns].
      + rewrite Es. destruct G' as [A B C D E F G H].
        constructor; thsimpl; [exact A| | | | | |exact G| ].
        * discriminate.
        * intros d Hd'. destruct (C d Hd') as (C0 & C1 & C2 & C3). split; [exact C0|]. split; [|split].
          -- intros Hk. destruct (C1 Hk) as (X1&X2&X3&X4&X5). repeat split; auto.
          -- intros Hk. destruct (C2 Hk). split; auto; try discriminate.
          -- intros Hk. destruct (C3 Hk) as (X1&X2&X3&X4&X5). repeat split; auto.
        * intros _. left. apply src_ok_new; auto.
        * intros q Hq. discriminate.
        * intros _. left; auto.
        * apply fresh_mono; [|exact Hnc]. eapply fresh_deliver; [exact F0|reflexivity].
      + destruct (th_state th); try congruence; exact G'.
  Qed.

  Lemma GoodT_set_shutdown t th now clock tr b : GoodT t th now clock tr -> GoodT t (set_tshutdown th b) now clock tr.
  Proof. intros [A B C D E F G H]. constructor; auto. Qed.
  Lemma GoodT_set_joined t th now clock tr b : GoodT t th now clock tr -> GoodT t (set_tjoined th b) now clock tr.
  Proof. intros [A B C D E F G H]. constructor; auto. Qed.
  Lemma GoodT_set_join_claimed t th now clock tr b : GoodT t th now clock tr -> GoodT t (set_tjoin_claimed th b) now clock tr.
  Proof. intros [A B C D E F G H]. constructor; auto. Qed.
  Lemma GoodT_set_retval t th now clock tr b : GoodT t th now clock tr -> GoodT t (set_tretval th b) now clock tr.
  Proof. intros [A B C D E F G H]. constructor; auto. Qed.

  (* the op starts: ghost fields *)
  Lemma GoodT_start t th now clock tr :
    GoodT t th now clock tr -> th_k th = [] ->
    GoodT t (set_tshut_issue (set_tissued th now) (th_shutdown th)) now clock tr.
  Proof.
    intros [A B C D E F G H] Hk. constructor; thsimpl; [lia|exact B| |exact D|exact E|exact F|exact G|exact H].
    intros d _. split; [left; exact Hk|]. split; [intros X; congruence|split; intros X; congruence].
  Qed.

  Lemma GoodT_fresh t th0 now clock tr j :
    0 <= now -> fresh t th0 tr ->
    GoodT t (mkThread READY 0 None 0 j false 0 0 [] 0 false 0 false false) now clock tr.
  Proof.
    intros Hn F0. constructor; simpl; [lia|discriminate| |congruence|discriminate|congruence|reflexivity| ].
    - apply usleep_clauses_k_nil. reflexivity.
    - eapply fresh_zero; [exact F0|reflexivity].
  Qed.

  (* woken by the timer: state SLEEPING -> READY, waitq := None, at a moment when ts <= now' = clock *)
  Lemma GoodT_timer_wake t th now clock tr :
    GoodT t th now clock tr -> th_state th = SLEEPING -> th_ts th <= clock -> now <= clock ->
    GoodT t (set_tstate (set_twaitq th None) READY) clock clock tr.
  Proof.
    intros [A B C D E F G H] Hs Hts Hnn. specialize (B Hs). constructor; thsimpl; [lia| | |exact D| | |exact G|exact H].
    - discriminate.
    - intros d Hd. destruct (C d Hd) as (C0 & C1 & C2 & C3). split; [exact C0|]. split; [|split].
      + intros Hk. destruct (C1 Hk) as (X1&X2&X3&X4&X5). repeat split; auto. right; right. lia.
      + intros Hk. destruct (C2 Hk). tauto.
      + intros Hk. destruct (C3 Hk) as (X1&X2&X3&X4&X5). repeat split; auto. right; right. lia.
    - discriminate.
    - intros _. left; auto.
  Qed.

  (* photon::now is refreshed (it only grows) *)
  Lemma GoodT_now_ge t th now now' clock tr : GoodT t th now clock tr -> now <= now' -> GoodT t th now' clock tr.
  Proof. intros [A B C D E F G H0] H. constructor; auto. lia. Qed.

  (* idle: the clock advances to clock' while the thread sleeps until ts >= clock' *)
  Lemma GoodT_idle_sleeping t th now clock tr clock' :
    GoodT t th now clock tr -> th_state th = SLEEPING -> clock <= clock' -> clock' <= th_ts th ->
    GoodT t th now clock' tr.
  Proof.
    intros [A B C D E F G H] Hs H1 H2. specialize (B Hs). constructor; [exact A|intros _; lia| |exact D|exact E|exact F|exact G|exact H].
    intros d Hd. destruct (C d Hd) as (C0 & C1 & C2 & C3). split; [exact C0|]. split; [|split]; auto.
    - intros Hk. destruct (C1 Hk) as (X1&X2&X3&X4&X5); repeat split; auto.
    - intros Hk. destruct (C3 Hk) as (X1&X2&X3&X4&X5); repeat split; auto.
  Qed.
  (* ... and threads that do not exist (any more) are in no op *)
  Lemma GoodT_idle_dead t th now clock tr clock' :
    GoodT t th now clock tr -> th_state th <> SLEEPING -> th_state th <> READY -> th_state th <> RUNNING ->
    GoodT t th now clock' tr.
  Proof.
    intros [A B C D E F G H] H1 H2 H3.
    assert (Hk : th_k th = []).
    { destruct (th_k th) eqn:Ek; auto. exfalso. destruct F as [X|[X|X]]; [congruence|auto|auto|auto]. }
    constructor; [exact A|intros X; congruence| |exact D|exact E|intros X; congruence|exact G|exact H].
    apply usleep_clauses_k_nil; auto.
  Qed.

  (* the record of a thread that has just gone to sleep in phase k' of its op *)
  Definition sleep_record (th : thread) (k' : kont) (wq : option qid) (exp : Z) : thread :=
    set_tts (match wq with
             | Some q => set_twaitq (set_tstate (set_tk th k') SLEEPING) (Some q)
             | None => set_tstate (set_tk th k') SLEEPING end) exp.

  Lemma GoodT_sleep_record t th now clock tr k' wq exp :
    GoodT t th now clock tr -> th_waitq th = None -> clock <= exp <= MAX64 -> k' <> [] ->
    usleep_clauses t (sleep_record th k' wq exp) clock ->
    (th_err th <> 0 -> src_ok progs tr t (th_err th) (th_esrc th)) ->
    (forall q, wq = Some q -> exists j, q = QJoin j /\ cur_op t th = Some (OCore (OJoin j)) /\ k' = [1]) ->
    (t <> 0%nat -> cur_op t th <> None) ->
    GoodT t (sleep_record th k' wq exp) now clock tr.
  Proof.
    intros [A B C D E F G H] Hw Hexp Hk' Hcl Hsrc Hwq Hend.
    assert (P : forall (X : Type) (p : thread -> X),
              (forall x s, p (set_tstate x s) = p x) -> (forall x q, p (set_twaitq x q) = p x) ->
              (forall x v, p (set_tts x v) = p x) -> (forall x v, p (set_tk x v) = p x) ->
              p (sleep_record th k' wq exp) = p th).
    { intros X p P1 P2 P3 P4. unfold sleep_record. rewrite P3. destruct wq; rewrite ?P2, P1, P4; reflexivity. }
    assert (Hst : th_state (sleep_record th k' wq exp) = SLEEPING) by (unfold sleep_record; destruct wq; reflexivity).
    assert (Hts : th_ts (sleep_record th k' wq exp) = exp) by (unfold sleep_record; destruct wq; reflexivity).
    assert (Hk : th_k (sleep_record th k' wq exp) = k') by (unfold sleep_record; destruct wq; reflexivity).
    assert (Hwq' : th_waitq (sleep_record th k' wq exp) = wq).
    { unfold sleep_record. destruct wq; thsimpl; auto. }
    assert (Hcur : cur_op t (sleep_record th k' wq exp) = cur_op t th).
    { unfold cur_op. rewrite (P _ th_pc) by (intros; reflexivity). reflexivity. }
    constructor.
    - rewrite (P _ th_issued) by (intros; reflexivity). exact A.
    - intros _. rewrite Hts. exact Hexp.
    - exact Hcl.
    - rewrite (P _ th_err), (P _ th_esrc) by (intros; reflexivity). intros X. left. apply Hsrc. exact X.
    - intros q. rewrite Hwq', Hcur, Hk. apply Hwq.
    - intros _. right; right. exact Hst.
    - intros H0 Hn. rewrite Hcur in Hn. exfalso. apply (Hend H0). exact Hn.
    - eapply fresh_same; [exact H| |]; rewrite ?(P _ th_err), ?(P _ th_esrc) by (intros; reflexivity); reflexivity.
  Qed.

  (* the record of a thread that has just yielded in phase k' of its op *)
  Definition yield_record (th : thread) (k' : kont) : thread := set_tstate (set_terr (set_tk th k') 0) READY.

  Lemma GoodT_yield_record t th now clock tr k' :
    GoodT t th now clock tr -> th_waitq th = None -> th_state th <> SLEEPING ->
    usleep_clauses t (yield_record th k') clock -> (t <> 0%nat -> cur_op t th <> None) ->
    GoodT t (yield_record th k') now clock tr.
  Proof.
    intros [A B C D E F G H] Hw Hs Hcl Hend. unfold yield_record in *.
    constructor; thsimpl.
    - exact A.
    - discriminate.
    - exact Hcl.
    - intros X. exfalso. apply X. reflexivity.
    - intros q Hq. congruence.
    - intros _. left. reflexivity.
    - intros H0 Hn. exfalso. apply (Hend H0). exact Hn.
    - eapply fresh_zero; [exact H|reflexivity].
  Qed.

End GOOD.
