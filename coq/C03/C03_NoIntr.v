(* C03_NoIntr.v — "notified => wait returns 0" for interrupt-free programs (the property's own quantifier
   domain): a waiter picked by notify keeps error_number = -1 until it resumes, in every interleaving.
   (With thread_interrupt in the picture this is refuted: C03_IntrRace.v.) *)
From Coq Require Import ZArith List Bool Arith Lia.
From PV Require Import Base.U64 C04.C04_Heap C03.C03_Model C03.C03_WF C03.C03_Proofs C03.C03_Queue C03.C03_Notify C03.C03_Result.
Import ListNotations.
Local Open Scope Z_scope.

Definition intr_pc (p : pc) : Prop :=
  match p with
  | PInLock _ _ | PInLocked _ _ | PInUnlock _ _ _ | PInOut _ _ _ | PInWrite _ _ => True
  | _ => False
  end.
Definition intr_op (o : op) : Prop := match o with OInterrupt _ _ => True | _ => False end.

Record NE (s : state) : Prop := mkNE {
  ne_prog : forall t o, In o (prog (th s t)) -> ~ intr_op o;
  ne_pc : forall t, ~ intr_pc (tpc (th s t));
  ne_err : forall t c l n, tpc (th s t) = PWaitSlept c l -> wk (th s t) = WNotified n -> err (th s t) = -1
}.

Definition ne_mono (s s' : state) : Prop :=
  forall y, prog (th s' y) = prog (th s y) /\ tpc (th s' y) = tpc (th s y) /\ err (th s' y) = err (th s y) /\
            (forall n, wk (th s' y) = WNotified n -> wk (th s y) = WNotified n).
Lemma nm_refl s : ne_mono s s. Proof. intros y. repeat split; auto. Qed.
Lemma nm_trans a b c : ne_mono a b -> ne_mono b c -> ne_mono a c.
Proof.
  intros A B y. destruct (A y) as (a1 & a2 & a3 & a4), (B y) as (b1 & b2 & b3 & b4).
  repeat split; try congruence. intros n H. eauto.
Qed.
Lemma NE_frame s s' : ne_mono s s' -> NE s -> NE s'.
Proof.
  intros M N. constructor.
  - intros t o H. destruct (M t) as (E & _). rewrite E in H. eapply (ne_prog s N); eauto.
  - intros t. destruct (M t) as (_ & E & _). rewrite E. apply (ne_pc s N).
  - intros t c l n H1 H2. destruct (M t) as (_ & E1 & E2 & E3). rewrite E1 in H1. rewrite E2. eapply (ne_err s N); eauto.
Qed.
Definition nekeeps (f : thr -> thr) : Prop :=
  forall r, prog (f r) = prog r /\ tpc (f r) = tpc r /\ err (f r) = err r /\ (forall n, wk (f r) = WNotified n -> wk r = WNotified n).
Lemma nm_updT s t f : nekeeps f -> ne_mono s (updT s t f).
Proof.
  intros K y. rewrite th_updT. destruct (Nat.eqb y t) eqn:E; [apply Nat.eqb_eq in E; subst; apply K|repeat split; auto].
Qed.
Lemma nm_updV s v g : ne_mono s (updV s v g). Proof. intros y. repeat split; auto. Qed.
Lemma nm_lown s f : ne_mono s (s_lown s f). Proof. intros y. repeat split; auto. Qed.
Lemma nm_now s f : ne_mono s (s_now s f). Proof. intros y. repeat split; auto. Qed.
Lemma nm_bad s : ne_mono s (s_bad s). Proof. intros y. repeat split; auto. Qed.
Lemma nm_wqs s f : ne_mono s (s_wqs s f). Proof. intros y. repeat split; auto. Qed.
Ltac nk := let r := fresh in intros r; repeat split; auto; try (intros; discriminate).
Lemma nk_st v : nekeeps (fun r => t_st r v). Proof. intros r. repeat split; auto. Qed.
Lemma nk_lk v : nekeeps (fun r => t_lk r v). Proof. intros r. repeat split; auto. Qed.
Lemma nk_held v : nekeeps (fun r => t_held r v). Proof. intros r. repeat split; auto. Qed.
Lemma nk_wqo v : nekeeps (fun r => t_wqo r v). Proof. intros r. repeat split; auto. Qed.
Lemma nm_set_held s t l b : ne_mono s (set_held s t l b). Proof. apply nm_updT; nk. Qed.
Lemma nm_set_running s v : ne_mono s (set_running s v).
Proof. unfold set_running. destruct (runq (vc s v)) as [|[t|] r]; try apply nm_refl. apply nm_updT; nk. Qed.
Lemma nm_rotate s v : ne_mono s (rotate s v).
Proof.
  unfold rotate. destruct (runq (vc s v)) as [|e r]; [apply nm_refl|].
  eapply nm_trans; [|apply nm_set_running]. eapply nm_trans; [|apply nm_updV].
  destruct e; [apply nm_updT; nk|apply nm_refl].
Qed.
Lemma nm_prepare s v t q e : ne_mono s (prepare_usleep s v t q e).
Proof.
  unfold prepare_usleep. eapply nm_trans; [|apply nm_set_running]. eapply nm_trans; [|apply nm_updV].
  eapply nm_trans; [apply nm_updV with (g := fun x => v_runq x (tl (runq x)))|].
  eapply nm_trans; [apply nm_updT with (f := fun r => t_wk (t_ts (t_st r SLEEPING) e) WNone); intros r; repeat split; auto; simpl; discriminate|].
  destruct q; [|apply nm_refl]. eapply nm_trans; [apply nm_wqs|]. apply nm_updT; nk.
Qed.
Lemma nm_dequeue s x ns : ne_mono s (dequeue s x ns).
Proof.
  unfold dequeue. eapply nm_trans; [|apply nm_updT; nk].
  destruct (wqo (th s x)); [|apply nm_refl]. eapply nm_trans; [apply nm_wqs|]. apply nm_updT; nk.
Qed.
Lemma nm_wake_by s va x : ne_mono s (wake_by s va x).
Proof.
  unfold wake_by. destruct (Nat.eqb _ va).
  - unfold rq_append. eapply nm_trans; [|apply nm_updV]. eapply nm_trans; [|apply nm_updV]. apply nm_dequeue.
  - eapply nm_trans; [|apply nm_updV]. apply nm_dequeue.
Qed.
Lemma nm_eject v : forall l s cnt, ne_mono s (fst (eject s v l cnt)).
Proof.
  induction l as [|x r IH]; intros s cnt; simpl; [apply nm_refl|].
  eapply nm_trans; [|apply IH]. eapply nm_trans; [apply nm_updT with (f := fun y => t_st y READY); nk|].
  eapply nm_trans; [apply nm_updV|]. unfold rq_append. apply nm_updV.
Qed.

Ltac nm_peel :=
  repeat match goal with
  | |- ne_mono ?a ?a => apply nm_refl
  | |- ne_mono _ (s_bad _) => eapply nm_trans; [|apply nm_bad]
  | |- ne_mono _ (rotate _ _) => eapply nm_trans; [|apply nm_rotate]
  | |- ne_mono _ (prepare_usleep _ _ _ _ _) => eapply nm_trans; [|apply nm_prepare]
  | |- ne_mono _ (wake_by _ _ _) => eapply nm_trans; [|apply nm_wake_by]
  | |- ne_mono _ (set_running _ _) => eapply nm_trans; [|apply nm_set_running]
  | |- ne_mono _ (set_held _ _ _ _) => eapply nm_trans; [|apply nm_set_held]
  | |- ne_mono _ (rq_append _ _ _) => eapply nm_trans; [|apply nm_updV]
  | |- ne_mono _ (dequeue _ _ _) => eapply nm_trans; [|apply nm_dequeue]
  | |- ne_mono _ (s_lown _ _) => eapply nm_trans; [|apply nm_lown]
  | |- ne_mono _ (updV _ _ _) => eapply nm_trans; [|apply nm_updV]
  | |- ne_mono _ (updT _ _ _) => eapply nm_trans; [|apply nm_updT; nk]
  end.
Ltac ne_frame N := eapply NE_frame; [|exact N]; nm_peel.

(* pc / prog / err updates of the stepping thread *)
Lemma NE_set_pc s t p : NE s -> ~ intr_pc p -> (forall c l, p <> PWaitSlept c l) -> NE (set_pc s t p).
Proof.
  intros N Hp Hw. unfold set_pc. constructor.
  - intros y o H. rewrite th_updT in H. destruct (Nat.eqb_spec y t); subst; simpl in H; eapply (ne_prog s N); eauto.
  - intros y. rewrite th_updT. destruct (Nat.eqb_spec y t); subst; simpl; auto. apply (ne_pc s N).
  - intros y c l n H1 H2. rewrite th_updT in *. destruct (Nat.eqb_spec y t); subst; simpl in *.
    + exfalso. eapply Hw; eauto.
    + eapply (ne_err s N); eauto.
Qed.
Lemma NE_finish s t a b : NE s -> NE (finish_op s t a b).
Proof.
  intros N. unfold finish_op. constructor.
  - intros y o H. rewrite th_updT in H. destruct (Nat.eqb_spec y t); subst; simpl in H.
    + eapply (ne_prog s N t). destruct (prog (th s t)); simpl in *; auto.
    + eapply (ne_prog s N); eauto.
  - intros y. rewrite th_updT. destruct (Nat.eqb_spec y t); subst; simpl; auto. apply (ne_pc s N).
  - intros y c l n H1 H2. rewrite th_updT in *. destruct (Nat.eqb_spec y t); subst; simpl in *; [discriminate|].
    eapply (ne_err s N); eauto.
Qed.
(* error_number of the stepping thread t is rewritten while its pc is not PWaitSlept, or together with a pc change *)
Lemma NE_set_err_pc s t e p : NE s -> ~ intr_pc p -> (forall c l, p <> PWaitSlept c l) ->
  NE (set_pc (updT s t (fun x => t_err x e)) t p).
Proof.
  intros N Hp Hw. unfold set_pc. constructor.
  - intros y o H. rewrite !th_updT in H. destruct (Nat.eqb_spec y t); subst; simpl in H; [rewrite Nat.eqb_refl in H; simpl in H|]; eapply (ne_prog s N); eauto.
  - intros y. rewrite !th_updT. destruct (Nat.eqb_spec y t); subst; simpl; auto. apply (ne_pc s N).
  - intros y c l n H1 H2. rewrite !th_updT in *. destruct (Nat.eqb_spec y t); subst; simpl in *.
    + exfalso. eapply Hw; eauto.
    + eapply (ne_err s N); eauto.
Qed.
Lemma NEx_take_err s t a b s1 : NE s -> take_err s t = (a, b, s1) ->
  (forall p, ~ intr_pc p -> (forall c l, p <> PWaitSlept c l) -> NE (set_pc s1 t p)) /\
  (forall x y, NE (finish_op s1 t x y)).
Proof.
  intros N H. unfold take_err in H. destruct (err (th s t) =? 0); inversion H; subst.
  - split; intros; [apply NE_set_pc|apply NE_finish]; auto.
  - split.
    + intros p Hp Hw. now apply NE_set_err_pc.
    + intros x y. assert (X : NE (set_pc (updT s t (fun x => t_err x 0)) t PIdle)) by (apply NE_set_err_pc; auto; discriminate).
      constructor.
      * intros z o Hz. unfold finish_op in Hz. rewrite !th_updT in Hz. destruct (Nat.eqb_spec z t); subst; simpl in Hz.
        -- try (rewrite Nat.eqb_refl in Hz; simpl in Hz). Show. eapply (ne_prog s N t). destruct (prog (th s t)); simpl in *; auto.
        -- eapply (ne_prog s N); eauto.
      * intros z. unfold finish_op. rewrite !th_updT. destruct (Nat.eqb_spec z t); subst; simpl; auto. apply (ne_pc s N).
      * intros z c l n H1 H2. unfold finish_op in *. rewrite !th_updT in *. destruct (Nat.eqb_spec z t); subst; simpl in *; [discriminate|].
        eapply (ne_err s N); eauto.
Qed.

Lemma NE_set_err_cur s t e : NE s -> (forall c l, tpc (th s t) <> PWaitSlept c l) -> NE (updT s t (fun x => t_err x e)).
Proof.
  intros N Hw. constructor.
  - intros y o H. rewrite th_updT in H. destruct (Nat.eqb_spec y t); subst; simpl in H; eapply (ne_prog s N); eauto.
  - intros y. rewrite th_updT. destruct (Nat.eqb_spec y t); subst; simpl; apply (ne_pc s N).
  - intros y c l n H1 H2. rewrite th_updT in *. destruct (Nat.eqb_spec y t); subst; simpl in *.
    + exfalso. eapply Hw; eauto.
    + eapply (ne_err s N); eauto.
Qed.
Lemma NE_set_woken s x w : NE s -> NE (updT s x (fun y => t_wk (t_err y (-1)) w)).
Proof.
  intros N. constructor.
  - intros y o H. rewrite th_updT in H. destruct (Nat.eqb_spec y x); subst; simpl in H; eapply (ne_prog s N); eauto.
  - intros y. rewrite th_updT. destruct (Nat.eqb_spec y x); subst; simpl; apply (ne_pc s N).
  - intros y c l n H1 H2. rewrite th_updT in *. destruct (Nat.eqb_spec y x); subst; simpl in *; auto.
    eapply (ne_err s N); eauto.
Qed.

Lemma NE_lock_done s t l k r en : NE s -> NE (lock_done s t l k r en).
Proof.
  intros N. unfold lock_done. destruct k.
  - destruct (r =? 0); apply NE_finish; auto. ne_frame N.
  - destruct (r =? 0).
    + destruct (translate ret en0). apply NE_finish. ne_frame N.
    + apply NE_set_pc; auto. discriminate.
Qed.
Lemma NE_mutex_unlock s va l s' : NE s -> mutex_unlock s va l = Some s' -> NE s'.
Proof.
  intros N H. unfold mutex_unlock in H. destruct (wqs s (WMx l)) as [|h q].
  - inversion H; subst. ne_frame N.
  - destruct (lk (th s h)); [discriminate|]. inversion H; subst.
    eapply NE_frame; [apply nm_wake_by|]. apply NE_set_woken. ne_frame N.
Qed.
Lemma NE_do_unlock s va l s' : NE s -> do_unlock s va l = Some s' -> NE s'.
Proof.
  intros N H. unfold do_unlock in H. destruct (lkd s l); [eapply NE_mutex_unlock; eauto|]. inversion H; subst. ne_frame N.
Qed.
Lemma NE_lock_try s v t l k s' : NE s -> lock_try s v t l k = Some s' -> NE s'.
Proof.
  intros N H. unfold lock_try in H. destruct (lown s l).
  - destruct (lkd s l); [|discriminate]. destruct (lk (th s t)); [discriminate|]. inversion H; subst.
    apply NE_set_pc; [ne_frame N|auto|discriminate].
  - inversion H; subst. apply NE_lock_done. ne_frame N.
Qed.
Lemma NE_yield s v t p : NE s -> (forall c l, tpc (th s t) <> PWaitSlept c l) -> ~ intr_pc p -> (forall c l, p <> PWaitSlept c l) ->
  NE (set_pc (rotate (updT s t (fun x => t_err x 0)) v) t p).
Proof.
  intros N Hc Hp Hw. apply NE_set_pc; auto. eapply NE_frame; [apply nm_rotate|]. now apply NE_set_err_cur.
Qed.
Lemma NE_notify_read s t c all n : NE s -> NE (notify_read s t c all n).
Proof.
  intros N. unfold notify_read. destruct (wqs s (WCv c)); [destruct all; now apply NE_finish|].
  apply NE_set_pc; auto. discriminate.
Qed.

Lemma NE_op_step s v t o os s' : NE s -> tpc (th s t) = PIdle -> prog (th s t) = o :: os -> op_step s v t o = Some s' -> NE s'.
Proof.
  intros N P Pr H.
  assert (Hc : forall c l, tpc (th s t) <> PWaitSlept c l) by (intros; rewrite P; discriminate).
  destruct o; simpl in H.
  - destruct (_ && _ && _); inversion H; subst; apply NE_finish; auto. ne_frame N.
  - inversion H; subst. apply NE_yield; auto. discriminate.
  - destruct (_ || _).
    + inversion H; subst. apply NE_yield; auto. discriminate.
    + destruct (lk (th s t)); [discriminate|]. inversion H; subst. apply NE_set_pc; [ne_frame N|auto|discriminate].
  - exfalso. eapply (ne_prog s N t (OInterrupt k e)); [rewrite Pr; now left|exact I].
  - destruct (held (th s t) l); [inversion H; subst; now apply NE_finish|]. eapply NE_lock_try; eauto.
  - destruct (held (th s t) l); [|inversion H; subst; now apply NE_finish].
    destruct (do_unlock s v l) eqn:U; [|discriminate]. inversion H; subst.
    apply NE_finish. eapply NE_frame; [apply nm_set_held|]. eapply NE_do_unlock; eauto.
  - destruct (held (th s t) l); [|inversion H; subst; now apply NE_finish].
    destruct (lk (th s t)); [discriminate|]. inversion H; subst.
    (* the new pc is PWaitSlept, with wk = WNone set by prepare_usleep *)
    unfold set_pc. constructor.
    + intros y o Hy. rewrite th_updT, th_updV in Hy. destruct (nm_prepare s v t (Some (WCv c)) (expiration_of s d) y) as (E1 & _).
      destruct (Nat.eqb_spec y t); subst; simpl in Hy; rewrite E1 in Hy; eapply (ne_prog s N); eauto.
    + intros y. rewrite th_updT, th_updV. destruct (nm_prepare s v t (Some (WCv c)) (expiration_of s d) y) as (_ & E2 & _).
      destruct (Nat.eqb_spec y t); subst; simpl; auto. rewrite E2. apply (ne_pc s N).
    + intros y c0 l0 n H1 H2. rewrite th_updT, th_updV in *.
      destruct (Nat.eqb_spec y t); subst; simpl in *.
      * exfalso. destruct (pu_facts s v t (Some (WCv c)) (expiration_of s d)) as (_ & (_ & _ & Fw & _) & _). congruence.
      * destruct (nm_prepare s v t (Some (WCv c)) (expiration_of s d) y) as (_ & E2 & E3 & E4).
        rewrite E2 in H1. rewrite E3. eapply (ne_err s N); eauto.
  - inversion H; subst. now apply NE_notify_read.
  - inversion H; subst. now apply NE_notify_read.
  - inversion H; subst. now apply NE_finish.
Qed.
