(* C03_NoIntr.v — "notified => wait returns 0" for interrupt-free programs (the property's own quantifier
   domain): a waiter picked by notify keeps error_number = -1 until it resumes, in every interleaving.
   (With thread_interrupt in the picture this is refuted: C03_IntrRace.v.) *)
From Coq Require Import ZArith List Bool Arith Lia.
From PV Require Import Base.U64 C04.C04_Heap C03.C03_Model C03.C03_WF C03.C03_Proofs C03.C03_Queue C03.C03_Notify C03.C03_Result.
Import ListNotations.
Local Open Scope Z_scope.

Definition intr_pc (p : pc) : Prop :=
  match p with
  | PInLock _ _ | PInLocked _ _ | PInUnlock _ _ _ | PInOut _ _ _ | PInWrite _ _ => True
  | _ => False
  end.
Definition intr_op (o : op) : Prop := match o with OInterrupt _ _ => True | _ => False end.

Record NE (s : state) : Prop := mkNE {
  ne_prog : forall t o, In o (prog (th s t)) -> ~ intr_op o;
  ne_pc : forall t, ~ intr_pc (tpc (th s t));
  ne_err : forall t c l n, tpc (th s t) = PWaitSlept c l -> wk (th s t) = WNotified n -> err (th s t) = -1
}.

Definition ne_mono (s s' : state) : Prop :=
  forall y, prog (th s' y) = prog (th s y) /\ tpc (th s' y) = tpc (th s y) /\ err (th s' y) = err (th s y) /\
            (forall n, wk (th s' y) = WNotified n -> wk (th s y) = WNotified n).
Lemma nm_refl s : ne_mono s s. Proof. intros y. repeat split; auto. Qed.
Lemma nm_trans a b c : ne_mono a b -> ne_mono b c -> ne_mono a c.
Proof.
  intros A B y. destruct (A y) as (a1 & a2 & a3 & a4), (B y) as (b1 & b2 & b3 & b4).
  repeat split; try congruence. intros n H. eauto.
Qed.
Lemma NE_frame s s' : ne_mono s s' -> NE s -> NE s'.
Proof.
  intros M N. constructor.
  - intros t o H. destruct (M t) as (E & _). rewrite E in H. eapply (ne_prog s N); eauto.
  - intros t. destruct (M t) as (_ & E & _). rewrite E. apply (ne_pc s N).
  - intros t c l n H1 H2. destruct (M t) as (_ & E1 & E2 & E3). rewrite E1 in H1. rewrite E2. eapply (ne_err s N); eauto.
Qed.
Definition nekeeps (f : thr -> thr) : Prop :=
  forall r, prog (f r) = prog r /\ tpc (f r) = tpc r /\ err (f r) = err r /\ (forall n, wk (f r) = WNotified n -> wk r = WNotified n).
Lemma nm_updT s t f : nekeeps f -> ne_mono s (updT s t f).
Proof.
  intros K y. rewrite th_updT. destruct (Nat.eqb y t) eqn:E; [apply Nat.eqb_eq in E; subst; apply K|repeat split; auto].
Qed.
Lemma nm_updV s v g : ne_mono s (updV s v g). Proof. intros y. repeat split; auto. Qed.
Lemma nm_lown s f : ne_mono s (s_lown s f). Proof. intros y. repeat split; auto. Qed.
Lemma nm_now s f : ne_mono s (s_now s f). Proof. intros y. repeat split; auto. Qed.
Lemma nm_bad s : ne_mono s (s_bad s). Proof. intros y. repeat split; auto. Qed.
Lemma nm_wqs s f : ne_mono s (s_wqs s f). Proof. intros y. repeat split; auto. Qed.
Ltac nk := let r := fresh in intros r; repeat split; auto; try (intros; discriminate).
Lemma nk_st v : nekeeps (fun r => t_st r v). Proof. intros r. repeat split; auto. Qed.
Lemma nk_lk v : nekeeps (fun r => t_lk r v). Proof. intros r. repeat split; auto. Qed.
Lemma nk_held v : nekeeps (fun r => t_held r v). Proof. intros r. repeat split; auto. Qed.
Lemma nk_wqo v : nekeeps (fun r => t_wqo r v). Proof. intros r. repeat split; auto. Qed.
Lemma nm_set_held s t l b : ne_mono s (set_held s t l b). Proof. apply nm_updT; nk. Qed.
Lemma nm_set_running s v : ne_mono s (set_running s v).
Proof. unfold set_running. destruct (runq (vc s v)) as [|[t|] r]; try apply nm_refl. apply nm_updT; nk. Qed.
Lemma nm_rotate s v : ne_mono s (rotate s v).
Proof.
  unfold rotate. destruct (runq (vc s v)) as [|e r]; [apply nm_refl|].
  eapply nm_trans; [|apply nm_set_running]. eapply nm_trans; [|apply nm_updV].
  destruct e; [apply nm_updT; nk|apply nm_refl].
Qed.
Lemma nm_prepare s v t q e : ne_mono s (prepare_usleep s v t q e).
Proof.
  unfold prepare_usleep. eapply nm_trans; [|apply nm_set_running]. eapply nm_trans; [|apply nm_updV].
  eapply nm_trans; [apply nm_updV with (g := fun x => v_runq x (tl (runq x)))|].
  eapply nm_trans; [apply nm_updT with (f := fun r => t_wk (t_ts (t_st r SLEEPING) e) WNone); intros r; repeat split; auto; simpl; discriminate|].
  destruct q; [|apply nm_refl]. eapply nm_trans; [apply nm_wqs|]. apply nm_updT; nk.
Qed.
Lemma nm_dequeue s x ns : ne_mono s (dequeue s x ns).
Proof.
  unfold dequeue. eapply nm_trans; [|apply nm_updT; nk].
  destruct (wqo (th s x)); [|apply nm_refl]. eapply nm_trans; [apply nm_wqs|]. apply nm_updT; nk.
Qed.
Lemma nm_wake_by s va x : ne_mono s (wake_by s va x).
Proof.
  unfold wake_by. destruct (Nat.eqb _ va).
  - unfold rq_append. eapply nm_trans; [|apply nm_updV]. eapply nm_trans; [|apply nm_updV]. apply nm_dequeue.
  - eapply nm_trans; [|apply nm_updV]. apply nm_dequeue.
Qed.
Lemma nm_eject v : forall l s cnt, ne_mono s (fst (eject s v l cnt)).
Proof.
  induction l as [|x r IH]; intros s cnt; simpl; [apply nm_refl|].
  eapply nm_trans; [|apply IH]. eapply nm_trans; [apply nm_updT with (f := fun y => t_st y READY); nk|].
  eapply nm_trans; [apply nm_updV|]. unfold rq_append. apply nm_updV.
Qed.

Ltac nm_peel :=
  repeat match goal with
  | |- ne_mono ?a ?a => apply nm_refl
  | |- ne_mono _ (s_bad _) => eapply nm_trans; [|apply nm_bad]
  | |- ne_mono _ (rotate _ _) => eapply nm_trans; [|apply nm_rotate]
  | |- ne_mono _ (prepare_usleep _ _ _ _ _) => eapply nm_trans; [|apply nm_prepare]
  | |- ne_mono _ (wake_by _ _ _) => eapply nm_trans; [|apply nm_wake_by]
  | |- ne_mono _ (set_running _ _) => eapply nm_trans; [|apply nm_set_running]
  | |- ne_mono _ (set_held _ _ _ _) => eapply nm_trans; [|apply nm_set_held]
  | |- ne_mono _ (rq_append _ _ _) => eapply nm_trans; [|apply nm_updV]
  | |- ne_mono _ (dequeue _ _ _) => eapply nm_trans; [|apply nm_dequeue]
  | |- ne_mono _ (s_lown _ _) => eapply nm_trans; [|apply nm_lown]
  | |- ne_mono _ (updV _ _ _) => eapply nm_trans; [|apply nm_updV]
  | |- ne_mono _ (updT _ _ _) => eapply nm_trans; [|apply nm_updT; nk]
  end.
Ltac ne_frame N := eapply NE_frame; [|exact N]; nm_peel.

(* pc / prog / err updates of the stepping thread t: NEx = NE without the error-number clause for t *)
Definition NEx (s : state) (t : tid) : Prop :=
  (forall y o, In o (prog (th s y)) -> ~ intr_op o) /\ (forall y, ~ intr_pc (tpc (th s y))) /\
  (forall y c l n, y <> t -> tpc (th s y) = PWaitSlept c l -> wk (th s y) = WNotified n -> err (th s y) = -1).
Lemma NE_NEx s t : NE s -> NEx s t.
Proof. intros N. split; [apply (ne_prog s N)|split; [apply (ne_pc s N)|]]. intros y c l n _. apply (ne_err s N). Qed.
Lemma NEx_frame s s' t : ne_mono s s' -> NEx s t -> NEx s' t.
Proof.
  intros M (A & B & C). split; [|split].
  - intros y o H. destruct (M y) as (E & _). rewrite E in H. eauto.
  - intros y. destruct (M y) as (_ & E & _). rewrite E. auto.
  - intros y c l n Hy H1 H2. destruct (M y) as (_ & E1 & E2 & E3). rewrite E1 in H1. rewrite E2. eauto.
Qed.
Lemma NEx_set_err s t e : NEx s t -> NEx (updT s t (fun x => t_err x e)) t.
Proof.
  intros (A & B & C). split; [|split].
  - intros y o H. rewrite th_updT in H. destruct (Nat.eqb_spec y t); subst; simpl in H; eauto.
  - intros y. rewrite th_updT. destruct (Nat.eqb_spec y t); subst; simpl; auto.
  - intros y c l n Hy H1 H2. rewrite th_updT in *. destruct (Nat.eqb_spec y t); subst; [congruence|]. eauto.
Qed.
Lemma NEx_set_pc s t p : NEx s t -> ~ intr_pc p -> (forall c l, p <> PWaitSlept c l) -> NE (set_pc s t p).
Proof.
  intros (A & B & C) Hp Hw. unfold set_pc. constructor.
  - intros y o H. rewrite th_updT in H. destruct (Nat.eqb_spec y t); subst; simpl in H; eauto.
  - intros y. rewrite th_updT. destruct (Nat.eqb_spec y t); subst; simpl; auto.
  - intros y c l n H1 H2. rewrite th_updT in *. destruct (Nat.eqb_spec y t); subst; simpl in *.
    + exfalso. eapply Hw; eauto.
    + eauto.
Qed.
Lemma NEx_finish s t a b : NEx s t -> NE (finish_op s t a b).
Proof.
  intros (A & B & C). unfold finish_op. constructor.
  - intros y o H. rewrite th_updT in H. destruct (Nat.eqb_spec y t); subst; simpl in H.
    + apply (A t). destruct (prog (th s t)); simpl in *; auto.
    + eauto.
  - intros y. rewrite th_updT. destruct (Nat.eqb_spec y t); subst; simpl; auto.
  - intros y c l n H1 H2. rewrite th_updT in *. destruct (Nat.eqb_spec y t); subst; simpl in *; [discriminate|]. eauto.
Qed.
Lemma NE_set_pc s t p : NE s -> ~ intr_pc p -> (forall c l, p <> PWaitSlept c l) -> NE (set_pc s t p).
Proof. intros N. apply NEx_set_pc. now apply NE_NEx. Qed.
Lemma NE_finish s t a b : NE s -> NE (finish_op s t a b).
Proof. intros N. apply NEx_finish. now apply NE_NEx. Qed.
Lemma NEx_take_err s t a b s1 : NE s -> take_err s t = (a, b, s1) -> NEx s1 t.
Proof.
  intros N H. unfold take_err in H. destruct (err (th s t) =? 0); inversion H; subst.
  - now apply NE_NEx.
  - apply NEx_set_err. now apply NE_NEx.
Qed.

Lemma NE_set_woken s x w : NE s -> NE (updT s x (fun y => t_wk (t_err y (-1)) w)).
Proof.
  intros N. constructor.
  - intros y o H. rewrite th_updT in H. destruct (Nat.eqb_spec y x); subst; simpl in H; eapply (ne_prog s N); eauto.
  - intros y. rewrite th_updT. destruct (Nat.eqb_spec y x); subst; simpl; apply (ne_pc s N).
  - intros y c l n H1 H2. rewrite th_updT in *. destruct (Nat.eqb_spec y x); subst; simpl in *; auto.
    eapply (ne_err s N); eauto.
Qed.

Lemma NE_lock_done s t l k r en : NE s -> NE (lock_done s t l k r en).
Proof.
  intros N. unfold lock_done. destruct k.
  - destruct (r =? 0); apply NE_finish; auto. ne_frame N.
  - destruct (r =? 0).
    + destruct (translate ret en0). apply NE_finish. ne_frame N.
    + apply NE_set_pc; auto. discriminate.
Qed.
Lemma NE_mutex_unlock s va l s' : NE s -> mutex_unlock s va l = Some s' -> NE s'.
Proof.
  intros N H. unfold mutex_unlock in H. destruct (wqs s (WMx l)) as [|h q].
  - inversion H; subst. ne_frame N.
  - destruct (lk (th s h)); [discriminate|]. inversion H; subst.
    eapply NE_frame; [apply nm_wake_by|]. apply NE_set_woken. ne_frame N.
Qed.
Lemma NE_do_unlock s va l s' : NE s -> do_unlock s va l = Some s' -> NE s'.
Proof.
  intros N H. unfold do_unlock in H. destruct (lkd s l); [eapply NE_mutex_unlock; eauto|]. inversion H; subst. ne_frame N.
Qed.
Lemma NE_lock_try s v t l k s' : NE s -> lock_try s v t l k = Some s' -> NE s'.
Proof.
  intros N H. unfold lock_try in H. destruct (lown s l).
  - destruct (lkd s l); [|discriminate]. destruct (lk (th s t)); [discriminate|]. inversion H; subst.
    apply NE_set_pc; [ne_frame N|auto|discriminate].
  - inversion H; subst. apply NE_lock_done. ne_frame N.
Qed.
Lemma NE_yield s v t p : NE s -> ~ intr_pc p -> (forall c l, p <> PWaitSlept c l) ->
  NE (set_pc (rotate (updT s t (fun x => t_err x 0)) v) t p).
Proof.
  intros N Hp Hw. apply NEx_set_pc; auto. eapply NEx_frame; [apply nm_rotate|]. apply NEx_set_err. now apply NE_NEx.
Qed.
Lemma NE_notify_read s t c all n : NE s -> NE (notify_read s t c all n).
Proof.
  intros N. unfold notify_read. destruct (wqs s (WCv c)); [destruct all; now apply NE_finish|].
  apply NE_set_pc; auto. discriminate.
Qed.

Lemma NE_op_step s v t o os s' : NE s -> tpc (th s t) = PIdle -> prog (th s t) = o :: os -> op_step s v t o = Some s' -> NE s'.
Proof.
  intros N P Pr H.
  assert (Hc : forall c l, tpc (th s t) <> PWaitSlept c l) by (intros; rewrite P; discriminate).
  destruct o; simpl in H.
  - destruct (_ && _ && _); inversion H; subst; apply NE_finish; auto. ne_frame N.
  - inversion H; subst. apply NE_yield; auto. discriminate.
  - destruct (_ || _).
    + inversion H; subst. apply NE_yield; auto. discriminate.
    + destruct (lk (th s t)); [discriminate|]. inversion H; subst. apply NE_set_pc; [ne_frame N|auto|discriminate].
  - exfalso. eapply (ne_prog s N t (OInterrupt k e)); [rewrite Pr; now left|exact I].
  - destruct (held (th s t) l); [inversion H; subst; now apply NE_finish|]. eapply NE_lock_try; eauto.
  - destruct (held (th s t) l); [|inversion H; subst; now apply NE_finish].
    destruct (do_unlock s v l) eqn:U; [|discriminate]. inversion H; subst.
    apply NE_finish. eapply NE_frame; [apply nm_set_held|]. eapply NE_do_unlock; eauto.
  - destruct (held (th s t) l); [|inversion H; subst; now apply NE_finish].
    destruct (lk (th s t)); [discriminate|]. inversion H; subst.
    (* the new pc is PWaitSlept, with wk = WNone set by prepare_usleep *)
    unfold set_pc. constructor.
    + intros y o Hy. rewrite th_updT, th_updV in Hy. destruct (nm_prepare s v t (Some (WCv c)) (expiration_of s d) y) as (E1 & _).
      destruct (Nat.eqb_spec y t); subst; simpl in Hy; rewrite E1 in Hy; eapply (ne_prog s N); eauto.
    + intros y. rewrite th_updT, th_updV. destruct (nm_prepare s v t (Some (WCv c)) (expiration_of s d) y) as (_ & E2 & _).
      destruct (Nat.eqb_spec y t); subst; simpl; auto. rewrite E2. apply (ne_pc s N).
    + intros y c0 l0 n H1 H2. rewrite th_updT, th_updV in *.
      destruct (Nat.eqb_spec y t); subst; simpl in *.
      * exfalso. destruct (pu_facts s v t (Some (WCv c)) (expiration_of s d)) as (_ & (_ & _ & Fw & _) & _). congruence.
      * destruct (nm_prepare s v t (Some (WCv c)) (expiration_of s d) y) as (_ & E2 & E3 & E4).
        rewrite E2 in H1. rewrite E3. eapply (ne_err s N); eauto.
  - inversion H; subst. now apply NE_notify_read.
  - inversion H; subst. now apply NE_notify_read.
  - inversion H; subst. now apply NE_finish.
Qed.

Lemma NE_thread_step s v t s' : NE s -> thread_step s v t = Some s' -> NE s'.
Proof.
  intros N H. unfold thread_step in H. pose proof (ne_pc s N t) as Np.
  destruct (tpc (th s t)) eqn:P; try (exfalso; exact (Np I)).
  - destruct (prog (th s t)) as [|o os] eqn:Pr; [|eapply NE_op_step; eauto].
    destruct (lk (th s t)); [discriminate|]. destruct (Nat.ltb t (nvc s)); inversion H; subst.
    + apply NE_set_pc; [ne_frame N|auto|discriminate].
    + ne_frame N.
  - destruct as_sleep; [destruct (err (th s t) =? 0)|]; inversion H; subst; now apply NE_finish.
  - destruct (take_err s t) as [[a b] s1] eqn:T. inversion H; subst. apply NEx_finish. eapply NEx_take_err; eauto.
  - destruct (lk (th s t)); [discriminate|]. destruct (take_err s t) as [[a b] s1] eqn:T. inversion H; subst.
    apply NEx_set_pc; [|auto|discriminate]. eapply NEx_frame; [apply nm_prepare|]. eapply NEx_take_err; eauto.
  - destruct (take_err s t) as [[a b] s1] eqn:T. inversion H; subst.
    apply NEx_set_pc; [eapply NEx_take_err; eauto|auto|discriminate].
  - eapply NE_lock_try; eauto.
  - destruct (take_err s t) as [[a b] s1] eqn:T. pose proof (NEx_take_err _ _ _ _ _ N T) as N1.
    assert (LD : forall r0 e0, NE (lock_done s1 t l k r0 e0)).
    { intros r0 e0. unfold lock_done. destruct k.
      - destruct (r0 =? 0); apply NEx_finish; auto. eapply NEx_frame; [apply nm_set_held|exact N1].
      - destruct (r0 =? 0).
        + destruct (translate ret en). apply NEx_finish. eapply NEx_frame; [apply nm_set_held|exact N1].
        + apply NEx_set_pc; auto. discriminate. }
    destruct ((a <? 0) && (b =? -1)).
    + destruct (lown s1 l) as [o|]; [destruct (Nat.eqb o t)|]; inversion H; subst; auto;
        (apply NEx_set_pc; [exact N1|auto|discriminate]).
    + destruct (translate a b). inversion H; subst. auto.
  - destruct (sat_add (now s) 1000 <=? now s).
    + inversion H; subst. apply NE_yield; auto. discriminate.
    + destruct (lk (th s t)); [discriminate|]. inversion H; subst. apply NE_set_pc; [ne_frame N|auto|discriminate].
  - destruct (take_err s t) as [[a b] s1] eqn:T. inversion H; subst.
    apply NEx_set_pc; [eapply NEx_take_err; eauto|auto|discriminate].
  - inversion H; subst. now apply NE_notify_read.
  - destruct (lk (th s x)); [discriminate|]. inversion H; subst. apply NE_set_pc; [ne_frame N|auto|discriminate].
  - destruct (wqs s (WCv c)) as [|h q]; [|destruct (Nat.eqb h x)]; inversion H; subst; (apply NE_set_pc; [auto|auto|discriminate]).
  - inversion H; subst. apply NE_set_pc; [ne_frame N|auto|discriminate].
  - destruct (tstate_eqb (st (th s x)) SLEEPING); inversion H; subst; (apply NE_set_pc; [|auto|discriminate]).
    + eapply NE_frame; [apply nm_wake_by|]. now apply NE_set_woken.
    + ne_frame N.
  - destruct all; inversion H; subst; [apply NE_set_pc; [ne_frame N|auto|discriminate]|apply NE_finish; ne_frame N].
Qed.

Lemma nm_idle_decide s v cnt : ne_mono s (idle_decide s v cnt).
Proof. unfold idle_decide. destruct (_ || _); nm_peel. Qed.

Lemma NE_idler_step s v s' : NE s -> idler_step s v = Some s' -> NE s'.
Proof.
  intros N H. unfold idler_step in H. destruct (vipc (vc s v)).
  - destruct (eject (updV s v (fun y => v_sbq y [])) v (sbq (vc s v)) 0) as [s1 cnt] eqn:Ej. inversion H; subst.
    eapply NE_frame; [|exact N]. eapply nm_trans; [|apply nm_updV].
    change s1 with (fst (s1, cnt)). rewrite <- Ej. eapply nm_trans; [|apply nm_eject]. apply nm_updV.
  - destruct (front (slq (vc s v))) as [x|]; [|inversion H; subst; eapply NE_frame; [apply nm_idle_decide|exact N]].
    destruct (now s <? ts (th s x)); [inversion H; subst; eapply NE_frame; [apply nm_idle_decide|exact N]|].
    destruct (lk (th s x)); [discriminate|].
    match type of H with context [tstate_eqb ?a SLEEPING] => destruct (tstate_eqb a SLEEPING) end; inversion H; subst.
    + eapply NE_frame; [|exact N]. nm_peel.
    + eapply NE_frame; [apply nm_updV|exact N].
  - inversion H; subst. eapply NE_frame; [apply nm_updV|exact N].
Qed.

Lemma NE_vstep s v s' : NE s -> vstep s v = Some s' -> NE s'.
Proof.
  intros N H. unfold vstep in H. destruct (pend (vc s v)) as [[w l]|].
  - destruct (do_unlock s v l) eqn:U; [|discriminate]. inversion H; subst.
    eapply NE_frame; [eapply nm_trans; [apply nm_set_held|apply nm_updV]|]. eapply NE_do_unlock; eauto.
  - destruct (runq (vc s v)) as [|[t|] r]; [discriminate| |].
    + eapply NE_thread_step; eauto.
    + eapply NE_idler_step; eauto.
Qed.

Definition interrupt_free (progs : tid -> list op) : Prop := forall k o, In o (progs k) -> ~ intr_op o.

Theorem NE_reachable nv kinds home progs s : interrupt_free progs -> Reach nv kinds home progs s -> NE s.
Proof.
  intros Hf. induction 1 as [|s a s' R IH H].
  - constructor; simpl.
    + intros t o H. destruct (Nat.ltb t nv); simpl in H; eapply Hf; eauto.
    + intros t. destruct (Nat.ltb t nv); simpl; auto.
    + intros t c l n H. destruct (Nat.ltb t nv); simpl in H; discriminate.
  - destruct a; simpl in H.
    + eapply NE_vstep; eauto.
    + inversion H; subst. eapply NE_frame; [apply nm_now|exact IH].
Qed.

(* cv_wait_result, the remaining half, for interrupt-free programs: a waiter picked by notify_one /
   notify_all resumes with errno -1, so its wait() returns 0 *)
Theorem cv_notified_returns_0 nv kinds home progs s t c l n :
  interrupt_free progs -> Reach nv kinds home progs s ->
  tpc (th s t) = PWaitSlept c l -> wk (th s t) = WNotified n ->
  let '(ret, en, _) := take_err s t in translate ret en = (0, 0).
Proof.
  intros Hf R P Hw. pose proof (ne_err s (NE_reachable _ _ _ _ _ Hf R) _ _ _ _ P Hw) as He.
  unfold take_err. rewrite He. simpl. reflexivity.
Qed.
