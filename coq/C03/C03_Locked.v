(* C03_Locked.v — cv_wait_returns_locked, strong form: the step that completes a wait() (the re-lock loop of
   cvar_do_wait delivers its result to the caller) leaves the lock owned by the waiter, in every interleaving. *)
From Coq Require Import ZArith List Bool Arith Lia.
From PV Require Import Base.U64 C04.C04_Heap C03.C03_Model C03.C03_WF C03.C03_Proofs.
Import ListNotations.
Local Open Scope Z_scope.

Lemma lock_done_idle s t l c ret en r e :
  tpc (th (lock_done s t l (KWait c ret en) r e) t) = PIdle ->
  held (th (lock_done s t l (KWait c ret en) r e) t) l = true.
Proof.
  unfold lock_done. destruct (r =? 0).
  - destruct (translate ret en). intros _. unfold finish_op, set_held. simpl. unfold updf.
    rewrite ?Nat.eqb_refl. simpl. rewrite ?Nat.eqb_refl. simpl. rewrite ?Nat.eqb_refl. reflexivity.
  - unfold set_pc. rewrite th_updT_same. simpl. discriminate.
Qed.

Lemma lock_done_idle0 S t l ret en :
  held (th (let '(a, b) := translate ret en in finish_op (set_held S t l true) t a b) t) l = true.
Proof.
  destruct (translate ret en). unfold finish_op, set_held. simpl. unfold updf.
  rewrite ?Nat.eqb_refl. simpl. rewrite ?Nat.eqb_refl. simpl. rewrite ?Nat.eqb_refl. reflexivity.
Qed.

Ltac held_done :=
  try (now apply lock_done_idle);
  try (match goal with |- context [translate ?a ?b] => destruct (translate a b) end;
       unfold finish_op, set_held; simpl; unfold updf;
       repeat (rewrite Nat.eqb_refl; simpl); reflexivity).

Theorem cv_wait_returns_locked_strong nv kinds home progs s v t r l c ret en s' :
  Reach nv kinds home progs s -> runq (vc s v) = Th t :: r -> pend (vc s v) = None ->
  (tpc (th s t) = PLockTry l (KWait c ret en) \/ tpc (th s t) = PLockSlept l (KWait c ret en)) ->
  vstep s v = Some s' -> tpc (th s' t) = PIdle ->
  held (th s' t) l = true /\ lown s' l = Some t.
Proof.
  intros R E Pn P H Hi.
  assert (R' : Reach nv kinds home progs s') by (eapply reach_step; [exact R|]; exact (H : step s (LV v) = Some s')).
  assert (Hh : held (th s' t) l = true).
  { unfold vstep in H. rewrite Pn, E in H. unfold thread_step in H. destruct P as [P|P]; rewrite P in H.
    - unfold lock_try in H. destruct (lown s l).
      + destruct (lkd s l); [|discriminate]. destruct (lk (th s t)); [discriminate|]. inversion H; subst.
        unfold set_pc in Hi. rewrite th_updT_same in Hi. simpl in Hi. discriminate.
      + inversion H; subst. held_done.
    - destruct (take_err s t) as [[a b] s1]. destruct ((a <? 0) && (b =? -1)).
      + destruct (lown s1 l) as [o|]; [destruct (Nat.eqb o t)|]; inversion H; subst;
          try held_done; unfold set_pc in Hi; rewrite th_updT_same in Hi; simpl in Hi; discriminate.
      + destruct (translate a b) as [x y]. inversion H; subst. apply (lock_done_idle s1 t l c ret en x y). exact Hi. }
  split; auto. eapply li_ho; eauto. eapply LI_reachable; eauto.
Qed.
