(* C03_Queue.v — the queue side of "no lost notification": a thread that has executed the enqueue
   block of wait(c,l) and that nobody has woken (ghost wk = WNone) is a member of c's wait queue,
   in every reachable state. *)
From Coq Require Import ZArith List Bool Arith Lia.
From PV Require Import Base.U64 C04.C04_Heap C03.C03_Model C03.C03_WF C03.C03_Proofs.
Import ListNotations.
Local Open Scope Z_scope.

Definition WK (s : state) : Prop :=
  forall t c l, tpc (th s t) = PWaitSlept c l -> wk (th s t) = WNone -> In t (wqs s (WCv c)).

(* frame: pcs and wake ghosts unchanged, queues only grow *)
Definition wk_mono (s s' : state) : Prop :=
  (forall y, tpc (th s' y) = tpc (th s y) /\ wk (th s' y) = wk (th s y)) /\
  (forall q y, In y (wqs s q) -> In y (wqs s' q)).
Lemma wm_refl s : wk_mono s s. Proof. split; auto. Qed.
Lemma wm_trans a b c : wk_mono a b -> wk_mono b c -> wk_mono a c.
Proof.
  intros (A1 & A2) (B1 & B2). split.
  - intros y. destruct (A1 y), (B1 y). split; congruence.
  - auto.
Qed.
Lemma WK_frame s s' : wk_mono s s' -> WK s -> WK s'.
Proof.
  intros (A1 & A2) K t c l Hp Hw. destruct (A1 t) as [E1 E2]. rewrite E1 in Hp. rewrite E2 in Hw. eauto.
Qed.

Definition wkeeps (f : thr -> thr) : Prop := forall r, tpc (f r) = tpc r /\ wk (f r) = wk r.
Lemma wm_updT s t f : wkeeps f -> wk_mono s (updT s t f).
Proof.
  intros K. split; auto. intros y. rewrite th_updT. destruct (Nat.eqb y t) eqn:E; auto.
  apply Nat.eqb_eq in E. subst. apply K.
Qed.
Lemma wm_updV s v g : wk_mono s (updV s v g). Proof. split; auto. Qed.
Lemma wm_set_running s v : wk_mono s (set_running s v).
Proof. unfold set_running. destruct (runq (vc s v)) as [|[t|] r]; try apply wm_refl. apply wm_updT. intros r0; auto. Qed.
Lemma wm_rotate s v : wk_mono s (rotate s v).
Proof.
  unfold rotate. destruct (runq (vc s v)) as [|e r]; [apply wm_refl|].
  eapply wm_trans; [|apply wm_set_running]. eapply wm_trans; [|apply wm_updV].
  destruct e; [apply wm_updT; intros x; auto|apply wm_refl].
Qed.
Lemma wm_lown s f : wk_mono s (s_lown s f). Proof. split; auto. Qed.
Lemma wm_now s f : wk_mono s (s_now s f). Proof. split; auto. Qed.
Lemma wm_bad s : wk_mono s (s_bad s). Proof. split; auto. Qed.
Lemma wm_set_held s t l b : wk_mono s (set_held s t l b).
Proof. apply wm_updT. intros r; auto. Qed.
Lemma wm_take_err s t a b s1 : take_err s t = (a, b, s1) -> wk_mono s s1.
Proof.
  unfold take_err. destruct (err (th s t) =? 0); intros H; inversion H; subst; [apply wm_refl|].
  apply wm_updT. intros r; auto.
Qed.
Lemma wm_eject v : forall l s cnt, wk_mono s (fst (eject s v l cnt)).
Proof.
  induction l as [|x r IH]; intros s cnt; simpl; [apply wm_refl|].
  eapply wm_trans; [|apply IH].
  eapply wm_trans; [apply wm_updT with (f := fun y => t_st y READY); intros y; auto|].
  eapply wm_trans; [apply wm_updV|]. unfold rq_append. apply wm_updV.
Qed.

(* pc changes of the stepping thread *)
Lemma WK_set_pc s t p : (forall c l, p <> PWaitSlept c l) -> WK s -> WK (set_pc s t p).
Proof.
  intros Hp K y c l H1 H2. unfold set_pc in *. rewrite th_updT in H1, H2. rewrite wqs_updT.
  destruct (Nat.eqb y t) eqn:E; [simpl in H1; exfalso; eapply Hp; eauto|]. eauto.
Qed.
Lemma WK_finish s t a b : WK s -> WK (finish_op s t a b).
Proof.
  intros K y c l H1 H2. unfold finish_op in *. rewrite th_updT in H1, H2. rewrite wqs_updT.
  destruct (Nat.eqb y t) eqn:E; [simpl in H1; discriminate|]. simpl. eauto.
Qed.
Lemma WK_set_pc_wait s t c l : In t (wqs s (WCv c)) -> WK s -> WK (set_pc s t (PWaitSlept c l)).
Proof.
  intros Hi K y c' l' H1 H2. unfold set_pc in *. rewrite th_updT in H1, H2. rewrite wqs_updT.
  destruct (Nat.eqb y t) eqn:E; [simpl in H1; inversion H1; subst; apply Nat.eqb_eq in E; subst; auto|]. eauto.
Qed.

(* prepare_usleep by a thread whose pc is not PWaitSlept *)
Lemma pu_other s v t q e y : y <> t ->
  tpc (th (prepare_usleep s v t q e) y) = tpc (th s y) /\ wk (th (prepare_usleep s v t q e) y) = wk (th s y).
Proof.
  intros Hy. unfold prepare_usleep.
  match goal with |- context [set_running ?S v] => destruct (wm_set_running S v) as [A _]; destruct (A y) as [-> ->] end.
  rewrite th_updV. destruct q; simpl; unfold updf; apply Nat.eqb_neq in Hy; rewrite ?Hy; auto.
Qed.
Lemma pu_tpc s v t q e y : tpc (th (prepare_usleep s v t q e) y) = tpc (th s y).
Proof. pose proof (so_ctl _ _ y (so_prepare_usleep s v t q e)) as E. unfold ctl in E. now inversion E. Qed.
Lemma pu_wqs_mono s v t q e w y : In y (wqs s w) -> In y (wqs (prepare_usleep s v t q e) w).
Proof.
  intros H. unfold prepare_usleep.
  match goal with |- context [set_running ?S v] => destruct (wm_set_running S v) as [_ A]; apply A end.
  rewrite wqs_updV. destruct q as [w0|]; simpl; auto. unfold updq. destruct (wq_eqb_spec w w0); subst; auto.
  apply in_or_app. now left.
Qed.
Lemma pu_wqs_in s v t w e : In t (wqs (prepare_usleep s v t (Some w) e) w).
Proof.
  unfold prepare_usleep.
  match goal with |- context [set_running ?S v] => destruct (wm_set_running S v) as [_ A]; apply A end.
  rewrite wqs_updV. simpl. rewrite updq_same. apply in_or_app. right. now left.
Qed.
Lemma WK_prepare s v t q e : (forall c l, tpc (th s t) <> PWaitSlept c l) -> WK s -> WK (prepare_usleep s v t q e).
Proof.
  intros Hp K y c l H1 H2. rewrite pu_tpc in H1.
  destruct (Nat.eq_dec y t); subst; [exfalso; eapply Hp; eauto|].
  destruct (pu_other s v t q e y n) as [_ E]. rewrite E in H2. apply pu_wqs_mono. eauto.
Qed.

(* waking x whose ghost says "woken" *)
Lemma wb_fields s va x y : tpc (th (wake_by s va x) y) = tpc (th s y) /\ wk (th (wake_by s va x) y) = wk (th s y).
Proof.
  unfold wake_by. destruct (Nat.eqb _ va); proj;
    (destruct (Nat.eq_dec y x); subst; [pose proof (dequeue_x s x) as D; first [destruct (D READY) as (_ & _ & _ & _ & -> & _ & -> & _)|destruct (D STANDBY) as (_ & _ & _ & _ & -> & _ & -> & _)]; auto
                                        |rewrite dequeue_th_other; auto]).
Qed.
Lemma wb_wqs s va x q y : WF s -> (In y (wqs (wake_by s va x) q) <-> In y (wqs s q) /\ y <> x).
Proof. intros W. unfold wake_by. destruct (Nat.eqb _ va); proj; apply dequeue_wqs; auto. Qed.
Lemma WK_wake s va x : WF s -> wk (th s x) <> WNone -> WK s -> WK (wake_by s va x).
Proof.
  intros W Hx K y c l H1 H2. destruct (wb_fields s va x y) as [E1 E2]. rewrite E1 in H1. rewrite E2 in H2.
  apply wb_wqs; auto. split; eauto. intros ->. auto.
Qed.

Lemma WK_set_wk s x e w : w <> WNone -> WK s -> WK (updT s x (fun y => t_wk (t_err y e) w)).
Proof.
  intros Hw K y c l H1 H2. rewrite th_updT in H1, H2. rewrite wqs_updT.
  destruct (Nat.eqb y x) eqn:E; [simpl in H2; congruence|]. eauto.
Qed.
Lemma th_set_wk_x s x e w : wk (th (updT s x (fun y => t_wk (t_err y e) w)) x) = w.
Proof. rewrite th_updT_same. reflexivity. Qed.

Ltac wm_peel :=
  repeat match goal with
  | |- wk_mono ?a ?a => apply wm_refl
  | |- wk_mono _ (s_bad _) => eapply wm_trans; [|apply wm_bad]
  | |- wk_mono _ (rotate _ _) => eapply wm_trans; [|apply wm_rotate]
  | |- wk_mono _ (set_running _ _) => eapply wm_trans; [|apply wm_set_running]
  | |- wk_mono _ (set_held _ _ _ _) => eapply wm_trans; [|apply wm_set_held]
  | |- wk_mono _ (rq_append _ _ _) => eapply wm_trans; [|apply wm_updV]
  | |- wk_mono _ (s_lown _ _) => eapply wm_trans; [|apply wm_lown]
  | |- wk_mono _ (updT _ _ _) => eapply wm_trans; [|apply wm_updT; intros ?; split; reflexivity]
  | |- wk_mono _ (updV _ _ _) => eapply wm_trans; [|apply wm_updV]
  end.
Ltac wk_frame K := eapply WK_frame; [|exact K]; wm_peel.

Lemma WK_lock_done s t l k r en : WK s -> WK (lock_done s t l k r en).
Proof.
  intros K. unfold lock_done. destruct k.
  - destruct (r =? 0); apply WK_finish; auto. wk_frame K.
  - destruct (r =? 0).
    + destruct (translate ret en0). apply WK_finish. wk_frame K.
    + apply WK_set_pc; auto. discriminate.
Qed.

Lemma WK_mutex_unlock s va l s' : WF s -> WK s -> mutex_unlock s va l = Some s' -> WK s'.
Proof.
  intros W K H. unfold mutex_unlock in H. destruct (wqs s (WMx l)) as [|h q] eqn:E.
  - inversion H; subst. wk_frame K.
  - destruct (lk (th s h)); [discriminate|]. inversion H; subst. clear H.
    apply WK_wake.
    + apply WF_updT; [apply keeps_wkerr|]. now apply WF_lown.
    + rewrite th_set_wk_x. discriminate.
    + apply WK_set_wk; [discriminate|]. wk_frame K.
Qed.
Lemma WK_do_unlock s va l s' : WF s -> WK s -> do_unlock s va l = Some s' -> WK s'.
Proof.
  intros W K H. unfold do_unlock in H. destruct (lkd s l).
  - eapply WK_mutex_unlock; eauto.
  - inversion H; subst. wk_frame K.
Qed.

Lemma WK_lock_try s v t l k s' : WK s -> (forall c l0, tpc (th s t) <> PWaitSlept c l0) ->
  lock_try s v t l k = Some s' -> WK s'.
Proof.
  intros K Hp H. unfold lock_try in H. destruct (lown s l).
  - destruct (lkd s l); [|discriminate]. destruct (lk (th s t)); [discriminate|]. inversion H; subst.
    apply WK_set_pc; [discriminate|]. apply WK_prepare; auto.
  - inversion H; subst. apply WK_lock_done. wk_frame K.
Qed.

Lemma WK_yield s v t p : (forall c l, p <> PWaitSlept c l) -> WK s -> WK (set_pc (rotate (updT s t (fun x => t_err x 0)) v) t p).
Proof. intros Hp K. apply WK_set_pc; auto. wk_frame K. Qed.

Lemma WK_notify_read s t c all n : WK s -> WK (notify_read s t c all n).
Proof.
  intros K. unfold notify_read. destruct (wqs s (WCv c)); [destruct all; now apply WK_finish|].
  apply WK_set_pc; auto. discriminate.
Qed.

Lemma WK_op_step s v t o s' : WF s -> WK s -> tpc (th s t) = PIdle -> op_step s v t o = Some s' -> WK s'.
Proof.
  intros W K P H.
  assert (Hp : forall c l0, tpc (th s t) <> PWaitSlept c l0) by (intros; rewrite P; discriminate).
  destruct o; simpl in H.
  - destruct (_ && _ && _); inversion H; subst; apply WK_finish; auto. wk_frame K.
  - inversion H; subst. apply WK_yield; auto. discriminate.
  - destruct (_ || _).
    + inversion H; subst. apply WK_yield; auto. discriminate.
    + destruct (lk (th s t)); [discriminate|]. inversion H; subst.
      apply WK_set_pc; [discriminate|]. now apply WK_prepare.
  - destruct (alive s k && (0 <? e)).
    + destruct (tstate_eqb (st (th s k)) SLEEPING); inversion H; subst; (apply WK_set_pc; [discriminate|auto]).
    + inversion H; subst. now apply WK_finish.
  - destruct (held (th s t) l); [inversion H; subst; now apply WK_finish|]. eapply WK_lock_try; eauto.
  - destruct (held (th s t) l); [|inversion H; subst; now apply WK_finish].
    destruct (do_unlock s v l) eqn:U; [|discriminate]. inversion H; subst.
    apply WK_finish. eapply WK_frame; [apply wm_set_held|]. eapply WK_do_unlock; eauto.
  - destruct (held (th s t) l); [|inversion H; subst; now apply WK_finish].
    destruct (lk (th s t)); [discriminate|]. inversion H; subst.
    apply WK_set_pc_wait.
    + rewrite wqs_updV. apply pu_wqs_in.
    + eapply WK_frame; [apply wm_updV|]. now apply WK_prepare.
  - inversion H; subst. now apply WK_notify_read.
  - inversion H; subst. now apply WK_notify_read.
  - inversion H; subst. now apply WK_finish.
Qed.

Lemma WK_take_err s t a b s1 : WK s -> take_err s t = (a, b, s1) -> WK s1.
Proof. intros K H. eapply WK_frame; [eapply wm_take_err; eauto|exact K]. Qed.
Lemma take_err_tpc s t a b s1 y : take_err s t = (a, b, s1) -> tpc (th s1 y) = tpc (th s y).
Proof. intros H. destruct (wm_take_err _ _ _ _ _ H) as [A _]. apply A. Qed.

Lemma WK_thread_step s v t s' : WF s -> WK s -> thread_step s v t = Some s' -> WK s'.
Proof.
  intros W K H. unfold thread_step in H.
  destruct (tpc (th s t)) eqn:P.
  - destruct (prog (th s t)) as [|o os]; [|eapply WK_op_step; eauto].
    destruct (lk (th s t)); [discriminate|]. destruct (Nat.ltb t (nvc s)); inversion H; subst.
    + apply WK_set_pc; [discriminate|]. apply WK_prepare; auto. intros; rewrite P; discriminate.
    + wk_frame K.
  - destruct as_sleep; [destruct (err (th s t) =? 0)|]; inversion H; subst; now apply WK_finish.
  - destruct (take_err s t) as [[a b] s1] eqn:T. inversion H; subst. apply WK_finish. eapply WK_take_err; eauto.
  - destruct (lk (th s t)); [discriminate|]. destruct (take_err s t) as [[a b] s1] eqn:T. inversion H; subst.
    apply WK_set_pc; [discriminate|]. apply WK_prepare; [|eapply WK_take_err; eauto].
    intros c l. erewrite take_err_tpc; eauto. rewrite P. discriminate.
  - destruct (take_err s t) as [[a b] s1] eqn:T. inversion H; subst.
    apply WK_set_pc; [discriminate|]. eapply WK_take_err; eauto.
  - eapply WK_lock_try; eauto. intros; rewrite P; discriminate.
  - destruct (take_err s t) as [[a b] s1] eqn:T. pose proof (WK_take_err _ _ _ _ _ K T) as K1.
    destruct ((a <? 0) && (b =? -1)).
    + destruct (lown s1 l) as [o|]; [destruct (Nat.eqb o t)|]; inversion H; subst;
        try apply WK_lock_done; try (apply WK_set_pc; [discriminate|]); auto.
    + destruct (translate a b). inversion H; subst. now apply WK_lock_done.
  - destruct (sat_add (now s) 1000 <=? now s).
    + inversion H; subst. apply WK_yield; auto. discriminate.
    + destruct (lk (th s t)); [discriminate|]. inversion H; subst.
      apply WK_set_pc; [discriminate|]. apply WK_prepare; auto. intros; rewrite P; discriminate.
  - destruct (take_err s t) as [[a b] s1] eqn:T. inversion H; subst.
    apply WK_set_pc; [discriminate|]. eapply WK_take_err; eauto.
  - inversion H; subst. now apply WK_notify_read.
  - destruct (lk (th s x)); [discriminate|]. inversion H; subst. apply WK_set_pc; [discriminate|]. wk_frame K.
  - destruct (wqs s (WCv c)) as [|h q]; [|destruct (Nat.eqb h x)]; inversion H; subst; (apply WK_set_pc; [discriminate|auto]).
  - inversion H; subst. apply WK_set_pc; [discriminate|]. wk_frame K.
  - destruct (tstate_eqb_spec (st (th s x)) SLEEPING) as [Hs|Hs]; inversion H; subst; (apply WK_set_pc; [discriminate|]).
    + apply WK_wake.
      * apply WF_updT; auto. apply keeps_wkerr.
      * rewrite th_set_wk_x. discriminate.
      * apply WK_set_wk; auto. discriminate.
    + wk_frame K.
  - destruct all; inversion H; subst; [apply WK_set_pc; [discriminate|]|apply WK_finish]; wk_frame K.
  - destruct (lk (th s k)); [discriminate|]. inversion H; subst. apply WK_set_pc; [discriminate|]. wk_frame K.
  - destruct (tstate_eqb_spec (st (th s k)) SLEEPING) as [Hs|Hs]; [destruct (0 <? e)|]; simpl in H; inversion H; subst; (apply WK_set_pc; [discriminate|]); auto.
    apply WK_wake.
    + apply WF_updT; auto. apply keeps_wkerr.
    + rewrite th_set_wk_x. discriminate.
    + apply WK_set_wk; auto. discriminate.
  - destruct o; inversion H; subst; [apply WK_set_pc; [discriminate|]|apply WK_finish]; wk_frame K.
  - destruct (tstate_eqb _ READY && (err (th s k) =? 0)); inversion H; subst; [apply WK_set_pc; [discriminate|auto]|now apply WK_finish].
  - destruct (0 <? e); inversion H; subst; apply WK_finish; auto. wk_frame K.
Qed.

Lemma wm_idle_decide s v cnt : wk_mono s (idle_decide s v cnt).
Proof. unfold idle_decide. destruct (_ || _); wm_peel. Qed.

(* the time-out wake-up: dequeue, then wk := WTimeout *)
Lemma WK_timeout s v x c : WF s -> WK s ->
  WK (updV (rq_append (updT (dequeue s x READY) x (fun y => t_wk y WTimeout)) v x) v (fun y => v_ipc y c)).
Proof.
  intros W K y c0 l H1 H2. rewrite th_updV, th_rq_append in H1, H2. rewrite wqs_updV, wqs_rq_append, wqs_updT.
  rewrite th_updT in H1, H2. destruct (Nat.eqb_spec y x); subst; [simpl in H2; discriminate|].
  rewrite dequeue_th_other in H1, H2; auto. apply dequeue_wqs; [exact W|]. split; [eapply K; eauto|auto].
Qed.

Lemma WK_idler_step s v s' : WF s -> WK s -> idler_step s v = Some s' -> WK s'.
Proof.
  intros W K H. unfold idler_step in H. destruct (vipc (vc s v)).
  - destruct (eject (updV s v (fun y => v_sbq y [])) v (sbq (vc s v)) 0) as [s1 cnt] eqn:Ej. inversion H; subst.
    eapply WK_frame; [|exact K]. eapply wm_trans; [|apply wm_updV].
    change s1 with (fst (s1, cnt)). rewrite <- Ej. eapply wm_trans; [|apply wm_eject]. apply wm_updV.
  - destruct (front (slq (vc s v))) as [x|]; [|inversion H; subst; eapply WK_frame; [apply wm_idle_decide|exact K]].
    destruct (now s <? ts (th s x)); [inversion H; subst; eapply WK_frame; [apply wm_idle_decide|exact K]|].
    destruct (lk (th s x)); [discriminate|].
    match type of H with context [tstate_eqb ?a SLEEPING] => destruct (tstate_eqb a SLEEPING) end; inversion H; subst.
    + apply WK_timeout.
      * apply WF_slq; auto. intros y Hy. left. now apply pop_front_sub in Hy.
      * eapply WK_frame; [apply wm_updV|exact K].
    + eapply WK_frame; [apply wm_updV|exact K].
  - inversion H; subst. eapply WK_frame; [apply wm_updV|exact K].
Qed.

Lemma WK_vstep s v s' : WF s -> WK s -> vstep s v = Some s' -> WK s'.
Proof.
  intros W K H. unfold vstep in H. destruct (pend (vc s v)) as [[w l]|].
  - destruct (do_unlock s v l) eqn:U; [|discriminate]. inversion H; subst.
    eapply WK_frame; [eapply wm_trans; [apply wm_set_held|apply wm_updV]|]. eapply WK_do_unlock; eauto.
  - destruct (runq (vc s v)) as [|[t|] r]; [discriminate| |].
    + eapply WK_thread_step; eauto.
    + eapply WK_idler_step; eauto.
Qed.

Theorem WK_reachable nv kinds home progs s : Reach nv kinds home progs s -> WK s.
Proof.
  induction 1 as [|s a s' R IH H].
  - intros t c l H. simpl in H. destruct (Nat.ltb t nv); discriminate.
  - pose proof (WF_reachable _ _ _ _ _ R) as W. destruct a; simpl in H.
    + eapply WK_vstep; eauto.
    + inversion H; subst. eapply WK_frame; [apply wm_now|exact IH].
Qed.

(* cv_no_lost_notify: N owns the lock l; every other thread W that has called wait(c,l) and has not been
   woken (by a notification, its timer or an interrupt) IS on c's queue — so N's notify_one, which reads
   the queue head, cannot find the queue empty because of W *)
Theorem cv_no_lost_notify nv kinds home progs s N W c l :
  Reach nv kinds home progs s -> lown s l = Some N -> N <> W ->
  (wait_called s W c l \/ wait_enqueued s W c l) -> wk (th s W) = WNone \/ wait_called s W c l ->
  wait_enqueued s W c l /\ (wk (th s W) = WNone -> In W (wqs s (WCv c))).
Proof.
  intros R Ho Hne Hw _.
  assert (Hq : wait_enqueued s W c l).
  { destruct Hw as [Hc|]; auto. exfalso. eapply cv_notifier_excludes_unqueued_waiter; eauto. }
  split; auto. intros Hk. eapply WK_reachable; eauto.
Qed.

(* cv_atomic_release: there is no reachable state in which a waiter of wait(c,l) has given up the lock
   (lown l <> Some t) and is neither on the queue nor already woken *)
Theorem cv_atomic_release nv kinds home progs s t c l :
  Reach nv kinds home progs s -> (wait_called s t c l \/ wait_enqueued s t c l) ->
  lown s l <> Some t -> wait_enqueued s t c l /\ (In t (wqs s (WCv c)) \/ wk (th s t) <> WNone).
Proof.
  intros R Hw Hn.
  assert (Hq : wait_enqueued s t c l).
  { destruct Hw as [Hc|]; auto. exfalso. apply Hn. eapply cv_lock_kept_until_enqueued; eauto. }
  split; auto. destruct (wk (th s t)) eqn:E; try (right; discriminate). left. eapply WK_reachable; eauto.
Qed.
