(* C03_WF.v — scheduler well-formedness of the C03 model, an inductive invariant of `step`:
   wait queues hold exactly SLEEPING threads that point back at them, run queues hold
   READY/RUNNING threads of that vCPU without duplicates, stand-by queues hold STANDBY threads
   of that vCPU, sleep-queue members belong to that vCPU. *)
From Coq Require Import ZArith List Bool Arith Lia.
From PV Require Import Base.U64 C04.C04_Heap C03.C03_Model.
Import ListNotations.
Local Open Scope Z_scope.

(* ---- transition system ------------------------------------------------------------------- *)
Inductive reachable (s0 : state) : state -> Prop :=
| reach_init : reachable s0 s0
| reach_step : forall s a s', reachable s0 s -> step s a = Some s' -> reachable s0 s'.

Definition Reach (nv : nat) (kinds : lid -> lkind) (progs : tid -> list op) (s : state) : Prop :=
  reachable (init nv kinds progs) s.

(* ---- small facts ---------------------------------------------------------------------------- *)
Lemma updf_same {A} (f : tid -> A) k v : updf f k v k = v.
Proof. unfold updf. now rewrite Nat.eqb_refl. Qed.
Lemma updf_other {A} (f : tid -> A) k v x : x <> k -> updf f k v x = f x.
Proof. unfold updf. intros H. apply Nat.eqb_neq in H. now rewrite H. Qed.

Lemma wq_eqb_spec a b : reflect (a = b) (wq_eqb a b).
Proof.
  destruct a as [x|x], b as [y|y]; simpl; try (constructor; congruence);
  destruct (Nat.eqb_spec x y); constructor; congruence.
Qed.
Lemma updq_same {A} (f : wq -> A) k v : updq f k v k = v.
Proof. unfold updq. destruct (wq_eqb_spec k k); congruence. Qed.
Lemma updq_other {A} (f : wq -> A) k v x : x <> k -> updq f k v x = f x.
Proof. unfold updq. destruct (wq_eqb_spec x k); congruence. Qed.

Lemma tstate_eqb_spec a b : reflect (a = b) (tstate_eqb a b).
Proof. destruct a, b; simpl; constructor; congruence. Qed.

Lemma th_updT s t f x : th (updT s t f) x = if Nat.eqb x t then f (th s t) else th s x.
Proof. reflexivity. Qed.
Lemma th_updT_same s t f : th (updT s t f) t = f (th s t).
Proof. rewrite th_updT. now rewrite Nat.eqb_refl. Qed.
Lemma th_updT_other s t f x : x <> t -> th (updT s t f) x = th s x.
Proof. intros H. rewrite th_updT. apply Nat.eqb_neq in H. now rewrite H. Qed.
Lemma vc_updV s v f x : vc (updV s v f) x = if Nat.eqb x v then f (vc s v) else vc s x.
Proof. reflexivity. Qed.
Lemma vc_updV_same s v f : vc (updV s v f) v = f (vc s v).
Proof. rewrite vc_updV. now rewrite Nat.eqb_refl. Qed.
Lemma vc_updV_other s v f x : x <> v -> vc (updV s v f) x = vc s x.
Proof. intros H. rewrite vc_updV. apply Nat.eqb_neq in H. now rewrite H. Qed.

Lemma in_remove_iff (x y : tid) l : In y (remove Nat.eq_dec x l) <-> In y l /\ y <> x.
Proof.
  split.
  - intros H. apply in_remove in H. exact H.
  - intros [H1 H2]. apply in_in_remove; auto.
Qed.

Lemma NoDup_snoc {A} (l : list A) (e : A) : NoDup l -> ~ In e l -> NoDup (l ++ [e]).
Proof.
  induction l as [|a l IH]; simpl; intros Hn Hi.
  - constructor; [intros []|constructor].
  - apply NoDup_cons_iff in Hn. destruct Hn as [Ha Hl]. constructor.
    + rewrite in_app_iff. simpl. intros [H|[H|[]]]; [auto|]. subst. apply Hi. now left.
    + apply IH; auto.
Qed.

(* ---- heap: the elements after an operation come from the heap before (or the pushed one) -- *)
Lemma in_setq x q i v : In x (setq q i v) -> x = v \/ In x q.
Proof.
  revert i. induction q as [|a q IH]; intros i; simpl.
  - intros [].
  - destruct i; simpl.
    + intros [H|H]; auto.
    + intros [H|H]; auto. destruct (IH _ H); auto.
Qed.
Lemma length_setq q i v : length (setq q i v) = length q.
Proof. revert i. induction q; intros [|i]; simpl; auto. Qed.
Lemma in_removelast {A} (x : A) l : In x (removelast l) -> In x l.
Proof.
  induction l as [|a l IH]; simpl; auto. destruct l; [intros []|].
  intros [H|H]; auto.
Qed.

Definition hsub (h' h : heap) (extra : tid -> Prop) : Prop :=
  forall x, In x (hq h') -> In x (hq h) \/ extra x.

Lemma update_node_sub h i t : forall x, In x (hq (update_node h i t)) -> x = t \/ In x (hq h).
Proof.
  intros x. unfold update_node. destruct (Nat.ltb i (length (hq h))); simpl; auto.
  apply in_setq.
Qed.
Lemma update_node_len h i t : length (hq (update_node h i t)) = length (hq h).
Proof. unfold update_node. destruct (Nat.ltb i (length (hq h))); simpl; auto. apply length_setq. Qed.

Lemma getq_in q i : (i < length q)%nat -> In (getq q i) q.
Proof. intros. unfold getq. now apply nth_In. Qed.

Lemma div2_lt i : i <> O -> (Nat.div2 (i - 1) < i)%nat.
Proof. intros. pose proof (Nat.div2_decr (i - 1) (i - 1) (Nat.le_succ_diag_r _)). lia. Qed.

Lemma up_loop_sub fuel tsf0 : forall h tmp i m h' j m',
  (i < length (hq h))%nat ->
  up_loop fuel tsf0 h tmp i m = (h', j, m') ->
  (forall x, In x (hq h') -> In x (hq h)) /\ length (hq h') = length (hq h).
Proof.
  induction fuel as [|f IH]; intros h tmp i m h' j m' Hi H; simpl in H.
  - inversion H; subst. simpl. auto.
  - destruct (Nat.eqb i 0) eqn:E0.
    + inversion H; subst. auto.
    + apply Nat.eqb_neq in E0.
      destruct (tsf0 tmp <? tsf0 (getq (hq h) (Nat.div2 (i - 1)))).
      * apply IH in H.
        2:{ rewrite update_node_len. pose proof (div2_lt i E0). lia. }
        destruct H as [Ha Hb]. rewrite update_node_len in Hb. split; auto.
        intros x Hx. apply Ha in Hx. apply update_node_sub in Hx. destruct Hx as [->|]; auto.
        apply getq_in. pose proof (div2_lt i E0). lia.
      * inversion H; subst. auto.
Qed.

Lemma up_sub tsf0 h i : (i < length (hq h))%nat ->
  (forall x, In x (hq (fst (up tsf0 h i))) -> In x (hq h)) /\ length (hq (fst (up tsf0 h i))) = length (hq h).
Proof.
  intros Hi. unfold up.
  destruct (up_loop (S (length (hq h))) tsf0 h (getq (hq h) i) i false) as [[h' j] m] eqn:E.
  apply up_loop_sub in E; auto. destruct E as [Ha Hb].
  destruct m; simpl; auto. split.
  - intros x Hx. apply update_node_sub in Hx. destruct Hx as [->|]; auto. now apply getq_in.
  - now rewrite update_node_len.
Qed.

Lemma down_loop_S f tsf0 h tmp i m :
  down_loop (S f) tsf0 h tmp i m =
    if Nat.ltb (2 * i + 1) (length (hq h)) then
      let c' := if Nat.ltb (2 * i + 1 + 1) (length (hq h)) && (tsf0 (getq (hq h) (2 * i + 1 + 1)) <? tsf0 (getq (hq h) (2 * i + 1)))
                then (2 * i + 1 + 1)%nat else (2 * i + 1)%nat in
      if tsf0 (getq (hq h) c') <? tsf0 tmp
      then down_loop f tsf0 (update_node h i (getq (hq h) c')) tmp c' true
      else (h, i, m)
    else (h, i, m).
Proof. reflexivity. Qed.

Lemma down_loop_sub fuel tsf0 : forall h tmp i m h' j m',
  down_loop fuel tsf0 h tmp i m = (h', j, m') ->
  (forall x, In x (hq h') -> In x (hq h)) /\ length (hq h') = length (hq h).
Proof.
  induction fuel as [|f IH]; intros h tmp i m h' j m' H.
  - simpl in H. inversion H; subst. simpl. auto.
  - rewrite down_loop_S in H.
    destruct (Nat.ltb (2 * i + 1) (length (hq h))) eqn:E1.
    + apply Nat.ltb_lt in E1. cbv zeta in H.
      remember (if Nat.ltb (2 * i + 1 + 1) (length (hq h)) && (tsf0 (getq (hq h) (2 * i + 1 + 1)) <? tsf0 (getq (hq h) (2 * i + 1)))
                 then (2 * i + 1 + 1)%nat else (2 * i + 1)%nat) as c' eqn:Ec.
      assert (Hc : (c' < length (hq h))%nat).
      { subst c'. destruct (Nat.ltb (2 * i + 1 + 1) (length (hq h))) eqn:E2; cbn [andb].
        - apply Nat.ltb_lt in E2. destruct (tsf0 (getq (hq h) (2 * i + 1 + 1)) <? tsf0 (getq (hq h) (2 * i + 1))); [exact E2 | exact E1].
        - exact E1. }
      destruct (tsf0 (getq (hq h) c') <? tsf0 tmp).
      * apply IH in H. destruct H as [Ha Hb]. rewrite update_node_len in Hb. split; auto.
        intros x Hx. apply Ha in Hx. apply update_node_sub in Hx. destruct Hx as [->|]; auto.
        now apply getq_in.
      * inversion H; subst. auto.
    + inversion H; subst. auto.
Qed.

Lemma down_sub tsf0 h i : (i < length (hq h))%nat ->
  (forall x, In x (hq (fst (down tsf0 h i))) -> In x (hq h)) /\ length (hq (fst (down tsf0 h i))) = length (hq h).
Proof.
  intros Hi. unfold down.
  destruct (down_loop (S (length (hq h))) tsf0 h (getq (hq h) i) i false) as [[h' j] m] eqn:E.
  apply down_loop_sub in E. destruct E as [Ha Hb].
  destruct m; simpl; auto. split.
  - intros x Hx. apply update_node_sub in Hx. destruct Hx as [->|]; auto. now apply getq_in.
  - now rewrite update_node_len.
Qed.

Lemma push_sub tsf0 h t : forall x, In x (hq (push tsf0 h t)) -> x = t \/ In x (hq h).
Proof.
  intros x. unfold push.
  match goal with |- In x (hq (fst (up _ ?h1 ?i))) -> _ => pose proof (up_sub tsf0 h1 i) as Hu end.
  simpl in Hu. rewrite app_length in Hu. simpl in Hu.
  intros Hx. apply Hu in Hx; [|lia]. apply in_app_iff in Hx. destruct Hx as [|[->|[]]]; auto.
Qed.

(* last of a non-empty list is a member *)
Lemma last_in {A} (l : list A) d : l <> [] -> In (last l d) l.
Proof.
  induction l as [|a l IH]; [congruence|]. intros _. destruct l as [|b l]; [now left|].
  right. apply IH. discriminate.
Qed.

Lemma pop_back_sub h x : In x (hq (pop_back h)) -> In x (hq h).
Proof. unfold pop_back. simpl. apply in_removelast. Qed.
Lemma pop_back_len h : length (hq (pop_back h)) = (length (hq h) - 1)%nat.
Proof. unfold pop_back. simpl. destruct (hq h) as [|a l]; [reflexivity|]. rewrite removelast_length_compat; [|discriminate]. simpl. lia. Qed.

Lemma pop_front_sub tsf0 h : forall x, In x (hq (fst (pop_front tsf0 h))) -> In x (hq h).
Proof.
  intros x. unfold pop_front. destruct (hq h) as [|ret q] eqn:E.
  - simpl. auto.
  - rewrite <- E. destruct (Nat.eqb (length (hq h)) 1) eqn:E1; cbn [fst set_idx hq].
    + apply pop_back_sub.
    + set (h2 := pop_back (update_node h 0 (last (hq h) 0%nat))).
      assert (Hl : (0 < length (hq h2))%nat).
      { subst h2. rewrite pop_back_len, update_node_len. apply Nat.eqb_neq in E1. rewrite E in *. simpl in *. lia. }
      destruct (down_sub tsf0 h2 0 Hl) as [Hd _].
      intros Hx. apply Hd in Hx. subst h2. apply pop_back_sub in Hx. apply update_node_sub in Hx.
      destruct Hx as [->|]; auto. apply last_in. rewrite E. discriminate.
Qed.

Lemma pop_sub tsf0 h t : forall x, In x (hq (fst (pop tsf0 h t))) -> In x (hq h).
Proof.
  intros x. unfold pop.
  destruct (hidx h t =? -1); simpl; auto.
  destruct ((hidx h t <? 0) || (Z.of_nat (length (hq h)) <=? hidx h t)) eqn:Eb; simpl; auto.
  apply orb_false_iff in Eb. destruct Eb as [Eb1 Eb2].
  apply Z.ltb_ge in Eb1. apply Z.leb_gt in Eb2.
  set (i := Z.to_nat (hidx h t)).
  assert (Hi : (i < length (hq h))%nat) by (subst i; lia).
  destruct (Nat.eqb i (length (hq h) - 1)); simpl.
  { intros Hx. apply in_removelast in Hx. exact Hx. }
  destruct (Nat.eqb (length (hq h)) 1) eqn:E1; simpl.
  { intros Hx. apply in_removelast in Hx. exact Hx. }
  set (h2 := pop_back (update_node h i (last (hq h) 0%nat))).
  assert (Hsub2 : forall y, In y (hq h2) -> In y (hq h)).
  { intros y Hy. subst h2. unfold pop_back in Hy. simpl in Hy. apply in_removelast in Hy.
    apply update_node_sub in Hy. destruct Hy as [->|]; auto. apply last_in.
    intros Hn. rewrite Hn in Hi. simpl in Hi. lia. }
  destruct (Nat.ltb i (length (hq h2))) eqn:Ei2.
  - apply Nat.ltb_lt in Ei2.
    pose proof (up_sub tsf0 h2 i Ei2) as [Hu1 Hu2].
    destruct (up tsf0 h2 i) as [h3 m] eqn:Eu. simpl in Hu1, Hu2.
    destruct m; simpl.
    + intros Hx. auto.
    + assert (Ei3 : (i < length (hq h3))%nat) by lia.
      pose proof (down_sub tsf0 h3 i Ei3) as [Hd1 _].
      intros Hx. auto.
  - (* i out of range of h2: up/down are the identity on the list *)
    apply Nat.ltb_ge in Ei2.
    assert (Hlen : length (hq h2) = (length (hq h) - 1)%nat).
    { subst h2. unfold pop_back. simpl. rewrite removelast_length_compat. now rewrite update_node_len. }
    lia.
Abort.
