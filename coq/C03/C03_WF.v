(* C03_WF.v — scheduler well-formedness of the C03 model, an inductive invariant of `step`:
   wait queues hold exactly SLEEPING threads that point back at them, run queues hold
   READY/RUNNING threads of that vCPU without duplicates, stand-by queues hold STANDBY threads
   of that vCPU, sleep-queue members belong to that vCPU. *)
From Coq Require Import ZArith List Bool Arith Lia.
From PV Require Import Base.U64 C04.C04_Heap C03.C03_Model.
Import ListNotations.
Local Open Scope Z_scope.

(* ---- transition system ------------------------------------------------------------------- *)
Inductive reachable (s0 : state) : state -> Prop :=
| reach_init : reachable s0 s0
| reach_step : forall s a s', reachable s0 s -> step s a = Some s' -> reachable s0 s'.

Definition Reach (nv : nat) (kinds : lid -> lkind) (home : tid -> vid) (progs : tid -> list op) (s : state) : Prop :=
  reachable (init nv kinds home progs) s.

(* ---- small facts ---------------------------------------------------------------------------- *)
Lemma updf_same {A} (f : tid -> A) k v : updf f k v k = v.
Proof. unfold updf. now rewrite Nat.eqb_refl. Qed.
Lemma updf_other {A} (f : tid -> A) k v x : x <> k -> updf f k v x = f x.
Proof. unfold updf. intros H. apply Nat.eqb_neq in H. now rewrite H. Qed.

Lemma wq_eqb_spec a b : reflect (a = b) (wq_eqb a b).
Proof.
  destruct a as [x|x], b as [y|y]; simpl; try (constructor; congruence);
  destruct (Nat.eqb_spec x y); constructor; congruence.
Qed.
Lemma updq_same {A} (f : wq -> A) k v : updq f k v k = v.
Proof. unfold updq. destruct (wq_eqb_spec k k); congruence. Qed.
Lemma updq_other {A} (f : wq -> A) k v x : x <> k -> updq f k v x = f x.
Proof. unfold updq. destruct (wq_eqb_spec x k); congruence. Qed.

Lemma tstate_eqb_spec a b : reflect (a = b) (tstate_eqb a b).
Proof. destruct a, b; simpl; constructor; congruence. Qed.

Lemma th_updT s t f x : th (updT s t f) x = if Nat.eqb x t then f (th s t) else th s x.
Proof. reflexivity. Qed.
Lemma th_updT_same s t f : th (updT s t f) t = f (th s t).
Proof. rewrite th_updT. now rewrite Nat.eqb_refl. Qed.
Lemma th_updT_other s t f x : x <> t -> th (updT s t f) x = th s x.
Proof. intros H. rewrite th_updT. apply Nat.eqb_neq in H. now rewrite H. Qed.
Lemma vc_updV s v f x : vc (updV s v f) x = if Nat.eqb x v then f (vc s v) else vc s x.
Proof. reflexivity. Qed.
Lemma vc_updV_same s v f : vc (updV s v f) v = f (vc s v).
Proof. rewrite vc_updV. now rewrite Nat.eqb_refl. Qed.
Lemma vc_updV_other s v f x : x <> v -> vc (updV s v f) x = vc s x.
Proof. intros H. rewrite vc_updV. apply Nat.eqb_neq in H. now rewrite H. Qed.

Lemma in_remove_iff (x y : tid) l : In y (remove Nat.eq_dec x l) <-> In y l /\ y <> x.
Proof.
  split.
  - intros H. apply in_remove in H. exact H.
  - intros [H1 H2]. apply in_in_remove; auto.
Qed.

Lemma NoDup_snoc {A} (l : list A) (e : A) : NoDup l -> ~ In e l -> NoDup (l ++ [e]).
Proof.
  induction l as [|a l IH]; simpl; intros Hn Hi.
  - constructor; [intros []|constructor].
  - apply NoDup_cons_iff in Hn. destruct Hn as [Ha Hl]. constructor.
    + rewrite in_app_iff. simpl. intros [H|[H|[]]]; [auto|]. subst. apply Hi. now left.
    + apply IH; auto.
Qed.

(* ---- heap: the elements after an operation come from the heap before (or the pushed one) -- *)
Lemma in_setq x q i v : In x (setq q i v) -> x = v \/ In x q.
Proof.
  revert i. induction q as [|a q IH]; intros i; simpl.
  - intros [].
  - destruct i; simpl.
    + intros [H|H]; auto.
    + intros [H|H]; auto. destruct (IH _ H); auto.
Qed.
Lemma length_setq q i v : length (setq q i v) = length q.
Proof. revert i. induction q; intros [|i]; simpl; auto. Qed.
Lemma in_removelast {A} (x : A) l : In x (removelast l) -> In x l.
Proof.
  induction l as [|a l IH]; simpl; auto. destruct l; [intros []|].
  intros [H|H]; auto.
Qed.

Definition hsub (h' h : heap) (extra : tid -> Prop) : Prop :=
  forall x, In x (hq h') -> In x (hq h) \/ extra x.

Lemma update_node_sub h i t : forall x, In x (hq (update_node h i t)) -> x = t \/ In x (hq h).
Proof.
  intros x. unfold update_node. destruct (Nat.ltb i (length (hq h))); simpl; auto.
  apply in_setq.
Qed.
Lemma update_node_len h i t : length (hq (update_node h i t)) = length (hq h).
Proof. unfold update_node. destruct (Nat.ltb i (length (hq h))); simpl; auto. apply length_setq. Qed.

Lemma getq_in q i : (i < length q)%nat -> In (getq q i) q.
Proof. intros. unfold getq. now apply nth_In. Qed.

Lemma div2_lt i : i <> O -> (Nat.div2 (i - 1) < i)%nat.
Proof. intros. pose proof (Nat.div2_decr (i - 1) (i - 1) (Nat.le_succ_diag_r _)). lia. Qed.

Lemma up_loop_sub fuel tsf0 : forall h tmp i m h' j m',
  (i < length (hq h))%nat ->
  up_loop fuel tsf0 h tmp i m = (h', j, m') ->
  (forall x, In x (hq h') -> In x (hq h)) /\ length (hq h') = length (hq h).
Proof.
  induction fuel as [|f IH]; intros h tmp i m h' j m' Hi H; simpl in H.
  - inversion H; subst. simpl. auto.
  - destruct (Nat.eqb i 0) eqn:E0.
    + inversion H; subst. auto.
    + apply Nat.eqb_neq in E0.
      destruct (tsf0 tmp <? tsf0 (getq (hq h) (Nat.div2 (i - 1)))).
      * apply IH in H.
        2:{ rewrite update_node_len. pose proof (div2_lt i E0). lia. }
        destruct H as [Ha Hb]. rewrite update_node_len in Hb. split; auto.
        intros x Hx. apply Ha in Hx. apply update_node_sub in Hx. destruct Hx as [->|]; auto.
        apply getq_in. pose proof (div2_lt i E0). lia.
      * inversion H; subst. auto.
Qed.

Lemma up_sub tsf0 h i : (i < length (hq h))%nat ->
  (forall x, In x (hq (fst (up tsf0 h i))) -> In x (hq h)) /\ length (hq (fst (up tsf0 h i))) = length (hq h).
Proof.
  intros Hi. unfold up.
  destruct (up_loop (S (length (hq h))) tsf0 h (getq (hq h) i) i false) as [[h' j] m] eqn:E.
  apply up_loop_sub in E; auto. destruct E as [Ha Hb].
  destruct m; simpl; auto. split.
  - intros x Hx. apply update_node_sub in Hx. destruct Hx as [->|]; auto. now apply getq_in.
  - now rewrite update_node_len.
Qed.

Lemma down_loop_S f tsf0 h tmp i m :
  down_loop (S f) tsf0 h tmp i m =
    if Nat.ltb (2 * i + 1) (length (hq h)) then
      let c' := if Nat.ltb (2 * i + 1 + 1) (length (hq h)) && (tsf0 (getq (hq h) (2 * i + 1 + 1)) <? tsf0 (getq (hq h) (2 * i + 1)))
                then (2 * i + 1 + 1)%nat else (2 * i + 1)%nat in
      if tsf0 (getq (hq h) c') <? tsf0 tmp
      then down_loop f tsf0 (update_node h i (getq (hq h) c')) tmp c' true
      else (h, i, m)
    else (h, i, m).
Proof. reflexivity. Qed.

Lemma down_loop_sub fuel tsf0 : forall h tmp i m h' j m',
  down_loop fuel tsf0 h tmp i m = (h', j, m') ->
  (forall x, In x (hq h') -> In x (hq h)) /\ length (hq h') = length (hq h).
Proof.
  induction fuel as [|f IH]; intros h tmp i m h' j m' H.
  - simpl in H. inversion H; subst. simpl. auto.
  - rewrite down_loop_S in H.
    destruct (Nat.ltb (2 * i + 1) (length (hq h))) eqn:E1.
    + apply Nat.ltb_lt in E1. cbv zeta in H.
      remember (if Nat.ltb (2 * i + 1 + 1) (length (hq h)) && (tsf0 (getq (hq h) (2 * i + 1 + 1)) <? tsf0 (getq (hq h) (2 * i + 1)))
                 then (2 * i + 1 + 1)%nat else (2 * i + 1)%nat) as c' eqn:Ec.
      assert (Hc : (c' < length (hq h))%nat).
      { subst c'. destruct (Nat.ltb (2 * i + 1 + 1) (length (hq h))) eqn:E2; cbn [andb].
        - apply Nat.ltb_lt in E2. destruct (tsf0 (getq (hq h) (2 * i + 1 + 1)) <? tsf0 (getq (hq h) (2 * i + 1))); [exact E2 | exact E1].
        - exact E1. }
      destruct (tsf0 (getq (hq h) c') <? tsf0 tmp).
      * apply IH in H. destruct H as [Ha Hb]. rewrite update_node_len in Hb. split; auto.
        intros x Hx. apply Ha in Hx. apply update_node_sub in Hx. destruct Hx as [->|]; auto.
        now apply getq_in.
      * inversion H; subst. auto.
    + inversion H; subst. auto.
Qed.

Lemma down_sub tsf0 h i : (i < length (hq h))%nat ->
  (forall x, In x (hq (fst (down tsf0 h i))) -> In x (hq h)) /\ length (hq (fst (down tsf0 h i))) = length (hq h).
Proof.
  intros Hi. unfold down.
  destruct (down_loop (S (length (hq h))) tsf0 h (getq (hq h) i) i false) as [[h' j] m] eqn:E.
  apply down_loop_sub in E. destruct E as [Ha Hb].
  destruct m; simpl; auto. split.
  - intros x Hx. apply update_node_sub in Hx. destruct Hx as [->|]; auto. now apply getq_in.
  - now rewrite update_node_len.
Qed.

Lemma push_sub tsf0 h t : forall x, In x (hq (push tsf0 h t)) -> x = t \/ In x (hq h).
Proof.
  intros x. unfold push.
  match goal with |- In x (hq (fst (up _ ?h1 ?i))) -> _ => pose proof (up_sub tsf0 h1 i) as Hu end.
  simpl in Hu. rewrite app_length in Hu. simpl in Hu.
  intros Hx. apply Hu in Hx; [|lia]. apply in_app_iff in Hx. destruct Hx as [|[->|[]]]; auto.
Qed.

(* last of a non-empty list is a member *)
Lemma last_in {A} (l : list A) d : l <> [] -> In (last l d) l.
Proof.
  induction l as [|a l IH]; [congruence|]. intros _. destruct l as [|b l]; [now left|].
  right. apply IH. discriminate.
Qed.

Lemma pop_back_sub h x : In x (hq (pop_back h)) -> In x (hq h).
Proof. unfold pop_back. simpl. apply in_removelast. Qed.
Lemma pop_back_len h : length (hq (pop_back h)) = (length (hq h) - 1)%nat.
Proof. unfold pop_back. simpl. rewrite removelast_firstn_len, firstn_length. lia. Qed.

Lemma pop_front_sub tsf0 h : forall x, In x (hq (fst (pop_front tsf0 h))) -> In x (hq h).
Proof.
  intros x. unfold pop_front. destruct (hq h) as [|ret q] eqn:E.
  - simpl. rewrite E. auto.
  - rewrite <- E. destruct (Nat.eqb (length (hq h)) 1) eqn:E1; cbn [fst set_idx hq].
    + apply pop_back_sub.
    + set (h2 := pop_back (update_node h 0 (last (hq h) 0%nat))).
      assert (Hl : (0 < length (hq h2))%nat).
      { subst h2. rewrite pop_back_len, update_node_len. apply Nat.eqb_neq in E1. rewrite E in *. simpl in *. lia. }
      destruct (down_sub tsf0 h2 0 Hl) as [Hd _].
      intros Hx. apply Hd in Hx. subst h2. apply pop_back_sub in Hx. apply update_node_sub in Hx.
      destruct Hx as [->|]; auto. apply last_in. rewrite E. discriminate.
Qed.

Lemma pop_sub tsf0 h t : forall x, In x (hq (fst (pop tsf0 h t))) -> In x (hq h).
Proof.
  intros x. unfold pop.
  destruct (hidx h t =? -1); [simpl; auto|].
  destruct ((hidx h t <? 0) || (Z.of_nat (length (hq h)) <=? hidx h t)) eqn:Eb; [simpl; auto|].
  apply orb_false_iff in Eb. destruct Eb as [Eb1 Eb2].
  apply Z.ltb_ge in Eb1. apply Z.leb_gt in Eb2.
  set (i := Z.to_nat (hidx h t)).
  assert (Hi : (i < length (hq h))%nat) by (subst i; lia).
  destruct (Nat.eqb i (length (hq h) - 1)) eqn:Ei; [cbn [fst set_idx hq]; apply pop_back_sub|].
  destruct (Nat.eqb (length (hq h)) 1) eqn:E1; [cbn [fst set_idx hq]; apply pop_back_sub|].
  apply Nat.eqb_neq in Ei.
  set (h2 := pop_back (update_node h i (last (hq h) 0%nat))).
  assert (Hsub2 : forall y, In y (hq h2) -> In y (hq h)).
  { intros y Hy. subst h2. apply pop_back_sub in Hy.
    apply update_node_sub in Hy. destruct Hy as [->|]; auto. apply last_in.
    intros Hn. rewrite Hn in Hi. simpl in Hi. lia. }
  assert (Ei2 : (i < length (hq h2))%nat).
  { subst h2. rewrite pop_back_len, update_node_len. lia. }
  pose proof (up_sub tsf0 h2 i Ei2) as [Hu1 Hu2].
  destruct (up tsf0 h2 i) as [h3 m] eqn:Eu. cbn [fst] in Hu1, Hu2.
  destruct m; cbn [fst set_idx hq].
  - intros Hx. auto.
  - assert (Ei3 : (i < length (hq h3))%nat) by lia.
    pose proof (down_sub tsf0 h3 i Ei3) as [Hd1 _].
    intros Hx. auto.
Qed.

Lemma front_in h x : front h = Some x -> In x (hq h).
Proof. unfold front. destruct (hq h); [discriminate|]. intros H. inversion H. now left. Qed.

(* ---- the invariant ---------------------------------------------------------------------------- *)
Record WF (s : state) : Prop := mkWF {
  wf_wq : forall t q, In t (wqs s q) -> wqo (th s t) = Some q /\ st (th s t) = SLEEPING;
  wf_rq : forall t v, In (Th t) (runq (vc s v)) ->
            (st (th s t) = READY \/ st (th s t) = RUNNING) /\ vcp (th s t) = v;
  wf_rqnd : forall v, NoDup (runq (vc s v));
  wf_sb : forall x v, In x (sbq (vc s v)) -> st (th s x) = STANDBY /\ vcp (th s x) = v;
  wf_sbnd : forall v, NoDup (sbq (vc s v));
  wf_sl : forall x v, In x (hq (slq (vc s v))) -> vcp (th s x) = v /\ st (th s x) <> NEW
}.

(* the view of a state WF depends on *)
Definition same_view (s s' : state) : Prop :=
  (forall t, st (th s' t) = st (th s t) /\ vcp (th s' t) = vcp (th s t) /\ wqo (th s' t) = wqo (th s t)) /\
  (forall v, runq (vc s' v) = runq (vc s v) /\ sbq (vc s' v) = sbq (vc s v) /\
             (forall x, In x (hq (slq (vc s' v))) -> In x (hq (slq (vc s v))))) /\
  (forall q, wqs s' q = wqs s q).

Lemma WF_view s s' : same_view s s' -> WF s -> WF s'.
Proof.
  intros (Ht & Hv & Hq) W. constructor.
  - intros t q H. rewrite Hq in H. destruct (Ht t) as (-> & _ & ->). now apply (wf_wq s W).
  - intros t v H. destruct (Hv v) as (E & _ & _). rewrite E in H. destruct (Ht t) as (-> & -> & _). now apply (wf_rq s W).
  - intros v. destruct (Hv v) as (-> & _ & _). apply (wf_rqnd s W).
  - intros x v H. destruct (Hv v) as (_ & E & _). rewrite E in H. destruct (Ht x) as (-> & -> & _). now apply (wf_sb s W).
  - intros v. destruct (Hv v) as (_ & -> & _). apply (wf_sbnd s W).
  - intros x v H. destruct (Hv v) as (_ & _ & E). apply E in H. destruct (Ht x) as (-> & -> & _). now apply (wf_sl s W).
Qed.

Lemma same_view_refl s : same_view s s.
Proof. repeat split; auto. Qed.
Lemma same_view_trans s1 s2 s3 : same_view s1 s2 -> same_view s2 s3 -> same_view s1 s3.
Proof.
  intros (A1 & A2 & A3) (B1 & B2 & B3). split; [|split].
  - intros t. destruct (A1 t) as (a & b & c), (B1 t) as (d & e & f). repeat split; congruence.
  - intros v. destruct (A2 v) as (a & b & c), (B2 v) as (d & e & f). repeat split; try congruence. auto.
  - intros q. now rewrite B3.
Qed.

(* thread-field updates that do not touch st / vcp / wqo *)
Definition keeps (f : thr -> thr) : Prop :=
  forall r, st (f r) = st r /\ vcp (f r) = vcp r /\ wqo (f r) = wqo r.
Lemma view_updT s t f : keeps f -> same_view s (updT s t f).
Proof.
  intros K. split; [|split]; [|simpl; auto|simpl; auto].
  intros x. rewrite th_updT. destruct (Nat.eqb_spec x t); [subst; apply K|auto].
Qed.
Definition vkeeps (g : vcpu -> vcpu) : Prop :=
  forall r, runq (g r) = runq r /\ sbq (g r) = sbq r /\ (forall x, In x (hq (slq (g r))) -> In x (hq (slq r))).
Lemma view_updV s v g : vkeeps g -> same_view s (updV s v g).
Proof.
  intros K. split; [|split]; [simpl; auto| |simpl; auto].
  intros x. rewrite vc_updV. destruct (Nat.eqb_spec x v); [subst; apply K|auto].
Qed.

Lemma keeps_err v : keeps (fun r => t_err r v). Proof. intros r; auto. Qed.
Lemma keeps_ts v : keeps (fun r => t_ts r v). Proof. intros r; auto. Qed.
Lemma keeps_lk v : keeps (fun r => t_lk r v). Proof. intros r; auto. Qed.
Lemma keeps_pc v : keeps (fun r => t_pc r v). Proof. intros r; auto. Qed.
Lemma keeps_held v : keeps (fun r => t_held r v). Proof. intros r; auto. Qed.
Lemma keeps_wk v : keeps (fun r => t_wk r v). Proof. intros r; auto. Qed.
Lemma keeps_wkerr e w : keeps (fun r => t_wk (t_err r e) w). Proof. intros r; auto. Qed.
Lemma keeps_fin : keeps (fun r => t_pc (t_opi (t_prog r (tl (prog r))) (S (opi r))) PIdle). Proof. intros r; auto. Qed.
Lemma vkeeps_pend p : vkeeps (fun r => v_pend r p). Proof. intros r; auto. Qed.
Lemma vkeeps_ipc p : vkeeps (fun r => v_ipc r p). Proof. intros r; auto. Qed.

Lemma view_set_pc s t p : same_view s (set_pc s t p).
Proof. apply view_updT, keeps_pc. Qed.
Lemma view_set_held s t l b : same_view s (set_held s t l b).
Proof. unfold set_held. apply view_updT. intros r; auto. Qed.
Lemma view_finish s t a b : same_view s (finish_op s t a b).
Proof.
  unfold finish_op.
  eapply same_view_trans; [|apply view_updT, keeps_fin]. repeat split; auto.
Qed.
Lemma view_lown s f : same_view s (s_lown s f).
Proof. repeat split; auto. Qed.
Lemma view_now s f : same_view s (s_now s f).
Proof. repeat split; auto. Qed.

Lemma WF_set_pc s t p : WF s -> WF (set_pc s t p).
Proof. apply WF_view, view_set_pc. Qed.
Lemma WF_set_held s t l b : WF s -> WF (set_held s t l b).
Proof. apply WF_view, view_set_held. Qed.
Lemma WF_finish s t a b : WF s -> WF (finish_op s t a b).
Proof. apply WF_view, view_finish. Qed.
Lemma WF_lown s f : WF s -> WF (s_lown s f).
Proof. apply WF_view, view_lown. Qed.
Lemma WF_updT s t f : keeps f -> WF s -> WF (updT s t f).
Proof. intros K. apply WF_view, view_updT, K. Qed.
Lemma WF_updV s v g : vkeeps g -> WF s -> WF (updV s v g).
Proof. intros K. apply WF_view, view_updV, K. Qed.

(* ---- blocks ------------------------------------------------------------------------------------ *)
Ltac eqb_cases :=
  repeat match goal with
  | |- context [Nat.eqb ?a ?b] => destruct (Nat.eqb_spec a b); subst
  | H : context [Nat.eqb ?a ?b] |- _ => destruct (Nat.eqb_spec a b); subst
  end.

Lemma not_sleeping_not_queued s t : WF s -> st (th s t) <> SLEEPING -> forall q, ~ In t (wqs s q).
Proof. intros W H q Hi. apply (wf_wq s W) in Hi. tauto. Qed.

Lemma runq_state s t v : WF s -> In (Th t) (runq (vc s v)) -> st (th s t) <> SLEEPING /\ st (th s t) <> STANDBY /\ st (th s t) <> NEW /\ st (th s t) <> DONE.
Proof. intros W H. apply (wf_rq s W) in H. destruct H as [[H|H] _]; rewrite H; repeat split; discriminate. Qed.

(* changing READY <-> RUNNING of a thread in a run queue *)
Lemma WF_set_rr s t v ns : WF s -> In (Th t) (runq (vc s v)) -> ns = READY \/ ns = RUNNING ->
  WF (updT s t (fun r => t_st r ns)).
Proof.
  intros W Hin Hns. pose proof (runq_state s t v W Hin) as (N1 & N2 & N3 & N4).
  constructor; simpl.
  - intros y q H. unfold updf. destruct (Nat.eqb_spec y t); subst.
    + exfalso. eapply not_sleeping_not_queued; eauto.
    + now apply (wf_wq s W).
  - intros y v' H. unfold updf. destruct (Nat.eqb_spec y t); subst; simpl.
    + split; [tauto|]. apply (wf_rq s W) in H. tauto.
    + now apply (wf_rq s W).
  - apply (wf_rqnd s W).
  - intros y v' H. unfold updf. destruct (Nat.eqb_spec y t); subst; simpl.
    + apply (wf_sb s W) in H. tauto.
    + now apply (wf_sb s W).
  - apply (wf_sbnd s W).
  - intros y v' H. unfold updf. destruct (Nat.eqb_spec y t); subst; simpl; [|now apply (wf_sl s W)].
    split; [now apply (wf_sl s W)|destruct Hns; congruence].
Qed.

Lemma WF_set_running s v : WF s -> WF (set_running s v).
Proof.
  intros W. unfold set_running. destruct (runq (vc s v)) as [|[t'|] r] eqn:E; auto.
  eapply WF_set_rr; eauto. rewrite E. now left.
Qed.

Lemma in_snoc {A} (x e : A) l : In x (l ++ [e]) <-> In x l \/ x = e.
Proof. rewrite in_app_iff. simpl. intuition. Qed.

Lemma WF_rotate s v : WF s -> WF (rotate s v).
Proof.
  intros W. unfold rotate. destruct (runq (vc s v)) as [|e r] eqn:E; auto.
  apply WF_set_running.
  assert (W1 : WF (match e with Th t => updT s t (fun x => t_st x READY) | Idl => s end)).
  { destruct e; auto. eapply WF_set_rr; eauto. rewrite E. now left. }
  set (s1 := match e with Th t => updT s t (fun x => t_st x READY) | Idl => s end) in *.
  assert (Evc : vc s1 = vc s) by (subst s1; destruct e; reflexivity).
  pose proof (wf_rqnd s W v) as ND. rewrite E in ND.
  constructor; simpl.
  - apply (wf_wq s1 W1).
  - intros y v' H. unfold updf in H. destruct (Nat.eqb_spec v' v); subst.
    + simpl in H. apply (wf_rq s1 W1). rewrite Evc, E.
      apply in_snoc in H. destruct H; [now right|subst; now left].
    + now apply (wf_rq s1 W1).
  - intros v'. unfold updf. destruct (Nat.eqb_spec v' v); subst; simpl.
    + apply NoDup_cons_iff in ND. apply NoDup_snoc; tauto.
    + apply (wf_rqnd s1 W1).
  - intros y v' H. unfold updf in H. destruct (Nat.eqb_spec v' v); subst; now apply (wf_sb s1 W1).
  - intros v'. unfold updf. destruct (Nat.eqb_spec v' v); subst; apply (wf_sbnd s1 W1).
  - intros y v' H. unfold updf in H. destruct (Nat.eqb_spec v' v); subst; now apply (wf_sl s1 W1).
Qed.

(* sleep-queue replacement by a heap whose members come from the old one or belong to v *)
Lemma WF_slq s v h' : WF s ->
  (forall x, In x (hq h') -> In x (hq (slq (vc s v))) \/ (vcp (th s x) = v /\ st (th s x) <> NEW)) ->
  WF (updV s v (fun r => v_slq r h')).
Proof.
  intros W Hs. constructor; simpl.
  - apply (wf_wq s W).
  - intros y v' H. unfold updf in H. destruct (Nat.eqb_spec v' v); subst; now apply (wf_rq s W).
  - intros v'. unfold updf. destruct (Nat.eqb_spec v' v); subst; apply (wf_rqnd s W).
  - intros y v' H. unfold updf in H. destruct (Nat.eqb_spec v' v); subst; now apply (wf_sb s W).
  - intros v'. unfold updf. destruct (Nat.eqb_spec v' v); subst; apply (wf_sbnd s W).
  - intros y v' H. unfold updf in H. destruct (Nat.eqb_spec v' v); subst.
    + simpl in H. apply Hs in H. destruct H; auto. now apply (wf_sl s W).
    + now apply (wf_sl s W).
Qed.

Ltac wq_cases :=
  repeat match goal with
  | |- context [wq_eqb ?a ?b] => destruct (wq_eqb_spec a b); subst
  | H : context [wq_eqb ?a ?b] |- _ => destruct (wq_eqb_spec a b); subst
  end.

(* prepare_usleep *)
Lemma WF_prepare_usleep s v t r q e : WF s -> runq (vc s v) = Th t :: r ->
  WF (prepare_usleep s v t q e).
Proof.
  intros W E. unfold prepare_usleep.
  assert (Hin : In (Th t) (runq (vc s v))) by (rewrite E; now left).
  pose proof (wf_rq s W t v Hin) as [Hst Hvc].
  pose proof (runq_state s t v W Hin) as (N1 & N2 & N3 & N4).
  pose proof (wf_rqnd s W v) as ND. rewrite E in ND. apply NoDup_cons_iff in ND. destruct ND as [ND1 ND2].
  apply WF_set_running.
  match goal with |- WF (updV ?s3 v _) => set (S3 := s3) end.
  assert (Hrq : forall v', runq (vc S3 v') = if Nat.eqb v' v then r else runq (vc s v')).
  { intros v'; subst S3; destruct q; simpl; unfold updf; destruct (Nat.eqb_spec v' v); subst; simpl; rewrite ?E; reflexivity. }
  assert (Hsb : forall v', sbq (vc S3 v') = sbq (vc s v')).
  { intros v'; subst S3; destruct q; simpl; unfold updf; destruct (Nat.eqb_spec v' v); subst; simpl; reflexivity. }
  assert (Hsl : forall v', slq (vc S3 v') = slq (vc s v')).
  { intros v'; subst S3; destruct q; simpl; unfold updf; destruct (Nat.eqb_spec v' v); subst; simpl; reflexivity. }
  assert (Hth : forall y, y <> t -> th S3 y = th s y).
  { intros y Hy; subst S3; destruct q; simpl; unfold updf; apply Nat.eqb_neq in Hy; rewrite ?Hy; reflexivity. }
  assert (Ht : st (th S3 t) = SLEEPING /\ vcp (th S3 t) = v /\
               wqo (th S3 t) = match q with Some w => Some w | None => wqo (th s t) end).
  { subst S3; destruct q; simpl; unfold updf; rewrite ?Nat.eqb_refl; simpl; auto. }
  assert (Hwq : forall w, wqs S3 w = if match q with Some w0 => wq_eqb w w0 | None => false end then wqs s w ++ [t] else wqs s w).
  { intros w; subst S3; destruct q; simpl; unfold updq; [destruct (wq_eqb_spec w w0); subst|]; reflexivity. }
  destruct Ht as (Ht1 & Ht2 & Ht3).
  assert (W3 : WF S3).
  { constructor.
    - intros y w H. rewrite Hwq in H.
      destruct q as [w0|]; [destruct (wq_eqb_spec w w0); subst|].
      + apply in_snoc in H. destruct H as [H|H].
        * pose proof (wf_wq s W y w0 H) as [A B].
          assert (y <> t) by congruence. rewrite Hth; auto.
        * subst. rewrite Ht1, Ht3. auto.
      + pose proof (wf_wq s W y w H) as [A B]. assert (y <> t) by congruence. rewrite Hth; auto.
      + pose proof (wf_wq s W y w H) as [A B]. assert (y <> t) by congruence. rewrite Hth; auto.
    - intros y v' H. rewrite Hrq in H.
      assert (H1 : In (Th y) (runq (vc s v')) /\ y <> t).
      { destruct (Nat.eqb_spec v' v); subst.
        - rewrite E. split; [now right|]. intros ->. auto.
        - split; auto. intros ->. apply (wf_rq s W) in H. destruct H as [_ H]. congruence. }
      destruct H1 as [H1 H2]. rewrite Hth; auto. now apply (wf_rq s W).
    - intros v'. rewrite Hrq. destruct (Nat.eqb_spec v' v); subst; auto. apply (wf_rqnd s W).
    - intros y v' H. rewrite Hsb in H. pose proof (wf_sb s W y v' H) as [A B].
      assert (y <> t) by congruence. rewrite Hth; auto.
    - intros v'. rewrite Hsb. apply (wf_sbnd s W).
    - intros y v' H. rewrite Hsl in H. pose proof (wf_sl s W y v' H) as [A B].
      destruct (Nat.eq_dec y t); subst; [split; congruence|]. rewrite Hth; auto. }
  apply WF_slq; auto.
  intros x Hx. apply push_sub in Hx. destruct Hx as [->|Hx]; [right; split; [auto|congruence]|left; auto].
Qed.

(* a thread x that is in no run queue and no stand-by queue becomes READY at the tail of its
   vCPU's run queue, or STANDBY at the tail of its vCPU's stand-by queue, leaving its wait queue *)
Lemma WF_wake_char s x S' newst :
  WF s ->
  (st (th s x) = SLEEPING \/ (st (th s x) = STANDBY /\ forall v, ~ In x (sbq (vc s v)))) ->
  (forall y, y <> x -> st (th S' y) = st (th s y) /\ vcp (th S' y) = vcp (th s y) /\ wqo (th S' y) = wqo (th s y)) ->
  st (th S' x) = newst -> vcp (th S' x) = vcp (th s x) ->
  (forall q y, In y (wqs S' q) <-> In y (wqs s q) /\ y <> x) ->
  (forall v y, In y (hq (slq (vc S' v))) -> In y (hq (slq (vc s v)))) ->
  ((newst = READY /\
    (forall v, runq (vc S' v) = if Nat.eqb v (vcp (th s x)) then runq (vc s v) ++ [Th x] else runq (vc s v)) /\
    (forall v, sbq (vc S' v) = sbq (vc s v)))
   \/
   (newst = STANDBY /\
    (forall v, runq (vc S' v) = runq (vc s v)) /\
    (forall v, sbq (vc S' v) = if Nat.eqb v (vcp (th s x)) then sbq (vc s v) ++ [x] else sbq (vc s v)))) ->
  WF S'.
Proof.
  intros W Hx Hoth Hst Hvc Hwq Hsl Hcase.
  assert (Nrq : forall v, ~ In (Th x) (runq (vc s v))).
  { intros v H. apply (wf_rq s W) in H. destruct H as [[H|H] _], Hx as [Hx|[Hx _]]; congruence. }
  assert (Nsb : forall v, ~ In x (sbq (vc s v))).
  { intros v H. destruct Hx as [Hx|[_ Hx]]; [|now apply (Hx v)]. apply (wf_sb s W) in H. destruct H; congruence. }
  constructor.
  - intros y q H. apply Hwq in H. destruct H as [H Hy]. destruct (Hoth y Hy) as (-> & _ & ->). now apply (wf_wq s W).
  - intros y v H. destruct Hcase as [(Hn & Hr & _)|(Hn & Hr & _)]; rewrite Hr in H.
    + destruct (Nat.eqb_spec v (vcp (th s x))); subst.
      * apply in_snoc in H. destruct H as [H|H].
        -- assert (y <> x) by (intros ->; eapply Nrq; eauto).
           destruct (Hoth y H0) as (-> & -> & _). now apply (wf_rq s W).
        -- inversion H; subst. rewrite Hvc. auto.
      * assert (y <> x) by (intros ->; eapply Nrq; eauto).
        destruct (Hoth y H0) as (-> & -> & _). now apply (wf_rq s W).
    + assert (y <> x) by (intros ->; eapply Nrq; eauto).
      destruct (Hoth y H0) as (-> & -> & _). now apply (wf_rq s W).
  - intros v. destruct Hcase as [(Hn & Hr & _)|(Hn & Hr & _)]; rewrite Hr.
    + destruct (Nat.eqb_spec v (vcp (th s x))); subst; [|apply (wf_rqnd s W)].
      apply NoDup_snoc; [apply (wf_rqnd s W)|apply Nrq].
    + apply (wf_rqnd s W).
  - intros y v H. destruct Hcase as [(Hn & _ & Hr)|(Hn & _ & Hr)]; rewrite Hr in H.
    + assert (y <> x) by (intros ->; eapply Nsb; eauto).
      destruct (Hoth y H0) as (-> & -> & _). now apply (wf_sb s W).
    + destruct (Nat.eqb_spec v (vcp (th s x))); subst.
      * apply in_snoc in H. destruct H as [H|H].
        -- assert (y <> x) by (intros ->; eapply Nsb; eauto).
           destruct (Hoth y H0) as (-> & -> & _). now apply (wf_sb s W).
        -- subst. rewrite Hvc. auto.
      * assert (y <> x) by (intros ->; eapply Nsb; eauto).
        destruct (Hoth y H0) as (-> & -> & _). now apply (wf_sb s W).
  - intros v. destruct Hcase as [(Hn & _ & Hr)|(Hn & _ & Hr)]; rewrite Hr.
    + apply (wf_sbnd s W).
    + destruct (Nat.eqb_spec v (vcp (th s x))); subst; [|apply (wf_sbnd s W)].
      apply NoDup_snoc; [apply (wf_sbnd s W)|apply Nsb].
  - intros y v H. apply Hsl in H. apply (wf_sl s W) in H. destruct H as [H1 H2].
    destruct (Nat.eq_dec y x); subst.
    + rewrite Hvc. split; auto. destruct Hcase as [(-> & _)|(-> & _)]; discriminate.
    + destruct (Hoth y n) as (-> & -> & _). auto.
Qed.

(* projections of dequeue *)
Lemma dequeue_th_other s x ns y : y <> x -> th (dequeue s x ns) y = th s y.
Proof.
  intros H. unfold dequeue. destruct (wqo (th s x)); simpl; unfold updf; apply Nat.eqb_neq in H; now rewrite ?H.
Qed.
Lemma dequeue_th_x s x ns :
  st (th (dequeue s x ns) x) = ns /\ vcp (th (dequeue s x ns) x) = vcp (th s x) /\
  wqo (th (dequeue s x ns) x) = None \/ wqo (th (dequeue s x ns) x) = wqo (th s x) /\ wqo (th s x) = None.
Proof.
  unfold dequeue. destruct (wqo (th s x)) eqn:E; simpl; unfold updf; rewrite ?Nat.eqb_refl; simpl; auto.
Qed.
Lemma dequeue_x s x ns :
  st (th (dequeue s x ns) x) = ns /\ vcp (th (dequeue s x ns) x) = vcp (th s x) /\
  wqo (th (dequeue s x ns) x) = None /\
  err (th (dequeue s x ns) x) = err (th s x) /\ wk (th (dequeue s x ns) x) = wk (th s x) /\
  lk (th (dequeue s x ns) x) = lk (th s x) /\ tpc (th (dequeue s x ns) x) = tpc (th s x) /\
  held (th (dequeue s x ns) x) = held (th s x) /\ prog (th (dequeue s x ns) x) = prog (th s x) /\
  ts (th (dequeue s x ns) x) = ts (th s x) /\ opi (th (dequeue s x ns) x) = opi (th s x).
Proof.
  unfold dequeue. destruct (wqo (th s x)) eqn:E; simpl; unfold updf; rewrite ?Nat.eqb_refl; simpl; rewrite ?Nat.eqb_refl; simpl; auto 20.
Qed.
Lemma dequeue_vc s x ns : vc (dequeue s x ns) = vc s.
Proof. unfold dequeue. destruct (wqo (th s x)); reflexivity. Qed.
Lemma dequeue_wqs s x ns : WF s -> forall q y, In y (wqs (dequeue s x ns) q) <-> In y (wqs s q) /\ y <> x.
Proof.
  intros W q y. unfold dequeue. destruct (wqo (th s x)) as [w|] eqn:E; simpl.
  - unfold updq. destruct (wq_eqb_spec q w); subst.
    + apply in_remove_iff.
    + split; [|tauto]. intros H. split; auto. intros ->. apply (wf_wq s W) in H. destruct H. congruence.
  - split; [|tauto]. intros H. split; auto. intros ->. apply (wf_wq s W) in H. destruct H. congruence.
Qed.
Lemma dequeue_misc s x ns : lown (dequeue s x ns) = lown s /\ now (dequeue s x ns) = now s /\
  trace (dequeue s x ns) = trace s /\ lkd (dequeue s x ns) = lkd s /\ nvc (dequeue s x ns) = nvc s.
Proof. unfold dequeue. destruct (wqo (th s x)); simpl; auto. Qed.

Lemma th_rq_append s v x : th (rq_append s v x) = th s. Proof. reflexivity. Qed.
Lemma th_updV s v f : th (updV s v f) = th s. Proof. reflexivity. Qed.
Lemma wqs_rq_append s v x : wqs (rq_append s v x) = wqs s. Proof. reflexivity. Qed.
Lemma wqs_updV s v f : wqs (updV s v f) = wqs s. Proof. reflexivity. Qed.
Lemma wqs_updT s t f : wqs (updT s t f) = wqs s. Proof. reflexivity. Qed.
Lemma vc_updT s t f : vc (updT s t f) = vc s. Proof. reflexivity. Qed.
Lemma vc_rq_append s v x v' : vc (rq_append s v x) v' =
  if Nat.eqb v' v then v_runq (vc s v) (runq (vc s v) ++ [Th x]) else vc s v'.
Proof. reflexivity. Qed.

Ltac proj := rewrite ?th_rq_append, ?th_updV, ?wqs_rq_append, ?wqs_updV, ?wqs_updT, ?vc_rq_append, ?vc_updV, ?vc_updT, ?dequeue_vc.

Lemma WF_wake_by s va x : WF s -> st (th s x) = SLEEPING -> WF (wake_by s va x).
Proof.
  intros W Hs. unfold wake_by.
  pose proof (dequeue_x s x) as Dx. pose proof (dequeue_wqs s x) as Dq.
  destruct (Nat.eqb (vcp (th s x)) va).
  - eapply (WF_wake_char s x _ READY).
    + exact W.
    + left; exact Hs.
    + intros y Hy. proj. rewrite dequeue_th_other; auto.
    + proj. apply Dx.
    + proj. apply Dx.
    + intros q y. proj. apply Dq; auto.
    + intros v y. proj. destruct (Nat.eqb_spec v (vcp (th s x))); subst; simpl; proj; rewrite ?Nat.eqb_refl; simpl; auto. apply pop_sub.
    + left. split; auto. split; intros v; proj;
        destruct (Nat.eqb_spec v (vcp (th s x))); subst; simpl; proj; rewrite ?Nat.eqb_refl; simpl; auto.
  - eapply (WF_wake_char s x _ STANDBY).
    + exact W.
    + left; exact Hs.
    + intros y Hy. proj. rewrite dequeue_th_other; auto.
    + proj. apply Dx.
    + proj. apply Dx.
    + intros q y. proj. apply Dq; auto.
    + intros v y. proj. destruct (Nat.eqb_spec v (vcp (th s x))); subst; simpl; auto.
    + right. split; auto. split; intros v; proj;
        destruct (Nat.eqb_spec v (vcp (th s x))); subst; simpl; auto.
Qed.

(* the idler's time-out wake-up of the sleep-queue front *)
Lemma WF_timeout s v x c : WF s -> front (slq (vc s v)) = Some x -> st (th s x) = SLEEPING ->
  let s1 := updV s v (fun y => v_slq y (fst (pop_front (tsf s) (slq y)))) in
  WF (updV (rq_append (updT (dequeue s1 x READY) x (fun y => t_wk y WTimeout)) v x) v (fun y => v_ipc y c)).
Proof.
  intros W Hf Hs s1.
  assert (Hv : vcp (th s x) = v) by (apply (wf_sl s W), front_in; auto).
  assert (W1 : WF s1).
  { subst s1. apply WF_slq; auto. intros y Hy. left. now apply pop_front_sub in Hy. }
  assert (Hs1 : st (th s1 x) = SLEEPING) by exact Hs.
  pose proof (dequeue_x s1 x READY) as Dx. pose proof (dequeue_wqs s1 x READY W1) as Dq.
  apply WF_updV; [apply vkeeps_ipc|].
  eapply (WF_wake_char s1 x _ READY).
  - exact W1.
  - left; exact Hs1.
  - intros y Hy. proj. rewrite th_updT_other; auto. rewrite dequeue_th_other; auto.
  - proj. rewrite th_updT_same. simpl. apply Dx.
  - proj. rewrite th_updT_same. simpl. apply Dx.
  - intros y0 y. proj. apply Dq.
  - intros v0 y. proj. destruct (Nat.eqb_spec v0 v); subst; simpl; auto.
  - left. split; auto. change (vcp (th s1 x)) with (vcp (th s x)). rewrite Hv.
    split; intros v0; proj; destruct (Nat.eqb_spec v0 v); subst; simpl; auto.
Qed.

(* one element of the stand-by batch *)
Lemma WF_eject1 s v x : WF s -> st (th s x) = STANDBY -> vcp (th s x) = v -> (forall v', ~ In x (sbq (vc s v'))) ->
  let s1 := updT s x (fun y => t_st y READY) in
  let s2 := updV s1 v (fun y => v_slq y (fst (pop (tsf s1) (slq y) x))) in
  WF (rq_append s2 v x).
Proof.
  intros W Hs Hv Hn s1 s2.
  assert (Nq : forall q, ~ In x (wqs s q)).
  { intros q H. apply (wf_wq s W) in H. destruct H; congruence. }
  eapply (WF_wake_char s x _ READY).
  - exact W.
  - right; split; [exact Hs|exact Hn].
  - intros y Hy. subst s2 s1. proj. rewrite th_updT_other; auto.
  - subst s2 s1. proj. now rewrite th_updT_same.
  - subst s2 s1. proj. now rewrite th_updT_same.
  - intros q y. subst s2 s1. proj. split; [|tauto]. intros H. split; auto. intros ->. eapply Nq; eauto.
  - intros v0 y. subst s2 s1. proj.
    destruct (Nat.eqb_spec v0 v); subst; simpl; proj; rewrite ?Nat.eqb_refl; simpl; auto. apply pop_sub.
  - left. split; auto. rewrite Hv.
    split; intros v0; subst s2 s1; proj; destruct (Nat.eqb_spec v0 v); subst; simpl; proj; rewrite ?Nat.eqb_refl; simpl; auto.
Qed.

Lemma WF_eject v : forall l s cnt, WF s ->
  (forall x, In x l -> st (th s x) = STANDBY /\ vcp (th s x) = v) -> NoDup l ->
  (forall x, In x l -> forall v', ~ In x (sbq (vc s v'))) ->
  WF (fst (eject s v l cnt)).
Proof.
  induction l as [|x r IH]; intros s cnt W Hl ND Hn; simpl; auto.
  apply NoDup_cons_iff in ND. destruct ND as [ND1 ND2].
  destruct (Hl x (or_introl eq_refl)) as [Hs Hv].
  apply IH; auto.
  - apply WF_eject1; auto. apply Hn. now left.
  - intros y Hy. assert (y <> x) by (intros ->; auto).
    proj. rewrite th_updT_other; auto. apply Hl. now right.
  - intros y Hy v'. assert (y <> x) by (intros ->; auto).
    proj. intros H'. apply (Hn y (or_intror Hy) v').
    destruct (Nat.eqb_spec v' v); subst; simpl in H'; proj; rewrite ?Nat.eqb_refl in H'; simpl in H'; auto.
Qed.

Lemma eject_same s v l cnt : forall q, wqs (fst (eject s v l cnt)) q = wqs s q.
Proof. revert s cnt. induction l as [|x r IH]; intros s cnt q; simpl; auto. rewrite IH. reflexivity. Qed.

Lemma WF_sbq_nil s v : WF s -> WF (updV s v (fun y => v_sbq y [])).
Proof.
  intros W. constructor.
  - apply (wf_wq s W).
  - intros y v' H. proj. rewrite vc_updV in H. destruct (Nat.eqb_spec v' v); subst; now apply (wf_rq s W).
  - intros v'. rewrite vc_updV. destruct (Nat.eqb_spec v' v); subst; apply (wf_rqnd s W).
  - intros y v' H. rewrite vc_updV in H. destruct (Nat.eqb_spec v' v); subst; [destruct H|]. now apply (wf_sb s W).
  - intros v'. rewrite vc_updV. destruct (Nat.eqb_spec v' v); subst; [constructor|apply (wf_sbnd s W)].
  - intros y v' H. rewrite vc_updV in H. destruct (Nat.eqb_spec v' v); subst; now apply (wf_sl s W).
Qed.

(* thread_create of a NEW thread k on vCPU v *)
Lemma WF_create s v k : WF s -> st (th s k) = NEW -> vcp (th s k) = v ->
  WF (rq_append (updT s k (fun x => t_st x READY)) v k).
Proof.
  intros W Hs Hvk.
  assert (Nq : forall q, ~ In k (wqs s q)) by (intros q H; apply (wf_wq s W) in H; destruct H; congruence).
  assert (Nr : forall v', ~ In (Th k) (runq (vc s v'))) by (intros v' H; apply (wf_rq s W) in H; destruct H as [[H|H] _]; congruence).
  assert (Ns : forall v', ~ In k (sbq (vc s v'))) by (intros v' H; apply (wf_sb s W) in H; destruct H; congruence).
  constructor.
  - intros y q H. proj. assert (y <> k) by (intros ->; eapply Nq; eauto). rewrite th_updT_other; auto. now apply (wf_wq s W).
  - intros y v' H. proj. rewrite vc_rq_append in H. proj.
    destruct (Nat.eqb_spec v' v); subst; simpl in H.
    + apply in_snoc in H. destruct H as [H|H].
      * assert (y <> k) by (intros ->; eapply Nr; eauto). rewrite th_updT_other; auto. now apply (wf_rq s W).
      * inversion H; subst. rewrite th_updT_same. simpl. auto.
    + assert (y <> k) by (intros ->; eapply Nr; eauto). rewrite th_updT_other; auto. now apply (wf_rq s W).
  - intros v'. rewrite vc_rq_append. proj. destruct (Nat.eqb_spec v' v); subst; simpl; [|apply (wf_rqnd s W)].
    apply NoDup_snoc; [apply (wf_rqnd s W)|apply Nr].
  - intros y v' H. rewrite vc_rq_append in H. proj.
    assert (H1 : In y (sbq (vc s v'))) by (destruct (Nat.eqb_spec v' v); subst; auto).
    assert (y <> k) by (intros ->; eapply Ns; eauto). rewrite th_updT_other; auto. now apply (wf_sb s W).
  - intros v'. rewrite vc_rq_append. proj. destruct (Nat.eqb_spec v' v); subst; simpl; apply (wf_sbnd s W).
  - intros y v' H. rewrite vc_rq_append in H. proj.
    assert (H1 : In y (hq (slq (vc s v')))) by (destruct (Nat.eqb_spec v' v); subst; auto).
    pose proof (wf_sl s W y v' H1) as [A B].
    assert (y <> k) by (intros ->; congruence). rewrite th_updT_other; auto.
Qed.

(* thread::die of the current thread t of v *)
Lemma WF_die s v t r : WF s -> runq (vc s v) = Th t :: r ->
  WF (set_running (updT (updV s v (fun x => v_runq x (tl (runq x)))) t (fun x => t_st x DONE)) v).
Proof.
  intros W E. apply WF_set_running.
  assert (Hin : In (Th t) (runq (vc s v))) by (rewrite E; now left).
  pose proof (wf_rq s W t v Hin) as [Hst Hvc].
  pose proof (runq_state s t v W Hin) as (N1 & N2 & N3 & N4).
  pose proof (wf_rqnd s W v) as ND. rewrite E in ND. apply NoDup_cons_iff in ND. destruct ND as [ND1 ND2].
  constructor.
  - intros y q H. proj. assert (y <> t) by (intros ->; eapply not_sleeping_not_queued; eauto).
    rewrite th_updT_other; auto. now apply (wf_wq s W).
  - intros y v' H. proj. rewrite ?vc_updT, ?vc_updV in H.
    assert (H1 : In (Th y) (runq (vc s v')) /\ y <> t).
    { destruct (Nat.eqb_spec v' v); subst; simpl in H.
      - rewrite E in *. simpl in H. split; [now right|]. intros ->. auto.
      - split; auto. intros ->. apply (wf_rq s W) in H. destruct H as [_ H]. congruence. }
    destruct H1. rewrite th_updT_other; auto. now apply (wf_rq s W).
  - intros v'. rewrite ?vc_updT, ?vc_updV. destruct (Nat.eqb_spec v' v); subst; simpl; [rewrite E; auto|apply (wf_rqnd s W)].
  - intros y v' H. proj. rewrite ?vc_updT, ?vc_updV in H.
    assert (H1 : In y (sbq (vc s v'))) by (destruct (Nat.eqb_spec v' v); subst; auto).
    pose proof (wf_sb s W y v' H1) as [A B]. assert (y <> t) by (intros ->; congruence).
    rewrite th_updT_other; auto.
  - intros v'. rewrite ?vc_updT, ?vc_updV. destruct (Nat.eqb_spec v' v); subst; simpl; apply (wf_sbnd s W).
  - intros y v' H. proj. rewrite ?vc_updT, ?vc_updV in H.
    assert (H1 : In y (hq (slq (vc s v')))) by (destruct (Nat.eqb_spec v' v); subst; auto).
    pose proof (wf_sl s W y v' H1) as [A B].
    destruct (Nat.eq_dec y t); subst; [rewrite th_updT_same; simpl; split; [auto|discriminate]|rewrite th_updT_other; auto].
Qed.


(* ---- preservation by every step ------------------------------------------------------------- *)
Lemma WF_lock_done s t l k r en : WF s -> WF (lock_done s t l k r en).
Proof.
  intros W. unfold lock_done. destruct k.
  - destruct (r =? 0); [apply WF_finish, WF_set_held|apply WF_finish]; auto.
  - destruct (r =? 0).
    + destruct (translate ret en0). apply WF_finish, WF_set_held; auto.
    + apply WF_set_pc; auto.
Qed.

Lemma WF_take_err s t a b s1 : WF s -> take_err s t = (a, b, s1) -> WF s1.
Proof.
  intros W H. unfold take_err in H. destruct (err (th s t) =? 0); inversion H; subst; auto.
  apply WF_updT; auto. apply keeps_err.
Qed.
Lemma take_err_vc s t a b s1 : take_err s t = (a, b, s1) -> vc s1 = vc s.
Proof. unfold take_err. destruct (err (th s t) =? 0); intros H; inversion H; subst; reflexivity. Qed.

Lemma WF_mutex_unlock s va l s' : WF s -> mutex_unlock s va l = Some s' -> WF s'.
Proof.
  intros W H. unfold mutex_unlock in H. destruct (wqs s (WMx l)) as [|h q] eqn:E.
  - inversion H; subst. now apply WF_lown.
  - destruct (lk (th s h)); [discriminate|]. inversion H; subst. clear H.
    assert (Hs : st (th s h) = SLEEPING) by (apply (wf_wq s W h (WMx l)); rewrite E; now left).
    apply WF_wake_by.
    + apply WF_updT; [apply keeps_wkerr|]. now apply WF_lown.
    + rewrite th_updT_same. simpl. exact Hs.
Qed.
Lemma WF_do_unlock s va l s' : WF s -> do_unlock s va l = Some s' -> WF s'.
Proof.
  intros W H. unfold do_unlock in H. destruct (lkd s l).
  - eapply WF_mutex_unlock; eauto.
  - inversion H; subst. now apply WF_lown.
Qed.

Lemma WF_lock_try s v t r l k s' : WF s -> runq (vc s v) = Th t :: r -> lock_try s v t l k = Some s' -> WF s'.
Proof.
  intros W E H. unfold lock_try in H. destruct (lown s l).
  - destruct (lkd s l); [|discriminate]. destruct (lk (th s t)); [discriminate|]. inversion H; subst.
    apply WF_set_pc. eapply WF_prepare_usleep; eauto.
  - inversion H; subst. apply WF_lock_done. now apply WF_lown.
Qed.

Lemma WF_yield s v t p : WF s -> WF (set_pc (rotate (updT s t (fun x => t_err x 0)) v) t p).
Proof. intros W. apply WF_set_pc, WF_rotate, WF_updT; auto. apply keeps_err. Qed.

Lemma WF_notify_read s t c all n : WF s -> WF (notify_read s t c all n).
Proof.
  intros W. unfold notify_read. destruct (wqs s (WCv c)); [destruct all; now apply WF_finish|now apply WF_set_pc].
Qed.

Lemma WF_op_step s v t r o s' : WF s -> runq (vc s v) = Th t :: r -> op_step s v t o = Some s' -> WF s'.
Proof.
  intros W E H. destruct o; simpl in H.
  - (* create *)
    destruct (tstate_eqb (st (th s k)) NEW && Nat.leb (nvc s) k && Nat.eqb (vcp (th s k)) v) eqn:C; inversion H; subst; [|now apply WF_finish].
    apply andb_true_iff in C. destruct C as [C C2]. apply andb_true_iff in C. destruct C as [C _].
    destruct (tstate_eqb_spec (st (th s k)) NEW); [|discriminate]. apply Nat.eqb_eq in C2.
    apply WF_finish. now apply WF_create.
  - inversion H; subst. now apply WF_yield.
  - destruct ((expiration_of s d =? 0) || (expiration_of s d <=? now s)).
    + inversion H; subst. now apply WF_yield.
    + destruct (lk (th s t)); [discriminate|]. inversion H; subst. apply WF_set_pc. eapply WF_prepare_usleep; eauto.
  - destruct (alive s k && (0 <? e)).
    + destruct (tstate_eqb (st (th s k)) SLEEPING); inversion H; subst; now apply WF_set_pc.
    + inversion H; subst; now apply WF_finish.
  - destruct (held (th s t) l); [inversion H; subst; now apply WF_finish|]. eapply WF_lock_try; eauto.
  - destruct (held (th s t) l); [|inversion H; subst; now apply WF_finish].
    destruct (do_unlock s v l) eqn:U; [|discriminate]. inversion H; subst.
    apply WF_finish, WF_set_held. eapply WF_do_unlock; eauto.
  - destruct (held (th s t) l); [|inversion H; subst; now apply WF_finish].
    destruct (lk (th s t)); [discriminate|]. inversion H; subst.
    apply WF_set_pc. apply WF_updV; [apply vkeeps_pend|]. eapply WF_prepare_usleep; eauto.
  - inversion H; subst. now apply WF_notify_read.
  - inversion H; subst. now apply WF_notify_read.
  - inversion H; subst. now apply WF_finish.
Qed.

Lemma WF_thread_step s v t r s' : WF s -> runq (vc s v) = Th t :: r -> thread_step s v t = Some s' -> WF s'.
Proof.
  intros W E H. unfold thread_step in H.
  destruct (tpc (th s t)) eqn:P.
  - (* PIdle *)
    destruct (prog (th s t)) as [|o os]; [|eapply WF_op_step; eauto].
    destruct (lk (th s t)); [discriminate|]. destruct (Nat.ltb t (nvc s)); inversion H; subst.
    + apply WF_set_pc. eapply WF_prepare_usleep; eauto.
    + eapply WF_die; eauto.
  - (* PYielded *)
    destruct as_sleep; [destruct (err (th s t) =? 0)|]; inversion H; subst; now apply WF_finish.
  - destruct (take_err s t) as [[a b] s1] eqn:T. inversion H; subst. apply WF_finish. eapply WF_take_err; eauto.
  - (* PParked *)
    destruct (lk (th s t)); [discriminate|]. destruct (take_err s t) as [[a b] s1] eqn:T. inversion H; subst.
    apply WF_set_pc. eapply WF_prepare_usleep; [eapply WF_take_err; eauto|]. erewrite take_err_vc; eauto.
  - destruct (take_err s t) as [[a b] s1] eqn:T. inversion H; subst. apply WF_set_pc. eapply WF_take_err; eauto.
  - eapply WF_lock_try; eauto.
  - (* PLockSlept *)
    destruct (take_err s t) as [[a b] s1] eqn:T. pose proof (WF_take_err _ _ _ _ _ W T) as W1.
    destruct ((a <? 0) && (b =? -1)).
    + destruct (lown s1 l) as [o|]; [destruct (Nat.eqb o t)|]; inversion H; subst;
        try apply WF_lock_done; try apply WF_set_pc; auto.
    + destruct (translate a b). inversion H; subst. now apply WF_lock_done.
  - (* PRetry *)
    destruct (sat_add (now s) 1000 <=? now s).
    + inversion H; subst. now apply WF_yield.
    + destruct (lk (th s t)); [discriminate|]. inversion H; subst. apply WF_set_pc. eapply WF_prepare_usleep; eauto.
  - destruct (take_err s t) as [[a b] s1] eqn:T. inversion H; subst. apply WF_set_pc. eapply WF_take_err; eauto.
  - inversion H; subst. now apply WF_notify_read.
  - destruct (lk (th s x)); [discriminate|]. inversion H; subst. apply WF_set_pc, WF_updT; auto. apply keeps_lk.
  - destruct (wqs s (WCv c)) as [|h q]; [|destruct (Nat.eqb h x)]; inversion H; subst; now apply WF_set_pc.
  - inversion H; subst. apply WF_set_pc, WF_updT; auto. apply keeps_lk.
  - (* PNfGo *)
    destruct (tstate_eqb_spec (st (th s x)) SLEEPING) as [Hs|Hs]; inversion H; subst; apply WF_set_pc.
    + apply WF_wake_by; [apply WF_updT; auto; apply keeps_wkerr|]. rewrite th_updT_same. exact Hs.
    + eapply WF_view; [|exact W]. repeat split; auto.
  - destruct all; inversion H; subst; [apply WF_set_pc|apply WF_finish]; apply WF_updT; auto; apply keeps_lk.
  - destruct (lk (th s k)); [discriminate|]. inversion H; subst. apply WF_set_pc, WF_updT; auto. apply keeps_lk.
  - (* PInLocked *)
    destruct (tstate_eqb_spec (st (th s k)) SLEEPING) as [Hs|Hs]; [destruct (0 <? e)|]; simpl in H; inversion H; subst; apply WF_set_pc; auto.
    apply WF_wake_by; [apply WF_updT; auto; apply keeps_wkerr|]. rewrite th_updT_same. exact Hs.
  - destruct o; inversion H; subst; [apply WF_set_pc|apply WF_finish]; apply WF_updT; auto; apply keeps_lk.
  - destruct (tstate_eqb _ READY && (err (th s k) =? 0)); inversion H; subst; [now apply WF_set_pc|now apply WF_finish].
  - destruct (0 <? e); inversion H; subst; [apply WF_finish, WF_updT; auto; apply keeps_err|now apply WF_finish].
Qed.

Lemma WF_idle_decide s v cnt : WF s -> WF (idle_decide s v cnt).
Proof.
  intros W. unfold idle_decide. destruct (_ || _); (apply WF_updV; [apply vkeeps_ipc|]); auto. now apply WF_rotate.
Qed.

Lemma WF_idler_step s v s' : WF s -> idler_step s v = Some s' -> WF s'.
Proof.
  intros W H. unfold idler_step in H. destruct (vipc (vc s v)) eqn:P.
  - (* IStart: eject the stand-by batch *)
    destruct (eject (updV s v (fun y => v_sbq y [])) v (sbq (vc s v)) 0) as [s1 cnt] eqn:Ej. inversion H; subst.
    apply WF_updV; [apply vkeeps_ipc|].
    change s1 with (fst (s1, cnt)). rewrite <- Ej.
    apply WF_eject.
    + now apply WF_sbq_nil.
    + intros x Hx. proj. now apply (wf_sb s W).
    + apply (wf_sbnd s W).
    + intros x Hx v' Hi. rewrite vc_updV in Hi. destruct (Nat.eqb_spec v' v); subst; simpl in Hi; auto.
      apply (wf_sb s W) in Hi. apply (wf_sb s W) in Hx. destruct Hi, Hx. congruence.
  - destruct (front (slq (vc s v))) as [x|] eqn:F; [|inversion H; subst; now apply WF_idle_decide].
    destruct (now s <? ts (th s x)); [inversion H; subst; now apply WF_idle_decide|].
    destruct (lk (th s x)); [discriminate|].
    match type of H with context [tstate_eqb ?a SLEEPING] => destruct (tstate_eqb_spec a SLEEPING) as [Hs|Hs] end;
      inversion H; subst.
    + apply WF_timeout; auto.
    + apply WF_slq; auto. intros y Hy. left. now apply pop_front_sub in Hy.
  - inversion H; subst. apply WF_updV; auto. apply vkeeps_ipc.
Qed.

Lemma WF_vstep s v s' : WF s -> vstep s v = Some s' -> WF s'.
Proof.
  intros W H. unfold vstep in H. destruct (pend (vc s v)) as [[w l]|].
  - destruct (do_unlock s v l) eqn:U; [|discriminate]. inversion H; subst.
    apply WF_updV; [apply vkeeps_pend|]. apply WF_set_held. eapply WF_do_unlock; eauto.
  - destruct (runq (vc s v)) as [|[t|] r] eqn:E; [discriminate| |].
    + eapply WF_thread_step; eauto.
    + eapply WF_idler_step; eauto.
Qed.

Lemma WF_step s a s' : WF s -> step s a = Some s' -> WF s'.
Proof.
  intros W H. destruct a; simpl in H.
  - eapply WF_vstep; eauto.
  - inversion H; subst. eapply WF_view; [|exact W]. repeat split; auto.
Qed.

Lemma WF_init nv kinds home progs : WF (init nv kinds home progs).
Proof.
  constructor; simpl.
  - intros t q [].
  - intros t v H. destruct (Nat.ltb_spec v nv); [|destruct H].
    destruct H as [H|[H|[]]]; [|discriminate]. inversion H; subst.
    destruct (Nat.ltb_spec t nv); [simpl; auto|lia].
  - intros v. destruct (Nat.ltb v nv); [|constructor].
    constructor; [intros [H|[]]; discriminate|]. constructor; [intros []|constructor].
  - intros x v [].
  - intros v. constructor.
  - intros x v [].
Qed.

Theorem WF_reachable nv kinds home progs s : Reach nv kinds home progs s -> WF s.
Proof.
  induction 1 as [|s a s' R IH H]; [apply WF_init|eapply WF_step; eauto].
Qed.
