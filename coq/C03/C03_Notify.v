(* C03_Notify.v — notify_one / notify_all against concurrent time-outs, interrupts and other notifiers:
   whoever is past ScopedLockHead holds the head's thread.lock (LK), and a notifier whose re-check
   succeeded (PNfGo c x) still sees x at the head of c's queue when it interrupts it (GO), in every
   interleaving.  Hence the model never reaches `bad` (prelocked_thread_interrupt of a non-SLEEPING
   thread), and the race "time-out expiry vs notify_one picking the same head" has exactly one winner. *)
From Coq Require Import ZArith List Bool Arith Lia.
From PV Require Import Base.U64 C04.C04_Heap C03.C03_Model C03.C03_WF C03.C03_Proofs C03.C03_Queue.
Import ListNotations.
Local Open Scope Z_scope.

Definition holds (p : pc) (x : tid) : Prop :=
  match p with
  | PNfLocked _ y _ _ | PNfBackoff _ y _ _ | PNfGo _ y _ _ | PNfUnlock _ y _ _ => y = x
  | PInLocked y _ | PInUnlock y _ _ => y = x
  | _ => False
  end.

(* the invariant, for all threads except the optional stepping thread o *)
Definition NGo (s : state) (o : option tid) : Prop :=
  (forall N x, Some N <> o -> holds (tpc (th s N)) x -> lk (th s x) = Some N) /\
  (forall N c x all n, Some N <> o -> tpc (th s N) = PNfGo c x all n -> hd_error (wqs s (WCv c)) = Some x).
Definition NG (s : state) : Prop := NGo s None.

Lemma NG_weaken s o : NG s -> NGo s o.
Proof. intros [A B]. split; intros; [eapply A|eapply B]; eauto; discriminate. Qed.

Definition ng_same (s s' : state) : Prop :=
  (forall y, tpc (th s' y) = tpc (th s y) /\ lk (th s' y) = lk (th s y)) /\
  (forall c x, hd_error (wqs s (WCv c)) = Some x -> hd_error (wqs s' (WCv c)) = Some x).
Lemma ns_refl s : ng_same s s. Proof. split; auto. Qed.
Lemma ns_trans a b c : ng_same a b -> ng_same b c -> ng_same a c.
Proof.
  intros (A1 & A2) (B1 & B2). split; auto.
  intros y. destruct (A1 y), (B1 y). split; congruence.
Qed.
Lemma NGo_frame s s' o : ng_same s s' -> NGo s o -> NGo s' o.
Proof.
  intros (A1 & A2) [L G]. split.
  - intros N x Ho H. destruct (A1 N) as [E _]. rewrite E in H. destruct (A1 x) as [_ ->]. eauto.
  - intros N c x all n Ho H. destruct (A1 N) as [E _]. rewrite E in H. eauto.
Qed.
Lemma ns_so s s' : sched_only s s' -> (forall q, wqs s' q = wqs s q) -> ng_same s s'.
Proof.
  intros So Hq. split.
  - intros y. pose proof (so_ctl _ _ y So) as E. unfold ctl in E. inversion E. auto.
  - intros c x. now rewrite Hq.
Qed.
Definition nkeeps (f : thr -> thr) : Prop := forall r, tpc (f r) = tpc r /\ lk (f r) = lk r.
Lemma ns_updT s t f : nkeeps f -> ng_same s (updT s t f).
Proof.
  intros K. split; auto. intros y. rewrite th_updT. destruct (Nat.eqb y t) eqn:E; auto.
  apply Nat.eqb_eq in E. subst. apply K.
Qed.
Lemma ns_updV s v g : ng_same s (updV s v g). Proof. split; auto. Qed.
Lemma ns_lown s f : ng_same s (s_lown s f). Proof. split; auto. Qed.
Lemma ns_now s f : ng_same s (s_now s f). Proof. split; auto. Qed.
Lemma ns_bad s : ng_same s (s_bad s). Proof. split; auto. Qed.
Lemma ns_set_held s t l b : ng_same s (set_held s t l b). Proof. apply ns_updT. intros r; auto. Qed.
Lemma ns_set_running s v : ng_same s (set_running s v).
Proof. unfold set_running. destruct (runq (vc s v)) as [|[t|] r]; try apply ns_refl. apply ns_updT. intros r0; auto. Qed.
Lemma ns_rotate s v : ng_same s (rotate s v).
Proof.
  unfold rotate. destruct (runq (vc s v)) as [|e r]; [apply ns_refl|].
  eapply ns_trans; [|apply ns_set_running]. eapply ns_trans; [|apply ns_updV].
  destruct e; [apply ns_updT; intros x; auto|apply ns_refl].
Qed.
Lemma ns_take_err s t a b s1 : take_err s t = (a, b, s1) -> ng_same s s1.
Proof.
  unfold take_err. destruct (err (th s t) =? 0); intros H; inversion H; subst; [apply ns_refl|].
  apply ns_updT. intros r; auto.
Qed.
Lemma ns_eject v : forall l s cnt, ng_same s (fst (eject s v l cnt)).
Proof.
  induction l as [|x r IH]; intros s cnt; simpl; [apply ns_refl|].
  eapply ns_trans; [|apply IH].
  eapply ns_trans; [apply ns_updT with (f := fun y => t_st y READY); intros y; auto|].
  eapply ns_trans; [apply ns_updV|]. unfold rq_append. apply ns_updV.
Qed.
Lemma hd_app {A} (l : list A) e x : hd_error l = Some x -> hd_error (l ++ [e]) = Some x.
Proof. destruct l; simpl; auto. discriminate. Qed.
Lemma ns_prepare s v t q e : ng_same s (prepare_usleep s v t q e).
Proof.
  split.
  - intros y. pose proof (so_ctl _ _ y (so_prepare_usleep s v t q e)) as E. unfold ctl in E. inversion E. auto.
  - intros c x H. unfold prepare_usleep.
    match goal with |- context [set_running ?S v] => destruct (ns_set_running S v) as [_ A]; apply A end.
    rewrite wqs_updV. destruct q as [w0|]; simpl; auto. unfold updq. destruct (wq_eqb_spec (WCv c) w0); subst; auto.
    now apply hd_app.
Qed.

Ltac ns_peel :=
  repeat match goal with
  | |- ng_same ?a ?a => apply ns_refl
  | |- ng_same _ (s_bad _) => eapply ns_trans; [|apply ns_bad]
  | |- ng_same _ (rotate _ _) => eapply ns_trans; [|apply ns_rotate]
  | |- ng_same _ (prepare_usleep _ _ _ _ _) => eapply ns_trans; [|apply ns_prepare]
  | |- ng_same _ (set_running _ _) => eapply ns_trans; [|apply ns_set_running]
  | |- ng_same _ (set_held _ _ _ _) => eapply ns_trans; [|apply ns_set_held]
  | |- ng_same _ (rq_append _ _ _) => eapply ns_trans; [|apply ns_updV]
  | |- ng_same _ (s_lown _ _) => eapply ns_trans; [|apply ns_lown]
  | |- ng_same _ (updT _ _ _) => eapply ns_trans; [|apply ns_updT; intros ?; split; reflexivity]
  | |- ng_same _ (updV _ _ _) => eapply ns_trans; [|apply ns_updV]
  end.

(* the stepping thread t gets a new pc *)
Lemma NGo_set_pc s t p :
  NGo s (Some t) -> (forall x, holds p x -> lk (th s x) = Some t) ->
  (forall c x all n, p = PNfGo c x all n -> hd_error (wqs s (WCv c)) = Some x) ->
  NG (set_pc s t p).
Proof.
  intros [L G] Hh Hg. split.
  - intros N x _ H. unfold set_pc in *. rewrite th_updT in *.
    destruct (Nat.eqb_spec N t); subst; simpl in H.
    + destruct (Nat.eqb_spec x t); subst; simpl; auto.
    + assert (E : lk (th s x) = Some N) by (apply L; auto; congruence).
      destruct (Nat.eqb_spec x t); subst; simpl; auto.
  - intros N c x all n _ H. unfold set_pc in *. rewrite th_updT in H. rewrite wqs_updT.
    destruct (Nat.eqb_spec N t); subst; simpl in H; [eauto|]. eapply G; eauto. congruence.
Qed.
Lemma NGo_finish s t a b : NGo s (Some t) -> NG (finish_op s t a b).
Proof.
  intros [L G]. split.
  - intros N x _ H. unfold finish_op in *. rewrite th_updT in *.
    destruct (Nat.eqb_spec N t); subst; simpl in H; [destruct H|].
    assert (E : lk (th s x) = Some N) by (apply L; auto; congruence).
    destruct (Nat.eqb_spec x t); subst; simpl; auto.
  - intros N c x all n _ H. unfold finish_op in *. rewrite th_updT in H. rewrite wqs_updT.
    destruct (Nat.eqb_spec N t); subst; simpl in H; [discriminate|]. simpl. eapply G; eauto. congruence.
Qed.

(* taking / dropping a thread.lock by the stepping thread *)
Lemma NGo_lock s t x : NGo s (Some t) -> lk (th s x) = None -> NGo (updT s x (fun y => t_lk y (Some t))) (Some t).
Proof.
  intros [L G] Hn. split.
  - intros N x' Ho H. rewrite th_updT in H. assert (E : tpc (th s N) = tpc (if Nat.eqb N x then t_lk (th s x) (Some t) else th s N)) by (destruct (Nat.eqb_spec N x); subst; auto).
    rewrite <- E in H. pose proof (L N x' Ho H) as E2. rewrite th_updT.
    destruct (Nat.eqb_spec x' x); subst; simpl; [congruence|auto].
  - intros N c x' all n Ho H. rewrite th_updT in H. rewrite wqs_updT.
    assert (E : tpc (th s N) = PNfGo c x' all n) by (destruct (Nat.eqb_spec N x); subst; auto). eauto.
Qed.
Lemma NGo_unlock s t x : NGo s (Some t) -> lk (th s x) = Some t -> NGo (updT s x (fun y => t_lk y None)) (Some t).
Proof.
  intros [L G] Hn. split.
  - intros N x' Ho H. rewrite th_updT in H. assert (E : tpc (th s N) = tpc (if Nat.eqb N x then t_lk (th s x) None else th s N)) by (destruct (Nat.eqb_spec N x); subst; auto).
    rewrite <- E in H. pose proof (L N x' Ho H) as E2. rewrite th_updT.
    destruct (Nat.eqb_spec x' x); subst; simpl; [|auto]. assert (N = t) by congruence. subst. congruence.
  - intros N c x' all n Ho H. rewrite th_updT in H. rewrite wqs_updT.
    assert (E : tpc (th s N) = PNfGo c x' all n) by (destruct (Nat.eqb_spec N x); subst; auto). eauto.
Qed.

(* waking y while its thread.lock is free or held by the stepping thread *)
Lemma hd_remove (y x : tid) l : hd_error l = Some x -> x <> y -> hd_error (remove Nat.eq_dec y l) = Some x.
Proof.
  destruct l as [|a l]; simpl; [discriminate|]. intros H; inversion H; subst. intros Hn.
  destruct (Nat.eq_dec y x); [congruence|reflexivity].
Qed.
Lemma dequeue_hd s y ns c x : hd_error (wqs s (WCv c)) = Some x -> x <> y -> hd_error (wqs (dequeue s y ns) (WCv c)) = Some x.
Proof.
  intros H Hn. unfold dequeue. destruct (wqo (th s y)) as [w|]; simpl; auto.
  unfold updq. destruct (wq_eqb_spec (WCv c) w); subst; auto. now apply hd_remove.
Qed.
Lemma NGo_wake s o va y :
  NGo s o -> (lk (th s y) = None \/ exists t, o = Some t /\ lk (th s y) = Some t) -> NGo (wake_by s va y) o.
Proof.
  intros [L G] Hy.
  assert (F : forall z, tpc (th (wake_by s va y) z) = tpc (th s z) /\ lk (th (wake_by s va y) z) = lk (th s z)).
  { intros z. pose proof (so_ctl _ _ z (so_wake_by s va y)) as E. unfold ctl in E. inversion E. auto. }
  split.
  - intros N x Ho H. destruct (F N) as [E _]. rewrite E in H. destruct (F x) as [_ ->]. eauto.
  - intros N c x all n Ho H. destruct (F N) as [E _]. rewrite E in H.
    pose proof (G _ _ _ _ _ Ho H) as Hh.
    assert (Hl : lk (th s x) = Some N) by (apply L; auto; rewrite H; simpl; auto).
    assert (x <> y).
    { intros ->. destruct Hy as [Hy|(t & -> & Hy)]; congruence. }
    unfold wake_by. destruct (Nat.eqb _ va); proj; now apply dequeue_hd.
Qed.

Lemma wb_lk s va y z : lk (th (wake_by s va y) z) = lk (th s z).
Proof. pose proof (so_ctl _ _ z (so_wake_by s va y)) as E. unfold ctl in E. now inversion E. Qed.

Ltac ng_frame G := eapply NGo_frame; [|exact G]; ns_peel.
Ltac nohold := let x := fresh in let H := fresh in intros x H; destruct H.
Ltac nogo := intros; discriminate.

Lemma NG_lock_done s t l k r en : NGo s (Some t) -> NG (lock_done s t l k r en).
Proof.
  intros G. unfold lock_done. destruct k.
  - destruct (r =? 0); apply NGo_finish; auto. ng_frame G.
  - destruct (r =? 0).
    + destruct (translate ret en0). apply NGo_finish. ng_frame G.
    + apply NGo_set_pc; auto; [nohold|nogo].
Qed.

Lemma NGo_mutex_unlock s o va l s' : NGo s o -> mutex_unlock s va l = Some s' -> NGo s' o.
Proof.
  intros G H. unfold mutex_unlock in H. destruct (wqs s (WMx l)) as [|h q] eqn:E.
  - inversion H; subst. ng_frame G.
  - destruct (lk (th s h)) eqn:El; [discriminate|]. inversion H; subst. clear H.
    apply NGo_wake.
    + ng_frame G.
    + left. rewrite th_updT_same. simpl. exact El.
Qed.
Lemma NGo_do_unlock s o va l s' : NGo s o -> do_unlock s va l = Some s' -> NGo s' o.
Proof.
  intros G H. unfold do_unlock in H. destruct (lkd s l).
  - eapply NGo_mutex_unlock; eauto.
  - inversion H; subst. ng_frame G.
Qed.

Lemma NG_lock_try s v t l k s' : NGo s (Some t) -> lock_try s v t l k = Some s' -> NG s'.
Proof.
  intros G H. unfold lock_try in H. destruct (lown s l).
  - destruct (lkd s l); [|discriminate]. destruct (lk (th s t)); [discriminate|]. inversion H; subst.
    apply NGo_set_pc; [ng_frame G|nohold|nogo].
  - inversion H; subst. apply NG_lock_done. ng_frame G.
Qed.

Lemma NG_yield s v t p : (forall x, ~ holds p x) -> (forall c x all n, p <> PNfGo c x all n) -> NGo s (Some t) ->
  NG (set_pc (rotate (updT s t (fun x => t_err x 0)) v) t p).
Proof. intros Hh Hg G. apply NGo_set_pc; [ng_frame G|intros x H; destruct (Hh x H)|intros c x all n E; destruct (Hg _ _ _ _ E)]. Qed.

Lemma NG_notify_read s t c all n : NGo s (Some t) -> NG (notify_read s t c all n).
Proof.
  intros G. unfold notify_read. destruct (wqs s (WCv c)); [destruct all; now apply NGo_finish|].
  apply NGo_set_pc; auto; [nohold|nogo].
Qed.

Lemma NG_op_step s v t o s' : NG s -> op_step s v t o = Some s' -> NG s'.
Proof.
  intros G0 H. pose proof (NG_weaken s (Some t) G0) as G.
  destruct o; simpl in H.
  - destruct (_ && _ && _); inversion H; subst; apply NGo_finish; auto. ng_frame G.
  - inversion H; subst. apply NG_yield; auto. nogo.
  - destruct (_ || _).
    + inversion H; subst. apply NG_yield; auto. nogo.
    + destruct (lk (th s t)); [discriminate|]. inversion H; subst.
      apply NGo_set_pc; [ng_frame G|nohold|nogo].
  - destruct (alive s k && (0 <? e)).
    + destruct (tstate_eqb (st (th s k)) SLEEPING); inversion H; subst; (apply NGo_set_pc; [auto|nohold|nogo]).
    + inversion H; subst. now apply NGo_finish.
  - destruct (held (th s t) l); [inversion H; subst; now apply NGo_finish|]. eapply NG_lock_try; eauto.
  - destruct (held (th s t) l); [|inversion H; subst; now apply NGo_finish].
    destruct (do_unlock s v l) eqn:U; [|discriminate]. inversion H; subst.
    apply NGo_finish. eapply NGo_frame; [apply ns_set_held|]. eapply NGo_do_unlock; eauto.
  - destruct (held (th s t) l); [|inversion H; subst; now apply NGo_finish].
    destruct (lk (th s t)); [discriminate|]. inversion H; subst.
    apply NGo_set_pc; [ng_frame G|nohold|nogo].
  - inversion H; subst. now apply NG_notify_read.
  - inversion H; subst. now apply NG_notify_read.
  - inversion H; subst. now apply NGo_finish.
Qed.

Lemma NGo_take_err s o t a b s1 : NGo s o -> take_err s t = (a, b, s1) -> NGo s1 o.
Proof. intros G H. eapply NGo_frame; [eapply ns_take_err; eauto|exact G]. Qed.

Lemma NG_thread_step s v t s' : NG s -> thread_step s v t = Some s' -> NG s'.
Proof.
  intros G0 H. pose proof (NG_weaken s (Some t) G0) as G. destruct G0 as [L0 G0']. unfold thread_step in H.
  destruct (tpc (th s t)) eqn:P.
  - destruct (prog (th s t)) as [|o os]; [|eapply NG_op_step; eauto; split; auto].
    destruct (lk (th s t)); [discriminate|]. destruct (Nat.ltb t (nvc s)); inversion H; subst.
    + apply NGo_set_pc; [ng_frame G|nohold|nogo].
    + (* die: the thread keeps pc PIdle, which holds nothing *)
      eapply NGo_frame; [|split; [exact L0|exact G0']]. ns_peel.
  - destruct as_sleep; [destruct (err (th s t) =? 0)|]; inversion H; subst; now apply NGo_finish.
  - destruct (take_err s t) as [[a b] s1] eqn:T. inversion H; subst. apply NGo_finish. eapply NGo_take_err; eauto.
  - destruct (lk (th s t)); [discriminate|]. destruct (take_err s t) as [[a b] s1] eqn:T. inversion H; subst.
    apply NGo_set_pc; [|nohold|nogo]. eapply NGo_frame; [apply ns_prepare|]. eapply NGo_take_err; eauto.
  - destruct (take_err s t) as [[a b] s1] eqn:T. inversion H; subst.
    apply NGo_set_pc; [eapply NGo_take_err; eauto|nohold|nogo].
  - eapply NG_lock_try; eauto.
  - destruct (take_err s t) as [[a b] s1] eqn:T. pose proof (NGo_take_err _ _ _ _ _ _ G T) as G1.
    destruct ((a <? 0) && (b =? -1)).
    + destruct (lown s1 l) as [o|]; [destruct (Nat.eqb o t)|]; inversion H; subst;
        try apply NG_lock_done; try (apply NGo_set_pc; [|nohold|nogo]); auto.
    + destruct (translate a b). inversion H; subst. now apply NG_lock_done.
  - destruct (sat_add (now s) 1000 <=? now s).
    + inversion H; subst. apply NG_yield; auto. nogo.
    + destruct (lk (th s t)); [discriminate|]. inversion H; subst.
      apply NGo_set_pc; [ng_frame G|nohold|nogo].
  - destruct (take_err s t) as [[a b] s1] eqn:T. inversion H; subst.
    apply NGo_set_pc; [eapply NGo_take_err; eauto|nohold|nogo].
  - inversion H; subst. now apply NG_notify_read.
  - (* PNfLocking: take x.lock *)
    destruct (lk (th s x)) eqn:El; [discriminate|]. inversion H; subst.
    apply NGo_set_pc; [apply NGo_lock; auto| |nogo].
    intros y Hy. simpl in Hy. subst. rewrite th_updT_same. reflexivity.
  - (* PNfLocked: re-check *)
    assert (Hl : lk (th s x) = Some t) by (apply L0; [discriminate|rewrite P; simpl; auto]).
    destruct (wqs s (WCv c)) as [|h q] eqn:Eq; [|destruct (Nat.eqb_spec h x)]; inversion H; subst.
    + apply NGo_set_pc; [auto| |nogo]. intros y Hy; simpl in Hy; subst; exact Hl.
    + apply NGo_set_pc; [auto| |].
      * intros y Hy; simpl in Hy; subst; exact Hl.
      * intros c0 x0 all0 n0 E. inversion E; subst. rewrite Eq. reflexivity.
    + apply NGo_set_pc; [auto| |nogo]. intros y Hy; simpl in Hy; subst; exact Hl.
  - (* PNfBackoff *)
    assert (Hl : lk (th s x) = Some t) by (apply L0; [discriminate|rewrite P; simpl; auto]).
    inversion H; subst. apply NGo_set_pc; [apply NGo_unlock; auto|nohold|nogo].
  - (* PNfGo *)
    assert (Hl : lk (th s x) = Some t) by (apply L0; [discriminate|rewrite P; simpl; auto]).
    destruct (tstate_eqb (st (th s x)) SLEEPING); inversion H; subst.
    + apply NGo_set_pc; [| |nogo].
      * apply NGo_wake; [ng_frame G|]. right. exists t. split; auto. rewrite th_updT_same. simpl. exact Hl.
      * intros y Hy. simpl in Hy. subst.
        rewrite wb_lk, th_updT_same. simpl. exact Hl.
    + apply NGo_set_pc; [ng_frame G| |nogo]. intros y Hy. simpl in Hy. subst. exact Hl.
  - (* PNfUnlock *)
    assert (Hl : lk (th s x) = Some t) by (apply L0; [discriminate|rewrite P; simpl; auto]).
    destruct all; inversion H; subst.
    + apply NGo_set_pc; [apply NGo_unlock; auto|nohold|nogo].
    + apply NGo_finish. apply NGo_unlock; auto.
  - destruct (lk (th s k)) eqn:El; [discriminate|]. inversion H; subst.
    apply NGo_set_pc; [apply NGo_lock; auto| |nogo].
    intros y Hy. simpl in Hy. subst. rewrite th_updT_same. reflexivity.
  - assert (Hl : lk (th s k) = Some t) by (apply L0; [discriminate|rewrite P; simpl; auto]).
    destruct (tstate_eqb (st (th s k)) SLEEPING && (0 <? e)); inversion H; subst.
    + apply NGo_set_pc; [| |nogo].
      * apply NGo_wake; [ng_frame G|]. right. exists t. split; auto. rewrite th_updT_same. simpl. exact Hl.
      * intros y Hy. simpl in Hy. subst.
        rewrite wb_lk, th_updT_same. simpl. exact Hl.
    + apply NGo_set_pc; [auto| |nogo]. intros y Hy. simpl in Hy. subst. exact Hl.
  - assert (Hl : lk (th s k) = Some t) by (apply L0; [discriminate|rewrite P; simpl; auto]).
    destruct o; inversion H; subst.
    + apply NGo_set_pc; [apply NGo_unlock; auto|nohold|nogo].
    + apply NGo_finish. apply NGo_unlock; auto.
  - destruct (tstate_eqb _ READY && (err (th s k) =? 0)); inversion H; subst; [apply NGo_set_pc; [auto|nohold|nogo]|now apply NGo_finish].
  - destruct (0 <? e); inversion H; subst; apply NGo_finish; auto. ng_frame G.
Qed.

Lemma NGo_dequeue s o y ns :
  NGo s o -> (lk (th s y) = None \/ exists t, o = Some t /\ lk (th s y) = Some t) -> NGo (dequeue s y ns) o.
Proof.
  intros [L G] Hy.
  assert (F : forall z, tpc (th (dequeue s y ns) z) = tpc (th s z) /\ lk (th (dequeue s y ns) z) = lk (th s z)).
  { intros z. pose proof (so_ctl _ _ z (so_dequeue s y ns)) as E. unfold ctl in E. inversion E. auto. }
  split.
  - intros N x Ho H. destruct (F N) as [E _]. rewrite E in H. destruct (F x) as [_ ->]. eauto.
  - intros N c x all n Ho H. destruct (F N) as [E _]. rewrite E in H.
    pose proof (G _ _ _ _ _ Ho H) as Hh.
    assert (Hl : lk (th s x) = Some N) by (apply L; auto; rewrite H; simpl; auto).
    assert (x <> y).
    { intros ->. destruct Hy as [Hy|(t & -> & Hy)]; congruence. }
    now apply dequeue_hd.
Qed.

Lemma ns_idle_decide s v cnt : ng_same s (idle_decide s v cnt).
Proof. unfold idle_decide. destruct (_ || _); ns_peel. Qed.

Lemma NG_idler_step s v s' : NG s -> idler_step s v = Some s' -> NG s'.
Proof.
  intros G H. unfold idler_step in H. destruct (vipc (vc s v)).
  - destruct (eject (updV s v (fun y => v_sbq y [])) v (sbq (vc s v)) 0) as [s1 cnt] eqn:Ej. inversion H; subst.
    eapply NGo_frame; [|exact G]. eapply ns_trans; [|apply ns_updV].
    change s1 with (fst (s1, cnt)). rewrite <- Ej. eapply ns_trans; [|apply ns_eject]. apply ns_updV.
  - destruct (front (slq (vc s v))) as [x|]; [|inversion H; subst; eapply NGo_frame; [apply ns_idle_decide|exact G]].
    destruct (now s <? ts (th s x)); [inversion H; subst; eapply NGo_frame; [apply ns_idle_decide|exact G]|].
    destruct (lk (th s x)) eqn:El; [discriminate|].
    match type of H with context [tstate_eqb ?a SLEEPING] => destruct (tstate_eqb a SLEEPING) end; inversion H; subst.
    + eapply NGo_frame; [eapply ns_trans; [eapply ns_trans; [apply ns_updT with (f := fun y => t_wk y WTimeout); intros r; auto|apply ns_updV]|apply ns_updV]|].
      apply NGo_dequeue; [eapply NGo_frame; [apply ns_updV|exact G]|]. left. exact El.
    + eapply NGo_frame; [apply ns_updV|exact G].
  - inversion H; subst. eapply NGo_frame; [apply ns_updV|exact G].
Qed.

Lemma NG_vstep s v s' : NG s -> vstep s v = Some s' -> NG s'.
Proof.
  intros G H. unfold vstep in H. destruct (pend (vc s v)) as [[w l]|].
  - destruct (do_unlock s v l) eqn:U; [|discriminate]. inversion H; subst.
    eapply NGo_frame; [eapply ns_trans; [apply ns_set_held|apply ns_updV]|]. eapply NGo_do_unlock; eauto.
  - destruct (runq (vc s v)) as [|[t|] r]; [discriminate| |].
    + eapply NG_thread_step; eauto.
    + eapply NG_idler_step; eauto.
Qed.

Theorem NG_reachable nv kinds home progs s : Reach nv kinds home progs s -> NG s.
Proof.
  induction 1 as [|s a s' R IH H].
  - split.
    + intros N x _ H. simpl in H. destruct (Nat.ltb N nv); destruct H.
    + intros N c x all n _ H. simpl in H. destruct (Nat.ltb N nv); discriminate.
  - destruct a; simpl in H.
    + eapply NG_vstep; eauto.
    + inversion H; subst. eapply NGo_frame; [apply ns_now|exact IH].
Qed.

(* ---- property theorems ------------------------------------------------------------------------ *)

(* a thread past ScopedLockHead / inside thread_interrupt's locked section holds that thread.lock:
   time-out expiry (needs the lock free), other notifiers and interrupters are excluded meanwhile *)
Theorem head_lock_held nv kinds home progs s N x :
  Reach nv kinds home progs s -> holds (tpc (th s N)) x -> lk (th s x) = Some N.
Proof. intros R H. destruct (NG_reachable _ _ _ _ _ R) as [L _]. apply L; auto. discriminate. Qed.

(* notify_one_exact, linearisation point: when the notifier executes prelocked_thread_interrupt(x) the
   thread x is (still) the head of the queue, SLEEPING, pointing at this queue, and locked by the notifier.
   In particular "time-out expiry vs notify_one picking the same head" has exactly one winner: had the
   timer dequeued x first, the re-check would have failed and the notifier would not be at PNfGo. *)
Theorem notify_go_head nv kinds home progs s N c x all n :
  Reach nv kinds home progs s -> tpc (th s N) = PNfGo c x all n ->
  hd_error (wqs s (WCv c)) = Some x /\ lk (th s x) = Some N /\ st (th s x) = SLEEPING /\
  wqo (th s x) = Some (WCv c).
Proof.
  intros R H. destruct (NG_reachable _ _ _ _ _ R) as [L G]. pose proof (WF_reachable _ _ _ _ _ R) as W.
  assert (Hh : hd_error (wqs s (WCv c)) = Some x) by (eapply G; eauto; discriminate).
  assert (Hi : In x (wqs s (WCv c))) by (destruct (wqs s (WCv c)); inversion Hh; now left).
  destruct (wf_wq s W _ _ Hi). repeat split; auto. apply L; [discriminate|]. rewrite H. simpl. auto.
Qed.

(* the Go step: exactly x leaves the queue, becomes READY (same vCPU) or STANDBY (other vCPU) with
   error_number = -1 and ghost reason "notified by N"; every other thread keeps its state, queue,
   error number; the model does not leave its domain (`bad` is not set by this step) *)
Theorem notify_go_effect nv kinds home progs s v N c x all n s' r :
  Reach nv kinds home progs s -> runq (vc s v) = Th N :: r -> pend (vc s v) = None ->
  tpc (th s N) = PNfGo c x all n -> vstep s v = Some s' ->
  bad s' = bad s /\
  ~ In x (wqs s' (WCv c)) /\ (forall q y, In y (wqs s' q) <-> In y (wqs s q) /\ y <> x) /\
  (st (th s' x) = READY \/ st (th s' x) = STANDBY) /\ err (th s' x) = -1 /\ wk (th s' x) = WNotified N /\
  (forall y, y <> x -> st (th s' y) = st (th s y) /\ err (th s' y) = err (th s y) /\ wk (th s' y) = wk (th s y) /\
                       wqo (th s' y) = wqo (th s y)) /\
  tpc (th s' N) = PNfUnlock c x all n.
Proof.
  intros R E Pn P H. destruct (notify_go_head _ _ _ _ _ _ _ _ _ _ R P) as (Hh & Hl & Hs & Hq).
  pose proof (WF_reachable _ _ _ _ _ R) as W.
  unfold vstep in H. rewrite Pn, E in H. unfold thread_step in H. rewrite P in H.
  rewrite Hs in H. simpl in H. inversion H; subst. clear H.
  set (s1 := updT s x (fun y => t_wk (t_err y (-1)) (WNotified N))).
  assert (W1 : WF s1) by (apply WF_updT; auto; apply keeps_wkerr).
  assert (Nx : N <> x).
  { intros ->. pose proof (wf_rq s W x v) as Hr. rewrite E in Hr. destruct (Hr (or_introl eq_refl)) as [[A|A] _]; congruence. }
  assert (Fx : forall (A : Type) (f : thr -> A), (forall r0, f (t_pc r0 (PNfUnlock c x all n)) = f r0) -> forall y,
             f (th (set_pc (wake_by s1 v x) N (PNfUnlock c x all n)) y) = f (th (wake_by s1 v x) y)).
  { intros A f Hf y. unfold set_pc. rewrite th_updT. destruct (Nat.eqb_spec y N); subst; auto. }
  assert (Dq : forall q y, In y (wqs (wake_by s1 v x) q) <-> In y (wqs s q) /\ y <> x).
  { intros q y. rewrite wb_wqs; auto. subst s1. rewrite wqs_updT. tauto. }
  assert (Ox : forall y, y <> x -> th (wake_by s1 v x) y = th s y).
  { intros y Hy. unfold wake_by. destruct (Nat.eqb _ v); proj; rewrite dequeue_th_other; auto;
      subst s1; rewrite th_updT_other; auto. }
  pose proof (dequeue_x s1 x) as Dx.
  assert (Xf : (st (th (wake_by s1 v x) x) = READY \/ st (th (wake_by s1 v x) x) = STANDBY) /\
               err (th (wake_by s1 v x) x) = -1 /\ wk (th (wake_by s1 v x) x) = WNotified N).
  { unfold wake_by. destruct (Nat.eqb _ v); proj.
    - destruct (Dx READY) as (A & _ & _ & B & C & _). rewrite A, B, C. subst s1. rewrite th_updT_same. simpl. auto.
    - destruct (Dx STANDBY) as (A & _ & _ & B & C & _). rewrite A, B, C. subst s1. rewrite th_updT_same. simpl. auto. }
  destruct Xf as (X1 & X2 & X3).
  split; [|split; [|split; [|split; [|split; [|split; [|split]]]]]].
  - unfold set_pc. simpl. destruct (so_wake_by s1 v x) as (_ & _ & _ & _ & _ & B & _). rewrite B. reflexivity.
  - unfold set_pc. rewrite wqs_updT. intros Hi. apply Dq in Hi. tauto.
  - intros q y. unfold set_pc. rewrite wqs_updT. apply Dq.
  - rewrite (Fx _ st) by reflexivity. exact X1.
  - rewrite (Fx _ err) by reflexivity. exact X2.
  - rewrite (Fx _ wk) by reflexivity. exact X3.
  - intros y Hy. rewrite (Fx _ st), (Fx _ err), (Fx _ wk), (Fx _ wqo) by reflexivity. rewrite Ox; auto.
  - unfold set_pc. rewrite th_updT_same. reflexivity.
Qed.

(* notify_one returns null / notify_all returns only when it READS an empty queue: the read step *)
Theorem notify_returns_on_empty_only s t c all n :
  wqs s (WCv c) <> [] -> tpc (th (notify_read s t c all n) t) <> PIdle.
Proof.
  intros Hne. unfold notify_read. destruct (wqs s (WCv c)) as [|x q]; [congruence|].
  unfold set_pc. rewrite th_updT_same. simpl. discriminate.
Qed.
