(* C03_Result.v — what wait() returns is decided by the wake-up: error_number = -1 only after a
   notification picked this waiter (or, in the mutex queue, a hand-off); a timer wake-up only at or after
   the deadline; error_number = 0 at the resumption only for a timer wake-up.  Inductive invariant RS over
   every interleaving (with interrupts: their error numbers are > 0). *)
From Coq Require Import ZArith List Bool Arith Lia.
From PV Require Import Base.U64 C04.C04_Heap C03.C03_Model C03.C03_WF C03.C03_Proofs C03.C03_Queue C03.C03_Notify.
Import ListNotations.
Local Open Scope Z_scope.

Definition blocked_pc (p : pc) : Prop :=
  (exists c l, p = PWaitSlept c l) \/ (exists l k, p = PLockSlept l k).

Record RS (s : state) : Prop := mkRS {
  rs_cv : forall t c, In t (wqs s (WCv c)) -> exists l, tpc (th s t) = PWaitSlept c l;
  rs_mx : forall t l, In t (wqs s (WMx l)) -> exists k, tpc (th s t) = PLockSlept l k;
  rs_sl : forall t, st (th s t) = SLEEPING -> wk (th s t) = WNone;
  rs_err : forall t, err (th s t) = -1 ->
             (exists c l n, tpc (th s t) = PWaitSlept c l /\ wk (th s t) = WNotified n) \/
             (exists l k, tpc (th s t) = PLockSlept l k /\ wk (th s t) = WHandoff);
  rs_to : forall t c l, tpc (th s t) = PWaitSlept c l -> wk (th s t) = WTimeout -> ts (th s t) <= now s;
  rs_e0 : forall t c l, tpc (th s t) = PWaitSlept c l -> err (th s t) = 0 ->
             wk (th s t) = WNone \/ wk (th s t) = WTimeout;
  rs_now : now s <= MAX64
}.

(* frame: control/ghost fields unchanged, threads only stop SLEEPING, queues only shrink, time only grows *)
Definition rs_mono (s s' : state) : Prop :=
  (forall y, tpc (th s' y) = tpc (th s y) /\ wk (th s' y) = wk (th s y) /\ err (th s' y) = err (th s y) /\
             ts (th s' y) = ts (th s y) /\ (st (th s' y) = SLEEPING -> st (th s y) = SLEEPING)) /\
  (forall q y, In y (wqs s' q) -> In y (wqs s q)) /\ now s' = now s.
Lemma rm_refl s : rs_mono s s. Proof. repeat split; auto. Qed.
Lemma rm_trans a b c : rs_mono a b -> rs_mono b c -> rs_mono a c.
Proof.
  intros (A1 & A2 & A3) (B1 & B2 & B3). split; [|split]; [|auto|congruence].
  intros y. destruct (A1 y) as (a1 & a2 & a3 & a4 & a5), (B1 y) as (b1 & b2 & b3 & b4 & b5).
  repeat split; try congruence. auto.
Qed.
Lemma RS_frame s s' : rs_mono s s' -> RS s -> RS s'.
Proof.
  intros (A1 & A2 & A3) R. constructor.
  - intros t c H. apply A2 in H. destruct (A1 t) as (-> & _). now apply (rs_cv s R).
  - intros t l H. apply A2 in H. destruct (A1 t) as (-> & _). now apply (rs_mx s R).
  - intros t H. destruct (A1 t) as (_ & -> & _ & _ & E). apply (rs_sl s R). auto.
  - intros t H. destruct (A1 t) as (-> & -> & E & _). rewrite E in H. now apply (rs_err s R).
  - intros t c l H1 H2. destruct (A1 t) as (E1 & E2 & _ & E4 & _). rewrite E1 in H1. rewrite E2 in H2. rewrite E4.
    rewrite A3. exact (rs_to s R _ _ _ H1 H2).
  - intros t c l H1 H2. destruct (A1 t) as (E1 & E2 & E3 & _). rewrite E1 in H1. rewrite E3 in H2. rewrite E2.
    eapply (rs_e0 s R); eauto.
  - rewrite A3. apply (rs_now s R).
Qed.

Definition rkeeps (f : thr -> thr) : Prop :=
  forall r, tpc (f r) = tpc r /\ wk (f r) = wk r /\ err (f r) = err r /\ ts (f r) = ts r /\ (st (f r) = SLEEPING -> st r = SLEEPING).
Lemma rm_updT s t f : rkeeps f -> rs_mono s (updT s t f).
Proof.
  intros K. split; [|split]; [|auto|reflexivity]. intros y. rewrite th_updT. destruct (Nat.eqb y t) eqn:E.
  - apply Nat.eqb_eq in E. subst. apply K.
  - repeat split; auto.
Qed.
Lemma rm_updV s v g : rs_mono s (updV s v g). Proof. split; [|split]; [|auto|reflexivity]. intros y. repeat split; auto. Qed.
Lemma rm_lown s f : rs_mono s (s_lown s f). Proof. split; [|split]; [|auto|reflexivity]. intros y. repeat split; auto. Qed.
Lemma rm_bad s : rs_mono s (s_bad s). Proof. split; [|split]; [|auto|reflexivity]. intros y. repeat split; auto. Qed.
Lemma RS_tick s d : RS s -> RS (tick s d).
Proof.
  intros R. pose proof (rs_now s R) as Hn.
  assert (Hm : now s <= now (tick s d) <= MAX64).
  { unfold tick. simpl. unfold sat_add. destruct (MAX64 <? now s + Z.max 0 d) eqn:E; [lia|]. apply Z.ltb_ge in E. lia. }
  constructor; try (intros; first [eapply (rs_cv s R)|eapply (rs_mx s R)|eapply (rs_sl s R)|eapply (rs_err s R)|eapply (rs_e0 s R)]; eauto; fail).
  - intros t c l H1 H2. pose proof (rs_to s R _ _ _ H1 H2). change (ts (th (tick s d) t)) with (ts (th s t)). lia.
  - lia.
Qed.
