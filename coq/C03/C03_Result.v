(* C03_Result.v — what wait() returns is decided by the wake-up: error_number = -1 only after a
   notification picked this waiter (or, in the mutex queue, a hand-off); a timer wake-up only at or after
   the deadline; error_number = 0 at the resumption only for a timer wake-up.  Inductive invariant RS over
   every interleaving (with interrupts: their error numbers are > 0). *)
From Coq Require Import ZArith List Bool Arith Lia.
From PV Require Import Base.U64 C04.C04_Heap C03.C03_Model C03.C03_WF C03.C03_Proofs C03.C03_Queue C03.C03_Notify.
Import ListNotations.
Local Open Scope Z_scope.

Definition blocked_pc (p : pc) : Prop :=
  (exists c l, p = PWaitSlept c l) \/ (exists l k, p = PLockSlept l k).

Record RSo (s : state) (o : option tid) : Prop := mkRS {
  rs_cv : forall t c, In t (wqs s (WCv c)) -> exists l, tpc (th s t) = PWaitSlept c l;
  rs_mx : forall t l, In t (wqs s (WMx l)) -> exists k, tpc (th s t) = PLockSlept l k;
  rs_sl : forall t, st (th s t) = SLEEPING -> wk (th s t) = WNone;
  rs_err : forall t, Some t <> o -> err (th s t) = -1 ->
             (exists c l n, tpc (th s t) = PWaitSlept c l /\ wk (th s t) = WNotified n) \/
             (exists l k, tpc (th s t) = PLockSlept l k /\ wk (th s t) = WHandoff);
  rs_to : forall t c l, Some t <> o -> tpc (th s t) = PWaitSlept c l -> wk (th s t) = WTimeout -> ts (th s t) <= now s;
  rs_e0 : forall t c l, Some t <> o -> tpc (th s t) = PWaitSlept c l -> err (th s t) = 0 ->
             wk (th s t) = WNone \/ wk (th s t) = WTimeout;
  rs_now : now s <= MAX64
}.
Definition RS (s : state) : Prop := RSo s None.
Lemma RS_weaken s o : RS s -> RSo s o.
Proof.
  intros R. constructor; try (apply R).
  - intros t _. apply (rs_err s None R). discriminate.
  - intros t c l _. apply (rs_to s None R). discriminate.
  - intros t c l _. apply (rs_e0 s None R). discriminate.
Qed.

(* frame: control/ghost fields unchanged, threads only stop SLEEPING, queues only shrink, time only grows *)
Definition rs_mono (s s' : state) : Prop :=
  (forall y, tpc (th s' y) = tpc (th s y) /\ wk (th s' y) = wk (th s y) /\ err (th s' y) = err (th s y) /\
             ts (th s' y) = ts (th s y) /\ (st (th s' y) = SLEEPING -> st (th s y) = SLEEPING)) /\
  (forall q y, In y (wqs s' q) -> In y (wqs s q)) /\ now s' = now s.
Lemma rm_refl s : rs_mono s s. Proof. repeat split; auto. Qed.
Lemma rm_trans a b c : rs_mono a b -> rs_mono b c -> rs_mono a c.
Proof.
  intros (A1 & A2 & A3) (B1 & B2 & B3). split; [|split]; [|auto|congruence].
  intros y. destruct (A1 y) as (a1 & a2 & a3 & a4 & a5), (B1 y) as (b1 & b2 & b3 & b4 & b5).
  repeat split; try congruence. auto.
Qed.
Lemma RS_frame s s' o : rs_mono s s' -> RSo s o -> RSo s' o.
Proof.
  intros (A1 & A2 & A3) R. constructor.
  - intros t c H. apply A2 in H. destruct (A1 t) as (-> & _). now apply (rs_cv s o R).
  - intros t l H. apply A2 in H. destruct (A1 t) as (-> & _). now apply (rs_mx s o R).
  - intros t H. destruct (A1 t) as (_ & -> & _ & _ & E). apply (rs_sl s o R). auto.
  - intros t Ho H. destruct (A1 t) as (-> & -> & E & _). rewrite E in H. now apply (rs_err s o R).
  - intros t c l Ho H1 H2. destruct (A1 t) as (E1 & E2 & _ & E4 & _). rewrite E1 in H1. rewrite E2 in H2. rewrite E4.
    rewrite A3. exact (rs_to s o R _ _ _ Ho H1 H2).
  - intros t c l Ho H1 H2. destruct (A1 t) as (E1 & E2 & E3 & _). rewrite E1 in H1. rewrite E3 in H2. rewrite E2.
    eapply (rs_e0 s o R); eauto.
  - rewrite A3. apply (rs_now s o R).
Qed.

Definition rkeeps (f : thr -> thr) : Prop :=
  forall r, tpc (f r) = tpc r /\ wk (f r) = wk r /\ err (f r) = err r /\ ts (f r) = ts r /\ (st (f r) = SLEEPING -> st r = SLEEPING).
Lemma rm_updT s t f : rkeeps f -> rs_mono s (updT s t f).
Proof.
  intros K. split; [|split]; [|auto|reflexivity]. intros y. rewrite th_updT. destruct (Nat.eqb y t) eqn:E.
  - apply Nat.eqb_eq in E. subst. apply K.
  - repeat split; auto.
Qed.
Lemma rm_updV s v g : rs_mono s (updV s v g). Proof. split; [|split]; [|auto|reflexivity]. intros y. repeat split; auto. Qed.
Lemma rm_lown s f : rs_mono s (s_lown s f). Proof. split; [|split]; [|auto|reflexivity]. intros y. repeat split; auto. Qed.
Lemma rm_bad s : rs_mono s (s_bad s). Proof. split; [|split]; [|auto|reflexivity]. intros y. repeat split; auto. Qed.
Lemma RS_tick s d : RS s -> RS (tick s d).
Proof.
  intros R. pose proof (rs_now s None R) as Hn.
  assert (Hm : now s <= now (tick s d) <= MAX64).
  { unfold tick. simpl. unfold sat_add. destruct (MAX64 <? now s + Z.max 0 d) eqn:E; [lia|]. apply Z.ltb_ge in E. lia. }
  constructor.
  - apply (rs_cv s None R).
  - apply (rs_mx s None R).
  - apply (rs_sl s None R).
  - apply (rs_err s None R).
  - intros t c l Ho H1 H2. pose proof (rs_to s None R _ _ _ Ho H1 H2). change (ts (th (tick s d) t)) with (ts (th s t)). lia.
  - apply (rs_e0 s None R).
  - lia.
Qed.

Lemma rm_set_held s t l b : rs_mono s (set_held s t l b).
Proof. apply rm_updT. intros r. repeat split; auto. Qed.
Lemma rm_set_running s v : rs_mono s (set_running s v).
Proof.
  unfold set_running. destruct (runq (vc s v)) as [|[t|] r]; try apply rm_refl. apply rm_updT.
  intros r0. repeat split; auto. simpl. discriminate.
Qed.
Lemma rm_rotate s v : rs_mono s (rotate s v).
Proof.
  unfold rotate. destruct (runq (vc s v)) as [|e r]; [apply rm_refl|].
  eapply rm_trans; [|apply rm_set_running]. eapply rm_trans; [|apply rm_updV].
  destruct e; [apply rm_updT; intros x; repeat split; auto; simpl; discriminate|apply rm_refl].
Qed.
Lemma rm_eject v : forall l s cnt, rs_mono s (fst (eject s v l cnt)).
Proof.
  induction l as [|x r IH]; intros s cnt; simpl; [apply rm_refl|].
  eapply rm_trans; [|apply IH].
  eapply rm_trans; [apply rm_updT with (f := fun y => t_st y READY); intros y; repeat split; auto; simpl; discriminate|].
  eapply rm_trans; [apply rm_updV|]. unfold rq_append. apply rm_updV.
Qed.
Lemma rm_dequeue s x ns : ns <> SLEEPING -> rs_mono s (dequeue s x ns).
Proof.
  intros Hns. split; [|split].
  - intros y. destruct (Nat.eq_dec y x); subst.
    + destruct (dequeue_x s x ns) as (A & _ & _ & B & C & _ & D & _ & _ & E & _). rewrite A, B, C, D, E.
      repeat split; auto; intros; congruence.
    + rewrite dequeue_th_other by auto. repeat split; auto.
  - intros q y H. unfold dequeue in H. destruct (wqo (th s x)) as [w|]; simpl in H; auto.
    unfold updq in H. destruct (wq_eqb_spec q w); subst; auto. apply in_remove in H. tauto.
  - destruct (dequeue_misc s x ns) as (_ & H & _). exact H.
Qed.
Lemma rm_wake_by s va x : rs_mono s (wake_by s va x).
Proof.
  unfold wake_by. destruct (Nat.eqb _ va).
  - unfold rq_append. eapply rm_trans; [|apply rm_updV]. eapply rm_trans; [|apply rm_updV]. apply rm_dequeue; discriminate.
  - eapply rm_trans; [|apply rm_updV]. apply rm_dequeue; discriminate.
Qed.
Lemma rm_now_eq s x : now (s_lown s x) = now s. Proof. reflexivity. Qed.

Ltac rm_peel :=
  repeat match goal with
  | |- rs_mono ?a ?a => apply rm_refl
  | |- rs_mono _ (s_bad _) => eapply rm_trans; [|apply rm_bad]
  | |- rs_mono _ (rotate _ _) => eapply rm_trans; [|apply rm_rotate]
  | |- rs_mono _ (set_running _ _) => eapply rm_trans; [|apply rm_set_running]
  | |- rs_mono _ (set_held _ _ _ _) => eapply rm_trans; [|apply rm_set_held]
  | |- rs_mono _ (wake_by _ _ _) => eapply rm_trans; [|apply rm_wake_by]
  | |- rs_mono _ (rq_append _ _ _) => eapply rm_trans; [|apply rm_updV]
  | |- rs_mono _ (s_lown _ _) => eapply rm_trans; [|apply rm_lown]
  | |- rs_mono _ (updV _ _ _) => eapply rm_trans; [|apply rm_updV]
  end.

(* ---- the stepping thread's own pc / err updates ---------------------------------------------- *)
Lemma not_queued s t : WF s -> st (th s t) <> SLEEPING -> forall q, ~ In t (wqs s q).
Proof. intros W H q Hi. apply (wf_wq s W) in Hi. tauto. Qed.

Lemma RS_set_pc s t p : WF s -> RSo s (Some t) -> st (th s t) <> SLEEPING -> err (th s t) <> -1 ->
  ~ blocked_pc p -> RS (set_pc s t p).
Proof.
  intros W R Hs He Hp. pose proof (not_queued s t W Hs) as Nq. unfold set_pc. constructor.
  - intros y c H. rewrite wqs_updT in H. rewrite th_updT. destruct (Nat.eqb_spec y t); subst; [exfalso; eapply Nq; eauto|].
    now apply (rs_cv s _ R).
  - intros y l H. rewrite wqs_updT in H. rewrite th_updT. destruct (Nat.eqb_spec y t); subst; [exfalso; eapply Nq; eauto|].
    now apply (rs_mx s _ R).
  - intros y H. rewrite th_updT in *. destruct (Nat.eqb_spec y t); subst; simpl in *; [congruence|]. now apply (rs_sl s _ R).
  - intros y _ H. rewrite th_updT in *. destruct (Nat.eqb_spec y t); subst; simpl in *; [congruence|].
    apply (rs_err s _ R); auto. congruence.
  - intros y c l _ H1 H2. rewrite th_updT in *. destruct (Nat.eqb_spec y t); subst; simpl in *.
    + exfalso. apply Hp. left. eauto.
    + apply (rs_to s _ R y c l); auto. congruence.
  - intros y c l _ H1 H2. rewrite th_updT in *. destruct (Nat.eqb_spec y t); subst; simpl in *.
    + exfalso. apply Hp. left. eauto.
    + apply (rs_e0 s _ R y c l); auto. congruence.
  - apply (rs_now s _ R).
Qed.
Lemma RS_finish s t a b : WF s -> RSo s (Some t) -> st (th s t) <> SLEEPING -> err (th s t) <> -1 ->
  RS (finish_op s t a b).
Proof.
  intros W R Hs He.
  assert (X : RS (set_pc s t PIdle)).
  { apply RS_set_pc; auto. intros [(c & l & H)|(l & k & H)]; discriminate. }
  eapply RS_frame; [|exact X]. split; [|split]; [|auto|reflexivity].
  intros y. unfold finish_op, set_pc. rewrite !th_updT. destruct (Nat.eqb y t); simpl; repeat split; auto.
Qed.

(* err of the stepping thread is not -1 unless its pc is a blocked one *)
Lemma err_of_running s t : RS s -> ~ blocked_pc (tpc (th s t)) -> err (th s t) <> -1.
Proof.
  intros R Hp He. destruct (rs_err s None R t) as [(c & l & n & H & _)|(l & k & H & _)]; auto; try discriminate;
    apply Hp; [left|right]; eauto.
Qed.

Lemma RSo_take_err s t a b s1 : RS s -> take_err s t = (a, b, s1) ->
  RSo s1 (Some t) /\ err (th s1 t) <> -1 /\ st (th s1 t) = st (th s t) /\ vc s1 = vc s /\ wqs s1 = wqs s.
Proof.
  intros R H. unfold take_err in H. destruct (Z.eqb_spec (err (th s t)) 0); inversion H; subst.
  - split; [apply RS_weaken; auto|]. split; [lia|]. auto.
  - split; [|split; [rewrite th_updT_same; simpl; lia|split; [rewrite th_updT_same; reflexivity|auto]]].
    constructor.
    + intros y c Hy. rewrite wqs_updT in Hy. rewrite th_updT. destruct (Nat.eqb_spec y t); subst; simpl; now apply (rs_cv s _ R).
    + intros y l Hy. rewrite wqs_updT in Hy. rewrite th_updT. destruct (Nat.eqb_spec y t); subst; simpl; now apply (rs_mx s _ R).
    + intros y Hy. rewrite th_updT in *. destruct (Nat.eqb_spec y t); subst; simpl in *; now apply (rs_sl s _ R).
    + intros y Ho Hy. rewrite th_updT in *. destruct (Nat.eqb_spec y t); subst; [congruence|]. apply (rs_err s _ R); auto. discriminate.
    + intros y c l Ho H1 H2. rewrite th_updT in *. destruct (Nat.eqb_spec y t); subst; [congruence|]. apply (rs_to s _ R y c l); auto. discriminate.
    + intros y c l Ho H1 H2. rewrite th_updT in *. destruct (Nat.eqb_spec y t); subst; [congruence|]. apply (rs_e0 s _ R y c l); auto. discriminate.
    + apply (rs_now s _ R).
Qed.

Lemma pu_facts s v t q e :
  (forall y, y <> t -> tpc (th (prepare_usleep s v t q e) y) = tpc (th s y) /\ wk (th (prepare_usleep s v t q e) y) = wk (th s y) /\ err (th (prepare_usleep s v t q e) y) = err (th s y) /\
                       ts (th (prepare_usleep s v t q e) y) = ts (th s y) /\ (st (th (prepare_usleep s v t q e) y) = SLEEPING -> st (th s y) = SLEEPING)) /\
  (tpc (th (prepare_usleep s v t q e) t) = tpc (th s t) /\ err (th (prepare_usleep s v t q e) t) = err (th s t) /\ wk (th (prepare_usleep s v t q e) t) = WNone /\ ts (th (prepare_usleep s v t q e) t) = e) /\
  (forall w y, In y (wqs (prepare_usleep s v t q e) w) -> In y (wqs s w) \/ (y = t /\ q = Some w)) /\ now (prepare_usleep s v t q e) = now s.
Proof.
  unfold prepare_usleep.
  match goal with |- context [set_running ?S4 v] => destruct (rm_set_running S4 v) as (A1 & A2 & A3); set (X := S4) in * end.
  assert (Hy : forall y, y <> t -> th X y = th s y).
  { intros y Hy. subst X. rewrite th_updV. destruct q; simpl; unfold updf; apply Nat.eqb_neq in Hy; rewrite ?Hy; auto. }
  assert (Ht : tpc (th X t) = tpc (th s t) /\ err (th X t) = err (th s t) /\ wk (th X t) = WNone /\ ts (th X t) = e).
  { subst X. rewrite th_updV. destruct q; simpl; unfold updf; rewrite ?Nat.eqb_refl; simpl; auto. }
  assert (Hq : forall w y, In y (wqs X w) -> In y (wqs s w) \/ (y = t /\ q = Some w)).
  { intros w y H. subst X. rewrite wqs_updV in H. destruct q as [w0|]; simpl in H; auto.
    unfold updq in H. destruct (wq_eqb_spec w w0); subst; auto. apply in_app_or in H. destruct H as [H|[H|[]]]; auto. }
  split; [|split; [|split]].
  - intros y Hn. destruct (A1 y) as (a & b & c & d & f). rewrite a, b, c, d, <- (Hy y Hn). repeat split; auto.
  - destruct (A1 t) as (a & b & c & d & _). rewrite a, b, c, d. exact Ht.
  - intros w y H. apply A2 in H. auto.
  - rewrite A3. subst X. destruct q; reflexivity.
Qed.

Definition pc_fits (q : option wq) (p : pc) : Prop :=
  match q with
  | Some (WCv c) => exists l, p = PWaitSlept c l
  | Some (WMx l) => exists k, p = PLockSlept l k
  | None => ~ blocked_pc p
  end.

(* the current thread t goes to sleep (optionally on queue q) and its pc becomes p *)
Lemma RS_sleep s v t q e p : WF s -> RSo s (Some t) -> st (th s t) <> SLEEPING -> err (th s t) <> -1 ->
  pc_fits q p -> RS (set_pc (prepare_usleep s v t q e) t p).
Proof.
  intros W R Hs He Hp. pose proof (not_queued s t W Hs) as Nq.
  destruct (pu_facts s v t q e) as (Fo & (Ft1 & Ft2 & Ft3 & Ft4) & Fq & Fn).
  unfold set_pc. constructor.
  - intros y c H. rewrite wqs_updT in H. rewrite th_updT. apply Fq in H. destruct H as [H|[-> Hq]].
    + destruct (Nat.eqb_spec y t); subst; [exfalso; eapply Nq; eauto|]. destruct (Fo y n) as (-> & _). now apply (rs_cv s _ R).
    + rewrite Nat.eqb_refl. simpl. subst q. simpl in Hp. exact Hp.
  - intros y l H. rewrite wqs_updT in H. rewrite th_updT. apply Fq in H. destruct H as [H|[-> Hq]].
    + destruct (Nat.eqb_spec y t); subst; [exfalso; eapply Nq; eauto|]. destruct (Fo y n) as (-> & _). now apply (rs_mx s _ R).
    + rewrite Nat.eqb_refl. simpl. subst q. simpl in Hp. exact Hp.
  - intros y H. rewrite th_updT in *. destruct (Nat.eqb_spec y t); subst; simpl in *; auto.
    destruct (Fo y n) as (_ & -> & _ & _ & E). apply (rs_sl s _ R). auto.
  - intros y _ H. rewrite th_updT in *. destruct (Nat.eqb_spec y t); subst; simpl in *; [congruence|].
    destruct (Fo y n) as (-> & -> & E & _). rewrite E in H. apply (rs_err s _ R); auto. congruence.
  - intros y c l _ H1 H2. rewrite th_updT in *. destruct (Nat.eqb_spec y t); subst; simpl in *; [congruence|].
    destruct (Fo y n) as (E1 & E2 & _ & -> & _). rewrite E1 in H1. rewrite E2 in H2. rewrite Fn.
    apply (rs_to s _ R y c l); auto. congruence.
  - intros y c l _ H1 H2. rewrite th_updT in *. destruct (Nat.eqb_spec y t); subst; simpl in *; [left; auto|].
    destruct (Fo y n) as (E1 & E2 & E3 & _). rewrite E1 in H1. rewrite E3 in H2. rewrite E2.
    apply (rs_e0 s _ R y c l); auto. congruence.
  - simpl. rewrite Fn. apply (rs_now s _ R).
Qed.

(* a SLEEPING thread x is woken with error number e and reason w *)
Definition wake_ok (s : state) (x : tid) (e : Z) (w : wake) : Prop :=
  (0 < e /\ w = WInterrupted) \/
  (e = -1 /\ ((exists c n, In x (wqs s (WCv c)) /\ w = WNotified n) \/ (exists l, In x (wqs s (WMx l)) /\ w = WHandoff))).

Lemma RSo_wake s o va x e w : WF s -> RSo s o -> st (th s x) = SLEEPING -> wake_ok s x e w ->
  RSo (wake_by (updT s x (fun y => t_wk (t_err y e) w)) va x) o.
Proof.
  intros W R Hs Hok.
  set (s1 := updT s x (fun y => t_wk (t_err y e) w)).
  assert (W1 : WF s1) by (apply WF_updT; auto; apply keeps_wkerr).
  destruct (rm_wake_by s1 va x) as (A1 & A2 & A3).
  assert (Fy : forall y, y <> x -> tpc (th (wake_by s1 va x) y) = tpc (th s y) /\ wk (th (wake_by s1 va x) y) = wk (th s y) /\
             err (th (wake_by s1 va x) y) = err (th s y) /\ ts (th (wake_by s1 va x) y) = ts (th s y) /\
             (st (th (wake_by s1 va x) y) = SLEEPING -> st (th s y) = SLEEPING)).
  { intros y Hy. destruct (A1 y) as (a & b & c & d & f). subst s1. rewrite th_updT_other in *; auto. }
  assert (Fx : tpc (th (wake_by s1 va x) x) = tpc (th s x) /\ wk (th (wake_by s1 va x) x) = w /\ err (th (wake_by s1 va x) x) = e /\
               st (th (wake_by s1 va x) x) <> SLEEPING).
  { destruct (A1 x) as (a & b & c & _). subst s1. rewrite th_updT_same in *. simpl in *. repeat split; auto.
    unfold wake_by. destruct (Nat.eqb _ va); proj.
    - destruct (dequeue_x (updT s x (fun y => t_wk (t_err y e) w)) x READY) as (-> & _). discriminate.
    - destruct (dequeue_x (updT s x (fun y => t_wk (t_err y e) w)) x STANDBY) as (-> & _). discriminate. }
  destruct Fx as (Fx1 & Fx2 & Fx3 & Fx4).
  assert (Fq : forall q y, In y (wqs (wake_by s1 va x) q) -> In y (wqs s q) /\ y <> x).
  { intros q y H. apply wb_wqs in H; auto. }
  constructor.
  - intros y c H. apply Fq in H. destruct H as [H Hn]. destruct (Fy y Hn) as (-> & _). now apply (rs_cv s _ R).
  - intros y l H. apply Fq in H. destruct H as [H Hn]. destruct (Fy y Hn) as (-> & _). now apply (rs_mx s _ R).
  - intros y H. destruct (Nat.eq_dec y x) as [->|n]; [congruence|]. destruct (Fy y n) as (_ & -> & _ & _ & E). apply (rs_sl s _ R); auto.
  - intros y Ho H. destruct (Nat.eq_dec y x) as [->|n].
    + rewrite Fx1, Fx2. rewrite Fx3 in H. destruct Hok as [[He _]|[_ [(c & n & Hi & ->)|(l & Hi & ->)]]]; [lia| |].
      * left. destruct (rs_cv s _ R _ _ Hi) as [l Hl]. eauto.
      * right. destruct (rs_mx s _ R _ _ Hi) as [k Hk]. eauto.
    + destruct (Fy y n) as (-> & -> & E & _). rewrite E in H. apply (rs_err s _ R); auto.
  - intros y c l Ho H1 H2. destruct (Nat.eq_dec y x) as [->|n].
    + rewrite Fx2 in H2. destruct Hok as [[_ ->]|[_ [(c0 & n & _ & ->)|(l0 & _ & ->)]]]; discriminate.
    + destruct (Fy y n) as (E1 & E2 & _ & -> & _). rewrite E1 in H1. rewrite E2 in H2. rewrite A3.
      apply (rs_to s _ R y c l); auto.
  - intros y c l Ho H1 H2. destruct (Nat.eq_dec y x) as [->|n].
    + rewrite Fx3 in H2. destruct Hok as [[He _]|[He _]]; lia.
    + destruct (Fy y n) as (E1 & E2 & E3 & _). rewrite E1 in H1. rewrite E3 in H2. rewrite E2.
      apply (rs_e0 s _ R y c l); auto.
  - rewrite A3. apply (rs_now s _ R).
Qed.

Lemma cur_not_sleeping s v t r : WF s -> runq (vc s v) = Th t :: r -> st (th s t) <> SLEEPING.
Proof. intros W E. apply (runq_state s t v W). rewrite E. now left. Qed.

Lemma sh_st s t l b y : st (th (set_held s t l b) y) = st (th s y) /\ err (th (set_held s t l b) y) = err (th s y).
Proof. unfold set_held. rewrite th_updT. destruct (Nat.eqb y t) eqn:E; auto. apply Nat.eqb_eq in E; subst; auto. Qed.

Lemma RS_lock_done s t l k r en : WF s -> RSo s (Some t) -> st (th s t) <> SLEEPING -> err (th s t) <> -1 ->
  RS (lock_done s t l k r en).
Proof.
  intros W R Hs He. unfold lock_done.
  assert (X : forall a b, RS (finish_op (set_held s t l true) t a b)).
  { intros a b. destruct (sh_st s t l true t) as [E1 E2]. apply RS_finish.
    - now apply WF_set_held. - eapply RS_frame; [apply rm_set_held|exact R]. - congruence. - congruence. }
  destruct k.
  - destruct (r =? 0); auto. now apply RS_finish.
  - destruct (r =? 0).
    + destruct (translate ret en0). auto.
    + apply RS_set_pc; auto. intros [(c0 & l0 & H)|(l0 & k0 & H)]; discriminate.
Qed.

Lemma RSo_mutex_unlock s o va l s' : WF s -> RSo s o -> mutex_unlock s va l = Some s' -> RSo s' o.
Proof.
  intros W R H. unfold mutex_unlock in H. destruct (wqs s (WMx l)) as [|h q] eqn:E.
  - inversion H; subst. eapply RS_frame; [apply rm_lown|exact R].
  - destruct (lk (th s h)); [discriminate|]. inversion H; subst. clear H.
    assert (Hi : In h (wqs s (WMx l))) by (rewrite E; now left).
    apply RSo_wake.
    + now apply WF_lown.
    + eapply RS_frame; [apply rm_lown|exact R].
    + apply (wf_wq s W h (WMx l) Hi).
    + right. split; auto. right. exists l. split; auto.
Qed.
Lemma RSo_do_unlock s o va l s' : WF s -> RSo s o -> do_unlock s va l = Some s' -> RSo s' o.
Proof.
  intros W R H. unfold do_unlock in H. destruct (lkd s l).
  - eapply RSo_mutex_unlock; eauto.
  - inversion H; subst. eapply RS_frame; [apply rm_lown|exact R].
Qed.

Lemma nb_retry l k : ~ blocked_pc (PRetry l k). Proof. intros [(c0 & l0 & H)|(l0 & k0 & H)]; discriminate. Qed.
Ltac nb := let H := fresh in intros [(? & ? & H)|(? & ? & H)]; discriminate.

Lemma RS_lock_try s v t r l k s' : WF s -> RSo s (Some t) -> runq (vc s v) = Th t :: r -> err (th s t) <> -1 ->
  lock_try s v t l k = Some s' -> RS s'.
Proof.
  intros W R E He H. pose proof (cur_not_sleeping _ _ _ _ W E) as Hs. unfold lock_try in H. destruct (lown s l).
  - destruct (lkd s l); [|discriminate]. destruct (lk (th s t)); [discriminate|]. inversion H; subst.
    apply RS_sleep; auto. simpl. eauto.
  - inversion H; subst. apply RS_lock_done; auto.
    + now apply WF_lown.
    + eapply RS_frame; [apply rm_lown|exact R].
Qed.

Lemma RS_yield s v t p : WF s -> RSo s (Some t) -> st (th s t) <> SLEEPING -> ~ blocked_pc p ->
  RS (set_pc (rotate (updT s t (fun x => t_err x 0)) v) t p).
Proof.
  intros W R Hs Hp.
  set (s1 := updT s t (fun x => t_err x 0)).
  assert (R1 : RSo s1 (Some t)).
  { constructor.
    - intros y c Hy. subst s1. rewrite wqs_updT in Hy. rewrite th_updT. destruct (Nat.eqb_spec y t); subst; simpl; now apply (rs_cv s _ R).
    - intros y l Hy. subst s1. rewrite wqs_updT in Hy. rewrite th_updT. destruct (Nat.eqb_spec y t); subst; simpl; now apply (rs_mx s _ R).
    - intros y Hy. subst s1. rewrite th_updT in *. destruct (Nat.eqb_spec y t); subst; simpl in *; now apply (rs_sl s _ R).
    - intros y Ho Hy. subst s1. rewrite th_updT in *. destruct (Nat.eqb_spec y t); subst; [congruence|]. apply (rs_err s _ R); auto.
    - intros y c l Ho H1 H2. subst s1. rewrite th_updT in *. destruct (Nat.eqb_spec y t); subst; [congruence|]. apply (rs_to s _ R y c l); auto.
    - intros y c l Ho H1 H2. subst s1. rewrite th_updT in *. destruct (Nat.eqb_spec y t); subst; [congruence|]. apply (rs_e0 s _ R y c l); auto.
    - apply (rs_now s _ R). }
  assert (W1 : WF s1) by (apply WF_updT; auto; apply keeps_err).
  destruct (rm_rotate s1 v) as (A1 & _). destruct (A1 t) as (_ & _ & Ee & _ & Es).
  apply RS_set_pc; auto.
  - now apply WF_rotate.
  - eapply RS_frame; [apply rm_rotate|exact R1].
  - intros Hx. apply Es in Hx. subst s1. rewrite th_updT_same in Hx. simpl in Hx. auto.
  - rewrite Ee. subst s1. rewrite th_updT_same. simpl. lia.
Qed.

Lemma RS_notify_read s t c all n : WF s -> RSo s (Some t) -> st (th s t) <> SLEEPING -> err (th s t) <> -1 ->
  RS (notify_read s t c all n).
Proof.
  intros W R Hs He. unfold notify_read. destruct (wqs s (WCv c)); [destruct all; now apply RS_finish|].
  apply RS_set_pc; auto. nb.
Qed.

Lemma rk_lk v : rkeeps (fun y => t_lk y v). Proof. intros r. repeat split; auto. Qed.

Lemma RS_op_step s v t r o s' : WF s -> RS s -> runq (vc s v) = Th t :: r -> tpc (th s t) = PIdle ->
  op_step s v t o = Some s' -> RS s'.
Proof.
  intros W R0 E P H. pose proof (RS_weaken s (Some t) R0) as R.
  pose proof (cur_not_sleeping _ _ _ _ W E) as Hs.
  assert (He : err (th s t) <> -1) by (apply err_of_running; auto; rewrite P; nb).
  destruct o; simpl in H.
  - destruct (_ && _ && _) eqn:C; inversion H; subst; [|now apply RS_finish].
    apply andb_true_iff in C. destruct C as [C C2]. apply andb_true_iff in C. destruct C as [C _].
    destruct (tstate_eqb_spec (st (th s k)) NEW); [|discriminate]. apply Nat.eqb_eq in C2.
    assert (Hk : k <> t) by (intros ->; pose proof (runq_state s t v W) as X; rewrite E in X; destruct (X (or_introl eq_refl)) as (_ & _ & X3 & _); congruence).
    apply RS_finish.
    + now apply WF_create.
    + eapply RS_frame; [|exact R]. eapply rm_trans; [|apply rm_updV]. apply rm_updT. intros r0. repeat split; auto. simpl. discriminate.
    + proj. rewrite th_updT_other; auto.
    + proj. rewrite th_updT_other; auto.
  - inversion H; subst. apply RS_yield; auto. nb.
  - destruct (_ || _).
    + inversion H; subst. apply RS_yield; auto. nb.
    + destruct (lk (th s t)); [discriminate|]. inversion H; subst. apply RS_sleep; auto. simpl. nb.
  - destruct (alive s k && (0 <? e)).
    + destruct (tstate_eqb (st (th s k)) SLEEPING); inversion H; subst; (apply RS_set_pc; auto; nb).
    + inversion H; subst. now apply RS_finish.
  - destruct (held (th s t) l); [inversion H; subst; now apply RS_finish|]. eapply RS_lock_try; eauto.
  - destruct (held (th s t) l); [|inversion H; subst; now apply RS_finish].
    destruct (do_unlock s v l) as [s1|] eqn:U; [|discriminate]. inversion H; subst.
    pose proof (WF_do_unlock _ _ _ _ W U) as W1. pose proof (RSo_do_unlock _ _ _ _ _ W R U) as R1.
    (* the unlocker itself is untouched by the hand-off (it is not SLEEPING) *)
    assert (Ft : st (th s1 t) = st (th s t) /\ err (th s1 t) = err (th s t)).
    { unfold do_unlock in U. destruct (lkd s l); [|inversion U; subst; auto].
      unfold mutex_unlock in U. destruct (wqs s (WMx l)) as [|h q] eqn:Eq; [inversion U; subst; auto|].
      destruct (lk (th s h)); [discriminate|]. inversion U; subst.
      assert (h <> t).
      { intros ->. apply Hs. apply (wf_wq s W t (WMx l)). rewrite Eq. now left. }
      unfold wake_by. destruct (Nat.eqb _ v); proj; rewrite dequeue_th_other by auto; rewrite th_updT_other by auto; auto. }
    destruct Ft as [F1 F2]. destruct (sh_st s1 t l false t) as [G1 G2].
    apply RS_finish.
    + now apply WF_set_held.
    + eapply RS_frame; [apply rm_set_held|exact R1].
    + congruence.
    + congruence.
  - destruct (held (th s t) l); [|inversion H; subst; now apply RS_finish].
    destruct (lk (th s t)); [discriminate|]. inversion H; subst.
    assert (X : RS (set_pc (prepare_usleep s v t (Some (WCv c)) (expiration_of s d)) t (PWaitSlept c l))).
    { apply RS_sleep; auto. simpl. eauto. }
    eapply RS_frame; [|exact X]. split; [|split]; [|auto|reflexivity]. intros y. repeat split; auto.
  - inversion H; subst. now apply RS_notify_read.
  - inversion H; subst. now apply RS_notify_read.
  - inversion H; subst. now apply RS_finish.
Qed.

Lemma RS_frame_set_pc s S' t p : WF S' -> rs_mono s S' -> RSo s (Some t) -> st (th s t) <> SLEEPING ->
  err (th s t) <> -1 -> ~ blocked_pc p -> RS (set_pc S' t p).
Proof.
  intros W M R Hs He Hp. destruct M as (A1 & A2 & A3). destruct (A1 t) as (_ & _ & Ee & _ & Es).
  apply RS_set_pc; auto.
  - eapply RS_frame; [|exact R]. split; [|split]; auto.
  - congruence.
Qed.
Lemma RS_frame_finish s S' t a b : WF S' -> rs_mono s S' -> RSo s (Some t) -> st (th s t) <> SLEEPING ->
  err (th s t) <> -1 -> RS (finish_op S' t a b).
Proof.
  intros W M R Hs He. destruct M as (A1 & A2 & A3). destruct (A1 t) as (_ & _ & Ee & _ & Es).
  apply RS_finish; auto.
  - eapply RS_frame; [|exact R]. split; [|split]; auto.
  - congruence.
Qed.

Lemma RSo_set_err s o k e : RSo s o -> 0 < e -> RSo (updT s k (fun y => t_err y e)) o.
Proof.
  intros R He. constructor.
  - intros y c Hy. rewrite wqs_updT in Hy. rewrite th_updT. destruct (Nat.eqb_spec y k); subst; simpl; now apply (rs_cv s _ R).
  - intros y l Hy. rewrite wqs_updT in Hy. rewrite th_updT. destruct (Nat.eqb_spec y k); subst; simpl; now apply (rs_mx s _ R).
  - intros y Hy. rewrite th_updT in *. destruct (Nat.eqb_spec y k); subst; simpl in *; now apply (rs_sl s _ R).
  - intros y Ho Hy. rewrite th_updT in *. destruct (Nat.eqb_spec y k); subst; simpl in *; [lia|]. now apply (rs_err s _ R).
  - intros y c l Ho H1 H2. rewrite th_updT in *. destruct (Nat.eqb_spec y k); subst; simpl in *; now apply (rs_to s _ R _ c l).
  - intros y c l Ho H1 H2. rewrite th_updT in *. destruct (Nat.eqb_spec y k); subst; simpl in *; [lia|]. now apply (rs_e0 s _ R _ c l).
  - apply (rs_now s _ R).
Qed.

Lemma RS_take_finish s t a b s1 x y : WF s -> RS s -> st (th s t) <> SLEEPING -> take_err s t = (a, b, s1) ->
  RS (finish_op s1 t x y).
Proof.
  intros W R Hs T. destruct (RSo_take_err _ _ _ _ _ R T) as (R1 & He1 & Hs1 & _).
  apply RS_finish; [eapply WF_take_err; eauto|exact R1|congruence|exact He1].
Qed.
Lemma RS_take_set_pc s t a b s1 p : WF s -> RS s -> st (th s t) <> SLEEPING -> take_err s t = (a, b, s1) ->
  ~ blocked_pc p -> RS (set_pc s1 t p).
Proof.
  intros W R Hs T Hp. destruct (RSo_take_err _ _ _ _ _ R T) as (R1 & He1 & Hs1 & _).
  apply RS_set_pc; [eapply WF_take_err; eauto|exact R1|congruence|exact He1|exact Hp].
Qed.
Lemma RS_take_sleep s v t a b s1 e p : WF s -> RS s -> st (th s t) <> SLEEPING -> take_err s t = (a, b, s1) ->
  ~ blocked_pc p -> RS (set_pc (prepare_usleep s1 v t None e) t p).
Proof.
  intros W R Hs T Hp. destruct (RSo_take_err _ _ _ _ _ R T) as (R1 & He1 & Hs1 & _).
  apply RS_sleep; [eapply WF_take_err; eauto|exact R1|congruence|exact He1|exact Hp].
Qed.

Lemma RS_thread_step s v t r s' : WF s -> NG s -> RS s -> runq (vc s v) = Th t :: r ->
  thread_step s v t = Some s' -> RS s'.
Proof.
  intros W G R0 E H. pose proof (RS_weaken s (Some t) R0) as R.
  pose proof (cur_not_sleeping _ _ _ _ W E) as Hs.
  pose proof (WF_thread_step _ _ _ _ _ W E H) as W'.
  unfold thread_step in H.
  destruct (tpc (th s t)) eqn:P;
    try (assert (He : err (th s t) <> -1) by (apply err_of_running; auto; rewrite P; nb)).
  - destruct (prog (th s t)) as [|o os]; [|exact (RS_op_step _ _ _ _ _ _ W R0 E P H)].
    destruct (lk (th s t)); [discriminate|]. destruct (Nat.ltb t (nvc s)); inversion H; subst.
    + apply RS_sleep; auto. simpl. nb.
    + eapply RS_frame; [|exact R0]. eapply rm_trans; [|apply rm_set_running].
      eapply rm_trans; [apply rm_updV|]. apply rm_updT. intros r0. repeat split; auto. simpl. discriminate.
  - destruct as_sleep; [destruct (err (th s t) =? 0)|]; inversion H; subst; now apply RS_finish.
  - destruct (take_err s t) as [[a b] s1] eqn:T. inversion H; subst. exact (RS_take_finish _ _ _ _ _ _ _ W R0 Hs T).
  - destruct (lk (th s t)); [discriminate|]. destruct (take_err s t) as [[a b] s1] eqn:T. inversion H; subst.
    apply (RS_take_sleep _ _ _ _ _ _ _ _ W R0 Hs T). nb.
  - destruct (take_err s t) as [[a b] s1] eqn:T. inversion H; subst. apply (RS_take_set_pc _ _ _ _ _ _ W R0 Hs T). nb.
  - exact (RS_lock_try _ _ _ _ _ _ _ W R E He H).
  - destruct (take_err s t) as [[a b] s1] eqn:T.
    destruct (RSo_take_err _ _ _ _ _ R0 T) as (R1 & He1 & Hs1 & _). pose proof (WF_take_err _ _ _ _ _ W T) as W1.
    assert (Hs1' : st (th s1 t) <> SLEEPING) by congruence.
    destruct ((a <? 0) && (b =? -1)).
    + destruct (lown s1 l) as [o|]; [destruct (Nat.eqb o t)|]; inversion H; subst;
        try (apply RS_lock_done; auto); try (apply RS_set_pc; auto; nb).
    + destruct (translate a b). inversion H; subst. apply RS_lock_done; auto.
  - destruct (sat_add (now s) 1000 <=? now s).
    + inversion H; subst. apply RS_yield; auto. nb.
    + destruct (lk (th s t)); [discriminate|]. inversion H; subst. apply RS_sleep; auto. simpl. nb.
  - destruct (take_err s t) as [[a b] s1] eqn:T. inversion H; subst. apply (RS_take_set_pc _ _ _ _ _ _ W R0 Hs T). nb.
  - inversion H; subst. now apply RS_notify_read.
  - destruct (lk (th s x)); [discriminate|]. inversion H; subst.
    eapply RS_frame_set_pc; eauto; [apply WF_updT; auto; apply keeps_lk|apply rm_updT, rk_lk|nb].
  - destruct (wqs s (WCv c)) as [|h q]; [|destruct (Nat.eqb h x)]; inversion H; subst; (apply RS_set_pc; auto; nb).
  - inversion H; subst.
    eapply RS_frame_set_pc; eauto; [apply WF_updT; auto; apply keeps_lk|apply rm_updT, rk_lk|nb].
  - (* PNfGo *)
    destruct G as [GL GG].
    assert (Hh : hd_error (wqs s (WCv c)) = Some x) by (eapply GG; eauto; discriminate).
    assert (Hi : In x (wqs s (WCv c))) by (destruct (wqs s (WCv c)); inversion Hh; now left).
    destruct (tstate_eqb_spec (st (th s x)) SLEEPING) as [Hx|Hx]; inversion H; subst.
    + assert (Hn : x <> t) by congruence.
      set (s2 := wake_by (updT s x (fun y => t_wk (t_err y (-1)) (WNotified t))) v x).
      assert (R2 : RSo s2 (Some t)).
      { apply RSo_wake; auto. right. split; auto. left. eauto. }
      assert (W2 : WF s2) by (apply WF_wake_by; [apply WF_updT; auto; apply keeps_wkerr|rewrite th_updT_same; exact Hx]).
      destruct (rm_wake_by (updT s x (fun y => t_wk (t_err y (-1)) (WNotified t))) v x) as (A1 & _).
      destruct (A1 t) as (_ & _ & Ee & _ & Es). rewrite th_updT_other in Ee, Es by auto.
      apply RS_set_pc; [exact W2|exact R2|intros Hq; apply Es in Hq; auto|unfold s2; rewrite Ee; exact He|nb].
    + eapply RS_frame_set_pc; eauto; [|apply rm_bad|nb]. eapply WF_view; [|exact W]. repeat split; auto.
  - destruct all; inversion H; subst.
    + eapply RS_frame_set_pc; eauto; [apply WF_updT; auto; apply keeps_lk|apply rm_updT, rk_lk|nb].
    + eapply RS_frame_finish; eauto; [apply WF_updT; auto; apply keeps_lk|apply rm_updT, rk_lk].
  - destruct (lk (th s k)); [discriminate|]. inversion H; subst.
    eapply RS_frame_set_pc; eauto; [apply WF_updT; auto; apply keeps_lk|apply rm_updT, rk_lk|nb].
  - (* PInLocked *)
    destruct (tstate_eqb_spec (st (th s k)) SLEEPING) as [Hx|Hx]; [destruct (Z.ltb_spec 0 e)|]; simpl in H; inversion H; subst;
      try (apply RS_set_pc; auto; nb).
    assert (Hn : k <> t) by congruence.
    set (s2 := wake_by (updT s k (fun y => t_wk (t_err y e) WInterrupted)) v k).
    assert (R2 : RSo s2 (Some t)) by (apply RSo_wake; auto; left; auto).
    assert (W2 : WF s2) by (apply WF_wake_by; [apply WF_updT; auto; apply keeps_wkerr|rewrite th_updT_same; exact Hx]).
    destruct (rm_wake_by (updT s k (fun y => t_wk (t_err y e) WInterrupted)) v k) as (A1 & _).
    destruct (A1 t) as (_ & _ & Ee & _ & Es). rewrite th_updT_other in Ee, Es by auto.
    apply RS_set_pc; [exact W2|exact R2|intros Hq; apply Es in Hq; auto|unfold s2; rewrite Ee; exact He|nb].
  - destruct o; inversion H; subst.
    + eapply RS_frame_set_pc; eauto; [apply WF_updT; auto; apply keeps_lk|apply rm_updT, rk_lk|nb].
    + eapply RS_frame_finish; eauto; [apply WF_updT; auto; apply keeps_lk|apply rm_updT, rk_lk].
  - destruct (tstate_eqb _ READY && (err (th s k) =? 0)); inversion H; subst; [apply RS_set_pc; auto; nb|now apply RS_finish].
  - destruct (Z.ltb_spec 0 e); inversion H; subst; [|now apply RS_finish].
    apply RS_finish.
    + apply WF_updT; auto. apply keeps_err.
    + now apply RSo_set_err.
    + rewrite th_updT. destruct (Nat.eqb_spec t k); subst; simpl; auto.
    + rewrite th_updT. destruct (Nat.eqb_spec t k); subst; simpl; [lia|auto].
Qed.

Lemma RS_timeout s v x c : WF s -> RS s -> st (th s x) = SLEEPING -> ts (th s x) <= now s ->
  let s1 := updV s v (fun y => v_slq y (fst (pop_front (tsf s) (slq y)))) in
  RS (updV (rq_append (updT (dequeue s1 x READY) x (fun y => t_wk y WTimeout)) v x) v (fun y => v_ipc y c)).
Proof.
  intros W R Hs Ht s1.
  assert (W1 : WF s1) by (subst s1; apply WF_slq; auto; intros y Hy; left; now apply pop_front_sub in Hy).
  set (S' := updV (rq_append (updT (dequeue s1 x READY) x (fun y => t_wk y WTimeout)) v x) v (fun y => v_ipc y c)).
  assert (Fy : forall y, y <> x -> th S' y = th s y).
  { intros y Hy. subst S'. proj; proj. rewrite th_updT_other by auto. rewrite dequeue_th_other by auto. reflexivity. }
  destruct (dequeue_x s1 x READY) as (D1 & _ & _ & D4 & _ & _ & D7 & _ & _ & D10 & _).
  assert (Fx : tpc (th S' x) = tpc (th s x) /\ err (th S' x) = err (th s x) /\ ts (th S' x) = ts (th s x) /\
               wk (th S' x) = WTimeout /\ st (th S' x) = READY).
  { subst S'. proj; proj. rewrite th_updT_same. cbn [tpc err ts wk st t_wk]. rewrite D1, D4, D7, D10. repeat split; auto. }
  destruct Fx as (X1 & X2 & X3 & X4 & X5).
  assert (Fq : forall q y, In y (wqs S' q) -> In y (wqs s q) /\ y <> x).
  { intros q y H. subst S'. proj; proj. apply (dequeue_wqs s1 x READY W1) in H. exact H. }
  assert (Fn : now S' = now s).
  { destruct (dequeue_misc s1 x READY) as (_ & Hn & _). exact Hn. }
  constructor.
  - intros y c0 H. apply Fq in H. destruct H as [H Hn]. rewrite (Fy y Hn). now apply (rs_cv s _ R).
  - intros y l H. apply Fq in H. destruct H as [H Hn]. rewrite (Fy y Hn). now apply (rs_mx s _ R).
  - intros y H. destruct (Nat.eq_dec y x) as [->|n]; [congruence|]. rewrite (Fy y n) in *. now apply (rs_sl s _ R).
  - intros y Ho H. destruct (Nat.eq_dec y x) as [->|n].
    + exfalso. rewrite X2 in H. pose proof (rs_sl s _ R x Hs) as Hk.
      destruct (rs_err s _ R x Ho H) as [(c0 & l & n & _ & Hw)|(l & k & _ & Hw)]; congruence.
    + rewrite (Fy y n) in *. now apply (rs_err s _ R).
  - intros y c0 l Ho H1 H2. destruct (Nat.eq_dec y x) as [->|n].
    + rewrite X3, Fn. exact Ht.
    + rewrite (Fy y n) in *. rewrite Fn. now apply (rs_to s _ R y c0 l).
  - intros y c0 l Ho H1 H2. destruct (Nat.eq_dec y x) as [->|n].
    + right. exact X4.
    + rewrite (Fy y n) in *. now apply (rs_e0 s _ R y c0 l).
  - rewrite Fn. apply (rs_now s _ R).
Qed.

Lemma rm_idle_decide s v cnt : rs_mono s (idle_decide s v cnt).
Proof. unfold idle_decide. destruct (_ || _); rm_peel. Qed.

Lemma RS_idler_step s v s' : WF s -> RS s -> idler_step s v = Some s' -> RS s'.
Proof.
  intros W R H. unfold idler_step in H. destruct (vipc (vc s v)).
  - destruct (eject (updV s v (fun y => v_sbq y [])) v (sbq (vc s v)) 0) as [s1 cnt] eqn:Ej. inversion H; subst.
    eapply RS_frame; [|exact R]. eapply rm_trans; [|apply rm_updV].
    change s1 with (fst (s1, cnt)). rewrite <- Ej. eapply rm_trans; [|apply rm_eject]. apply rm_updV.
  - destruct (front (slq (vc s v))) as [x|]; [|inversion H; subst; eapply RS_frame; [apply rm_idle_decide|exact R]].
    destruct (Z.ltb_spec (now s) (ts (th s x))); [inversion H; subst; eapply RS_frame; [apply rm_idle_decide|exact R]|].
    destruct (lk (th s x)); [discriminate|].
    match type of H with context [tstate_eqb ?a SLEEPING] => destruct (tstate_eqb_spec a SLEEPING) as [Hs|Hs] end; inversion H; subst.
    + apply RS_timeout; auto.
    + eapply RS_frame; [apply rm_updV|exact R].
  - inversion H; subst. eapply RS_frame; [apply rm_updV|exact R].
Qed.

Lemma RS_vstep s v s' : WF s -> NG s -> RS s -> vstep s v = Some s' -> RS s'.
Proof.
  intros W G R H. unfold vstep in H. destruct (pend (vc s v)) as [[w l]|].
  - destruct (do_unlock s v l) eqn:U; [|discriminate]. inversion H; subst.
    eapply RS_frame; [eapply rm_trans; [apply rm_set_held|apply rm_updV]|]. eapply RSo_do_unlock; eauto.
  - destruct (runq (vc s v)) as [|[t|] r] eqn:E; [discriminate| |].
    + eapply RS_thread_step; eauto.
    + eapply RS_idler_step; eauto.
Qed.

Theorem RS_reachable nv kinds home progs s : Reach nv kinds home progs s -> RS s.
Proof.
  induction 1 as [|s a s' Rc IH H].
  - constructor; simpl; try (intros; contradiction).
    + intros t H. destruct (Nat.ltb t nv); simpl in *; auto; discriminate.
    + intros t _ H. destruct (Nat.ltb t nv); simpl in H; discriminate.
    + intros t c l _ H. destruct (Nat.ltb t nv); simpl in H; discriminate.
    + intros t c l _ H. destruct (Nat.ltb t nv); simpl in H; discriminate.
    + unfold VSTART, MAX64. lia.
  - pose proof (WF_reachable _ _ _ _ _ Rc) as W. pose proof (NG_reachable _ _ _ _ _ Rc) as G.
    destruct a; simpl in H.
    + eapply RS_vstep; eauto.
    + inversion H; subst. now apply RS_tick.
Qed.

(* ---- cv_wait_result ------------------------------------------------------------------------------
   The value wait() returns is `translate ret en`, where (ret, en) is what set_error_number delivers at
   the resumption (the step from PWaitSlept); the re-lock loop only delays it.  At that step:
     * the result is 0 only if a notify_one/notify_all picked this very waiter;
     * the result is -1/ETIMEDOUT only if the waiter was woken by its vCPU's timer, and then its deadline
       has passed (ts_wakeup <= now, and now never decreases). *)
Theorem cv_wait_result nv kinds home progs s v t r c l :
  Reach nv kinds home progs s -> runq (vc s v) = Th t :: r -> tpc (th s t) = PWaitSlept c l ->
  let '(ret, en, _) := take_err s t in
  (translate ret en = (0, 0) -> exists n, wk (th s t) = WNotified n) /\
  (translate ret en = (-1, ETIMEDOUT) -> ret = 0 -> wk (th s t) = WTimeout /\ ts (th s t) <= now s).
Proof.
  intros Rc E P. pose proof (RS_reachable _ _ _ _ _ Rc) as R. pose proof (WF_reachable _ _ _ _ _ Rc) as W.
  pose proof (WK_reachable _ _ _ _ _ Rc) as K.
  pose proof (cur_not_sleeping _ _ _ _ W E) as Hs.
  assert (Hk : wk (th s t) <> WNone).
  { intros Hk. apply Hs. apply (wf_wq s W t (WCv c)). eapply K; eauto. }
  unfold take_err. destruct (Z.eqb_spec (err (th s t)) 0) as [He|He].
  - split.
    + unfold translate. simpl. intros X; inversion X.
    + intros _ _. destruct (rs_e0 s _ R t c l) as [X|X]; auto; try discriminate; [congruence|].
      split; auto. eapply (rs_to s _ R); eauto. discriminate.
  - split.
    + unfold translate. simpl. destruct (Z.eqb_spec (err (th s t)) (-1)) as [Hm|Hm]; [|intros X; inversion X; lia].
      intros _. destruct (rs_err s _ R t) as [(c0 & l0 & n & _ & Hw)|(l0 & k & Hp & _)]; auto; try discriminate; eauto.
      congruence.
    + intros _ X. lia.
Qed.
