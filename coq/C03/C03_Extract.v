(* Extraction of the C03 model: ExtrOcamlBasic only; Z, positive, nat stay Coq's datatypes. *)
From Coq Require Import ZArith List.
From PV Require Import Base.U64 C04.C04_Heap C03.C03_Model.
Require Extraction.
Require Import ExtrOcamlBasic.
Extraction "c03_model.ml" run_coop run_sched init.
