From Coq Require Import ZArith List.
From PV Require Import Base.U64 C04.C04_Heap C03.C03_Model.
Lemma placeholder : True. Proof. exact I. Qed.
