(* C03_Proofs.v — the lock/queue invariants of the condition-variable protocol over every
   interleaving (inductive invariants of `step`), on top of the scheduler well-formedness WF. *)
From Coq Require Import ZArith List Bool Arith Lia.
From PV Require Import Base.U64 C04.C04_Heap C03.C03_Model C03.C03_WF.
Import ListNotations.
Local Open Scope Z_scope.

(* ---- the scheduler blocks touch only st / ts / wk / wqo and the queues ---------------------- *)
Definition ctl (r : thr) := (vcp r, err r, lk r, tpc r, prog r, opi r, held r).
Definition sched_only (s s' : state) : Prop :=
  (forall y, ctl (th s' y) = ctl (th s y)) /\ lown s' = lown s /\
  (forall v, pend (vc s' v) = pend (vc s v)) /\ trace s' = trace s /\ now s' = now s /\ bad s' = bad s /\
  lkd s' = lkd s /\ nvc s' = nvc s.

Lemma so_refl s : sched_only s s.
Proof. repeat split; auto. Qed.
Lemma so_trans a b c : sched_only a b -> sched_only b c -> sched_only a c.
Proof.
  intros (A1 & A2 & A3 & A4 & A5 & A6 & A7 & A8) (B1 & B2 & B3 & B4 & B5 & B6 & B7 & B8).
  split; [intros y; now rewrite B1|]. split; [congruence|]. split; [intros v; now rewrite B3|].
  repeat split; congruence.
Qed.

Definition ckeeps (f : thr -> thr) : Prop := forall r, ctl (f r) = ctl r.
Lemma so_updT s t f : ckeeps f -> sched_only s (updT s t f).
Proof.
  intros K. repeat split; auto. intros y. rewrite th_updT. destruct (Nat.eqb y t) eqn:E; auto.
  apply Nat.eqb_eq in E. subst. apply K.
Qed.
Definition pkeeps (g : vcpu -> vcpu) : Prop := forall r, pend (g r) = pend r.
Lemma so_updV s v g : pkeeps g -> sched_only s (updV s v g).
Proof.
  intros K. repeat split; auto. intros v'. rewrite vc_updV. destruct (Nat.eqb v' v) eqn:E; auto.
  apply Nat.eqb_eq in E. subst. apply K.
Qed.

Lemma so_set_running s v : sched_only s (set_running s v).
Proof. unfold set_running. destruct (runq (vc s v)) as [|[t|] r]; try apply so_refl. apply so_updT. intros r0; reflexivity. Qed.
Lemma so_rotate s v : sched_only s (rotate s v).
Proof.
  unfold rotate. destruct (runq (vc s v)) as [|e r]; [apply so_refl|].
  eapply so_trans; [|apply so_set_running].
  eapply so_trans; [|apply so_updV; intros x; reflexivity].
  destruct e; [apply so_updT; intros x; reflexivity|apply so_refl].
Qed.
Lemma so_rq_append s v x : sched_only s (rq_append s v x).
Proof. apply so_updV. intros r; reflexivity. Qed.
Lemma so_wqs s f : sched_only s (s_wqs s f).
Proof. repeat split; auto. Qed.
Lemma so_prepare_usleep s v t q e : sched_only s (prepare_usleep s v t q e).
Proof.
  unfold prepare_usleep.
  eapply so_trans; [|apply so_set_running].
  eapply so_trans; [|apply so_updV; intros x; reflexivity].
  eapply so_trans; [apply so_updV with (g := fun x => v_runq x (tl (runq x))); intros x; reflexivity|].
  eapply so_trans; [apply so_updT with (f := fun r => t_wk (t_ts (t_st r SLEEPING) e) WNone); intros x; reflexivity|].
  destruct q; [|apply so_refl].
  eapply so_trans; [apply so_wqs|]. apply so_updT. intros x; reflexivity.
Qed.
Lemma so_dequeue s x ns : sched_only s (dequeue s x ns).
Proof.
  unfold dequeue. eapply so_trans; [|apply so_updT; intros r; reflexivity].
  destruct (wqo (th s x)); [|apply so_refl].
  eapply so_trans; [apply so_wqs|]. apply so_updT. intros r; reflexivity.
Qed.
Lemma so_wake_by s va x : sched_only s (wake_by s va x).
Proof.
  unfold wake_by. destruct (Nat.eqb _ va).
  - eapply so_trans; [apply so_dequeue|]. eapply so_trans; [|apply so_rq_append]. apply so_updV. intros r; reflexivity.
  - eapply so_trans; [apply so_dequeue|]. apply so_updV. intros r; reflexivity.
Qed.
Lemma so_eject v : forall l s cnt, sched_only s (fst (eject s v l cnt)).
Proof.
  induction l as [|x r IH]; intros s cnt; simpl; [apply so_refl|].
  eapply so_trans; [|apply IH].
  eapply so_trans; [apply so_updT with (f := fun y => t_st y READY); intros y; reflexivity|].
  eapply so_trans; [|apply so_rq_append]. apply so_updV. intros y; reflexivity.
Qed.
Lemma so_idle_decide s v cnt : forall y, ctl (th (idle_decide s v cnt) y) = ctl (th s y).
Proof.
  intros y. unfold idle_decide. destruct (_ || _); proj; [|reflexivity]. apply so_rotate.
Qed.

(* projections *)
Lemma so_ctl s s' y : sched_only s s' -> ctl (th s' y) = ctl (th s y). Proof. intros H; apply H. Qed.
Ltac ctl_fields H :=
  let E := fresh "E" in
  pose proof H as E; unfold ctl in E; inversion E; clear E.

(* ---- lock ownership ------------------------------------------------------------------------- *)
Record LI (s : state) : Prop := mkLI {
  li_ho : forall t l, held (th s t) l = true -> lown s l = Some t;
  li_pd : forall v w l, pend (vc s v) = Some (w, l) -> held (th s w) l = true /\ vcp (th s w) = v
}.

Definition li_same (s s' : state) : Prop :=
  (forall y, held (th s' y) = held (th s y) /\ vcp (th s' y) = vcp (th s y)) /\ lown s' = lown s /\
  (forall v, pend (vc s' v) = pend (vc s v)).
Lemma li_refl s : li_same s s. Proof. repeat split; auto. Qed.
Lemma li_trans a b c : li_same a b -> li_same b c -> li_same a c.
Proof.
  intros (A1 & A2 & A3) (B1 & B2 & B3). split; [|split].
  - intros y. destruct (A1 y), (B1 y). split; congruence.
  - congruence.
  - intros v. now rewrite B3.
Qed.
Lemma li_so s s' : sched_only s s' -> li_same s s'.
Proof.
  intros (A1 & A2 & A3 & _). split; [|split]; auto.
  intros y. pose proof (A1 y) as E. unfold ctl in E. inversion E. auto.
Qed.
Lemma LI_frame s s' : li_same s s' -> LI s -> LI s'.
Proof.
  intros (A1 & A2 & A3) L. constructor.
  - intros t l H. destruct (A1 t) as [E _]. rewrite E in H. rewrite A2. now apply (li_ho s L).
  - intros v w l H. rewrite A3 in H. destruct (A1 w) as [E1 E2]. rewrite E1, E2. now apply (li_pd s L).
Qed.

Definition hkeeps (f : thr -> thr) : Prop := forall r, held (f r) = held r /\ vcp (f r) = vcp r.
Lemma li_updT s t f : hkeeps f -> li_same s (updT s t f).
Proof.
  intros K. split; [|split]; auto. intros y. rewrite th_updT. destruct (Nat.eqb y t) eqn:E; auto.
  apply Nat.eqb_eq in E. subst. apply K.
Qed.
Lemma li_updV s v g : pkeeps g -> li_same s (updV s v g).
Proof. intros K. apply li_so, so_updV, K. Qed.
Lemma li_set_pc s t p : li_same s (set_pc s t p).
Proof. apply li_updT. intros r; auto. Qed.
Lemma li_finish s t a b : li_same s (finish_op s t a b).
Proof. unfold finish_op. eapply li_trans; [|apply li_updT; intros r; auto]. repeat split; auto. Qed.
Lemma li_take_err s t a b s1 : take_err s t = (a, b, s1) -> li_same s s1.
Proof.
  unfold take_err. destruct (err (th s t) =? 0); intros H; inversion H; subst; [apply li_refl|].
  apply li_updT. intros r; auto.
Qed.
Lemma li_bad s : li_same s (s_bad s). Proof. repeat split; auto. Qed.
Lemma li_now s x : li_same s (s_now s x). Proof. repeat split; auto. Qed.

Ltac li_peel :=
  repeat match goal with
  | |- li_same ?a ?a => apply li_refl
  | |- li_same _ (set_pc _ _ _) => eapply li_trans; [|apply li_set_pc]
  | |- li_same _ (finish_op _ _ _ _) => eapply li_trans; [|apply li_finish]
  | |- li_same _ (s_bad _) => eapply li_trans; [|apply li_bad]
  | |- li_same _ (rotate _ _) => eapply li_trans; [|apply li_so, so_rotate]
  | |- li_same _ (prepare_usleep _ _ _ _ _) => eapply li_trans; [|apply li_so, so_prepare_usleep]
  | |- li_same _ (wake_by _ _ _) => eapply li_trans; [|apply li_so, so_wake_by]
  | |- li_same _ (set_running _ _) => eapply li_trans; [|apply li_so, so_set_running]
  | |- li_same _ (rq_append _ _ _) => eapply li_trans; [|apply li_so, so_rq_append]
  | |- li_same _ (dequeue _ _ _) => eapply li_trans; [|apply li_so, so_dequeue]
  | |- li_same _ (updT _ _ _) => eapply li_trans; [|apply li_updT; intros ?; split; reflexivity]
  | |- li_same _ (updV _ _ _) => eapply li_trans; [|apply li_updV; intros ?; reflexivity]
  end.

(* acquiring a free lock / completing a hand-off *)
Lemma LI_acquire s t l : LI s -> lown s l = None ->
  LI (set_held (s_lown s (updf (lown s) l (Some t))) t l true).
Proof.
  intros L Hn. constructor.
  - intros t' l' H. unfold set_held in H. rewrite th_updT in H. simpl. unfold updf at 1.
    destruct (Nat.eqb_spec l' l); subst.
    + destruct (Nat.eqb_spec t' t); subst; auto. simpl in H. apply (li_ho s L) in H. congruence.
    + destruct (Nat.eqb_spec t' t); subst; [simpl in H; unfold updf in H; apply Nat.eqb_neq in n; rewrite n in H|];
        now apply (li_ho s L).
  - intros v w l' H. simpl in H. apply (li_pd s L) in H. destruct H as [H1 H2].
    unfold set_held. rewrite th_updT. destruct (Nat.eqb_spec w t); subst; simpl; auto.
    split; auto. unfold updf. destruct (Nat.eqb l' l); auto.
Qed.
Lemma LI_take s t l : LI s -> lown s l = Some t -> LI (set_held s t l true).
Proof.
  intros L Ho. constructor.
  - intros t' l' H. unfold set_held in H. rewrite th_updT in H. simpl.
    destruct (Nat.eqb_spec t' t); subst; [simpl in H; unfold updf in H; destruct (Nat.eqb_spec l' l); subst; auto|];
      now apply (li_ho s L).
  - intros v w l' H. simpl in H. apply (li_pd s L) in H. destruct H as [H1 H2].
    unfold set_held. rewrite th_updT. destruct (Nat.eqb_spec w t); subst; simpl; auto.
    split; auto. unfold updf. destruct (Nat.eqb l' l); auto.
Qed.

(* releasing: s1 differs from s only in the owner of l (and scheduler state) *)
Definition rel_same (s s1 : state) (l : lid) : Prop :=
  (forall y, held (th s1 y) = held (th s y) /\ vcp (th s1 y) = vcp (th s y)) /\
  (forall l', l' <> l -> lown s1 l' = lown s l') /\ (forall v, pend (vc s1 v) = pend (vc s v)).

Lemma rel_mutex_unlock s va l s1 : mutex_unlock s va l = Some s1 -> rel_same s s1 l.
Proof.
  unfold mutex_unlock. destruct (wqs s (WMx l)) as [|h q].
  - intros H; inversion H; subst. split; [|split]; auto. intros l' Hl. simpl. now rewrite updf_other.
  - destruct (lk (th s h)); [discriminate|]. intros H; inversion H; subst. clear H.
    match goal with |- rel_same s (wake_by ?S va h) l => assert (X : li_same S (wake_by S va h)) by apply li_so, so_wake_by end.
    destruct X as (X1 & X2 & X3). split; [|split].
    + intros y. destruct (X1 y) as [-> ->]. rewrite th_updT. simpl. destruct (Nat.eqb y h) eqn:E; auto.
      apply Nat.eqb_eq in E; subst; auto.
    + intros l' Hl. rewrite X2. simpl. now rewrite updf_other.
    + intros v. now rewrite X3.
Qed.
Lemma rel_do_unlock s va l s1 : do_unlock s va l = Some s1 -> rel_same s s1 l.
Proof.
  unfold do_unlock. destruct (lkd s l); [apply rel_mutex_unlock|].
  intros H; inversion H; subst. split; [|split]; auto. intros l' Hl. simpl. now rewrite updf_other.
Qed.

Lemma LI_release s s1 t l : LI s -> rel_same s s1 l -> held (th s t) l = true ->
  (forall v w, pend (vc s v) = Some (w, l) -> False) ->
  LI (set_held s1 t l false).
Proof.
  intros L (R1 & R2 & R3) Hh Np. constructor.
  - intros t' l' H. unfold set_held in H. rewrite th_updT in H.
    destruct (Nat.eqb_spec t' t); subst; simpl in H.
    + unfold updf in H. destruct (Nat.eqb_spec l' l); subst; [discriminate|].
      simpl. rewrite R2; auto. apply (li_ho s L). destruct (R1 t) as [<- _]. exact H.
    + destruct (R1 t') as [E _]. rewrite E in H. simpl.
      destruct (Nat.eq_dec l' l); subst.
      * pose proof (li_ho s L _ _ H). pose proof (li_ho s L _ _ Hh). congruence.
      * rewrite R2; auto. now apply (li_ho s L).
  - intros v w l' H. simpl in H. rewrite R3 in H. pose proof H as H0. apply (li_pd s L) in H. destruct H as [H1 H2].
    unfold set_held. rewrite th_updT. destruct (R1 w) as [E1 E2].
    destruct (Nat.eqb_spec w t); subst; simpl; [|rewrite E1, E2; auto].
    split; [|congruence]. unfold updf. destruct (Nat.eqb_spec l' l); subst; [exfalso; eauto|]. now rewrite E1.
Qed.

Lemma LI_release_def s s1 w l v : LI s -> rel_same s s1 l -> pend (vc s v) = Some (w, l) ->
  LI (updV (set_held s1 w l false) v (fun y => v_pend y None)).
Proof.
  intros L (R1 & R2 & R3) Hp. destruct (li_pd s L _ _ _ Hp) as [Hh Hv]. constructor.
  - intros t' l' H. rewrite th_updV in H. unfold set_held in H. rewrite th_updT in H.
    destruct (Nat.eqb_spec t' w); subst; simpl in H.
    + unfold updf in H. destruct (Nat.eqb_spec l' l); subst; [discriminate|].
      simpl. rewrite R2; auto. apply (li_ho s L). destruct (R1 w) as [<- _]. exact H.
    + destruct (R1 t') as [E _]. rewrite E in H. simpl.
      destruct (Nat.eq_dec l' l); subst.
      * pose proof (li_ho s L _ _ H). pose proof (li_ho s L _ _ Hh). congruence.
      * rewrite R2; auto. now apply (li_ho s L).
  - intros v' w' l' H. rewrite vc_updV in H. destruct (Nat.eqb_spec v' v); subst; [discriminate|].
    unfold set_held in H. rewrite vc_updT, R3 in H. destruct (li_pd s L _ _ _ H) as [H1 H2].
    rewrite th_updV. unfold set_held. rewrite th_updT. destruct (R1 w') as [E1 E2].
    destruct (Nat.eqb_spec w' w); subst; simpl; [|rewrite E1, E2; auto].
    congruence.
Qed.

Lemma LI_lock_done s t l k r en : LI s -> (r = 0 -> lown s l = Some t) -> LI (lock_done s t l k r en).
Proof.
  intros L Ho. unfold lock_done. destruct k.
  - destruct (Z.eqb_spec r 0).
    + eapply LI_frame; [apply li_finish|]. apply LI_take; auto.
    + eapply LI_frame; [apply li_finish|]. auto.
  - destruct (Z.eqb_spec r 0).
    + destruct (translate ret en0). eapply LI_frame; [apply li_finish|]. apply LI_take; auto.
    + eapply LI_frame; [apply li_set_pc|]. auto.
Qed.

Lemma LI_lock_try s v t l k s' : LI s -> lock_try s v t l k = Some s' -> LI s'.
Proof.
  intros L H. unfold lock_try in H. destruct (lown s l) eqn:Eo.
  - destruct (lkd s l); [|discriminate]. destruct (lk (th s t)); [discriminate|]. inversion H; subst.
    eapply LI_frame; [|exact L]. li_peel.
  - inversion H; subst. clear H.
    (* the owner is written first, then lock_done sets `held`: go through LI_acquire *)
    unfold lock_done. destruct k.
    + simpl. eapply LI_frame; [apply li_finish|]. now apply LI_acquire.
    + simpl. destruct (translate ret en). eapply LI_frame; [apply li_finish|]. now apply LI_acquire.
Qed.

Lemma LI_notify_read s t c all n : LI s -> LI (notify_read s t c all n).
Proof.
  intros L. unfold notify_read. destruct (wqs s (WCv c)); [destruct all|]; (eapply LI_frame; [|exact L]); li_peel.
Qed.

Lemma no_pend_of_current s v t r w l v' :
  WF s -> LI s -> runq (vc s v) = Th t :: r -> pend (vc s v) = None ->
  held (th s t) l = true -> pend (vc s v') = Some (w, l) -> False.
Proof.
  intros W L E Pn Hh Hp. destruct (li_pd s L _ _ _ Hp) as [H1 H2].
  pose proof (li_ho s L _ _ H1). pose proof (li_ho s L _ _ Hh).
  assert (Hw : w = t) by congruence. rewrite Hw in *.
  assert (Hv : vcp (th s t) = v) by (apply (wf_rq s W t v); rewrite E; now left).
  rewrite Hv in H2. rewrite <- H2 in Hp. congruence.
Qed.

Lemma LI_op_step s v t r o s' : WF s -> LI s -> runq (vc s v) = Th t :: r -> pend (vc s v) = None ->
  op_step s v t o = Some s' -> LI s'.
Proof.
  intros W L E Pn H. destruct o; simpl in H.
  - destruct (_ && _ && _); inversion H; subst; (eapply LI_frame; [|exact L]); li_peel.
  - inversion H; subst. eapply LI_frame; [|exact L]. li_peel.
  - destruct (_ || _).
    + inversion H; subst. eapply LI_frame; [|exact L]. li_peel.
    + destruct (lk (th s t)); [discriminate|]. inversion H; subst. eapply LI_frame; [|exact L]. li_peel.
  - destruct (alive s k && (0 <? e)).
    + destruct (tstate_eqb (st (th s k)) SLEEPING); inversion H; subst; (eapply LI_frame; [|exact L]); li_peel.
    + inversion H; subst; (eapply LI_frame; [|exact L]); li_peel.
  - destruct (held (th s t) l); [inversion H; subst; (eapply LI_frame; [|exact L]); li_peel|].
    eapply LI_lock_try; eauto.
  - destruct (held (th s t) l) eqn:Hh; [|inversion H; subst; (eapply LI_frame; [|exact L]); li_peel].
    destruct (do_unlock s v l) eqn:U; [|discriminate]. inversion H; subst.
    eapply LI_frame; [apply li_finish|]. eapply LI_release; eauto.
    + eapply rel_do_unlock; eauto.
    + intros v' w Hp. eapply no_pend_of_current; eauto.
  - destruct (held (th s t) l) eqn:Hh; [|inversion H; subst; (eapply LI_frame; [|exact L]); li_peel].
    destruct (lk (th s t)); [discriminate|]. inversion H; subst.
    eapply LI_frame; [apply li_set_pc|].
    (* pend v := Some (t, l) *)
    pose proof (li_so _ _ (so_prepare_usleep s v t (Some (WCv c)) (expiration_of s d))) as (P1 & P2 & P3).
    assert (Hv : vcp (th s t) = v) by (apply (wf_rq s W t v); rewrite E; now left).
    constructor.
    + intros t' l' H'. rewrite th_updV in H'. destruct (P1 t') as [E1 _]. rewrite E1 in H'.
      simpl. rewrite P2. now apply (li_ho s L).
    + intros v' w l' H'. rewrite th_updV. destruct (P1 w) as [E1 E2]. rewrite E1, E2.
      rewrite vc_updV in H'. destruct (Nat.eqb_spec v' v); subst.
      * simpl in H'. inversion H'; subst. auto.
      * rewrite P3 in H'. now apply (li_pd s L).
  - inversion H; subst. now apply LI_notify_read.
  - inversion H; subst. now apply LI_notify_read.
  - inversion H; subst. eapply LI_frame; [|exact L]. li_peel.
Qed.

Ltac li_frame L := eapply LI_frame; [|exact L]; li_peel.

Lemma take_err_ret s t a b s1 : take_err s t = (a, b, s1) -> (a = 0 /\ b = 0) \/ (a = -1 /\ b = err (th s t) /\ b <> 0).
Proof.
  unfold take_err. destruct (Z.eqb_spec (err (th s t)) 0); intros H; inversion H; subst; auto.
Qed.

Lemma LI_thread_step s v t r s' : WF s -> LI s -> runq (vc s v) = Th t :: r -> pend (vc s v) = None ->
  thread_step s v t = Some s' -> LI s'.
Proof.
  intros W L E Pn H. unfold thread_step in H.
  destruct (tpc (th s t)) eqn:P.
  - destruct (prog (th s t)) as [|o os]; [|eapply LI_op_step; eauto].
    destruct (lk (th s t)); [discriminate|]. destruct (Nat.ltb t (nvc s)); inversion H; subst; li_frame L.
  - destruct as_sleep; [destruct (err (th s t) =? 0)|]; inversion H; subst; li_frame L.
  - destruct (take_err s t) as [[a b] s1] eqn:T. inversion H; subst.
    eapply LI_frame; [|exact L]. eapply li_trans; [eapply li_take_err; eauto|]. li_peel.
  - destruct (lk (th s t)); [discriminate|]. destruct (take_err s t) as [[a b] s1] eqn:T. inversion H; subst.
    eapply LI_frame; [|exact L]. eapply li_trans; [eapply li_take_err; eauto|]. li_peel.
  - destruct (take_err s t) as [[a b] s1] eqn:T. inversion H; subst.
    eapply LI_frame; [|exact L]. eapply li_trans; [eapply li_take_err; eauto|]. li_peel.
  - eapply LI_lock_try; eauto.
  - destruct (take_err s t) as [[a b] s1] eqn:T.
    assert (L1 : LI s1) by (eapply LI_frame; [eapply li_take_err; eauto|exact L]).
    destruct ((a <? 0) && (b =? -1)) eqn:Cnd.
    + destruct (lown s1 l) as [o|] eqn:Eo; [destruct (Nat.eqb_spec o t)|]; inversion H; subst.
      * apply LI_lock_done; auto.
      * li_frame L1.
      * li_frame L1.
    + destruct (translate a b) as [x y] eqn:Tr. inversion H; subst. apply LI_lock_done; auto.
      intros ->. exfalso. unfold translate in Tr.
      destruct (take_err_ret _ _ _ _ _ T) as [[-> ->]|(-> & _ & _)]; simpl in Tr; [inversion Tr|].
      destruct (Z.eqb_spec b (-1)); [subst; simpl in Cnd; discriminate|inversion Tr].
  - destruct (sat_add (now s) 1000 <=? now s).
    + inversion H; subst. li_frame L.
    + destruct (lk (th s t)); [discriminate|]. inversion H; subst. li_frame L.
  - destruct (take_err s t) as [[a b] s1] eqn:T. inversion H; subst.
    eapply LI_frame; [|exact L]. eapply li_trans; [eapply li_take_err; eauto|]. li_peel.
  - inversion H; subst. now apply LI_notify_read.
  - destruct (lk (th s x)); [discriminate|]. inversion H; subst. li_frame L.
  - destruct (wqs s (WCv c)) as [|h q]; [|destruct (Nat.eqb h x)]; inversion H; subst; li_frame L.
  - inversion H; subst. li_frame L.
  - destruct (tstate_eqb (st (th s x)) SLEEPING); inversion H; subst; li_frame L.
  - destruct all; inversion H; subst; li_frame L.
  - destruct (lk (th s k)); [discriminate|]. inversion H; subst. li_frame L.
  - destruct (tstate_eqb (st (th s k)) SLEEPING && (0 <? e)); inversion H; subst; li_frame L.
  - destruct o; inversion H; subst; li_frame L.
  - destruct (tstate_eqb _ READY && (err (th s k) =? 0)); inversion H; subst; li_frame L.
  - destruct (0 <? e); inversion H; subst; li_frame L.
Qed.

Lemma li_idle_decide s v cnt : li_same s (idle_decide s v cnt).
Proof. unfold idle_decide. destruct (_ || _); li_peel. Qed.

Lemma LI_idler_step s v s' : LI s -> idler_step s v = Some s' -> LI s'.
Proof.
  intros L H. unfold idler_step in H. destruct (vipc (vc s v)).
  - destruct (eject (updV s v (fun y => v_sbq y [])) v (sbq (vc s v)) 0) as [s1 cnt] eqn:Ej. inversion H; subst.
    eapply LI_frame; [|exact L]. eapply li_trans; [|apply li_updV; intros ?; reflexivity].
    change s1 with (fst (s1, cnt)). rewrite <- Ej.
    eapply li_trans; [|apply li_so, so_eject]. li_peel.
  - destruct (front (slq (vc s v))) as [x|]; [|inversion H; subst; eapply LI_frame; [apply li_idle_decide|exact L]].
    destruct (now s <? ts (th s x)); [inversion H; subst; eapply LI_frame; [apply li_idle_decide|exact L]|].
    destruct (lk (th s x)); [discriminate|].
    match type of H with context [tstate_eqb ?a SLEEPING] => destruct (tstate_eqb a SLEEPING) end;
      inversion H; subst; li_frame L.
  - inversion H; subst. li_frame L.
Qed.

Lemma LI_vstep s v s' : WF s -> LI s -> vstep s v = Some s' -> LI s'.
Proof.
  intros W L H. unfold vstep in H. destruct (pend (vc s v)) as [[w l]|] eqn:Pn.
  - destruct (do_unlock s v l) eqn:U; [|discriminate]. inversion H; subst.
    eapply LI_release_def; eauto. eapply rel_do_unlock; eauto.
  - destruct (runq (vc s v)) as [|[t|] r] eqn:E; [discriminate| |].
    + eapply LI_thread_step; eauto.
    + eapply LI_idler_step; eauto.
Qed.

Lemma LI_step s a s' : WF s -> LI s -> step s a = Some s' -> LI s'.
Proof.
  intros W L H. destruct a; simpl in H; [eapply LI_vstep; eauto|].
  inversion H; subst. eapply LI_frame; [apply li_now|exact L].
Qed.

Lemma LI_init nv kinds home progs : LI (init nv kinds home progs).
Proof.
  constructor; simpl.
  - intros t l. destruct (Nat.ltb t nv); simpl; discriminate.
  - intros v w l. discriminate.
Qed.

Theorem LI_reachable nv kinds home progs s : Reach nv kinds home progs s -> LI s.
Proof.
  induction 1 as [|s a s' R IH H]; [apply LI_init|].
  eapply LI_step; eauto. eapply WF_reachable; eauto.
Qed.

(* ================================================================================================
   Property theorems
   ================================================================================================ *)

(* thread t is inside a call wait(c, l) that has not yet put it on the queue *)
Definition wait_called (s : state) (t : tid) (c : cid) (l : lid) : Prop :=
  exists d os, prog (th s t) = OWait c l d :: os /\ tpc (th s t) = PIdle /\ held (th s t) l = true.
(* ... that has executed prepare_usleep (enqueue + sleep) and has not returned from the switch *)
Definition wait_enqueued (s : state) (t : tid) (c : cid) (l : lid) : Prop :=
  tpc (th s t) = PWaitSlept c l.

(* cv_atomic_release, first half: as long as the waiter has not been enqueued the lock is still its own;
   in particular nobody else can have acquired it (mutex and spinlock alike).  And the deferred
   unlock is pending only for a thread that still owns the lock. *)
Theorem cv_lock_kept_until_enqueued nv kinds home progs s t c l :
  Reach nv kinds home progs s -> wait_called s t c l -> lown s l = Some t.
Proof.
  intros R (d & os & _ & _ & Hh). eapply li_ho; eauto. eapply LI_reachable; eauto.
Qed.

Theorem cv_deferred_unlock_owner nv kinds home progs s v w l :
  Reach nv kinds home progs s -> pend (vc s v) = Some (w, l) -> lown s l = Some w /\ vcp (th s w) = v.
Proof.
  intros R H. pose proof (LI_reachable _ _ _ _ _ R) as L. destruct (li_pd s L _ _ _ H) as [H1 H2].
  split; auto. eapply li_ho; eauto.
Qed.

(* cv_no_lost_notify, lock part: if another thread N owns the lock, a thread W that has called
   wait(c, l) is no longer in the not-yet-enqueued phase *)
Theorem cv_notifier_excludes_unqueued_waiter nv kinds home progs s N W c l :
  Reach nv kinds home progs s -> lown s l = Some N -> N <> W -> ~ wait_called s W c l.
Proof.
  intros R Ho Hne Hc. pose proof (cv_lock_kept_until_enqueued _ _ _ _ _ _ _ _ R Hc). congruence.
Qed.

(* mutual exclusion of the user lock as seen through `held` (the harness' occupancy counter) *)
Theorem held_exclusive nv kinds home progs s t1 t2 l :
  Reach nv kinds home progs s -> held (th s t1) l = true -> held (th s t2) l = true -> t1 = t2.
Proof.
  intros R H1 H2. pose proof (LI_reachable _ _ _ _ _ R) as L.
  pose proof (li_ho s L _ _ H1). pose proof (li_ho s L _ _ H2). congruence.
Qed.

(* cv_wait_returns_locked: the step that completes a wait (the re-lock loop delivers result 0 to the
   continuation KWait) leaves the lock owned by the waiter *)
Definition in_relock (p : pc) (l : lid) : Prop :=
  exists c ret en, p = PLockTry l (KWait c ret en) \/ p = PLockSlept l (KWait c ret en).

Theorem cv_wait_returns_locked nv kinds home progs s a s' t l :
  Reach nv kinds home progs s -> step s a = Some s' ->
  in_relock (tpc (th s t)) l -> tpc (th s' t) = PIdle -> held (th s' t) l = true ->
  lown s' l = Some t.
Proof.
  intros R H _ _ Hh. assert (R' : Reach nv kinds home progs s') by (eapply reach_step; eauto).
  eapply li_ho; eauto. eapply LI_reachable; eauto.
Qed.

(* ---- examples: the hypotheses are met by concrete reachable states --------------------------- *)
Definition ex_progs (t : tid) : list op :=
  match t with
  | O => [OCreate 1%nat; OLock 0%nat; OWait 1%nat 0%nat 100; OUnlock 0%nat]
  | S O => [OLock 0%nat; ONotifyOne 1%nat; OUnlock 0%nat]
  | _ => []
  end.
Definition ex_init := init 1 (fun _ => KMutex) (fun _ => O) ex_progs.

Definition after (s0 : state) (l : list label) : state := fst (run_sched s0 l).
Lemma reach_after l : forall s0 s, reachable s0 s -> reachable s0 (after s l).
Proof.
  induction l as [|a r IH]; intros s0 s R; unfold after; simpl; auto.
  destruct (step s a) eqn:E; simpl; auto. apply IH. eapply reach_step; eauto.
Qed.

(* after `create 1; lock 0` the main thread is about to wait: wait_called *)
Example ex_wait_called : exists s, Reach 1 (fun _ => KMutex) (fun _ => O) ex_progs s /\ wait_called s 0%nat 1%nat 0%nat.
Proof.
  exists (after ex_init [LV O; LV O]). split.
  - apply reach_after, reach_init.
  - exists 100, [OUnlock 0%nat]. repeat split; vm_compute; reflexivity.
Qed.
(* one more step: enqueued, with the deferred unlock pending on vCPU 0 and the lock still owned *)
Example ex_pending : exists s, Reach 1 (fun _ => KMutex) (fun _ => O) ex_progs s /\
  pend (vc s O) = Some (0%nat, 0%nat) /\ wait_enqueued s 0%nat 1%nat 0%nat /\ lown s 0%nat = Some 0%nat.
Proof.
  exists (after ex_init [LV O; LV O; LV O]). split.
  - apply reach_after, reach_init.
  - repeat split; vm_compute; reflexivity.
Qed.
