(* C03_Model.v — fine-grained executable model of photon's condition variable
   (thread/thread.cpp at the pinned commit):

     cvar_do_wait                    1863-1878   wait(mutex) / wait(spinlock) 1879-1886
     thread_usleep_defer(4 args)     1393-1400   prepare_usleep 1358-1374, switch_context_defer
     thread_usleep(Timeout,waitq)    1381-1391   (the 1 ms retry sleep of cvar_do_wait)
     waitq::resume_one / resume_all  1740-1760   ScopedLockHead 1731-1739, indirect_lock 1521-1537
     prelocked_thread_interrupt      1459-1475   dequeue_ready_atomic 724-736
     thread_interrupt                1476-1492
     resume_threads_inlined          1263-1304   (stand-by batch + expired sleepers), idler 2092-2121
     thread_yield 1315-1323, thread_create 1040-1084 (insert_tail), thread::die 997-1024
     waitq_translate_errno           1696-1705,  thread::set_error_number 232-239
     spinlock (thread.h 230-260)     as `holder : option tid`
     mutex (1765-1820)               ABSTRACT: owner + its own wait queue; lock = CAS or
                                     enqueue-and-sleep, unlock = hand-off to the queue head
                                     (the mutex's internal splock protocol is C01's subject;
                                     max_retries = 0)

   EXECUTABLE DEFINITIONS ONLY.  Any number of threads on any number of vCPUs.  A participant
   is a vCPU (an OS thread); `vstep s v` performs the next transition of vCPU v: the pending
   deferred call if there is one (it runs on the next thread's stack, right after the switch),
   else the next atomic step of v's current thread (or of v's idler).  `None` = the step is not
   enabled (the participant spins on a held spinlock: a stutter).  `tick` advances `now`.

   Granularity (DESIGN 4.3, SCHED_CONTRACT): one transition = one atomic access, or one block
   under a lock whose footprint is only accessed under that lock.  `thread.lock` is explicit
   (`lk`, held across steps by ScopedLockHead / thread_interrupt).  `waitq.lock` and
   `standbyq.lock` are only ever held for the duration of one block and are therefore implicit:
   such a block is one transition.  prepare_usleep (waitq.lock then self.lock, one block) is one
   transition enabled when self.lock is free.  Sequential consistency.  No migration and no work
   stealing (threads stay on the vCPU that created them). *)
From Coq Require Import ZArith List Bool Arith.
From PV Require Import Base.U64 C04.C04_Heap.
Import ListNotations.
Local Open Scope Z_scope.

Definition vid := nat.
Definition lid := nat.
Definition cid := nat.

Inductive tstate := NEW | READY | RUNNING | SLEEPING | STANDBY | DONE.
Definition tstate_eqb (a b : tstate) : bool :=
  match a, b with
  | NEW, NEW | READY, READY | RUNNING, RUNNING | SLEEPING, SLEEPING | STANDBY, STANDBY | DONE, DONE => true
  | _, _ => false
  end.
(* photon::states numbering (thread.h): READY 0, RUNNING 1, SLEEPING 2, DONE 4, STANDBY 8 *)

Inductive wq := WCv (c : cid) | WMx (l : lid).
Definition wq_eqb (a b : wq) : bool :=
  match a, b with
  | WCv x, WCv y => Nat.eqb x y
  | WMx x, WMx y => Nat.eqb x y
  | _, _ => false
  end.
Definition updq {A : Type} (f : wq -> A) (k : wq) (v : A) : wq -> A :=
  fun x => if wq_eqb x k then v else f x.

Inductive lkind := KMutex | KSpin.

Inductive op :=
| OCreate (k : tid)
| OYield
| OSleep (d : Z)
| OInterrupt (k : tid) (e : Z)
| OLock (l : lid)
| OUnlock (l : lid)
| OWait (c : cid) (l : lid) (d : Z)
| ONotifyOne (c : cid)
| ONotifyAll (c : cid)
| ONop.

(* ghost: why the thread left its last sleep *)
Inductive wake := WNone | WNotified (by_ : tid) | WTimeout | WInterrupted | WHandoff.

(* what a lock attempt returns to *)
Inductive lkk := KOp | KWait (c : cid) (ret en : Z).

Inductive pc :=
| PIdle                                   (* between two ops *)
| PYielded (as_sleep : bool)              (* in thread_yield(), after goto_next *)
| PSleepSlept                             (* OSleep: in thread_usleep, after prepare_usleep *)
| PParked                                 (* main thread after its last op: usleep(-1) for ever *)
| PWaitSlept (c : cid) (l : lid)          (* cvar_do_wait: after prepare_usleep (1866) *)
| PLockTry (l : lid) (k : lkk)            (* about to attempt lock(l) *)
| PLockSlept (l : lid) (k : lkk)          (* mutex::lock slow path, asleep in the mutex queue *)
| PRetry (l : lid) (k : lkk)              (* cvar_do_wait 1872: lock failed, about to usleep(1000) *)
| PRetrySlept (l : lid) (k : lkk)         (* in that usleep *)
| PNfRead (c : cid) (all : bool) (n : nat)            (* indirect_lock: about to read the head *)
| PNfLocking (c : cid) (x : tid) (all : bool) (n : nat)   (* x->lock.lock() *)
| PNfLocked (c : cid) (x : tid) (all : bool) (n : nat)    (* holds x.lock; about to re-check *)
| PNfBackoff (c : cid) (x : tid) (all : bool) (n : nat)   (* re-check failed; x->lock.unlock() *)
| PNfGo (c : cid) (x : tid) (all : bool) (n : nat)        (* re-check ok: prelocked_thread_interrupt *)
| PNfUnlock (c : cid) (x : tid) (all : bool) (n : nat)    (* ~ScopedLockHead *)
| PInLock (k : tid) (e : Z)               (* thread_interrupt: saw SLEEPING; SCOPED_LOCK(th->lock) *)
| PInLocked (k : tid) (e : Z)             (* holds k.lock; about to re-read state *)
| PInUnlock (k : tid) (e : Z) (o : option tstate)  (* release k.lock; o = state seen if not SLEEPING *)
| PInOut (k : tid) (e : Z) (st : tstate)  (* label out: *)
| PInWrite (k : tid) (e : Z).             (* saw READY and error_number == 0: about to write *)

Inductive rqe := Th (t : tid) | Idl.
Inductive ipc := IStart | IExpire (cnt : nat) | IIdle.

Record ev := mkEv { ev_t : tid; ev_i : nat; ev_ret : Z; ev_err : Z; ev_now : Z }.

Record thr := mkThr {
  st : tstate; vcp : vid; err : Z; wqo : option wq; ts : Z; lk : option tid;
  tpc : pc; prog : list op; opi : nat; held : lid -> bool;
  wk : wake                                   (* ghost *)
}.
Record vcpu := mkVcpu {
  runq : list rqe;                            (* the ring, current first *)
  slq : heap; sbq : list tid;
  pend : option (tid * lid);                  (* deferred unlock(l) on behalf of sleeper t *)
  vipc : ipc
}.
Record state := mkState {
  now : Z; th : tid -> thr; vc : vid -> vcpu; wqs : wq -> list tid;
  lown : lid -> option tid; lkd : lid -> lkind; nvc : nat;
  trace : list ev; bad : bool
}.

(* ---- setters ------------------------------------------------------------------------- *)
Definition t_st (r : thr) v := mkThr v (vcp r) (err r) (wqo r) (ts r) (lk r) (tpc r) (prog r) (opi r) (held r) (wk r).
Definition t_vcp (r : thr) v := mkThr (st r) v (err r) (wqo r) (ts r) (lk r) (tpc r) (prog r) (opi r) (held r) (wk r).
Definition t_err (r : thr) v := mkThr (st r) (vcp r) v (wqo r) (ts r) (lk r) (tpc r) (prog r) (opi r) (held r) (wk r).
Definition t_wqo (r : thr) v := mkThr (st r) (vcp r) (err r) v (ts r) (lk r) (tpc r) (prog r) (opi r) (held r) (wk r).
Definition t_ts (r : thr) v := mkThr (st r) (vcp r) (err r) (wqo r) v (lk r) (tpc r) (prog r) (opi r) (held r) (wk r).
Definition t_lk (r : thr) v := mkThr (st r) (vcp r) (err r) (wqo r) (ts r) v (tpc r) (prog r) (opi r) (held r) (wk r).
Definition t_pc (r : thr) v := mkThr (st r) (vcp r) (err r) (wqo r) (ts r) (lk r) v (prog r) (opi r) (held r) (wk r).
Definition t_prog (r : thr) v := mkThr (st r) (vcp r) (err r) (wqo r) (ts r) (lk r) (tpc r) v (opi r) (held r) (wk r).
Definition t_opi (r : thr) v := mkThr (st r) (vcp r) (err r) (wqo r) (ts r) (lk r) (tpc r) (prog r) v (held r) (wk r).
Definition t_held (r : thr) v := mkThr (st r) (vcp r) (err r) (wqo r) (ts r) (lk r) (tpc r) (prog r) (opi r) v (wk r).
Definition t_wk (r : thr) v := mkThr (st r) (vcp r) (err r) (wqo r) (ts r) (lk r) (tpc r) (prog r) (opi r) (held r) v.

Definition v_runq (r : vcpu) v := mkVcpu v (slq r) (sbq r) (pend r) (vipc r).
Definition v_slq (r : vcpu) v := mkVcpu (runq r) v (sbq r) (pend r) (vipc r).
Definition v_sbq (r : vcpu) v := mkVcpu (runq r) (slq r) v (pend r) (vipc r).
Definition v_pend (r : vcpu) v := mkVcpu (runq r) (slq r) (sbq r) v (vipc r).
Definition v_ipc (r : vcpu) v := mkVcpu (runq r) (slq r) (sbq r) (pend r) v.

Definition s_now (s : state) v := mkState v (th s) (vc s) (wqs s) (lown s) (lkd s) (nvc s) (trace s) (bad s).
Definition s_th (s : state) v := mkState (now s) v (vc s) (wqs s) (lown s) (lkd s) (nvc s) (trace s) (bad s).
Definition s_vc (s : state) v := mkState (now s) (th s) v (wqs s) (lown s) (lkd s) (nvc s) (trace s) (bad s).
Definition s_wqs (s : state) v := mkState (now s) (th s) (vc s) v (lown s) (lkd s) (nvc s) (trace s) (bad s).
Definition s_lown (s : state) v := mkState (now s) (th s) (vc s) (wqs s) v (lkd s) (nvc s) (trace s) (bad s).
Definition s_trace (s : state) v := mkState (now s) (th s) (vc s) (wqs s) (lown s) (lkd s) (nvc s) v (bad s).
Definition s_bad (s : state) := mkState (now s) (th s) (vc s) (wqs s) (lown s) (lkd s) (nvc s) (trace s) true.

Definition updT (s : state) (t : tid) (f : thr -> thr) : state := s_th s (updf (th s) t (f (th s t))).
Definition updV (s : state) (v : vid) (f : vcpu -> vcpu) : state := s_vc s (updf (vc s) v (f (vc s v))).

Definition ETIMEDOUT : Z := 110.
Definition SKIPPED : Z := -2.

(* ---- run queue ------------------------------------------------------------------------ *)
(* the thread at the head of v's ring becomes RUNNING (remove_current / _do_goto: to->state) *)
Definition set_running (s : state) (v : vid) : state :=
  match runq (vc s v) with
  | Th t' :: _ => updT s t' (fun r => t_st r RUNNING)
  | _ => s
  end.
(* AtomicRunQ::goto_next: from->state = READY; current = next *)
Definition rotate (s : state) (v : vid) : state :=
  match runq (vc s v) with
  | [] => s
  | e :: r =>
      let s1 := match e with Th t => updT s t (fun x => t_st x READY) | Idl => s end in
      set_running (updV s1 v (fun x => v_runq x (r ++ [e]))) v
  end.
Definition rq_append (s : state) (v : vid) (t : tid) : state :=
  updV s v (fun x => v_runq x (runq x ++ [Th t])).

Definition tsf (s : state) : tid -> Z := fun x => ts (th s x).

(* prepare_usleep (1358-1374), the whole block under waitq.lock + self.lock, for the current
   thread t of vCPU v; caller has checked lk t = None *)
Definition prepare_usleep (s : state) (v : vid) (t : tid) (q : option wq) (expiration : Z) : state :=
  let s1 := updV s v (fun x => v_runq x (tl (runq x))) in                 (* remove_current(SLEEPING) *)
  let s2 := updT s1 t (fun r => t_wk (t_ts (t_st r SLEEPING) expiration) WNone) in
  let s3 := match q with
            | Some w => updT (s_wqs s2 (updq (wqs s2) w (wqs s2 w ++ [t]))) t (fun r => t_wqo r (Some w))
            | None => s2
            end in
  let s4 := updV s3 v (fun x => v_slq x (push (tsf s3) (slq x) t)) in     (* sleepq.push *)
  set_running s4 v.

(* thread::dequeue_ready_atomic(newstat) (724-736) *)
Definition dequeue (s : state) (x : tid) (newst : tstate) : state :=
  let s1 := match wqo (th s x) with
            | Some w => updT (s_wqs s (updq (wqs s) w (remove Nat.eq_dec x (wqs s w)))) x (fun r => t_wqo r None)
            | None => s
            end in
  updT s1 x (fun r => t_st r newst).

(* prelocked_thread_interrupt (1459-1475) after `th->error_number = e`, executed by vCPU va *)
Definition wake_by (s : state) (va : vid) (x : tid) : state :=
  let vx := vcp (th s x) in
  if Nat.eqb vx va then
    let s1 := dequeue s x READY in
    let s2 := updV s1 vx (fun r => v_slq r (fst (pop (tsf s1) (slq r) x))) in
    rq_append s2 vx x
  else
    let s1 := dequeue s x STANDBY in
    updV s1 vx (fun r => v_sbq r (sbq r ++ [x])).

(* ---- op completion ---------------------------------------------------------------------- *)
Definition finish_op (s : state) (t : tid) (ret e : Z) : state :=
  let r := th s t in
  let s1 := s_trace s (trace s ++ [mkEv t (opi r) ret e (now s)]) in
  updT s1 t (fun r => t_pc (t_opi (t_prog r (tl (prog r))) (S (opi r))) PIdle).

Definition set_pc (s : state) (t : tid) (p : pc) : state := updT s t (fun r => t_pc r p).
Definition set_held (s : state) (t : tid) (l : lid) (b : bool) : state :=
  updT s t (fun r => t_held r (updf (held r) l b)).

(* waitq_translate_errno (1696-1705) applied to (ret, errno) *)
Definition translate (ret en : Z) : Z * Z :=
  if ret =? 0 then (-1, ETIMEDOUT) else if en =? -1 then (0, 0) else (-1, en).

(* thread::set_error_number (232-239): (ret, errno-if-set, state) *)
Definition take_err (s : state) (t : tid) : Z * Z * state :=
  let e := err (th s t) in
  if e =? 0 then (0, 0, s) else (-1, e, updT s t (fun r => t_err r 0)).

(* result r (0 / -1 with errno en) of a lock attempt on l delivered to continuation k *)
Definition lock_done (s : state) (t : tid) (l : lid) (k : lkk) (r en : Z) : state :=
  match k with
  | KOp => if r =? 0 then finish_op (set_held s t l true) t 0 0 else finish_op s t r en
  | KWait c wret wen =>
      if r =? 0 then
        let '(a, b) := translate wret wen in                         (* 1875-1876 *)
        finish_op (set_held s t l true) t a b
      else set_pc s t (PRetry l k)                                   (* 1871-1873 *)
  end.

(* do_mutex_unlock (1808-1814) on the abstract mutex, executed by vCPU va: None = spin on head.lock *)
Definition mutex_unlock (s : state) (va : vid) (l : lid) : option state :=
  match wqs s (WMx l) with
  | [] => Some (s_lown s (updf (lown s) l None))
  | h :: _ =>
      match lk (th s h) with
      | Some _ => None
      | None =>
          let s1 := s_lown s (updf (lown s) l (Some h)) in
          let s2 := updT s1 h (fun r => t_wk (t_err r (-1)) WHandoff) in
          Some (wake_by s2 va h)
      end
  end.
Definition do_unlock (s : state) (va : vid) (l : lid) : option state :=
  match lkd s l with
  | KSpin => Some (s_lown s (updf (lown s) l None))
  | KMutex => mutex_unlock s va l
  end.

(* one lock attempt: spinlock::lock = TAS (spins while held); mutex::lock = CAS, else slow path *)
Definition lock_try (s : state) (v : vid) (t : tid) (l : lid) (k : lkk) : option state :=
  match lown s l with
  | None => Some (lock_done (s_lown s (updf (lown s) l (Some t))) t l k 0 0)
  | Some _ =>
      match lkd s l with
      | KSpin => None
      | KMutex =>
          match lk (th s t) with
          | Some _ => None
          | None => Some (set_pc (prepare_usleep s v t (Some (WMx l)) MAX64) t (PLockSlept l k))
          end
      end
  end.

(* e2::Env::alive: the target exists and has not finished (a main thread parks and stays valid) *)
Definition alive (s : state) (k : tid) : bool :=
  let r := th s k in
  negb (tstate_eqb (st r) NEW) && negb (tstate_eqb (st r) DONE) &&
  (Nat.ltb k (nvc s) ||
   negb (match prog r, tpc r with
         | [], PIdle => true
         | _, _ => false
         end)).

Definition expiration_of (s : state) (d : Z) : Z := if d =? 0 then 0 else sat_add (now s) d.

(* ---- steps of a program thread t, current on vCPU v ------------------------------------ *)
Definition notify_read (s : state) (t : tid) (c : cid) (all : bool) (n : nat) : state :=
  match wqs s (WCv c) with
  | [] => if all then finish_op s t (Z.of_nat n) 0 else finish_op s t (-1) 0
  | x :: _ => set_pc s t (PNfLocking c x all n)
  end.

Definition op_step (s : state) (v : vid) (t : tid) (o : op) : option state :=
  let r := th s t in
  match o with
  | ONop => Some (finish_op s t 0 0)
  | OCreate k =>
      (* a thread runs on the vCPU that created it (no migration): the model fixes each thread's vCPU in the
         initial state (`home`) and a create from another vCPU is not executed *)
      if tstate_eqb (st (th s k)) NEW && Nat.leb (nvc s) k && Nat.eqb (vcp (th s k)) v then
        let s1 := updT s k (fun x => t_st x READY) in
        Some (finish_op (rq_append s1 v k) t 0 0)
      else Some (finish_op s t SKIPPED 0)
  | OYield =>
      Some (set_pc (rotate (updT s t (fun x => t_err x 0)) v) t (PYielded false))
  | OSleep d =>
      let e := expiration_of s d in
      if (e =? 0) || (e <=? now s) then                               (* yield_as_sleep *)
        Some (set_pc (rotate (updT s t (fun x => t_err x 0)) v) t (PYielded true))
      else match lk r with
           | Some _ => None
           | None => Some (set_pc (prepare_usleep s v t None e) t PSleepSlept)
           end
  | OInterrupt k e =>
      if alive s k && (0 <? e) then
        let stk := st (th s k) in                                      (* unlocked read of state *)
        if tstate_eqb stk SLEEPING then Some (set_pc s t (PInLock k e))
        else Some (set_pc s t (PInOut k e stk))
      else Some (finish_op s t SKIPPED 0)
  | OLock l =>
      if held r l then Some (finish_op s t SKIPPED 0)
      else lock_try s v t l KOp
  | OUnlock l =>
      if held r l then
        match do_unlock s v l with
        | Some s1 => Some (finish_op (set_held s1 t l false) t 0 0)
        | None => None
        end
      else Some (finish_op s t SKIPPED 0)
  | OWait c l d =>
      if held r l then
        match lk r with
        | Some _ => None
        | None =>
            let s1 := prepare_usleep s v t (Some (WCv c)) (expiration_of s d) in
            let s2 := updV s1 v (fun x => v_pend x (Some (t, l))) in   (* switch_context_defer *)
            Some (set_pc s2 t (PWaitSlept c l))
        end
      else Some (finish_op s t SKIPPED 0)
  | ONotifyOne c => Some (notify_read s t c false O)
  | ONotifyAll c => Some (notify_read s t c true O)
  end.

Definition thread_step (s : state) (v : vid) (t : tid) : option state :=
  let r := th s t in
  match tpc r with
  | PIdle =>
      match prog r with
      | o :: _ => op_step s v t o
      | [] =>
          match lk r with
          | Some _ => None
          | None =>
              if Nat.ltb t (nvc s)
              then Some (set_pc (prepare_usleep s v t None MAX64) t PParked)     (* main thread parks *)
              else                                                                (* thread::die *)
                let s1 := updV s v (fun x => v_runq x (tl (runq x))) in
                Some (set_running (updT s1 t (fun x => t_st x DONE)) v)
          end
      end
  | PParked =>                                   (* while (true) thread_usleep(-1): woken by an interrupt *)
      match lk r with
      | Some _ => None
      | None => let '(_, _, s1) := take_err s t in
                Some (set_pc (prepare_usleep s1 v t None MAX64) t PParked)
      end
  | PYielded as_sleep =>
      let e := err r in                                                (* returned, NOT cleared *)
      if as_sleep then (if e =? 0 then Some (finish_op s t 0 0) else Some (finish_op s t (-1) e))
      else Some (finish_op s t e 0)
  | PSleepSlept =>
      let '(ret, en, s1) := take_err s t in Some (finish_op s1 t ret en)
  | PWaitSlept c l =>                                                  (* 1866-1867 *)
      let '(ret, en, s1) := take_err s t in Some (set_pc s1 t (PLockTry l (KWait c ret en)))
  | PLockTry l k => lock_try s v t l k
  | PLockSlept l k =>                                                  (* 1787-1792 *)
      let '(ret, en, s1) := take_err s t in
      if (ret <? 0) && (en =? -1) then
        match lown s1 l with
        | Some o => if Nat.eqb o t then Some (lock_done s1 t l k 0 0) else Some (set_pc s1 t (PLockTry l k))
        | None => Some (set_pc s1 t (PLockTry l k))
        end
      else let '(a, b) := translate ret en in Some (lock_done s1 t l k a b)
  | PRetry l k =>                                                      (* thread_usleep(1000, nullptr) *)
      let e := sat_add (now s) 1000 in
      if e <=? now s then Some (set_pc (rotate (updT s t (fun x => t_err x 0)) v) t (PRetrySlept l k))
      else match lk r with
           | Some _ => None
           | None => Some (set_pc (prepare_usleep s v t None e) t (PRetrySlept l k))
           end
  | PRetrySlept l k =>
      let '(_, _, s1) := take_err s t in Some (set_pc s1 t (PLockTry l k))
  | PNfRead c all n => Some (notify_read s t c all n)
  | PNfLocking c x all n =>
      match lk (th s x) with
      | Some _ => None
      | None => Some (set_pc (updT s x (fun y => t_lk y (Some t))) t (PNfLocked c x all n))
      end
  | PNfLocked c x all n =>
      match wqs s (WCv c) with
      | h :: _ => if Nat.eqb h x then Some (set_pc s t (PNfGo c x all n))
                  else Some (set_pc s t (PNfBackoff c x all n))
      | [] => Some (set_pc s t (PNfBackoff c x all n))
      end
  | PNfBackoff c x all n =>
      Some (set_pc (updT s x (fun y => t_lk y None)) t (PNfRead c all n))
  | PNfGo c x all n =>
      (* prelocked_thread_interrupt (1459): `assert(th->state == SLEEPING)` is compiled out; a head that is
         not SLEEPING would be outside the domain where the C++ is defined: `bad` (theorem never_bad) *)
      if tstate_eqb (st (th s x)) SLEEPING then
        let s1 := updT s x (fun y => t_wk (t_err y (-1)) (WNotified t)) in
        Some (set_pc (wake_by s1 v x) t (PNfUnlock c x all n))
      else Some (set_pc (s_bad s) t (PNfUnlock c x all n))
  | PNfUnlock c x all n =>
      let s1 := updT s x (fun y => t_lk y None) in
      if all then Some (set_pc s1 t (PNfRead c true (S n)))
      else Some (finish_op s1 t (Z.of_nat x) 0)
  | PInLock k e =>
      match lk (th s k) with
      | Some _ => None
      | None => Some (set_pc (updT s k (fun y => t_lk y (Some t))) t (PInLocked k e))
      end
  | PInLocked k e =>
      let stk := st (th s k) in
      (* `0 <? e` is the model's restriction on interrupt error numbers, checked at OInterrupt already;
         it is re-tested here (always true in reachable states) so that the proofs need no pc invariant *)
      if tstate_eqb stk SLEEPING && (0 <? e) then
        let s1 := updT s k (fun y => t_wk (t_err y e) WInterrupted) in
        Some (set_pc (wake_by s1 v k) t (PInUnlock k e None))
      else Some (set_pc s t (PInUnlock k e (Some stk)))
  | PInUnlock k e o =>
      let s1 := updT s k (fun y => t_lk y None) in
      match o with
      | None => Some (finish_op s1 t 0 0)
      | Some stk => Some (set_pc s1 t (PInOut k e stk))
      end
  | PInOut k e stk =>
      if tstate_eqb stk READY && (err (th s k) =? 0) then Some (set_pc s t (PInWrite k e))
      else Some (finish_op s t 0 0)
  | PInWrite k e =>
      if 0 <? e then Some (finish_op (updT s k (fun y => t_err y e)) t 0 0)
      else Some (finish_op s t 0 0)
  end.

(* ---- the idler of vCPU v (2092-2121) with resume_threads_inlined (1263-1304) ------------- *)
Fixpoint eject (s : state) (v : vid) (l : list tid) (cnt : nat) : state * nat :=
  match l with
  | [] => (s, cnt)
  | x :: r =>
      let s1 := updT s x (fun y => t_st y READY) in
      let s2 := updV s1 v (fun y => v_slq y (fst (pop (tsf s1) (slq y) x))) in
      eject (rq_append s2 v x) v r (S cnt)
  end.

Definition idle_decide (s : state) (v : vid) (cnt : nat) : state :=
  if Nat.ltb 0 cnt || Nat.ltb 1 (length (runq (vc s v)))
  then updV (rotate s v) v (fun y => v_ipc y IStart)                  (* thread_yield() *)
  else updV s v (fun y => v_ipc y IIdle).                             (* wait_and_fire_events *)

Definition idler_step (s : state) (v : vid) : option state :=
  let r := vc s v in
  match vipc r with
  | IStart =>
      let '(s1, cnt) := eject (updV s v (fun y => v_sbq y [])) v (sbq r) O in
      Some (updV s1 v (fun y => v_ipc y (IExpire cnt)))
  | IExpire cnt =>
      match front (slq r) with
      | None => Some (idle_decide s v cnt)
      | Some x =>
          if now s <? ts (th s x) then Some (idle_decide s v cnt)
          else match lk (th s x) with
               | Some _ => None                                          (* SCOPED_LOCK(th->lock) spins *)
               | None =>
                   let s1 := updV s v (fun y => v_slq y (fst (pop_front (tsf s) (slq y)))) in
                   if tstate_eqb (st (th s1 x)) SLEEPING then
                     let s2 := updT (dequeue s1 x READY) x (fun y => t_wk y WTimeout) in
                     Some (updV (rq_append s2 v x) v (fun y => v_ipc y (IExpire (S cnt))))
                   else Some s1
               end
      end
  | IIdle => Some (updV s v (fun y => v_ipc y IStart))
  end.

(* ---- a vCPU's transition ------------------------------------------------------------------ *)
Definition vstep (s : state) (v : vid) : option state :=
  let r := vc s v in
  match pend r with
  | Some (w, l) =>
      match do_unlock s v l with
      | Some s1 => Some (updV (set_held s1 w l false) v (fun y => v_pend y None))
      | None => None
      end
  | None =>
      match runq r with
      | [] => None
      | Idl :: _ => idler_step s v
      | Th t :: _ => thread_step s v t
      end
  end.

Definition tick (s : state) (d : Z) : state := s_now s (sat_add (now s) (Z.max 0 d)).

(* the transition relation of the whole system: any vCPU, or time *)
Inductive label := LV (v : vid) | LTick (d : Z).
Definition step (s : state) (a : label) : option state :=
  match a with
  | LV v => vstep s v
  | LTick d => Some (tick s d)
  end.

(* ---- initial states ------------------------------------------------------------------------ *)
Definition thr0 : thr := mkThr NEW O 0 None 0 None PIdle [] O (fun _ => false) WNone.
Definition VSTART : Z := 1000.                                        (* e2::VCLOCK_START *)
(* nv vCPUs; thread k < nv is the main thread of vCPU k (RUNNING); programs by `progs` *)
Definition init (nv : nat) (kinds : lid -> lkind) (home : tid -> vid) (progs : tid -> list op) : state :=
  mkState VSTART
    (fun t => let r := t_prog thr0 (progs t) in
              if Nat.ltb t nv then t_vcp (t_st r RUNNING) t else t_vcp r (home t))
    (fun v => mkVcpu (if Nat.ltb v nv then [Th v; Idl] else []) heap_empty [] None IStart)
    (fun _ => []) (fun _ => None) kinds nv [] false.

(* ---- the cooperative single-vCPU run (E2): the same vstep, vCPU 0, with the idle rule of the
   E2 harness: when only the idler is runnable the virtual clock jumps by
   min(10*1024*1024, front.ts_wakeup - now); the run ends when nothing can ever wake up ------ *)
Inductive fin := FEnd | FStuck | FFuel.
Fixpoint coop (fuel : nat) (s : state) : state * fin :=
  match fuel with
  | O => (s, FFuel)
  | S f =>
      let r := vc s O in
      match pend r, runq r, vipc r with
      | None, Idl :: _, IIdle =>
          match front (slq r) with
          | None => (s, FEnd)
          | Some x =>
              let d := ts (th s x) in
              if d =? MAX64 then (s, FEnd)
              else let usec := Z.min (10 * 1024 * 1024) (sat_sub d (now s)) in
                   match vstep (tick s usec) O with
                   | Some s' => coop f s'
                   | None => (s, FStuck)
                   end
          end
      | _, _, _ =>
          match vstep s O with
          | Some s' => coop f s'
          | None => (s, FStuck)
          end
      end
  end.

Definition blocked_of (s : state) (n : nat) : list (tid * nat) :=
  flat_map (fun k => let r := th s k in
                     if negb (tstate_eqb (st r) NEW) && negb (match prog r with [] => true | _ => false end)
                     then [(k, opi r)] else []) (seq 0 n).

(* run a single-vCPU program: n threads, thread 0 is main *)
Definition run_coop (fuel n : nat) (kinds : lid -> lkind) (progs : tid -> list op)
  : list ev * list (tid * nat) * Z * fin :=
  let '(s, f) := coop fuel (init 1 kinds (fun _ => O) progs) in
  (trace s, blocked_of s n, now s, f).

(* run an explicit schedule (multi-vCPU witnesses): stops at the first disabled step *)
Fixpoint run_sched (s : state) (l : list label) : state * bool :=
  match l with
  | [] => (s, true)
  | a :: r => match step s a with
              | Some s' => run_sched s' r
              | None => (s, false)
              end
  end.
