(* C03_IntrRace.v — a finding of the faithful fine-grained model (3 vCPUs; not a single-vCPU behaviour):
   thread_interrupt (thread.cpp 1476-1492) reads `th->state` without the lock and, on its `out:` path,
   tests `th->error_number == 0` and then writes it — three unlocked accesses.  Between the test and the
   write the target can run, call cv.wait, fall asleep and be picked by notify_one (error_number := -1);
   the late write replaces the -1 by the interrupter's errno: wait() returns -1/EINTR although
   notify_one() returned this very thread — the notification is consumed and lost.
   (Outside C03's quantifier domain — the property text has no interrupts — and the same overwrite after a
   mutex hand-off concerns C01/C04; recorded here because the model exhibits it.) *)
From Coq Require Import ZArith List Bool Arith Lia.
From PV Require Import Base.U64 C04.C04_Heap C03.C03_Model C03.C03_WF C03.C03_Proofs.
Import ListNotations.
Local Open Scope Z_scope.

(* vCPU 0: main T0 creates the waiter W = T3.  vCPU 1: main T1 = interrupter.  vCPU 2: main T2 = notifier. *)
Definition race_progs (t : tid) : list op :=
  match t with
  | 0%nat => [OCreate 3%nat]
  | 1%nat => [OInterrupt 3%nat 4]
  | 2%nat => [ONotifyOne 1%nat]
  | 3%nat => [OLock 0%nat; OWait 1%nat 0%nat 1000; OUnlock 0%nat]
  | _ => []
  end.
Definition race_init := init 3 (fun _ => KSpin) (fun _ => O) race_progs.
Definition race_sched : list label :=
  let v0 := LV 0%nat in let v1 := LV 1%nat in let v2 := LV 2%nat in
  [v0;                    (* T0: create W (READY, error_number = 0) *)
   v1; v1;                (* I: reads W.state = READY; reads W.error_number == 0 *)
   v0;                    (* T0 parks *)
   v0; v0;                (* idler of vCPU 0: stand-by batch, nothing expired -> yields to W *)
   v0; v0; v0;            (* W: lock; wait = enqueue + sleep; deferred unlock *)
   v2; v2; v2; v2; v2;    (* N: read head = W, lock W, re-check, interrupt(W, -1) -> STANDBY, unlock: returns W *)
   v1;                    (* I: writes W.error_number := 4 over the -1 *)
   v0; v0; v0;            (* idler of vCPU 0 resumes W *)
   v0; v0; v0; v0; v0; v0 (* W: resumes with errno 4, re-locks, wait returns -1/4, unlock *)].
Definition race_final := after race_init race_sched.

Theorem notified_returns_0_refuted_with_interrupts :
  exists s, Reach 3 (fun _ => KSpin) (fun _ => O) race_progs s /\
    (exists e, In e (trace s) /\ ev_t e = 2%nat /\ ev_i e = 0%nat /\ ev_ret e = 3)            (* notify_one() returned W *)
    /\ (exists e, In e (trace s) /\ ev_t e = 3%nat /\ ev_i e = 1%nat /\ ev_ret e = -1 /\ ev_err e = 4). (* W's wait: -1/EINTR *)
Proof.
  exists race_final. split; [apply reach_after, reach_init|].
  assert (E : map (fun e => (ev_t e, ev_i e, ev_ret e, ev_err e)) (trace race_final) =
              [(0%nat, 0%nat, 0, 0); (3%nat, 0%nat, 0, 0); (2%nat, 0%nat, 3, 0); (1%nat, 0%nat, 0, 0); (3%nat, 1%nat, -1, 4); (3%nat, 2%nat, 0, 0)]).
  { vm_compute. reflexivity. }
  destruct (trace race_final) as [|e1 [|e2 [|e3 [|e4 [|e5 [|e6 [|]]]]]]]; try discriminate E.
  simpl in E. inversion E. split.
  - exists e3. repeat split; auto. simpl. auto.
  - exists e5. repeat split; auto. simpl. auto 6.
Qed.
