(* C03 property theorems (fine-grained model C03_Model.v: every interleaving of any number of
   threads on any number of vCPUs).  Statements that are not proved yet are kept as Definitions. *)
From Coq Require Import ZArith List.
From PV Require Import Base.U64 C04.C04_Heap C03.C03_Model C03.C03_WF C03.C03_Proofs C03.C03_Queue.
Import ListNotations.
Local Open Scope Z_scope.

(* scheduler well-formedness in every reachable state (wait queues = SLEEPING threads pointing back,
   run queues = READY/RUNNING threads of that vCPU without duplicates, ...) *)
Theorem c03_sched_wf : forall nv kinds home progs s, Reach nv kinds home progs s -> WF s.
Proof. exact WF_reachable. Qed.
Print Assumptions c03_sched_wf.

(* cv_atomic_release (lock side): a waiter that has called wait(c,l) and is not yet on the queue
   still owns l — for mutex and spinlock alike, in every interleaving *)
Theorem c03_cv_lock_kept_until_enqueued : forall nv kinds home progs s t c l,
  Reach nv kinds home progs s -> wait_called s t c l -> lown s l = Some t.
Proof. exact cv_lock_kept_until_enqueued. Qed.
Print Assumptions c03_cv_lock_kept_until_enqueued.

(* the deferred unlock pending on a vCPU belongs to a sleeper of that vCPU that still owns the lock:
   the lock is released only after the enqueue (prepare_usleep) has happened *)
Theorem c03_cv_deferred_unlock_owner : forall nv kinds home progs s v w l,
  Reach nv kinds home progs s -> pend (vc s v) = Some (w, l) -> lown s l = Some w /\ vcp (th s w) = v.
Proof. exact cv_deferred_unlock_owner. Qed.
Print Assumptions c03_cv_deferred_unlock_owner.

(* cv_no_lost_notify (lock side): when a notifier N owns l, no other thread is between its call of
   wait(c,l) and its enqueue *)
Theorem c03_cv_notifier_excludes_unqueued_waiter : forall nv kinds home progs s N W c l,
  Reach nv kinds home progs s -> lown s l = Some N -> N <> W -> ~ wait_called s W c l.
Proof. exact cv_notifier_excludes_unqueued_waiter. Qed.
Print Assumptions c03_cv_notifier_excludes_unqueued_waiter.

Theorem c03_held_exclusive : forall nv kinds home progs s t1 t2 l,
  Reach nv kinds home progs s -> held (th s t1) l = true -> held (th s t2) l = true -> t1 = t2.
Proof. exact held_exclusive. Qed.
Print Assumptions c03_held_exclusive.

(* cv_wait_returns_locked *)
Theorem c03_cv_wait_returns_locked : forall nv kinds home progs s a s' t l,
  Reach nv kinds home progs s -> step s a = Some s' ->
  in_relock (tpc (th s t)) l -> tpc (th s' t) = PIdle -> held (th s' t) l = true ->
  lown s' l = Some t.
Proof. exact cv_wait_returns_locked. Qed.
Print Assumptions c03_cv_wait_returns_locked.

(* queue side: a thread that has executed the enqueue block of wait(c,l) and that nobody has woken
   (ghost wk = WNone: no notify, time-out, interrupt picked it) is a member of c's queue *)
Theorem c03_cv_enqueued_stays_queued : forall nv kinds home progs s t c l,
  Reach nv kinds home progs s -> tpc (th s t) = PWaitSlept c l -> wk (th s t) = WNone -> In t (wqs s (WCv c)).
Proof. intros nv kinds home progs s t c l R. exact (WK_reachable nv kinds home progs s R t c l). Qed.
Print Assumptions c03_cv_enqueued_stays_queued.

(* cv_atomic_release: no reachable state in which a waiter has given up the lock and is neither on the
   queue nor already woken — every interleaving, any number of vCPUs, mutex and spinlock *)
Theorem c03_cv_atomic_release : forall nv kinds home progs s t c l,
  Reach nv kinds home progs s -> (wait_called s t c l \/ wait_enqueued s t c l) ->
  lown s l <> Some t -> wait_enqueued s t c l /\ (In t (wqs s (WCv c)) \/ wk (th s t) <> WNone).
Proof. exact cv_atomic_release. Qed.
Print Assumptions c03_cv_atomic_release.

(* cv_no_lost_notify: while N owns l, every other thread inside wait(c,l) has been enqueued, and is on the
   queue unless it has already been woken or timed out *)
Theorem c03_cv_no_lost_notify : forall nv kinds home progs s N W c l,
  Reach nv kinds home progs s -> lown s l = Some N -> N <> W ->
  (wait_called s W c l \/ wait_enqueued s W c l) -> wk (th s W) = WNone \/ wait_called s W c l ->
  wait_enqueued s W c l /\ (wk (th s W) = WNone -> In W (wqs s (WCv c))).
Proof. exact cv_no_lost_notify. Qed.
Print Assumptions c03_cv_no_lost_notify.

(* ---- statements not proved yet (kept at full strength) ---------------------------------------- *)
(* notify_one_exact: the notifier at PNfGo holds the lock of the queue head, which is SLEEPING; the
   model never leaves the domain where prelocked_thread_interrupt is defined *)
Definition never_bad : Prop := forall nv kinds home progs s, Reach nv kinds home progs s -> bad s = false.
Definition notify_go_head : Prop := forall nv kinds home progs s N c x all n,
  Reach nv kinds home progs s -> tpc (th s N) = PNfGo c x all n ->
  hd_error (wqs s (WCv c)) = Some x /\ lk (th s x) = Some N /\ st (th s x) = SLEEPING.
(* cv_wait_result: 0 only if notified; ETIMEDOUT only if woken by the timer at/after the deadline *)
Definition cv_wait_result : Prop := forall nv kinds home progs s t c l,
  Reach nv kinds home progs s -> tpc (th s t) = PWaitSlept c l ->
  (err (th s t) = -1 -> exists n, wk (th s t) = WNotified n) /\
  (wk (th s t) = WTimeout -> ts (th s t) <= now s).
