(* C03 property theorems (fine-grained model C03_Model.v: every interleaving of any number of
   threads on any number of vCPUs).  Statements that are not proved yet are kept as Definitions. *)
From Coq Require Import ZArith List.
From PV Require Import Base.U64 C04.C04_Heap C03.C03_Model C03.C03_WF C03.C03_Proofs C03.C03_Queue C03.C03_Notify C03.C03_Result C03.C03_IntrRace C03.C03_Locked C03.C03_NeverBad C03.C03_NoIntr.
Import ListNotations.
Local Open Scope Z_scope.

(* scheduler well-formedness in every reachable state (wait queues = SLEEPING threads pointing back,
   run queues = READY/RUNNING threads of that vCPU without duplicates, ...) *)
Theorem c03_sched_wf : forall nv kinds home progs s, Reach nv kinds home progs s -> WF s.
Proof. exact WF_reachable. Qed.
Print Assumptions c03_sched_wf.

(* cv_atomic_release (lock side): a waiter that has called wait(c,l) and is not yet on the queue
   still owns l — for mutex and spinlock alike, in every interleaving *)
Theorem c03_cv_lock_kept_until_enqueued : forall nv kinds home progs s t c l,
  Reach nv kinds home progs s -> wait_called s t c l -> lown s l = Some t.
Proof. exact cv_lock_kept_until_enqueued. Qed.
Print Assumptions c03_cv_lock_kept_until_enqueued.

(* the deferred unlock pending on a vCPU belongs to a sleeper of that vCPU that still owns the lock:
   the lock is released only after the enqueue (prepare_usleep) has happened *)
Theorem c03_cv_deferred_unlock_owner : forall nv kinds home progs s v w l,
  Reach nv kinds home progs s -> pend (vc s v) = Some (w, l) -> lown s l = Some w /\ vcp (th s w) = v.
Proof. exact cv_deferred_unlock_owner. Qed.
Print Assumptions c03_cv_deferred_unlock_owner.

(* cv_no_lost_notify (lock side): when a notifier N owns l, no other thread is between its call of
   wait(c,l) and its enqueue *)
Theorem c03_cv_notifier_excludes_unqueued_waiter : forall nv kinds home progs s N W c l,
  Reach nv kinds home progs s -> lown s l = Some N -> N <> W -> ~ wait_called s W c l.
Proof. exact cv_notifier_excludes_unqueued_waiter. Qed.
Print Assumptions c03_cv_notifier_excludes_unqueued_waiter.

Theorem c03_held_exclusive : forall nv kinds home progs s t1 t2 l,
  Reach nv kinds home progs s -> held (th s t1) l = true -> held (th s t2) l = true -> t1 = t2.
Proof. exact held_exclusive. Qed.
Print Assumptions c03_held_exclusive.

(* cv_wait_returns_locked: the step of the re-lock loop that completes wait() (pc back to PIdle) leaves the
   lock owned by the waiter — every interleaving, mutex and spinlock *)
Theorem c03_cv_wait_returns_locked : forall nv kinds home progs s v t r l c ret en s',
  Reach nv kinds home progs s -> runq (vc s v) = Th t :: r -> pend (vc s v) = None ->
  (tpc (th s t) = PLockTry l (KWait c ret en) \/ tpc (th s t) = PLockSlept l (KWait c ret en)) ->
  vstep s v = Some s' -> tpc (th s' t) = PIdle ->
  held (th s' t) l = true /\ lown s' l = Some t.
Proof. exact cv_wait_returns_locked_strong. Qed.
Print Assumptions c03_cv_wait_returns_locked.

(* queue side: a thread that has executed the enqueue block of wait(c,l) and that nobody has woken
   (ghost wk = WNone: no notify, time-out, interrupt picked it) is a member of c's queue *)
Theorem c03_cv_enqueued_stays_queued : forall nv kinds home progs s t c l,
  Reach nv kinds home progs s -> tpc (th s t) = PWaitSlept c l -> wk (th s t) = WNone -> In t (wqs s (WCv c)).
Proof. intros nv kinds home progs s t c l R. exact (WK_reachable nv kinds home progs s R t c l). Qed.
Print Assumptions c03_cv_enqueued_stays_queued.

(* cv_atomic_release: no reachable state in which a waiter has given up the lock and is neither on the
   queue nor already woken — every interleaving, any number of vCPUs, mutex and spinlock *)
Theorem c03_cv_atomic_release : forall nv kinds home progs s t c l,
  Reach nv kinds home progs s -> (wait_called s t c l \/ wait_enqueued s t c l) ->
  lown s l <> Some t -> wait_enqueued s t c l /\ (In t (wqs s (WCv c)) \/ wk (th s t) <> WNone).
Proof. exact cv_atomic_release. Qed.
Print Assumptions c03_cv_atomic_release.

(* cv_no_lost_notify: while N owns l, every other thread inside wait(c,l) has been enqueued, and is on the
   queue unless it has already been woken or timed out *)
Theorem c03_cv_no_lost_notify : forall nv kinds home progs s N W c l,
  Reach nv kinds home progs s -> lown s l = Some N -> N <> W ->
  (wait_called s W c l \/ wait_enqueued s W c l) -> wk (th s W) = WNone \/ wait_called s W c l ->
  wait_enqueued s W c l /\ (wk (th s W) = WNone -> In W (wqs s (WCv c))).
Proof. exact cv_no_lost_notify. Qed.
Print Assumptions c03_cv_no_lost_notify.

(* whoever is past ScopedLockHead (or inside thread_interrupt's locked section) holds that thread.lock *)
Theorem c03_head_lock_held : forall nv kinds home progs s N x,
  Reach nv kinds home progs s -> holds (tpc (th s N)) x -> lk (th s x) = Some N.
Proof. exact head_lock_held. Qed.
Print Assumptions c03_head_lock_held.

(* notify_one_exact, linearisation point (and the race time-out vs notify_one on the same head: one winner) *)
Theorem c03_notify_go_head : forall nv kinds home progs s N c x all n,
  Reach nv kinds home progs s -> tpc (th s N) = PNfGo c x all n ->
  hd_error (wqs s (WCv c)) = Some x /\ lk (th s x) = Some N /\ st (th s x) = SLEEPING /\
  wqo (th s x) = Some (WCv c).
Proof. exact notify_go_head. Qed.
Print Assumptions c03_notify_go_head.

(* notify_one_exact, effect: exactly the head leaves the queue and becomes READY/STANDBY with reason
   "notified" (error_number -1); nobody else is touched; `bad` is not set *)
Theorem c03_notify_go_effect : forall nv kinds home progs s v N c x all n s' r,
  Reach nv kinds home progs s -> runq (vc s v) = Th N :: r -> pend (vc s v) = None ->
  tpc (th s N) = PNfGo c x all n -> vstep s v = Some s' ->
  bad s' = bad s /\
  ~ In x (wqs s' (WCv c)) /\ (forall q y, In y (wqs s' q) <-> In y (wqs s q) /\ y <> x) /\
  (st (th s' x) = READY \/ st (th s' x) = STANDBY) /\ err (th s' x) = -1 /\ wk (th s' x) = WNotified N /\
  (forall y, y <> x -> st (th s' y) = st (th s y) /\ err (th s' y) = err (th s y) /\ wk (th s' y) = wk (th s y) /\
                       wqo (th s' y) = wqo (th s y)) /\
  tpc (th s' N) = PNfUnlock c x all n.
Proof. exact notify_go_effect. Qed.
Print Assumptions c03_notify_go_effect.

(* notify_one returns null / notify_all returns its count only at a read of an EMPTY queue *)
Theorem c03_notify_returns_on_empty_only : forall s t c all n,
  wqs s (WCv c) <> [] -> tpc (th (notify_read s t c all n) t) <> PIdle.
Proof. exact notify_returns_on_empty_only. Qed.
Print Assumptions c03_notify_returns_on_empty_only.

(* cv_wait_result.  The value wait() returns is `translate ret en` where (ret, en) is what
   set_error_number delivers when the waiter resumes (the step out of PWaitSlept; the re-lock loop only
   delays the return).  It is 0 only if a notify picked this very waiter; it is the "slept the whole
   timeout" ETIMEDOUT (ret = 0) only if the vCPU's timer woke it, and then deadline <= now.
   Holds in every interleaving, interrupts included (their error numbers are > 0; an interrupt that
   passes errno = ETIMEDOUT itself is of course indistinguishable: that is the `ret = 0` hypothesis). *)
Theorem c03_cv_wait_result : forall nv kinds home progs s v t r c l,
  Reach nv kinds home progs s -> runq (vc s v) = Th t :: r -> tpc (th s t) = PWaitSlept c l ->
  let '(ret, en, _) := take_err s t in
  (translate ret en = (0, 0) -> exists n, wk (th s t) = WNotified n) /\
  (translate ret en = (-1, ETIMEDOUT) -> ret = 0 -> wk (th s t) = WTimeout /\ ts (th s t) <= now s).
Proof. exact cv_wait_result. Qed.
Print Assumptions c03_cv_wait_result.

(* the invariant behind it: error_number = -1 only for a waiter picked by a notify (cv queue) or a
   hand-off (mutex queue); SLEEPING threads carry no wake reason; a timer wake-up has deadline <= now *)
Theorem c03_result_invariant : forall nv kinds home progs s, Reach nv kinds home progs s -> RS s.
Proof. exact RS_reachable. Qed.
Print Assumptions c03_result_invariant.

(* FINDING (model level, 3 vCPUs): with thread_interrupt in the picture "notified => wait returns 0" is refuted:
   the interrupter's unlocked test-then-write of error_number overwrites the -1 of a notification *)
Theorem c03_notified_returns_0_refuted_with_interrupts :
  exists s, Reach 3 (fun _ => KSpin) (fun _ => O) race_progs s /\
    (exists e, In e (trace s) /\ ev_t e = 2%nat /\ ev_i e = 0%nat /\ ev_ret e = 3)
    /\ (exists e, In e (trace s) /\ ev_t e = 3%nat /\ ev_i e = 1%nat /\ ev_ret e = -1 /\ ev_err e = 4).
Proof. exact notified_returns_0_refuted_with_interrupts. Qed.
Print Assumptions c03_notified_returns_0_refuted_with_interrupts.

(* the model never leaves the domain where the C++ is defined (prelocked_thread_interrupt is only ever
   applied to a SLEEPING thread: its compiled-out assert would hold) *)
Theorem c03_never_bad : forall nv kinds home progs s, Reach nv kinds home progs s -> bad s = false.
Proof. exact never_bad. Qed.
Print Assumptions c03_never_bad.

(* cv_wait_result, other direction, on the property's own quantifier domain (programs without
   thread_interrupt): a waiter picked by notify_one / notify_all resumes with errno -1: wait() returns 0.
   (With interrupts: refuted above.) *)
Theorem c03_cv_notified_returns_0 : forall nv kinds home progs s t c l n,
  interrupt_free progs -> Reach nv kinds home progs s ->
  tpc (th s t) = PWaitSlept c l -> wk (th s t) = WNotified n ->
  let '(ret, en, _) := take_err s t in translate ret en = (0, 0).
Proof. exact cv_notified_returns_0. Qed.
Print Assumptions c03_cv_notified_returns_0.
