From Coq Require Import ZArith List.
From PV Require Import Base.U64 C03.C03_Model C03.C03_Proofs.
Theorem c03_placeholder : True. Proof. exact placeholder. Qed.
Print Assumptions c03_placeholder.
