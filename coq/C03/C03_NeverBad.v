(* C03_NeverBad.v — the model never leaves the domain where the C++ is defined: `bad` (set only when
   prelocked_thread_interrupt would be applied to a thread that is not SLEEPING) stays false. *)
From Coq Require Import ZArith List Bool Arith Lia.
From PV Require Import Base.U64 C04.C04_Heap C03.C03_Model C03.C03_WF C03.C03_Proofs C03.C03_Queue C03.C03_Notify.
Import ListNotations.
Local Open Scope Z_scope.

Definition bsame (s s' : state) : Prop := bad s' = bad s.
Lemma bs_refl s : bsame s s. Proof. reflexivity. Qed.
Lemma bs_trans a b c : bsame a b -> bsame b c -> bsame a c.
Proof. unfold bsame. congruence. Qed.
Lemma bs_so s s' : sched_only s s' -> bsame s s'.
Proof. intros (_ & _ & _ & _ & _ & B & _). exact B. Qed.
Lemma bs_updT s t f : bsame s (updT s t f). Proof. reflexivity. Qed.
Lemma bs_updV s v f : bsame s (updV s v f). Proof. reflexivity. Qed.
Lemma bs_set_pc s t p : bsame s (set_pc s t p). Proof. reflexivity. Qed.
Lemma bs_set_held s t l b : bsame s (set_held s t l b). Proof. reflexivity. Qed.
Lemma bs_finish s t a b : bsame s (finish_op s t a b). Proof. reflexivity. Qed.
Lemma bs_lown s f : bsame s (s_lown s f). Proof. reflexivity. Qed.
Lemma bs_take_err s t a b s1 : take_err s t = (a, b, s1) -> bsame s s1.
Proof. unfold take_err. destruct (err (th s t) =? 0); intros H; inversion H; subst; reflexivity. Qed.

Ltac bs_peel :=
  repeat match goal with
  | |- bsame ?a ?a => apply bs_refl
  | |- bsame _ (set_pc _ _ _) => eapply bs_trans; [|apply bs_set_pc]
  | |- bsame _ (finish_op _ _ _ _) => eapply bs_trans; [|apply bs_finish]
  | |- bsame _ (set_held _ _ _ _) => eapply bs_trans; [|apply bs_set_held]
  | |- bsame _ (rotate _ _) => eapply bs_trans; [|apply bs_so, so_rotate]
  | |- bsame _ (prepare_usleep _ _ _ _ _) => eapply bs_trans; [|apply bs_so, so_prepare_usleep]
  | |- bsame _ (wake_by _ _ _) => eapply bs_trans; [|apply bs_so, so_wake_by]
  | |- bsame _ (set_running _ _) => eapply bs_trans; [|apply bs_so, so_set_running]
  | |- bsame _ (rq_append _ _ _) => eapply bs_trans; [|apply bs_so, so_rq_append]
  | |- bsame _ (dequeue _ _ _) => eapply bs_trans; [|apply bs_so, so_dequeue]
  | |- bsame _ (s_lown _ _) => eapply bs_trans; [|apply bs_lown]
  | |- bsame _ (updT _ _ _) => eapply bs_trans; [|apply bs_updT]
  | |- bsame _ (updV _ _ _) => eapply bs_trans; [|apply bs_updV]
  end.

Lemma bs_lock_done s t l k r en : bsame s (lock_done s t l k r en).
Proof. unfold lock_done. destruct k; [destruct (r =? 0)|destruct (r =? 0); [destruct (translate ret en0)|]]; bs_peel. Qed.
Lemma bs_mutex_unlock s va l s' : mutex_unlock s va l = Some s' -> bsame s s'.
Proof.
  unfold mutex_unlock. destruct (wqs s (WMx l)); [intros H; inversion H; subst; bs_peel|].
  destruct (lk (th s t)); [discriminate|]. intros H; inversion H; subst. bs_peel.
Qed.
Lemma bs_do_unlock s va l s' : do_unlock s va l = Some s' -> bsame s s'.
Proof. unfold do_unlock. destruct (lkd s l); [apply bs_mutex_unlock|]. intros H; inversion H; subst. bs_peel. Qed.
Lemma bs_lock_try s v t l k s' : lock_try s v t l k = Some s' -> bsame s s'.
Proof.
  unfold lock_try. destruct (lown s l).
  - destruct (lkd s l); [|discriminate]. destruct (lk (th s t)); [discriminate|]. intros H; inversion H; subst. bs_peel.
  - intros H; inversion H; subst. eapply bs_trans; [|apply bs_lock_done]. bs_peel.
Qed.
Lemma bs_notify_read s t c all n : bsame s (notify_read s t c all n).
Proof. unfold notify_read. destruct (wqs s (WCv c)); [destruct all|]; bs_peel. Qed.

Lemma bs_op_step s v t o s' : op_step s v t o = Some s' -> bsame s s'.
Proof.
  intros H. destruct o; simpl in H.
  - destruct (_ && _ && _); inversion H; subst; bs_peel.
  - inversion H; subst. bs_peel.
  - destruct (_ || _); [inversion H; subst; bs_peel|]. destruct (lk (th s t)); [discriminate|]. inversion H; subst. bs_peel.
  - destruct (alive s k && (0 <? e)); [destruct (tstate_eqb (st (th s k)) SLEEPING)|]; inversion H; subst; bs_peel.
  - destruct (held (th s t) l); [inversion H; subst; bs_peel|]. eapply bs_lock_try; eauto.
  - destruct (held (th s t) l); [|inversion H; subst; bs_peel].
    destruct (do_unlock s v l) eqn:U; [|discriminate]. inversion H; subst.
    eapply bs_trans; [eapply bs_do_unlock; eauto|]. bs_peel.
  - destruct (held (th s t) l); [|inversion H; subst; bs_peel]. destruct (lk (th s t)); [discriminate|]. inversion H; subst. bs_peel.
  - inversion H; subst. apply bs_notify_read.
  - inversion H; subst. apply bs_notify_read.
  - inversion H; subst. bs_peel.
Qed.

Lemma bs_thread_step nv kinds home progs s v t s' :
  Reach nv kinds home progs s -> thread_step s v t = Some s' -> bsame s s'.
Proof.
  intros R H. unfold thread_step in H. destruct (tpc (th s t)) eqn:P.
  - destruct (prog (th s t)); [|eapply bs_op_step; eauto]. destruct (lk (th s t)); [discriminate|].
    destruct (Nat.ltb t (nvc s)); inversion H; subst; bs_peel.
  - destruct as_sleep; [destruct (err (th s t) =? 0)|]; inversion H; subst; bs_peel.
  - destruct (take_err s t) as [[a b] s1] eqn:T. inversion H; subst. eapply bs_trans; [eapply bs_take_err; eauto|]. bs_peel.
  - destruct (lk (th s t)); [discriminate|]. destruct (take_err s t) as [[a b] s1] eqn:T. inversion H; subst.
    eapply bs_trans; [eapply bs_take_err; eauto|]. bs_peel.
  - destruct (take_err s t) as [[a b] s1] eqn:T. inversion H; subst. eapply bs_trans; [eapply bs_take_err; eauto|]. bs_peel.
  - eapply bs_lock_try; eauto.
  - destruct (take_err s t) as [[a b] s1] eqn:T. pose proof (bs_take_err _ _ _ _ _ T) as B1.
    destruct ((a <? 0) && (b =? -1)).
    + destruct (lown s1 l) as [o|]; [destruct (Nat.eqb o t)|]; inversion H; subst;
        (eapply bs_trans; [exact B1|]); try apply bs_lock_done; bs_peel.
    + destruct (translate a b). inversion H; subst. eapply bs_trans; [exact B1|]. apply bs_lock_done.
  - destruct (sat_add (now s) 1000 <=? now s); [inversion H; subst; bs_peel|].
    destruct (lk (th s t)); [discriminate|]. inversion H; subst. bs_peel.
  - destruct (take_err s t) as [[a b] s1] eqn:T. inversion H; subst. eapply bs_trans; [eapply bs_take_err; eauto|]. bs_peel.
  - inversion H; subst. apply bs_notify_read.
  - destruct (lk (th s x)); [discriminate|]. inversion H; subst. bs_peel.
  - destruct (wqs s (WCv c)) as [|h q]; [|destruct (Nat.eqb h x)]; inversion H; subst; bs_peel.
  - inversion H; subst. bs_peel.
  - (* PNfGo: the head is SLEEPING (notify_go_head), so the `bad` branch is not taken *)
    destruct (notify_go_head _ _ _ _ _ _ _ _ _ _ R P) as (_ & _ & Hs & _). rewrite Hs in H. simpl in H.
    inversion H; subst. bs_peel.
  - destruct all; inversion H; subst; bs_peel.
  - destruct (lk (th s k)); [discriminate|]. inversion H; subst. bs_peel.
  - destruct (tstate_eqb (st (th s k)) SLEEPING && (0 <? e)); inversion H; subst; bs_peel.
  - destruct o; inversion H; subst; bs_peel.
  - destruct (tstate_eqb _ READY && (err (th s k) =? 0)); inversion H; subst; bs_peel.
  - destruct (0 <? e); inversion H; subst; bs_peel.
Qed.

Lemma bs_idler_step s v s' : idler_step s v = Some s' -> bsame s s'.
Proof.
  intros H. unfold idler_step in H. destruct (vipc (vc s v)).
  - destruct (eject (updV s v (fun y => v_sbq y [])) v (sbq (vc s v)) 0) as [s1 cnt] eqn:Ej. inversion H; subst.
    eapply bs_trans; [|apply bs_updV]. change s1 with (fst (s1, cnt)). rewrite <- Ej.
    eapply bs_trans; [|apply bs_so, so_eject]. apply bs_updV.
  - unfold idle_decide in H.
    destruct (front (slq (vc s v))) as [x|].
    + destruct (now s <? ts (th s x)).
      * destruct (_ || _); inversion H; subst; bs_peel.
      * destruct (lk (th s x)); [discriminate|].
        match type of H with context [tstate_eqb ?a SLEEPING] => destruct (tstate_eqb a SLEEPING) end; inversion H; subst; bs_peel.
    + destruct (_ || _); inversion H; subst; bs_peel.
  - inversion H; subst. bs_peel.
Qed.

Theorem never_bad nv kinds home progs s : Reach nv kinds home progs s -> bad s = false.
Proof.
  induction 1 as [|s a s' R IH H]; [reflexivity|].
  destruct a; simpl in H.
  - assert (B : bsame s s'); [|unfold bsame in B; congruence].
    unfold vstep in H. destruct (pend (vc s v)) as [[w l]|].
    + destruct (do_unlock s v l) eqn:U; [|discriminate]. inversion H; subst.
      eapply bs_trans; [eapply bs_do_unlock; eauto|]. bs_peel.
    + destruct (runq (vc s v)) as [|[t|] r]; [discriminate| |].
      * eapply bs_thread_step; eauto.
      * eapply bs_idler_step; eauto.
  - inversion H; subst. exact IH.
Qed.
