(* C17_RM_Proofs.v — RangeModule: structure invariant and set semantics for all op sequences. *)
From Coq Require Import ZArith List Lia Bool.
From PV Require Import C17.C17_Model.
Import ListNotations.
Local Open Scope Z_scope.

(* ---------------------------------------------------------------- invariant, semantics *)
(* sorted by start, every interval non-empty, consecutive intervals neither overlap nor touch;
   `lb` is a strict lower bound of the first start *)
Fixpoint wfl (lb : Z) (m : imap) : Prop :=
  match m with
  | [] => True
  | (s, e) :: t => lb < s /\ s < e /\ wfl e t
  end.
Definition WF (m : imap) : Prop := exists lb, wfl lb m.

(* the set of points *)
Definition covers (m : imap) (x : Z) : Prop := exists s e, In (s, e) m /\ s <= x < e.

Lemma covers_nil x : ~ covers [] x.
Proof. intros (s & e & H & _). exact H. Qed.

Lemma covers_cons s e t x : covers ((s, e) :: t) x <-> (s <= x < e) \/ covers t x.
Proof.
  unfold covers. split.
  - intros (s' & e' & [Heq | Hin] & Hx).
    + inversion Heq; subst. now left.
    + right. eauto.
  - intros [Hx | (s' & e' & Hin & Hx)].
    + exists s, e. split; [now left | exact Hx].
    + exists s', e'. split; [now right | exact Hx].
Qed.

Lemma covers_app a b x : covers (a ++ b) x <-> covers a x \/ covers b x.
Proof.
  induction a as [| [s e] a IH]; simpl.
  - split; [intros H; now right | intros [H | H]; [now apply covers_nil in H | exact H]].
  - rewrite !covers_cons, IH. tauto.
Qed.

Lemma wfl_weaken lb lb' m : lb' <= lb -> wfl lb m -> wfl lb' m.
Proof. destruct m as [| [s e] t]; simpl; [tauto | intros; intuition lia]. Qed.

Lemma wfl_covers_gt lb m x : wfl lb m -> covers m x -> lb < x.
Proof.
  revert lb. induction m as [| [s e] t IH]; intros lb Hwf Hc.
  - now apply covers_nil in Hc.
  - simpl in Hwf. destruct Hwf as (H1 & H2 & H3). apply covers_cons in Hc. destruct Hc as [Hc | Hc]; [lia |].
    specialize (IH e H3 Hc). lia.
Qed.

(* end of the last interval of `pre`, or lb *)
Fixpoint last_end (lb : Z) (m : imap) : Z :=
  match m with [] => lb | (_, e) :: t => last_end e t end.

Lemma wfl_app lb a b : wfl lb (a ++ b) <-> wfl lb a /\ wfl (last_end lb a) b.
Proof.
  revert lb. induction a as [| [s e] a IH]; intros lb; simpl.
  - tauto.
  - rewrite IH. tauto.
Qed.

Lemma last_end_ge lb a : wfl lb a -> lb <= last_end lb a.
Proof.
  revert lb. induction a as [| [s e] a IH]; intros lb H; simpl in *; [lia |].
  destruct H as (H1 & H2 & H3). specialize (IH e H3). lia.
Qed.

(* all starts of a wfl list are > lb, all its points too *)
Lemma wfl_keys_gt lb m s e : wfl lb m -> In (s, e) m -> lb < s /\ s < e.
Proof.
  revert lb. induction m as [| [s' e'] t IH]; intros lb Hwf Hin; [contradiction |].
  simpl in Hwf. destruct Hwf as (H1 & H2 & H3). destruct Hin as [Heq | Hin].
  - inversion Heq; subst. lia.
  - destruct (IH e' H3 Hin). lia.
Qed.

Lemma covers_lt_last_end lb a x : wfl lb a -> covers a x -> x < last_end lb a.
Proof.
  revert lb. induction a as [| [s e] a IH]; intros lb Hwf Hc.
  - now apply covers_nil in Hc.
  - simpl in *. destruct Hwf as (H1 & H2 & H3). apply covers_cons in Hc. destruct Hc as [Hc | Hc].
    + pose proof (last_end_ge e a H3). lia.
    + now apply IH.
Qed.

(* ---------------------------------------------------------------- map primitives *)
Lemma merase_app_head pre s e t :
  (forall s' e', In (s', e') pre -> s' <> s) ->
  merase (pre ++ (s, e) :: t) s = pre ++ t.
Proof.
  induction pre as [| [s' e'] pre IH]; intros Hne; simpl.
  - now rewrite Z.eqb_refl.
  - destruct (Z.eqb_spec s s') as [Heq | Hneq].
    + exfalso. apply (Hne s' e'); [now left | congruence].
    + f_equal. apply IH. intros s2 e2 Hin. apply (Hne s2 e2). now right.
Qed.

Lemma mset_app pre post k v :
  (forall s e, In (s, e) pre -> s < k) ->
  (forall s e, In (s, e) post -> k < s) ->
  mset (pre ++ post) k v = pre ++ (k, v) :: post.
Proof.
  induction pre as [| [s e] pre IH]; intros Hpre Hpost; simpl.
  - destruct post as [| [s e] post]; simpl; [reflexivity |].
    assert (k < s) by (apply (Hpost s e); now left).
    destruct (Z.ltb_spec k s); [reflexivity | lia].
  - assert (s < k) by (apply (Hpre s e); now left).
    destruct (Z.ltb_spec k s); [lia |]. destruct (Z.eqb_spec k s); [lia |].
    f_equal. apply IH; [| exact Hpost]. intros s2 e2 Hin. apply (Hpre s2 e2). now right.
Qed.

(* ---------------------------------------------------------------- visit_from *)
(* The split m = pre ++ visit: everything in `pre` ends before `left` (strictly, or weakly when
   the qualifying test is strict), and the visit list starts either with the interval that
   qualified or beyond `left`. *)
Section Visit.
  Variable left : Z.
  Variable qual : Z -> bool.
  Variable bound : Z -> Prop.             (* what a non-qualifying end satisfies *)
  Hypothesis qual_false : forall e, qual e = false -> bound e.
  Hypothesis bound_lt : forall e, e < left -> bound e.

  Lemma visit_from_split lb m :
    wfl lb m ->
    exists pre, m = pre ++ visit_from qual m left
      /\ (forall s e, In (s, e) pre -> s <= left /\ bound e)
      /\ (match visit_from qual m left with
          | [] => True
          | (s, e) :: t => (s <= left /\ qual e = true) \/ left < s
          end)
      /\ (forall s e, In (s, e) (tl (visit_from qual m left)) -> left < s).
  Proof.
    revert lb. induction m as [| [s e] t IH]; intros lb Hwf.
    - exists []. simpl. split; [reflexivity | split; [intros ? ? [] | split; [exact I | intros ? ? []]]].
    - simpl in Hwf. destruct Hwf as (H1 & H2 & H3).
      cbn [visit_from].
      destruct (Z.ltb_spec left s) as [Hls | Hls].
      + exists []. split; [reflexivity | split; [intros ? ? [] | split]].
        * now right.
        * simpl. intros s2 e2 Hin. destruct (wfl_keys_gt e t s2 e2 H3 Hin). lia.
      + destruct t as [| [s2 e2] t'].
        * destruct (qual e) eqn:Hq.
          -- exists []. split; [reflexivity | split; [intros ? ? [] | split]].
             ++ left. split; [lia | exact Hq].
             ++ simpl. intros ? ? [].
          -- exists [(s, e)]. split; [reflexivity | split; [| split; [exact I | intros ? ? []]]].
             intros s3 e3 [Heq | []]. inversion Heq; subst. split; [lia | now apply qual_false].
        * destruct (Z.ltb_spec left s2) as [Hls2 | Hls2].
          -- destruct (qual e) eqn:Hq.
             ++ exists []. split; [reflexivity | split; [intros ? ? [] | split]].
                ** left. split; [lia | exact Hq].
                ** simpl. intros s3 e3 [Heq | Hin]; [inversion Heq; subst; lia |].
                   simpl in H3. destruct H3 as (_ & ? & H3). destruct (wfl_keys_gt e2 _ s3 e3 H3 Hin). lia.
             ++ exists [(s, e)]. split; [reflexivity | split; [| split]].
                ** intros s3 e3 [Heq | []]. inversion Heq; subst. split; [lia | now apply qual_false].
                ** now right.
                ** simpl. intros s3 e3 Hin. simpl in H3. destruct H3 as (_ & ? & H3).
                   destruct (wfl_keys_gt e2 _ s3 e3 H3 Hin). lia.
          -- destruct (IH e H3) as (pre & Heq & Hpre & Hhd & Htl).
             exists ((s, e) :: pre). split; [| split; [| split]].
             ++ simpl. f_equal. exact Heq.
             ++ intros s3 e3 [Heq' | Hin]; [inversion Heq'; subst | now apply (Hpre s3 e3)].
                split; [lia |]. apply bound_lt. simpl in H3. lia.
             ++ exact Hhd.
             ++ exact Htl.
  Qed.
End Visit.

(* ---------------------------------------------------------------- generic order facts *)
Lemma in_le_last_end lb a s e : wfl lb a -> In (s, e) a -> e <= last_end lb a.
Proof.
  revert lb. induction a as [| [s' e'] a IH]; intros lb Hwf Hin; [contradiction |].
  simpl in *. destruct Hwf as (H1 & H2 & H3). destruct Hin as [Heq | Hin].
  - inversion Heq; subst. apply last_end_ge. exact H3.
  - now apply IH.
Qed.

Lemma wfl_app_keys lb pre v s' e' s e :
  wfl lb (pre ++ v) -> In (s', e') pre -> In (s, e) v -> s' < e' /\ e' < s.
Proof.
  intros Hwf Hp Hv. apply wfl_app in Hwf. destruct Hwf as [Hw1 Hw2].
  pose proof (in_le_last_end lb pre s' e' Hw1 Hp).
  destruct (wfl_keys_gt _ _ _ _ Hw2 Hv). destruct (wfl_keys_gt _ _ _ _ Hw1 Hp). lia.
Qed.

Lemma wfl_rebound lb b m :
  wfl lb m -> (match m with [] => True | (s, _) :: _ => b < s end) -> wfl b m.
Proof. destruct m as [| [s e] t]; simpl; tauto. Qed.

Lemma last_end_lt lb a l :
  lb < l -> (forall s e, In (s, e) a -> e < l) -> last_end lb a < l.
Proof.
  revert lb. induction a as [| [s e] a IH]; intros lb Hlb H; simpl; [exact Hlb |].
  apply IH; [apply (H s e); now left | intros s2 e2 Hin; apply (H s2 e2); now right].
Qed.

Lemma last_end_le lb a l :
  lb <= l -> (forall s e, In (s, e) a -> e <= l) -> last_end lb a <= l.
Proof.
  revert lb. induction a as [| [s e] a IH]; intros lb Hlb H; simpl; [exact Hlb |].
  apply IH; [apply (H s e); now left | intros s2 e2 Hin; apply (H s2 e2); now right].
Qed.

Lemma wfl_in_in lb m s e s' e' :
  wfl lb m -> In (s, e) m -> In (s', e') m -> (s, e) = (s', e') \/ e < s' \/ e' < s.
Proof.
  revert lb. induction m as [| [a b] t IH]; intros lb Hwf H1 H2; [contradiction |].
  simpl in Hwf. destruct Hwf as (Ha & Hb & Hc).
  destruct H1 as [E1 | H1], H2 as [E2 | H2].
  - left. congruence.
  - inversion E1; subst. right; left. destruct (wfl_keys_gt _ _ _ _ Hc H2). lia.
  - inversion E2; subst. right; right. destruct (wfl_keys_gt _ _ _ _ Hc H1). lia.
  - eapply IH; eauto.
Qed.

Lemma wfl_end_not_covered lb m s e : wfl lb m -> In (s, e) m -> ~ covers m e.
Proof.
  intros Hwf Hin (s' & e' & Hin' & Hx).
  destruct (wfl_keys_gt _ _ _ _ Hwf Hin).
  destruct (wfl_in_in _ _ _ _ _ _ Hwf Hin Hin') as [E | [E | E]]; [inversion E; subst; lia | lia | lia].
Qed.

Lemma wfl_pred_start_not_covered lb m s e : wfl lb m -> In (s, e) m -> ~ covers m (s - 1).
Proof.
  intros Hwf Hin (s' & e' & Hin' & Hx).
  destruct (wfl_in_in _ _ _ _ _ _ Hwf Hin Hin') as [E | [E | E]]; [inversion E; subst; lia | | lia].
  destruct (wfl_keys_gt _ _ _ _ Hwf Hin). lia.
Qed.

(* ---------------------------------------------------------------- addRange *)
(* the iteration of add_loop without the map: what is absorbed, what is left *)
Fixpoint absorb (v : imap) (l r : Z) : imap * Z * Z :=
  match v with
  | [] => ([], l, r)
  | (s, e) :: t => if s <=? r then absorb t (Z.min l s) (Z.max r e) else (v, l, r)
  end.

Lemma add_loop_absorb v : forall pre l r,
  (forall s' e' s e, In (s', e') pre -> In (s, e) v -> s' <> s) ->
  add_loop v (pre ++ v) l r = let '(v2, l', r') := absorb v l r in (pre ++ v2, l', r').
Proof.
  induction v as [| [s e] t IH]; intros pre l r Hne; simpl.
  - reflexivity.
  - destruct (Z.leb_spec s r); [| reflexivity].
    rewrite merase_app_head.
    + apply IH. intros s' e' s2 e2 Hp Ht. apply (Hne s' e' s2 e2 Hp). now right.
    + intros s' e' Hp. apply (Hne s' e' s e Hp). now left.
Qed.

Lemma absorb_spec v : forall lb l r,
  wfl lb v -> l < r -> (forall s e, In (s, e) v -> l <= e) ->
  let '(v2, l', r') := absorb v l r in
  exists v1, v = v1 ++ v2 /\ l' <= l /\ r <= r'
    /\ (forall x, l' <= x < r' <-> (l <= x < r) \/ covers v1 x)
    /\ (match v2 with [] => True | (s, _) :: _ => r' < s end)
    /\ (forall b, b < l -> (forall s e, In (s, e) v -> b < s) -> b < l').
Proof.
  induction v as [| [s e] t IH]; intros lb l r Hwf Hlr Hle; simpl.
  - exists []. split; [reflexivity |]. split; [lia |]. split; [lia |]. split; [| split; [exact I | intros; assumption]].
    intros x. split; [intros; now left | intros [Hx | Hx]; [exact Hx | now apply covers_nil in Hx]].
  - simpl in Hwf. destruct Hwf as (H1 & H2 & H3).
    assert (Hse : l <= e) by (apply (Hle s e); now left).
    destruct (Z.leb_spec s r) as [Hsr | Hsr].
    + specialize (IH e (Z.min l s) (Z.max r e) H3).
      destruct (absorb t (Z.min l s) (Z.max r e)) as [[v2 l'] r'].
      destruct IH as (v1 & Heq & Hl & Hr & Hcov & Hhd & Hlow); [lia | |].
      { intros s2 e2 Hin. specialize (Hle s2 e2 (or_intror Hin)). lia. }
      exists ((s, e) :: v1). split; [simpl; now f_equal |]. split; [lia |]. split; [lia |]. split; [| split].
      * intros x. rewrite Hcov, covers_cons.
        assert (Hint : (Z.min l s <= x < Z.max r e) <-> (l <= x < r) \/ (s <= x < e)) by lia.
        rewrite Hint. tauto.
      * exact Hhd.
      * intros b Hb Hk. apply Hlow.
        -- specialize (Hk s e (or_introl eq_refl)). lia.
        -- intros s2 e2 Hin. apply (Hk s2 e2). now right.
    + exists []. split; [reflexivity |]. split; [lia |]. split; [lia |]. split; [| split].
      * intros x. split; [intros; now left | intros [H | H]; [exact H | now apply covers_nil in H]].
      * exact Hsr.
      * intros; assumption.
Qed.

Theorem addRange_spec m l r :
  WF m -> l < r ->
  WF (addRange m l r) /\ forall x, covers (addRange m l r) x <-> covers m x \/ l <= x < r.
Proof.
  intros [lb0 Hwf0] Hlr.
  set (lb := Z.min lb0 (l - 1)).
  assert (Hwf : wfl lb m) by (apply (wfl_weaken lb0); [unfold lb; lia | exact Hwf0]).
  assert (Hlb : lb < l) by (unfold lb; lia).
  unfold addRange. destruct (Z.leb_spec r l); [lia |].
  destruct (visit_from_split l (fun e => l <=? e) (fun e => e < l)) with (lb := lb) (m := m)
    as (pre & Hm & Hpre & Hhd & Htl); [| tauto | exact Hwf |].
  { intros e He. apply Z.leb_gt in He. exact He. }
  remember (visit_from (fun e => l <=? e) m l) as v eqn:Hv0. clear Hv0. subst m. clear Hwf0.
  pose proof Hwf as Hwf'. apply wfl_app in Hwf'. destruct Hwf' as [Hwp Hwv].
  rewrite add_loop_absorb.
  2:{ intros s' e' s e Hp Hv. destruct (wfl_app_keys _ _ _ _ _ _ _ Hwf Hp Hv). lia. }
  assert (Hle : forall s e, In (s, e) v -> l <= e).
  { intros s e Hin. destruct v as [| [s0 e0] t]; [contradiction |].
    destruct Hin as [Heq | Hin].
    - inversion Heq; subst. destruct Hhd as [[_ Hq] | Hq]; [apply Z.leb_le in Hq; exact Hq |].
      destruct (wfl_keys_gt _ _ s e Hwv (or_introl eq_refl)). lia.
    - specialize (Htl s e Hin). destruct (wfl_keys_gt _ _ s e Hwv (or_intror Hin)). lia. }
  pose proof (absorb_spec v (last_end lb pre) l r Hwv Hlr Hle) as Hab.
  destruct (absorb v l r) as [[v2 l'] r'].
  destruct Hab as (v1 & Hv & Hl' & Hr' & Hcov & Hhd2 & Hlow).
  assert (Hwv2 : wfl r' v2).
  { rewrite Hv in Hwv. apply wfl_app in Hwv. destruct Hwv as [_ Hw]. eapply wfl_rebound; eauto. }
  assert (Hpre_lt : forall s e, In (s, e) pre -> s < l').
  { intros s e Hin. apply Hlow.
    - destruct (Hpre s e Hin). destruct (wfl_keys_gt _ _ _ _ Hwp Hin). lia.
    - intros s2 e2 Hin2. destruct (wfl_app_keys _ _ _ _ _ _ _ Hwf Hin Hin2). lia. }
  rewrite mset_app.
  2:{ exact Hpre_lt. }
  2:{ intros s e Hin. destruct (wfl_keys_gt _ _ _ _ Hwv2 Hin). lia. }
  split.
  - exists lb. apply wfl_app. split; [exact Hwp |]. simpl. split; [| split; [lia | exact Hwv2]].
    apply Hlow.
    + apply last_end_lt; [exact Hlb |]. intros s e Hin. now destruct (Hpre s e Hin).
    + intros s e Hin. now destruct (wfl_keys_gt _ _ _ _ Hwv Hin).
  - intros x. rewrite Hv. rewrite !covers_app, covers_cons, Hcov. tauto.
Qed.

(* ---------------------------------------------------------------- removeRange *)
Fixpoint cut (v : imap) (l r : Z) : imap :=
  match v with
  | [] => []
  | (s, e) :: t =>
      if s <? r then
        (if s <? l then [(s, l)] else []) ++ (if r <? e then [(r, e)] else []) ++ cut t l r
      else v
  end.

Lemma snoc_app {A} (a : list A) x b : a ++ x :: b = (a ++ [x]) ++ b.
Proof. rewrite <- app_assoc. reflexivity. Qed.

Lemma rem_loop_cut v : forall lb pre l r,
  wfl lb v -> l < r ->
  (forall s' e' s e, In (s', e') pre -> In (s, e) v -> s' < s) ->
  rem_loop v (pre ++ v) l r = pre ++ cut v l r.
Proof.
  induction v as [| [s e] t IH]; intros lb pre l r Hwf Hlr Hlt; simpl.
  - reflexivity.
  - simpl in Hwf. destruct Hwf as (H1 & H2 & H3).
    destruct (Z.ltb_spec s r) as [Hsr | Hsr]; [| reflexivity].
    rewrite merase_app_head.
    2:{ intros s' e' Hp. specialize (Hlt s' e' s e Hp (or_introl eq_refl)). lia. }
    assert (Hpre_s : forall s' e', In (s', e') pre -> s' < s).
    { intros s' e' Hp. apply (Hlt s' e' s e Hp). now left. }
    assert (Ht_e : forall s2 e2, In (s2, e2) t -> e < s2).
    { intros s2 e2 Hin. now destruct (wfl_keys_gt _ _ _ _ H3 Hin). }
    destruct (Z.ltb_spec s l) as [Hsl | Hsl]; destruct (Z.ltb_spec r e) as [Hre | Hre]; simpl.
    + rewrite (mset_app pre t s l); [| exact Hpre_s | intros s2 e2 Hin; specialize (Ht_e s2 e2 Hin); lia].
      replace (pre ++ (s, l) :: t) with ((pre ++ [(s, l)]) ++ t) by (rewrite <- app_assoc; reflexivity).
      rewrite (mset_app (pre ++ [(s, l)]) t r e).
      * rewrite (snoc_app (pre ++ [(s, l)]) (r, e) t).
        rewrite (IH e ((pre ++ [(s, l)]) ++ [(r, e)]) l r H3 Hlr).
        -- rewrite <- !app_assoc. reflexivity.
        -- intros s' e' s2 e2 Hp Hin. specialize (Ht_e s2 e2 Hin).
           apply in_app_or in Hp. destruct Hp as [Hp | [Hp | []]].
           ++ apply in_app_or in Hp. destruct Hp as [Hp | [Hp | []]].
              ** specialize (Hpre_s s' e' Hp). lia.
              ** inversion Hp; subst. lia.
           ++ inversion Hp; subst. lia.
      * intros s' e' Hp. apply in_app_or in Hp. destruct Hp as [Hp | [Hp | []]].
        -- specialize (Hpre_s s' e' Hp). lia.
        -- inversion Hp; subst. lia.
      * intros s2 e2 Hin. specialize (Ht_e s2 e2 Hin). lia.
    + rewrite (mset_app pre t s l); [| exact Hpre_s | intros s2 e2 Hin; specialize (Ht_e s2 e2 Hin); lia].
      replace (pre ++ (s, l) :: t) with ((pre ++ [(s, l)]) ++ t) by (rewrite <- app_assoc; reflexivity).
      rewrite (IH e (pre ++ [(s, l)]) l r H3 Hlr).
      * rewrite <- !app_assoc. reflexivity.
      * intros s' e' s2 e2 Hp Hin. specialize (Ht_e s2 e2 Hin).
        apply in_app_or in Hp. destruct Hp as [Hp | [Hp | []]].
        -- specialize (Hpre_s s' e' Hp). lia.
        -- inversion Hp; subst. lia.
    + rewrite (mset_app pre t r e); [| intros s' e' Hp; specialize (Hpre_s s' e' Hp); lia
                                      | intros s2 e2 Hin; specialize (Ht_e s2 e2 Hin); lia].
      replace (pre ++ (r, e) :: t) with ((pre ++ [(r, e)]) ++ t) by (rewrite <- app_assoc; reflexivity).
      rewrite (IH e (pre ++ [(r, e)]) l r H3 Hlr).
      * rewrite <- !app_assoc. reflexivity.
      * intros s' e' s2 e2 Hp Hin. specialize (Ht_e s2 e2 Hin).
        apply in_app_or in Hp. destruct Hp as [Hp | [Hp | []]].
        -- specialize (Hpre_s s' e' Hp). lia.
        -- inversion Hp; subst. lia.
    + apply (IH e pre l r H3 Hlr).
      intros s' e' s2 e2 Hp Hin. specialize (Ht_e s2 e2 Hin). specialize (Hpre_s s' e' Hp). lia.
Qed.

Lemma covers_ge_first s e t lb x : wfl lb ((s, e) :: t) -> covers ((s, e) :: t) x -> s <= x.
Proof.
  intros (H1 & H2 & H3) Hc. apply covers_cons in Hc. destruct Hc as [Hc | Hc]; [lia |].
  pose proof (wfl_covers_gt _ _ _ H3 Hc). lia.
Qed.

Lemma cut_spec v : forall lb l r,
  wfl lb v -> l < r -> (forall s e, In (s, e) v -> l < e) ->
  wfl lb (cut v l r) /\ forall x, covers (cut v l r) x <-> covers v x /\ ~ (l <= x < r).
Proof.
  induction v as [| [s e] t IH]; intros lb l r Hwf Hlr Hle.
  - simpl. split; [exact I |]. intros x. split; [intros H; now apply covers_nil in H | intros [H _]; exact H].
  - pose proof Hwf as Hwf0. simpl in Hwf. destruct Hwf as (H1 & H2 & H3).
    assert (Hl_e : l < e) by (apply (Hle s e); now left).
    cbn [cut]. destruct (Z.ltb_spec s r) as [Hsr | Hsr].
    + destruct (IH e l r H3 Hlr) as [IHw IHc].
      { intros s2 e2 Hin. apply (Hle s2 e2). now right. }
      destruct (Z.ltb_spec s l) as [Hsl | Hsl]; destruct (Z.ltb_spec r e) as [Hre | Hre]; simpl.
      * split; [repeat split; try lia; exact IHw |].
        intros x. rewrite !covers_cons, IHc. split.
        -- intros [Hx | [Hx | [Hx Hn]]]; (split; [| lia]) || idtac; try (left; lia); try tauto.
        -- intros [[Hx | Hx] Hn]; [| tauto]. assert (s <= x < l \/ r <= x < e) by lia. tauto.
      * split; [repeat split; try lia; apply (wfl_weaken e); [lia | exact IHw] |].
        intros x. rewrite !covers_cons, IHc. split.
        -- intros [Hx | [Hx Hn]]; [split; [left; lia | lia] | tauto].
        -- intros [[Hx | Hx] Hn]; [left; lia | tauto].
      * split; [repeat split; try lia; exact IHw |].
        intros x. rewrite !covers_cons, IHc. split.
        -- intros [Hx | [Hx Hn]]; [split; [left; lia | lia] | tauto].
        -- intros [[Hx | Hx] Hn]; [left; lia | tauto].
      * split; [apply (wfl_weaken e); [lia | exact IHw] |].
        intros x. rewrite covers_cons, IHc. split.
        -- intros [Hx Hn]; tauto.
        -- intros [[Hx | Hx] Hn]; [lia | tauto].
    + split; [exact Hwf0 |]. intros x. split.
      * intros Hc. split; [exact Hc |]. pose proof (covers_ge_first _ _ _ _ _ Hwf0 Hc). lia.
      * intros [Hc _]. exact Hc.
Qed.

Theorem removeRange_spec m l r :
  WF m -> l < r ->
  WF (removeRange m l r) /\ forall x, covers (removeRange m l r) x <-> covers m x /\ ~ (l <= x < r).
Proof.
  intros [lb Hwf] Hlr.
  unfold removeRange. destruct (Z.leb_spec r l); [lia |].
  destruct (visit_from_split l (fun e => l <? e) (fun e => e <= l)) with (lb := lb) (m := m)
    as (pre & Hm & Hpre & Hhd & Htl); [| | exact Hwf |].
  { intros e He. apply Z.ltb_ge in He. exact He. }
  { intros; lia. }
  remember (visit_from (fun e => l <? e) m l) as v eqn:Hv0. clear Hv0. subst m.
  pose proof Hwf as Hwf'. apply wfl_app in Hwf'. destruct Hwf' as [Hwp Hwv].
  rewrite (rem_loop_cut v (last_end lb pre) pre l r Hwv Hlr).
  2:{ intros s' e' s e Hp Hv. destruct (wfl_app_keys _ _ _ _ _ _ _ Hwf Hp Hv). lia. }
  assert (Hle : forall s e, In (s, e) v -> l < e).
  { intros s e Hin. destruct v as [| [s0 e0] t]; [contradiction |].
    destruct Hin as [Heq | Hin].
    - inversion Heq; subst. destruct Hhd as [[_ Hq] | Hq]; [apply Z.ltb_lt in Hq; exact Hq |].
      destruct (wfl_keys_gt _ _ s e Hwv (or_introl eq_refl)). lia.
    - specialize (Htl s e Hin). destruct (wfl_keys_gt _ _ s e Hwv (or_intror Hin)). lia. }
  destruct (cut_spec v (last_end lb pre) l r Hwv Hlr Hle) as [Hcw Hcc].
  split.
  - exists lb. apply wfl_app. split; assumption.
  - intros x. rewrite !covers_app, Hcc. split.
    + intros [Hp | [Hv Hn]]; [| tauto]. split; [now left |].
      destruct Hp as (s & e & Hin & Hx). destruct (Hpre s e Hin). lia.
    + intros [[Hp | Hv] Hn]; tauto.
Qed.

Corollary removeFrom_spec m o :
  WF m ->
  WF (removeFrom m o) /\ forall x, x < OFF_MAX -> (covers (removeFrom m o) x <-> covers m x /\ x < o).
Proof.
  intros Hwf. unfold removeFrom. destruct (Z.lt_ge_cases o OFF_MAX) as [Hlt | Hge].
  - destruct (removeRange_spec m o OFF_MAX Hwf Hlt) as [Hw Hc]. split; [exact Hw |].
    intros x Hx. rewrite Hc. split; intros [H1 H2]; (split; [exact H1 | lia]).
  - unfold removeRange. destruct (Z.leb_spec OFF_MAX o); [| lia]. split; [exact Hwf |].
    intros x Hx. split; [intros Hc; split; [exact Hc | lia] | tauto].
Qed.

(* ---------------------------------------------------------------- queryRefillRange *)
Lemma fc_some lb m pos s e :
  wfl lb m -> find_containing m pos = Some (s, e) -> In (s, e) m /\ s <= pos < e.
Proof.
  revert lb. induction m as [| [a b] t IH]; intros lb Hwf H; [discriminate |].
  simpl in Hwf. destruct Hwf as (H1 & H2 & H3). cbn [find_containing] in H.
  destruct (Z.ltb_spec pos a); [discriminate |].
  destruct t as [| [a2 b2] t'].
  - destruct (Z.ltb_spec pos b); [| discriminate]. inversion H; subst. split; [now left | lia].
  - destruct (Z.ltb_spec pos a2).
    + destruct (Z.ltb_spec pos b); [| discriminate]. inversion H; subst. split; [now left | lia].
    + destruct (IH b H3 H) as [Hin Hx]. split; [now right | exact Hx].
Qed.

Lemma fc_none lb m pos : wfl lb m -> find_containing m pos = None -> ~ covers m pos.
Proof.
  revert lb. induction m as [| [a b] t IH]; intros lb Hwf H Hc; [now apply covers_nil in Hc |].
  pose proof Hwf as Hwf0. simpl in Hwf. destruct Hwf as (H1 & H2 & H3). cbn [find_containing] in H.
  destruct (Z.ltb_spec pos a) as [Hpa | Hpa].
  - pose proof (covers_ge_first _ _ _ _ _ Hwf0 Hc). lia.
  - apply covers_cons in Hc. destruct t as [| [a2 b2] t'].
    + destruct (Z.ltb_spec pos b); [discriminate |]. destruct Hc as [Hc | Hc]; [lia | now apply covers_nil in Hc].
    + destruct (Z.ltb_spec pos a2) as [Hp2 | Hp2].
      * destruct (Z.ltb_spec pos b); [discriminate |]. destruct Hc as [Hc | Hc]; [lia |].
        pose proof (covers_ge_first _ _ _ _ _ H3 Hc). lia.
      * destruct Hc as [Hc | Hc]; [simpl in H3; lia |]. exact (IH b H3 H Hc).
Qed.

(* the interval [a,b) of wfl m covers all its points *)
Lemma in_covers m s e x : In (s, e) m -> s <= x < e -> covers m x.
Proof. intros; exists s, e; tauto. Qed.

Theorem queryRefillRange_spec m l r :
  WF m ->
  let q := queryRefillRange m l r in
  (q = (0, 0) /\ (forall x, l <= x < r -> covers m x))
  \/ (l < r /\ l <= fst q /\ fst q < snd q /\ snd q <= r
      /\ ~ covers m (fst q) /\ ~ covers m (snd q - 1)
      /\ (forall x, l <= x < r -> ~ covers m x -> fst q <= x < snd q)).
Proof.
  intros [lb Hwf]. unfold queryRefillRange.
  destruct (Z.leb_spec r l) as [Hrl | Hrl].
  { left. split; [reflexivity | intros; lia]. }
  set (left1 := match find_containing m l with Some (_, e) => e | None => l end).
  assert (H1 : l <= left1 /\ (forall x, l <= x < left1 -> covers m x) /\ ~ covers m left1).
  { unfold left1. destruct (find_containing m l) as [[s e] |] eqn:Hf.
    - destruct (fc_some _ _ _ _ _ Hwf Hf) as [Hin Hx]. split; [lia |]. split.
      + intros x Hxx. apply (in_covers m s e); [exact Hin | lia].
      + eapply wfl_end_not_covered; eauto.
    - split; [lia |]. split; [intros; lia | eapply fc_none; eauto]. }
  destruct H1 as (Hl1 & Hcov1 & Hnc1).
  destruct (Z.leb_spec r left1) as [Hrl1 | Hrl1].
  { left. split; [reflexivity |]. intros x Hx. apply Hcov1. lia. }
  right. cbn [fst snd].
  destruct (find_containing m (r - 1)) as [[s e] |] eqn:Hf.
  - destruct (fc_some _ _ _ _ _ Hwf Hf) as [Hin Hx].
    destruct (Z.ltb_spec left1 s) as [Hls | Hls]; cbn [fst snd].
    + split; [lia |]. split; [lia |]. split; [lia |]. split; [lia |]. split; [exact Hnc1 |]. split.
      * eapply wfl_pred_start_not_covered; eauto.
      * intros x Hxx Hnc. split.
        -- destruct (Z.lt_ge_cases x left1); [exfalso; apply Hnc, Hcov1; lia | lia].
        -- destruct (Z.lt_ge_cases x s); [lia |]. exfalso. apply Hnc. apply (in_covers m s e); [exact Hin | lia].
    + exfalso. apply Hnc1. apply (in_covers m s e); [exact Hin | lia].
  - cbn [fst snd]. split; [lia |]. split; [lia |]. split; [lia |]. split; [lia |]. split; [exact Hnc1 |]. split.
    + eapply fc_none; eauto.
    + intros x Hxx Hnc. split; [| lia].
      destruct (Z.lt_ge_cases x left1); [exfalso; apply Hnc, Hcov1; lia | lia].
Qed.

(* ---------------------------------------------------------------- all operation sequences *)
(* the abstract set after an op: add = union, remove = difference, removeFrom = keep below *)
Definition set_after (P : Z -> Prop) (o : rm_op) : Z -> Prop :=
  match o with
  | RAdd l r => fun x => P x \/ l <= x < r
  | RRemove l r => fun x => P x /\ ~ (l <= x < r)
  | RRemoveFrom off => fun x => P x /\ ~ (off <= x < OFF_MAX)
  | RClear => fun _ => False
  end.

Lemma WF_nil : WF []. Proof. exists 0. exact I. Qed.

Lemma rm_apply_spec m o :
  WF m -> WF (rm_apply m o) /\ forall x, covers (rm_apply m o) x <-> set_after (covers m) o x.
Proof.
  intros Hwf. destruct o as [l r | l r | off |]; simpl.
  - destruct (Z.lt_ge_cases l r) as [Hlr | Hlr].
    + apply addRange_spec; assumption.
    + unfold addRange. destruct (Z.leb_spec r l) as [Hle | Hle]; [| lia]. split; [exact Hwf |].
      intros x. split; [tauto | intros [Hx | Hx]; [exact Hx | lia]].
  - destruct (Z.lt_ge_cases l r) as [Hlr | Hlr].
    + apply removeRange_spec; assumption.
    + unfold removeRange. destruct (Z.leb_spec r l) as [Hle | Hle]; [| lia]. split; [exact Hwf |].
      intros x. split; [intros Hx; split; [exact Hx | lia] | tauto].
  - unfold removeFrom. destruct (Z.lt_ge_cases off OFF_MAX) as [Hlr | Hlr].
    + apply removeRange_spec; assumption.
    + unfold removeRange. destruct (Z.leb_spec OFF_MAX off) as [Hle | Hle]; [| lia]. split; [exact Hwf |].
      intros x. split; [intros Hx; split; [exact Hx | lia] | tauto].
  - split; [exact WF_nil |]. intros x. split; [intros Hx; now apply covers_nil in Hx | tauto].
Qed.

Definition spec_run (ops : list rm_op) : Z -> Prop := fold_left set_after ops (fun _ => False).

Lemma rm_fold_spec ops : forall m P,
  WF m -> (forall x, covers m x <-> P x) ->
  WF (fold_left rm_apply ops m) /\ forall x, covers (fold_left rm_apply ops m) x <-> fold_left set_after ops P x.
Proof.
  induction ops as [| o ops IH]; intros m P Hwf Hc; simpl.
  - split; assumption.
  - destruct (rm_apply_spec m o Hwf) as [Hw' Hc']. apply IH; [exact Hw' |].
    intros x. rewrite Hc'. destruct o; simpl; rewrite ?Hc; tauto.
Qed.

(* rm_set_semantics: after ANY sequence of operations starting from the empty module the
   structure invariant holds and the represented set is exactly the set-algebra result *)
Theorem rm_set_semantics_proof ops :
  WF (rm_run ops) /\ forall x, covers (rm_run ops) x <-> spec_run ops x.
Proof.
  unfold rm_run, spec_run. apply rm_fold_spec; [exact WF_nil |].
  intros x. split; [intros H; now apply covers_nil in H | tauto].
Qed.

Example rm_example :
  rm_run [RAdd 0 4; RAdd 6 9; RRemove 2 7; RAdd 4 5] = [(0, 2); (4, 5); (7, 9)].
Proof. reflexivity. Qed.

Example wf_example : WF [(0, 2); (4, 5); (7, 9)].
Proof. exists (-1). cbn. lia. Qed.
