(* C17_Conc.v — lock-granularity interleaving model of the cache read path (Coq only).

   Participants: any number of readers (ICacheStore::preadv2 -> FileCacheStore::try_preadv2 ->
   do_refill_range), asynchronous write-back threads (ICacheStore::async_refill), whole-file
   eviction (FileCachePool::evictOpenedFile: evict(0) under the store's WRITE lock) and the reuse of
   the media directory by a new pool instance.  One transition = one access to shared state, or one
   block executed under a lock whose footprint is only touched under that lock:

     shared state   media content + filled-range map of one file
     rw_lock_       FileCacheStore::try_preadv2 holds it SHARED around {hole query; media read}
                    (cache_store.cpp:57-61 around store.cpp:324-327); do_pwritev holds it SHARED
                    around {ftruncate; pwritev; addFilledRange} (cache_store.cpp:76-94);
                    evictOpenedFile holds it EXCLUSIVE around evict(0) (cache_pool.cpp:209-210).
                    The rwlock's specification (C06) is used: an exclusive section excludes every
                    shared section.  Hence `Evict` is one atomic step enabled only when no thread is
                    inside a shared section, and shared sections may be split into several steps.
     range_lock_    held from try_lock_wait (store.cpp:211) to the unlock after the inline write
                    (DEFER, :216) or to async_refill's unlock (:193).  RangeLock's specification
                    (C18, rl_disjoint) is used: a range is granted only if it is disjoint from every
                    held range; a refused request restarts the read (`-EAGAIN`, goto again).

   The source is a fixed function (it does not change).  Source reads may fail.  Media writes may be
   short or fail (any subset of the range is written and recorded).  The request size is already
   clamped to the file size (sequential theorem). *)
From Coq Require Import ZArith List Lia Bool.
Import ListNotations.
Local Open Scope Z_scope.

Definition bytes := Z -> Z.
Definition ubuf := Z -> option Z.          (* user buffer: file position -> byte delivered, if any *)

Definition inr (a b x : Z) : Prop := a <= x < b.

Inductive pc :=
| Idle
| RStart (off cnt : Z)                                  (* preadv2 entered, or `again:` *)
| RLocked (off cnt : Z)                                 (* holds rw SHARED, before the hole query *)
| RHit (off cnt : Z)                                    (* holds rw SHARED; query answered "no hole" *)
| RMiss (off cnt a b : Z)                               (* rw released; refill range [a,b) chosen *)
| RHaveLock (off cnt a b : Z)                           (* holds range lock [a,b) *)
| RHaveData (off cnt a b : Z) (rb : bytes)              (* source read into the refill buffer *)
| RCopied (off cnt a b : Z) (rb : bytes) (u : ubuf)     (* overlapping part copied to the caller *)
| RWriting (off cnt a b : Z) (rb : bytes) (u : ubuf)    (* inline write-back: holds rw SHARED *)
| RRemainder (off cnt : Z) (u : ubuf)                   (* refill written / handed to async thread *)
| RRemLocked (off cnt : Z) (u : ubuf)                   (* holds rw SHARED for the remainder query *)
| RRemHit (off cnt : Z) (u : ubuf)                      (* holds rw SHARED; remainder has no hole *)
| RRemMiss (off cnt : Z) (u : ubuf)                     (* rw released; remainder from the source *)
| RDone (off cnt : Z) (u : ubuf)                        (* preadv2 returns count *)
| RFail                                                 (* preadv2 returns -1 *)
| AWait (a b : Z) (rb : bytes)                          (* async_refill: owns range lock [a,b) *)
| AWriting (a b : Z) (rb : bytes).                      (* async_refill: holds rw SHARED *)

Definition in_shared (p : pc) : Prop :=
  match p with
  | RLocked _ _ | RHit _ _ | RWriting _ _ _ _ _ _ | RRemLocked _ _ _ | RRemHit _ _ _ | AWriting _ _ _ => True
  | _ => False
  end.

Definition holds_range (p : pc) : option (Z * Z) :=
  match p with
  | RHaveLock _ _ a b | RHaveData _ _ a b _ | RCopied _ _ a b _ _ | RWriting _ _ a b _ _
  | AWait a b _ | AWriting a b _ => Some (a, b)
  | _ => None
  end.

Record state := mkS {
  filled : Z -> bool;        (* the filled-range map as a set of bytes (RangeModule, rm_set_semantics) *)
  media : bytes;             (* content of the media file *)
  pcs : nat -> pc
}.

Definition upd (f : nat -> pc) (t : nat) (p : pc) : nat -> pc :=
  fun t' => if Nat.eqb t' t then p else f t'.

Definition disjoint (a b a' b' : Z) : Prop := b <= a' \/ b' <= a.

Section Model.
  Variable src : bytes.

  (* a write of (part of) the refill buffer: any subset D of [a,b) reaches the media and is recorded *)
  Definition written (s : state) (a b : Z) (rb : bytes) (D : Z -> bool) (s' : state) (p' : nat -> pc) : Prop :=
    (forall x, D x = true -> inr a b x) /\
    s' = mkS (fun x => D x || filled s x) (fun x => if D x then rb x else media s x) p'.

  Inductive step : state -> state -> Prop :=
  | s_start s t off cnt :
      pcs s t = Idle -> 0 <= off -> 0 < cnt ->
      step s (mkS (filled s) (media s) (upd (pcs s) t (RStart off cnt)))
  | s_rlock s t off cnt :                                  (* cache_store.cpp:59 *)
      pcs s t = RStart off cnt ->
      step s (mkS (filled s) (media s) (upd (pcs s) t (RLocked off cnt)))
  | s_query_hit s t off cnt :                              (* store.cpp:324-325 *)
      pcs s t = RLocked off cnt -> (forall x, inr off (off + cnt) x -> filled s x = true) ->
      step s (mkS (filled s) (media s) (upd (pcs s) t (RHit off cnt)))
  | s_query_miss s t off cnt a b :                         (* store.cpp:332-334, lock released *)
      pcs s t = RLocked off cnt -> a < b ->
      (forall x, inr off (off + cnt) x -> filled s x = false -> inr a b x) ->
      step s (mkS (filled s) (media s) (upd (pcs s) t (RMiss off cnt a b)))
  | s_media_read s t off cnt :                             (* store.cpp:327, lock released *)
      pcs s t = RHit off cnt ->
      step s (mkS (filled s) (media s)
                  (upd (pcs s) t (RDone off cnt (fun x => if (off <=? x) && (x <? off + cnt) then Some (media s x) else None))))
  | s_range_lock s t off cnt a b :                         (* store.cpp:211 granted *)
      pcs s t = RMiss off cnt a b ->
      (forall t' a' b', t' <> t -> holds_range (pcs s t') = Some (a', b') -> disjoint a b a' b') ->
      step s (mkS (filled s) (media s) (upd (pcs s) t (RHaveLock off cnt a b)))
  | s_again s t off cnt a b :                              (* store.cpp:212 -EAGAIN, goto again *)
      pcs s t = RMiss off cnt a b ->
      step s (mkS (filled s) (media s) (upd (pcs s) t (RStart off cnt)))
  | s_src_read s t off cnt a b rb :                        (* store.cpp:237 ok *)
      pcs s t = RHaveLock off cnt a b -> (forall x, inr a b x -> rb x = src x) ->
      step s (mkS (filled s) (media s) (upd (pcs s) t (RHaveData off cnt a b rb)))
  | s_src_fail s t off cnt a b :                           (* store.cpp:240-245, range unlocked *)
      pcs s t = RHaveLock off cnt a b ->
      step s (mkS (filled s) (media s) (upd (pcs s) t RFail))
  | s_copy s t off cnt a b rb (C : Z -> bool) :            (* store.cpp:251-263, any of the 3 cases *)
      pcs s t = RHaveData off cnt a b rb ->
      (forall x, C x = true -> inr a b x /\ inr off (off + cnt) x) ->
      step s (mkS (filled s) (media s)
                  (upd (pcs s) t (RCopied off cnt a b rb (fun x => if C x then Some (rb x) else None))))
  | s_inline s t off cnt a b rb u :                        (* store.cpp:273-276, cache_store.cpp:76 *)
      pcs s t = RCopied off cnt a b rb u ->
      step s (mkS (filled s) (media s) (upd (pcs s) t (RWriting off cnt a b rb u)))
  | s_inline_write s t off cnt a b rb u D s' :             (* cache_store.cpp:85-94; both locks released *)
      pcs s t = RWriting off cnt a b rb u ->
      written s a b rb D s' (upd (pcs s) t (RRemainder off cnt u)) ->
      step s s'
  | s_async s t t' off cnt a b rb u :                      (* store.cpp:267-271: range lock handed over *)
      pcs s t = RCopied off cnt a b rb u -> t' <> t -> pcs s t' = Idle ->
      step s (mkS (filled s) (media s) (upd (upd (pcs s) t (RRemainder off cnt u)) t' (AWait a b rb)))
  | s_async_lock s t a b rb :
      pcs s t = AWait a b rb ->
      step s (mkS (filled s) (media s) (upd (pcs s) t (AWriting a b rb)))
  | s_async_write s t a b rb D s' :                        (* store.cpp:185-193 *)
      pcs s t = AWriting a b rb ->
      written s a b rb D s' (upd (pcs s) t Idle) ->
      step s s'
  | s_rem_done s t off cnt u :                             (* store.cpp:287 ret == count *)
      pcs s t = RRemainder off cnt u ->
      (forall x, inr off (off + cnt) x -> u x <> None) ->
      step s (mkS (filled s) (media s) (upd (pcs s) t (RDone off cnt u)))
  | s_rem_lock s t off cnt u :                             (* store.cpp:288 -> cache_store.cpp:59 *)
      pcs s t = RRemainder off cnt u ->
      step s (mkS (filled s) (media s) (upd (pcs s) t (RRemLocked off cnt u)))
  | s_rem_hit s t off cnt u :
      pcs s t = RRemLocked off cnt u ->
      (forall x, inr off (off + cnt) x -> u x = None -> filled s x = true) ->
      step s (mkS (filled s) (media s) (upd (pcs s) t (RRemHit off cnt u)))
  | s_rem_miss s t off cnt u :
      pcs s t = RRemLocked off cnt u ->
      step s (mkS (filled s) (media s) (upd (pcs s) t (RRemMiss off cnt u)))
  | s_rem_media s t off cnt u :
      pcs s t = RRemHit off cnt u ->
      step s (mkS (filled s) (media s)
                  (upd (pcs s) t (RDone off cnt (fun x => match u x with Some v => Some v | None =>
                        if (off <=? x) && (x <? off + cnt) then Some (media s x) else None end))))
  | s_rem_src s t off cnt u :                              (* store.cpp:294 ok *)
      pcs s t = RRemMiss off cnt u ->
      step s (mkS (filled s) (media s)
                  (upd (pcs s) t (RDone off cnt (fun x => match u x with Some v => Some v | None =>
                        if (off <=? x) && (x <? off + cnt) then Some (src x) else None end))))
  | s_rem_fail s t off cnt u :                             (* store.cpp:295-297 *)
      pcs s t = RRemMiss off cnt u ->
      step s (mkS (filled s) (media s) (upd (pcs s) t RFail))
  | s_return s t :
      (exists off cnt u, pcs s t = RDone off cnt u) \/ pcs s t = RFail ->
      step s (mkS (filled s) (media s) (upd (pcs s) t Idle))
  | s_evict s m' :                                         (* cache_pool.cpp:205-214: under rw EXCLUSIVE *)
      (forall t, ~ in_shared (pcs s t)) ->
      step s (mkS (fun _ => false) m' (pcs s))
  | s_reuse s f' :                                         (* a new pool instance over the same directory *)
      (forall t, pcs s t = Idle) -> (forall x, f' x = true -> filled s x = true) ->
      step s (mkS f' (media s) (pcs s)).

  Inductive reachable : state -> Prop :=
  | r_init m : reachable (mkS (fun _ => false) m (fun _ => Idle))
  | r_step s s' : reachable s -> step s s' -> reachable s'.

  (* ---------------------------------------------------------------- invariant *)
  Definition ubuf_ok (off cnt : Z) (u : ubuf) : Prop :=
    forall x v, u x = Some v -> v = src x /\ inr off (off + cnt) x.

  Definition pc_ok (s : state) (p : pc) : Prop :=
    match p with
    | RHit off cnt => forall x, inr off (off + cnt) x -> filled s x = true
    | RHaveData _ _ a b rb => forall x, inr a b x -> rb x = src x
    | RCopied off cnt a b rb u | RWriting off cnt a b rb u =>
        (forall x, inr a b x -> rb x = src x) /\ ubuf_ok off cnt u
    | RRemainder off cnt u | RRemLocked off cnt u | RRemMiss off cnt u => ubuf_ok off cnt u
    | RRemHit off cnt u =>
        ubuf_ok off cnt u /\ forall x, inr off (off + cnt) x -> u x = None -> filled s x = true
    | RDone off cnt u => forall x, inr off (off + cnt) x -> u x = Some (src x)
    | AWait a b rb | AWriting a b rb => forall x, inr a b x -> rb x = src x
    | _ => True
    end.

  Definition CacheConsistent (s : state) : Prop := forall x, filled s x = true -> media s x = src x.

  Definition RangesDisjoint (s : state) : Prop :=
    forall t t' a b a' b', t <> t' ->
      holds_range (pcs s t) = Some (a, b) -> holds_range (pcs s t') = Some (a', b') -> disjoint a b a' b'.

  Definition Inv (s : state) : Prop :=
    CacheConsistent s /\ (forall t, pc_ok s (pcs s t)) /\ RangesDisjoint s.

  Lemma upd_same f t p : upd f t p t = p.
  Proof. unfold upd. now rewrite Nat.eqb_refl. Qed.

  Lemma upd_other f t p t' : t' <> t -> upd f t p t' = f t'.
  Proof. unfold upd. intros H. apply Nat.eqb_neq in H. now rewrite H. Qed.

  (* pc_ok of a thread survives any step that leaves it alone, provided the step only ADDS filled
     bytes, or the thread is not inside a shared section (then its pc_ok does not mention filled
     unless it is RHit / RRemHit, which are shared sections) *)
  Lemma pc_ok_mono s s' p :
    (forall x, filled s x = true -> filled s' x = true) -> pc_ok s p -> pc_ok s' p.
  Proof.
    intros Hm. destruct p; simpl; auto.
    intros [H1 H2]. split; [exact H1 |]. intros x Hx Hn. apply Hm. now apply H2.
  Qed.

  Lemma pc_ok_unshared s s' p : ~ in_shared p -> pc_ok s p -> pc_ok s' p.
  Proof. destruct p; simpl; auto; intros H; exfalso; apply H; exact I. Qed.

  (* generic frame: only thread t's pc changes, shared data unchanged *)
  Lemma inv_local s t p' :
    Inv s -> pc_ok s p' ->
    (holds_range p' = holds_range (pcs s t) \/ holds_range p' = None) ->
    Inv (mkS (filled s) (media s) (upd (pcs s) t p')).
  Proof.
    intros (Hc & Hp & Hr) Hok Hh. split; [exact Hc |]. split.
    - intros t'. cbn [pcs]. destruct (Nat.eq_dec t' t) as [-> | Hne].
      + rewrite upd_same. destruct p'; exact Hok.
      + rewrite upd_other by exact Hne. specialize (Hp t'). destruct (pcs s t'); exact Hp.
    - intros t1 t2 a b a' b' Hne H1 H2. cbn [pcs] in *.
      destruct (Nat.eq_dec t1 t) as [-> | Hn1]; destruct (Nat.eq_dec t2 t) as [-> | Hn2]; try congruence.
      + rewrite upd_same in H1. rewrite upd_other in H2 by exact Hn2.
        destruct Hh as [Hh | Hh]; rewrite Hh in H1; [| discriminate]. exact (Hr _ _ _ _ _ _ Hne H1 H2).
      + rewrite upd_same in H2. rewrite upd_other in H1 by exact Hn1.
        destruct Hh as [Hh | Hh]; rewrite Hh in H2; [| discriminate]. exact (Hr _ _ _ _ _ _ Hne H1 H2).
      + rewrite upd_other in H1 by exact Hn1. rewrite upd_other in H2 by exact Hn2. exact (Hr _ _ _ _ _ _ Hne H1 H2).
  Qed.

  Lemma inv_written s t a b rb D s' p' :
    Inv s -> holds_range (pcs s t) = Some (a, b) -> (forall x, inr a b x -> rb x = src x) ->
    holds_range p' = None -> ~ in_shared p' -> pc_ok s p' ->
    written s a b rb D s' (upd (pcs s) t p') -> Inv s'.
  Proof.
    intros (Hc & Hp & Hr) Hh Hrb Hn Hns Hok [HD ->]. split; [| split].
    - intros x Hx. cbn [filled media] in *. destruct (D x) eqn:HDx.
      + apply Hrb. now apply HD.
      + simpl in Hx. now apply Hc.
    - intros t'. cbn [pcs]. destruct (Nat.eq_dec t' t) as [-> | Hne].
      + rewrite upd_same. eapply pc_ok_unshared; eauto.
      + rewrite upd_other by exact Hne. eapply pc_ok_mono; [| apply Hp].
        intros x Hx. cbn [filled]. rewrite Hx. apply orb_true_r.
    - intros t1 t2 a1 b1 a2 b2 Hne H1 H2. cbn [pcs] in *.
      destruct (Nat.eq_dec t1 t) as [-> | Hn1]; [rewrite upd_same in H1; congruence |].
      destruct (Nat.eq_dec t2 t) as [-> | Hn2]; [rewrite upd_same in H2; congruence |].
      rewrite upd_other in H1 by exact Hn1. rewrite upd_other in H2 by exact Hn2. exact (Hr _ _ _ _ _ _ Hne H1 H2).
  Qed.

  Lemma inr_dec off cnt x : (off <=? x) && (x <? off + cnt) = true <-> inr off (off + cnt) x.
  Proof. unfold inr. rewrite andb_true_iff, Z.leb_le, Z.ltb_lt. tauto. Qed.

  Theorem inv_step s s' : Inv s -> step s s' -> Inv s'.
  Proof.
    intros HI Hs. pose proof HI as (Hc & Hp & Hr).
    destruct Hs as
      [ s t off cnt Hpc Ho Hcn | s t off cnt Hpc | s t off cnt Hpc Hall | s t off cnt a b Hpc Hab Hun
      | s t off cnt Hpc | s t off cnt a b Hpc Hdis | s t off cnt a b Hpc | s t off cnt a b rb Hpc Hrb
      | s t off cnt a b Hpc | s t off cnt a b rb C Hpc HC | s t off cnt a b rb u Hpc
      | s t off cnt a b rb u D s' Hpc Hw | s t t' off cnt a b rb u Hpc Hne Hidle | s t a b rb Hpc
      | s t a b rb D s' Hpc Hw | s t off cnt u Hpc Hfull | s t off cnt u Hpc | s t off cnt u Hpc Hall
      | s t off cnt u Hpc | s t off cnt u Hpc | s t off cnt u Hpc | s t off cnt u Hpc | s t Hpc
      | s m' Hns | s f' Hidle Hsub ];
      try (pose proof (Hp t) as Hpt; rewrite Hpc in Hpt; simpl in Hpt).
    - apply inv_local; [exact HI | exact I | right; reflexivity].
    - apply inv_local; [exact HI | exact I | right; reflexivity].
    - apply inv_local; [exact HI | exact Hall | right; reflexivity].
    - apply inv_local; [exact HI | exact I | right; reflexivity].
    - (* media read under the same shared section as the query: every byte is still filled *)
      apply inv_local; [exact HI | | right; reflexivity].
      simpl. intros x Hx. apply inr_dec in Hx as Hx'. rewrite Hx'. f_equal. apply Hc. now apply Hpt.
    - (* range lock granted: disjoint from every held range *)
      split; [exact Hc |]. split.
      + intros t'. cbn [pcs]. destruct (Nat.eq_dec t' t) as [-> | Hne]; [rewrite upd_same; exact I |].
        rewrite upd_other by exact Hne. specialize (Hp t'). destruct (pcs s t'); exact Hp.
      + intros t1 t2 a1 b1 a2 b2 Hne H1 H2. cbn [pcs] in *.
        destruct (Nat.eq_dec t1 t) as [-> | Hn1]; destruct (Nat.eq_dec t2 t) as [-> | Hn2]; try congruence.
        * rewrite upd_same in H1. rewrite upd_other in H2 by exact Hn2. inversion H1; subst. exact (Hdis t2 a2 b2 Hn2 H2).
        * rewrite upd_same in H2. rewrite upd_other in H1 by exact Hn1. inversion H2; subst.
          destruct (Hdis t1 a1 b1 Hn1 H1); [right | left]; assumption.
        * rewrite upd_other in H1 by exact Hn1. rewrite upd_other in H2 by exact Hn2. exact (Hr _ _ _ _ _ _ Hne H1 H2).
    - apply inv_local; [exact HI | exact I | right; reflexivity].
    - apply inv_local; [exact HI | exact Hrb | left; rewrite Hpc; reflexivity].
    - apply inv_local; [exact HI | exact I | right; reflexivity].
    - apply inv_local; [exact HI | | left; rewrite Hpc; reflexivity].
      simpl. split; [exact Hpt |]. intros x v Hx. destruct (C x) eqn:HCx; [| discriminate].
      inversion Hx; subst. destruct (HC x HCx) as [H1 H2]. split; [now apply Hpt | exact H2].
    - apply inv_local; [exact HI | exact Hpt | left; rewrite Hpc; reflexivity].
    - destruct Hpt as [Hrb Hu].
      apply (inv_written s t a b rb D s' (RRemainder off cnt u) HI); [rewrite Hpc; reflexivity | exact Hrb | reflexivity | simpl; tauto | exact Hu | exact Hw].
    - (* async hand-over: the reader drops the range, the write-back thread owns it *)
      destruct Hpt as [Hrb Hu]. split; [exact Hc |]. split.
      + intros t0. cbn [pcs]. destruct (Nat.eq_dec t0 t') as [-> | Hn0]; [rewrite upd_same; exact Hrb |].
        rewrite upd_other by exact Hn0. destruct (Nat.eq_dec t0 t) as [-> | Hn1]; [rewrite upd_same; exact Hu |].
        rewrite upd_other by exact Hn1. specialize (Hp t0). destruct (pcs s t0); exact Hp.
      + assert (Hget : forall t0 r, holds_range (upd (upd (pcs s) t (RRemainder off cnt u)) t' (AWait a b rb) t0) = Some r ->
                          (t0 = t' /\ r = (a, b)) \/ (t0 <> t' /\ t0 <> t /\ holds_range (pcs s t0) = Some r)).
        { intros t0 r H. destruct (Nat.eq_dec t0 t') as [-> | Hn0]; [rewrite upd_same in H; inversion H; now left |].
          rewrite upd_other in H by exact Hn0. destruct (Nat.eq_dec t0 t) as [-> | Hn1]; [rewrite upd_same in H; discriminate |].
          rewrite upd_other in H by exact Hn1. right. tauto. }
        intros t1 t2 a1 b1 a2 b2 Hn H1 H2. cbn [pcs] in *.
        destruct (Hget _ _ H1) as [[-> E1] | (N1 & N1' & G1)]; destruct (Hget _ _ H2) as [[-> E2] | (N2 & N2' & G2)]; try congruence.
        * inversion E1; subst. refine (Hr t t2 _ _ _ _ _ _ G2); [congruence | rewrite Hpc; reflexivity].
        * inversion E2; subst. refine (Hr t1 t _ _ _ _ N1' G1 _). rewrite Hpc; reflexivity.
        * exact (Hr _ _ _ _ _ _ Hn G1 G2).
    - apply inv_local; [exact HI | exact Hpt | left; rewrite Hpc; reflexivity].
    - apply (inv_written s t a b rb D s' Idle HI); [rewrite Hpc; reflexivity | exact Hpt | reflexivity | simpl; tauto | exact I | exact Hw].
    - apply inv_local; [exact HI | | right; reflexivity].
      simpl. intros x Hx. destruct (u x) as [v |] eqn:Hux; [| now apply Hfull in Hx]. f_equal. now apply Hpt in Hux.
    - apply inv_local; [exact HI | exact Hpt | right; reflexivity].
    - apply inv_local; [exact HI | split; [exact Hpt | exact Hall] | right; reflexivity].
    - apply inv_local; [exact HI | exact Hpt | right; reflexivity].
    - (* remainder media read under the same shared section as the remainder query *)
      destruct Hpt as [Hu Hf]. apply inv_local; [exact HI | | right; reflexivity].
      simpl. intros x Hx. destruct (u x) as [v |] eqn:Hux; [f_equal; now apply Hu in Hux |].
      apply inr_dec in Hx as Hx'. rewrite Hx'. f_equal. apply Hc. now apply Hf.
    - apply inv_local; [exact HI | | right; reflexivity].
      simpl. intros x Hx. destruct (u x) as [v |] eqn:Hux; [f_equal; now apply Hpt in Hux |].
      apply inr_dec in Hx as Hx'. now rewrite Hx'.
    - apply inv_local; [exact HI | exact I | right; reflexivity].
    - apply inv_local; [exact HI | exact I | right; reflexivity].
    - (* eviction: exclusive, so no thread is between a hole query and its media read *)
      split; [intros x Hx; discriminate |]. split; [| exact Hr].
      intros t. cbn [pcs]. eapply pc_ok_unshared; [apply Hns | apply Hp].
    - (* reuse: all threads idle; the rebuilt map is a subset of what was filled *)
      split; [intros x Hx; cbn [filled media] in *; apply Hc; now apply Hsub |]. split; [| exact Hr].
      intros t. cbn [pcs]. rewrite Hidle. exact I.
  Qed.

  Theorem inv_reachable s : reachable s -> Inv s.
  Proof.
    induction 1 as [m | s s' Hr IH Hs].
    - split; [intros x Hx; discriminate |]. split; [intros t; exact I |]. intros t t' a b a' b' _ H; discriminate.
    - eapply inv_step; eauto.
  Qed.

  (* read_atomic_vs_evict: in every reachable state, a thread that has got "no hole" from the hole
     query and has not yet read the media (RHit / RRemHit) still sees every byte it is about to read
     filled and equal to the source — no eviction can fall between the query and the read *)
  Theorem read_atomic_vs_evict_proof s t :
    reachable s ->
    match pcs s t with
    | RHit off cnt => forall x, inr off (off + cnt) x -> filled s x = true /\ media s x = src x
    | RRemHit off cnt u => forall x, inr off (off + cnt) x -> u x = None -> filled s x = true /\ media s x = src x
    | _ => True
    end.
  Proof.
    intros Hr. destruct (inv_reachable s Hr) as (Hc & Hp & _). specialize (Hp t).
    destruct (pcs s t); try exact I; simpl in Hp.
    - intros x Hx. split; [now apply Hp | apply Hc; now apply Hp].
    - destruct Hp as [_ Hf]. intros x Hx Hn. split; [now apply Hf | apply Hc; now apply Hf].
  Qed.

  (* an eviction step is never enabled while some thread is between its hole query and its media
     read (or inside a write-back): that is what the exclusive rw lock buys *)
  Theorem evict_excluded_in_read_section_proof s m' :
    step s (mkS (fun _ => false) m' (pcs s)) ->
    (exists x, filled s x = true) ->
    forall t, ~ in_shared (pcs s t).
  Proof.
    intros Hs [x0 Hx0] t Hin.
    remember (mkS (fun _ => false) m' (pcs s)) as s' eqn:Heq.
    assert (Hf : filled s' x0 = false) by (subst s'; reflexivity).
    assert (Hpcs : pcs s' = pcs s) by (subst s'; reflexivity).
    destruct Hs;
      try (cbn [filled] in Hf; congruence);
      try (match goal with Hw : written _ _ _ _ _ _ _ |- _ => destruct Hw as [_ ->]; cbn [filled] in Hf; rewrite Hx0, orb_true_r in Hf; discriminate end).
    - (* s_evict *) match goal with H : forall t, ~ in_shared _ |- _ => exact (H t Hin) end.
    - (* s_reuse: every thread idle *) match goal with H : forall t, pcs _ t = Idle |- _ => rewrite (H t) in Hin; exact Hin end.
  Qed.

  (* read_returns_source_concurrent: for every interleaving, a read that returns its count has
     delivered exactly the source's bytes of the requested range; CacheConsistent holds in every
     reachable state; concurrently refilled ranges are disjoint *)
  Theorem read_returns_source_concurrent_proof s t off cnt u :
    reachable s -> pcs s t = RDone off cnt u -> forall x, off <= x < off + cnt -> u x = Some (src x).
  Proof.
    intros Hr Hpc. destruct (inv_reachable s Hr) as (_ & Hp & _). specialize (Hp t). rewrite Hpc in Hp. exact Hp.
  Qed.

  Theorem cache_consistent_concurrent_proof s :
    reachable s -> forall x, filled s x = true -> media s x = src x.
  Proof. intros Hr. now destruct (inv_reachable s Hr). Qed.

  Theorem refill_dedup_proof s t t' a b a' b' :
    reachable s -> t <> t' ->
    holds_range (pcs s t) = Some (a, b) -> holds_range (pcs s t') = Some (a', b') -> b <= a' \/ b' <= a.
  Proof. intros Hr. destruct (inv_reachable s Hr) as (_ & _ & H). apply H. Qed.
End Model.

(* ---------------------------------------------------------------- examples *)
(* a concrete reachable state in which a reader finished a read that went through a miss, a
   granted range lock, a source read, the copy, an inline write-back and the remainder check *)
Definition ex_src : bytes := fun x => x * 3 + 1.

Example ex_reachable_done :
  exists s u, reachable ex_src s /\ pcs s 0%nat = RDone 0 4 u /\ filled s 2 = true.
Proof.
  pose (s0 := mkS (fun _ => false) (fun _ => 0) (fun _ => Idle)).
  assert (R0 : reachable ex_src s0) by apply r_init.
  assert (Hin : forall x, (0 <=? x) && (x <? 4) = true -> inr 0 4 x).
  { intros x Hx. apply andb_true_iff in Hx. destruct Hx as [H1 H2]. apply Z.leb_le in H1. apply Z.ltb_lt in H2. unfold inr. lia. }
  match type of R0 with reachable _ ?s =>
    pose proof (r_step _ s _ R0 (s_start ex_src s 0%nat 0 4 eq_refl ltac:(lia) ltac:(lia))) as R1 end.
  match type of R1 with reachable _ ?s =>
    pose proof (r_step _ s _ R1 (s_rlock ex_src s 0%nat 0 4 eq_refl)) as R2 end.
  match type of R2 with reachable _ ?s =>
    pose proof (r_step _ s _ R2 (s_query_miss ex_src s 0%nat 0 4 0 4 eq_refl ltac:(lia) ltac:(intros x Hx _; exact Hx))) as R3 end.
  match type of R3 with reachable _ ?s =>
    pose proof (r_step _ s _ R3 (s_range_lock ex_src s 0%nat 0 4 0 4 eq_refl
                ltac:(intros t' a' b' Hne H; destruct t'; [congruence | discriminate]))) as R4 end.
  match type of R4 with reachable _ ?s =>
    pose proof (r_step _ s _ R4 (s_src_read ex_src s 0%nat 0 4 0 4 ex_src eq_refl ltac:(intros; reflexivity))) as R5 end.
  match type of R5 with reachable _ ?s =>
    pose proof (r_step _ s _ R5 (s_copy ex_src s 0%nat 0 4 0 4 ex_src (fun x => (0 <=? x) && (x <? 4)) eq_refl
                ltac:(intros x Hx; split; apply Hin; exact Hx))) as R6 end.
  match type of R6 with reachable _ ?s =>
    pose proof (r_step _ s _ R6 (s_inline ex_src s 0%nat 0 4 0 4 ex_src _ eq_refl)) as R7 end.
  match type of R7 with reachable _ ?s =>
    pose proof (r_step _ s _ R7 (s_inline_write ex_src s 0%nat 0 4 0 4 ex_src _ (fun x => (0 <=? x) && (x <? 4)) _ eq_refl
                (conj Hin eq_refl))) as R8 end.
  match type of R8 with reachable _ ?s =>
    pose proof (r_step _ s _ R8 (s_rem_done ex_src s 0%nat 0 4 _ eq_refl
                ltac:(intros x Hx; unfold inr in Hx; cbn beta;
                      replace ((0 <=? x) && (x <? 4)) with true by (symmetry; apply andb_true_iff; split; [apply Z.leb_le | apply Z.ltb_lt]; lia);
                      discriminate))) as R9 end.
  eexists. eexists. split; [exact R9 |]. split; reflexivity.
Qed.

Lemma ex_reachable_filled :
  exists s u, reachable ex_src s /\ pcs s 0%nat = RDone 0 4 u /\ (forall x, 0 <= x < 4 -> filled s x = true).
Proof.
  pose (s0 := mkS (fun _ => false) (fun _ => 0) (fun _ => Idle)).
  assert (R0 : reachable ex_src s0) by apply r_init.
  assert (Hin : forall x, (0 <=? x) && (x <? 4) = true -> inr 0 4 x).
  { intros x Hx. apply andb_true_iff in Hx. destruct Hx as [H1 H2]. apply Z.leb_le in H1. apply Z.ltb_lt in H2. unfold inr. lia. }
  match type of R0 with reachable _ ?s =>
    pose proof (r_step _ s _ R0 (s_start ex_src s 0%nat 0 4 eq_refl ltac:(lia) ltac:(lia))) as R1 end.
  match type of R1 with reachable _ ?s =>
    pose proof (r_step _ s _ R1 (s_rlock ex_src s 0%nat 0 4 eq_refl)) as R2 end.
  match type of R2 with reachable _ ?s =>
    pose proof (r_step _ s _ R2 (s_query_miss ex_src s 0%nat 0 4 0 4 eq_refl ltac:(lia) ltac:(intros x Hx _; exact Hx))) as R3 end.
  match type of R3 with reachable _ ?s =>
    pose proof (r_step _ s _ R3 (s_range_lock ex_src s 0%nat 0 4 0 4 eq_refl
                ltac:(intros t' a' b' Hne H; destruct t'; [congruence | discriminate]))) as R4 end.
  match type of R4 with reachable _ ?s =>
    pose proof (r_step _ s _ R4 (s_src_read ex_src s 0%nat 0 4 0 4 ex_src eq_refl ltac:(intros; reflexivity))) as R5 end.
  match type of R5 with reachable _ ?s =>
    pose proof (r_step _ s _ R5 (s_copy ex_src s 0%nat 0 4 0 4 ex_src (fun x => (0 <=? x) && (x <? 4)) eq_refl
                ltac:(intros x Hx; split; apply Hin; exact Hx))) as R6 end.
  match type of R6 with reachable _ ?s =>
    pose proof (r_step _ s _ R6 (s_inline ex_src s 0%nat 0 4 0 4 ex_src _ eq_refl)) as R7 end.
  match type of R7 with reachable _ ?s =>
    pose proof (r_step _ s _ R7 (s_inline_write ex_src s 0%nat 0 4 0 4 ex_src _ (fun x => (0 <=? x) && (x <? 4)) _ eq_refl
                (conj Hin eq_refl))) as R8 end.
  match type of R8 with reachable _ ?s =>
    pose proof (r_step _ s _ R8 (s_rem_done ex_src s 0%nat 0 4 _ eq_refl
                ltac:(intros x Hx; unfold inr in Hx; cbn beta;
                      replace ((0 <=? x) && (x <? 4)) with true by (symmetry; apply andb_true_iff; split; [apply Z.leb_le | apply Z.ltb_lt]; lia);
                      discriminate))) as R9 end.
  eexists. eexists. split; [exact R9 |]. split; [reflexivity |].
  intros x Hx. cbn [filled].
  replace ((0 <=? x) && (x <? 4)) with true by (symmetry; apply andb_true_iff; split; [apply Z.leb_le | apply Z.ltb_lt]; lia).
  reflexivity.
Qed.

(* ---------------------------------------------------------------- counterfactual *)
(* If whole-file eviction did NOT take the rw lock exclusively (i.e. could run while a reader is
   between its hole query and its media read), a read would return bytes that are not the source's.
   This is the window the lock closes; the trace below is the witness in the weakened model. *)
Inductive ustep (src : bytes) : state -> state -> Prop :=
| u_step s s' : step src s s' -> ustep src s s'
| u_evict s m' : ustep src s (mkS (fun _ => false) m' (pcs s)).

Inductive ureachable (src : bytes) : state -> Prop :=
| ur_init m : ureachable src (mkS (fun _ => false) m (fun _ => Idle))
| ur_step s s' : ureachable src s -> ustep src s s' -> ureachable src s'.

Lemma reach_ureach src s : reachable src s -> ureachable src s.
Proof. induction 1; [apply ur_init | eapply ur_step; [eassumption | now apply u_step]]. Qed.

Theorem unlocked_evict_refuted_proof :
  exists s u, ureachable ex_src s /\ pcs s 0%nat = RDone 0 4 u /\ u 1 <> Some (ex_src 1).
Proof.
  destruct ex_reachable_filled as (s & u0 & Hr & Hpc & Hf).
  pose proof (r_step _ s _ Hr (s_return ex_src s 0%nat (or_introl (ex_intro _ 0 (ex_intro _ 4 (ex_intro _ u0 Hpc)))))) as R10.
  set (s1 := mkS (filled s) (media s) (upd (pcs s) 0%nat Idle)) in *.
  pose proof (r_step _ s1 _ R10 (s_start ex_src s1 0%nat 0 4 eq_refl ltac:(lia) ltac:(lia))) as R11.
  set (s2 := mkS (filled s1) (media s1) (upd (pcs s1) 0%nat (RStart 0 4))) in *.
  pose proof (r_step _ s2 _ R11 (s_rlock ex_src s2 0%nat 0 4 eq_refl)) as R12.
  set (s3 := mkS (filled s2) (media s2) (upd (pcs s2) 0%nat (RLocked 0 4))) in *.
  pose proof (r_step _ s3 _ R12 (s_query_hit ex_src s3 0%nat 0 4 eq_refl ltac:(intros x Hx; unfold inr in Hx; apply Hf; lia))) as R13.
  set (s4 := mkS (filled s3) (media s3) (upd (pcs s3) 0%nat (RHit 0 4))) in *.
  apply reach_ureach in R13.
  pose proof (ur_step _ s4 _ R13 (u_evict ex_src s4 (fun _ => 0))) as U14.
  set (s5 := mkS (fun _ => false) (fun _ : Z => 0) (pcs s4)) in *.
  pose proof (ur_step _ s5 _ U14 (u_step _ _ _ (s_media_read ex_src s5 0%nat 0 4 eq_refl))) as U15.
  eexists. eexists. split; [exact U15 |]. split; [reflexivity |]. cbn. discriminate.
Qed.
