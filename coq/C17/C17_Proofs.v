From Coq Require Import ZArith List Lia.
From PV Require Import C17.C17_Model.
Lemma placeholder : True. Proof. exact I. Qed.
