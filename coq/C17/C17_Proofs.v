(* C17_Proofs.v — the sequential read path: a read through the cache returns the source's bytes. *)
From Coq Require Import ZArith List Lia Bool.
From PV Require Import C17.C17_Model C17.C17_Lists C17.C17_RM_Proofs.
Import ListNotations.
Local Open Scope Z_scope.

Definition AllOk (l : list outcome) : Prop := Forall (fun o => o = OOk) l.

Lemma pop_allok l : AllOk l -> fst (pop l) = OOk /\ AllOk (snd (pop l)).
Proof.
  intros H. destruct l as [| o t]; simpl; [split; [reflexivity | constructor] |].
  inversion H; subst. split; [reflexivity | assumption].
Qed.

Section ReadProofs.
  Variable src : list Z.
  Variable cfg : config.
  Hypothesis Hpage : 1 <= c_page cfg.
  Hypothesis Hunit : 1 <= c_unit cfg.
  Let S := zlen src.

  (* CacheConsistent: every byte the store believes cached is inside the media file, below the
     size the store knows, and equals the source byte *)
  Definition Consistent (st : store) : Prop :=
    forall x, covers (s_filled st) x ->
      0 <= x < zlen (s_media st) /\ x < s_actual st /\ getz (s_media st) x = getz src x.

  Definition Inv (st : store) : Prop :=
    WF (s_filled st) /\ Consistent st /\ 0 <= s_actual st <= S
    /\ (s_actual st mod c_page cfg <> 0 -> s_actual st = S).

  (* a buffer of refilled data waiting to be written: source bytes of a range inside the size *)
  Definition GoodData (st : store) (off : Z) (data : list Z) : Prop :=
    0 <= off /\ off + zlen data <= s_actual st
    /\ forall i, 0 <= i < zlen data -> getz data i = getz src (off + i).

  Definition PG (w : world) : Prop :=
    forall off data, In (off, data) (w_pending w) -> GoodData (w_st w) off data.

  (* ---------------------------------------------------------------- media write *)
  Definition wret (o : outcome) (len : Z) : Z :=
    match o with OOk => len | OShort n => Z.min (Z.max 0 n) len | OFail => -1 end.

  Lemma do_pwritev2_fields w off data :
    let w' := snd (do_pwritev2 w off data) in
    let st := w_st w in
    let m1 := if s_td st then s_media st else resize (s_media st) (s_actual st) in
    let ret := wret (fst (pop (w_wor w))) (zlen data) in
    w_st w' = mkStore (s_actual st)
                (if 0 <? ret then addRange (s_filled st) off (off + ret) else s_filled st)
                (if 0 <? ret then media_write m1 off (firstn (Z.to_nat ret) data) else m1)
                true (s_refilling st)
    /\ w_sor w' = w_sor w /\ w_ubuf w' = w_ubuf w /\ w_held w' = w_held w /\ w_pending w' = w_pending w.
  Proof.
    unfold do_pwritev2, wret. destruct (s_td (w_st w)); destruct (pop (w_wor w)) as [o rest]; cbn; repeat split; reflexivity.
  Qed.

  Lemma do_pwritev2_spec w off data :
    Inv (w_st w) -> GoodData (w_st w) off data ->
    let w' := snd (do_pwritev2 w off data) in
    Inv (w_st w') /\ s_actual (w_st w') = s_actual (w_st w) /\ s_refilling (w_st w') = s_refilling (w_st w)
    /\ w_sor w' = w_sor w /\ w_ubuf w' = w_ubuf w /\ w_held w' = w_held w /\ w_pending w' = w_pending w.
  Proof.
    intros (Hwf & Hcons & Hact & Hpg) (Hoff & Hfit & Hdata).
    destruct (do_pwritev2_fields w off data) as (Hst & Hsor & Hub & Hheld & Hpend).
    cbv zeta. rewrite Hst, Hsor, Hub, Hheld, Hpend. cbn [s_actual s_refilling].
    split; [| repeat split; reflexivity].
    set (st := w_st w) in *.
    set (m1 := if s_td st then s_media st else resize (s_media st) (s_actual st)).
    set (ret := wret (fst (pop (w_wor w))) (zlen data)).
    assert (Hm1 : forall y, covers (s_filled st) y -> 0 <= y < zlen m1 /\ getz m1 y = getz src y).
    { intros y Hy. destruct (Hcons y Hy) as (H1 & H2 & H3). unfold m1. destruct (s_td st); [tauto |].
      rewrite zlen_resize by lia. rewrite getz_resize by lia. tauto. }
    assert (Hret : ret <= zlen data).
    { unfold ret, wret. destruct (fst (pop (w_wor w))); pose proof (zlen_nonneg data); lia. }
    unfold Inv. cbn [s_filled s_media s_actual].
    destruct (Z.ltb_spec 0 ret) as [Hpos | Hpos].
    - destruct (addRange_spec (s_filled st) off (off + ret) Hwf ltac:(lia)) as [Hwf' Hcov'].
      split; [exact Hwf' |]. split; [| split; [lia | exact Hpg]].
      intros y Hy. cbn [s_filled s_media s_actual] in *. apply Hcov' in Hy.
      assert (Hzl : zlen (firstn (Z.to_nat ret) data) = ret) by (rewrite firstn_is_slice; apply zlen_slice; lia).
      assert (Hy0 : 0 <= y) by (destruct Hy as [Hy | Hy]; [destruct (Hm1 y Hy); lia | lia]).
      rewrite zlen_media_write by lia. rewrite getz_media_write by lia. rewrite Hzl.
      destruct (Z.leb_spec off y) as [Ha | Ha]; destruct (Z.ltb_spec y (off + ret)) as [Hb | Hb]; cbn [andb].
      + split; [lia |]. split; [lia |]. rewrite firstn_is_slice, getz_slice by lia. rewrite Hdata by lia. f_equal. lia.
      + destruct Hy as [Hy | Hy]; [| lia]. destruct (Hm1 y Hy) as [Hr Hg]. destruct (Hcons y Hy) as (H1 & H2 & H3).
        split; [lia |]. split; [lia | exact Hg].
      + destruct Hy as [Hy | Hy]; [| lia]. destruct (Hm1 y Hy) as [Hr Hg]. destruct (Hcons y Hy) as (H1 & H2 & H3).
        split; [lia |]. split; [lia | exact Hg].
      + destruct Hy as [Hy | Hy]; [| lia]. destruct (Hm1 y Hy) as [Hr Hg]. destruct (Hcons y Hy) as (H1 & H2 & H3).
        split; [lia |]. split; [lia | exact Hg].
    - split; [exact Hwf |]. split; [| split; [lia | exact Hpg]].
      intros y Hy. cbn [s_filled s_media s_actual] in *. destruct (Hm1 y Hy) as [Hr Hg]. destruct (Hcons y Hy) as (H1 & H2 & H3).
      split; [lia |]. split; [lia | exact Hg].
  Qed.

  (* ---------------------------------------------------------------- source read *)
  Lemma src_pread_spec w off len :
    0 <= off -> 0 <= len ->
    match src_pread src w off len with
    | (ret, data, w') =>
        w_st w' = w_st w /\ w_ubuf w' = w_ubuf w /\ w_held w' = w_held w /\ w_pending w' = w_pending w
        /\ zlen data <= len
        /\ (ret = -1 \/ (0 <= ret <= avail S off len /\ zlen data = ret
                         /\ forall i, 0 <= i < ret -> getz data i = getz src (off + i)))
        /\ (AllOk (w_sor w) -> ret = avail S off len /\ AllOk (w_sor w'))
    end.
  Proof.
    intros Hoff Hlen. unfold src_pread.
    destruct (pop (w_sor w)) as [o rest] eqn:Hpop. cbn [w_st w_ubuf w_held w_pending w_sor].
    fold S. set (av := avail S off len).
    set (ret := match o with OOk => av | OShort n => Z.min (Z.max 0 n) av | OFail => -1 end).
    assert (Hav : 0 <= av) by apply avail_range.
    assert (Hfit : 0 < av -> off + av <= S) by (unfold av, avail; lia).
    split; [reflexivity |]. split; [reflexivity |]. split; [reflexivity |]. split; [reflexivity |].
    assert (Hle0 : ret <= av) by (unfold ret; destruct o; lia).
    assert (Havl : av <= len) by (unfold av; apply avail_le; lia).
    split; [| split].
    - destruct (Z.ltb_spec ret 0); [cbn; lia |]. pose proof (zlen_slice_le src off ret ltac:(lia)). lia.
    - destruct (Z.ltb_spec ret 0) as [Hneg | Hnn].
      + left. unfold ret in *. destruct o; lia.
      + right. assert (Hle : ret <= av) by (unfold ret; destruct o; lia).
        split; [lia |]. destruct (Z.eq_dec ret 0) as [H0 | H0].
        * rewrite H0. split; [reflexivity | intros; lia].
        * split; [apply zlen_slice; fold S; lia | intros i Hi; apply getz_slice; lia].
    - intros Hok. apply pop_allok in Hok. rewrite Hpop in Hok. cbn in Hok. destruct Hok as [Ho Hr].
      split; [unfold ret; now rewrite Ho | exact Hr].
  Qed.

  (* ---------------------------------------------------------------- writing into the user buffer *)
  Lemma put_spec w pos data :
    0 <= pos -> pos + zlen data <= zlen (w_ubuf w) ->
    let w' := put w pos data in
    w_st w' = w_st w /\ w_sor w' = w_sor w /\ w_held w' = w_held w /\ w_pending w' = w_pending w
    /\ zlen (w_ubuf w') = zlen (w_ubuf w)
    /\ (forall i, pos <= i < pos + zlen data -> getz (w_ubuf w') i = getz data (i - pos))
    /\ (forall i, 0 <= i -> ~ (pos <= i < pos + zlen data) -> getz (w_ubuf w') i = getz (w_ubuf w) i).
  Proof.
    intros Hp Hfit. unfold put. cbn [w_st w_sor w_held w_pending w_ubuf]. pose proof (zlen_nonneg data).
    split; [reflexivity |]. split; [reflexivity |]. split; [reflexivity |]. split; [reflexivity |]. split; [| split].
    - rewrite zlen_splice by lia. lia.
    - intros i Hi. rewrite getz_splice by lia.
      destruct (Z.leb_spec pos i); destruct (Z.ltb_spec i (pos + zlen data)); cbn [andb]; try lia; try reflexivity.
    - intros i Hi Hn. rewrite getz_splice by lia.
      destruct (Z.leb_spec pos i); destruct (Z.ltb_spec i (pos + zlen data)); cbn [andb]; try lia; reflexivity.
  Qed.

  (* ---------------------------------------------------------------- hole query *)
  Lemma query_spec st off size :
    WF (s_filled st) -> 0 <= off -> 0 < size ->
    let q := query cfg st off size in
    (snd q = 0 /\ 0 <= fst q /\ forall x, off <= x < off + size -> covers (s_filled st) x)
    \/ (0 <= fst q < off + size /\ 0 < snd q).
  Proof.
    intros Hwf Hoff Hsize. unfold query.
    pose proof (queryRefillRange_spec (s_filled st) off (off + size) Hwf) as Hq. cbv zeta in Hq.
    set (h := queryRefillRange (s_filled st) off (off + size)) in *.
    destruct Hq as [[Heq Hall] | (Hlr & Ha & Hab & Hb & _)].
    - rewrite Heq. cbn. left. split; [reflexivity | split; [lia | exact Hall]].
    - assert (Hnz : (fst h =? 0) && (snd h =? 0) = false).
      { destruct (Z.eqb_spec (snd h) 0); [lia |]. apply andb_false_r. }
      rewrite Hnz. cbn [fst snd]. right.
      pose proof (align_down_bounds (fst h) (c_unit cfg) ltac:(lia) Hunit).
      pose proof (align_down_nonneg (fst h) (c_unit cfg) ltac:(lia)).
      pose proof (align_up_ge (snd h) (c_unit cfg) ltac:(lia) Hunit).
      lia.
  Qed.

  (* ---------------------------------------------------------------- try_preadv2 *)
  Definition Agree (ub : list Z) (lo hi off : Z) : Prop :=
    forall i, lo <= i < hi -> getz ub i = getz src (off + (i - lo)).

  Lemma try_preadv2_spec w lo hi off :
    Inv (w_st w) -> 0 <= lo -> lo < hi -> hi <= zlen (w_ubuf w) -> 0 <= off ->
    match try_preadv2 cfg w lo hi off with
    | (tr, w') =>
        w_st w' = w_st w /\ w_sor w' = w_sor w /\ w_held w' = w_held w /\ w_pending w' = w_pending w
        /\ zlen (w_ubuf w') = zlen (w_ubuf w)
        /\ (forall i, 0 <= i -> ~ (lo <= i < hi) -> getz (w_ubuf w') i = getz (w_ubuf w) i)
        /\ match tr with
           | THit n => n = hi - lo /\ Agree (w_ubuf w') lo hi off
           | TShort => True
           | TMiss roff rsize => w' = w /\ 0 <= roff < off + (hi - lo) /\ 0 < rsize
           end
    end.
  Proof.
    intros (Hwf & Hcons & Hact & Hpg) Hlo Hlh Hhi Hoff. unfold try_preadv2.
    destruct (query_spec (w_st w) off (hi - lo) Hwf Hoff ltac:(lia)) as [(Hq0 & Hq1 & Hall) | (Hq1 & Hq2)].
    - rewrite Hq0. destruct (Z.leb_spec 0 (fst (query cfg (w_st w) off (hi - lo)))); [| lia]. cbn [andb Z.eqb].
      set (media := s_media (w_st w)).
      assert (Hn : avail (zlen media) off (hi - lo) = hi - lo).
      { apply avail_full; [lia |]. destruct (Hcons (off + (hi - lo) - 1)) as (H1 & _); [apply Hall; lia |]. fold media in H1. lia. }
      rewrite Hn. rewrite Z.eqb_refl.
      assert (Hzl : zlen (slice media off (hi - lo)) = hi - lo).
      { apply zlen_slice; try lia. destruct (Hcons (off + (hi - lo) - 1)) as (H1 & _); [apply Hall; lia |]. fold media in H1. lia. }
      destruct (put_spec (add_log w (EvMedR off (hi - lo) (hi - lo))) lo (slice media off (hi - lo)))
        as (P1 & P2 & P3 & P4 & P5 & P6 & P7); [lia | cbn; rewrite Hzl; lia |].
      cbn [add_log w_st w_sor w_held w_pending w_ubuf] in *. rewrite Hzl in *.
      repeat split; try assumption.
      + intros i Hi Hn'. apply P7; [lia |]. lia.
      + intros i Hi. rewrite P6 by lia. rewrite getz_slice by lia.
        destruct (Hcons (off + (i - lo))) as (_ & _ & H3); [apply Hall; lia |]. exact H3.
    - destruct (Z.eqb_spec (snd (query cfg (w_st w) off (hi - lo))) 0) as [H0 | H0]; [lia |].
      rewrite andb_false_r. repeat split; try reflexivity; lia.
  Qed.

  (* ---------------------------------------------------------------- do_refill_range *)
  Definition Good (w : world) : Prop := Inv (w_st w) /\ PG w /\ w_held w = [].

  Lemma PG_transfer w w' :
    s_actual (w_st w') = s_actual (w_st w) -> w_pending w' = w_pending w -> PG w -> PG w'.
  Proof.
    intros Ha Hp H off data Hin. rewrite Hp in Hin. destruct (H off data Hin) as (H1 & H2 & H3).
    unfold GoodData. rewrite Ha. tauto.
  Qed.

  (* the three overlap cases, store.cpp:251-263 (text of the model, proved equal below) *)
  Definition refill_copy (w1 : world) (data : list Z) (roff rsize count lo hi offset : Z)
    : Z * world * Z * Z * Z :=
    if roff <=? offset then
      let rb := skipn (Z.to_nat (offset - roff)) data in
      let n := Z.min count (Z.min (zlen rb) (hi - lo)) in
      (n, put w1 lo (firstn (Z.to_nat n) rb), lo + n, hi, offset + n)
    else if offset + count <=? roff + rsize then
      let d := roff - offset in
      let tl := Z.max 0 (Z.min (count - d) ((hi - lo) - d)) in
      let n := Z.min (zlen data) tl in
      (n, put w1 (lo + d) (firstn (Z.to_nat n) data), lo, hi - n, offset)
    else (0, w1, lo, hi, offset).

  (* write-back and the re-read of the remainder, store.cpp:265-301 *)
  Definition refill_tail (sync : bool) (roff : Z) (data : list Z) (count : Z)
             (x : Z * world * Z * Z * Z) : rres * world :=
    let '(ret, w2, lo2, hi2, offset2) := x in
    let st2 := w_st w2 in
    let async := negb (ret =? 0) && negb sync && c_pool cfg && c_tp cfg
                 && (s_refilling st2 <? c_maxr cfg) in
    let w3 :=
      if async then
        mkW (mkStore (s_actual st2) (s_filled st2) (s_media st2) (s_td st2) (s_refilling st2 + 1))
            (w_sor w2) (w_wor w2) (w_ubuf w2) (w_held w2) (w_pending w2 ++ [(roff, data)]) (w_log w2)
      else snd (do_pwritev2 w2 roff data) in
    if negb (ret =? count) then
      let (tr, w4) := try_preadv2 cfg w3 lo2 hi2 offset2 in
      match tr with
      | THit _ => (RRet count, w4)
      | _ =>
          let '(r2, d2, w5) := src_pread src w4 offset2 (hi2 - lo2) in
          let w6 := put w5 lo2 d2 in
          if r2 + ret =? count then (RRet count, w6) else (RRet (-1), w6)
      end
    else (RRet count, w3).

  Lemma do_refill_unfold sync w roff rsize0 count asize lo hi offset :
    do_refill src cfg sync w roff rsize0 count asize lo hi offset =
    if c_pool cfg && negb sync && (c_thr cfg <=? s_refilling (w_st w)) then
      let '(ret, data, w1) := src_pread src w offset (hi - lo) in (RRet ret, put w1 lo data)
    else
    let rsize := if asize <? roff + rsize0 then asize - roff else rsize0 in
    if conflict (w_held w) roff rsize then (RAgain, run_holders src w)
    else if negb (asize =? s_actual (w_st w)) then (RAgain, w)
    else
    let '(ret0, data, w1) := src_pread src w roff rsize in
    if negb (ret0 =? rsize) then (RRet (-1), w1)
    else refill_tail sync roff data count (refill_copy w1 data roff rsize count lo hi offset).
  Proof.
    unfold do_refill, refill_tail, refill_copy.
    destruct (c_pool cfg && negb sync && (c_thr cfg <=? s_refilling (w_st w))); [reflexivity |].
    cbv zeta.
    destruct (conflict (w_held w) roff (if asize <? roff + rsize0 then asize - roff else rsize0)); [reflexivity |].
    destruct (negb (asize =? s_actual (w_st w))); [reflexivity |].
    destruct (src_pread src w roff (if asize <? roff + rsize0 then asize - roff else rsize0)) as [[ret0 data] w1].
    destruct (negb (ret0 =? (if asize <? roff + rsize0 then asize - roff else rsize0))); [reflexivity |].
    destruct (roff <=? offset); [reflexivity |].
    destruct (offset + count <=? roff + (if asize <? roff + rsize0 then asize - roff else rsize0)); reflexivity.
  Qed.

  (* what the copy step establishes: [lo2,hi2) is the part of the window still to be read, it
     stands for file offset offset2 = offset + (lo2 - lo), and everything else in the window
     already holds source bytes *)
  Definition Mid (w1 w2 : world) (ret lo2 hi2 offset2 count lo hi offset : Z) : Prop :=
    w_st w2 = w_st w1 /\ w_sor w2 = w_sor w1 /\ w_held w2 = w_held w1 /\ w_pending w2 = w_pending w1
    /\ zlen (w_ubuf w2) = zlen (w_ubuf w1)
    /\ (forall i, 0 <= i -> ~ (lo <= i < hi) -> getz (w_ubuf w2) i = getz (w_ubuf w1) i)
    /\ 0 <= ret <= count /\ lo <= lo2 /\ hi2 <= hi /\ hi2 - lo2 = count - ret
    /\ offset2 = offset + (lo2 - lo)
    /\ (forall i, lo <= i < hi -> ~ (lo2 <= i < hi2) -> getz (w_ubuf w2) i = getz src (offset + (i - lo))).

  Lemma refill_copy_spec w1 data roff rsize count lo hi offset :
    0 <= lo -> lo < hi -> hi <= zlen (w_ubuf w1) -> count = hi - lo ->
    0 <= offset -> 0 <= roff < offset + count -> 0 < rsize -> zlen data = rsize ->
    (forall i, 0 <= i < rsize -> getz data i = getz src (roff + i)) ->
    match refill_copy w1 data roff rsize count lo hi offset with
    | (ret, w2, lo2, hi2, offset2) => Mid w1 w2 ret lo2 hi2 offset2 count lo hi offset
    end.
  Proof.
    intros Hlo Hlh Hhi Hcount Hoff Hroff Hrs Hzl Hdata. unfold refill_copy.
    destruct (Z.leb_spec roff offset) as [Hc1 | Hc1].
    - (* refill buffer starts at or before the request *)
      set (k := offset - roff).
      set (rb := skipn (Z.to_nat k) data).
      assert (Hrb : zlen rb = Z.max 0 (rsize - k)).
      { unfold rb, zlen in *. rewrite skipn_length. lia. }
      set (n := Z.min count (Z.min (zlen rb) (hi - lo))).
      assert (Hn : 0 <= n <= count) by (unfold n; lia).
      assert (Hzn : zlen (firstn (Z.to_nat n) rb) = n).
      { destruct (Z.eq_dec n 0) as [Hn0 | Hn0]; [rewrite Hn0; reflexivity |].
        change (firstn (Z.to_nat n) rb) with (slice data k n). apply zlen_slice; unfold n, k in *; lia. }
      destruct (put_spec w1 lo (firstn (Z.to_nat n) rb)) as (P1 & P2 & P3 & P4 & P5 & P6 & P7); [lia | lia |].
      rewrite Hzn in *.
      unfold Mid. split; [exact P1 |]. split; [exact P2 |]. split; [exact P3 |]. split; [exact P4 |]. split; [exact P5 |].
      split; [intros i Hi Hni; apply P7; lia |].
      split; [lia |]. split; [lia |]. split; [lia |]. split; [lia |]. split; [lia |].
      intros i Hi Hni. rewrite P6 by lia.
      change (firstn (Z.to_nat n) rb) with (slice data k n). rewrite getz_slice by (unfold k; lia).
      rewrite Hdata by (unfold n, k in *; lia). f_equal. unfold k. lia.
    - destruct (Z.leb_spec (offset + count) (roff + rsize)) as [Hc2 | Hc2].
      + (* refill buffer covers the tail of the request *)
        set (d := roff - offset).
        set (tl := Z.max 0 (Z.min (count - d) (hi - lo - d))).
        set (n := Z.min (zlen data) tl).
        assert (Hd : 0 < d) by (unfold d; lia).
        assert (Hn : 0 <= n <= count - d) by (unfold n, tl; lia).
        assert (Hzn : zlen (firstn (Z.to_nat n) data) = n).
        { rewrite firstn_is_slice. apply zlen_slice; unfold n, tl in *; lia. }
        assert (Hdc : d < count) by (unfold d; lia).
        assert (Hneq : n = count - d) by (unfold n, tl; lia).
        destruct (put_spec w1 (lo + d) (firstn (Z.to_nat n) data)) as (P1 & P2 & P3 & P4 & P5 & P6 & P7); [lia | lia |].
        rewrite Hzn in *.
        unfold Mid. split; [exact P1 |]. split; [exact P2 |]. split; [exact P3 |]. split; [exact P4 |]. split; [exact P5 |].
        split; [intros i Hi Hni; apply P7; lia |].
        split; [lia |]. split; [lia |]. split; [lia |]. split; [lia |]. split; [lia |].
        intros i Hi Hni. rewrite P6 by lia.
        rewrite firstn_is_slice, getz_slice by lia. rewrite Hdata by lia. f_equal. unfold d. lia.
      + unfold Mid. repeat split; try reflexivity; try lia.
  Qed.


  (* the direct source read of the remainder, store.cpp:293-297 *)
  Definition fallback (w4 : world) (lo2 hi2 offset2 ret count : Z) : rres * world :=
    let '(r2, d2, w5) := src_pread src w4 offset2 (hi2 - lo2) in
    let w6 := put w5 lo2 d2 in
    if r2 + ret =? count then (RRet count, w6) else (RRet (-1), w6).

  Lemma fallback_spec w4 lo2 hi2 offset2 ret count :
    Good w4 -> 0 <= lo2 -> lo2 < hi2 -> hi2 <= zlen (w_ubuf w4) -> 0 <= offset2 ->
    hi2 - lo2 = count - ret -> offset2 + (hi2 - lo2) <= s_actual (w_st w4) ->
    match fallback w4 lo2 hi2 offset2 ret count with
    | (RAgain, _) => False
    | (RRet r, w') =>
        Good w' /\ w_st w' = w_st w4 /\ zlen (w_ubuf w') = zlen (w_ubuf w4)
        /\ (forall i, 0 <= i -> ~ (lo2 <= i < hi2) -> getz (w_ubuf w') i = getz (w_ubuf w4) i)
        /\ (r = -1 \/ (r = count /\ Agree (w_ubuf w') lo2 hi2 offset2))
        /\ (AllOk (w_sor w4) -> r = count /\ AllOk (w_sor w'))
    end.
  Proof.
    intros (Hinv & Hpg & Hheld) Hlo Hlh Hhi Hoff Hlen Hfit. unfold fallback.
    pose proof (src_pread_spec w4 offset2 (hi2 - lo2) Hoff ltac:(lia)) as Hs.
    destruct (src_pread src w4 offset2 (hi2 - lo2)) as [[r2 d2] w5].
    destruct Hs as (S1 & S2 & S3 & S4 & S5 & S6 & S7).
    destruct (put_spec w5 lo2 d2) as (P1 & P2 & P3 & P4 & P5 & P6 & P7); [lia | rewrite S2; lia |].
    assert (HG : Good (put w5 lo2 d2)).
    { unfold Good. rewrite P1, S1, P3, S3. split; [exact Hinv |]. split; [| exact Hheld].
      apply (PG_transfer w4); [now rewrite P1, S1 | now rewrite P4, S4 | exact Hpg]. }
    assert (Hact : s_actual (w_st w4) <= S) by (destruct Hinv as (_ & _ & ? & _); lia).
    destruct (Z.eqb_spec (r2 + ret) count) as [Heq | Hne].
    - split; [exact HG |]. split; [now rewrite P1, S1 |]. split; [now rewrite P5, S2 |].
      destruct S6 as [Hm1 | (Hr & Hz & Hd)]; [lia |].
      assert (Hr2 : r2 = hi2 - lo2) by lia.
      split; [intros i Hi Hni; rewrite P7 by lia; now rewrite S2 |].
      split.
      + right. split; [reflexivity |]. intros i Hi. rewrite P6 by lia. rewrite Hd by lia. f_equal.
      + intros Hok. destruct (S7 Hok) as [_ Hok']. split; [reflexivity |]. now rewrite P2.
    - split; [exact HG |]. split; [now rewrite P1, S1 |]. split; [now rewrite P5, S2 |].
      split; [intros i Hi Hni; rewrite P7 by lia; now rewrite S2 |].
      split; [now left |].
      intros Hok. destruct (S7 Hok) as [Hr _]. exfalso. apply Hne. rewrite Hr.
      rewrite avail_full by lia. lia.
  Qed.

  Lemma refill_tail_spec sync w1 roff data count ret w2 lo2 hi2 offset2 lo hi offset :
    Good w1 -> GoodData (w_st w1) roff data ->
    0 <= lo -> lo < hi -> hi <= zlen (w_ubuf w1) -> count = hi - lo ->
    0 <= offset -> offset + count <= s_actual (w_st w1) ->
    Mid w1 w2 ret lo2 hi2 offset2 count lo hi offset ->
    match refill_tail sync roff data count (ret, w2, lo2, hi2, offset2) with
    | (RAgain, _) => False
    | (RRet r, w') =>
        Good w' /\ s_actual (w_st w') = s_actual (w_st w1) /\ zlen (w_ubuf w') = zlen (w_ubuf w1)
        /\ (forall i, 0 <= i -> ~ (lo <= i < hi) -> getz (w_ubuf w') i = getz (w_ubuf w1) i)
        /\ (r = -1 \/ (r = count /\ Agree (w_ubuf w') lo hi offset))
        /\ (AllOk (w_sor w1) -> r = count /\ AllOk (w_sor w'))
    end.
  Proof.
    intros (Hinv & Hpg & Hheld) Hgd Hlo Hlh Hhi Hcount Hoff Hfit
           (M1 & M2 & M3 & M4 & M5 & M6 & M7 & M8 & M9 & M10 & M11 & M12).
    unfold refill_tail.
    set (st2 := w_st w2).
    set (async := negb (ret =? 0) && negb sync && c_pool cfg && c_tp cfg && (s_refilling st2 <? c_maxr cfg)).
    set (w3 := if async then
        mkW (mkStore (s_actual st2) (s_filled st2) (s_media st2) (s_td st2) (s_refilling st2 + 1))
            (w_sor w2) (w_wor w2) (w_ubuf w2) (w_held w2) (w_pending w2 ++ [(roff, data)]) (w_log w2)
      else snd (do_pwritev2 w2 roff data)).
    assert (H3 : Good w3 /\ s_actual (w_st w3) = s_actual (w_st w1) /\ w_ubuf w3 = w_ubuf w2 /\ w_sor w3 = w_sor w2).
    { unfold w3. destruct async.
      - cbn [w_st w_ubuf w_sor s_actual]. unfold st2. rewrite M1. split; [| repeat split; reflexivity].
        unfold Good. cbn [w_st w_held]. split; [| split; [| now rewrite M3]].
        + destruct Hinv as (I1 & I2 & I3 & I4). unfold Inv, Consistent. cbn [s_filled s_media s_actual]. tauto.
        + intros off d Hin. cbn [w_pending w_st] in *. unfold GoodData. cbn [s_actual].
          apply in_app_or in Hin. destruct Hin as [Hin | [Hin | []]].
          * rewrite M4 in Hin. exact (Hpg off d Hin).
          * inversion Hin; subst. exact Hgd.
      - destruct (do_pwritev2_spec w2 roff data) as (D1 & D2 & D3 & D4 & D5 & D6 & D7); [now rewrite M1 | now rewrite M1 |].
        cbv zeta in *. split; [| split; [now rewrite D2, M1 | split; assumption]].
        unfold Good. split; [exact D1 |]. split; [| now rewrite D6, M3].
        apply (PG_transfer w1); [now rewrite D2, M1 | now rewrite D7, M4 | exact Hpg]. }
    destruct H3 as (HG3 & HA3 & HU3 & HS3).
    clearbody w3.
    assert (HmidA : forall ub, (forall i, 0 <= i -> ~ (lo2 <= i < hi2) -> getz ub i = getz (w_ubuf w2) i) ->
                               Agree ub lo2 hi2 offset2 -> Agree ub lo hi offset).
    { intros ub Hout Hag i Hi. destruct (Z.lt_ge_cases i lo2) as [Ha | Ha]; [rewrite Hout by lia; apply M12; lia |].
      destruct (Z.lt_ge_cases i hi2) as [Hb | Hb]; [| rewrite Hout by lia; apply M12; lia].
      rewrite Hag by lia. f_equal. lia. }
    destruct (Z.eqb_spec ret count) as [Heq | Hne]; cbn [negb].
    - split; [exact HG3 |]. split; [exact HA3 |]. split; [now rewrite HU3 |].
      split; [intros i Hi Hni; rewrite HU3; now apply M6 |].
      split.
      + right. split; [reflexivity |]. apply HmidA; [intros; now rewrite HU3 |]. intros i Hi. lia.
      + intros Hok. split; [reflexivity |]. now rewrite HS3, M2.
    - assert (Hlh2 : lo2 < hi2) by lia.
      pose proof (try_preadv2_spec w3 lo2 hi2 offset2) as Ht.
      destruct (try_preadv2 cfg w3 lo2 hi2 offset2) as [tr w4].
      destruct Ht as (T1 & T2 & T3 & T4 & T5 & T6 & T7);
        [destruct HG3; assumption | lia | lia | rewrite HU3, M5; lia | lia |].
      assert (HG4 : Good w4).
      { destruct HG3 as (G1 & G2 & G3). unfold Good. rewrite T1, T3. split; [exact G1 |]. split; [| exact G3].
        apply (PG_transfer w3); [now rewrite T1 | exact T4 | exact G2]. }
      assert (Hfb : match fallback w4 lo2 hi2 offset2 ret count with
                    | (RAgain, _) => False
                    | (RRet r, w') =>
                        Good w' /\ s_actual (w_st w') = s_actual (w_st w1) /\ zlen (w_ubuf w') = zlen (w_ubuf w1)
                        /\ (forall i, 0 <= i -> ~ (lo <= i < hi) -> getz (w_ubuf w') i = getz (w_ubuf w1) i)
                        /\ (r = -1 \/ (r = count /\ Agree (w_ubuf w') lo hi offset))
                        /\ (AllOk (w_sor w1) -> r = count /\ AllOk (w_sor w'))
                    end).
      { pose proof (fallback_spec w4 lo2 hi2 offset2 ret count HG4) as Hf.
        destruct (fallback w4 lo2 hi2 offset2 ret count) as [[r |] w'].
        2:{ apply Hf; try lia; [rewrite T5, HU3, M5; lia | rewrite T1, HA3; lia]. }
        destruct Hf as (F1 & F2 & F3 & F4 & F5 & F6); try lia; [rewrite T5, HU3, M5; lia | rewrite T1, HA3; lia |].
        split; [exact F1 |]. split; [now rewrite F2, T1 |]. split; [now rewrite F3, T5, HU3 |].
        split; [intros i Hi Hni; rewrite F4 by lia; rewrite T6 by lia; rewrite HU3; now apply M6 |].
        split.
        - destruct F5 as [F5 | [F5 Hag]]; [now left | right]. split; [exact F5 |].
          apply HmidA; [| exact Hag]. intros i Hi Hni. rewrite F4 by lia. rewrite T6 by lia. now rewrite HU3.
        - intros Hok. apply F6. now rewrite T2, HS3, M2. }
      destruct tr as [n | | roff' rsize'].
      + destruct T7 as [Hn Hag].
        split; [exact HG4 |]. split; [now rewrite T1 |]. split; [now rewrite T5, HU3 |].
        split; [intros i Hi Hni; rewrite T6 by lia; rewrite HU3; now apply M6 |].
        split.
        * right. split; [reflexivity |]. apply HmidA; [| exact Hag]. intros i Hi Hni. rewrite T6 by lia. now rewrite HU3.
        * intros Hok. split; [reflexivity |]. now rewrite T2, HS3, M2.
      + exact Hfb.
      + exact Hfb.
  Qed.

  Lemma do_refill_spec sync w roff rsize0 count asize lo hi offset :
    Good w -> 0 <= lo -> lo < hi -> hi <= zlen (w_ubuf w) -> count = hi - lo ->
    asize = s_actual (w_st w) -> 0 <= offset -> offset + count <= asize ->
    0 <= roff < offset + count -> 0 < rsize0 ->
    match do_refill src cfg sync w roff rsize0 count asize lo hi offset with
    | (RAgain, _) => False
    | (RRet r, w') =>
        Good w' /\ s_actual (w_st w') = asize /\ zlen (w_ubuf w') = zlen (w_ubuf w)
        /\ (forall i, 0 <= i -> ~ (lo <= i < hi) -> getz (w_ubuf w') i = getz (w_ubuf w) i)
        /\ (r = -1 \/ (0 <= r <= count /\ Agree (w_ubuf w') lo (lo + r) offset))
        /\ (AllOk (w_sor w) -> r = count /\ AllOk (w_sor w'))
    end.
  Proof.
    intros HG Hlo Hlh Hhi Hcount Hasize Hoff Hfit Hroff Hrs0.
    pose proof HG as (Hinv & Hpg & Hheld).
    assert (HactS : asize <= S) by (destruct Hinv as (_ & _ & ? & _); lia).
    rewrite do_refill_unfold.
    destruct (c_pool cfg && negb sync && (c_thr cfg <=? s_refilling (w_st w))).
    - (* too many refills in flight: read the source directly, store.cpp:203-208 *)
      pose proof (src_pread_spec w offset (hi - lo) Hoff ltac:(lia)) as Hs.
      destruct (src_pread src w offset (hi - lo)) as [[ret data] w1].
      destruct Hs as (S1 & S2 & S3 & S4 & S5 & S6 & S7).
      destruct (put_spec w1 lo data) as (P1 & P2 & P3 & P4 & P5 & P6 & P7); [lia | rewrite S2; lia |].
      split.
      { unfold Good. rewrite P1, S1, P3, S3. split; [exact Hinv |]. split; [| exact Hheld].
        apply (PG_transfer w); [now rewrite P1, S1 | now rewrite P4, S4 | exact Hpg]. }
      split; [now rewrite P1, S1 |]. split; [now rewrite P5, S2 |].
      split; [intros i Hi Hni; rewrite P7 by lia; now rewrite S2 |].
      split.
      + destruct S6 as [Hm | (Hr & Hz & Hd)]; [now left | right].
        pose proof (avail_le S offset (hi - lo) ltac:(lia)).
        split; [lia |]. intros i Hi. rewrite P6 by lia. rewrite Hd by lia. f_equal.
      + intros Hok. destruct (S7 Hok) as [Hr Hok']. split; [| now rewrite P2].
        rewrite Hr. rewrite avail_full by lia. lia.
    - cbv zeta.
      set (rsize := if asize <? roff + rsize0 then asize - roff else rsize0).
      assert (Hrs : 0 < rsize /\ roff + rsize <= asize).
      { unfold rsize. destruct (Z.ltb_spec asize (roff + rsize0)); lia. }
      rewrite Hheld. cbn [conflict existsb].
      replace (asize =? s_actual (w_st w)) with true by (symmetry; apply Z.eqb_eq; exact Hasize). cbn [negb].
      pose proof (src_pread_spec w roff rsize ltac:(lia) ltac:(lia)) as Hs.
      destruct (src_pread src w roff rsize) as [[ret0 data] w1].
      destruct Hs as (S1 & S2 & S3 & S4 & S5 & S6 & S7).
      assert (HG1 : Good w1).
      { unfold Good. rewrite S1, S3. split; [exact Hinv |]. split; [| exact Hheld].
        apply (PG_transfer w); [now rewrite S1 | exact S4 | exact Hpg]. }
      destruct (Z.eqb_spec ret0 rsize) as [Heq | Hne]; cbn [negb].
      + destruct S6 as [Hm | (Hr & Hz & Hd)]; [lia |].
        pose proof (refill_copy_spec w1 data roff rsize count lo hi offset Hlo Hlh ltac:(rewrite S2; lia) Hcount Hoff Hroff
                      ltac:(lia) ltac:(lia) ltac:(intros i Hi; apply Hd; lia)) as Hmid.
        destruct (refill_copy w1 data roff rsize count lo hi offset) as [[[[ret w2] lo2] hi2] offset2].
        pose proof (refill_tail_spec sync w1 roff data count ret w2 lo2 hi2 offset2 lo hi offset HG1) as Ht.
        destruct (refill_tail sync roff data count (ret, w2, lo2, hi2, offset2)) as [[r |] w'].
        2:{ apply Ht; try assumption; try lia; [| rewrite S2; lia | rewrite S1; lia].
            unfold GoodData. rewrite S1. split; [lia |]. split; [lia |]. intros i Hi. apply Hd. lia. }
        destruct Ht as (T1 & T2 & T3 & T4 & T5 & T6); try assumption; try lia; [| rewrite S2; lia | rewrite S1; lia |].
        { unfold GoodData. rewrite S1. split; [lia |]. split; [lia |]. intros i Hi. apply Hd. lia. }
        split; [exact T1 |]. split; [now rewrite T2, S1 |]. split; [now rewrite T3, S2 |].
        split; [intros i Hi Hni; rewrite T4 by lia; now rewrite S2 |].
        split.
        * destruct T5 as [T5 | [T5 Hag]]; [now left | right]. split; [lia |]. rewrite T5.
          replace (lo + count) with hi by lia. exact Hag.
        * intros Hok. destruct (S7 Hok) as [_ Hok']. exact (T6 Hok').
      + split; [exact HG1 |]. split; [now rewrite S1 |]. split; [now rewrite S2 |].
        split; [intros i Hi Hni; now rewrite S2 |].
        split; [now left |].
        intros Hok. destruct (S7 Hok) as [Hr _]. exfalso. apply Hne. rewrite Hr. apply avail_full; lia.
  Qed.

  (* ---------------------------------------------------------------- tryget_size *)
  Lemma tryget_size_spec w :
    Good w ->
    match tryget_size src cfg w with
    | (r, w') =>
        w_ubuf w' = w_ubuf w
        /\ ((r = 0 /\ Good w' /\ s_actual (w_st w) <= s_actual (w_st w')
             /\ (s_actual (w_st w') = S \/ w' = w))
            \/ (r = -1 /\ Good w' /\ s_actual (w_st w') = s_actual (w_st w)))
        /\ (r = 0 -> s_actual (w_st w') = S)
        /\ (AllOk (w_sor w) -> r = 0 /\ AllOk (w_sor w'))
    end.
  Proof.
    intros HG. pose proof HG as ((Hwf & Hcons & Hact & Hpgsz) & Hpg & Hheld). unfold tryget_size.
    destruct (Z.eqb_spec (s_actual (w_st w) mod c_page cfg) 0) as [Hal | Hal]; cbn [negb].
    - destruct (pop (w_sor w)) as [o rest] eqn:Hpop.
      assert (Hok : AllOk (w_sor w) -> o = OOk /\ AllOk rest).
      { intros H. apply pop_allok in H. rewrite Hpop in H. exact H. }
      set (st1 := mkStore (if s_actual (w_st w) <? zlen src then zlen src else s_actual (w_st w))
                          (s_filled (w_st w)) (s_media (w_st w)) (s_td (w_st w)) (s_refilling (w_st w))).
      assert (Hst1 : s_actual st1 = S).
      { unfold st1. cbn [s_actual]. fold S. destruct (Z.ltb_spec (s_actual (w_st w)) S); lia. }
      assert (HG1 : forall l, Good (mkW st1 rest (w_wor w) (w_ubuf w) (w_held w) (w_pending w) l)).
      { intros l. unfold Good. cbn [w_st w_held]. split; [| split; [| exact Hheld]].
        - unfold Inv. rewrite Hst1. unfold st1. cbn [s_filled]. split; [exact Hwf |]. split; [| split; [lia | tauto]].
          intros x Hx. cbn [s_filled s_media s_actual] in *. destruct (Hcons x Hx) as (H1 & H2 & H3).
          split; [exact H1 |]. split; [| exact H3]. fold S. destruct (Z.ltb_spec (s_actual (w_st w)) S); lia.
        - intros off d Hin. cbn [w_pending w_st] in *. destruct (Hpg off d Hin) as (H1 & H2 & H3).
          unfold GoodData. rewrite Hst1. split; [exact H1 |]. split; [lia | exact H3]. }
      destruct o.
      + cbn [w_ubuf w_st w_sor]. split; [reflexivity |]. split.
        { left. split; [reflexivity |]. split; [apply HG1 |]. rewrite Hst1. split; [lia | now left]. }
        split; [intros _; exact Hst1 |]. intros H. destruct (Hok H). tauto.
      + cbn [w_ubuf w_st w_sor]. split; [reflexivity |]. split.
        { left. split; [reflexivity |]. split; [apply HG1 |]. rewrite Hst1. split; [lia | now left]. }
        split; [intros _; exact Hst1 |]. intros H. destruct (Hok H). discriminate.
      + cbn [w_ubuf w_st w_sor]. split; [reflexivity |]. split.
        { right. split; [reflexivity |]. split; [| reflexivity]. unfold Good. cbn [w_st w_held]. split; [exact (conj Hwf (conj Hcons (conj Hact Hpgsz))) |]. split; [| exact Hheld].
          intros off d Hin. exact (Hpg off d Hin). }
        split; [intros; lia |]. intros H. destruct (Hok H). discriminate.
    - split; [reflexivity |]. split.
      { left. split; [reflexivity |]. split; [exact HG |]. split; [lia | now right]. }
      split; [intros _; now apply Hpgsz |]. intros H. split; [reflexivity | exact H].
  Qed.

  (* ---------------------------------------------------------------- preadv2 *)
  Definition full (offset vsize : Z) : Z := Z.max 0 (Z.min vsize (S - offset)).

  Definition ReadPost (w : world) (offset vsize : Z) (co : bool) (r : Z) (w' : world) : Prop :=
    Good w' /\ zlen (w_ubuf w') = zlen (w_ubuf w)
    /\ s_actual (w_st w) <= s_actual (w_st w')
    /\ (forall i, full offset vsize <= i -> getz (w_ubuf w') i = getz (w_ubuf w) i)
    /\ (r = -1 \/ (0 <= r <= full offset vsize /\ Agree (w_ubuf w') 0 r offset))
    /\ (AllOk (w_sor w) -> co = false -> r = full offset vsize)
    /\ (AllOk (w_sor w) -> AllOk (w_sor w')).

  Lemma preadv2_loop_spec fuel co sync w offset vsize :
    Good w -> zlen (w_ubuf w) = vsize -> 0 <= offset -> 0 < vsize ->
    (s_actual (w_st w) = S \/ offset + vsize <= s_actual (w_st w)) ->
    match preadv2_loop src cfg (Datatypes.S fuel) co sync w offset vsize with
    | (r, w') => ReadPost w offset vsize co r w'
    end.
  Proof.
    intros HG Hub Hoff Hvs Hsz. pose proof HG as (Hinv & Hpg & Hheld).
    assert (HactS : 0 <= s_actual (w_st w) <= S) by (destruct Hinv as (_ & _ & ? & _); lia).
    cbn [preadv2_loop]. set (asize := s_actual (w_st w)) in *.
    destruct (Z.leb_spec asize offset) as [Hle | Hgt].
    - assert (Hf : full offset vsize = 0) by (unfold full; lia).
      unfold ReadPost. rewrite Hf. split; [exact HG |]. split; [reflexivity |]. split; [lia |]. split; [reflexivity |].
      split; [right; split; [lia | intros i Hi; lia] |]. split; [reflexivity | tauto].
    - set (iov := if asize <? offset + vsize then asize - offset else vsize).
      assert (Hiov : iov = full offset vsize /\ 0 < iov /\ offset + iov <= asize).
      { unfold iov, full. destruct (Z.ltb_spec asize (offset + vsize)); lia. }
      destruct Hiov as (Hif & Hipos & Hifit).
      pose proof (try_preadv2_spec w 0 iov offset Hinv ltac:(lia) Hipos ltac:(unfold iov in *; destruct (Z.ltb_spec asize (offset + vsize)); lia) Hoff) as Ht.
      assert (Hcommon : forall tr w1, (tr, w1) = try_preadv2 cfg w 0 iov offset ->
                 Good w1 /\ s_actual (w_st w1) = asize).
      { intros tr w1 E. rewrite <- E in Ht. destruct Ht as (T1 & T2 & T3 & T4 & _).
        split; [| now rewrite T1]. unfold Good. rewrite T1, T3. split; [exact Hinv |]. split; [| exact Hheld].
        apply (PG_transfer w); [now rewrite T1 | exact T4 | exact Hpg]. }
      destruct co.
      + destruct (try_preadv2 cfg w 0 iov offset) as [tr w1] eqn:E.
        destruct (Hcommon tr w1 eq_refl) as [HG1 Ha1].
        destruct Ht as (T1 & T2 & T3 & T4 & T5 & T6 & T7).
        unfold ReadPost; rewrite <- Hif. destruct tr as [n | | roff rsize];
          (split; [exact HG1 |]); (split; [exact T5 |]); (split; [fold asize; lia |]);
          (split; [intros i Hi; apply T6; lia |]); (split; [| split; [intros; discriminate | now rewrite T2]]).
        * destruct T7 as [Hn Hag]. right. split; [lia |]. rewrite Hn. replace (iov - 0) with iov by lia.
          intros i Hi. rewrite Hag by lia. f_equal.
        * now left.
        * now left.
      + destruct (try_preadv2 cfg w 0 iov offset) as [tr w1] eqn:E.
        destruct (Hcommon tr w1 eq_refl) as [HG1 Ha1].
        destruct Ht as (T1 & T2 & T3 & T4 & T5 & T6 & T7).
        destruct tr as [n | | roff rsize].
        * unfold ReadPost; rewrite <- Hif. split; [exact HG1 |]. split; [exact T5 |]. split; [fold asize; lia |].
          split; [intros i Hi; apply T6; lia |].
          destruct T7 as [Hn Hag]. split.
          -- right. split; [lia |]. rewrite Hn. replace (iov - 0) with iov by lia.
             intros i Hi. rewrite Hag by lia. f_equal.
          -- split; [intros _ _; lia | now rewrite T2].
        * (* the media file is shorter than the filled map says: direct source read *)
          pose proof (src_pread_spec w1 offset iov Hoff ltac:(lia)) as Hs.
          destruct (src_pread src w1 offset iov) as [[r d] w2].
          destruct Hs as (S1 & S2 & S3 & S4 & S5 & S6 & S7).
          destruct (put_spec w2 0 d) as (P1 & P2 & P3 & P4 & P5 & P6 & P7); [lia | rewrite S2, T5; unfold iov in *; destruct (Z.ltb_spec asize (offset + vsize)); lia |].
          unfold ReadPost; rewrite <- Hif. split.
          { destruct HG1 as (G1 & G2 & G3). unfold Good. rewrite P1, S1, P3, S3. split; [exact G1 |]. split; [| exact G3].
            apply (PG_transfer w1); [now rewrite P1, S1 | now rewrite P4, S4 | exact G2]. }
          split; [now rewrite P5, S2, T5 |]. split; [rewrite P1, S1, Ha1; fold asize; lia |].
          split; [intros i Hi; rewrite P7 by lia; rewrite S2; apply T6; lia |].
          split.
          -- destruct S6 as [Hm | (Hr & Hz & Hd)]; [now left | right].
             pose proof (avail_le S offset iov ltac:(lia)). split; [lia |].
             intros i Hi. rewrite P6 by lia. rewrite Hd by lia. f_equal; lia.
          -- split.
             ++ intros Hok _. rewrite <- T2 in Hok. destruct (S7 Hok) as [Hr _]. rewrite Hr. apply avail_full; lia.
             ++ intros Hok. rewrite <- T2 in Hok. destruct (S7 Hok) as [_ Hr]. now rewrite P2.
        * destruct T7 as (Hw1 & Hro & Hrs). subst w1.
          pose proof (do_refill_spec sync w roff rsize iov asize 0 iov offset HG ltac:(lia) Hipos
                        ltac:(unfold iov in *; destruct (Z.ltb_spec asize (offset + vsize)); lia)
                        ltac:(lia) eq_refl Hoff Hifit ltac:(lia) Hrs) as Hr.
          destruct (do_refill src cfg sync w roff rsize iov asize 0 iov offset) as [[r |] w2]; [| contradiction].
          destruct Hr as (R1 & R2 & R3 & R4 & R5 & R6).
          unfold ReadPost; rewrite <- Hif. split; [exact R1 |]. split; [exact R3 |]. split; [fold asize; lia |].
          split; [intros i Hi; apply R4; lia |].
          split; [destruct R5 as [R5 | [R5 Hag]]; [now left | right; split; [lia | exact Hag]] |].
          split; [intros Hok _; now destruct (R6 Hok) | intros Hok; now destruct (R6 Hok)].
  Qed.

  Lemma ReadPost_ge w offset vsize co r w' :
    ReadPost w offset vsize co r w' -> r <> -2.
  Proof. intros (_ & _ & _ & _ & [H | [H _]] & _ & _); lia. Qed.

  Lemma preadv2_spec co sync w offset vsize :
    Good w -> zlen (w_ubuf w) = vsize -> 0 <= offset ->
    match preadv2 src cfg co sync w offset vsize with
    | (r, w') => ReadPost w offset vsize co r w'
    end.
  Proof.
    intros HG Hub Hoff. pose proof HG as (Hinv & Hpg & Hheld).
    assert (HactS : 0 <= s_actual (w_st w) <= S) by (destruct Hinv as (_ & _ & ? & _); lia).
    assert (Hvs : 0 <= vsize) by (rewrite <- Hub; apply zlen_nonneg).
    unfold preadv2. destruct (Z.ltb_spec offset 0); [lia |].
    destruct (Z.eqb_spec vsize 0) as [Hv0 | Hv0].
    { assert (Hf : full offset vsize = 0) by (unfold full; lia).
      unfold ReadPost. rewrite Hf. split; [exact HG |]. split; [reflexivity |]. split; [lia |]. split; [reflexivity |].
      split; [right; split; [lia | intros i Hi; lia] |]. split; [reflexivity | tauto]. }
    set (asize := s_actual (w_st w)) in *.
    destruct ((asize <=? offset) || (asize <? offset + vsize)) eqn:Hneed.
    - pose proof (tryget_size_spec w HG) as Hg.
      destruct (tryget_size src cfg w) as [r w1].
      destruct Hg as (G1 & G2 & G3 & G4).
      destruct (Z.eqb_spec r 0) as [Hr0 | Hr0]; cbn [negb].
      + destruct G2 as [(_ & HG1 & Hmono & _) | (Hm1 & _ & _)]; [| lia].
        pose proof (preadv2_loop_spec 3 co sync w1 offset vsize HG1 ltac:(now rewrite G1) Hoff ltac:(lia) (or_introl (G3 Hr0))) as Hl.
        destruct (preadv2_loop src cfg 4 co sync w1 offset vsize) as [r' w'].
        destruct Hl as (L1 & L2 & L3 & L4 & L5 & L6 & L7).
        unfold ReadPost. rewrite <- G1. split; [exact L1 |]. split; [exact L2 |]. split; [fold asize in Hmono; lia |].
        split; [exact L4 |]. split; [exact L5 |]. split.
        * intros Hok Hco. apply L6; [| exact Hco]. now destruct (G4 Hok).
        * intros Hok. apply L7. now destruct (G4 Hok).
      + destruct G2 as [(H0 & _) | (Hm1 & HG1 & Hsame)]; [lia |].
        unfold ReadPost. rewrite G1. split; [exact HG1 |]. split; [reflexivity |].
        split; [rewrite Hsame; lia |].
        split; [reflexivity |]. split; [now left |].
        split; [intros Hok _; destruct (G4 Hok); lia | intros Hok; now destruct (G4 Hok)].
    - apply orb_false_iff in Hneed. destruct Hneed as [H1 H2]. apply Z.leb_gt in H1. apply Z.ltb_ge in H2.
      exact (preadv2_loop_spec 3 co sync w offset vsize HG Hub Hoff ltac:(lia) (or_intror H2)).
  Qed.

  (* ---------------------------------------------------------------- async write-back *)
  Lemma drain_aux_spec ps : forall w,
    Inv (w_st w) -> (forall off data, In (off, data) ps -> GoodData (w_st w) off data) ->
    Inv (w_st (drain_aux w ps)) /\ s_actual (w_st (drain_aux w ps)) = s_actual (w_st w).
  Proof.
    induction ps as [| [off data] t IH]; intros w Hinv Hps; cbn [drain_aux].
    - split; [exact Hinv | reflexivity].
    - destruct (do_pwritev2_spec w off data Hinv (Hps off data (or_introl eq_refl))) as (D1 & D2 & _).
      cbv zeta in *.
      set (w1 := snd (do_pwritev2 w off data)) in *.
      set (w2 := set_st w1 (mkStore (s_actual (w_st w1)) (s_filled (w_st w1)) (s_media (w_st w1)) (s_td (w_st w1)) (s_refilling (w_st w1) - 1))).
      assert (Hinv2 : Inv (w_st w2)).
      { unfold w2, set_st. cbn [w_st]. destruct D1 as (I1 & I2 & I3 & I4). unfold Inv, Consistent. cbn [s_filled s_media s_actual]. tauto. }
      assert (Ha2 : s_actual (w_st w2) = s_actual (w_st w)) by (unfold w2, set_st; cbn [w_st s_actual]; exact D2).
      destruct (IH w2 Hinv2) as [J1 J2].
      { intros o d Hin. destruct (Hps o d (or_intror Hin)) as (H1 & H2 & H3). unfold GoodData. rewrite Ha2. tauto. }
      split; [exact J1 | now rewrite J2].
  Qed.

  Lemma drain_spec w : Good w -> Good (drain w) /\ s_actual (w_st (drain w)) = s_actual (w_st w).
  Proof.
    intros (Hinv & Hpg & Hheld). unfold drain.
    destruct (drain_aux_spec (w_pending w) w Hinv Hpg) as [J1 J2].
    cbn [w_st]. split; [| exact J2]. unfold Good. cbn [w_st w_held]. split; [exact J1 |]. split.
    - intros off data []. 
    - clear - Hheld. revert Hheld. generalize (w_pending w). intros ps. revert w.
      induction ps as [| [o d] t IH]; intros w Hheld; cbn [drain_aux]; [exact Hheld |].
      apply IH. unfold set_st. cbn [w_held]. destruct (do_pwritev2_fields w o d) as (_ & _ & _ & Hh & _). cbv zeta in Hh. now rewrite Hh.
  Qed.

  (* ---------------------------------------------------------------- eviction, truncate *)
  Hypothesis Hsize : S <= OFF_MAX.      (* the source size fits off_t *)

  Lemma evict_inv w off cnt :
    Inv (w_st w) -> 0 <= off -> -1 <= cnt ->
    Inv (w_st (evict cfg w off cnt)) /\ s_actual (w_st (evict cfg w off cnt)) = s_actual (w_st w)
    /\ w_held (evict cfg w off cnt) = w_held w /\ w_pending (evict cfg w off cnt) = w_pending w.
  Proof.
    intros Hinv Hoff Hcnt. pose proof Hinv as (Hwf & Hcons & Hact & Hpg). unfold evict.
    destruct (Z.eqb_spec cnt (-1)) as [Hc | Hc];
      [destruct (c_tne cfg && (zlen (s_media (w_st w)) <=? off)); [split; [exact Hinv | repeat split; reflexivity] |] |];
      unfold add_log, set_st; cbn [w_st w_held w_pending s_actual];
      (split; [| repeat split; reflexivity]); unfold Inv; cbn [s_filled s_media s_actual].
    - destruct (removeFrom_spec (s_filled (w_st w)) off Hwf) as [Hwf' Hcov'].
      split; [exact Hwf' |]. split; [| split; assumption].
      intros x Hx. cbn [s_filled s_media s_actual] in *.
      assert (Hx' : covers (s_filled (w_st w)) x /\ x < off).
      { destruct (Z.lt_ge_cases x OFF_MAX) as [Hlt | Hge]; [now apply Hcov' |].
        exfalso. unfold removeFrom in Hx.
        destruct (Z.lt_ge_cases off OFF_MAX) as [Ho | Ho].
        - destruct (removeRange_spec _ off OFF_MAX Hwf Ho) as [_ Hc2]. apply Hc2 in Hx. destruct Hx as [Hx _].
          destruct (Hcons x Hx) as (_ & ? & _). lia.
        - unfold removeRange in Hx. destruct (Z.leb_spec OFF_MAX off); [| lia]. destruct (Hcons x Hx) as (_ & ? & _). lia. }
      destruct Hx' as [Hx1 Hx2]. destruct (Hcons x Hx1) as (H1 & H2 & H3).
      rewrite zlen_resize by lia. rewrite getz_resize by lia. split; [lia |]. split; [lia | exact H3].
    - destruct (Z.lt_ge_cases off (off + cnt)) as [Hpos | Hzero].
      + destruct (removeRange_spec (s_filled (w_st w)) off (off + cnt) Hwf Hpos) as [Hwf' Hcov'].
        split; [exact Hwf' |]. split; [| split; assumption].
        intros x Hx. cbn [s_filled s_media s_actual] in *. apply Hcov' in Hx. destruct Hx as [Hx Hn].
        destruct (Hcons x Hx) as (H1 & H2 & H3).
        rewrite zlen_punch by lia. rewrite getz_punch_outside by lia. split; [lia |]. split; [lia | exact H3].
      + assert (cnt = 0) by lia. subst cnt. unfold removeRange. destruct (Z.leb_spec (off + 0) off); [| lia].
        unfold punch. replace (0 <? Z.max 0 (Z.min 0 (zlen (s_media (w_st w)) - off))) with false by (symmetry; apply Z.ltb_ge; lia).
        split; [exact Hwf |]. split; [exact Hcons |]. split; assumption.
  Qed.

  Lemma evict_all_inv w :
    Inv (w_st w) ->
    Inv (w_st (evict_all cfg w)) /\ s_actual (w_st (evict_all cfg w)) = s_actual (w_st w)
    /\ w_held (evict_all cfg w) = w_held w /\ w_pending (evict_all cfg w) = w_pending w.
  Proof.
    intros Hinv. unfold evict_all.
    destruct (evict_inv w 0 (-1) Hinv ltac:(lia) ltac:(lia)) as ((I1 & I2 & I3 & I4) & E2 & E3 & E4).
    unfold set_st. cbn [w_st w_held w_pending s_actual]. split; [| repeat split; assumption].
    unfold Inv, Consistent in *. cbn [s_filled s_media s_actual]. tauto.
  Qed.

  (* ---------------------------------------------------------------- prefetch (refill without a reader) *)
  Lemma do_refill_noinput_spec w roff rsize0 count asize :
    Good w -> asize = s_actual (w_st w) -> 0 <= roff < asize -> 0 < rsize0 ->
    match do_refill_noinput src w roff rsize0 count asize with
    | (RAgain, _) => False
    | (RRet r, w') => Good w' /\ s_actual (w_st w') = asize /\ (AllOk (w_sor w) -> AllOk (w_sor w'))
    end.
  Proof.
    intros HG Hasize Hroff Hrs0. pose proof HG as (Hinv & Hpg & Hheld).
    unfold do_refill_noinput.
    set (rsize := if asize <? roff + rsize0 then asize - roff else rsize0).
    assert (Hrs : 0 < rsize /\ roff + rsize <= asize).
    { unfold rsize. destruct (Z.ltb_spec asize (roff + rsize0)); lia. }
    rewrite Hheld. cbn [conflict existsb].
    replace (asize =? s_actual (w_st w)) with true by (symmetry; apply Z.eqb_eq; exact Hasize). cbn [negb].
    pose proof (src_pread_spec w roff rsize ltac:(lia) ltac:(lia)) as Hs.
    destruct (src_pread src w roff rsize) as [[ret0 data] w1].
    destruct Hs as (S1 & S2 & S3 & S4 & S5 & S6 & S7).
    assert (HG1 : Good w1).
    { unfold Good. rewrite S1, S3. split; [exact Hinv |]. split; [| exact Hheld].
      apply (PG_transfer w); [now rewrite S1 | exact S4 | exact Hpg]. }
    destruct (Z.eqb_spec ret0 rsize) as [Heq | Hne]; cbn [negb].
    - destruct S6 as [Hm | (Hr & Hz & Hd)]; [lia |].
      assert (Hgd : GoodData (w_st w1) roff data).
      { unfold GoodData. rewrite S1. split; [lia |]. split; [lia |]. intros i Hi. apply Hd. lia. }
      destruct HG1 as (I1 & P1 & H1).
      destruct (do_pwritev2_spec w1 roff data I1 Hgd) as (D1 & D2 & D3 & D4 & D5 & D6 & D7). cbv zeta in *.
      destruct (do_pwritev2 w1 roff data) as [wr w2]. cbn [snd] in *.
      assert (HG2 : Good w2).
      { unfold Good. split; [exact D1 |]. split; [| now rewrite D6].
        apply (PG_transfer w1); [exact D2 | exact D7 | exact P1]. }
      assert (Hsor : AllOk (w_sor w) -> AllOk (w_sor w2)) by (intros Hok; rewrite D4; now destruct (S7 Hok)).
      destruct (negb (wr =? rsize)); (split; [exact HG2 |]); (split; [now rewrite D2, S1 | exact Hsor]).
    - split; [exact HG1 |]. split; [now rewrite S1 |]. intros Hok. now destruct (S7 Hok).
  Qed.

  Lemma try_refill_loop_spec fuel w offset count0 :
    Good w -> 0 <= offset -> 0 < count0 ->
    match try_refill_loop src cfg (Datatypes.S fuel) w offset count0 with
    | (r, w') => Good w' /\ s_actual (w_st w') = s_actual (w_st w) /\ (AllOk (w_sor w) -> AllOk (w_sor w'))
    end.
  Proof.
    intros HG Hoff Hc. pose proof HG as (Hinv & Hpg & Hheld). cbn [try_refill_loop].
    set (asize := s_actual (w_st w)).
    destruct (Z.leb_spec asize offset); [split; [exact HG | split; [reflexivity | tauto]] |].
    set (count := if asize <? offset + count0 then asize - offset else count0).
    assert (Hcnt : 0 < count /\ offset + count <= asize) by (unfold count; destruct (Z.ltb_spec asize (offset + count0)); lia).
    destruct Hinv as (Hwf & Hrest).
    destruct (query_spec (w_st w) offset count Hwf Hoff ltac:(lia)) as [(Hq0 & Hq1 & _) | (Hq1 & Hq2)].
    - destruct (Z.ltb_spec (fst (query cfg (w_st w) offset count)) 0); [lia |]. rewrite Hq0. cbn [Z.eqb].
      split; [exact HG | split; [reflexivity | tauto]].
    - destruct (Z.ltb_spec (fst (query cfg (w_st w) offset count)) 0); [lia |].
      destruct (Z.eqb_spec (snd (query cfg (w_st w) offset count)) 0); [lia |].
      pose proof (do_refill_noinput_spec w (fst (query cfg (w_st w) offset count)) (snd (query cfg (w_st w) offset count)) count asize
                    HG eq_refl ltac:(lia) Hq2) as Hr.
      destruct (do_refill_noinput src w (fst (query cfg (w_st w) offset count)) (snd (query cfg (w_st w) offset count)) count asize) as [[r |] w1];
        [| contradiction].
      exact Hr.
  Qed.

  Lemma prefetch_spec w off cnt :
    Good w ->
    match prefetch src cfg w off cnt with
    | (r, w') => Good w' /\ s_actual (w_st w) <= s_actual (w_st w') /\ (AllOk (w_sor w) -> AllOk (w_sor w'))
    end.
  Proof.
    intros HG. unfold prefetch.
    set (offset1 := if off <? 0 then 0 else off).
    assert (H1 : 0 <= offset1) by (unfold offset1; destruct (Z.ltb_spec off 0); lia).
    set (pg := c_page cfg).
    set (offset := if negb (offset1 mod pg =? 0) then offset1 / pg * pg else offset1).
    assert (H2 : 0 <= offset).
    { unfold offset. destruct (negb (offset1 mod pg =? 0)); [| exact H1].
      apply Z.mul_nonneg_nonneg; [apply Z.div_pos; unfold pg; lia | unfold pg; lia]. }
    set (e := if negb ((offset1 + cnt) mod pg =? 0) then (offset1 + cnt + pg - 1) / pg * pg else offset1 + cnt).
    destruct (Z.leb_spec (e - offset) 0); [split; [exact HG | split; [lia | tauto]] |].
    destruct (Z.ltb_spec PREFETCH_BATCH (e - offset)); [split; [exact HG | split; [lia | tauto]] |].
    assert (Hres : match try_refill_range src cfg w offset (e - offset) with
                   | (r, w') => Good w' /\ s_actual (w_st w) <= s_actual (w_st w') /\ (AllOk (w_sor w) -> AllOk (w_sor w'))
                   end).
    { unfold try_refill_range.
      destruct ((s_actual (w_st w) <=? offset) || (s_actual (w_st w) <? offset + (e - offset))).
      - pose proof (tryget_size_spec w HG) as Hg. destruct (tryget_size src cfg w) as [r w1].
        destruct Hg as (G1 & G2 & G3 & G4).
        destruct (Z.eqb_spec r 0) as [Hr0 | Hr0]; cbn [negb].
        + destruct G2 as [(_ & HG1 & Hmono & _) | (Hm1 & _ & _)]; [| lia].
          pose proof (try_refill_loop_spec 3 w1 offset (e - offset) HG1 H2 ltac:(lia)) as Hl.
          destruct (try_refill_loop src cfg 4 w1 offset (e - offset)) as [r' w'].
          destruct Hl as (L1 & L2 & L3). split; [exact L1 |]. split; [lia |]. intros Hok. apply L3. now destruct (G4 Hok).
        + destruct G2 as [(Hz0 & _) | (Hm1 & HG1 & Hsame)]; [lia |].
          split; [exact HG1 |]. split; [lia |]. intros Hok. now destruct (G4 Hok).
      - pose proof (try_refill_loop_spec 3 w offset (e - offset) HG H2 ltac:(lia)) as Hl.
        destruct (try_refill_loop src cfg 4 w offset (e - offset)) as [r' w'].
        destruct Hl as (L1 & L2 & L3). split; [exact L1 |]. split; [lia | exact L3]. }
    destruct (try_refill_range src cfg w offset (e - offset)) as [ret w1].
    destruct (ret <? 0); exact Hres.
  Qed.

  (* ---------------------------------------------------------------- operation sequences *)
  Definition op_ok (o : op) : Prop :=
    match o with
    | OpRead off vsize held _ _ => 0 <= off /\ 0 <= vsize /\ held = []
    | OpEvict off cnt => 0 <= off /\ -1 <= cnt
    | OpEvictAll => True
    | OpPrefetch _ _ => True
    end.

  (* a world between two operations: nothing pending, no foreign lock *)
  Definition Idle (w : world) : Prop := Inv (w_st w) /\ w_pending w = [] /\ w_held w = [].

  (* what one read op delivers *)
  Definition read_ok (sor : list outcome) (off vsize : Z) (co : bool) (r : Z) (ub : list Z) : Prop :=
    zlen ub = vsize
    /\ (r = -1 \/ (0 <= r <= full off vsize /\ forall i, 0 <= i < r -> getz ub i = getz src (off + i)))
    /\ (forall i, full off vsize <= i < vsize -> getz ub i = 170)
    /\ (AllOk sor -> co = false -> r = full off vsize).

  Definition result_ok (sor : list outcome) (o : op) (res : Z * list Z * list event) : Prop :=
    match o with
    | OpRead off vsize _ co _ => read_ok sor off vsize co (fst (fst res)) (snd (fst res))
    | _ => True
    end.

  Lemma getz_repeat x n i : 0 <= i < Z.of_nat n -> getz (repeat x n) i = x.
  Proof.
    intros Hi. unfold getz. rewrite (nth_indep _ 0 x) by (rewrite repeat_length; lia). apply nth_repeat'.
  Qed.

  Lemma drain_aux_frame ps : forall w,
    w_ubuf (drain_aux w ps) = w_ubuf w /\ w_sor (drain_aux w ps) = w_sor w.
  Proof.
    induction ps as [| [o d] t IH]; intros w; cbn [drain_aux]; [split; reflexivity |].
    destruct (IH (set_st (snd (do_pwritev2 w o d))
                 (mkStore (s_actual (w_st (snd (do_pwritev2 w o d)))) (s_filled (w_st (snd (do_pwritev2 w o d))))
                          (s_media (w_st (snd (do_pwritev2 w o d)))) (s_td (w_st (snd (do_pwritev2 w o d))))
                          (s_refilling (w_st (snd (do_pwritev2 w o d))) - 1)))) as [I1 I2].
    rewrite I1, I2. unfold set_st. cbn [w_ubuf w_sor].
    destruct (do_pwritev2_fields w o d) as (_ & Hs & Hu & _). cbv zeta in *. split; assumption.
  Qed.

  Lemma run_op_spec w o :
    Idle w -> op_ok o ->
    match run_op src cfg w o with
    | (res, w') => Idle w' /\ s_actual (w_st w) <= s_actual (w_st w') /\ result_ok (w_sor w) o res
                   /\ (AllOk (w_sor w) -> AllOk (w_sor w'))
    end.
  Proof.
    intros (Hinv & Hpend & Hheld) Hok. destruct o as [off vsize held co sync | off cnt | | off cnt]; cbn [run_op op_ok] in *.
    - destruct Hok as (Hoff & Hvs & Hh). subst held. cbn [w_st w_sor w_wor].
      set (w1 := mkW (w_st w) (w_sor w) (w_wor w) (repeat 170 (Z.to_nat vsize)) [] [] []).
      assert (HG1 : Good w1).
      { unfold Good, w1. cbn [w_st w_held]. split; [exact Hinv |]. split; [intros ? ? [] | reflexivity]. }
      assert (Hub1 : zlen (w_ubuf w1) = vsize) by (unfold w1; cbn [w_ubuf]; rewrite zlen_repeat; lia).
      pose proof (preadv2_spec co sync w1 off vsize HG1 Hub1 Hoff) as Hp.
      destruct (preadv2 src cfg co sync w1 off vsize) as [r w2].
      destruct Hp as (R1 & R2 & R3 & R4 & R5 & R6 & R7).
      assert (HG2 : Good (add_log w2 (EvRet r))) by exact R1.
      destruct (drain_spec _ HG2) as [(D1 & D2 & D3) D4].
      destruct (drain_aux_frame (w_pending (add_log w2 (EvRet r))) (add_log w2 (EvRet r))) as [F1 F2].
      assert (Hub3 : w_ubuf (drain (add_log w2 (EvRet r))) = w_ubuf w2) by (unfold drain; cbn [w_ubuf]; exact F1).
      assert (Hsor3 : w_sor (drain (add_log w2 (EvRet r))) = w_sor w2) by (unfold drain; cbn [w_sor]; exact F2).
      cbn [fst snd w_st w_sor].
      split; [unfold Idle; cbn [w_st w_pending w_held]; split; [exact D1 | split; reflexivity] |].
      split; [rewrite D4; unfold add_log; cbn [w_st]; exact R3 |].
      split.
      + unfold result_ok, read_ok. cbn [fst snd]. rewrite Hub3.
        split; [now rewrite R2 |]. split; [| split].
        * destruct R5 as [R5 | [R5 Hag]]; [now left | right]. split; [exact R5 |].
          intros i Hi. rewrite Hag by lia. f_equal. lia.
        * intros i Hi. rewrite R4 by lia. unfold w1. cbn [w_ubuf]. apply getz_repeat. unfold full in Hi. lia.
        * exact R6.
      + rewrite Hsor3. exact R7.
    - destruct Hok as [Hoff Hcnt].
      set (w0 := mkW (w_st w) (w_sor w) (w_wor w) [] [] [] []).
      destruct (evict_inv w0 off cnt Hinv Hoff Hcnt) as (E1 & E2 & E3 & E4).
      cbn [fst snd]. split; [unfold Idle; split; [exact E1 | split; assumption] |].
      split; [rewrite E2; unfold w0; cbn [w_st]; lia |]. split; [exact I |].
      unfold evict. destruct (cnt =? -1); [destruct (c_tne cfg && (zlen (s_media (w_st w0)) <=? off)) |]; cbn [add_log set_st w_sor w0]; tauto.
    - set (w0 := mkW (w_st w) (w_sor w) (w_wor w) [] [] [] []).
      destruct (evict_all_inv w0 Hinv) as (E1 & E2 & E3 & E4).
      cbn [fst snd]. split; [unfold Idle; split; [exact E1 | split; assumption] |].
      split; [rewrite E2; unfold w0; cbn [w_st]; lia |]. split; [exact I |].
      unfold evict_all, evict. cbn [Z.eqb]. destruct (c_tne cfg && (zlen (s_media (w_st w0)) <=? 0)); cbn [add_log set_st w_sor w0]; tauto.
    - set (w0 := mkW (w_st w) (w_sor w) (w_wor w) [] [] [] []).
      assert (HG0 : Good w0).
      { unfold Good, w0. cbn [w_st w_held]. split; [exact Hinv |]. split; [intros ? ? [] | reflexivity]. }
      pose proof (prefetch_spec w0 off cnt HG0) as Hp.
      destruct (prefetch src cfg w0 off cnt) as [r w1]. destruct Hp as ((P1 & P2 & P3) & Hmono & Hsor).
      cbn [fst snd]. split; [unfold Idle; cbn [w_st w_pending w_held]; split; [exact P1 | split; reflexivity] |].
      split; [cbn [w_st]; unfold w0 in Hmono; cbn [w_st] in Hmono; exact Hmono |]. split; [exact I |].
      cbn [w_sor]. unfold w0 in Hsor. cbn [w_sor] in Hsor. exact Hsor.
  Qed.

  (* all results of a run: each read is correct for the oracle suffix it started with *)
  Fixpoint results_ok (w : world) (ops : list op) : Prop :=
    match ops with
    | [] => True
    | o :: t => result_ok (w_sor w) o (fst (run_op src cfg w o)) /\ results_ok (snd (run_op src cfg w o)) t
    end.

  Lemma run_ops_spec ops : forall w,
    Idle w -> Forall op_ok ops ->
    Idle (snd (run_ops src cfg w ops)) /\ results_ok w ops
    /\ s_actual (w_st w) <= s_actual (w_st (snd (run_ops src cfg w ops))).
  Proof.
    induction ops as [| o t IH]; intros w Hidle Hops; cbn [run_ops results_ok].
    - cbn [snd]. split; [exact Hidle | split; [exact I | lia]].
    - inversion Hops as [| ? ? Ho Ht]; subst.
      pose proof (run_op_spec w o Hidle Ho) as H1.
      destruct (run_op src cfg w o) as [res w1]. destruct H1 as (I1 & A1 & R1 & _).
      destruct (IH w1 I1 Ht) as (I2 & R2 & A2).
      destruct (run_ops src cfg w1 t) as [rs w2]. cbn [fst snd] in *.
      split; [exact I2 |]. split; [split; assumption | lia].
  Qed.
End ReadProofs.

(* ---------------------------------------------------------------- closed statements *)
(* read_returns_source + failed_source_read_no_wrong_bytes, for every source content, page
   size, refill unit (any integer >= 1, power of two or not), pool configuration, request,
   flags and every script of source-read / media-write outcomes. *)
Theorem read_returns_source_proof :
  forall (src : list Z) (cfg : config), 1 <= c_page cfg -> 1 <= c_unit cfg ->
  forall (co sync : bool) (w : world) (offset vsize : Z),
    Good src cfg w -> zlen (w_ubuf w) = vsize -> 0 <= offset ->
    match preadv2 src cfg co sync w offset vsize with
    | (r, w') => ReadPost src cfg w offset vsize co r w'
    end.
Proof. intros src cfg Hp Hu co sync w offset vsize. intros; apply preadv2_spec; assumption. Qed.

Theorem failed_source_read_no_wrong_bytes_proof :
  forall (src : list Z) (cfg : config), 1 <= c_page cfg -> 1 <= c_unit cfg ->
  forall (co sync : bool) (w : world) (offset vsize : Z),
    Good src cfg w -> zlen (w_ubuf w) = vsize -> 0 <= offset ->
    let r := fst (preadv2 src cfg co sync w offset vsize) in
    let w' := snd (preadv2 src cfg co sync w offset vsize) in
    (r = -1 \/ (0 <= r <= Z.max 0 (Z.min vsize (zlen src - offset))
               /\ forall i, 0 <= i < r -> getz (w_ubuf w') i = getz src (offset + i)))
    /\ Inv src cfg (w_st w') /\ Inv src cfg (w_st (drain w')).
Proof.
  intros src cfg Hp Hu co sync w offset vsize HG Hub Hoff.
  pose proof (preadv2_spec src cfg Hu co sync w offset vsize HG Hub Hoff) as H.
  destruct (preadv2 src cfg co sync w offset vsize) as [r w']. cbn [fst snd].
  destruct H as (R1 & R2 & R3 & R4 & R5 & R6 & R7).
  split.
  - destruct R5 as [R5 | [R5 Hag]]; [now left | right]. split; [exact R5 |].
    intros i Hi. rewrite Hag by lia. f_equal. lia.
  - split; [now destruct R1 |]. now destruct (drain_spec src cfg w' R1) as [[D _] _].
Qed.

(* consistent_preserved: every operation (a read with arbitrary fault script including its
   asynchronous write-back, a range eviction, a truncate, a whole-file eviction) maps an idle
   consistent store to an idle consistent store, and every read of the sequence is correct. *)
Theorem consistent_preserved_proof :
  forall (src : list Z) (cfg : config), 1 <= c_page cfg -> 1 <= c_unit cfg -> zlen src <= OFF_MAX ->
  forall (ops : list op) (w : world),
    Idle src cfg w -> Forall op_ok ops ->
    Idle src cfg (snd (run_ops src cfg w ops)) /\ results_ok src cfg w ops.
Proof.
  intros src cfg Hp Hu Hs ops w Hi Ho.
  destruct (run_ops_spec src cfg Hp Hu Hs ops w Hi Ho) as (H1 & H2 & _). split; assumption.
Qed.

(* a concrete non-trivial state meeting the hypotheses: 5-byte source, bytes 1..2 cached in a
   3-byte media file whose byte 0 is garbage, refill unit 4, page 4 *)
Definition ex_src : list Z := [11; 12; 13; 14; 15].
Definition ex_cfg : config := mkCfg 4 4 false false 128 4294967295 false.
Definition ex_world : world :=
  mkW (mkStore 5 [(1, 3)] [99; 12; 13] true 0) [] [] [170; 170; 170; 170] [] [] [].

Example ex_good : Good ex_src ex_cfg ex_world.
Proof.
  unfold Good, ex_world. cbn [w_st w_held]. split; [| split; [intros ? ? [] | reflexivity]].
  unfold Inv. cbn [s_filled s_media s_actual]. split; [exists 0; cbn; lia |]. split; [| split; [cbn; lia | intros _; reflexivity]].
  intros x (s & e & [Heq | []] & Hx). inversion Heq; subst. cbn [s_media s_actual s_filled].
  assert (Hc : x = 1 \/ x = 2) by lia. destruct Hc; subst; cbn; repeat split; lia.
Qed.

Example ex_idle : Idle ex_src ex_cfg ex_world.
Proof. destruct ex_good as (H & _ & _). split; [exact H | split; reflexivity]. Qed.

(* and the model really reads through it: request [0,4) of the example refills [0,4) and
   returns the four source bytes *)
Example ex_read :
  fst (preadv2 ex_src ex_cfg false false ex_world 0 4) = 4
  /\ w_ubuf (snd (preadv2 ex_src ex_cfg false false ex_world 0 4)) = [11; 12; 13; 14].
Proof. vm_compute. split; reflexivity. Qed.
