(* C17_Model.v — executable model of the cache read path.  Definitions only.

   Part 1  RangeModule (fs/cache/full_file_cache/range_module.h), the interval set that
           records which bytes of the media file are filled when fiemap is unavailable.
   Part 2  the store: FileCacheStore::{queryRefillRange(ByMap), do_preadv2, do_pwritev(2),
           evict, try_preadv2} (fs/cache/full_file_cache/cache_store.cpp) over an in-memory
           media file, and ICacheStore::{preadv2, try_preadv2, do_refill_range, tryget_size}
           (fs/cache/store.cpp 44-93, 201-338, 418-431).

   std::map<off_t,off_t> is a key-sorted association list (`imap`); `mset`/`merase` are
   insert-or-assign and erase by key.  An iterator is modelled by the list of nodes it will
   visit ("visit list", a snapshot taken when the loop starts): the loops of addRange /
   removeRange only erase the node under the iterator and insert nodes at keys that the
   iterator has already passed (key s) or at which the loop condition is false (key right),
   so walking the snapshot visits exactly the nodes the C++ iterator visits, with the same
   values.  off_t values are far from 2^63 in every caller except removeFrom's `max`,
   which is only compared, never added to; plain Z. *)
From Coq Require Import ZArith List Bool.
Import ListNotations.
Local Open Scope Z_scope.

(* ------------------------------------------------------------------------------------ *)
(* Part 1: RangeModule                                                                   *)
(* ------------------------------------------------------------------------------------ *)
Definition imap := list (Z * Z).          (* key = start, value = end (half-open) *)

(* intervals[k] = v *)
Fixpoint mset (m : imap) (k v : Z) : imap :=
  match m with
  | [] => [(k, v)]
  | (s, e) :: t => if k <? s then (k, v) :: m
                   else if k =? s then (k, v) :: t
                   else (s, e) :: mset t k v
  end.

(* intervals.erase(node with key k) *)
Fixpoint merase (m : imap) (k : Z) : imap :=
  match m with
  | [] => []
  | (s, e) :: t => if k =? s then t else (s, e) :: merase t k
  end.

(* The nodes from the loop's start iterator on:
     it = upper_bound(left); if (it != begin && QUAL(prev(it)->second)) --it;
   `qual` is `>= left` for addRange (range_module.h:36) and `> left` for removeRange (:49). *)
Fixpoint visit_from (qual : Z -> bool) (m : imap) (left : Z) : imap :=
  match m with
  | [] => []
  | (s, e) :: t =>
      if left <? s then m                       (* upper_bound is the first node: no prev *)
      else match t with
           | [] => if qual e then m else []     (* upper_bound = end(), prev = this node *)
           | (s2, _) :: _ =>
               if left <? s2 then (if qual e then m else t)
               else visit_from qual t left
           end
  end.

(* range_module.h:37-41 *)
Fixpoint add_loop (visit : imap) (m : imap) (left right : Z) : imap * Z * Z :=
  match visit with
  | [] => (m, left, right)
  | (s, e) :: t =>
      if s <=? right then add_loop t (merase m s) (Z.min left s) (Z.max right e)
      else (m, left, right)
  end.

(* range_module.h:33-43 *)
Definition addRange (m : imap) (left right : Z) : imap :=
  if right <=? left then m else
  let '(m1, l1, r1) := add_loop (visit_from (fun e => left <=? e) m left) m left right in
  mset m1 l1 r1.

(* range_module.h:50-55 *)
Fixpoint rem_loop (visit : imap) (m : imap) (left right : Z) : imap :=
  match visit with
  | [] => m
  | (s, e) :: t =>
      if s <? right then
        let m1 := merase m s in
        let m2 := if s <? left then mset m1 s left else m1 in
        let m3 := if right <? e then mset m2 right e else m2 in
        rem_loop t m3 left right
      else m
  end.

(* range_module.h:46-56 *)
Definition removeRange (m : imap) (left right : Z) : imap :=
  if right <=? left then m else
  rem_loop (visit_from (fun e => left <? e) m left) m left right.

Definition OFF_MAX : Z := 9223372036854775807.     (* numeric_limits<off_t>::max() *)
(* range_module.h:59-61 *)
Definition removeFrom (m : imap) (offset : Z) : imap := removeRange m offset OFF_MAX.

(* range_module.h:88-93 findContaining *)
Fixpoint find_containing (m : imap) (pos : Z) : option (Z * Z) :=
  match m with
  | [] => None
  | (s, e) :: t =>
      if pos <? s then None                     (* upper_bound == begin() *)
      else match t with
           | [] => if pos <? e then Some (s, e) else None
           | (s2, _) :: _ =>
               if pos <? s2 then (if pos <? e then Some (s, e) else None)
               else find_containing t pos
           end
  end.

(* range_module.h:71-80 *)
Definition queryRefillRange (m : imap) (left right : Z) : Z * Z :=
  if right <=? left then (0, 0) else
  let left1 := match find_containing m left with Some (_, e) => e | None => left end in
  if right <=? left1 then (0, 0) else
  let right1 := match find_containing m (right - 1) with
                | Some (s, _) => if left1 <? s then s else right
                | None => right
                end in
  (left1, right1).

(* operation language used by the correspondence run and by the all-sequences theorem *)
Inductive rm_op := RAdd (l r : Z) | RRemove (l r : Z) | RRemoveFrom (o : Z) | RClear.

Definition rm_apply (m : imap) (o : rm_op) : imap :=
  match o with
  | RAdd l r => addRange m l r
  | RRemove l r => removeRange m l r
  | RRemoveFrom x => removeFrom m x
  | RClear => []
  end.

Definition rm_run (ops : list rm_op) : imap := fold_left rm_apply ops [].

(* all intermediate states, for the line-by-line comparison *)
Fixpoint rm_trace (m : imap) (ops : list rm_op) : list imap :=
  match ops with
  | [] => []
  | o :: t => let m' := rm_apply m o in m' :: rm_trace m' t
  end.

(* ------------------------------------------------------------------------------------ *)
(* Part 2: the store and the read path                                                   *)
(* ------------------------------------------------------------------------------------ *)
(* Bytes are Z.  The user's iovec is modelled as one flat buffer (`w_ubuf`); IOVector
   operations (extract_front/back, slice, memcpy_to) are replaced by their flat-byte
   meaning (that is property C14); the harness drives the real code with every
   segmentation and the flat result is compared.  A window [lo,hi) of the user buffer
   stands for the IOVector `input`. *)

Definition zlen {A} (l : list A) : Z := Z.of_nat (length l).
Definition slice (l : list Z) (off n : Z) : list Z := firstn (Z.to_nat n) (skipn (Z.to_nat off) l).
Definition pad_to (l : list Z) (n : Z) : list Z := l ++ repeat 0 (Z.to_nat (n - zlen l)).
Definition splice (l : list Z) (pos : Z) (data : list Z) : list Z :=
  firstn (Z.to_nat pos) l ++ data ++ skipn (Z.to_nat pos + length data) l.
(* pwrite on a plain file: zero-fill the gap, overwrite, keep the rest *)
Definition media_write (m : list Z) (off : Z) (data : list Z) : list Z := splice (pad_to m off) off data.
(* ftruncate on a plain file *)
Definition resize (l : list Z) (n : Z) : list Z := firstn (Z.to_nat n) (pad_to l n).
(* fallocate(PUNCH_HOLE|KEEP_SIZE) *)
Definition punch (m : list Z) (off cnt : Z) : list Z :=
  let n := Z.max 0 (Z.min cnt (zlen m - off)) in
  if 0 <? n then splice m off (repeat 0 (Z.to_nat n)) else m.
(* bytes a plain-file pread(off,len) returns *)
Definition avail (size off len : Z) : Z := Z.max 0 (Z.min len (size - off)).

(* scripted outcome of one source call / one media write *)
Inductive outcome := OOk | OShort (n : Z) | OFail.
Definition pop (l : list outcome) : outcome * list outcome :=
  match l with [] => (OOk, []) | o :: t => (o, t) end.

Inductive event :=
| EvStat (ret : Z)                 (* source fstat: size or -1 *)
| EvSrc (off len ret : Z)          (* source preadv2 *)
| EvMedR (off len ret : Z)         (* media preadv *)
| EvMedW (off len ret : Z)         (* media pwritev *)
| EvMedT (len : Z)                 (* media ftruncate *)
| EvPunch (off len : Z)            (* media fallocate punch hole *)
| EvWait                           (* reader blocked on range_lock_; the scripted holders ran *)
| EvRet (ret : Z).                 (* preadv2 returned *)

Record store := mkStore {
  s_actual : Z;          (* ICacheStore::actual_size_ *)
  s_filled : imap;       (* FileCacheStore::filledRanges_ *)
  s_media : list Z;      (* content of the media file; its length is st_size *)
  s_td : bool;           (* lruEntry->truncate_done *)
  s_refilling : Z        (* pool_->m_refilling *)
}.

Record world := mkW {
  w_st : store;
  w_sor : list outcome;                 (* oracle for source calls, consumed in call order *)
  w_wor : list outcome;                 (* oracle for media writes *)
  w_ubuf : list Z;                      (* the user's buffer, flat *)
  w_held : list (Z * Z * bool);         (* range_lock_ entries of other threads (off,len,fills?) *)
  w_pending : list (Z * list Z);        (* async_refill contexts not yet run *)
  w_log : list event                    (* newest first *)
}.

Record config := mkCfg {
  c_page : Z;            (* page_size_ *)
  c_unit : Z;            (* refillUnit_ *)
  c_pool : bool;         (* pool_ != nullptr *)
  c_tp : bool;           (* pool_->m_thread_pool != nullptr *)
  c_maxr : Z;            (* pool_->m_max_refilling (== the function-static max_refilling) *)
  c_thr : Z;             (* pool_->m_refilling_threshold *)
  c_tne : bool           (* which FileCacheStore::evict is in the tree: true = a trim (count == -1) at or
                            beyond the media file's size returns 0 without touching the file
                            (repo_patches/C17-trim-no-extend.diff); false = it always ftruncate()s *)
}.

Definition set_st (w : world) (st : store) : world :=
  mkW st (w_sor w) (w_wor w) (w_ubuf w) (w_held w) (w_pending w) (w_log w).
Definition add_log (w : world) (e : event) : world :=
  mkW (w_st w) (w_sor w) (w_wor w) (w_ubuf w) (w_held w) (w_pending w) (e :: w_log w).
Definition put (w : world) (pos : Z) (data : list Z) : world :=
  mkW (w_st w) (w_sor w) (w_wor w) (splice (w_ubuf w) pos data) (w_held w) (w_pending w) (w_log w).

(* common/utility.h:229-237 *)
Definition align_down (x a : Z) : Z := Z.land x (Z.lnot (a - 1)).
Definition align_up (x a : Z) : Z := align_down (x + a - 1) a.

Inductive tres := THit (size : Z) | TShort | TMiss (off size : Z).
Inductive rres := RRet (ret : Z) | RAgain.

Section ReadPath.
  Variable src : list Z.       (* content of the source file; it does not change *)
  Variable cfg : config.

  (* scripted source IFile::preadv2 *)
  Definition src_pread (w : world) (off len : Z) : Z * list Z * world :=
    let (o, rest) := pop (w_sor w) in
    let av := avail (zlen src) off len in
    let ret := match o with OOk => av | OShort n => Z.min (Z.max 0 n) av | OFail => -1 end in
    let data := if ret <? 0 then [] else slice src off ret in
    (ret, data, mkW (w_st w) rest (w_wor w) (w_ubuf w) (w_held w) (w_pending w) (EvSrc off len ret :: w_log w)).

  (* FileCacheStore::do_pwritev2 -> do_pwritev, cache_store.cpp:72-106 (pool never full) *)
  Definition do_pwritev2 (w : world) (off : Z) (data : list Z) : Z * world :=
    let st := w_st w in
    let '(media1, log1) :=
      if s_td st then (s_media st, w_log w)
      else (resize (s_media st) (s_actual st), EvMedT (s_actual st) :: w_log w) in
    let (o, rest) := pop (w_wor w) in
    let len := zlen data in
    let ret := match o with OOk => len | OShort n => Z.min (Z.max 0 n) len | OFail => -1 end in
    let media2 := if 0 <? ret then media_write media1 off (firstn (Z.to_nat ret) data) else media1 in
    let filled2 := if 0 <? ret then addRange (s_filled st) off (off + ret) else s_filled st in
    (ret, mkW (mkStore (s_actual st) filled2 media2 true (s_refilling st))
              (w_sor w) rest (w_ubuf w) (w_held w) (w_pending w) (EvMedW off len ret :: log1)).

  (* FileCacheStore::queryRefillRange on the in-memory path, cache_store.cpp:108-113,218-228 *)
  Definition query (st : store) (off size : Z) : Z * Z :=
    let h := queryRefillRange (s_filled st) off (off + size) in
    if (fst h =? 0) && (snd h =? 0) then (0, 0) else
    let l := align_down (fst h) (c_unit cfg) in
    let r := align_up (snd h) (c_unit cfg) in
    (l, r - l).

  (* ICacheStore::try_preadv2, store.cpp:318-338 (inside FileCacheStore's read lock) *)
  Definition try_preadv2 (w : world) (lo hi offset : Z) : tres * world :=
    let sum := hi - lo in
    let q := query (w_st w) offset sum in
    if (0 <=? fst q) && (snd q =? 0) then
      let media := s_media (w_st w) in
      let n := avail (zlen media) offset sum in
      let w1 := put (add_log w (EvMedR offset sum n)) lo (slice media offset n) in
      if n =? sum then (THit n, w1) else (TShort, w1)
    else (TMiss (fst q) (snd q), w).

  (* RangeLock::try_lock_wait conflict test against the ranges other threads hold *)
  Definition overlaps (o l o2 l2 : Z) : bool := (o2 <? o + l) && (o <? o2 + l2).
  Definition conflict (held : list (Z * Z * bool)) (o l : Z) : bool :=
    existsb (fun h => match h with (o2, l2, _) => overlaps o l o2 l2 end) held.

  (* what happens while the reader waits: every scripted holder optionally writes the source
     bytes of its range into the cache (as a concurrent refiller does), then all unlock *)
  Fixpoint run_holders_aux (w : world) (hs : list (Z * Z * bool)) : world :=
    match hs with
    | [] => w
    | (o, l, fill) :: t =>
        let w1 := if fill then
                    let d := slice src o (avail (zlen src) o l) in
                    match d with [] => w | _ => snd (do_pwritev2 w o d) end
                  else w in
        run_holders_aux w1 t
    end.
  Definition run_holders (w : world) : world :=
    let w1 := run_holders_aux (add_log w EvWait) (w_held w) in
    mkW (w_st w1) (w_sor w1) (w_wor w1) (w_ubuf w1) [] (w_pending w1) (w_log w1).

  (* ICacheStore::do_refill_range with input != nullptr, store.cpp:201-302.
     [lo,hi) = input, hi-lo = count on entry. *)
  Definition do_refill (sync : bool) (w : world) (roff rsize0 count asize lo hi offset : Z) : rres * world :=
    let st := w_st w in
    if c_pool cfg && negb sync && (c_thr cfg <=? s_refilling st) then       (* 203-208 *)
      let '(ret, data, w1) := src_pread w offset (hi - lo) in
      (RRet ret, put w1 lo data)
    else
    let rsize := if asize <? roff + rsize0 then asize - roff else rsize0 in   (* 210 *)
    if conflict (w_held w) roff rsize then (RAgain, run_holders w)            (* 211-212 *)
    else if negb (asize =? s_actual st) then (RAgain, w)                      (* 217 *)
    else
    let '(ret0, data, w1) := src_pread w roff rsize in                        (* 237 *)
    if negb (ret0 =? rsize) then (RRet (-1), w1)                              (* 240-245 *)
    else
    let '(ret, w2, lo2, hi2, offset2) :=
      if roff <=? offset then                                                 (* 251-256 *)
        let rb := skipn (Z.to_nat (offset - roff)) data in
        let n := Z.min count (Z.min (zlen rb) (hi - lo)) in
        (n, put w1 lo (firstn (Z.to_nat n) rb), lo + n, hi, offset + n)
      else if offset + count <=? roff + rsize then                            (* 257-262 *)
        let d := roff - offset in
        let tl := Z.max 0 (Z.min (count - d) ((hi - lo) - d)) in
        let n := Z.min (zlen data) tl in
        (n, put w1 (lo + d) (firstn (Z.to_nat n) data), lo, hi - n, offset)
      else (0, w1, lo, hi, offset) in                                         (* 263 *)
    let st2 := w_st w2 in
    let async := negb (ret =? 0) && negb sync && c_pool cfg && c_tp cfg
                 && (s_refilling st2 <? c_maxr cfg) in                        (* 265-266 *)
    let w3 :=
      if async then                                                           (* 267-271 *)
        mkW (mkStore (s_actual st2) (s_filled st2) (s_media st2) (s_td st2) (s_refilling st2 + 1))
            (w_sor w2) (w_wor w2) (w_ubuf w2) (w_held w2) (w_pending w2 ++ [(roff, data)]) (w_log w2)
      else snd (do_pwritev2 w2 roff data) in                                  (* 273-283 *)
    if negb (ret =? count) then                                               (* 287-299 *)
      let (tr, w4) := try_preadv2 w3 lo2 hi2 offset2 in
      match tr with
      | THit _ => (RRet count, w4)
      | _ =>
          let '(r2, d2, w5) := src_pread w4 offset2 (hi2 - lo2) in
          let w6 := put w5 lo2 d2 in
          if r2 + ret =? count then (RRet count, w6) else (RRet (-1), w6)
      end
    else (RRet count, w3).

  (* ICacheStore::tryget_size, store.cpp:418-431 (truncated_ is never set; cached_size_ is
     always 0, so set_cached_size is a no-op) *)
  Definition tryget_size (w : world) : Z * world :=
    let st := w_st w in
    if negb (s_actual st mod c_page cfg =? 0) then (0, w)
    else
      let (o, rest) := pop (w_sor w) in
      match o with
      | OFail => (-1, mkW st rest (w_wor w) (w_ubuf w) (w_held w) (w_pending w) (EvStat (-1) :: w_log w))
      | _ =>
          let sz := zlen src in
          let st1 := mkStore (if s_actual st <? sz then sz else s_actual st)
                             (s_filled st) (s_media st) (s_td st) (s_refilling st) in
          (0, mkW st1 rest (w_wor w) (w_ubuf w) (w_held w) (w_pending w) (EvStat sz :: w_log w))
      end.

  (* store.cpp:58-92, the `again:` loop; -2 = fuel exhausted (never returned by the C++) *)
  Fixpoint preadv2_loop (fuel : nat) (co sync : bool) (w : world) (offset vsize : Z) : Z * world :=
    match fuel with
    | O => (-2, w)
    | S f =>
        let asize := s_actual (w_st w) in
        if asize <=? offset then (0, w) else
        let iov_size := if asize <? offset + vsize then asize - offset else vsize in
        if co then
          let (tr, w1) := try_preadv2 w 0 iov_size offset in
          match tr with THit n => (n, w1) | _ => (-1, w1) end
        else
          let (tr, w1) := try_preadv2 w 0 iov_size offset in
          match tr with
          | THit n => (n, w1)
          | TShort =>
              let '(r, d, w2) := src_pread w1 offset iov_size in (r, put w2 0 d)
          | TMiss roff rsize =>
              match do_refill sync w1 roff rsize iov_size asize 0 iov_size offset with
              | (RRet r, w2) => (r, w2)
              | (RAgain, w2) => preadv2_loop f co sync w2 offset vsize
              end
          end
    end.

  (* ICacheStore::preadv2, store.cpp:44-93 *)
  Definition preadv2 (co sync : bool) (w : world) (offset vsize : Z) : Z * world :=
    if offset <? 0 then (-1, w) else
    if vsize =? 0 then (0, w) else
    let asize := s_actual (w_st w) in
    let (r, w1) := if (asize <=? offset) || (asize <? offset + vsize) then tryget_size w else (0, w) in
    if negb (r =? 0) then (-1, w1) else preadv2_loop 4 co sync w1 offset vsize.

  (* ICacheStore::async_refill, store.cpp:181-199: the deferred media write *)
  Fixpoint drain_aux (w : world) (ps : list (Z * list Z)) : world :=
    match ps with
    | [] => w
    | (off, data) :: t =>
        let w1 := snd (do_pwritev2 w off data) in
        let st := w_st w1 in
        drain_aux (set_st w1 (mkStore (s_actual st) (s_filled st) (s_media st) (s_td st) (s_refilling st - 1))) t
    end.
  Definition drain (w : world) : world :=
    let w1 := drain_aux w (w_pending w) in
    mkW (w_st w1) (w_sor w1) (w_wor w1) (w_ubuf w1) (w_held w1) [] (w_log w1).

  (* FileCacheStore::evict, cache_store.cpp:182-202 *)
  Definition evict (w : world) (off cnt : Z) : world :=
    let st := w_st w in
    if cnt =? -1 then
      if c_tne cfg && (zlen (s_media st) <=? off) then w else
      add_log (set_st w (mkStore (s_actual st) (removeFrom (s_filled st) off) (resize (s_media st) off)
                                 (s_td st) (s_refilling st))) (EvMedT off)
    else
      add_log (set_st w (mkStore (s_actual st) (removeRange (s_filled st) off (off + cnt))
                                 (punch (s_media st) off cnt) (s_td st) (s_refilling st))) (EvPunch off cnt).

  (* FileCachePool::evictOpenedFile + finalizeEvicted on an open file, cache_pool.cpp:205-229:
     evict(0) under the store's write lock, then truncate_done = false *)
  Definition evict_all (w : world) : world :=
    let w1 := evict w 0 (-1) in
    let st := w_st w1 in
    set_st w1 (mkStore (s_actual st) (s_filled st) (s_media st) false (s_refilling st)).

  (* do_refill_range with input == nullptr (the prefetch path), store.cpp:201-302: no copy, always
     the inline write, a failed/short media write fails the call *)
  Definition do_refill_noinput (w : world) (roff rsize0 count asize : Z) : rres * world :=
    let st := w_st w in
    let rsize := if asize <? roff + rsize0 then asize - roff else rsize0 in
    if conflict (w_held w) roff rsize then (RAgain, run_holders w)
    else if negb (asize =? s_actual st) then (RAgain, w)
    else
    let '(ret0, data, w1) := src_pread w roff rsize in
    if negb (ret0 =? rsize) then (RRet (-1), w1)
    else
    let (wr, w2) := do_pwritev2 w1 roff data in
    if negb (wr =? rsize) then (RRet (-1), w2) else (RRet count, w2).

  (* ICacheStore::try_refill_range, store.cpp:141-169 *)
  Fixpoint try_refill_loop (fuel : nat) (w : world) (offset count0 : Z) : Z * world :=
    match fuel with
    | O => (-2, w)
    | S f =>
        let asize := s_actual (w_st w) in
        if asize <=? offset then (0, w) else
        let count := if asize <? offset + count0 then asize - offset else count0 in
        let q := query (w_st w) offset count in
        if fst q <? 0 then (-1, w)
        else if snd q =? 0 then (count, w)
        else match do_refill_noinput w (fst q) (snd q) count asize with
             | (RRet r, w1) => (r, w1)
             | (RAgain, w1) => try_refill_loop f w1 offset count
             end
    end.

  Definition try_refill_range (w : world) (offset count : Z) : Z * world :=
    let asize := s_actual (w_st w) in
    let (r, w1) := if (asize <=? offset) || (asize <? offset + count) then tryget_size w else (0, w) in
    if negb (r =? 0) then (-1, w1) else try_refill_loop 4 w1 offset count.

  (* ICacheStore::prefetch -> do_prefetch, pool_store.h:170-173, store.cpp:433-459, for requests whose
     page-aligned extent fits one batch (32 MiB): the loop body runs once; -3 = outside that guard *)
  Definition PREFETCH_BATCH : Z := 33554432.
  Definition prefetch (w : world) (offset0 count : Z) : Z * world :=
    let offset1 := if offset0 <? 0 then 0 else offset0 in
    let pg := c_page cfg in
    let e0 := offset1 + count in
    let offset := if negb (offset1 mod pg =? 0) then offset1 / pg * pg else offset1 in
    let e := if negb (e0 mod pg =? 0) then (e0 + pg - 1) / pg * pg else e0 in
    let remain := e - offset in
    if remain <=? 0 then (0, w)
    else if PREFETCH_BATCH <? remain then (-3, w)
    else
      let (ret, w1) := try_refill_range w offset remain in
      if ret <? 0 then (-1, w1) else (ret, w1).

  Inductive op :=
  | OpRead (off : Z) (vsize : Z) (held : list (Z * Z * bool)) (co sync : bool)
  | OpEvict (off cnt : Z)
  | OpEvictAll
  | OpPrefetch (off cnt : Z).

  (* result of one op: return value (0 for evictions), the user buffer, the event log in order *)
  Definition run_op (w : world) (o : op) : (Z * list Z * list event) * world :=
    let w0 := mkW (w_st w) (w_sor w) (w_wor w) [] [] [] [] in
    match o with
    | OpRead off vsize held co sync =>
        let w1 := mkW (w_st w0) (w_sor w0) (w_wor w0) (repeat 170 (Z.to_nat vsize)) held [] [] in
        let (r, w2) := preadv2 co sync w1 off vsize in
        let w3 := drain (add_log w2 (EvRet r)) in
        ((r, w_ubuf w3, rev (w_log w3)), mkW (w_st w3) (w_sor w3) (w_wor w3) [] [] [] [])
    | OpEvict off cnt =>
        let w1 := evict w0 off cnt in ((0, [], rev (w_log w1)), w1)
    | OpEvictAll =>
        let w1 := evict_all w0 in ((0, [], rev (w_log w1)), w1)
    | OpPrefetch off cnt =>
        let (r, w1) := prefetch w0 off cnt in
        ((r, [], rev (w_log w1)), mkW (w_st w1) (w_sor w1) (w_wor w1) [] [] [] [])
    end.

  Fixpoint run_ops (w : world) (ops : list op) : list (Z * list Z * list event) * world :=
    match ops with
    | [] => ([], w)
    | o :: t => let (r, w1) := run_op w o in let (rs, w2) := run_ops w1 t in (r :: rs, w2)
    end.
End ReadPath.

(* ICachePool::open creating a NEW store object for a media file that already exists
   (cache.cpp:77-92: set_actual_size(media st_size)) — after the store's TTL expired, or in a new
   pool instance over the same directory.  FileCacheStore's constructor rebuilds the filled map
   from the media file (cache_store.cpp:232-268, SEEK_DATA/SEEK_HOLE: kernel, not modelled; the
   ideal result — the same set — is assumed here); a new LruEntry has truncate_done = false. *)
Definition reopen (w : world) : world :=
  let st := w_st w in
  set_st w (mkStore (zlen (s_media st)) (s_filled st) (s_media st) false 0).
