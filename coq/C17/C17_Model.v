(* C17_Model.v — executable model of the cache read path.  Definitions only.

   Part 1  RangeModule (fs/cache/full_file_cache/range_module.h), the interval set that
           records which bytes of the media file are filled when fiemap is unavailable.
   Part 2  the store: FileCacheStore::{queryRefillRange(ByMap), do_preadv2, do_pwritev(2),
           evict, try_preadv2} (fs/cache/full_file_cache/cache_store.cpp) over an in-memory
           media file, and ICacheStore::{preadv2, try_preadv2, do_refill_range, tryget_size}
           (fs/cache/store.cpp 44-93, 201-338, 418-431).

   std::map<off_t,off_t> is a key-sorted association list (`imap`); `mset`/`merase` are
   insert-or-assign and erase by key.  An iterator is modelled by the list of nodes it will
   visit ("visit list", a snapshot taken when the loop starts): the loops of addRange /
   removeRange only erase the node under the iterator and insert nodes at keys that the
   iterator has already passed (key s) or at which the loop condition is false (key right),
   so walking the snapshot visits exactly the nodes the C++ iterator visits, with the same
   values.  off_t values are far from 2^63 in every caller except removeFrom's `max`,
   which is only compared, never added to; plain Z. *)
From Coq Require Import ZArith List Bool.
Import ListNotations.
Local Open Scope Z_scope.

(* ------------------------------------------------------------------------------------ *)
(* Part 1: RangeModule                                                                   *)
(* ------------------------------------------------------------------------------------ *)
Definition imap := list (Z * Z).          (* key = start, value = end (half-open) *)

(* intervals[k] = v *)
Fixpoint mset (m : imap) (k v : Z) : imap :=
  match m with
  | [] => [(k, v)]
  | (s, e) :: t => if k <? s then (k, v) :: m
                   else if k =? s then (k, v) :: t
                   else (s, e) :: mset t k v
  end.

(* intervals.erase(node with key k) *)
Fixpoint merase (m : imap) (k : Z) : imap :=
  match m with
  | [] => []
  | (s, e) :: t => if k =? s then t else (s, e) :: merase t k
  end.

(* The nodes from the loop's start iterator on:
     it = upper_bound(left); if (it != begin && QUAL(prev(it)->second)) --it;
   `qual` is `>= left` for addRange (range_module.h:36) and `> left` for removeRange (:49). *)
Fixpoint visit_from (qual : Z -> bool) (m : imap) (left : Z) : imap :=
  match m with
  | [] => []
  | (s, e) :: t =>
      if left <? s then m                       (* upper_bound is the first node: no prev *)
      else match t with
           | [] => if qual e then m else []     (* upper_bound = end(), prev = this node *)
           | (s2, _) :: _ =>
               if left <? s2 then (if qual e then m else t)
               else visit_from qual t left
           end
  end.

(* range_module.h:37-41 *)
Fixpoint add_loop (visit : imap) (m : imap) (left right : Z) : imap * Z * Z :=
  match visit with
  | [] => (m, left, right)
  | (s, e) :: t =>
      if s <=? right then add_loop t (merase m s) (Z.min left s) (Z.max right e)
      else (m, left, right)
  end.

(* range_module.h:33-43 *)
Definition addRange (m : imap) (left right : Z) : imap :=
  if right <=? left then m else
  let '(m1, l1, r1) := add_loop (visit_from (fun e => left <=? e) m left) m left right in
  mset m1 l1 r1.

(* range_module.h:50-55 *)
Fixpoint rem_loop (visit : imap) (m : imap) (left right : Z) : imap :=
  match visit with
  | [] => m
  | (s, e) :: t =>
      if s <? right then
        let m1 := merase m s in
        let m2 := if s <? left then mset m1 s left else m1 in
        let m3 := if right <? e then mset m2 right e else m2 in
        rem_loop t m3 left right
      else m
  end.

(* range_module.h:46-56 *)
Definition removeRange (m : imap) (left right : Z) : imap :=
  if right <=? left then m else
  rem_loop (visit_from (fun e => left <? e) m left) m left right.

Definition OFF_MAX : Z := 9223372036854775807.     (* numeric_limits<off_t>::max() *)
(* range_module.h:59-61 *)
Definition removeFrom (m : imap) (offset : Z) : imap := removeRange m offset OFF_MAX.

(* range_module.h:88-93 findContaining *)
Fixpoint find_containing (m : imap) (pos : Z) : option (Z * Z) :=
  match m with
  | [] => None
  | (s, e) :: t =>
      if pos <? s then None                     (* upper_bound == begin() *)
      else match t with
           | [] => if pos <? e then Some (s, e) else None
           | (s2, _) :: _ =>
               if pos <? s2 then (if pos <? e then Some (s, e) else None)
               else find_containing t pos
           end
  end.

(* range_module.h:71-80 *)
Definition queryRefillRange (m : imap) (left right : Z) : Z * Z :=
  if right <=? left then (0, 0) else
  let left1 := match find_containing m left with Some (_, e) => e | None => left end in
  if right <=? left1 then (0, 0) else
  let right1 := match find_containing m (right - 1) with
                | Some (s, _) => if left1 <? s then s else right
                | None => right
                end in
  (left1, right1).

(* operation language used by the correspondence run and by the all-sequences theorem *)
Inductive rm_op := RAdd (l r : Z) | RRemove (l r : Z) | RRemoveFrom (o : Z) | RClear.

Definition rm_apply (m : imap) (o : rm_op) : imap :=
  match o with
  | RAdd l r => addRange m l r
  | RRemove l r => removeRange m l r
  | RRemoveFrom x => removeFrom m x
  | RClear => []
  end.

Definition rm_run (ops : list rm_op) : imap := fold_left rm_apply ops [].

(* all intermediate states, for the line-by-line comparison *)
Fixpoint rm_trace (m : imap) (ops : list rm_op) : list imap :=
  match ops with
  | [] => []
  | o :: t => let m' := rm_apply m o in m' :: rm_trace m' t
  end.
