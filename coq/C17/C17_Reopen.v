(* C17_Reopen.v — a new store object over an existing media file (pool reuse / store TTL). *)
From Coq Require Import ZArith List Lia Bool.
From PV Require Import C17.C17_Model C17.C17_Lists C17.C17_RM_Proofs C17.C17_Proofs.
Import ListNotations.
Local Open Scope Z_scope.

(* the size a new store adopts from the media file is sound when it is at most the source size
   and, if not page aligned, equal to it *)
Definition MediaSizeOK (src : list Z) (cfg : config) (st : store) : Prop :=
  zlen (s_media st) <= zlen src /\ (zlen (s_media st) mod c_page cfg <> 0 -> zlen (s_media st) = zlen src).

Lemma reopen_inv_proof src cfg w :
  Inv src cfg (w_st w) -> MediaSizeOK src cfg (w_st w) -> Inv src cfg (w_st (reopen w)).
Proof.
  intros (Hwf & Hcons & Hact & Hpg) (Hle & Hal). unfold reopen, set_st. cbn [w_st].
  unfold Inv. cbn [s_filled s_media s_actual]. split; [exact Hwf |]. split; [| split; [| exact Hal]].
  - intros x Hx. cbn [s_filled s_media s_actual] in *. destruct (Hcons x Hx) as (H1 & H2 & H3). split; [lia |]. split; [lia | exact H3].
  - pose proof (zlen_nonneg (s_media (w_st w))). lia.
Qed.

(* Finding C17-F1.  A trim (CachedFile::fallocate(mode, offset, -1) -> evict(offset, -1) ->
   ftruncate(offset)) at an offset that is not page aligned leaves a media file whose size is neither
   page aligned nor the source size.  A store created later adopts that size as actual_size_, and
   tryget_size (store.cpp:420) trusts every size that is not page aligned: the read below asks for
   byte 6 of a 10-byte source and gets 0 bytes although no source call fails. *)
Definition f1_src : list Z := [1; 2; 3; 4; 5; 6; 7; 8; 9; 10].
Definition f1_cfg : config := mkCfg 4 4 false false 128 4294967295 false.
Definition f1_w0 : world := mkW (mkStore 10 [(0, 10)] f1_src true 0) [] [] [] [] [] [].
Definition f1_w2 : world :=
  let w := reopen (evict f1_cfg f1_w0 5 (-1)) in
  mkW (w_st w) [] [] [170] [] [] [].

Lemma f1_start_good : Good f1_src f1_cfg f1_w0.
Proof.
  unfold Good, f1_w0. cbn [w_st w_held]. split; [| split; [intros ? ? [] | reflexivity]].
  unfold Inv. cbn [s_filled s_media s_actual]. split; [exists (-1); cbn; lia |]. split; [| split; [cbn; lia | intros _; reflexivity]].
  intros x (s & e & [Heq | []] & Hx). inversion Heq; subst. cbn [s_media s_actual s_filled].
  assert (Hc : x = 0 \/ x = 1 \/ x = 2 \/ x = 3 \/ x = 4 \/ x = 5 \/ x = 6 \/ x = 7 \/ x = 8 \/ x = 9) by lia.
  destruct Hc as [-> | [-> | [-> | [-> | [-> | [-> | [-> | [-> | [-> | ->]]]]]]]]]; cbn; repeat split; lia.
Qed.

Lemma trim_then_reopen_refuted_proof :
  Good f1_src f1_cfg f1_w0 /\
  fst (preadv2 f1_src f1_cfg false false f1_w2 6 1) = 0 /\
  Z.max 0 (Z.min 1 (zlen f1_src - 6)) = 1 /\
  ~ MediaSizeOK f1_src f1_cfg (w_st (evict f1_cfg f1_w0 5 (-1))).
Proof.
  split; [exact f1_start_good |]. split; [vm_compute; reflexivity |]. split; [vm_compute; reflexivity |].
  intros [_ H]. vm_compute in H. assert (5 = 10) by (apply H; discriminate). discriminate.
Qed.

(* Finding C17-F2.  FileCacheStore::evict(offset, -1) ftruncate()s the media file to `offset` also
   when `offset` lies beyond the file's end, i.e. a trim can EXTEND the media file beyond the
   source's size.  A store created later adopts that size; the read below asks for [8,12) of the
   10-byte source: no source call fails, yet the read fails (in the model, whose rebuild of the
   filled map is ideal; with a real file system the zero extension is reported as data by
   SEEK_DATA/fiemap and the read returns 4 bytes, two of them zeros beyond the source's end). *)
Definition f2_w2 : world :=
  let w := reopen (evict f1_cfg f1_w0 12 (-1)) in
  mkW (w_st w) [] [] [170; 170; 170; 170] [] [] [].
Definition f1_cfg_patched : config := mkCfg 4 4 false false 128 4294967295 true.

Lemma trim_beyond_eof_refuted_proof :
  Good f1_src f1_cfg f1_w0 /\
  fst (preadv2 f1_src f1_cfg false false f2_w2 8 4) = -1 /\
  Z.max 0 (Z.min 4 (zlen f1_src - 8)) = 2 /\
  ~ MediaSizeOK f1_src f1_cfg (w_st (evict f1_cfg f1_w0 12 (-1))) /\
  evict f1_cfg_patched f1_w0 12 (-1) = f1_w0.
Proof.
  split; [exact f1_start_good |]. split; [vm_compute; reflexivity |]. split; [vm_compute; reflexivity |].
  split; [| vm_compute; reflexivity].
  intros [H _]. vm_compute in H. apply H. reflexivity.
Qed.

(* with the patched evict (c_tne = true) a trim at a page-aligned offset keeps MediaSizeOK *)
Lemma trim_keeps_media_size_proof src cfg w off :
  c_tne cfg = true -> MediaSizeOK src cfg (w_st w) -> 0 <= off -> off mod c_page cfg = 0 ->
  MediaSizeOK src cfg (w_st (evict cfg w off (-1))).
Proof.
  intros Htne (Hle & Hal) Hoff Hmod. unfold evict. rewrite Z.eqb_refl. rewrite Htne. cbn [andb].
  destruct (Z.leb_spec (zlen (s_media (w_st w))) off) as [H | H]; [split; assumption |].
  unfold add_log, set_st, MediaSizeOK. cbn [w_st s_media s_filled s_actual].
  rewrite zlen_resize by lia. split; [lia | intros Hn; contradiction].
Qed.

Example ex_media_size_ok : MediaSizeOK f1_src f1_cfg_patched (w_st f1_w0) /\ c_tne f1_cfg_patched = true.
Proof. split; [split; [vm_compute; discriminate | intros _; reflexivity] | reflexivity]. Qed.
