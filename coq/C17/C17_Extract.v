(* Extraction of the C17 model: ExtrOcamlBasic only. *)
From Coq Require Import ZArith List.
From PV Require Import C17.C17_Model.
Require Extraction.
Require Import ExtrOcamlBasic.
Extraction "c17_model.ml" rm_trace rm_run queryRefillRange Nat.pred run_ops.
