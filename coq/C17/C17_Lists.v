(* C17_Lists.v — pointwise facts about the byte-list operations of the model. *)
From Coq Require Import ZArith List Lia Bool.
From PV Require Import C17.C17_Model.
Import ListNotations.
Local Open Scope Z_scope.

Definition getz (l : list Z) (i : Z) : Z := nth (Z.to_nat i) l 0.

Lemma zlen_nonneg {A} (l : list A) : 0 <= zlen l.
Proof. unfold zlen. lia. Qed.

Lemma zlen_app {A} (a b : list A) : zlen (a ++ b) = zlen a + zlen b.
Proof. unfold zlen. rewrite app_length. lia. Qed.

Lemma zlen_repeat (x : Z) n : zlen (repeat x n) = Z.of_nat n.
Proof. unfold zlen. now rewrite repeat_length. Qed.

Lemma nth_firstn' {A} (l : list A) d : forall n i, (i < n)%nat -> nth i (firstn n l) d = nth i l d.
Proof.
  induction l as [| a l IH]; intros n i Hi.
  - rewrite firstn_nil. reflexivity.
  - destruct n; [lia |]. destruct i; simpl; [reflexivity |]. apply IH. lia.
Qed.

Lemma nth_skipn' {A} (l : list A) d : forall n i, nth i (skipn n l) d = nth (n + i) l d.
Proof.
  induction l as [| a l IH]; intros n i.
  - rewrite skipn_nil. destruct i, n; reflexivity.
  - destruct n; simpl; [reflexivity |]. apply IH.
Qed.

Lemma nth_repeat' (x : Z) n i : nth i (repeat x n) x = x.
Proof. revert i. induction n; intros [| i]; simpl; auto. Qed.

Lemma getz_beyond l i : zlen l <= i -> getz l i = 0.
Proof. unfold getz, zlen. intros H. apply nth_overflow. lia. Qed.

Lemma getz_app1 a b i : 0 <= i < zlen a -> getz (a ++ b) i = getz a i.
Proof. unfold getz, zlen. intros H. apply app_nth1. lia. Qed.

Lemma getz_app2 a b i : zlen a <= i -> getz (a ++ b) i = getz b (i - zlen a).
Proof.
  unfold getz, zlen. intros H. rewrite app_nth2 by lia. f_equal. lia.
Qed.

(* ---- slice *)
Lemma zlen_slice l off n : 0 <= off -> 0 <= n -> off + n <= zlen l -> zlen (slice l off n) = n.
Proof.
  unfold slice, zlen. intros H1 H2 H3. rewrite firstn_length, skipn_length. lia.
Qed.

Lemma zlen_slice_le l off n : 0 <= n -> zlen (slice l off n) <= n.
Proof. unfold slice, zlen. intros H. rewrite firstn_length. lia. Qed.

Lemma getz_slice l off n i : 0 <= off -> 0 <= i < n -> getz (slice l off n) i = getz l (off + i).
Proof.
  unfold slice, getz. intros H1 H2. rewrite nth_firstn' by lia. rewrite nth_skipn'. f_equal. lia.
Qed.

Lemma firstn_is_slice (l : list Z) n : firstn (Z.to_nat n) l = slice l 0 n.
Proof. reflexivity. Qed.

(* ---- pad_to *)
Lemma zlen_pad_to l n : zlen (pad_to l n) = Z.max (zlen l) n.
Proof. unfold pad_to. rewrite zlen_app, zlen_repeat. pose proof (zlen_nonneg l). lia. Qed.

Lemma getz_pad_to l n i : 0 <= i -> getz (pad_to l n) i = getz l i.
Proof.
  intros Hi. unfold pad_to. destruct (Z.lt_ge_cases i (zlen l)).
  - apply getz_app1. lia.
  - rewrite getz_app2 by lia. rewrite (getz_beyond l) by lia. unfold getz. apply nth_repeat'.
Qed.

(* ---- splice *)
Lemma zlen_splice l pos data :
  0 <= pos <= zlen l -> zlen (splice l pos data) = Z.max (zlen l) (pos + zlen data).
Proof.
  intros H. unfold splice. rewrite !zlen_app. unfold zlen in *.
  rewrite firstn_length, skipn_length.
  lia.
Qed.

Lemma getz_splice l pos data i :
  0 <= pos <= zlen l -> 0 <= i ->
  getz (splice l pos data) i =
    if (pos <=? i) && (i <? pos + zlen data) then getz data (i - pos) else getz l i.
Proof.
  intros Hp Hi. unfold splice.
  assert (Hf : zlen (firstn (Z.to_nat pos) l) = pos).
  { unfold zlen in *. rewrite firstn_length. lia. }
  destruct (Z.leb_spec pos i) as [H1 | H1]; simpl.
  - rewrite getz_app2 by lia. rewrite Hf.
    destruct (Z.ltb_spec i (pos + zlen data)) as [H2 | H2].
    + apply getz_app1. lia.
    + rewrite getz_app2 by lia. unfold getz. rewrite nth_skipn'. f_equal. unfold zlen in *. lia.
  - rewrite getz_app1 by lia. unfold getz. apply nth_firstn'. lia.
Qed.

(* ---- media_write / resize / punch *)
Lemma zlen_media_write m off data :
  0 <= off -> zlen (media_write m off data) = Z.max (zlen m) (off + zlen data).
Proof.
  intros H. unfold media_write. rewrite zlen_splice; rewrite zlen_pad_to; pose proof (zlen_nonneg m); pose proof (zlen_nonneg data); lia.
Qed.

Lemma getz_media_write m off data i :
  0 <= off -> 0 <= i ->
  getz (media_write m off data) i =
    if (off <=? i) && (i <? off + zlen data) then getz data (i - off) else getz m i.
Proof.
  intros H Hi. unfold media_write. rewrite getz_splice; [| rewrite zlen_pad_to; pose proof (zlen_nonneg m); lia | lia].
  rewrite getz_pad_to by lia. reflexivity.
Qed.

Lemma zlen_resize l n : 0 <= n -> zlen (resize l n) = n.
Proof.
  intros H. unfold resize. pose proof (zlen_pad_to l n). unfold zlen in *. rewrite firstn_length. lia.
Qed.

Lemma getz_resize l n i : 0 <= i < n -> getz (resize l n) i = getz l i.
Proof.
  intros H. unfold resize. rewrite <- (getz_pad_to l n i) by lia. unfold getz. apply nth_firstn'. lia.
Qed.

Lemma zlen_punch m off cnt : 0 <= off -> zlen (punch m off cnt) = zlen m.
Proof.
  intros H. unfold punch. destruct (Z.ltb_spec 0 (Z.max 0 (Z.min cnt (zlen m - off)))); [| reflexivity].
  rewrite zlen_splice by lia. rewrite zlen_repeat. lia.
Qed.

Lemma getz_punch_outside m off cnt i :
  0 <= off -> 0 <= i -> ~ (off <= i < off + cnt) -> getz (punch m off cnt) i = getz m i.
Proof.
  intros H Hi Hn. unfold punch. destruct (Z.ltb_spec 0 (Z.max 0 (Z.min cnt (zlen m - off)))); [| reflexivity].
  rewrite getz_splice by lia. rewrite zlen_repeat.
  destruct (Z.leb_spec off i); destruct (Z.ltb_spec i (off + Z.of_nat (Z.to_nat (Z.max 0 (Z.min cnt (zlen m - off)))))); simpl; try reflexivity.
  lia.
Qed.

(* ---- avail *)
Lemma avail_range size off len : 0 <= avail size off len.
Proof. unfold avail. lia. Qed.

Lemma avail_full size off len : 0 <= len -> off + len <= size -> avail size off len = len.
Proof. unfold avail. lia. Qed.

Lemma avail_le size off len : 0 <= len -> avail size off len <= len.
Proof. unfold avail. lia. Qed.

Lemma avail_fit size off len : 0 <= off -> off + avail size off len <= Z.max size off.
Proof. unfold avail. lia. Qed.

(* ---- align_down / align_up for ANY alignment a >= 1 (the C++ is a bit mask; power of two
   not needed for what the read path relies on) *)
Lemma ldiff_bounds x m : 0 <= x -> 0 <= m -> x - m <= Z.ldiff x m <= x.
Proof.
  intros Hx Hm.
  set (B := Z.land x m).
  assert (HBx : Z.ldiff B x = 0).
  { apply Z.bits_inj'. intros n Hn. unfold B. rewrite Z.ldiff_spec, Z.land_spec, Z.bits_0.
    destruct (Z.testbit x n), (Z.testbit m n); reflexivity. }
  assert (HBm : Z.ldiff B m = 0).
  { apply Z.bits_inj'. intros n Hn. unfold B. rewrite Z.ldiff_spec, Z.land_spec, Z.bits_0.
    destruct (Z.testbit x n), (Z.testbit m n); reflexivity. }
  pose proof (Z.ldiff_le B x Hx HBx). pose proof (Z.ldiff_le B m Hm HBm).
  pose proof (Z.sub_nocarry_ldiff x B HBx) as Hsub.
  assert (Heq : Z.ldiff x B = Z.ldiff x m).
  { apply Z.bits_inj'. intros n Hn. unfold B. rewrite !Z.ldiff_spec, Z.land_spec.
    destruct (Z.testbit x n), (Z.testbit m n); reflexivity. }
  rewrite <- Heq, <- Hsub. lia.
Qed.

Lemma align_down_bounds x a : 0 <= x -> 1 <= a -> x - (a - 1) <= align_down x a <= x.
Proof.
  intros Hx Ha. unfold align_down. rewrite <- Z.ldiff_land. apply ldiff_bounds; lia.
Qed.

Lemma align_up_ge x a : 0 <= x -> 1 <= a -> x <= align_up x a.
Proof.
  intros Hx Ha. unfold align_up. pose proof (align_down_bounds (x + a - 1) a). lia.
Qed.

Lemma align_down_nonneg x a : 0 <= x -> 0 <= align_down x a.
Proof. intros Hx. unfold align_down. rewrite <- Z.ldiff_land. apply Z.ldiff_nonneg. now left. Qed.

Lemma zlen_slice0 l off : zlen (slice l off 0) = 0.
Proof. reflexivity. Qed.
