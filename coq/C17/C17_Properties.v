(* C17 property theorems.  Only `exact` of lemmas proved in the *_Proofs files. *)
From Coq Require Import ZArith List.
From PV Require Import C17.C17_Model C17.C17_Lists C17.C17_RM_Proofs C17.C17_Proofs C17.C17_Reopen.
From PV Require C17.C17_Conc.
Import ListNotations.
Local Open Scope Z_scope.

(* RangeModule: after ANY sequence of addRange / removeRange / removeFrom / clear starting from
   the empty module, the intervals are sorted, non-empty, pairwise disjoint and non-adjacent (WF),
   and the set of covered points is exactly the set-algebra result (add = union, remove =
   difference). *)
Theorem rm_set_semantics : forall ops : list rm_op,
  WF (rm_run ops) /\ forall x, covers (rm_run ops) x <-> spec_run ops x.
Proof. exact rm_set_semantics_proof. Qed.
Print Assumptions rm_set_semantics.

(* queryRefillRange on a well-formed module (Example wf_example): {0,0} exactly when every byte
   of [l,r) is covered; otherwise a range inside [l,r) whose first and last bytes are uncovered
   and that contains every uncovered byte of [l,r). *)
Theorem rm_query_spec : forall m l r, WF m ->
  let q := queryRefillRange m l r in
  (q = (0, 0) /\ (forall x, l <= x < r -> covers m x))
  \/ (l < r /\ l <= fst q /\ fst q < snd q /\ snd q <= r
      /\ ~ covers m (fst q) /\ ~ covers m (snd q - 1)
      /\ (forall x, l <= x < r -> ~ covers m x -> fst q <= x < snd q)).
Proof. exact queryRefillRange_spec. Qed.
Print Assumptions rm_query_spec.

(* The sequential read path (ICacheStore::preadv2 -> try_preadv2 -> do_refill_range over
   FileCacheStore's in-memory filled-range path).  Under CacheConsistent (`Good`: every cached byte
   is inside the media file, below the known size and equals the source byte; the known size is
   <= the source size and, if not page aligned, equal to it; no foreign range lock; pending
   refill buffers hold source bytes — Example ex_good), for every source content, page size,
   refill unit >= 1 (power of two or not), pool configuration (no pool / inline / async
   write-back / direct-read threshold), offset >= 0, buffer length, CACHE_ONLY and SYNC flags and
   EVERY script of source-read outcomes (ok / short / fail) and media-write outcomes:
   ReadPost = the store is again Good; the returned count r is -1 or 0 <= r <= min(count, size -
   offset) and bytes [0,r) of the buffer equal source[offset, offset+r); buffer bytes at or
   beyond min(count, size-offset) are untouched (never more than the source has); and if no
   source call fails or is short and the read is not CACHE_ONLY then r = min(count, size-offset)
   exactly.  The iovec segmentation does not occur in the model (flat buffer; tie by the
   harness over every segmentation). *)
Theorem read_returns_source :
  forall (src : list Z) (cfg : config), 1 <= c_page cfg -> 1 <= c_unit cfg ->
  forall (co sync : bool) (w : world) (offset vsize : Z),
    Good src cfg w -> zlen (w_ubuf w) = vsize -> 0 <= offset ->
    match preadv2 src cfg co sync w offset vsize with
    | (r, w') => ReadPost src cfg w offset vsize co r w'
    end.
Proof. exact read_returns_source_proof. Qed.
Print Assumptions read_returns_source.

(* whatever the source does (fail, short read, at any call) and whatever the media write does:
   the read fails (-1) or every byte it reports is the source's byte, and the store — also after
   the asynchronous write-back ran — holds only source bytes. *)
Theorem failed_source_read_no_wrong_bytes :
  forall (src : list Z) (cfg : config), 1 <= c_page cfg -> 1 <= c_unit cfg ->
  forall (co sync : bool) (w : world) (offset vsize : Z),
    Good src cfg w -> zlen (w_ubuf w) = vsize -> 0 <= offset ->
    let r := fst (preadv2 src cfg co sync w offset vsize) in
    let w' := snd (preadv2 src cfg co sync w offset vsize) in
    (r = -1 \/ (0 <= r <= Z.max 0 (Z.min vsize (zlen src - offset))
               /\ forall i, 0 <= i < r -> getz (w_ubuf w') i = getz src (offset + i)))
    /\ Inv src cfg (w_st w') /\ Inv src cfg (w_st (drain w')).
Proof. exact failed_source_read_no_wrong_bytes_proof. Qed.
Print Assumptions failed_source_read_no_wrong_bytes.

(* every sequence of operations (reads with arbitrary fault scripts and their write-back, range
   eviction, truncate, whole-file eviction) preserves CacheConsistent, and every read in the
   sequence satisfies read_ok (Example ex_idle). *)
Theorem consistent_preserved :
  forall (src : list Z) (cfg : config), 1 <= c_page cfg -> 1 <= c_unit cfg -> zlen src <= OFF_MAX ->
  forall (ops : list op) (w : world),
    Idle src cfg w -> Forall op_ok ops ->
    Idle src cfg (snd (run_ops src cfg w ops)) /\ results_ok src cfg w ops.
Proof. exact consistent_preserved_proof. Qed.
Print Assumptions consistent_preserved.

(* a NEW store object over an existing media file (store TTL expiry, or a new pool instance over the
   same directory; ideal rebuild of the filled map assumed): CacheConsistent carries over provided
   the media file's size is <= the source size and, if not page aligned, equal to it
   (Example: any state reached by reads and whole-file evictions only). *)
Theorem reopen_preserves_consistent : forall src cfg w,
  Inv src cfg (w_st w) -> MediaSizeOK src cfg (w_st w) -> Inv src cfg (w_st (reopen w)).
Proof. exact reopen_inv_proof. Qed.
Print Assumptions reopen_preserves_consistent.

(* FINDING C17-F1: the side condition is not maintained by a trim at a non-page-aligned offset
   (CachedFile::fallocate(mode, offset, -1)): from a consistent store, trim at 5, re-create the
   store, read byte 6 of the 10-byte source -> 0 bytes, where the source has 1. *)
Theorem trim_then_reopen_refuted :
  Good f1_src f1_cfg f1_w0 /\
  fst (preadv2 f1_src f1_cfg false false f1_w2 6 1) = 0 /\
  Z.max 0 (Z.min 1 (zlen f1_src - 6)) = 1 /\
  ~ MediaSizeOK f1_src f1_cfg (w_st (evict f1_cfg f1_w0 5 (-1))).
Proof. exact trim_then_reopen_refuted_proof. Qed.
Print Assumptions trim_then_reopen_refuted.

(* FINDING C17-F2: with the unpatched FileCacheStore::evict (c_tne = false) a trim beyond the media
   file's end EXTENDS the media file past the source size; after the store is re-created a read
   of [8,12) of the 10-byte source fails although no source call fails (on a real file system the
   zero extension is served as cached data).  The patched evict leaves the store untouched. *)
Theorem trim_beyond_eof_refuted :
  Good f1_src f1_cfg f1_w0 /\
  fst (preadv2 f1_src f1_cfg false false f2_w2 8 4) = -1 /\
  Z.max 0 (Z.min 4 (zlen f1_src - 8)) = 2 /\
  ~ MediaSizeOK f1_src f1_cfg (w_st (evict f1_cfg f1_w0 12 (-1))) /\
  evict f1_cfg_patched f1_w0 12 (-1) = f1_w0.
Proof. exact trim_beyond_eof_refuted_proof. Qed.
Print Assumptions trim_beyond_eof_refuted.

(* with both repairs (trim offsets rounded to a page boundary by CachedFile::fallocate; evict never
   extends the file) a trim keeps the media size sound for a later store (Example ex_media_size_ok) *)
Theorem trim_keeps_media_size : forall src cfg w off,
  c_tne cfg = true -> MediaSizeOK src cfg (w_st w) -> 0 <= off -> off mod c_page cfg = 0 ->
  MediaSizeOK src cfg (w_st (evict cfg w off (-1))).
Proof. exact trim_keeps_media_size_proof. Qed.
Print Assumptions trim_keeps_media_size.

(* ---- the interleaving model (C17_Conc.v): any number of readers, inline and asynchronous
   write-back, whole-file eviction under the exclusive rw lock, range-lock dedup, reuse of the
   directory by a new pool instance; every interleaving of its steps, no bound on length. *)

(* between a hole query that answered "no hole" and the C17_Conc.media read that follows it, every byte the
   thread is about to read is still C17_Conc.filled and equals the source: no eviction falls in between *)
Theorem read_atomic_vs_evict : forall (src : C17_Conc.bytes) (s : C17_Conc.state) (t : nat),
  C17_Conc.reachable src s ->
  match C17_Conc.pcs s t with
  | C17_Conc.RHit off cnt => forall x, C17_Conc.inr off (off + cnt) x -> C17_Conc.filled s x = true /\ C17_Conc.media s x = src x
  | C17_Conc.RRemHit off cnt u => forall x, C17_Conc.inr off (off + cnt) x -> u x = None -> C17_Conc.filled s x = true /\ C17_Conc.media s x = src x
  | _ => True
  end.
Proof. exact C17_Conc.read_atomic_vs_evict_proof. Qed.
Print Assumptions read_atomic_vs_evict.

(* an eviction of a non-empty cache is only ever a C17_Conc.step of the model when no thread is inside a
   shared (read-lock) section *)
Theorem evict_excluded_in_read_section : forall (src : C17_Conc.bytes) (s : C17_Conc.state) (m' : C17_Conc.bytes),
  C17_Conc.step src s (C17_Conc.mkS (fun _ => false) m' (C17_Conc.pcs s)) -> (exists x, C17_Conc.filled s x = true) ->
  forall t, ~ C17_Conc.in_shared (C17_Conc.pcs s t).
Proof. exact C17_Conc.evict_excluded_in_read_section_proof. Qed.
Print Assumptions evict_excluded_in_read_section.

(* for every interleaving: a read that returns its count has delivered the source's C17_Conc.bytes *)
Theorem read_returns_source_concurrent : forall (src : C17_Conc.bytes) (s : C17_Conc.state) (t : nat) (off cnt : Z) (u : C17_Conc.ubuf),
  C17_Conc.reachable src s -> C17_Conc.pcs s t = C17_Conc.RDone off cnt u -> forall x, off <= x < off + cnt -> u x = Some (src x).
Proof. exact C17_Conc.read_returns_source_concurrent_proof. Qed.
Print Assumptions read_returns_source_concurrent.

(* CacheConsistent is an invariant of every interleaving *)
Theorem cache_consistent_concurrent : forall (src : C17_Conc.bytes) (s : C17_Conc.state),
  C17_Conc.reachable src s -> forall x, C17_Conc.filled s x = true -> C17_Conc.media s x = src x.
Proof. exact C17_Conc.cache_consistent_concurrent_proof. Qed.
Print Assumptions cache_consistent_concurrent.

(* ranges being refilled by different threads (readers or write-back threads) never overlap *)
Theorem refill_dedup : forall (src : C17_Conc.bytes) (s : C17_Conc.state) (t t' : nat) (a b a' b' : Z),
  C17_Conc.reachable src s -> t <> t' ->
  C17_Conc.holds_range (C17_Conc.pcs s t) = Some (a, b) -> C17_Conc.holds_range (C17_Conc.pcs s t') = Some (a', b') -> b <= a' \/ b' <= a.
Proof. exact C17_Conc.refill_dedup_proof. Qed.
Print Assumptions refill_dedup.

(* COUNTERFACTUAL (non-vacuity of read_atomic_vs_evict): in the model weakened by an eviction that
   does not need the exclusive lock (`ustep` = `step` + unguarded evict) a read returns a byte that
   is not the source's: the eviction lands between the hole query and the media read. *)
Theorem unlocked_evict_refuted :
  exists s u, C17_Conc.ureachable C17_Conc.ex_src s /\ C17_Conc.pcs s 0%nat = C17_Conc.RDone 0 4 u
              /\ u 1 <> Some (C17_Conc.ex_src 1).
Proof. exact C17_Conc.unlocked_evict_refuted_proof. Qed.
Print Assumptions unlocked_evict_refuted.
