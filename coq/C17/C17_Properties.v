From Coq Require Import ZArith List.
From PV Require Import C17.C17_Model C17.C17_Proofs.
Theorem c17_placeholder : True. Proof. exact placeholder. Qed.
Print Assumptions c17_placeholder.
