(* C17 property theorems.  Only `exact` of lemmas proved in the *_Proofs files. *)
From Coq Require Import ZArith List.
From PV Require Import C17.C17_Model C17.C17_Lists C17.C17_RM_Proofs C17.C17_Proofs.
Import ListNotations.
Local Open Scope Z_scope.

(* RangeModule: after ANY sequence of addRange / removeRange / removeFrom / clear starting from
   the empty module, the intervals are sorted, non-empty, pairwise disjoint and non-adjacent (WF),
   and the set of covered points is exactly the set-algebra result (add = union, remove =
   difference). *)
Theorem rm_set_semantics : forall ops : list rm_op,
  WF (rm_run ops) /\ forall x, covers (rm_run ops) x <-> spec_run ops x.
Proof. exact rm_set_semantics_proof. Qed.
Print Assumptions rm_set_semantics.

(* queryRefillRange on a well-formed module (Example wf_example): {0,0} exactly when every byte
   of [l,r) is covered; otherwise a range inside [l,r) whose first and last bytes are uncovered
   and that contains every uncovered byte of [l,r). *)
Theorem rm_query_spec : forall m l r, WF m ->
  let q := queryRefillRange m l r in
  (q = (0, 0) /\ (forall x, l <= x < r -> covers m x))
  \/ (l < r /\ l <= fst q /\ fst q < snd q /\ snd q <= r
      /\ ~ covers m (fst q) /\ ~ covers m (snd q - 1)
      /\ (forall x, l <= x < r -> ~ covers m x -> fst q <= x < snd q)).
Proof. exact queryRefillRange_spec. Qed.
Print Assumptions rm_query_spec.

(* The sequential read path (ICacheStore::preadv2 -> try_preadv2 -> do_refill_range over
   FileCacheStore's in-memory filled-range path).  Under CacheConsistent (`Good`: every cached byte
   is inside the media file, below the known size and equals the source byte; the known size is
   <= the source size and, if not page aligned, equal to it; no foreign range lock; pending
   refill buffers hold source bytes — Example ex_good), for every source content, page size,
   refill unit >= 1 (power of two or not), pool configuration (no pool / inline / async
   write-back / direct-read threshold), offset >= 0, buffer length, CACHE_ONLY and SYNC flags and
   EVERY script of source-read outcomes (ok / short / fail) and media-write outcomes:
   ReadPost = the store is again Good; the returned count r is -1 or 0 <= r <= min(count, size -
   offset) and bytes [0,r) of the buffer equal source[offset, offset+r); buffer bytes at or
   beyond min(count, size-offset) are untouched (never more than the source has); and if no
   source call fails or is short and the read is not CACHE_ONLY then r = min(count, size-offset)
   exactly.  The iovec segmentation does not occur in the model (flat buffer; tie by the
   harness over every segmentation). *)
Theorem read_returns_source :
  forall (src : list Z) (cfg : config), 1 <= c_page cfg -> 1 <= c_unit cfg ->
  forall (co sync : bool) (w : world) (offset vsize : Z),
    Good src cfg w -> zlen (w_ubuf w) = vsize -> 0 <= offset ->
    match preadv2 src cfg co sync w offset vsize with
    | (r, w') => ReadPost src cfg w offset vsize co r w'
    end.
Proof. exact read_returns_source_proof. Qed.
Print Assumptions read_returns_source.

(* whatever the source does (fail, short read, at any call) and whatever the media write does:
   the read fails (-1) or every byte it reports is the source's byte, and the store — also after
   the asynchronous write-back ran — holds only source bytes. *)
Theorem failed_source_read_no_wrong_bytes :
  forall (src : list Z) (cfg : config), 1 <= c_page cfg -> 1 <= c_unit cfg ->
  forall (co sync : bool) (w : world) (offset vsize : Z),
    Good src cfg w -> zlen (w_ubuf w) = vsize -> 0 <= offset ->
    let r := fst (preadv2 src cfg co sync w offset vsize) in
    let w' := snd (preadv2 src cfg co sync w offset vsize) in
    (r = -1 \/ (0 <= r <= Z.max 0 (Z.min vsize (zlen src - offset))
               /\ forall i, 0 <= i < r -> getz (w_ubuf w') i = getz src (offset + i)))
    /\ Inv src cfg (w_st w') /\ Inv src cfg (w_st (drain w')).
Proof. exact failed_source_read_no_wrong_bytes_proof. Qed.
Print Assumptions failed_source_read_no_wrong_bytes.

(* every sequence of operations (reads with arbitrary fault scripts and their write-back, range
   eviction, truncate, whole-file eviction) preserves CacheConsistent, and every read in the
   sequence satisfies read_ok (Example ex_idle). *)
Theorem consistent_preserved :
  forall (src : list Z) (cfg : config), 1 <= c_page cfg -> 1 <= c_unit cfg -> zlen src <= OFF_MAX ->
  forall (ops : list op) (w : world),
    Idle src cfg w -> Forall op_ok ops ->
    Idle src cfg (snd (run_ops src cfg w ops)) /\ results_ok src cfg w ops.
Proof. exact consistent_preserved_proof. Qed.
Print Assumptions consistent_preserved.
