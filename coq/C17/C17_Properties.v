(* C17 property theorems.  Only `exact` of lemmas proved in the *_Proofs files. *)
From Coq Require Import ZArith List.
From PV Require Import C17.C17_Model C17.C17_RM_Proofs.
Import ListNotations.
Local Open Scope Z_scope.

(* RangeModule: after ANY sequence of addRange / removeRange / removeFrom / clear starting from
   the empty module, the intervals are sorted, non-empty, pairwise disjoint and non-adjacent (WF),
   and the set of covered points is exactly the set-algebra result (add = union, remove =
   difference). *)
Theorem rm_set_semantics : forall ops : list rm_op,
  WF (rm_run ops) /\ forall x, covers (rm_run ops) x <-> spec_run ops x.
Proof. exact rm_set_semantics_proof. Qed.
Print Assumptions rm_set_semantics.

(* queryRefillRange on a well-formed module: {0,0} exactly when every byte of [l,r) is covered;
   otherwise a range inside [l,r) whose first and last bytes are uncovered and that contains
   every uncovered byte of [l,r). *)
Theorem rm_query_spec : forall m l r, WF m ->
  let q := queryRefillRange m l r in
  (q = (0, 0) /\ (forall x, l <= x < r -> covers m x))
  \/ (l < r /\ l <= fst q /\ fst q < snd q /\ snd q <= r
      /\ ~ covers m (fst q) /\ ~ covers m (snd q - 1)
      /\ (forall x, l <= x < r -> ~ covers m x -> fst q <= x < snd q)).
Proof. exact queryRefillRange_spec. Qed.
Print Assumptions rm_query_spec.
