From Coq Require Import ZArith List Bool Arith Lia.
From PV Require Import Base.U64 C02.C02_Model C02.C02_Base C02.C02_Cons C02.C02_Safe C02.C02_Locks C02.C02_LockProto C02.C02_Locks2 C02.C02_Locks3 C02.C02_Summ C02.C02_Credit C02.C02_Struct.
Import ListNotations.
Local Open Scope Z_scope.

Ltac fl := repeat first
  [ rewrite (fld_modth t_inq) | rewrite (fld_modth t_state) | rewrite (fld_modth t_pend) | rewrite (fld_modth t_vcpu)
  | rewrite (fld_modth t_semcnt) | progress (autorewrite with st) | progress thsimp ].
Ltac np := unfold npend; repeat first [ rewrite ssum_modth_keep by (intros; reflexivity) | progress (autorewrite with st) ]; try reflexivity.

Lemma vstep_summ s v s' : vstep s v = Some s' ->
  (queue s' = queue s \/ exists t, getv s v = VDeq t /\ queue s' = remove_tid t (queue s)) /\
  (forall y, inq s' y = inq s y \/ (getv s v = VDeq y /\ queue s' = remove_tid y (queue s) /\ inq s' y = false)) /\
  (forall y, stof s' y = stof s y \/ getv s v = VReady y) /\
  (forall y, pend s' y = pend s y) /\ (forall y, vcof s' y = vcof s y) /\ (forall y, semc s' y = semc s y) /\
  npend s' = npend s /\
  (forall y, getv s' v = VReady y -> inq s' y = false).
Proof.
  intros H. vstep_cases H; apply ltbv_lt in Hlt; unfold inq, stof, pend, vcof, semc; rewrite ?Hpc;
    (split; [fl; eauto|]);
    (split; [intros y; fl; eqbs2; try (left; reflexivity)|]);
    (split; [intros y; fl; eqbs2; try (left; reflexivity)|]);
    (split; [intros y; fl; eqbs2|]);
    (split; [intros y; fl; eqbs2|]);
    (split; [intros y; fl; eqbs2|]);
    (split; [np|]);
    intros y; vgets; intros E; try discriminate E; inversion E; subst; fl; eqbs2.
  all: try assumption.
  all: try (rewrite getth_oob by lia; reflexivity).
Qed.

Definition start_pc (o : opcall) (p' : pc) (vc : option nat) : Prop :=
  match o with
  | OpWait c _ _ => p' = Idle \/ exists a, p' = WLock1 a /\ w_c a = c /\ c <> 0 /\ vc <> None
  | OpSignal n => p' = Idle \/ p' = SLock n
  | OpInterrupt x e => p' = IRead x e
  end.

Lemma start_summ s t o s' : start s t o = Some s' ->
  (forall y, inq s' y = inq s y) /\ (forall y, stof s' y = stof s y) /\ (forall y, pend s' y = pend s y) /\
  (forall y, vcof s' y = vcof s y) /\ (forall y, semc s' y = semc s y) /\ npend s' = npend s /\
  start_pc o (pcof s' t) (vcof s t).
Proof.
  intros H. start_cases H; apply ltb_lt in Hlt; unfold inq, stof, pend, vcof, semc; unf;
    (split; [intros y; fl; eqbs2|]);
    (split; [intros y; fl; eqbs2|]);
    (split; [intros y; fl; eqbs2|]);
    (split; [intros y; fl; eqbs2|]);
    (split; [intros y; fl; eqbs2|]);
    (split; [np|]);
    cbn [start_pc]; pcs; unfold pcof; rewrite ?Hpc; auto.
  right. eexists. split; [reflexivity|]. split; [reflexivity|]. split; [zb; assumption|congruence].
Qed.

Lemma start_pc_facts o p' vc : start_pc o p' vc ->
  waitpc p' = false /\ enqpc p' = false /\ (forall kk y, p' <> PIState kk y) /\ (forall kk y, p' <> PIQLock kk y) /\
  (forall kk y, p' <> PIDeq kk y) /\ (forall k c x, p' <> TRCmp k c x) /\ (pc_args p' <> None -> vc <> None).
Proof.
  destruct o; cbn [start_pc]; intros H; split_all; subst; cbn [waitpc enqpc pc_args pc_caller];
    repeat split; try congruence; try (intros; discriminate).
Qed.

Lemma tstate_eqb_eq a b : tstate_eqb a b = true -> a = b.
Proof. destruct a, b; simpl; congruence. Qed.

Lemma sched_summ s l s' : step s l = Some s' ->
  match l with LRun _ | LStandby _ _ | LExpire _ _ | LTick _ => True | _ => False end ->
  (forall y, inq s' y = inq s y) /\ (forall y, stof s' y = stof s y \/ stof s y <> Sleeping) /\
  (forall y, pend s' y = pend s y) /\ (forall y, vcof s' y = vcof s y) /\ (forall y, semc s' y = semc s y) /\
  npend s' = npend s /\ (forall w y, getv s' w = VReady y -> getv s w = VReady y).
Proof.
  intros H L. destruct l; try contradiction; simpl in H.
  - destruct (Nat.ltb t (length (threads s)) && tstate_eqb (t_state (getth s t)) Ready) eqn:C; [|discriminate].
    inv_some H. apply andb_true_iff in C. destruct C as [_ C]. apply tstate_eqb_eq in C.
    unfold inq, stof, pend, vcof, semc. repeat split; try (intros y; fl; eqbs2); try np.
    all: try (right; congruence).
    all: try (intros w y; autorewrite with st; auto; fail).
  - destruct (Nat.ltb t (length (threads s)) && tstate_eqb (t_state (getth s t)) Standby &&
              match t_vcpu (getth s t) with Some w => Nat.eqb v w | None => false end) eqn:C; [|discriminate].
    inv_some H. apply andb_true_iff in C. destruct C as [C _]. apply andb_true_iff in C. destruct C as [_ C]. apply tstate_eqb_eq in C.
    unfold inq, stof, pend, vcof, semc. repeat split; try (intros y; fl; eqbs2); try np.
    all: try (right; congruence).
    all: try (intros w y; autorewrite with st; auto; fail).
  - repeat match type of H with
    | None = Some _ => discriminate
    | context [match ?x with _ => _ end] => destruct x eqn:?
    end; try discriminate; inv_some H.
    unfold inq, stof, pend, vcof, semc. repeat split; try (intros y; fl; eqbs2; fail); try np.
    all: try (intros w y; rewrite getv_setv; destruct (Nat.eqb v w && Nat.ltb v (nvcpus s)); [discriminate|auto]; fail).
  - destruct (0 <=? d); [|discriminate]. inv_some H.
    unfold inq, stof, pend, vcof, semc. repeat split; try (intros y; fl; eqbs2; fail); try np.
    all: try (intros w y; autorewrite with st; auto; fail).
Qed.

(* ---------------------------------------------------------------------------------------- *)
(* the structural invariant is preserved by the other labels *)
Lemma sinv_vstep s v s' : sinv s -> vstep s v = Some s' -> sinv s'.
Proof.
  intros I H. destruct (vstep_effect _ _ _ H) as (Hn&Hp&_). destruct (vstep_locks _ _ _ H) as (Hv&Env&Fv&_).
  destruct (vstep_summ _ _ _ H) as (Eq&Ei&Es&Ep&Evc&_&_&Er).
  assert (Hin : forall y, In y (queue s') -> In y (queue s)).
  { intros y Hi. destruct Eq as [E|(t&_&E)]; rewrite E in Hi; [auto|eapply in_remove_tid; eauto]. }
  constructor.
  - destruct Eq as [E|(t&_&E)]; rewrite E; [apply (s_nodup _ I)|apply nodup_remove_tid, (s_nodup _ I)].
  - intros y Hi. pose proof (Hin _ Hi) as Ho. destruct (s_q _ I _ Ho) as (Hy&Hq&Hst&Hw). rewrite Hn, Hp.
    split; [exact Hy|]. split; [|split; [|exact Hw]].
    + destruct (Ei y) as [E|(_&E&_)]; [congruence|]. exfalso. rewrite E in Hi.
      eapply notin_remove_tid; [apply (s_nodup _ I)|exact Hi].
    + destruct (Es y) as [E|E]; [congruence|]. pose proof (s_vr _ I _ _ E). congruence.
  - intros w kk y Hw Hpc. rewrite Hn in Hw. rewrite Hp in Hpc. pose proof (s_pis _ I _ _ _ Hw Hpc).
    destruct (Ei y) as [E|(_&_&E)]; congruence.
  - intros w y Hg. destruct (Nat.eq_dec w v) as [->|N]; [apply Er; exact Hg|].
    rewrite Fv in Hg by auto. pose proof (s_vr _ I _ _ Hg). destruct (Ei y) as [E|(_&_&E)]; congruence.
  - intros y Hpd Hi. rewrite Ep in Hpd. destruct (s_hand _ I _ Hpd (Hin _ Hi)) as (h&k&c&Hh&Hw).
    exists h, k, c. rewrite Hn, !Hp. auto.
  - intros t k c x Ht Hpc Hx. rewrite Hn in *. rewrite Hp in Hpc. rewrite Ep. exact (s_cmp _ I _ _ _ _ Ht Hpc Hx).
  - intros t Ht Hpc. rewrite Hn in Ht. rewrite Hp in Hpc. rewrite Ep. apply (s_enq _ I); auto.
  - intros t Ht Hpc. rewrite Hn in Ht. rewrite Hp in Hpc. rewrite Evc. apply (s_ph _ I); auto.
Qed.

Lemma sinv_start s t o s' : sinv s -> start s t o = Some s' -> sinv s'.
Proof.
  intros I H. destruct (start_effect _ _ _ _ H) as (Ht&Hn&Hi&_&Fr&_&_&Eq&_&Ev&_).
  destruct (start_summ _ _ _ _ H) as (Ei&Es&Ep&Evc&_&_&Hpc').
  apply start_pc_facts in Hpc'. destruct Hpc' as (F1&F2&F3&F4&F5&F6&F7).
  constructor.
  - rewrite Eq. apply (s_nodup _ I).
  - intros y Hy. rewrite Eq in Hy. destruct (s_q _ I _ Hy) as (Hy'&Hq&Hst&Hw). rewrite Hn, Ei, Es.
    repeat split; auto. rewrite Fr; auto. intros ->. rewrite Hi in Hw. discriminate.
  - intros w kk y Hw Hpc. rewrite Hn in Hw. rewrite Ei. destruct (Nat.eq_dec w t) as [->|N]; [exfalso; eapply F3; eauto|].
    rewrite Fr in Hpc by auto. exact (s_pis _ I _ _ _ Hw Hpc).
  - intros w y Hg. rewrite (getv_of_vcpus _ _ _ Ev) in Hg. rewrite Ei. eapply (s_vr _ I); eauto.
  - intros y Hpd Hy. rewrite Ep in Hpd. rewrite Eq in Hy. destruct (s_hand _ I _ Hpd Hy) as (h&k&c&Hh&Hw).
    exists h, k, c. rewrite Hn. split; [exact Hh|]. rewrite Fr; [exact Hw|]. intros ->. rewrite Hi in Hw. destruct Hw; discriminate.
  - intros t0 k c x Ht0 Hpc Hx. rewrite Hn in *. rewrite Ep. destruct (Nat.eq_dec t0 t) as [->|N]; [exfalso; eapply F6; eauto|].
    rewrite Fr in Hpc by auto. exact (s_cmp _ I _ _ _ _ Ht0 Hpc Hx).
  - intros t0 Ht0 Hpc. rewrite Hn in *. rewrite Ep. destruct (Nat.eq_dec t0 t) as [->|N]; [congruence|].
    rewrite Fr in Hpc by auto. exact (s_enq _ I _ Ht0 Hpc).
  - intros t0 Ht0 Hpc. rewrite Hn in *. rewrite Evc. destruct (Nat.eq_dec t0 t) as [->|N]; [auto|].
    rewrite Fr in Hpc by auto. exact (s_ph _ I _ Ht0 Hpc).
Qed.

Lemma sinv_sched s l s' : sinv s -> step s l = Some s' ->
  match l with LRun _ | LStandby _ _ | LExpire _ _ | LTick _ => True | _ => False end -> sinv s'.
Proof.
  intros I H L. destruct (sched_effect _ _ _ H L) as (Hn&Hp&_&_&_&_&_&_&_&_&Eq).
  destruct (sched_summ _ _ _ H L) as (Ei&Es&Ep&Evc&_&_&Ev).
  constructor.
  - rewrite Eq. apply (s_nodup _ I).
  - intros y Hy. rewrite Eq in Hy. destruct (s_q _ I _ Hy) as (Hy'&Hq&Hst&Hw). rewrite Hn, Ei, Hp.
    repeat split; auto. destruct (Es y) as [E|E]; congruence.
  - intros w kk y Hw Hpc. rewrite Hn in Hw. rewrite Hp in Hpc. rewrite Ei. exact (s_pis _ I _ _ _ Hw Hpc).
  - intros w y Hg. rewrite Ei. eapply (s_vr _ I); eauto.
  - intros y Hpd Hy. rewrite Ep in Hpd. rewrite Eq in Hy. destruct (s_hand _ I _ Hpd Hy) as (h&k&c&Hh&Hw).
    exists h, k, c. rewrite Hn, !Hp. auto.
  - intros t0 k c x Ht0 Hpc Hx. rewrite Hn in *. rewrite Hp in Hpc. rewrite Ep. exact (s_cmp _ I _ _ _ _ Ht0 Hpc Hx).
  - intros t0 Ht0 Hpc. rewrite Hn in *. rewrite Hp in Hpc. rewrite Ep. exact (s_enq _ I _ Ht0 Hpc).
  - intros t0 Ht0 Hpc. rewrite Hn in *. rewrite Hp in Hpc. rewrite Evc. exact (s_ph _ I _ Ht0 Hpc).
Qed.

Lemma sinv_step s l s' : sinv s -> sp_inv s -> locks_inv s -> step s l = Some s' -> sinv s'.
Proof.
  intros I Isp Il H. destruct l.
  - simpl in H. eapply sinv_start; eauto.
  - simpl in H. eapply sinv_tstep; eauto.
  - eapply sinv_sched; eauto. exact Logic.I.
  - eapply sinv_sched; eauto. exact Logic.I.
  - eapply sinv_sched; eauto. exact Logic.I.
  - simpl in H. eapply sinv_vstep; eauto.
  - eapply sinv_sched; eauto. exact Logic.I.
Qed.

Lemma init_getth c o ths nv y :
  getth (init c o ths nv) y = thread0 \/ exists vc, getth (init c o ths nv) y = mk_thread vc Running.
Proof.
  unfold getth, init; simpl. revert y. induction ths as [|a r IH]; destruct y; simpl; eauto.
Qed.
Lemma init_getv c o ths nv v : getv (init c o ths nv) v = VIdle.
Proof. unfold getv, init; simpl. revert v. induction nv; destruct v; simpl; auto. Qed.

Lemma sinv_init c o ths nv : sinv (init c o ths nv).
Proof.
  constructor.
  - constructor.
  - intros y [].
  - intros w kk y _ Hp. rewrite init_pcof in Hp. discriminate.
  - intros v y Hg. rewrite init_getv in Hg. discriminate.
  - intros y _ [].
  - intros t k c0 x _ Hp. rewrite init_pcof in Hp. discriminate.
  - intros t _ Hp. rewrite init_pcof in Hp. discriminate.
  - intros t _ Hp. rewrite init_pcof in Hp. exfalso. apply Hp. reflexivity.
Qed.

