From Coq Require Import ZArith List Bool Arith Lia.
From PV Require Import Base.U64 C02.C02_Model C02.C02_Base C02.C02_Cons C02.C02_Safe C02.C02_Locks C02.C02_LockProto C02.C02_Locks2 C02.C02_Locks3 C02.C02_Summ C02.C02_Credit C02.C02_Struct.
Import ListNotations.
Local Open Scope Z_scope.

Ltac fl := repeat first
  [ rewrite (fld_modth t_inq) | rewrite (fld_modth t_state) | rewrite (fld_modth t_pend) | rewrite (fld_modth t_vcpu)
  | rewrite (fld_modth t_semcnt) | progress (autorewrite with st) | progress thsimp ].
Ltac np := unfold npend; repeat first [ rewrite ssum_modth_keep by (intros; reflexivity) | progress (autorewrite with st) ]; try reflexivity.

Lemma vstep_summ s v s' : vstep s v = Some s' ->
  (queue s' = queue s \/ exists t, getv s v = VDeq t /\ queue s' = remove_tid t (queue s)) /\
  (forall y, inq s' y = inq s y \/ (getv s v = VDeq y /\ queue s' = remove_tid y (queue s) /\ inq s' y = false)) /\
  (forall y, stof s' y = stof s y \/ getv s v = VReady y) /\
  (forall y, pend s' y = pend s y) /\ (forall y, vcof s' y = vcof s y) /\ (forall y, semc s' y = semc s y) /\
  npend s' = npend s /\
  (forall y, getv s' v = VReady y -> inq s' y = false).
Proof.
  intros H. vstep_cases H; apply ltbv_lt in Hlt; unfold inq, stof, pend, vcof, semc; rewrite ?Hpc;
    (split; [fl; eauto|]);
    (split; [intros y; fl; eqbs2; try (left; reflexivity)|]);
    (split; [intros y; fl; eqbs2; try (left; reflexivity)|]);
    (split; [intros y; fl; eqbs2|]);
    (split; [intros y; fl; eqbs2|]);
    (split; [intros y; fl; eqbs2|]);
    (split; [np|]);
    intros y; vgets; intros E; try discriminate E; inversion E; subst; fl; eqbs2.
  all: try assumption.
  all: try (rewrite getth_oob by lia; reflexivity).
  all: match goal with |- ?G => idtac "GOAL" G end.
  all: repeat match goal with H : _ |- _ => let T := type of H in idtac H ":" T; revert H end.
Abort.
