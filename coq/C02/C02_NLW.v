(* C02_NLW.v — the POSITIVE no-lost-wake-up theorem, in-order resume mode, one demand value d:
   in every state reachable by any interleaving of any number of threads / vCPUs / OS threads
   whose wait calls all ask for d tokens, if nobody holds `splock` and no woken waiter is still on
   its way to retry, then a non-empty wait queue implies m_count < d (nobody who could be served
   is left blocked).  Assembly of: sp_inv (C02_Base), locks_inv (C02_Locks3), the structural
   invariant sinv with the hand-off clause (C02_Struct / C02_Other), uniformity of the demands,
   and the credit invariant (C02_Credit.tstep_credit) by the pc of the splock holder. *)
From Coq Require Import ZArith List Bool Arith Lia.
From PV Require Import Base.U64 C02.C02_Model C02.C02_Base C02.C02_Cons C02.C02_Safe C02.C02_Locks C02.C02_LockProto C02.C02_Locks2 C02.C02_Locks3 C02.C02_Summ C02.C02_Credit C02.C02_Struct C02.C02_Other C02.C02_Refute.
Import ListNotations.
Local Open Scope Z_scope.

Definition uargs (d : Z) (s : state) : Prop :=
  forall t a, (t < nthreads s)%nat -> pc_args (pcof s t) = Some a -> w_c a = d.
Definition usem (d : Z) (s : state) : Prop := forall y, semc s y = 0 \/ semc s y = d.
Definition cinv (d : Z) (s : state) : Prop :=
  (splock s = None -> Qfree d s) /\
  (forall t, (t < nthreads s)%nat -> holds_sp (pcof s t) = true -> hinv d s (pcof s t)).
Definition uinv (d : Z) (s : state) : Prop :=
  sp_inv s /\ locks_inv s /\ sinv s /\ uargs d s /\ usem d s /\ cinv d s.

Lemma Qfree_mono d s s' : m_count s' = m_count s -> npend s' = npend s -> (queue s = [] -> queue s' = []) ->
  Qfree d s -> Qfree d s'.
Proof. unfold Qfree, credit. intros -> -> Hq [H|H]; auto. Qed.

Lemma hinv_mono d s s' p : m_count s' = m_count s -> npend s' = npend s -> (queue s = [] -> queue s' = []) ->
  hinv d s p -> hinv d s' p.
Proof.
  intros Em En Hq. destruct p; try (match goal with kk : pikont |- _ => destruct kk end); cbn [hinv];
    unfold Qfree, credit; rewrite ?Em, ?En; intuition auto.
Qed.

Definition acqpc (p : pc) : bool :=
  match p with WLoad _ | SAdd _ _ | WFailLoad _ _ | WRet _ _ _ => true | _ => false end.
Lemma tstep_acquire s t s' : tstep s t = Some s' -> holds_sp (pcof s t) = false -> holds_sp (pcof s' t) = true ->
  acqpc (pcof s' t) = true.
Proof.
  intros H. tstep_cases H; apply ltb_lt in Hlt; norm; unfold pcof; rewrite ?Hpc; cbn [holds_sp pik_sp acqpc];
    intros A B; try discriminate; try congruence; reflexivity.
Qed.

Lemma cinv_tstep d s u s' : 0 < d -> uinv d s -> tstep s u = Some s' -> sp_inv s' -> cinv d s'.
Proof.
  intros Hd (Isp&(Ho&Ins&Iq&It)&Is&Ua&Us&(C1&C2)) H Isp'.
  pose proof (tstep_sp _ _ _ H) as [Hu Tr]. pose proof (tstep_nthreads _ _ _ H) as Hn.
  assert (Fr : forall t', t' <> u -> pcof s' t' = pcof s t') by (intros; eapply tstep_pc_frame; eauto).
  pose proof (tstep_credit _ _ _ d H Hd Ho (Ins _ Hu) (fun a E => Ua _ _ Hu E) Us
                (fun k c x E Hx => s_cmp _ Is _ _ _ _ Hu E Hx)) as [TC1 TC2].
  destruct (holds_sp (pcof s u)) eqn:Hh.
  - specialize (TC1 eq_refl (C2 _ Hu Hh)). destruct TC1 as [A B]. split.
    + intros Hl. apply B. destruct (holds_sp (pcof s' u)) eqn:Hh'; [|reflexivity].
      destruct Isp' as [S1 _]. pose proof (S1 u) as X. rewrite Hn in X. specialize (X Hu Hh'). congruence.
    + intros t Ht Hht. rewrite Hn in Ht. destruct (Nat.eq_dec t u) as [->|N]; [auto|].
      rewrite Fr in Hht by auto. exfalso. apply N. eapply (sp_excl s); eauto.
  - specialize (TC2 eq_refl). destruct TC2 as (Em&En&Hq).
    assert (Hfree : splock s = None -> Qfree d s') by (intros Hl; eapply Qfree_mono; eauto).
    split.
    + intros Hl. apply Hfree. destruct (splock s) as [p|] eqn:Hsp; [|reflexivity]. exfalso.
      destruct Isp as [S1 S2]. destruct (S2 _ Hsp) as (h&->&Hh1&Hh2).
      assert (Nh : h <> u) by congruence.
      destruct Isp' as [S1' _]. pose proof (S1' h) as X. rewrite Hn, Fr in X by auto. specialize (X Hh1 Hh2). congruence.
    + intros t Ht Hht. rewrite Hn in Ht. destruct (Nat.eq_dec t u) as [->|N].
      * pose proof (tstep_acquire _ _ _ H Hh Hht) as K.
        assert (Hl : splock s = None). { destruct Tr as [[E _]|[(_&_&E&_)|(E&_)]]; congruence. }
        specialize (Hfree Hl). destruct (pcof s' u); cbn [acqpc] in K; try discriminate K; exact Hfree.
      * rewrite Fr in * by auto. eapply hinv_mono; eauto.
Qed.

Lemma cinv_frame d s s' : cinv d s -> nthreads s' = nthreads s -> splock s' = splock s ->
  m_count s' = m_count s -> npend s' = npend s -> (queue s = [] -> queue s' = []) ->
  (forall t, (t < nthreads s)%nat -> holds_sp (pcof s' t) = true -> pcof s' t = pcof s t) -> cinv d s'.
Proof.
  intros (C1&C2) Hn Hl Em En Hq Hp. split.
  - intros E. rewrite Hl in E. eapply Qfree_mono; eauto.
  - intros t Ht Hh. rewrite Hn in Ht. pose proof (Hp _ Ht Hh) as E. rewrite E in *. eapply hinv_mono; eauto.
Qed.

Lemma uinv_step d s l s' : 0 < d -> uinv d s -> label_uniform d l -> step s l = Some s' -> uinv d s'.
Proof.
  intros Hd Iv Lu H. pose proof Iv as (Isp&Il&Is&Ua&Us&Ic).
  pose proof (sp_inv_step _ _ _ Isp H) as Isp'. pose proof (locks_inv_step _ _ _ Il H) as Il'.
  pose proof (sinv_step _ _ _ Is Isp Il H) as Is'.
  split; [exact Isp'|]. split; [exact Il'|]. split; [exact Is'|].
  destruct l.
  - (* start of a call *)
    simpl in H. destruct (start_effect _ _ _ _ H) as (Ht&Hn&Hi&Hh&Fr&Hl&_&Eq&Em&_).
    destruct (start_summ _ _ _ _ H) as (_&_&_&_&Esc&En&Hpc').
    split; [|split].
    + intros t0 a Ht0 Ha. rewrite Hn in Ht0. destruct (Nat.eq_dec t0 t) as [->|N]; [|rewrite Fr in Ha by auto; eauto].
      destruct o; cbn [start_pc label_uniform] in *.
      * destruct Hpc' as [E|(a'&E&Ec&Ec0&_)]; rewrite E in Ha; cbn [pc_args] in Ha; [discriminate|]. inv_some Ha. lia.
      * destruct Hpc' as [E|E]; rewrite E in Ha; discriminate.
      * rewrite Hpc' in Ha. discriminate.
    + intros y. rewrite Esc. apply Us.
    + apply (cinv_frame d s s' Ic Hn Hl Em En); [intros E0; congruence|].
      intros t0 Ht0 Hh0. destruct (Nat.eq_dec t0 t) as [->|N]; [congruence|auto].
  - (* thread step *)
    simpl in H. destruct Il as (Ho&Ins&Iq&It).
    pose proof (tstep_sp _ _ _ H) as [Hu _]. pose proof (tstep_nthreads _ _ _ H) as Hn.
    split; [|split].
    + intros t0 a Ht0 Ha. rewrite Hn in Ht0. destruct (Nat.eq_dec t0 t) as [->|N].
      * destruct (tstep_args _ _ _ H) as [E|E]; [congruence|]. rewrite E in Ha. eauto.
      * erewrite tstep_pc_frame in Ha by eauto. eauto.
    + intros y. unfold semc. destruct (tstep_semcnt _ _ _ H y) as [E|[E|(a&Ea&E)]]; rewrite E; [apply Us|auto|].
      right. eapply Ua; eauto.
    + eapply cinv_tstep; eauto.
  - destruct (sched_effect _ _ _ H Logic.I) as (Hn&Hp&Hl&Em&_&_&_&_&_&_&Eq). destruct (sched_summ _ _ _ H Logic.I) as (_&_&_&_&Esc&En&_).
    split; [|split].
    + intros t0 a Ht0 Ha. rewrite Hn in Ht0. rewrite Hp in Ha. eauto.
    + intros y. rewrite Esc. apply Us.
    + apply (cinv_frame d s s' Ic Hn Hl Em En); [intros E0; congruence|intros t0 _ _; apply Hp].
  - destruct (sched_effect _ _ _ H Logic.I) as (Hn&Hp&Hl&Em&_&_&_&_&_&_&Eq). destruct (sched_summ _ _ _ H Logic.I) as (_&_&_&_&Esc&En&_).
    split; [|split].
    + intros t0 a Ht0 Ha. rewrite Hn in Ht0. rewrite Hp in Ha. eauto.
    + intros y. rewrite Esc. apply Us.
    + apply (cinv_frame d s s' Ic Hn Hl Em En); [intros E0; congruence|intros t0 _ _; apply Hp].
  - destruct (sched_effect _ _ _ H Logic.I) as (Hn&Hp&Hl&Em&_&_&_&_&_&_&Eq). destruct (sched_summ _ _ _ H Logic.I) as (_&_&_&_&Esc&En&_).
    split; [|split].
    + intros t0 a Ht0 Ha. rewrite Hn in Ht0. rewrite Hp in Ha. eauto.
    + intros y. rewrite Esc. apply Us.
    + apply (cinv_frame d s s' Ic Hn Hl Em En); [intros E0; congruence|intros t0 _ _; apply Hp].
  - (* vCPU step *)
    simpl in H. destruct (vstep_effect _ _ _ H) as (Hn&Hp&Hl&Em&_). destruct (vstep_summ _ _ _ H) as (Eq&_&_&_&_&Esc&En&_).
    split; [|split].
    + intros t0 a Ht0 Ha. rewrite Hn in Ht0. rewrite Hp in Ha. eauto.
    + intros y. rewrite Esc. apply Us.
    + apply (cinv_frame d s s' Ic Hn Hl Em En); [|intros t0 _ _; apply Hp].
      intros E. destruct Eq as [E2|(t&_&E2)]; rewrite E2, E; reflexivity.
  - destruct (sched_effect _ _ _ H Logic.I) as (Hn&Hp&Hl&Em&_&_&_&_&_&_&Eq). destruct (sched_summ _ _ _ H Logic.I) as (_&_&_&_&Esc&En&_).
    split; [|split].
    + intros t0 a Ht0 Ha. rewrite Hn in Ht0. rewrite Hp in Ha. eauto.
    + intros y. rewrite Esc. apply Us.
    + apply (cinv_frame d s s' Ic Hn Hl Em En); [intros E0; congruence|intros t0 _ _; apply Hp].
Qed.

Lemma uinv_init d c ths nv : uinv d (init c false ths nv).
Proof.
  split; [apply sp_inv_init|]. split; [apply locks_inv_init|]. split; [apply sinv_init|].
  split; [|split; [|split]].
  - intros t a _ Ha. rewrite init_pcof in Ha. discriminate.
  - intros y. left. unfold semc. destruct (init_getth c false ths nv y) as [E|(vc&E)]; rewrite E; reflexivity.
  - intros _. left. reflexivity.
  - intros t _ Hh. rewrite init_pcof in Hh. discriminate.
Qed.

Lemma uinv_reachable d c ths nv s : 0 < d -> reachable_u d (init c false ths nv) s -> uinv d s.
Proof.
  intros Hd R. induction R as [|s l s' R IH Lu H]; [apply uinv_init|]. eapply uinv_step; eauto.
Qed.

(* the structural invariant alone, for plain reachability (no guard on the demands) *)
Lemma sinv_reachable c ths nv s : reachable (init c false ths nv) s -> sinv s.
Proof.
  intros R.
  assert (I : sp_inv s /\ locks_inv s /\ sinv s).
  { eapply (reachable_inv (fun s => sp_inv s /\ locks_inv s /\ sinv s)); [| |exact R].
    - split; [apply sp_inv_init|]. split; [apply locks_inv_init|apply sinv_init].
    - intros s1 l s2 (I1&I2&I3) H. split; [eapply sp_inv_step; eauto|]. split; [eapply locks_inv_step; eauto|].
      eapply sinv_step; eauto. }
  exact (proj2 (proj2 I)).
Qed.

Lemma tsum_zero F l : (forall t, F (nth t l thread0) = 0) -> tsum F l = 0.
Proof.
  induction l as [|a r IH]; simpl; intros H; [reflexivity|].
  pose proof (H O) as H0. simpl in H0. rewrite H0, IH; [reflexivity|]. intros t. apply (H (S t)).
Qed.
Lemma npend_zero s : no_pending s -> npend s = 0.
Proof.
  intros H. unfold npend, ssum. apply tsum_zero. intros t. specialize (H t). unfold getth in H. unfold pendz. rewrite H. reflexivity.
Qed.

(* the statement: nlw_uniform_stmt (C02_Refute.v) at in-order mode *)
Definition nlw_uniform_inorder_stmt : Prop :=
  forall d c ths nv s, 0 < d -> 0 <= c < W64 -> reachable_u d (init c false ths nv) s ->
    splock s = None -> no_pending s -> queue s <> [] -> m_count s < d.

Lemma nlw_inorder_uniform : nlw_uniform_inorder_stmt.
Proof.
  intros d c ths nv s Hd _ R Hl Hp Hq.
  destruct (uinv_reachable _ _ _ _ _ Hd R) as (_&_&_&_&_&(C1&_)).
  destruct (C1 Hl) as [E|E]; [contradiction|]. unfold credit in E. rewrite (npend_zero _ Hp) in E. lia.
Qed.

(* it is exactly the in-order instance of the statement of C02_Refute.v *)
Lemma nlw_uniform_inorder_stmt_is_instance :
  nlw_uniform_inorder_stmt <->
  (forall d c o ths nv s, o = false -> 0 < d -> 0 <= c < W64 -> reachable_u d (init c o ths nv) s ->
     splock s = None -> no_pending s -> queue s <> [] -> m_count s < d).
Proof.
  split.
  - intros H d c o ths nv s ->. apply H.
  - intros H d c ths nv s. apply (H d c false ths nv s eq_refl).
Qed.

(* ---- the hypotheses are satisfiable: a uniform run (d = 2) ending in a state with a non-empty
   queue, splock free, nobody pending ---- *)
Definition label_uniformb (d : Z) (l : label) : bool :=
  match l with LStart _ (OpWait c _ _) => (c =? d) || (c =? 0) | _ => true end.
Lemma label_uniformb_ok d l : label_uniformb d l = true -> label_uniform d l.
Proof.
  destruct l; simpl; auto. destruct o; simpl; auto. intros H. apply orb_true_iff in H.
  destruct H as [H|H]; apply Z.eqb_eq in H; auto.
Qed.
Lemma run_reachable_u d s0 s1 ls s : reachable_u d s0 s1 -> forallb (label_uniformb d) ls = true ->
  run s1 ls = Some s -> reachable_u d s0 s.
Proof.
  revert s1. induction ls as [|l r IH]; intros s1 R Hf H; simpl in *.
  - inversion H; subst; exact R.
  - apply andb_true_iff in Hf. destruct Hf as [Hl Hr]. destruct (step s1 l) eqn:E; [|discriminate].
    eapply IH; [|exact Hr|exact H]. econstructor; eauto. apply label_uniformb_ok; exact Hl.
Qed.

Definition uniform_example_sched : list label :=
  LStart 0 (OpWait 2 MAX64 false) :: adv 0 7 ++ LStart 1 (OpWait 2 MAX64 false) :: adv 1 7 ++
  LStart 2 (OpSignal 3) :: adv 2 17 ++ LRun 0 :: adv 0 5.

Example nlw_inorder_uniform_hyps_met :
  exists s, reachable_u 2 (init 0 false three 1) s /\ splock s = None /\ no_pending s /\ queue s = [1%nat] /\
            m_count s = 1 /\ g_ret0 s = 2.
Proof.
  destruct (run (init 0 false three 1) uniform_example_sched) as [s|] eqn:E; [|vm_compute in E; discriminate].
  exists s. split; [eapply run_reachable_u; [constructor| |exact E]; vm_compute; reflexivity|].
  vm_compute in E. inversion E; subst s; clear E. repeat split.
  intros t. destruct t as [|[|[|[|t]]]]; reflexivity.
Qed.
