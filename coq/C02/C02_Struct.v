(* C02_Struct.v — the STRUCTURAL invariants of the wait queue (in-order mode) and the hand-off
   clause of the resume pass, for every interleaving:

     s_nodup  the wait queue has no duplicates
     s_q      x in the queue => waitq(x) /\ SLEEPING /\ pc(x) in {WQUnlock, WDefer, WAsleep}
     s_pis    a participant at PIState _ y (dequeue_ready_atomic done)  => not waitq(y)
     s_vr     a vCPU at VReady y                                        => not waitq(y)
     s_hand   pending(y) /\ y in the queue => some thread is at PIQLock/PIDeq (KHead ..) y
              (it is the resume pass that has just allotted y its tokens and is dequeuing it)
     s_cmp    pc = TRCmp _ _ x => not pending(x)          (THE HAND-OFF CLAUSE of tstep_credit)
     s_enq    pc in {WQLock, WTLock, WEnq} => not pending(self)
     s_ph     inside a wait call => a photon thread (has a vCPU)

   Everything is derived from the step summary `tstep_summ` (C02_Summ.v), the lock ownership
   invariant `tl_inv` (C02_Locks3.v) and `sp_inv` (C02_Base.v) by case analysis; the summaries of
   the other labels (vCPU step, start of a call, scheduler labels) are proved here. *)
From Coq Require Import ZArith List Bool Arith Lia.
From PV Require Import Base.U64 C02.C02_Model C02.C02_Base C02.C02_Cons C02.C02_Safe C02.C02_Locks C02.C02_LockProto C02.C02_Locks2 C02.C02_Locks3 C02.C02_Summ C02.C02_Credit.
Import ListNotations.
Local Open Scope Z_scope.

Definition semc (s : state) (y : nat) : Z := t_semcnt (getth s y).
Definition vcof (s : state) (y : nat) : option nat := t_vcpu (getth s y).

(* ---------------------------------------------------------------------------------------- *)
(* lists *)
Lemma in_remove_tid x y l : In y (remove_tid x l) -> In y l.
Proof.
  induction l as [|a r IH]; simpl; [auto|]. destruct (Nat.eqb a x); simpl; intuition.
Qed.
Lemma nodup_remove_tid x l : NoDup l -> NoDup (remove_tid x l).
Proof.
  induction l as [|a r IH]; simpl; intros Hd; [constructor|]. inversion Hd as [|? ? Hn Hr]; subst.
  destruct (Nat.eqb a x); [assumption|]. constructor; [|auto].
  intros Hi. apply Hn. eapply in_remove_tid; eauto.
Qed.
Lemma notin_remove_tid x l : NoDup l -> ~ In x (remove_tid x l).
Proof.
  induction l as [|a r IH]; simpl; intros Hd; [auto|]. inversion Hd as [|? ? Hn Hr]; subst.
  destruct (Nat.eqb_spec a x) as [->|N]; [assumption|].
  simpl. intros [E|Hi]; [congruence|]. apply IH; auto.
Qed.
Lemma nodup_app_single (x : nat) l : NoDup l -> ~ In x l -> NoDup (l ++ [x]).
Proof.
  induction l as [|a r IH]; simpl; intros Hd Hx.
  - constructor; [intros []|constructor].
  - inversion Hd as [|? ? Hn Hr]; subst. constructor.
    + rewrite in_app_iff. simpl. intros [Hi|[E|[]]]; [auto|]. apply Hx. left. congruence.
    + apply IH; auto.
Qed.
Lemma remove_tid_nil x l : l = [] -> remove_tid x l = [].
Proof. intros ->. reflexivity. Qed.

(* ---------------------------------------------------------------------------------------- *)
(* out-of-range thread ids read the default record *)
Lemma inq_oob s y : (nthreads s <= y)%nat -> inq s y = false.
Proof. intros H. unfold inq. rewrite getth_oob by exact H. reflexivity. Qed.
Lemma pend_oob s y : (nthreads s <= y)%nat -> pend s y = false.
Proof. intros H. unfold pend. rewrite getth_oob by exact H. reflexivity. Qed.

Lemma getv_range s v : getv s v <> VIdle -> (v < nvcpus s)%nat.
Proof.
  intros H. destruct (lt_dec v (nvcpus s)) as [L|L]; [exact L|].
  exfalso. apply H. unfold getv. apply nth_overflow. unfold nvcpus in L. lia.
Qed.
Lemma getv_setv s v p w : getv (setv s v p) w = if Nat.eqb v w && Nat.ltb v (nvcpus s) then p else getv s w.
Proof.
  destruct (Nat.eqb_spec v w) as [->|N]; simpl.
  - destruct (Nat.ltb_spec w (nvcpus s)).
    + apply getv_setv_same; auto.
    + unfold getv, setv; simpl. rewrite upd_nth_oob by (unfold nvcpus in *; lia). reflexivity.
  - apply getv_setv_other; auto.
Qed.

(* ---------------------------------------------------------------------------------------- *)
(* mutual exclusion consequences of the lock invariants *)
Lemma tl_excl s y t1 t2 : tl_inv s -> (y < nthreads s)%nat -> (t1 < nthreads s)%nat -> (t2 < nthreads s)%nat ->
  tl_pc t1 (pcof s t1) = Some y -> tl_pc t2 (pcof s t2) = Some y -> t1 = t2.
Proof.
  intros It Hy H1 H2 E1 E2. destruct (It y Hy) as (L1&_&_).
  pose proof (L1 t1 H1) as A. pose proof (L1 t2 H2) as B. cbv beta in A, B.
  rewrite E1 in A. rewrite E2 in B. cbn [oeqb] in A, B. rewrite Nat.eqb_refl in A, B.
  specialize (A eq_refl). specialize (B eq_refl). congruence.
Qed.
Lemma tl_excl_v s y t v : tl_inv s -> (y < nthreads s)%nat -> (t < nthreads s)%nat -> (v < nvcpus s)%nat ->
  tl_pc t (pcof s t) = Some y -> tl_v (getv s v) = Some y -> False.
Proof.
  intros It Hy H1 H2 E1 E2. destruct (It y Hy) as (L1&L2&_).
  pose proof (L1 t H1) as A. pose proof (L2 v H2) as B. cbv beta in A, B.
  rewrite E1 in A. rewrite E2 in B. cbn [oeqb] in A, B. rewrite Nat.eqb_refl in A, B.
  specialize (A eq_refl). specialize (B eq_refl). congruence.
Qed.
Lemma sp_excl s t1 t2 : sp_inv s -> (t1 < nthreads s)%nat -> (t2 < nthreads s)%nat ->
  holds_sp (pcof s t1) = true -> holds_sp (pcof s t2) = true -> t1 = t2.
Proof.
  intros [S1 _] H1 H2 E1 E2. pose proof (S1 _ H1 E1). pose proof (S1 _ H2 E2). congruence.
Qed.

(* ---------------------------------------------------------------------------------------- *)
(* consequences of the thread-step summary, one question at a time *)
Definition waitpc (p : pc) : bool := match p with WQUnlock _ | WDefer _ | WAsleep _ => true | _ => false end.
Definition enqpc (p : pc) : bool := match p with WQLock _ | WTLock _ | WEnq _ => true | _ => false end.

Ltac open_summ H := unfold summ in H; cbv zeta in H; destruct H as (Eq&Ei&Es&Ep&Evc&Ea&Ec).

Lemma summ_queue s s' u : summ s s' u ->
  queue s' = queue s \/ (exists a, pcof s u = WEnq a /\ queue s' = queue s ++ [u]) \/
  (exists kk x, pcof s u = PIDeq kk x /\ queue s' = remove_tid x (queue s)).
Proof. intros H. open_summ H. destruct (pcof s u); cbn [eff_queue] in Eq; eauto 7. Qed.

Lemma summ_at_enq s s' u a : summ s s' u -> (u < nthreads s)%nat -> pcof s u = WEnq a ->
  queue s' = queue s ++ [u] /\ pcof s' u = WQUnlock a /\ inq s' u = true /\ stof s' u = Sleeping.
Proof.
  intros H Hu Hp. open_summ H. specialize (Ei u Hu). specialize (Es u Hu). rewrite Hp in *.
  cbn [eff_queue eff_inq eff_state cfg] in *. rewrite Nat.eqb_refl in *. auto.
Qed.

Lemma summ_at_deq s s' u kk x : summ s s' u -> pcof s u = PIDeq kk x ->
  queue s' = remove_tid x (queue s) /\ pcof s' u = PIState kk x /\ ((x < nthreads s)%nat -> inq s' x = false).
Proof.
  intros H Hp. open_summ H. rewrite Hp in *. cbn [eff_queue cfg] in *. repeat split; auto.
  intros Hx. specialize (Ei x Hx). cbn [eff_inq] in Ei. rewrite Nat.eqb_refl in Ei. exact Ei.
Qed.

Lemma summ_inq s s' u y : summ s s' u -> (y < nthreads s)%nat ->
  inq s' y = inq s y \/ (exists a, pcof s u = WEnq a /\ y = u /\ inq s' y = true) \/
  (exists kk, pcof s u = PIDeq kk y /\ inq s' y = false).
Proof.
  intros H Hy. open_summ H. specialize (Ei y Hy).
  destruct (pcof s u); cbn [eff_inq] in Ei; auto;
    match type of Ei with context [Nat.eqb ?a ?b] => destruct (Nat.eqb_spec a b); [subst|auto] end; eauto 7.
Qed.

Lemma summ_st s s' u y : summ s s' u -> (y < nthreads s)%nat ->
  stof s' y = stof s y \/ (exists a, pcof s u = WEnq a /\ y = u /\ stof s' y = Sleeping) \/
  (exists kk, pcof s u = PIState kk y).
Proof.
  intros H Hy. open_summ H. specialize (Es y Hy).
  destruct (pcof s u); cbn [eff_state] in Es; auto;
    match type of Es with context [Nat.eqb ?a ?b] => destruct (Nat.eqb_spec a b); [subst|auto] end; eauto 7.
Qed.

Lemma summ_pend s s' u y : summ s s' u -> (y < nthreads s)%nat ->
  pend s' y = pend s y \/
  (exists k c c', pcof s u = TRCmp k c y /\ pcof s' u = PIQLock (KHead k c') y) \/
  (y = u /\ pend s' y = false).
Proof.
  intros H Hy. open_summ H. specialize (Ep y Hy).
  destruct (pcof s u); cbn [eff_pend cfg] in Ep, Ec; auto;
    match type of Ep with context [Nat.eqb ?a ?b] => destruct (Nat.eqb_spec a b); [subst|auto] end.
  - destruct Ep as [E|E]; auto.
  - destruct Ep as [E|E]; auto.
  - destruct Ec as [[_ E]|(c'&E&_)]; [left; exact E|right; left; eauto].
Qed.

Lemma summ_from_wait s s' u : summ s s' u -> waitpc (pcof s u) = true ->
  waitpc (pcof s' u) = true \/ (exists a, pcof s u = WAsleep a /\ can_run (getth s u) = true).
Proof.
  intros H Hw. open_summ H. destruct (pcof s u); cbn [waitpc] in Hw; try discriminate Hw; cbn [cfg] in Ec.
  - rewrite Ec. auto.
  - rewrite Ec. auto.
  - destruct Ec as [Hc _]. right. eauto.
Qed.

Lemma inert_not p : inert p ->
  (forall kk y, p <> PIState kk y) /\ (forall k c x, p <> TRCmp k c x) /\ enqpc p = false /\
  (forall k c y, p <> PIQLock (KHead k c) y) /\ (forall kk y, p <> PIDeq kk y).
Proof.
  intros H. repeat split; try (intros; intros E; subst p; cbn [inert] in H; exact H).
  destruct p; cbn [inert enqpc] in *; auto; contradiction.
Qed.

Ltac split_all := repeat (match goal with
  | E : _ \/ _ |- _ => destruct E as [E|E]
  | E : _ /\ _ |- _ => destruct E as [? ?]
  | E : exists _, _ |- _ => destruct E as [? E]
  end).

Lemma summ_to_pistate s s' u kk y : summ s s' u -> pcof s' u = PIState kk y ->
  (pcof s u = PIQLock kk y /\ inq s y = false) \/ pcof s u = PIDeq kk y.
Proof.
  intros H Hp'. open_summ H. clear Ea. rewrite Hp' in Ec.
  destruct (pcof s u); cbn [cfg] in Ec;
    try (apply inert_not in Ec; destruct Ec as (Ec&_); exfalso; eapply Ec; reflexivity);
    split_all; try congruence.
  all: match goal with E : PIState _ _ = PIState _ _ |- _ => inversion E; subst end; auto.
Qed.

Lemma summ_to_trcmp s s' u k c x : summ s s' u -> pcof s' u = TRCmp k c x ->
  pcof s u = TRRecheck k c x /\ head s = Some x.
Proof.
  intros H Hp'. open_summ H. clear Ea. rewrite Hp' in Ec.
  destruct (pcof s u); cbn [cfg] in Ec;
    try (apply inert_not in Ec; destruct Ec as (_&Ec&_); exfalso; eapply Ec; reflexivity);
    split_all; try congruence.
  all: match goal with E : TRCmp _ _ _ = TRCmp _ _ _ |- _ => inversion E; subst end; auto.
Qed.

Lemma summ_to_enq s s' u : summ s s' u -> enqpc (pcof s' u) = true ->
  (exists a, pcof s u = WLoad a /\ pend s' u = false) \/ enqpc (pcof s u) = true.
Proof.
  intros H Hp'. open_summ H. clear Ea.
  destruct (pcof s u); cbn [cfg enqpc] in *; auto;
    try (apply inert_not in Ec; destruct Ec as (_&_&Ec&_); congruence);
    split_all;
    try (match goal with E : pcof s' u = _ |- _ => rewrite E in Hp'; cbn [enqpc] in Hp'; try discriminate Hp' end); eauto.
Qed.

(* the witness of s_hand (the resume pass dequeuing y) keeps dequeuing y, or has finished *)
Lemma summ_wit s s' u k c y : summ s s' u ->
  pcof s u = PIQLock (KHead k c) y \/ pcof s u = PIDeq (KHead k c) y ->
  (pcof s' u = PIQLock (KHead k c) y \/ pcof s' u = PIDeq (KHead k c) y) \/
  (pcof s u = PIQLock (KHead k c) y /\ inq s y = false) \/ pcof s u = PIDeq (KHead k c) y.
Proof.
  intros H [Hp|Hp]; [|auto]. open_summ H. rewrite Hp in Ec. cbn [cfg] in Ec.
  destruct Ec as [E|[E|[E Hi]]]; auto.
Qed.

Lemma can_run_asleep s u a : pcof s u = WAsleep a -> stof s u = Sleeping -> vcof s u <> None ->
  can_run (getth s u) = true -> False.
Proof.
  unfold pcof, stof, vcof, can_run. intros Hp Hst Hv Hc. rewrite Hp in Hc.
  destruct (t_vcpu (getth s u)); [|congruence]. rewrite Hst in Hc. discriminate.
Qed.

(* ---------------------------------------------------------------------------------------- *)
(* the structural invariant *)
Record sinv (s : state) : Prop := mk_sinv {
  s_nodup : NoDup (queue s);
  s_q : forall y, In y (queue s) ->
        (y < nthreads s)%nat /\ inq s y = true /\ stof s y = Sleeping /\ waitpc (pcof s y) = true;
  s_pis : forall w kk y, (w < nthreads s)%nat -> pcof s w = PIState kk y -> inq s y = false;
  s_vr : forall v y, getv s v = VReady y -> inq s y = false;
  s_hand : forall y, pend s y = true -> In y (queue s) ->
           exists h k c, (h < nthreads s)%nat /\ (pcof s h = PIQLock (KHead k c) y \/ pcof s h = PIDeq (KHead k c) y);
  s_cmp : forall t k c x, (t < nthreads s)%nat -> pcof s t = TRCmp k c x -> (x < nthreads s)%nat -> pend s x = false;
  s_enq : forall t, (t < nthreads s)%nat -> enqpc (pcof s t) = true -> pend s t = false;
  s_ph : forall t, (t < nthreads s)%nat -> pc_args (pcof s t) <> None -> vcof s t <> None
}.

Lemma head_in s x : head s = Some x -> In x (queue s).
Proof. unfold head. destruct (queue s); [discriminate|]. intros E; inversion E; subst. left; reflexivity. Qed.

(* ---- one thread step ---- *)
Section TSTEP.
  Variables (s s' : state) (u : nat).
  Hypothesis I : sinv s.
  Hypothesis Isp : sp_inv s.
  Hypothesis It : tl_inv s.
  Hypothesis Hu : (u < nthreads s)%nat.
  Hypothesis Hn : nthreads s' = nthreads s.
  Hypothesis Hs : summ s s' u.
  Hypothesis Fr : forall t', t' <> u -> pcof s' t' = pcof s t'.
  Hypothesis Evs : vcpus s' = vcpus s.

  Lemma ts_in_queue y : In y (queue s') -> In y (queue s) \/ (exists a, pcof s u = WEnq a /\ y = u).
  Proof.
    intros Hi. destruct (summ_queue _ _ _ Hs) as [E|[(a&Ep&E)|(kk&x&Ep&E)]]; rewrite E in Hi.
    - auto.
    - rewrite in_app_iff in Hi. simpl in Hi. destruct Hi as [Hi|[Hi|[]]]; [auto|right; eauto].
    - left. eapply in_remove_tid; eauto.
  Qed.

  Lemma ts_nodup : NoDup (queue s').
  Proof.
    destruct (summ_queue _ _ _ Hs) as [E|[(a&Ep&E)|(kk&x&Ep&E)]]; rewrite E.
    - apply (s_nodup _ I).
    - apply nodup_app_single; [apply (s_nodup _ I)|]. intros Hi. destruct (s_q _ I _ Hi) as (_&_&_&Hw).
      rewrite Ep in Hw. discriminate.
    - apply nodup_remove_tid, (s_nodup _ I).
  Qed.

  Lemma ts_q y : In y (queue s') ->
    (y < nthreads s')%nat /\ inq s' y = true /\ stof s' y = Sleeping /\ waitpc (pcof s' y) = true.
  Proof.
    intros Hi. rewrite Hn. destruct (ts_in_queue _ Hi) as [Ho|(a&Ep&->)].
    - destruct (s_q _ I _ Ho) as (Hy&Hq&Hst&Hw). split; [exact Hy|]. split; [|split].
      + destruct (summ_inq _ _ _ y Hs Hy) as [E|[(a&Ep&->&E)|(kk&Ep&E)]]; [congruence|exact E|].
        exfalso. destruct (summ_at_deq _ _ _ _ _ Hs Ep) as (Eq&_). rewrite Eq in Hi.
        eapply notin_remove_tid; [apply (s_nodup _ I)|exact Hi].
      + destruct (summ_st _ _ _ y Hs Hy) as [E|[(a&Ep&->&E)|(kk&Ep)]]; [congruence|exact E|].
        exfalso. pose proof (s_pis _ I _ _ _ Hu Ep). congruence.
      + destruct (Nat.eq_dec y u) as [->|N]; [|rewrite Fr; auto].
        destruct (summ_from_wait _ _ _ Hs Hw) as [E|(a&Ep&Hc)]; [exact E|].
        exfalso. eapply can_run_asleep; eauto. apply (s_ph _ I _ Hu). rewrite Ep. discriminate.
    - destruct (summ_at_enq _ _ _ _ Hs Hu Ep) as (_&Ep'&Eq&Est). rewrite Ep'. auto.
  Qed.

  Lemma ts_pis w kk y : (w < nthreads s')%nat -> pcof s' w = PIState kk y -> inq s' y = false.
  Proof.
    intros Hw Hp'. rewrite Hn in Hw.
    destruct (lt_dec y (nthreads s)) as [Hy|Hy]; [|apply inq_oob; rewrite Hn; lia].
    destruct (Nat.eq_dec w u) as [->|N].
    - destruct (summ_to_pistate _ _ _ _ _ Hs Hp') as [[Ep Eq]|Ep].
      + destruct (summ_inq _ _ _ y Hs Hy) as [E|[(a&Ep2&_)|(kk2&Ep2&E)]]; congruence.
      + apply (summ_at_deq _ _ _ _ _ Hs Ep); auto.
    - rewrite Fr in Hp' by auto. pose proof (s_pis _ I _ _ _ Hw Hp') as Eq.
      destruct (summ_inq _ _ _ y Hs Hy) as [E|[(a&Ep2&->&E)|(kk2&Ep2&E)]]; [congruence| |exact E].
      exfalso. apply N. eapply (tl_excl s u); eauto.
      * rewrite Hp'. reflexivity.
      * rewrite Ep2. reflexivity.
  Qed.

  Lemma ts_vr v y : getv s' v = VReady y -> inq s' y = false.
  Proof.
    intros Hv. rewrite (getv_of_vcpus _ _ _ Evs) in Hv.
    destruct (lt_dec y (nthreads s)) as [Hy|Hy]; [|apply inq_oob; rewrite Hn; lia].
    pose proof (s_vr _ I _ _ Hv) as Eq.
    destruct (summ_inq _ _ _ y Hs Hy) as [E|[(a&Ep2&->&E)|(kk2&Ep2&E)]]; [congruence| |exact E].
    exfalso. eapply (tl_excl_v s u u v); eauto.
    - apply getv_range. rewrite Hv. discriminate.
    - rewrite Ep2. reflexivity.
    - rewrite Hv. reflexivity.
  Qed.

  Lemma ts_hand y : pend s' y = true -> In y (queue s') ->
    exists h k c, (h < nthreads s')%nat /\ (pcof s' h = PIQLock (KHead k c) y \/ pcof s' h = PIDeq (KHead k c) y).
  Proof.
    intros Hpd Hi. rewrite Hn. destruct (ts_in_queue _ Hi) as [Ho|(a&Ep&->)].
    - destruct (s_q _ I _ Ho) as (Hy&Hq&_).
      destruct (summ_pend _ _ _ y Hs Hy) as [E|[(k&c&c'&Ep&Ep')|(->&E)]]; [| |congruence].
      + rewrite E in Hpd. destruct (s_hand _ I _ Hpd Ho) as (h&k&c&Hh&Hw).
        destruct (Nat.eq_dec h u) as [->|N].
        * destruct (summ_wit _ _ _ _ _ _ Hs Hw) as [W|[[_ W]|W]].
          -- exists u, k, c. auto.
          -- congruence.
          -- exfalso. destruct (summ_at_deq _ _ _ _ _ Hs W) as (Eq&_). rewrite Eq in Hi.
             eapply notin_remove_tid; [apply (s_nodup _ I)|exact Hi].
        * exists h, k, c. rewrite Fr by auto. auto.
      + exists u, k, c'. auto.
    - exfalso. pose proof (s_enq _ I _ Hu) as Hf. rewrite Ep in Hf. specialize (Hf eq_refl).
      destruct (summ_pend _ _ _ u Hs Hu) as [E|[(k&c&c'&Ep2&_)|(_&E)]]; congruence.
  Qed.

  Lemma ts_cmp t k c x : (t < nthreads s')%nat -> pcof s' t = TRCmp k c x -> (x < nthreads s')%nat -> pend s' x = false.
  Proof.
    intros Ht Hp' Hx. rewrite Hn in Ht, Hx.
    destruct (Nat.eq_dec t u) as [->|N].
    - destruct (summ_to_trcmp _ _ _ _ _ _ Hs Hp') as [Ep Hh].
      destruct (summ_pend _ _ _ x Hs Hx) as [E|[(k2&c2&c'&Ep2&_)|(_&E)]]; [|congruence|exact E].
      rewrite E. destruct (pend s x) eqn:Hpd; [|reflexivity].
      exfalso. destruct (s_hand _ I _ Hpd (head_in _ _ Hh)) as (h&k2&c2&Hh2&Hw).
      assert (h = u).
      { eapply (tl_excl s x); eauto.
        - destruct Hw as [W|W]; rewrite W; reflexivity.
        - rewrite Ep. reflexivity. }
      subst h. destruct Hw; congruence.
    - rewrite Fr in Hp' by auto. pose proof (s_cmp _ I _ _ _ _ Ht Hp' Hx) as Hf.
      destruct (summ_pend _ _ _ x Hs Hx) as [E|[(k2&c2&c'&Ep2&_)|(_&E)]]; [congruence| |exact E].
      exfalso. apply N. eapply (tl_excl s x); eauto.
      + rewrite Hp'. reflexivity.
      + rewrite Ep2. reflexivity.
  Qed.

  Lemma ts_enq t : (t < nthreads s')%nat -> enqpc (pcof s' t) = true -> pend s' t = false.
  Proof.
    intros Ht Hp'. rewrite Hn in Ht.
    destruct (Nat.eq_dec t u) as [->|N].
    - destruct (summ_to_enq _ _ _ Hs Hp') as [(a&_&E)|Ep]; [exact E|].
      pose proof (s_enq _ I _ Hu Ep) as Hf.
      destruct (summ_pend _ _ _ u Hs Hu) as [E|[(k2&c2&c'&Ep2&_)|(_&E)]]; [congruence| |exact E].
      rewrite Ep2 in Ep. discriminate.
    - rewrite Fr in Hp' by auto. pose proof (s_enq _ I _ Ht Hp') as Hf.
      destruct (summ_pend _ _ _ t Hs Ht) as [E|[(k2&c2&c'&Ep2&_)|(_&E)]]; [congruence| |exact E].
      exfalso. apply N. symmetry. eapply (sp_excl s); eauto.
      + rewrite Ep2. reflexivity.
      + destruct (pcof s t); cbn [enqpc] in Hp'; try discriminate Hp'; reflexivity.
  Qed.

  Lemma ts_ph t : (t < nthreads s')%nat -> pc_args (pcof s' t) <> None -> vcof s' t <> None.
  Proof.
    intros Ht Hp'. rewrite Hn in Ht. pose proof Hs as Hs2. open_summ Hs2.
    unfold vcof. rewrite Evc. destruct (Nat.eq_dec t u) as [->|N].
    - apply (s_ph _ I _ Hu). destruct Ea as [Ea|Ea]; congruence.
    - rewrite Fr in Hp' by auto. apply (s_ph _ I _ Ht Hp').
  Qed.

  Lemma sinv_tstep_core : sinv s'.
  Proof.
    constructor; [exact ts_nodup|exact ts_q|exact ts_pis|exact ts_vr|exact ts_hand|exact ts_cmp|exact ts_enq|exact ts_ph].
  Qed.
End TSTEP.

Lemma sinv_tstep s u s' : sinv s -> sp_inv s -> locks_inv s -> tstep s u = Some s' -> sinv s'.
Proof.
  intros I Isp (Ho&Ins&Iq&It) H.
  pose proof (tstep_sp _ _ _ H) as [Hu _]. pose proof (tstep_nthreads _ _ _ H) as Hn.
  pose proof (tstep_summ _ _ _ H Ho (Ins _ Hu)) as Hs.
  destruct (tstep_locks _ _ _ H Ho (Ins _ Hu)) as (_&_&_&Ev).
  eapply sinv_tstep_core; eauto. intros; eapply tstep_pc_frame; eauto.
Qed.

