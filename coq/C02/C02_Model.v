(* C02_Model.v — FINE-GRAINED model of photon::semaphore.  EXECUTABLE DEFINITIONS ONLY.

   Anchors (pinned tree):
     thread/thread.h   487-532   class semaphore (ctor, wait, signal, count; m_count, m_ooo_resume, splock)
     thread/thread.cpp 1887-1909 semaphore::wait_interruptible
                       1910-1934 semaphore::try_resume  (head loop + out-of-order scan)
                       1935-1944 semaphore::try_subtract
                       1358-1374 prepare_usleep, 1393-1400 thread_usleep_defer, 232-239 set_error_number
                       1696-1705 waitq_translate_errno, 1713-1718 waitq::wait_defer
                       1459-1475 prelocked_thread_interrupt, 724-736 dequeue_ready_atomic
                       1476-1492 thread_interrupt, 1521-1533 indirect_lock (ScopedLockHead 1731-1739)
                       1263-1304 resume_threads (stand-by drain, expiry)
     thread/awaiter.h  40-48     Awaiter<PhotonContext> (semaphore in the waiter's frame)

   Participants: any number of threads `PT t` — photon threads of any vCPU (`t_vcpu = Some v`) and
   plain OS threads (`t_vcpu = None`: may call signal() and thread_interrupt()) — and the
   scheduler side of every vCPU `PV v` (resume_threads: stand-by drain and expiry of sleepers).
   ONE transition = ONE access to shared state (atomic load / store / RMW / CAS), or a block run
   under a lock whose whole footprint is only accessed under that lock, or a spin on a held
   spinlock (a stutter step: `step` returns the unchanged state).  Sequential consistency.
   Time is `now`, advanced by `LTick`.  uint64_t arithmetic wraps where the C++ can reach it
   (fetch_add).  Asserts are off (-DNDEBUG) and therefore absent.

   Abstractions (stated, not hidden):
     * the run queue is not represented: a READY thread may start running at any moment (`LRun`);
       this over-approximates the real scheduler (more interleavings), so every invariant proved
       here holds for the real one; the single-vCPU cooperative run (C02_Coop.v) drives the SAME
       per-thread step function in the order of the real run queue;
     * the sleep queue is the flag `t_slq` (idx != -1) + `t_ts`; the heap order is C04's business;
       the stand-by queue is the state STANDBY itself (state change and push are one step);
     * a thread sleeps only in this semaphore's wait queue (other primitives: frame);
     * one semaphore (steps of other semaphores touch disjoint records). *)
From Coq Require Import ZArith List Bool Arith.
From PV Require Import Base.U64.
Import ListNotations.
Local Open Scope Z_scope.

Definition ETIMEDOUT : Z := 110.
Definition ESHUTDOWN : Z := 108.

Inductive tstate : Type := Ready | Running | Sleeping | Standby.
Definition tstate_eqb (a b : tstate) : bool :=
  match a, b with
  | Ready, Ready | Running, Running | Sleeping, Sleeping | Standby, Standby => true
  | _, _ => false
  end.

Inductive part : Type := PT (t : nat) | PV (v : nat).
Definition part_eqb (a b : part) : bool :=
  match a, b with
  | PT x, PT y => Nat.eqb x y
  | PV x, PV y => Nat.eqb x y
  | _, _ => false
  end.

(* arguments of one wait call: demand, expiration (class Timeout), wait() vs wait_interruptible() *)
Record wargs : Type := mkW { w_c : Z; w_dl : Z; w_un : bool }.

(* who runs try_resume, and where it returns to *)
Inductive caller : Type :=
| CSignal (ep : nat)                     (* signal() 514-520; ep = ghost epoch at lock acquisition *)
| CWaitFail (a : wargs) (ret eno : Z).   (* wait_interruptible 1899-1905; eno = saved errno *)

(* who runs prelocked_thread_interrupt, and where it returns to *)
Inductive pikont : Type :=
| KHead (k : caller) (cnt : Z)           (* head loop 1919 *)
| KScan (k : caller) (cnt : Z) (i : nat) (* out-of-order scan 1931, element index i *)
| KIntr.                                 (* thread_interrupt 1491 *)

Inductive pc : Type :=
| Idle
(* ---- wait_interruptible(count, timeout) ---- *)
| WLock1 (a : wargs)                     (* 1890 splock.lock() *)
| WLoad (a : wargs)                      (* 1937 m_count.load() *)
| WCas (a : wargs) (mc : Z)              (* 1941 compare_exchange_strong *)
| WQLock (a : wargs)                     (* 1362 SCOPED_LOCK(waitq_lock) *)
| WTLock (a : wargs)                     (* 1363 SCOPED_LOCK(current->lock) *)
| WEnq (a : wargs)                       (* 1365-1373, then current->lock.unlock() *)
| WQUnlock (a : wargs)                   (* waitq_lock.unlock() *)
| WDefer (a : wargs)                     (* switch_context_defer: spinlock_unlock(&splock) on the next stack *)
| WAsleep (a : wargs)                    (* switched out; resumes at set_error_number() *)
| WLock2 (a : wargs) (ret : Z)           (* 1897 splock.lock() *)
| WFailLoad (a : wargs) (ret : Z)        (* 1900 m_count.load() *)
| WRet (a : wargs) (ret took : Z)        (* DEFER: counter = 0; splock.unlock(); return *)
(* ---- signal(count) ---- *)
| SLock (n : Z)                          (* 516 *)
| SAdd (n : Z) (ep : nat)                (* 517 fetch_add *)
| SUnlock (ep : nat)                     (* 519/520 *)
(* ---- try_resume(cnt) ---- *)
| TRHead (k : caller) (cnt : Z)                  (* 1525 x = *ppt *)
| TRLockX (k : caller) (cnt : Z) (x : nat)       (* 1528 x->lock.lock() *)
| TRRecheck (k : caller) (cnt : Z) (x : nat)     (* 1529 x == *ppt *)
| TRUnlockRetry (k : caller) (cnt : Z) (x : nat) (* 1531 *)
| TRCmp (k : caller) (cnt : Z) (x : nat)         (* 1916-1918 (+1465) *)
| TRUnlockBreak (k : caller) (cnt : Z) (x : nat) (* ~ScopedLockHead on break *)
| TRUnlockLoop (k : caller) (cnt : Z) (x : nat)  (* ~ScopedLockHead at the end of the body *)
| TRTail (k : caller) (cnt : Z)                  (* 1921 *)
| SCQLock (k : caller) (cnt : Z)                 (* 1923 *)
| SCTLock (k : caller) (cnt : Z) (i : nat)       (* 1927 *)
| SCCmp (k : caller) (cnt : Z) (i : nat)         (* 1928-1931 *)
| SCTUnlock (k : caller) (cnt : Z) (i : nat)     (* end of the loop body, th = th->next() *)
| SCQUnlock (k : caller)                         (* end of scope 1934 *)
| Crashed                                        (* q.th->next() with q.th == nullptr (1924) *)
(* ---- prelocked_thread_interrupt(x, e) after error_number := e ---- *)
| PIQLock (kk : pikont) (x : nat)        (* 729 SCOPED_LOCK(waitq->lock) *)
| PIDeq (kk : pikont) (x : nat)          (* 730-731, unlock *)
| PIState (kk : pikont) (x : nat)        (* 735 + 1469 / 1472-1473 *)
(* ---- thread_interrupt(x, e) ---- *)
| IRead (x : nat) (e : Z)                (* 1480 *)
| IOutChk (x : nat) (e : Z) (st : tstate)(* 1483 *)
| IOutSet (x : nat) (e : Z)              (* 1484 *)
| ILock (x : nat) (e : Z)                (* 1487 *)
| IRecheck (x : nat) (e : Z)             (* 1488-1489, 1465 *)
| IUnlockOut (x : nat) (e : Z) (st : tstate)
| IUnlock (x : nat).

Record thread : Type := mkT {
  t_vcpu : option nat;        (* None: a plain OS thread *)
  t_state : tstate;
  t_lock : option part;       (* thread::lock, holder *)
  t_inq : bool;               (* thread::waitq != nullptr *)
  t_err : Z;                  (* thread::error_number *)
  t_ts : Z;                   (* thread::ts_wakeup *)
  t_slq : bool;               (* thread::idx != -1 *)
  t_semcnt : Z;               (* thread::semaphore_count *)
  t_errno : Z;                (* errno (thread-local) *)
  t_pc : pc;
  t_ret : Z;                  (* value returned by the last completed call *)
  t_pend : bool               (* ghost: woken by a resume pass, has not re-tried try_subtract yet *)
}.

Definition thread0 : thread := mkT None Running None false 0 0 false 0 0 Idle 0 false.

Definition set_state (th : thread) (x : tstate) := mkT (t_vcpu th) x (t_lock th) (t_inq th) (t_err th) (t_ts th) (t_slq th) (t_semcnt th) (t_errno th) (t_pc th) (t_ret th) (t_pend th).
Definition set_lock (th : thread) (x : option part) := mkT (t_vcpu th) (t_state th) x (t_inq th) (t_err th) (t_ts th) (t_slq th) (t_semcnt th) (t_errno th) (t_pc th) (t_ret th) (t_pend th).
Definition set_inq (th : thread) (x : bool) := mkT (t_vcpu th) (t_state th) (t_lock th) x (t_err th) (t_ts th) (t_slq th) (t_semcnt th) (t_errno th) (t_pc th) (t_ret th) (t_pend th).
Definition set_err (th : thread) (x : Z) := mkT (t_vcpu th) (t_state th) (t_lock th) (t_inq th) x (t_ts th) (t_slq th) (t_semcnt th) (t_errno th) (t_pc th) (t_ret th) (t_pend th).
Definition set_ts (th : thread) (x : Z) := mkT (t_vcpu th) (t_state th) (t_lock th) (t_inq th) (t_err th) x (t_slq th) (t_semcnt th) (t_errno th) (t_pc th) (t_ret th) (t_pend th).
Definition set_slq (th : thread) (x : bool) := mkT (t_vcpu th) (t_state th) (t_lock th) (t_inq th) (t_err th) (t_ts th) x (t_semcnt th) (t_errno th) (t_pc th) (t_ret th) (t_pend th).
Definition set_semcnt (th : thread) (x : Z) := mkT (t_vcpu th) (t_state th) (t_lock th) (t_inq th) (t_err th) (t_ts th) (t_slq th) x (t_errno th) (t_pc th) (t_ret th) (t_pend th).
Definition set_errno (th : thread) (x : Z) := mkT (t_vcpu th) (t_state th) (t_lock th) (t_inq th) (t_err th) (t_ts th) (t_slq th) (t_semcnt th) x (t_pc th) (t_ret th) (t_pend th).
Definition set_pc (th : thread) (x : pc) := mkT (t_vcpu th) (t_state th) (t_lock th) (t_inq th) (t_err th) (t_ts th) (t_slq th) (t_semcnt th) (t_errno th) x (t_ret th) (t_pend th).
Definition set_ret (th : thread) (x : Z) := mkT (t_vcpu th) (t_state th) (t_lock th) (t_inq th) (t_err th) (t_ts th) (t_slq th) (t_semcnt th) (t_errno th) (t_pc th) x (t_pend th).
Definition set_pend (th : thread) (x : bool) := mkT (t_vcpu th) (t_state th) (t_lock th) (t_inq th) (t_err th) (t_ts th) (t_slq th) (t_semcnt th) (t_errno th) (t_pc th) (t_ret th) x.

(* the scheduler side of a vCPU: resume_threads_inlined's expiry loop body 1285-1297 *)
Inductive vpc : Type :=
| VIdle
| VLock (t : nat)             (* 1287 SCOPED_LOCK(th->lock) *)
| VPop (t : nat)              (* 1288-1289 *)
| VDeqLock (t : nat)          (* 729 *)
| VDeq (t : nat)              (* 730-731 *)
| VReady (t : nat)            (* 735, 1291 *)
| VUnlock (t : nat).

Record state : Type := mkS {
  now : Z;                    (* photon::now *)
  m_count : Z;                (* semaphore::m_count *)
  ooo : bool;                 (* semaphore::m_ooo_resume *)
  splock : option part;       (* semaphore::splock *)
  qlock : option part;        (* waitq::q.lock *)
  queue : list nat;           (* waitq::q, head first (q.th = head or nullptr) *)
  threads : list thread;
  vcpus : list vpc;
  (* ghost *)
  g_init : Z;                 (* initial count *)
  g_sig : Z;                  (* sum of the counts of all fetch_adds done *)
  g_ret0 : Z;                 (* sum of the demands of the waits that returned 0 *)
  g_rets : nat;               (* number of wait_interruptible calls that have returned (epoch) *)
  g_crash : bool;             (* some participant dereferenced q.th == nullptr at 1924 *)
  g_refail : bool;            (* some woken waiter's re-subtract failed (it was barged) *)
  g_wakes : list nat          (* threads made READY on the waker's own vCPU, newest first
                                 (consumed by the cooperative bridge: run-queue tail inserts) *)
}.

Definition set_now s x := mkS x (m_count s) (ooo s) (splock s) (qlock s) (queue s) (threads s) (vcpus s) (g_init s) (g_sig s) (g_ret0 s) (g_rets s) (g_crash s) (g_refail s) (g_wakes s).
Definition set_count s x := mkS (now s) x (ooo s) (splock s) (qlock s) (queue s) (threads s) (vcpus s) (g_init s) (g_sig s) (g_ret0 s) (g_rets s) (g_crash s) (g_refail s) (g_wakes s).
Definition set_splock s x := mkS (now s) (m_count s) (ooo s) x (qlock s) (queue s) (threads s) (vcpus s) (g_init s) (g_sig s) (g_ret0 s) (g_rets s) (g_crash s) (g_refail s) (g_wakes s).
Definition set_qlock s x := mkS (now s) (m_count s) (ooo s) (splock s) x (queue s) (threads s) (vcpus s) (g_init s) (g_sig s) (g_ret0 s) (g_rets s) (g_crash s) (g_refail s) (g_wakes s).
Definition set_queue s x := mkS (now s) (m_count s) (ooo s) (splock s) (qlock s) x (threads s) (vcpus s) (g_init s) (g_sig s) (g_ret0 s) (g_rets s) (g_crash s) (g_refail s) (g_wakes s).
Definition set_threads s x := mkS (now s) (m_count s) (ooo s) (splock s) (qlock s) (queue s) x (vcpus s) (g_init s) (g_sig s) (g_ret0 s) (g_rets s) (g_crash s) (g_refail s) (g_wakes s).
Definition set_vcpus s x := mkS (now s) (m_count s) (ooo s) (splock s) (qlock s) (queue s) (threads s) x (g_init s) (g_sig s) (g_ret0 s) (g_rets s) (g_crash s) (g_refail s) (g_wakes s).
Definition set_gsig s x := mkS (now s) (m_count s) (ooo s) (splock s) (qlock s) (queue s) (threads s) (vcpus s) (g_init s) x (g_ret0 s) (g_rets s) (g_crash s) (g_refail s) (g_wakes s).
Definition set_gret0 s x := mkS (now s) (m_count s) (ooo s) (splock s) (qlock s) (queue s) (threads s) (vcpus s) (g_init s) (g_sig s) x (g_rets s) (g_crash s) (g_refail s) (g_wakes s).
Definition set_grets s x := mkS (now s) (m_count s) (ooo s) (splock s) (qlock s) (queue s) (threads s) (vcpus s) (g_init s) (g_sig s) (g_ret0 s) x (g_crash s) (g_refail s) (g_wakes s).
Definition set_gcrash s x := mkS (now s) (m_count s) (ooo s) (splock s) (qlock s) (queue s) (threads s) (vcpus s) (g_init s) (g_sig s) (g_ret0 s) (g_rets s) x (g_refail s) (g_wakes s).
Definition set_grefail s x := mkS (now s) (m_count s) (ooo s) (splock s) (qlock s) (queue s) (threads s) (vcpus s) (g_init s) (g_sig s) (g_ret0 s) (g_rets s) (g_crash s) x (g_wakes s).
Definition set_gwakes s x := mkS (now s) (m_count s) (ooo s) (splock s) (qlock s) (queue s) (threads s) (vcpus s) (g_init s) (g_sig s) (g_ret0 s) (g_rets s) (g_crash s) (g_refail s) x.

Fixpoint upd_nth {A : Type} (l : list A) (i : nat) (v : A) : list A :=
  match l, i with
  | [], _ => []
  | _ :: r, O => v :: r
  | x :: r, S j => x :: upd_nth r j v
  end.

Fixpoint remove_tid (t : nat) (l : list nat) : list nat :=
  match l with
  | [] => []
  | x :: r => if Nat.eqb x t then r else x :: remove_tid t r
  end.

Definition getth (s : state) (t : nat) : thread := nth t (threads s) thread0.
Definition setth (s : state) (t : nat) (th : thread) : state := set_threads s (upd_nth (threads s) t th).
Definition modth (s : state) (t : nat) (f : thread -> thread) : state := setth s t (f (getth s t)).
Definition getv (s : state) (v : nat) : vpc := nth v (vcpus s) VIdle.
Definition setv (s : state) (v : nat) (x : vpc) : state := set_vcpus s (upd_nth (vcpus s) v x).
Definition setpc (s : state) (t : nat) (x : pc) : state := modth s t (fun th => set_pc th x).
Definition head (s : state) : option nat := match queue s with [] => None | x :: _ => Some x end.

(* class Timeout (common/timeout.h): Timeout(x) and the saturating deadline *)
Definition timeout_of (nw x : Z) : Z := if x =? 0 then 0 else sat_add nw x.

(* same vCPU as the caller?  (1467: !rq.current || vcpu != rq.current->get_vcpu()) *)
Definition same_vcpu (s : state) (p : part) (x : nat) : bool :=
  match p with
  | PV v => match t_vcpu (getth s x) with Some w => Nat.eqb v w | None => false end
  | PT t => match t_vcpu (getth s t), t_vcpu (getth s x) with
            | Some v, Some w => Nat.eqb v w
            | _, _ => false
            end
  end.

(* ------------------------------------------------------------------------------------------ *)
(* return from try_resume to its caller *)
Definition tr_return (s : state) (t : nat) (k : caller) : state :=
  match k with
  | CSignal ep => setpc s t (SUnlock ep)
  | CWaitFail a ret eno => modth s t (fun th => set_pc (set_errno th eno) (WRet a ret 0))   (* 1903 errno = eno *)
  end.

(* return from prelocked_thread_interrupt to its caller *)
Definition pi_return (s : state) (t : nat) (kk : pikont) (x : nat) : state :=
  match kk with
  | KHead k cnt => setpc s t (TRUnlockLoop k cnt x)
  | KScan k cnt i => setpc s t (SCTUnlock k cnt i)        (* unreachable: see C02_Proofs.scan_pi_stuck *)
  | KIntr => setpc s t (IUnlock x)
  end.

(* the loop condition of the scan (1925): th != q.th && cnt, at element index i *)
Definition scan_next (s : state) (t : nat) (k : caller) (cnt : Z) (i : nat) : state :=
  if Nat.ltb i (length (queue s)) && negb (cnt =? 0)
  then setpc s t (SCTLock k cnt i) else setpc s t (SCQUnlock k).

(* may thread t execute its next step?  A photon thread executes only while RUNNING, except the
   tail of prepare_usleep and the deferred unlock, which run after `state := SLEEPING`. *)
Definition can_run (th : thread) : bool :=
  match t_pc th with
  | WQUnlock _ | WDefer _ => true
  | _ => match t_vcpu th with None => true | Some _ => tstate_eqb (t_state th) Running end
  end.

(* one atomic step of thread t *)
Definition tstep (s : state) (t : nat) : option state :=
  let th := getth s t in
  let me := PT t in
  if negb (Nat.ltb t (length (threads s))) then None else
  if negb (can_run th) then None else
  match t_pc th with
  | Idle => None
  | Crashed => None
  (* ---------------- wait_interruptible ---------------- *)
  | WLock1 a =>                                          (* 1890 + 1892-1893 counter = count *)
      match splock s with
      | Some _ => Some s
      | None => Some (modth (set_splock s (Some me)) t (fun th => set_pc (set_semcnt th (w_c a)) (WLoad a)))
      end
  | WLoad a =>                                           (* 1937-1939 *)
      let mc := m_count s in
      if mc <? w_c a
      then Some (modth (if t_pend th then set_grefail s true else s) t (fun th => set_pc (set_pend th false) (WQLock a)))
      else Some (setpc s t (WCas a mc))
  | WCas a mc =>                                         (* 1940-1943 *)
      if m_count s =? mc
      then Some (modth (set_count s (mc - w_c a)) t (fun th => set_pc (set_pend th false) (WRet a 0 (w_c a))))
      else Some (setpc s t (WLoad a))
  | WQLock a =>
      match qlock s with
      | Some _ => Some s
      | None => Some (setpc (set_qlock s (Some me)) t (WTLock a))
      end
  | WTLock a =>
      match t_lock th with
      | Some _ => Some s
      | None => Some (modth s t (fun th => set_pc (set_lock th (Some me)) (WEnq a)))
      end
  | WEnq a =>                                            (* 1365-1373; then ~SCOPED_LOCK(current->lock) *)
      Some (modth (set_queue s (queue s ++ [t])) t
              (fun th => set_pc (set_lock (set_slq (set_ts (set_inq (set_state th Sleeping) true) (w_dl a)) true) None) (WQUnlock a)))
  | WQUnlock a => Some (setpc (set_qlock s None) t (WDefer a))
  | WDefer a => Some (setpc (set_splock s None) t (WAsleep a))
  | WAsleep a =>                                         (* 232-239 set_error_number; 1696-1705 *)
      let e := t_err th in
      if e =? 0
      then (* slept the whole timeout: errno = ETIMEDOUT, -1 *)
           Some (modth s t (fun th => set_pc (set_errno th ETIMEDOUT) (WLock2 a (-1))))
      else (* errno = e; error_number = 0; e == -1 ? 0 : -1 *)
           Some (modth s t (fun th => set_pc (set_errno (set_err th 0) e) (WLock2 a (if e =? -1 then 0 else -1))))
  | WLock2 a ret =>                                      (* 1897 *)
      match splock s with
      | Some _ => Some s
      | None =>
          let s1 := set_splock s (Some me) in
          if ret <? 0
          then if ooo s then Some (setpc s1 t (WRet a ret 0))          (* 1900 !m_ooo_resume && ... *)
               else Some (setpc s1 t (WFailLoad a ret))
          else Some (setpc s1 t (WLoad a))                              (* 1895 loop *)
      end
  | WFailLoad a ret =>                                   (* 1900-1902 *)
      let cnt := m_count s in
      if cnt =? 0 then Some (setpc s t (WRet a ret 0))
      else Some (setpc s t (TRHead (CWaitFail a ret (t_errno th)) cnt))
  | WRet a ret took =>                                   (* counter = 0; splock.unlock(); 496-502 loop *)
      let s1 := set_grets (set_splock s None) (S (g_rets s)) in
      let s2 := if ret =? 0 then set_gret0 s1 (g_ret0 s1 + took) else s1 in
      if w_un a && (ret <? 0) && negb (t_errno th =? ESHUTDOWN) && negb (t_errno th =? ETIMEDOUT)
      then Some (modth s2 t (fun th => set_pc (set_semcnt th 0) (WLock1 a)))
      else Some (modth s2 t (fun th => set_pc (set_ret (set_semcnt th 0) ret) Idle))
  (* ---------------- signal ---------------- *)
  | SLock n =>
      match splock s with
      | Some _ => Some s
      | None => Some (setpc (set_splock s (Some me)) t (SAdd n (g_rets s)))
      end
  | SAdd n ep =>                                         (* 517: cnt = fetch_add(count) + count, both mod 2^64 *)
      let c1 := wrap (m_count s + n) in
      Some (setpc (set_gsig (set_count s c1) (g_sig s + n)) t (TRHead (CSignal ep) c1))
  | SUnlock ep => Some (modth (set_splock s None) t (fun th => set_pc (set_ret th 0) Idle))
  (* ---------------- try_resume ---------------- *)
  | TRHead k cnt =>
      match head s with
      | None => Some (setpc s t (TRTail k cnt))
      | Some x => Some (setpc s t (TRLockX k cnt x))
      end
  | TRLockX k cnt x =>
      match t_lock (getth s x) with
      | Some _ => Some s
      | None => Some (setpc (modth s x (fun th => set_lock th (Some me))) t (TRRecheck k cnt x))
      end
  | TRRecheck k cnt x =>
      match head s with
      | Some y => if Nat.eqb x y then Some (setpc s t (TRCmp k cnt x)) else Some (setpc s t (TRUnlockRetry k cnt x))
      | None => Some (setpc s t (TRUnlockRetry k cnt x))
      end
  | TRUnlockRetry k cnt x => Some (setpc (modth s x (fun th => set_lock th None)) t (TRHead k cnt))
  | TRCmp k cnt x =>                                     (* 1916-1919, 1465 *)
      let c := t_semcnt (getth s x) in
      if cnt <? c then Some (setpc s t (TRUnlockBreak k cnt x))
      else Some (setpc (modth s x (fun th => set_pend (set_err th (-1)) true)) t (PIQLock (KHead k (cnt - c)) x))
  | TRUnlockBreak k cnt x => Some (setpc (modth s x (fun th => set_lock th None)) t (TRTail k cnt))
  | TRUnlockLoop k cnt x => Some (setpc (modth s x (fun th => set_lock th None)) t (TRHead k cnt))
  | TRTail k cnt =>                                      (* 1921 *)
      match head s with
      | None => Some (tr_return s t k)
      | Some _ => if (cnt =? 0) || negb (ooo s) then Some (tr_return s t k) else Some (setpc s t (SCQLock k cnt))
      end
  | SCQLock k cnt =>                                     (* 1923-1925 *)
      match qlock s with
      | Some _ => Some s
      | None =>
          let s1 := set_qlock s (Some me) in
          match queue s with
          | [] => Some (setpc (set_gcrash s1 true) t Crashed)      (* q.th->next() on nullptr *)
          | _ => Some (scan_next s1 t k cnt 1)
          end
      end
  | SCTLock k cnt i =>
      let x := nth i (queue s) O in
      match t_lock (getth s x) with
      | Some _ => Some s
      | None => Some (setpc (modth s x (fun th => set_lock th (Some me))) t (SCCmp k cnt i))
      end
  | SCCmp k cnt i =>
      let x := nth i (queue s) O in
      let c := t_semcnt (getth s x) in
      if c <=? cnt
      then Some (setpc (modth s x (fun th => set_pend (set_err th (-1)) true)) t (PIQLock (KScan k (cnt - c) i) x))
      else Some (setpc s t (SCTUnlock k cnt i))
  | SCTUnlock k cnt i =>
      let x := nth i (queue s) O in
      Some (scan_next (modth s x (fun th => set_lock th None)) t k cnt (S i))
  | SCQUnlock k => Some (tr_return (set_qlock s None) t k)
  (* ---------------- prelocked_thread_interrupt ---------------- *)
  | PIQLock kk x =>                                      (* 727-729 *)
      if t_inq (getth s x)
      then match qlock s with
           | Some _ => Some s
           | None => Some (setpc (set_qlock s (Some me)) t (PIDeq kk x))
           end
      else Some (setpc s t (PIState kk x))
  | PIDeq kk x =>                                        (* 730-731 + unlock *)
      Some (setpc (modth (set_qlock (set_queue s (remove_tid x (queue s))) None) x (fun th => set_inq th false)) t (PIState kk x))
  | PIState kk x =>                                      (* 735; 1468-1469 or 1471-1473 *)
      if same_vcpu s me x
      then Some (pi_return (set_gwakes (modth s x (fun th => set_slq (set_state th Ready) false)) (x :: g_wakes s)) t kk x)
      else Some (pi_return (modth s x (fun th => set_state th Standby)) t kk x)
  (* ---------------- thread_interrupt ---------------- *)
  | IRead x e =>
      let st := t_state (getth s x) in
      if tstate_eqb st Sleeping then Some (setpc s t (ILock x e)) else Some (setpc s t (IOutChk x e st))
  | IOutChk x e st =>
      if tstate_eqb st Ready && (t_err (getth s x) =? 0) then Some (setpc s t (IOutSet x e))
      else Some (modth s t (fun th => set_pc (set_ret th 0) Idle))
  | IOutSet x e => Some (modth (modth s x (fun th => set_err th e)) t (fun th => set_pc (set_ret th 0) Idle))
  | ILock x e =>
      match t_lock (getth s x) with
      | Some _ => Some s
      | None => Some (setpc (modth s x (fun th => set_lock th (Some me))) t (IRecheck x e))
      end
  | IRecheck x e =>
      let st := t_state (getth s x) in
      if tstate_eqb st Sleeping
      then Some (setpc (modth s x (fun th => set_err th e)) t (PIQLock KIntr x))
      else Some (setpc s t (IUnlockOut x e st))
  | IUnlockOut x e st => Some (setpc (modth s x (fun th => set_lock th None)) t (IOutChk x e st))
  | IUnlock x => Some (modth (modth s x (fun th => set_lock th None)) t (fun th => set_pc (set_ret th 0) Idle))
  end.

(* one atomic step of the scheduler side of vCPU v *)
Definition vstep (s : state) (v : nat) : option state :=
  let me := PV v in
  if negb (Nat.ltb v (length (vcpus s))) then None else
  match getv s v with
  | VIdle => None
  | VLock t =>
      match t_lock (getth s t) with
      | Some _ => Some s
      | None => Some (setv (modth s t (fun th => set_lock th (Some me))) v (VPop t))
      end
  | VPop t =>                                            (* 1288-1289 *)
      let s1 := modth s t (fun th => set_slq th false) in
      if tstate_eqb (t_state (getth s t)) Sleeping
      then if t_inq (getth s t) then Some (setv s1 v (VDeqLock t)) else Some (setv s1 v (VReady t))
      else Some (setv s1 v (VUnlock t))
  | VDeqLock t =>
      match qlock s with
      | Some _ => Some s
      | None => Some (setv (set_qlock s (Some me)) v (VDeq t))
      end
  | VDeq t =>
      Some (setv (modth (set_qlock (set_queue s (remove_tid t (queue s))) None) t (fun th => set_inq th false)) v (VReady t))
  | VReady t => Some (setv (modth s t (fun th => set_state th Ready)) v (VUnlock t))
  | VUnlock t => Some (setv (modth s t (fun th => set_lock th None)) v VIdle)
  end.

(* the calls a thread may start *)
Inductive opcall : Type :=
| OpWait (c tmo : Z) (unint : bool)      (* wait(c, tmo) if unint, else wait_interruptible(c, tmo) *)
| OpSignal (n : Z)
| OpInterrupt (x : nat) (e : Z).

Inductive label : Type :=
| LStart (t : nat) (o : opcall)
| LAdv (t : nat)
| LRun (t : nat)                         (* t's vCPU switches to the READY thread t *)
| LStandby (v t : nat)                   (* 1271-1277: drain t from v's stand-by queue *)
| LExpire (v t : nat)                    (* 1285-1286: t is in v's sleep queue with ts_wakeup <= now *)
| LVAdv (v : nat)
| LTick (d : Z).

Definition start (s : state) (t : nat) (o : opcall) : option state :=
  let th := getth s t in
  if negb (Nat.ltb t (length (threads s))) then None else
  match t_pc th with
  | Idle =>
      if negb (can_run th) then None else
      match o with
      | OpWait c tmo un =>
          match t_vcpu th with
          | None => None                                  (* CURRENT == nullptr: not a photon thread *)
          | Some _ =>
              if negb ((0 <=? c) && (c <? W64) && (0 <=? tmo) && (tmo <? W64)) then None else
              if c =? 0 then Some (modth s t (fun th => set_ret th 0))     (* 1889 *)
              else Some (setpc s t (WLock1 (mkW c (timeout_of (now s) tmo) un)))
          end
      | OpSignal n =>
          if negb ((0 <=? n) && (n <? W64)) then None else
          if n =? 0 then Some (modth s t (fun th => set_ret th 0))         (* 515 *)
          else Some (setpc s t (SLock n))
      | OpInterrupt x e =>
          if Nat.ltb x (length (threads s)) && negb (e =? 0)
          then match t_vcpu (getth s x) with
               | Some _ => Some (setpc s t (IRead x e))
               | None => None
               end
          else None
      end
  | _ => None
  end.

Definition step (s : state) (l : label) : option state :=
  match l with
  | LStart t o => start s t o
  | LAdv t => tstep s t
  | LRun t =>
      let th := getth s t in
      if Nat.ltb t (length (threads s)) && tstate_eqb (t_state th) Ready
      then Some (modth s t (fun th => set_state th Running)) else None
  | LStandby v t =>
      let th := getth s t in
      if Nat.ltb t (length (threads s)) && tstate_eqb (t_state th) Standby
         && match t_vcpu th with Some w => Nat.eqb v w | None => false end
      then Some (modth s t (fun th => set_slq (set_state th Ready) false)) else None
  | LExpire v t =>
      let th := getth s t in
      if Nat.ltb t (length (threads s)) && Nat.ltb v (length (vcpus s))
         && match t_vcpu th with Some w => Nat.eqb v w | None => false end
         && t_slq th && (t_ts th <=? now s)
      then match getv s v with VIdle => Some (setv s v (VLock t)) | _ => None end
      else None
  | LVAdv v => vstep s v
  | LTick d => if 0 <=? d then Some (set_now s (now s + d)) else None
  end.

(* initial state: count tokens, resume mode, the thread population (vcpu of each thread; the
   photon threads start RUNNING or READY as given), nv vCPUs *)
Definition mk_thread (vc : option nat) (st : tstate) : thread :=
  mkT vc st None false 0 0 false 0 0 Idle 0 false.
Definition init (count : Z) (o : bool) (ths : list (option nat)) (nv : nat) : state :=
  mkS 0 count o None None [] (map (fun vc => mk_thread vc Running) ths) (repeat VIdle nv)
      count 0 0 0 false false [].

Fixpoint run (s : state) (ls : list label) : option state :=
  match ls with
  | [] => Some s
  | l :: r => match step s l with Some s' => run s' r | None => None end
  end.
