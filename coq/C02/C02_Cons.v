(* C02_Cons.v - token conservation (T1) *)
From Coq Require Import ZArith List Bool Arith Lia.
From PV Require Import Base.U64 C02.C02_Model C02.C02_Base.
Import ListNotations.
Local Open Scope Z_scope.

(* ---------------------------------------------------------------------------------------- *)
(* sums over the thread table *)
Fixpoint tsum (F : thread -> Z) (l : list thread) : Z :=
  match l with [] => 0 | th :: r => F th + tsum F r end.
Lemma tsum_upd F l i v : (i < length l)%nat -> tsum F (upd_nth l i v) = tsum F l - F (nth i l thread0) + F v.
Proof. revert i; induction l; destruct i; simpl; intros; try lia. rewrite IHl by lia. lia. Qed.
Definition ssum (F : thread -> Z) (s : state) : Z := tsum F (threads s).
Lemma ssum_modth F s x f : (x < nthreads s)%nat -> ssum F (modth s x f) = ssum F s - F (getth s x) + F (f (getth s x)).
Proof. intros. unfold ssum, modth, setth; simpl. rewrite tsum_upd by auto. reflexivity. Qed.
Lemma ssum_modth_keep F s x f : (forall th, F (f th) = F th) -> ssum F (modth s x f) = ssum F s.
Proof.
  intros H. destruct (lt_dec x (nthreads s)).
  - rewrite ssum_modth by auto. rewrite H. lia.
  - unfold ssum, modth, setth; simpl. rewrite upd_nth_oob; auto. unfold nthreads in *; lia.
Qed.
Lemma ssum_nonneg F s : (forall th, 0 <= F th) -> 0 <= ssum F s.
Proof. intros H. unfold ssum. induction (threads s); simpl; [lia|]. specialize (H a). lia. Qed.
Lemma ssum_set_now F s v : ssum F (set_now s v) = ssum F s. Proof. reflexivity. Qed.
Lemma ssum_set_count F s v : ssum F (set_count s v) = ssum F s. Proof. reflexivity. Qed.
Lemma ssum_set_splock F s v : ssum F (set_splock s v) = ssum F s. Proof. reflexivity. Qed.
Lemma ssum_set_qlock F s v : ssum F (set_qlock s v) = ssum F s. Proof. reflexivity. Qed.
Lemma ssum_set_queue F s v : ssum F (set_queue s v) = ssum F s. Proof. reflexivity. Qed.
Lemma ssum_set_vcpus F s v : ssum F (set_vcpus s v) = ssum F s. Proof. reflexivity. Qed.
Lemma ssum_set_gsig F s v : ssum F (set_gsig s v) = ssum F s. Proof. reflexivity. Qed.
Lemma ssum_set_gret0 F s v : ssum F (set_gret0 s v) = ssum F s. Proof. reflexivity. Qed.
Lemma ssum_set_grets F s v : ssum F (set_grets s v) = ssum F s. Proof. reflexivity. Qed.
Lemma ssum_set_gcrash F s v : ssum F (set_gcrash s v) = ssum F s. Proof. reflexivity. Qed.
Lemma ssum_set_grefail F s v : ssum F (set_grefail s v) = ssum F s. Proof. reflexivity. Qed.
Lemma ssum_set_gwakes F s v : ssum F (set_gwakes s v) = ssum F s. Proof. reflexivity. Qed.
Lemma ssum_setv F s v p : ssum F (setv s v p) = ssum F s. Proof. reflexivity. Qed.
Global Hint Rewrite ssum_set_now ssum_set_count ssum_set_splock ssum_set_qlock ssum_set_queue ssum_set_vcpus ssum_set_gsig ssum_set_gret0 ssum_set_grets ssum_set_gcrash ssum_set_grefail ssum_set_gwakes ssum_setv : st.

(* ---------------------------------------------------------------------------------------- *)
(* local well-formedness of the program counters (facts each thread knows about its locals) *)
Definition caller_args (k : caller) : option wargs := match k with CWaitFail a _ _ => Some a | _ => None end.
Definition pik_caller (kk : pikont) : option caller :=
  match kk with KHead k _ | KScan k _ _ => Some k | KIntr => None end.
Definition pc_caller (p : pc) : option caller :=
  match p with
  | TRHead k _ | TRLockX k _ _ | TRRecheck k _ _ | TRUnlockRetry k _ _ | TRCmp k _ _ | TRUnlockBreak k _ _
  | TRUnlockLoop k _ _ | TRTail k _ | SCQLock k _ | SCTLock k _ _ | SCCmp k _ _ | SCTUnlock k _ _ | SCQUnlock k => Some k
  | PIQLock kk _ | PIDeq kk _ | PIState kk _ => pik_caller kk
  | _ => None
  end.
Definition pc_args (p : pc) : option wargs :=
  match p with
  | WLock1 a | WLoad a | WCas a _ | WQLock a | WTLock a | WEnq a | WQUnlock a | WDefer a | WAsleep a
  | WLock2 a _ | WFailLoad a _ | WRet a _ _ => Some a
  | _ => match pc_caller p with Some k => caller_args k | None => None end
  end.
Definition args_ok (a : wargs) : Prop := 0 < w_c a < W64.
Definition pc_wf (p : pc) : Prop :=
  (forall a, pc_args p = Some a -> args_ok a) /\
  match p with
  | WCas a mc => w_c a <= mc
  | WLock2 _ r => r = 0 \/ r = -1
  | WFailLoad _ r => r = -1
  | WRet a r took => (r = 0 /\ took = w_c a) \/ (r = -1 /\ took = 0)
  | SLock n | SAdd n _ => 0 < n < W64
  | _ => match pc_caller p with Some (CWaitFail _ r _) => r = -1 | _ => True end
  end.

Ltac zb := repeat match goal with
  | H : (_ <? _) = true |- _ => apply Z.ltb_lt in H
  | H : (_ <? _) = false |- _ => apply Z.ltb_ge in H
  | H : (_ <=? _) = true |- _ => apply Z.leb_le in H
  | H : (_ <=? _) = false |- _ => apply Z.leb_gt in H
  | H : (_ =? _) = true |- _ => apply Z.eqb_eq in H
  | H : (_ =? _) = false |- _ => apply Z.eqb_neq in H
  | H : negb _ = false |- _ => apply negb_false_iff in H
  | H : negb _ = true |- _ => apply negb_true_iff in H
  | H : _ && _ = true |- _ => apply andb_true_iff in H; destruct H
  end.

Lemma tstep_pcwf s t s' : tstep s t = Some s' -> pc_wf (pcof s t) -> pc_wf (pcof s' t).
Proof.
  intros H. tstep_cases H; apply ltb_lt in Hlt; norm; unfold pcof; try rewrite Hpc; auto;
    unfold pc_wf; cbn [pc_args pc_caller pik_caller caller_args]; intros [W1 W2]; (split; [first [exact W1 | (intros ? E; discriminate E) | (intros ? E; inv_some E; apply W1; reflexivity)]|]); zb; auto; try lia.
  all: try (destruct W2 as [W2|W2]; lia).
Qed.

Lemma start_pcwf s t o s' : start s t o = Some s' -> pc_wf (pcof s' t).
Proof.
  intros H. start_cases H; apply ltb_lt in Hlt; norm; unfold pcof; try rewrite Hpc;
    unfold pc_wf, args_ok; cbn [pc_args pc_caller pik_caller caller_args]; (split; [intros a' E; try discriminate; inv_some E; cbn [w_c]|]); zb; auto; try lia.
Qed.

Definition pcwf_inv (s : state) : Prop := forall t, (t < nthreads s)%nat -> pc_wf (pcof s t).

Lemma pcwf_inv_step s l s' : pcwf_inv s -> step s l = Some s' -> pcwf_inv s'.
Proof.
  intros Iv H t' Hl. destruct l.
  - simpl in H. destruct (start_effect _ _ _ _ H) as (Ht&Hn&Hi&Hh&Fr&_). rewrite Hn in Hl.
    destruct (Nat.eq_dec t' t) as [->|N]; [eapply start_pcwf; eauto|rewrite Fr; auto].
  - simpl in H. rewrite (tstep_nthreads _ _ _ H) in Hl.
    destruct (Nat.eq_dec t' t) as [->|N]; [eapply tstep_pcwf; eauto|erewrite tstep_pc_frame; eauto].
  - destruct (sched_effect _ _ _ H Logic.I) as (Hn&Hp&_). rewrite Hn in Hl. rewrite Hp; auto.
  - destruct (sched_effect _ _ _ H Logic.I) as (Hn&Hp&_). rewrite Hn in Hl. rewrite Hp; auto.
  - destruct (sched_effect _ _ _ H Logic.I) as (Hn&Hp&_). rewrite Hn in Hl. rewrite Hp; auto.
  - simpl in H. destruct (vstep_effect _ _ _ H) as (Hn&Hp&_). rewrite Hn in Hl. rewrite Hp; auto.
  - destruct (sched_effect _ _ _ H Logic.I) as (Hn&Hp&_). rewrite Hn in Hl. rewrite Hp; auto.
Qed.

(* ---------------------------------------------------------------------------------------- *)
(* T1: conservation of tokens *)
(* tokens already subtracted by a wait call that has not returned yet (it will return 0) *)
Definition infl (th : thread) : Z := match t_pc th with WRet _ 0 took => took | _ => 0 end.
Definition inflight (s : state) : Z := ssum infl s.
(* what the counter would be without the 2^64 wrap *)
Definition tokens (s : state) : Z := g_init s + g_sig s - g_ret0 s - inflight s.

Ltac sums F :=
  repeat first [ rewrite ssum_modth_keep by (intros; reflexivity)
               | rewrite ssum_modth by (autorewrite with st; auto)
               | rewrite (getth_modth_frame F) by (intros; reflexivity)
               | progress (autorewrite with st) ].

Lemma infl_pc th p : infl (set_pc th p) = match p with WRet _ 0 took => took | _ => 0 end.
Proof. reflexivity. Qed.

Lemma infl_at s t p : t_pc (getth s t) = p -> infl (getth s t) = match p with WRet _ 0 took => took | _ => 0 end.
Proof. intros <-. reflexivity. Qed.

Lemma tstep_ledger s t s' : tstep s t = Some s' -> pc_wf (pcof s t) ->
  (m_count s' = m_count s /\ tokens s' = tokens s) \/
  (exists n ep, pcof s t = SAdd n ep /\ m_count s' = wrap (m_count s + n) /\ tokens s' = tokens s + n) \/
  (exists a, pcof s t = WCas a (m_count s) /\ m_count s' = m_count s - w_c a /\ tokens s' = tokens s - w_c a).
Proof.
  intros H. unfold pcof, tokens, inflight.
  tstep_cases H; apply ltb_lt in Hlt; intros [W1 W2]; unf; brk; sums infl; rewrite ?infl_pc, ?(infl_at _ _ _ Hpc);
    try (left; split; [reflexivity|lia]).
  all: zb; subst.
  all: try (left; split; [reflexivity|]; destruct ret; try lia; try congruence; destruct W2 as [[? ?]|[? ?]]; try lia; try congruence; fail).
  all: try (left; split; [reflexivity|]; lia).
  - right; right. exists a. repeat split; auto. lia.
  - right; left. exists n, ep. repeat split; auto. lia.
Qed.

Lemma other_ledger s l s' : step s l = Some s' -> match l with LAdv _ => False | _ => True end ->
  m_count s' = m_count s /\ tokens s' = tokens s.
Proof.
  intros H L. unfold tokens, inflight. destruct l; try contradiction; simpl in H.
  - start_cases H; apply ltb_lt in Hlt; unf; sums infl; rewrite ?infl_pc, ?(infl_at _ _ _ Hpc); split; auto; lia.
  - repeat match type of H with
    | None = Some _ => discriminate
    | context [match ?x with _ => _ end] => destruct x eqn:?
    end; try discriminate; inv_some H; sums infl; auto.
  - repeat match type of H with
    | None = Some _ => discriminate
    | context [match ?x with _ => _ end] => destruct x eqn:?
    end; try discriminate; inv_some H; sums infl; auto.
  - repeat match type of H with
    | None = Some _ => discriminate
    | context [match ?x with _ => _ end] => destruct x eqn:?
    end; try discriminate; inv_some H; sums infl; auto.
  - vstep_cases H; sums infl; auto.
  - destruct (0 <=? d); inv_some H; sums infl; auto.
Qed.

Definition cons_inv (s : state) : Prop :=
  pcwf_inv s /\ 0 <= m_count s < W64 /\ m_count s mod W64 = tokens s mod W64 /\ m_count s <= tokens s.

Lemma cons_inv_step s l s' : cons_inv s -> step s l = Some s' -> cons_inv s'.
Proof.
  intros (Iw&Ir&Im&Il) H. split; [eapply pcwf_inv_step; eauto|].
  destruct l; try (destruct (other_ledger _ _ _ H Logic.I) as [E1 E2]; rewrite E1, E2; auto).
  simpl in H. pose proof (tstep_sp _ _ _ H) as [Ht _].
  destruct (tstep_ledger _ _ _ H (Iw _ Ht)) as [[E1 E2]|[(n&ep&Ep&E1&E2)|(a&Ep&E1&E2)]]; rewrite E1, E2.
  - auto.
  - pose proof (Iw _ Ht) as [_ W2]. rewrite Ep in W2. unfold wrap. pose proof W64_pos.
    repeat split.
    + apply Z.mod_pos_bound; lia. + apply Z.mod_pos_bound; lia.
    + rewrite Z.mod_mod by lia. rewrite Z.add_mod by lia. rewrite Im. rewrite <- Z.add_mod by lia. reflexivity.
    + transitivity (m_count s + n); [apply Z.mod_le; lia|lia].
  - pose proof (Iw _ Ht) as [W1 W2]. rewrite Ep in W1, W2. specialize (W1 a eq_refl). unfold args_ok in W1. pose proof W64_pos.
    repeat split; try lia.
    rewrite Zminus_mod. rewrite Im. rewrite <- Zminus_mod. reflexivity.
Qed.

Lemma reachable_inv (P : state -> Prop) s0 : P s0 -> (forall s l s', P s -> step s l = Some s' -> P s') ->
  forall s, reachable s0 s -> P s.
Proof. intros H0 Hs s R. induction R; eauto. Qed.

Lemma init_nthreads c o ths nv : nthreads (init c o ths nv) = length ths.
Proof. unfold nthreads, init; simpl. apply map_length. Qed.
Lemma init_pcof c o ths nv t : pcof (init c o ths nv) t = Idle.
Proof.
  unfold pcof, getth, init; simpl. revert t; induction ths; destruct t; simpl; auto.
Qed.
Lemma init_ssum F c o ths nv : (forall vc, F (mk_thread vc Running) = 0) -> ssum F (init c o ths nv) = 0.
Proof. intros H. unfold ssum, init; simpl. induction ths; simpl; auto. rewrite H, IHths. reflexivity. Qed.

Lemma cons_inv_init c o ths nv : 0 <= c < W64 -> cons_inv (init c o ths nv).
Proof.
  intros Hc. unfold cons_inv. split.
  - intros t _. rewrite init_pcof. split; [discriminate|exact Logic.I].
  - unfold tokens, inflight. rewrite init_ssum by reflexivity. simpl. repeat split; try lia. f_equal; lia.
Qed.

Lemma sp_inv_init c o ths nv : sp_inv (init c o ths nv).
Proof.
  split.
  - intros t _ H. rewrite init_pcof in H. discriminate.
  - simpl. discriminate.
Qed.

Lemma tstep_gret0 s t s' : tstep s t = Some s' -> pc_wf (pcof s t) -> g_ret0 s <= g_ret0 s'.
Proof.
  intros H. unfold pcof. tstep_cases H; intros [W1 W2]; rewrite ?Hpc in *; unf; brk; st; try lia.
  all: specialize (W1 a eq_refl); unfold args_ok in W1; destruct W2 as [[? ?]|[? ?]]; lia.
Qed.
Lemma gret0_mono s l s' : pcwf_inv s -> step s l = Some s' -> g_ret0 s <= g_ret0 s'.
Proof.
  intros Iw H. destruct l.
  - simpl in H. destruct (start_effect _ _ _ _ H) as (_&_&_&_&_&_&_&_&_&_&_&E&_). lia.
  - simpl in H. pose proof (tstep_sp _ _ _ H) as [Ht _]. eapply tstep_gret0; eauto.
  - destruct (sched_effect _ _ _ H Logic.I) as (_&_&_&_&_&E&_). lia.
  - destruct (sched_effect _ _ _ H Logic.I) as (_&_&_&_&_&E&_). lia.
  - destruct (sched_effect _ _ _ H Logic.I) as (_&_&_&_&_&E&_). lia.
  - simpl in H. destruct (vstep_effect _ _ _ H) as (_&_&_&_&_&E&_). lia.
  - destruct (sched_effect _ _ _ H Logic.I) as (_&_&_&_&_&E&_). lia.
Qed.

Lemma ssum_nonneg_idx F s : (forall t, (t < nthreads s)%nat -> 0 <= F (getth s t)) -> 0 <= ssum F s.
Proof.
  unfold ssum, nthreads, getth. induction (threads s) as [|th r IH]; simpl; intros H; [lia|].
  pose proof (H O ltac:(lia)) as H0. simpl in H0.
  assert (0 <= tsum F r). { apply IH. intros t Ht. apply (H (S t)). lia. }
  lia.
Qed.

Lemma inflight_nonneg s : pcwf_inv s -> 0 <= inflight s.
Proof.
  intros Iw. apply ssum_nonneg_idx. intros t Ht. specialize (Iw t Ht). unfold pcof in Iw. unfold infl.
  destruct (t_pc (getth s t)); try lia. destruct Iw as [W1 W2]. specialize (W1 a eq_refl). unfold args_ok in W1.
  destruct ret; lia.
Qed.

(* conservation, in every reachable state, for every interleaving *)
Lemma conservation c o ths nv s : 0 <= c < W64 -> reachable (init c o ths nv) s ->
  (g_ret0 s + inflight s + m_count s) mod W64 = (g_init s + g_sig s) mod W64 /\
  g_ret0 s + inflight s + m_count s <= g_init s + g_sig s /\
  0 <= m_count s < W64 /\ 0 <= g_ret0 s /\ 0 <= inflight s /\
  (g_init s + g_sig s < W64 -> g_ret0 s + inflight s + m_count s = g_init s + g_sig s).
Proof.
  intros Hc R.
  assert (I : cons_inv s /\ 0 <= g_ret0 s).
  { eapply (reachable_inv (fun s => cons_inv s /\ 0 <= g_ret0 s)); [| |exact R].
    - split; [apply cons_inv_init; auto|simpl; lia].
    - intros s1 l s2 [I1 I2] H. split; [eapply cons_inv_step; eauto|].
      destruct I1 as (Iw&_). pose proof (gret0_mono _ _ _ Iw H). lia. }
  destruct I as ((Iw&Ir&Im&Il)&Ig). pose proof (inflight_nonneg _ Iw) as Hi. unfold tokens in *. pose proof W64_pos.
  assert (E : (g_ret0 s + inflight s + m_count s) mod W64 = (g_init s + g_sig s) mod W64).
  { replace (g_init s + g_sig s) with ((g_init s + g_sig s - g_ret0 s - inflight s) + (g_ret0 s + inflight s)) by lia.
    rewrite (Z.add_mod (g_init s + g_sig s - g_ret0 s - inflight s)) by lia. rewrite <- Im.
    rewrite <- Z.add_mod by lia. f_equal; lia. }
  repeat split; try lia; auto.
  intros Hb. rewrite !Z.mod_small in E by lia. exact E.
Qed.

