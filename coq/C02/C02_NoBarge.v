(* C02_NoBarge.v — no lost wake-up for ARBITRARY (mixed) demands, in-order mode, outside the class
   of known finding F35: as long as no woken waiter's re-subtraction has failed (ghost g_refail =
   false: nobody overtook a woken waiter) and no thread_interrupt carries the reserved error number
   -1, every QUIESCENT reachable state has  m_count < demand of the head waiter.

   credit := m_count - SUM of the demands of the pending (woken, not yet retried) waiters.
   A thread is "failing" (gfail = 1) from the moment it is dequeued WITHOUT an allotment (timeout /
   interrupt) until it has re-acquired splock for its pass-on (thread.cpp 1899-1904).  Invariant, by
   the pc of the splock holder (hinv2): while nobody is failing and g_refail = false,
   credit < demand(head); inside a resume pass with local cnt: credit (+ own pending demand) <= cnt. *)
From Coq Require Import ZArith List Bool Arith Lia.
From PV Require Import Base.U64 C02.C02_Model C02.C02_Base C02.C02_Cons C02.C02_Safe C02.C02_Locks C02.C02_LockProto C02.C02_Locks2 C02.C02_Locks3 C02.C02_Summ C02.C02_Credit C02.C02_Struct C02.C02_Other C02.C02_Flow C02.C02_Flow2 C02.C02_Flow3 C02.C02_Aux C02.C02_Refute C02.C02_NLW.
Import ListNotations.
Local Open Scope Z_scope.

Definition pdz (th : thread) : Z := if t_pend th then t_semcnt th else 0.
Definition pdy (s : state) (y : nat) : Z := pdz (getth s y).
Definition pd (s : state) : Z := ssum pdz s.
Definition cred (s : state) : Z := m_count s - pd s.
Lemma pdy_unf s y : pdy s y = if pend s y then semc s y else 0.
Proof. reflexivity. Qed.

Definition failv (p : pc) (i pe : bool) : Z :=
  match p with
  | WQUnlock _ | WDefer _ | WAsleep _ => if i || pe then 0 else 1
  | WLock2 _ r => if r <? 0 then 1 else 0
  | _ => 0
  end.
Definition gfail (s : state) (y : nat) : Z := failv (pcof s y) (inq s y) (pend s y).
Definition G (s : state) : Prop := g_refail s = false /\ forall y, (y < nthreads s)%nat -> gfail s y = 0.
Definition hfree (v : Z) (s : state) : Prop := forall x, head s = Some x -> v < semc s x.
Definition cfree (v : Z) (s : state) : Prop := G s -> hfree v s.

Lemma failv_nonneg p i pe : 0 <= failv p i pe.
Proof. destruct p; cbn [failv]; try lia; match goal with |- context [if ?b then _ else _] => destruct b end; lia. Qed.
Lemma failv_inq_false p i pe : failv p i pe <= failv p false pe.
Proof. destruct p; cbn [failv]; try apply Z.le_refl; destruct i, pe; cbn; lia. Qed.
Lemma failv_inq_true p pe pe' : failv p true pe = failv p true pe'.
Proof. destruct p; reflexivity. Qed.
Lemma failv_other p i pe : waitpc p = false -> (forall a r, p <> WLock2 a r) -> failv p i pe = 0.
Proof. destruct p; cbn [waitpc failv]; intros Hw Hn; try reflexivity; try discriminate Hw. exfalso; eapply Hn; reflexivity. Qed.
Lemma failv_wait p : waitpc p = true -> failv p false false = 1.
Proof. destruct p; cbn; intros; try discriminate; reflexivity. Qed.
Lemma failv_wait_eq p p' i pe : waitpc p = true -> waitpc p' = true -> failv p i pe = failv p' i pe.
Proof.
  destruct p; cbn [waitpc]; intros Hw; try discriminate Hw; destruct p'; cbn [waitpc]; intros Hw'; try discriminate Hw'; reflexivity.
Qed.
Lemma hfree_mono v v' s : v' <= v -> hfree v s -> hfree v' s.
Proof. intros L H x Hx. specialize (H x Hx). lia. Qed.

Lemma pend_all s s' : nthreads s' = nthreads s -> (forall y, (y < nthreads s)%nat -> pend s' y = pend s y) ->
  forall y, pend s' y = pend s y.
Proof. intros Hn H y. destruct (lt_dec y (nthreads s)); [auto|]. rewrite !pend_oob; auto; lia. Qed.

Lemma pd_ext s s' : nthreads s' = nthreads s -> (forall y, pend s' y = pend s y) -> (forall y, semc s' y = semc s y) ->
  pd s' = pd s /\ forall y, pdy s' y = pdy s y.
Proof.
  intros Hn Hp Hc. assert (E : forall y, pdy s' y = pdy s y) by (intros y; rewrite !pdy_unf, Hp, Hc; reflexivity).
  split; [|exact E]. apply ssum_ext; auto.
Qed.
Lemma pd_one s s' x : nthreads s' = nthreads s -> (x < nthreads s)%nat ->
  (forall y, y <> x -> pend s' y = pend s y) -> (forall y, y <> x -> semc s' y = semc s y) ->
  pd s' = pd s - pdy s x + pdy s' x.
Proof.
  intros Hn Hx Hp Hc. apply ssum_one; auto. intros y Ny. change (pdy s' y = pdy s y). rewrite !pdy_unf.
  rewrite Hp, Hc by auto. reflexivity.
Qed.

(* consequences of binv + pc_wf *)
Lemma semc_nonneg s y : binv s -> pcwf_inv s -> 0 <= semc s y.
Proof.
  intros B W. destruct (lt_dec y (nthreads s)) as [Hy|Hy].
  - rewrite (b_sem _ B _ Hy). apply semv_nonneg. apply W; auto.
  - unfold semc. rewrite getth_oob by lia. reflexivity.
Qed.
Lemma pdy_nonneg s y : binv s -> pcwf_inv s -> 0 <= pdy s y.
Proof. intros B W. rewrite pdy_unf. destruct (pend s y); [apply semc_nonneg; auto|lia]. Qed.
Lemma pdy_le_pd s y : binv s -> pcwf_inv s -> (y < nthreads s)%nat -> pdy s y <= pd s.
Proof. intros B W Hy. apply (ssum_ge pdz); auto. intros z _. apply (pdy_nonneg s z); auto. Qed.
Lemma pd_nonneg s : binv s -> pcwf_inv s -> 0 <= pd s.
Proof. intros B W. apply ssum_nonneg_idx. intros z _. apply (pdy_nonneg s z); auto. Qed.
Lemma queue_semc_pos s x : sinv s -> binv s -> pcwf_inv s -> In x (queue s) -> 0 < semc s x.
Proof.
  intros I B W Hi. destruct (s_q _ I _ Hi) as (Hx&_&_&Hw). rewrite (b_sem _ B _ Hx). apply semv_wait; auto.
Qed.

(* ---------------------------------------------------------------------------------------- *)
(* one thread step: monotonicity of "failing", stability of the head *)
Section GS.
  Variables (s s' : state) (u : nat).
  Hypothesis I : sinv s.
  Hypothesis B : binv s.
  Hypothesis It : tl_inv s.
  Hypothesis Hu : (u < nthreads s)%nat.
  Hypothesis Hn : nthreads s' = nthreads s.
  Hypothesis Hs : summ s s' u.
  Hypothesis Hf : flow s s' u (pcof s u) (pcof s' u).
  Hypothesis Fr : forall t', t' <> u -> pcof s' t' = pcof s t'.

  Lemma gfail_step y : (y < nthreads s)%nat ->
    gfail s y <= gfail s' y \/ (y = u /\ exists a r, pcof s u = WLock2 a r /\ r < 0 /\ pcof s' u = WFailLoad a r).
  Proof.
    intros Hy. unfold gfail. destruct (Nat.eq_dec y u) as [->|N].
    - (* the stepping thread *)
      pose proof Hs as Hs2. open_summ Hs2. clear Eq Es Evc Ea.
      destruct (pcof s u) eqn:Hp; cbn [flow cfg eff_inq eff_pend] in Hf, Ec, Ei, Ep;
        try (left; rewrite (failv_other _ (inq s u) (pend s u)) by (cbn [waitpc]; try reflexivity; intros; discriminate); apply failv_nonneg).
      + (* WQUnlock *) left. rewrite Ec, (Ei u Hu), (Ep u Hu). apply Z.le_refl.
      + (* WDefer *) left. rewrite Ec, (Ei u Hu), (Ep u Hu). apply Z.le_refl.
      + (* WAsleep *) left. destruct Hf as (_&r&Ep'&Hr). rewrite Ep', (Ei u Hu), (Ep u Hu). cbn [failv].
        destruct (inq s u) eqn:Hi; [cbn; apply failv_nonneg with (p := WLock2 a r) (i := true) (pe := true)|].
        destruct (pend s u) eqn:Hpe; [cbn; apply failv_nonneg with (p := WLock2 a r) (i := true) (pe := true)|].
        cbn. assert (Hr2 : r < 0).
        { apply Hr. intros E. destruct (b_err _ B _ Hu E) as [E2 _]. congruence. }
        apply Z.ltb_lt in Hr2. rewrite Hr2. lia.
      + (* WLock2 *) destruct Hf as (_&[E|[[Hr E]|[Hr E]]]).
        * left. rewrite E, (Ei u Hu), (Ep u Hu). apply Z.le_refl.
        * right. split; [reflexivity|]. eauto.
        * left. cbn [failv]. apply Z.ltb_ge in Hr. rewrite Hr. rewrite E. cbn. lia.
    - (* another thread *)
      rewrite Fr by auto. left.
      destruct (summ_inq _ _ _ y Hs Hy) as [Ei|[(a&Ep&->&_)|(kk&Ep&Ei)]]; [| congruence |].
      + destruct (summ_pend3 _ _ _ y Hs Hy) as [Epd|[[(k&c&Ep) Epd]|(->&_)]]; [rewrite Ei, Epd; apply Z.le_refl| |congruence].
        rewrite Ei. pose proof (b_cmp _ B _ _ _ _ Hu Ep) as Hh. apply head_in in Hh. destruct (s_q _ I _ Hh) as (_&Hq&_).
        rewrite Hq. rewrite (failv_inq_true _ (pend s' y) (pend s y)). apply Z.le_refl.
      + destruct (summ_pend3 _ _ _ y Hs Hy) as [Epd|[[(k&c&Ep2) _]|(->&_)]]; try congruence.
        rewrite Ei, Epd. apply failv_inq_false.
  Qed.

  Lemma G_step : (forall a r, pcof s u = WLock2 a r -> pcof s' u = WFailLoad a r -> False) ->
    g_refail s' = false -> (g_refail s' = false -> g_refail s = false) -> (forall y, (y < nthreads s')%nat -> gfail s' y = 0) -> G s.
  Proof.
    intros Hx R Rm Hg. split; [auto|]. intros y Hy.
    destruct (gfail_step y Hy) as [L|(->&a&r&E1&_&E2)]; [|exfalso; eapply Hx; eauto].
    rewrite Hn in Hg. specialize (Hg y Hy). pose proof (failv_nonneg (pcof s y) (inq s y) (pend s y)). unfold gfail in *. lia.
  Qed.

  Lemma head_step_nonholder : holds_sp (pcof s u) = false ->
    head s' = head s \/ exists y, (y < nthreads s)%nat /\ gfail s' y = 1.
  Proof.
    intros Hh. destruct (summ_queue _ _ _ Hs) as [Eq|[(a&Ep&_)|(kk&x&Ep&Eq)]].
    - left. unfold head. rewrite Eq. reflexivity.
    - rewrite Ep in Hh. discriminate.
    - destruct (head s) as [h|] eqn:Hd.
      + destruct (Nat.eq_dec x h) as [->|N].
        * right. exists h. pose proof (head_in _ _ Hd) as Hi. destruct (s_q _ I _ Hi) as (Hx&_&_&Hw). split; [exact Hx|].
          assert (Nu : h <> u) by (intros ->; rewrite Ep in Hw; discriminate).
          unfold gfail. rewrite Fr by auto.
          destruct (summ_at_deq _ _ _ _ _ Hs Ep) as (_&_&Ei). rewrite (Ei Hx).
          assert (Epd : pend s' h = false).
          { destruct (summ_pend3 _ _ _ h Hs Hx) as [E|[[(k&c&Ep2) _]|(->&_)]]; try congruence.
            rewrite E. destruct (pend s h) eqn:Hpe; [|reflexivity]. exfalso.
            destruct (s_hand _ I _ Hpe Hi) as (w&k&c&Hw1&Hw2).
            assert (w = u).
            { eapply (tl_excl s h); eauto.
              - destruct Hw2 as [W|W]; rewrite W; reflexivity.
              - rewrite Ep. reflexivity. }
            subst w. rewrite Ep in Hh. cbn [holds_sp] in Hh. destruct Hw2 as [W|W]; rewrite W in Ep; inversion Ep; subst; discriminate. }
          rewrite Epd. apply failv_wait. exact Hw.
        * left. unfold head in *. rewrite Eq. apply head_remove_other; auto.
      + left. unfold head in *. rewrite Eq. destruct (queue s); [reflexivity|discriminate].
  Qed.
End GS.

(* ---------------------------------------------------------------------------------------- *)
(* the invariant of the splock holder, by its pc *)
Definition hinv2 (s : state) (t : nat) (p : pc) : Prop :=
  match p with
  | WLoad _ | WCas _ _ | WQUnlock _ | WDefer _ => cfree (cred s) s
  | WQLock _ | WTLock _ | WEnq _ => m_count s < semc s t /\ cfree (cred s) s
  | TRHead _ c | TRLockX _ c _ | TRRecheck _ c _ | TRUnlockRetry _ c _ | TRCmp _ c _ | TRUnlockLoop _ c _ => cred s + pdy s t <= c
  | PIQLock (KHead _ c) _ | PIDeq (KHead _ c) _ | PIState (KHead _ c) _ => cred s + pdy s t <= c
  | TRUnlockBreak _ c _ | TRTail _ c => cred s + pdy s t <= c /\ cfree c s
  | SUnlock _ | WRet _ _ _ => cfree (cred s + pdy s t) s
  | _ => True
  end.

Definition nopend (p : pc) : bool := match p with TRCmp _ _ _ | WLoad _ | WCas _ _ => false | _ => true end.
Definition noq (p : pc) : bool := match p with WEnq _ | PIDeq _ _ => false | _ => true end.

Lemma hinv2_frame s s' t p : cred s' = cred s -> (forall y, pdy s' y = pdy s y) -> m_count s' = m_count s ->
  (forall y, semc s' y = semc s y) -> (forall v, cfree v s -> cfree v s') -> hinv2 s t p -> hinv2 s' t p.
Proof.
  intros Ec Ey Em Esc Ecf. destruct p; try (match goal with kk : pikont |- _ => destruct kk end); cbn [hinv2];
    rewrite ?Ec, ?Ey, ?Em, ?Esc; intuition auto.
Qed.

Section HS.
  Variables (s s' : state) (u : nat).
  Hypothesis I : sinv s.
  Hypothesis B : binv s.
  Hypothesis W : pcwf_inv s.
  Hypothesis Hu : (u < nthreads s)%nat.
  Hypothesis Hn : nthreads s' = nthreads s.
  Hypothesis Hs : summ s s' u.
  Hypothesis Hf : flow s s' u (pcof s u) (pcof s' u).
  Hypothesis Hns : noscan (pcof s u) = true.
  Hypothesis Gm : G s' -> G s.

  Lemma nopend_all : nopend (pcof s u) = true -> forall y, pend s' y = pend s y.
  Proof.
    intros Hp. apply pend_all; auto. intros y Hy. pose proof Hs as Hs2. open_summ Hs2. specialize (Ep y Hy).
    destruct (pcof s u); cbn [nopend] in Hp; try discriminate Hp; exact Ep.
  Qed.
  Lemma noq_queue : noq (pcof s u) = true -> queue s' = queue s.
  Proof.
    intros Hp. pose proof Hs as Hs2. open_summ Hs2. destruct (pcof s u); cbn [noq] in Hp; try discriminate Hp; exact Eq.
  Qed.
  Lemma kdata : same s s' -> (forall y, pend s' y = pend s y) ->
    cred s' = cred s /\ (forall y, pdy s' y = pdy s y) /\ m_count s' = m_count s /\ (forall y, semc s' y = semc s y).
  Proof.
    intros (Em&_&Esc) Hp. destruct (pd_ext _ _ Hn Hp Esc) as [Epd Ey]. repeat split; auto. unfold cred. rewrite Em, Epd. reflexivity.
  Qed.
  Lemma kfree : (forall y, semc s' y = semc s y) -> queue s' = queue s -> forall v, cfree v s -> cfree v s'.
  Proof. intros Esc Eq v Hc Hg x Hx. unfold head in Hx. rewrite Eq in Hx. rewrite Esc. apply (Hc (Gm Hg) x Hx). Qed.

  (* a step that changes no datum and not the queue: the holder's invariant is transported *)
  Lemma k0_step p' : same s s' -> nopend (pcof s u) = true -> noq (pcof s u) = true -> pcof s' u = p' ->
    (forall sg, hinv2 sg u (pcof s u) -> hinv2 sg u p') -> hinv2 s u (pcof s u) -> hinv2 s' u (pcof s' u).
  Proof.
    intros Sm Hp Hq E Sh Hv. rewrite E. apply Sh.
    destruct (kdata Sm (nopend_all Hp)) as (Ec&Ey&Em&Esc).
    eapply hinv2_frame; eauto. apply kfree; auto. apply noq_queue; auto.
  Qed.

  Lemma hold_step : holds_sp (pcof s u) = true -> hinv2 s u (pcof s u) ->
    (holds_sp (pcof s' u) = true -> hinv2 s' u (pcof s' u)) /\ (holds_sp (pcof s' u) = false -> cfree (cred s') s').
  Proof.
    intros Hh Hv.
    pose proof (pdy_nonneg s u B W) as Pu. pose proof (pdy_le_pd s u B W Hu) as Pl. pose proof (pd_nonneg s B W) as Pn.
    pose proof Hs as Hs2. open_summ Hs2. clear Ei Es Evc Ea.
    pose proof k0_step as K0. pose proof nopend_all as NP. pose proof noq_queue as NQ.
    destruct (pcof s u) eqn:Hp; cbn [holds_sp] in Hh; try discriminate Hh; cbn [noscan] in Hns; try discriminate Hns;
      try (match goal with kk : pikont |- _ => destruct kk; cbn [pik_sp noscan] in Hh, Hns; try discriminate Hh; try discriminate Hns end);
      cbn [flow cfg] in Hf, Ec; cbn [nopend noq] in K0, NP, NQ; cbn [hinv2] in Hv.
    - (* WLoad *)
      destruct Hf as [(Hlt&E&Em&Er&Esc)|(Hge&E&Sm&Epd)].
      + rewrite E. cbn [holds_sp hinv2]. split; [intros _|intros X; discriminate X].
        specialize (NQ eq_refl). split.
        * rewrite Em, Esc. rewrite (b_sem _ B _ Hu), Hp. exact Hlt.
        * intros Hg. assert (Hpu : pend s u = false).
          { destruct Hg as [R _]. rewrite Er in R. destruct (pend s u); [discriminate|reflexivity]. }
          assert (Epd : forall y, pend s' y = pend s y).
          { apply pend_all; auto. intros y Hy. specialize (Ep y Hy). cbn [eff_pend] in Ep.
            destruct (Nat.eqb_spec u y); [subst; destruct Ep; congruence|exact Ep]. }
          destruct (pd_ext _ _ Hn Epd Esc) as [E1 E2]. intros x Hx. unfold head in Hx. rewrite NQ in Hx.
          unfold cred. rewrite Em, E1, Esc. apply (Hv (Gm Hg) x Hx).
      + rewrite E. cbn [holds_sp hinv2]. split; [intros _|intros X; discriminate X].
        destruct (kdata Sm Epd) as (Ec1&Ey&Em&Esc). rewrite Ec1. apply kfree; [exact Esc|apply NQ; reflexivity|exact Hv].
    - (* WCas *)
      destruct Hf as [(Em0&E&Em&Er&Esc&Epu)|(E&Sm&Epd)].
      + rewrite E. cbn [holds_sp hinv2]. split; [intros _|intros X; discriminate X].
        specialize (NQ eq_refl).
        assert (Epo : forall y, y <> u -> pend s' y = pend s y).
        { intros y Ny. destruct (lt_dec y (nthreads s)) as [Hy|Hy]; [|rewrite !pend_oob; auto; lia].
          specialize (Ep y Hy). cbn [eff_pend] in Ep. destruct (Nat.eqb_spec u y); [congruence|exact Ep]. }
        pose proof (pd_one s s' u Hn Hu Epo (fun y _ => Esc y)) as E1.
        assert (E2 : pdy s' u = 0) by (rewrite pdy_unf, Epu; reflexivity).
        assert (E3 : pdy s u <= w_c a).
        { rewrite pdy_unf. pose proof (semc_nonneg s u B W) as Sn. rewrite (b_sem _ B _ Hu), Hp in *. cbn in *.
          destruct (pend s u); lia. }
        intros Hg x Hx. unfold head in Hx. rewrite NQ in Hx. rewrite Esc.
        pose proof (Hv (Gm Hg) x Hx) as Hlt. unfold cred in *. lia.
      + rewrite E. cbn [holds_sp hinv2]. split; [intros _|intros X; discriminate X].
        destruct (kdata Sm Epd) as (Ec1&Ey&Em&Esc). rewrite Ec1. apply kfree; [exact Esc|apply NQ; reflexivity|exact Hv].
    - (* WQLock *)
      split; [intros _|].
      + destruct Ec as [E|E]; apply (K0 _ Hf eq_refl eq_refl E); auto.
      + destruct Ec as [E|E]; rewrite E; intros X; discriminate X.
    - (* WTLock *)
      split; [intros _|].
      + destruct Ec as [E|E]; apply (K0 _ Hf eq_refl eq_refl E); auto.
      + destruct Ec as [E|E]; rewrite E; intros X; discriminate X.
    - (* WEnq *)
      destruct (summ_at_enq _ _ _ _ Hs Hu Hp) as (Eq1&E&_&_). rewrite E. cbn [holds_sp hinv2].
      split; [intros _|intros X; discriminate X].
      destruct (kdata Hf (NP eq_refl)) as (Ec1&Ey&Em&Esc). destruct Hv as [Hlt Hc].
      intros Hg x Hx. unfold head in Hx. rewrite Eq1 in Hx. rewrite Ec1, Esc.
      destruct (queue s) as [|h r] eqn:Q; simpl in Hx; inversion Hx; subst.
      * unfold cred. lia.
      * apply (Hc (Gm Hg)). unfold head. rewrite Q. reflexivity.
    - (* WQUnlock *)
      split; [intros _|rewrite Ec; intros X; discriminate X]. apply (K0 _ Hf eq_refl eq_refl Ec); auto.
    - (* WDefer *)
      rewrite Ec. cbn [holds_sp]. split; [intros X; discriminate X|intros _].
      destruct (kdata Hf (NP eq_refl)) as (Ec1&Ey&Em&Esc). rewrite Ec1. apply kfree; [exact Esc|apply NQ; reflexivity|exact Hv].
    - (* WFailLoad *)
      destruct Hf as (Sm&[(Em0&E)|(e&E)]); rewrite E; cbn [holds_sp hinv2]; (split; [intros _|intros X; discriminate X]);
        destruct (kdata Sm (NP eq_refl)) as (Ec1&Ey&Em&Esc); rewrite Ec1, Ey.
      + intros Hg x Hx. unfold head in Hx. rewrite (NQ eq_refl) in Hx. rewrite Esc.
        assert (Hi : In x (queue s)) by (destruct (queue s); inversion Hx; subst; left; reflexivity).
        pose proof (queue_semc_pos s x I B W Hi). unfold cred. lia.
      + unfold cred. lia.
    - (* WRet *)
      destruct Hf as ((Em&Er&Esc&Esu)&E).
      assert (Hh' : holds_sp (pcof s' u) = false) by (destruct E as [E|E]; rewrite E; reflexivity).
      split; [intros X; congruence|intros _].
      pose proof (NP eq_refl) as Epd. specialize (NQ eq_refl).
      pose proof (pd_one s s' u Hn Hu (fun y _ => Epd y) Esc) as E1.
      assert (E2 : pdy s' u = 0) by (rewrite pdy_unf, Esu; destruct (pend s' u); reflexivity).
      intros Hg x Hx. unfold head in Hx. rewrite NQ in Hx.
      assert (Hi : In x (queue s)) by (destruct (queue s); inversion Hx; subst; left; reflexivity).
      assert (Nx : x <> u). { intros ->. destruct (s_q _ I _ Hi) as (_&_&_&Hw). rewrite Hp in Hw. discriminate. }
      rewrite (Esc x Nx). pose proof (Hv (Gm Hg) x Hx). unfold cred in *. lia.
    - (* SAdd *)
      destruct Hf as (Em&Er&Esc&E). rewrite E. cbn [holds_sp hinv2]. split; [intros _|intros X; discriminate X].
      destruct (pd_ext _ _ Hn (NP eq_refl) Esc) as [E1 E2]. unfold cred. rewrite E1, E2. lia.
    - (* SUnlock *)
      destruct Hf as (Sm&E). rewrite E. cbn [holds_sp]. split; [intros X; discriminate X|intros _].
      destruct (kdata Sm (NP eq_refl)) as (Ec1&Ey&Em&Esc). rewrite Ec1. apply kfree; [exact Esc|apply NQ; reflexivity|].
      intros Hg. apply (hfree_mono (cred s + pdy s u)); [lia|apply (Hv Hg)].
    - (* TRHead *)
      destruct Hf as (Sm&[(Hd&E)|(x&Hd&E)]).
      + rewrite E. cbn [holds_sp hinv2]. split; [intros _|intros X; discriminate X].
        destruct (kdata Sm (NP eq_refl)) as (Ec1&Ey&Em&Esc). rewrite Ec1, Ey. split; [exact Hv|].
        intros Hg y Hy. unfold head in *. rewrite (NQ eq_refl) in Hy. congruence.
      + split; [intros _|rewrite E; intros X; discriminate X]. apply (K0 _ Sm eq_refl eq_refl E); auto.
    - (* TRLockX *)
      destruct Hf as (Sm&E). split; [intros _|destruct E as [E|E]; rewrite E; intros X; discriminate X].
      destruct E as [E|E]; apply (K0 _ Sm eq_refl eq_refl E); auto.
    - (* TRRecheck *)
      destruct Hf as (Sm&E). split; [intros _|destruct E as [[E _]|E]; rewrite E; intros X; discriminate X].
      destruct E as [[E _]|E]; apply (K0 _ Sm eq_refl eq_refl E); auto.
    - (* TRUnlockRetry *)
      destruct Hf as (Sm&E). split; [intros _|rewrite E; intros X; discriminate X]. apply (K0 _ Sm eq_refl eq_refl E); auto.
    - (* TRCmp *)
      pose proof (b_cmp _ B _ _ _ _ Hu Hp) as Hd. pose proof (head_in _ _ Hd) as Hi. destruct (s_q _ I _ Hi) as (Hx&_&_&Hw).
      assert (Nx : x <> u) by (intros ->; rewrite Hp in Hw; discriminate).
      destruct Hf as (Sm&[(Hlt&E&Epd)|(Hge&E&Epx)]); rewrite E; cbn [holds_sp pik_sp hinv2]; (split; [intros _|intros X; discriminate X]).
      + destruct (kdata Sm Epd) as (Ec1&Ey&Em&Esc). rewrite Ec1, Ey. split; [exact Hv|].
        intros Hg y Hy. unfold head in *. rewrite (NQ eq_refl) in Hy. rewrite Hd in Hy. inversion Hy; subst. rewrite Esc. exact Hlt.
      + destruct Sm as (Em&_&Esc).
        assert (Epo : forall y, y <> x -> pend s' y = pend s y).
        { intros y Ny. destruct (lt_dec y (nthreads s)) as [Hy|Hy]; [|rewrite !pend_oob; auto; lia].
          specialize (Ep y Hy). cbn [eff_pend] in Ep. destruct (Nat.eqb_spec x y); [congruence|exact Ep]. }
        pose proof (pd_one s s' x Hn Hx Epo (fun y _ => Esc y)) as E1.
        assert (E2 : pdy s x = 0) by (rewrite pdy_unf, (s_cmp _ I _ _ _ _ Hu Hp Hx); reflexivity).
        assert (E3 : pdy s' x = semc s x) by (rewrite pdy_unf, (Epx Hx), Esc; reflexivity).
        assert (E4 : pdy s' u = pdy s u) by (rewrite !pdy_unf, Epo, Esc by auto; reflexivity).
        unfold cred in *. lia.
    - (* TRUnlockBreak *)
      destruct Hf as (Sm&E). split; [intros _|rewrite E; intros X; discriminate X]. apply (K0 _ Sm eq_refl eq_refl E); auto.
    - (* TRUnlockLoop *)
      destruct Hf as (Sm&E). split; [intros _|rewrite E; intros X; discriminate X]. apply (K0 _ Sm eq_refl eq_refl E); auto.
    - (* TRTail *)
      destruct Hf as (Sm&E). rewrite E. destruct (kdata Sm (NP eq_refl)) as (Ec1&Ey&Em&Esc). destruct Hv as [Hle Hc].
      assert (Hc' : cfree (cred s' + pdy s' u) s').
      { rewrite Ec1, Ey. apply kfree; [exact Esc|apply NQ; reflexivity|]. intros Hg. apply (hfree_mono cnt); [exact Hle|apply (Hc Hg)]. }
      destruct k; cbn [ret_pc holds_sp hinv2]; (split; [intros _; exact Hc'|intros X; discriminate X]).
    - (* PIQLock KHead *)
      destruct Hf as (Sm&E). split; [intros _|destruct E as [E|[E|E]]; rewrite E; intros X; discriminate X].
      destruct E as [E|[E|E]]; apply (K0 _ Sm eq_refl eq_refl E); auto.
    - (* PIDeq KHead *)
      destruct Hf as (Sm&E). rewrite E. cbn [holds_sp pik_sp hinv2]. split; [intros _|intros X; discriminate X].
      destruct (kdata Sm (NP eq_refl)) as (Ec1&Ey&Em&Esc). rewrite Ec1, Ey. exact Hv.
    - (* PIState KHead *)
      destruct Hf as (Sm&E). cbn [pi_ret_pc] in E. split; [intros _|rewrite E; intros X; discriminate X].
      apply (K0 _ Sm eq_refl eq_refl E); auto.
  Qed.

  Lemma nonholder_data : holds_sp (pcof s u) = false -> holds_sp (pcof s' u) = false ->
    same s s' /\ (forall y, pend s' y = pend s y).
  Proof.
    intros Hh Hh'. pose proof nopend_all as NP.
    destruct (pcof s u) eqn:Hp; cbn [holds_sp] in Hh; try discriminate Hh; cbn [flow] in Hf; cbn [nopend] in NP;
      try (match goal with kk : pikont |- _ => destruct kk; cbn [pik_sp] in Hh; try discriminate Hh end);
      (split; [|apply NP; reflexivity]);
      first [exact Hf | destruct Hf as [[_ Sm]|[E _]]; [exact Sm|rewrite E in Hh'; discriminate Hh'] | destruct Hf as [Sm _]; exact Sm].
  Qed.
End HS.

Lemma flow_refail s s' u p p' : flow s s' u p p' -> g_refail s' = false -> g_refail s = false.
Proof.
  destruct p; cbn [flow]; unfold same, same_but; intros F R; split_all; try congruence.
  match goal with E : g_refail s' = (if ?b then _ else _) |- _ => destruct b; congruence end.
Qed.

(* acquisition of splock *)
Section ACQ.
  Variables (s s' : state) (u : nat).
  Hypothesis I : sinv s.
  Hypothesis B : binv s.
  Hypothesis W : pcwf_inv s.
  Hypothesis Hu : (u < nthreads s)%nat.
  Hypothesis Hn : nthreads s' = nthreads s.
  Hypothesis Hs : summ s s' u.
  Hypothesis Hf : flow s s' u (pcof s u) (pcof s' u).
  Hypothesis Hns : noscan (pcof s u) = true.
  Hypothesis Gmx : (forall a r, pcof s u = WLock2 a r -> pcof s' u = WFailLoad a r -> False) -> G s' -> G s.

  Lemma acquire_step : holds_sp (pcof s' u) = true -> acqfrom (pcof s u) = true -> cfree (cred s) s -> hinv2 s' u (pcof s' u).
  Proof.
    intros Hh' Ha Hc. pose proof (nopend_all s s' u Hn Hs Hf Hns) as NP. pose proof (noq_queue s s' u Hs Hf Hns) as NQ.
    pose proof (kdata s s' Hn) as KD. pose proof (kfree s s') as KF.
    pose proof (W _ Hu) as [W1 _].
    destruct (pcof s u) eqn:Hp; cbn [acqfrom] in Ha; try discriminate Ha; cbn [flow] in Hf; cbn [nopend noq] in NP, NQ.
    - (* WLock1 *)
      destruct Hf as [(E&_)|(E&Em&Er&Esc&Esu)]; [rewrite E in Hh'; discriminate Hh'|]. rewrite E. cbn [hinv2].
      assert (Gm : G s' -> G s) by (apply Gmx; intros; discriminate).
      pose proof (NP eq_refl) as Epd. specialize (NQ eq_refl).
      pose proof (pd_one s s' u Hn Hu (fun y _ => Epd y) Esc) as E1.
      assert (E2 : pdy s u = 0).
      { rewrite pdy_unf. rewrite (b_sem _ B _ Hu), Hp. cbn. destruct (pend s u); reflexivity. }
      assert (E3 : 0 <= pdy s' u).
      { rewrite pdy_unf, Esu. specialize (W1 a eq_refl). unfold args_ok in W1. destruct (pend s' u); lia. }
      intros Hg x Hx. unfold head in Hx. rewrite NQ in Hx.
      assert (Hi : In x (queue s)) by (destruct (queue s); inversion Hx; subst; left; reflexivity).
      assert (Nx : x <> u). { intros ->. destruct (s_q _ I _ Hi) as (_&_&_&Hw). rewrite Hp in Hw. discriminate. }
      rewrite (Esc x Nx). pose proof (Hc (Gm Hg) x Hx). unfold cred in *. lia.
    - (* WLock2 *)
      destruct Hf as (Sm&[E|[[Hr E]|[Hr E]]]); rewrite E in *; cbn [holds_sp hinv2] in *; [discriminate Hh'|exact Logic.I|].
      assert (Gm : G s' -> G s) by (apply Gmx; intros; discriminate).
      destruct (KD Sm (NP eq_refl)) as (Ec1&Ey&Em&Esc). rewrite Ec1.
      apply (KF Gm Esc (NQ eq_refl)). exact Hc.
    - (* SLock *)
      destruct Hf as (Sm&[E|(ep&E)]); rewrite E in *; cbn [holds_sp hinv2] in *; [discriminate Hh'|exact Logic.I].
  Qed.
End ACQ.

(* ---------------------------------------------------------------------------------------- *)
(* the global invariant *)
Definition cinv2 (s : state) : Prop :=
  (splock s = None -> cfree (cred s) s) /\
  (forall t, (t < nthreads s)%nat -> holds_sp (pcof s t) = true -> hinv2 s t (pcof s t)).
Definition qinv (s : state) : Prop := forall y, (y < nthreads s)%nat -> inq s y = true -> In y (queue s).
Definition ninv (s : state) : Prop :=
  sp_inv s /\ locks_inv s /\ sinv s /\ binv s /\ pcwf_inv s /\ qinv s /\ cinv2 s.

Lemma cinv2_tstep s u s' : ninv s -> tstep s u = Some s' -> sp_inv s' -> cinv2 s'.
Proof.
  intros (Isp&(Ho&Ins&Iq&It)&Is&B&W&Q&(C1&C2)) H Isp'.
  pose proof (tstep_sp _ _ _ H) as [Hu Tr]. pose proof (tstep_nthreads _ _ _ H) as Hn.
  assert (Fr : forall t', t' <> u -> pcof s' t' = pcof s t') by (intros; eapply tstep_pc_frame; eauto).
  pose proof (Ins _ Hu) as Hns. pose proof (tstep_summ _ _ _ H Ho Hns) as Hs. pose proof (tstep_flow _ _ _ H Ho Hns) as Hf.
  assert (Gx : (forall a r, pcof s u = WLock2 a r -> pcof s' u = WFailLoad a r -> False) -> G s' -> G s).
  { intros Hx [R Hg]. apply (G_step s s' u Is B Hu Hn Hs Hf Fr Hx R); [|exact Hg]. intros R'. eapply flow_refail; eauto. }
  destruct (holds_sp (pcof s u)) eqn:Hh.
  - assert (Gm : G s' -> G s) by (apply Gx; intros a r E; rewrite E in Hh; discriminate).
    destruct (hold_step s s' u Is B W Hu Hn Hs Hf Hns Gm Hh (C2 _ Hu Hh)) as [A Bq]. split.
    + intros Hl. apply Bq. destruct (holds_sp (pcof s' u)) eqn:Hh'; [|reflexivity].
      destruct Isp' as [S1 _]. pose proof (S1 u) as X. rewrite Hn in X. specialize (X Hu Hh'). congruence.
    + intros t Ht Hht. rewrite Hn in Ht. destruct (Nat.eq_dec t u) as [->|N]; [auto|].
      rewrite Fr in Hht by auto. exfalso. apply N. eapply (sp_excl s); eauto.
  - destruct (holds_sp (pcof s' u)) eqn:Hh'.
    + assert (Hl : splock s = None). { destruct Tr as [[E _]|[(_&_&E&_)|(E&_)]]; congruence. }
      pose proof (tstep_acquire_from _ _ _ H Hh Hh') as Ha.
      pose proof (acquire_step s s' u Is B W Hu Hn Hs Hf Hns Gx Hh' Ha (C1 Hl)) as Hv.
      split.
      * intros Hl'. exfalso. destruct Isp' as [S1 _]. pose proof (S1 u) as X. rewrite Hn in X. specialize (X Hu Hh'). congruence.
      * intros t Ht Hht. rewrite Hn in Ht. destruct (Nat.eq_dec t u) as [->|N]; [exact Hv|].
        rewrite Fr in Hht by auto. exfalso. destruct Isp as [S1 _]. pose proof (S1 t Ht Hht). congruence.
    + destruct (nonholder_data s s' u Hn Hs Hf Hns Hh Hh') as [Sm Epd].
      assert (Gm : G s' -> G s) by (apply Gx; intros a r _ E; rewrite E in Hh'; discriminate).
      destruct (kdata s s' Hn Sm Epd) as (Ec1&Ey&Em&Esc).
      assert (Kf : forall v, cfree v s -> cfree v s').
      { intros v Hc Hg. destruct (head_step_nonholder s s' u Is It Hu Hs Fr Hh) as [Eh|(y&Hy&Ey1)].
        - intros x Hx. rewrite Eh in Hx. rewrite Esc. apply (Hc (Gm Hg) x Hx).
        - exfalso. destruct Hg as [_ Hg]. rewrite Hn in Hg. specialize (Hg y Hy). lia. }
      split.
      * intros Hl'. rewrite Ec1. apply Kf. apply C1. destruct (splock s) as [p|] eqn:Hsp; [|reflexivity]. exfalso.
        destruct Isp as [S1 S2]. destruct (S2 _ Hsp) as (h&->&Hh1&Hh2).
        assert (Nh : h <> u) by congruence.
        destruct Isp' as [S1' _]. pose proof (S1' h) as X. rewrite Hn, Fr in X by auto. specialize (X Hh1 Hh2). congruence.
      * intros t Ht Hht. rewrite Hn in Ht. destruct (Nat.eq_dec t u) as [->|N]; [congruence|].
        rewrite Fr in Hht by auto. rewrite Fr by auto. eapply hinv2_frame; eauto.
Qed.

Lemma cinv2_frame s s' : cinv2 s -> nthreads s' = nthreads s -> splock s' = splock s ->
  cred s' = cred s -> (forall y, pdy s' y = pdy s y) -> m_count s' = m_count s -> (forall y, semc s' y = semc s y) ->
  (forall v, cfree v s -> cfree v s') ->
  (forall t, (t < nthreads s)%nat -> holds_sp (pcof s' t) = true -> pcof s' t = pcof s t) -> cinv2 s'.
Proof.
  intros (C1&C2) Hn Hl Ec Ey Em Esc Kf Hp. split.
  - intros E. rewrite Hl in E. rewrite Ec. apply Kf. auto.
  - intros t Ht Hh. rewrite Hn in Ht. pose proof (Hp _ Ht Hh) as E. rewrite E in *. eapply hinv2_frame; eauto.
Qed.

Lemma data_same s s' : nthreads s' = nthreads s -> m_count s' = m_count s -> (forall y, pend s' y = pend s y) ->
  (forall y, semc s' y = semc s y) -> cred s' = cred s /\ (forall y, pdy s' y = pdy s y).
Proof. intros Hn Em Ep Esc. destruct (pd_ext _ _ Hn Ep Esc) as [E1 E2]. split; auto. unfold cred. rewrite Em, E1. reflexivity. Qed.

Lemma start_pc_failv o p' vc i pe : start_pc o p' vc -> failv p' i pe = 0.
Proof. destruct o; cbn [start_pc]; intros H; split_all; subst; reflexivity. Qed.

Lemma cinv2_step s l s' : ninv s -> step s l = Some s' -> sp_inv s' -> cinv2 s'.
Proof.
  intros Iv H Isp'. pose proof Iv as (Isp&Il&Is&B&W&Q&Ic). destruct l.
  - (* start *)
    simpl in H. destruct (start_effect _ _ _ _ H) as (Ht&Hn&Hi&Hh&Fr&Hl&_&Eq&Em&_).
    destruct (start_summ _ _ _ _ H) as (Ei&_&Ep&_&Esc&_&Hpc'). pose proof (start_refail _ _ _ _ H) as Er.
    destruct (data_same s s' Hn Em Ep Esc) as [Ec Ey].
    apply (cinv2_frame s s' Ic Hn Hl Ec Ey Em Esc).
    + intros v Hc Hg. assert (Hg0 : G s).
      { destruct Hg as [R Hg]. split; [congruence|]. intros y Hy. rewrite Hn in Hg. specialize (Hg y Hy). unfold gfail in *.
        rewrite Ei, Ep in Hg. destruct (Nat.eq_dec y t) as [->|N]; [rewrite Hi; reflexivity|rewrite Fr in Hg by auto; exact Hg]. }
      intros x Hx. unfold head in Hx. rewrite Eq in Hx. rewrite Esc. apply (Hc Hg0 x Hx).
    + intros t0 Ht0 Hh0. destruct (Nat.eq_dec t0 t) as [->|N]; [congruence|auto].
  - simpl in H. eapply cinv2_tstep; eauto.
  - destruct (sched_effect _ _ _ H Logic.I) as (Hn&Hp&Hl&Em&_&_&_&_&_&_&Eq). destruct (sched_summ _ _ _ H Logic.I) as (Ei&_&Ep&_&Esc&_&_).
    pose proof (sched_refail _ _ _ H Logic.I) as Er. destruct (data_same s s' Hn Em Ep Esc) as [Ec Ey].
    apply (cinv2_frame s s' Ic Hn Hl Ec Ey Em Esc); [|intros t0 _ _; apply Hp].
    intros v Hc Hg. assert (Hg0 : G s).
    { destruct Hg as [R Hg]. split; [congruence|]. intros y Hy. rewrite Hn in Hg. specialize (Hg y Hy). unfold gfail in *. rewrite Ei, Ep, Hp in Hg. exact Hg. }
    intros x Hx. unfold head in Hx. rewrite Eq in Hx. rewrite Esc. apply (Hc Hg0 x Hx).
  - destruct (sched_effect _ _ _ H Logic.I) as (Hn&Hp&Hl&Em&_&_&_&_&_&_&Eq). destruct (sched_summ _ _ _ H Logic.I) as (Ei&_&Ep&_&Esc&_&_).
    pose proof (sched_refail _ _ _ H Logic.I) as Er. destruct (data_same s s' Hn Em Ep Esc) as [Ec Ey].
    apply (cinv2_frame s s' Ic Hn Hl Ec Ey Em Esc); [|intros t0 _ _; apply Hp].
    intros v0 Hc Hg. assert (Hg0 : G s).
    { destruct Hg as [R Hg]. split; [congruence|]. intros y Hy. rewrite Hn in Hg. specialize (Hg y Hy). unfold gfail in *. rewrite Ei, Ep, Hp in Hg. exact Hg. }
    intros x Hx. unfold head in Hx. rewrite Eq in Hx. rewrite Esc. apply (Hc Hg0 x Hx).
  - destruct (sched_effect _ _ _ H Logic.I) as (Hn&Hp&Hl&Em&_&_&_&_&_&_&Eq). destruct (sched_summ _ _ _ H Logic.I) as (Ei&_&Ep&_&Esc&_&_).
    pose proof (sched_refail _ _ _ H Logic.I) as Er. destruct (data_same s s' Hn Em Ep Esc) as [Ec Ey].
    apply (cinv2_frame s s' Ic Hn Hl Ec Ey Em Esc); [|intros t0 _ _; apply Hp].
    intros v0 Hc Hg. assert (Hg0 : G s).
    { destruct Hg as [R Hg]. split; [congruence|]. intros y Hy. rewrite Hn in Hg. specialize (Hg y Hy). unfold gfail in *. rewrite Ei, Ep, Hp in Hg. exact Hg. }
    intros x Hx. unfold head in Hx. rewrite Eq in Hx. rewrite Esc. apply (Hc Hg0 x Hx).
  - (* vCPU step *)
    simpl in H. destruct (vstep_effect _ _ _ H) as (Hn&Hp&Hl&Em&_). destruct (vstep_locks _ _ _ H) as (Hv&_).
    destruct (vstep_summ _ _ _ H) as (Eq&Ei&_&Ep&_&Esc&_&_). pose proof (vstep_refail _ _ _ H) as Er.
    destruct Il as (_&_&_&It).
    destruct (data_same s s' Hn Em Ep Esc) as [Ec Ey].
    apply (cinv2_frame s s' Ic Hn Hl Ec Ey Em Esc); [|intros t0 _ _; apply Hp].
    intros v0 Hc Hg. assert (Hg0 : G s).
    { destruct Hg as [R Hg]. split; [congruence|]. intros y Hy. rewrite Hn in Hg. specialize (Hg y Hy). unfold gfail in *.
      rewrite Ep, Hp in Hg. pose proof (failv_nonneg (pcof s y) (inq s y) (pend s y)).
      destruct (Ei y) as [E|(_&_&E)]; rewrite E in Hg; [lia|]. pose proof (failv_inq_false (pcof s y) (inq s y) (pend s y)). lia. }
    intros x Hx. destruct Eq as [Eq|(t&Ev&Eq)].
    + unfold head in Hx. rewrite Eq in Hx. rewrite Esc. apply (Hc Hg0 x Hx).
    + destruct (head s) as [h|] eqn:Hd.
      * destruct (Nat.eq_dec t h) as [->|N].
        -- exfalso. pose proof (head_in _ _ Hd) as Hi. destruct (s_q _ Is _ Hi) as (Hh&_&_&Hw).
           assert (Ei' : inq s' h = false).
           { destruct (inq s' h) eqn:E; [|reflexivity]. exfalso.
             destruct (vstep_inq_queue _ _ _ h H Hh E) as [_ Hq]. specialize (Hq Hi). rewrite Eq in Hq.
             eapply notin_remove_tid; [apply (s_nodup _ Is)|exact Hq]. }
           assert (Epd : pend s h = false).
           { destruct (pend s h) eqn:Hpe; [|reflexivity]. exfalso.
             destruct (s_hand _ Is _ Hpe Hi) as (w&k&c&Hw1&Hw2).
             eapply (tl_excl_v s h w v); eauto; [destruct Hw2 as [X|X]; rewrite X; reflexivity|rewrite Ev; reflexivity]. }
           destruct Hg as [_ Hg]. rewrite Hn in Hg. specialize (Hg h Hh). unfold gfail in Hg.
           rewrite Ei', Ep, Epd, Hp, (failv_wait _ Hw) in Hg. discriminate.
        -- unfold head in Hx, Hd. rewrite Eq in Hx. rewrite (head_remove_other _ _ _ Hd N) in Hx. inversion Hx; subst.
           rewrite Esc. apply (Hc Hg0). exact Hd.
      * unfold head in Hx, Hd. rewrite Eq in Hx. destruct (queue s); [discriminate Hx|discriminate Hd].
  - destruct (sched_effect _ _ _ H Logic.I) as (Hn&Hp&Hl&Em&_&_&_&_&_&_&Eq). destruct (sched_summ _ _ _ H Logic.I) as (Ei&_&Ep&_&Esc&_&_).
    pose proof (sched_refail _ _ _ H Logic.I) as Er. destruct (data_same s s' Hn Em Ep Esc) as [Ec Ey].
    apply (cinv2_frame s s' Ic Hn Hl Ec Ey Em Esc); [|intros t0 _ _; apply Hp].
    intros v0 Hc Hg. assert (Hg0 : G s).
    { destruct Hg as [R Hg]. split; [congruence|]. intros y Hy. rewrite Hn in Hg. specialize (Hg y Hy). unfold gfail in *. rewrite Ei, Ep, Hp in Hg. exact Hg. }
    intros x Hx. unfold head in Hx. rewrite Eq in Hx. rewrite Esc. apply (Hc Hg0 x Hx).
Qed.

(* waitq flag => member of the queue *)
Lemma qinv_step s l s' : qinv s -> sinv s -> locks_inv s -> step s l = Some s' -> qinv s'.
Proof.
  intros Q Is (Ho&Ins&_&_) H y Hy Hi. destruct l.
  - simpl in H. destruct (start_effect _ _ _ _ H) as (_&Hn&_&_&_&_&_&Eq&_). destruct (start_summ _ _ _ _ H) as (Ei&_).
    rewrite Hn in Hy. rewrite Ei in Hi. rewrite Eq. auto.
  - simpl in H. pose proof (tstep_sp _ _ _ H) as [Hu _]. pose proof (tstep_nthreads _ _ _ H) as Hn. rewrite Hn in Hy.
    pose proof (tstep_summ _ _ _ H Ho (Ins _ Hu)) as Hs.
    destruct (summ_inq _ _ _ y Hs Hy) as [E|[(a&Ep&->&_)|(kk&Ep&E)]]; [| |congruence].
    + rewrite E in Hi. pose proof (Q _ Hy Hi) as Hq.
      destruct (summ_queue _ _ _ Hs) as [Eq|[(a&Ep&Eq)|(kk&x&Ep&Eq)]]; rewrite Eq; [exact Hq|apply in_or_app; auto|].
      apply in_remove_other; [exact Hq|]. intros ->.
      destruct (summ_at_deq _ _ _ _ _ Hs Ep) as (_&_&Ei2). pose proof (Ei2 Hy) as X. rewrite E in X. congruence.
    + destruct (summ_at_enq _ _ _ _ Hs Hu Ep) as (Eq&_). rewrite Eq. apply in_or_app. right. left. reflexivity.
  - destruct (sched_effect _ _ _ H Logic.I) as (Hn&_&_&_&_&_&_&_&_&_&Eq). destruct (sched_summ _ _ _ H Logic.I) as (Ei&_).
    rewrite Hn in Hy. rewrite Ei in Hi. rewrite Eq. auto.
  - destruct (sched_effect _ _ _ H Logic.I) as (Hn&_&_&_&_&_&_&_&_&_&Eq). destruct (sched_summ _ _ _ H Logic.I) as (Ei&_).
    rewrite Hn in Hy. rewrite Ei in Hi. rewrite Eq. auto.
  - destruct (sched_effect _ _ _ H Logic.I) as (Hn&_&_&_&_&_&_&_&_&_&Eq). destruct (sched_summ _ _ _ H Logic.I) as (Ei&_).
    rewrite Hn in Hy. rewrite Ei in Hi. rewrite Eq. auto.
  - simpl in H. destruct (vstep_effect _ _ _ H) as (Hn&_). rewrite Hn in Hy.
    destruct (vstep_inq_queue _ _ _ y H Hy Hi) as [E Hq]. auto.
  - destruct (sched_effect _ _ _ H Logic.I) as (Hn&_&_&_&_&_&_&_&_&_&Eq). destruct (sched_summ _ _ _ H Logic.I) as (Ei&_).
    rewrite Hn in Hy. rewrite Ei in Hi. rewrite Eq. auto.
Qed.

Lemma ninv_step s l s' : ninv s -> label_noneg l -> step s l = Some s' -> ninv s'.
Proof.
  intros Iv Lg H. pose proof Iv as (Isp&Il&Is&B&W&Q&Ic).
  pose proof (sp_inv_step _ _ _ Isp H) as Isp'.
  split; [exact Isp'|]. split; [eapply locks_inv_step; eauto|]. split; [eapply sinv_step; eauto|].
  split; [eapply binv_step; eauto|]. split; [eapply pcwf_inv_step; eauto|]. split; [eapply qinv_step; eauto|].
  eapply cinv2_step; eauto.
Qed.

Lemma ninv_init c ths nv : ninv (init c false ths nv).
Proof.
  split; [apply sp_inv_init|]. split; [apply locks_inv_init|]. split; [apply sinv_init|]. split; [apply binv_init|].
  split; [|split; [|split]].
  - intros t _. rewrite init_pcof. split; [discriminate|exact Logic.I].
  - intros y _ Hi. exfalso. unfold inq in Hi. destruct (init_getth c false ths nv y) as [E|(vc&E)]; rewrite E in Hi; discriminate.
  - intros _ _ x Hx. discriminate Hx.
  - intros t _ Hh. rewrite init_pcof in Hh. discriminate.
Qed.

(* reachability under the label guard "no thread_interrupt with error number -1" *)
Inductive reachable_g (s0 : state) : state -> Prop :=
| rg_init : reachable_g s0 s0
| rg_step : forall s l s', reachable_g s0 s -> label_noneg l -> step s l = Some s' -> reachable_g s0 s'.

Lemma ninv_reachable c ths nv s : reachable_g (init c false ths nv) s -> ninv s.
Proof. intros R. induction R as [|s l s' R IH Lg H]; [apply ninv_init|]. eapply ninv_step; eauto. Qed.

Lemma quiescent_threads s : quiescentb s = true ->
  splock s = None /\ forall y, (y < nthreads s)%nat -> idle_thread (getth s y) = true.
Proof.
  unfold quiescentb. destruct (splock s); [discriminate|]. destruct (qlock s); [discriminate|]. intros H.
  apply andb_true_iff in H. destruct H as [H _]. split; [reflexivity|]. intros y Hy.
  rewrite forallb_forall in H. apply H. unfold getth. apply nth_In. exact Hy.
Qed.

Lemma idle_thread_pc th : idle_thread th = true ->
  t_pc th = Idle \/ (exists a, t_pc th = WAsleep a /\ t_inq th = true).
Proof.
  unfold idle_thread. destruct (t_lock th); [discriminate|]. destruct (t_pc th); try discriminate; auto.
  intros H. apply andb_true_iff in H. destruct H as [_ H]. right. eauto.
Qed.

(* THE THEOREM: the clause refuted by F35's witness (nlw_inorder, C02_Refute.v) HOLDS in every
   reachable state in which no woken waiter has been overtaken (g_refail = false) *)
Definition nlw_nobarge_stmt : Prop :=
  forall c ths nv s, 0 <= c < W64 -> reachable_g (init c false ths nv) s -> g_refail s = false -> nlw_inorder s.

Lemma nlw_inorder_nobarge : nlw_nobarge_stmt.
Proof.
  intros c ths nv s _ R Rf Hq. destruct (ninv_reachable _ _ _ _ R) as (Isp&Il&Is&B&W&Q&(C1&_)).
  destruct (quiescent_threads _ Hq) as [Hl Hid].
  assert (Hpc : forall y, (y < nthreads s)%nat -> pcof s y = Idle \/ (exists a, pcof s y = WAsleep a /\ inq s y = true)).
  { intros y Hy. apply idle_thread_pc. auto. }
  assert (Hg : G s).
  { split; [exact Rf|]. intros y Hy. unfold gfail. destruct (Hpc y Hy) as [E|(a&E&Ei)]; rewrite E; [reflexivity|]. rewrite Ei. reflexivity. }
  assert (Hpd : pd s = 0).
  { unfold pd, ssum. apply tsum_zero. intros y. change (pdy s y = 0). rewrite pdy_unf.
    destruct (lt_dec y (nthreads s)) as [Hy|Hy]; [|rewrite pend_oob by lia; reflexivity].
    destruct (Hpc y Hy) as [E|(a&E&Ei)].
    - rewrite (b_sem _ B _ Hy), E. destruct (pend s y); reflexivity.
    - destruct (pend s y) eqn:Hp; [|reflexivity]. exfalso.
      destruct (s_hand _ Is _ Hp (Q _ Hy Ei)) as (h&k&c0&Hh&Hw).
      destruct (Hpc h Hh) as [E2|(a2&E2&_)]; destruct Hw as [X|X]; congruence. }
  destruct (queue s) as [|x r] eqn:Eq; [exact Logic.I|].
  specialize (C1 Hl Hg x). unfold head in C1. rewrite Eq in C1. specialize (C1 eq_refl).
  unfold cred in C1. rewrite Hpd in C1. unfold semc in C1. lia.
Qed.

(* the guard is sharp on the known witness: in F35's barging schedule the ghost flag is set *)
Example barge_witness_has_refail :
  exists s, run (init 0 false four 1) barge_sched = Some s /\ g_refail s = true /\ quiescentb s = true.
Proof. eexists. split; [vm_compute; reflexivity|]. split; reflexivity. Qed.

(* and the hypotheses are met by a non-trivial MIXED-demand run: waiters 2 and 1, signal(2) serves the
   first, the second stays queued with m_count = 0 < 1; quiescent, nobody overtaken *)
Definition label_nonegb (l : label) : bool :=
  match l with LStart _ (OpInterrupt _ e) => negb (e =? -1) | _ => true end.
Lemma label_nonegb_ok l : label_nonegb l = true -> label_noneg l.
Proof.
  destruct l; simpl; auto. destruct o; simpl; auto. intros H E. subst. discriminate.
Qed.
Lemma run_reachable_g s0 s1 ls s : reachable_g s0 s1 -> forallb label_nonegb ls = true -> run s1 ls = Some s -> reachable_g s0 s.
Proof.
  revert s1. induction ls as [|l r IH]; intros s1 R Hf H; simpl in *.
  - inversion H; subst; exact R.
  - apply andb_true_iff in Hf. destruct Hf as [Hl Hr]. destruct (step s1 l) eqn:E; [|discriminate].
    eapply IH; [|exact Hr|exact H]. econstructor; eauto. apply label_nonegb_ok; exact Hl.
Qed.
Definition mixed_example_sched : list label :=
  LStart 0 (OpWait 2 MAX64 false) :: adv 0 7 ++ LStart 1 (OpWait 1 MAX64 false) :: adv 1 7 ++
  LStart 2 (OpSignal 2) :: adv 2 17 ++ LRun 0 :: adv 0 5.
Example nlw_nobarge_hyps_met :
  exists s, reachable_g (init 0 false three 1) s /\ g_refail s = false /\ quiescentb s = true /\
            queue s = [1%nat] /\ m_count s = 0 /\ g_ret0 s = 2.
Proof.
  destruct (run (init 0 false three 1) mixed_example_sched) as [s|] eqn:E; [|vm_compute in E; discriminate].
  exists s. split; [eapply run_reachable_g; [constructor| |exact E]; vm_compute; reflexivity|].
  vm_compute in E. inversion E; subst s; clear E. repeat split.
Qed.

(* the label guard of reachable_g is NECESSARY: thread_interrupt(th, -1) is a fake resume.  Waiters A:5
   (thread 0), B:1 (thread 1); signal(1) wakes nobody (head A needs 5); thread_interrupt(A, -1) dequeues A
   with error_number -1, so A "was resumed": it retries, fails, and re-queues at the TAIL without the
   pass-on of 1899-1904.  Quiescent, queue [B; A], count 1 >= B's demand 1, and nobody was overtaken
   (g_refail = false).  Replayed on the real library (notes/C02.md). *)
Definition neg1_sched : list label :=
  LStart 0 (OpWait 5 MAX64 false) :: adv 0 7 ++ LStart 1 (OpWait 1 MAX64 false) :: adv 1 7 ++
  LStart 2 (OpSignal 1) :: adv 2 9 ++ LStart 2 (OpInterrupt 0 (-1)) :: adv 2 7 ++ LRun 0 :: adv 0 8.
Lemma neg1_guard_needed :
  exists s, reachable (init 0 false three 1) s /\ ooo s = false /\ g_refail s = false /\ ~ nlw_inorder s.
Proof.
  destruct (run (init 0 false three 1) neg1_sched) as [s|] eqn:E; [|vm_compute in E; discriminate].
  exists s. split; [eapply run_reachable; eauto|].
  vm_compute in E. inversion E; subst s; clear E. repeat split; try reflexivity.
  unfold nlw_inorder. intros H. specialize (H eq_refl). vm_compute in H. discriminate.
Qed.
