(* C02_LockProto.v — the generic argument "a spinlock's holder is determined by the program
   counters": pure logic, instantiated for q.lock and for every thread.lock in C02_Locks3.v. *)
From Coq Require Import List Bool Arith Lia.
From PV Require Import C02.C02_Model.

Definition upd_lock (me : part) (old new : bool) (l : option part) : option part :=
  if new && negb old then Some me else if old && negb new then None else l.

Section PROTO.
  Variables n nv : nat.
  Definition linv (L : option part) (hT hV : nat -> bool) : Prop :=
    (forall t, t < n -> hT t = true -> L = Some (PT t)) /\
    (forall v, v < nv -> hV v = true -> L = Some (PV v)) /\
    (forall p, L = Some p -> match p with PT t => t < n /\ hT t = true | PV v => v < nv /\ hV v = true end).

  Lemma linv_thread_step L L' hT hT' hV hV' t :
    linv L hT hV -> t < n ->
    L' = upd_lock (PT t) (hT t) (hT' t) L ->
    (hT' t && negb (hT t) = true -> L = None) ->
    (forall t', t' <> t -> hT' t' = hT t') -> (forall v, hV' v = hV v) ->
    linv L' hT' hV'.
  Proof.
    intros (I1&I2&I3) Ht E Hs Fr Fv. unfold upd_lock in E.
    destruct (hT t) eqn:Eo, (hT' t) eqn:En; simpl in *.
    - subst L'. repeat split.
      + intros t' Hl Hh. destruct (Nat.eq_dec t' t) as [->|N]; [auto|rewrite Fr in Hh; auto].
      + intros v Hl Hh. rewrite Fv in Hh. auto.
      + intros p Hp. specialize (I3 _ Hp). destruct p as [t'|v]; [|rewrite Fv; auto].
        destruct (Nat.eq_dec t' t) as [->|N]; [tauto|rewrite Fr; auto].
    - subst L'. pose proof (I1 _ Ht Eo) as HL. repeat split.
      + intros t' Hl Hh. destruct (Nat.eq_dec t' t) as [->|N]; [congruence|]. rewrite Fr in Hh by auto.
        pose proof (I1 _ Hl Hh). congruence.
      + intros v Hl Hh. rewrite Fv in Hh. pose proof (I2 _ Hl Hh). congruence.
      + discriminate.
    - subst L'. specialize (Hs eq_refl). repeat split.
      + intros t' Hl Hh. destruct (Nat.eq_dec t' t) as [->|N]; [auto|]. rewrite Fr in Hh by auto.
        pose proof (I1 _ Hl Hh). congruence.
      + intros v Hl Hh. rewrite Fv in Hh. pose proof (I2 _ Hl Hh). congruence.
      + intros p Hp. inversion Hp; subst. auto.
    - subst L'. repeat split.
      + intros t' Hl Hh. destruct (Nat.eq_dec t' t) as [->|N]; [congruence|rewrite Fr in Hh; auto].
      + intros v Hl Hh. rewrite Fv in Hh. auto.
      + intros p Hp. specialize (I3 _ Hp). destruct p as [t'|v]; [|rewrite Fv; auto].
        destruct (Nat.eq_dec t' t) as [->|N]; [destruct I3; congruence|rewrite Fr; auto].
  Qed.

  Lemma linv_vcpu_step L L' hT hT' hV hV' v :
    linv L hT hV -> v < nv ->
    L' = upd_lock (PV v) (hV v) (hV' v) L ->
    (hV' v && negb (hV v) = true -> L = None) ->
    (forall v', v' <> v -> hV' v' = hV v') -> (forall t, hT' t = hT t) ->
    linv L' hT' hV'.
  Proof.
    intros (I1&I2&I3) Hv E Hs Fr Ft. unfold upd_lock in E.
    destruct (hV v) eqn:Eo, (hV' v) eqn:En; simpl in *.
    - subst L'. repeat split.
      + intros t Hl Hh. rewrite Ft in Hh. auto.
      + intros v' Hl Hh. destruct (Nat.eq_dec v' v) as [->|N]; [auto|rewrite Fr in Hh; auto].
      + intros p Hp. specialize (I3 _ Hp). destruct p as [t|v']; [rewrite Ft; auto|].
        destruct (Nat.eq_dec v' v) as [->|N]; [tauto|rewrite Fr; auto].
    - subst L'. pose proof (I2 _ Hv Eo) as HL. repeat split.
      + intros t Hl Hh. rewrite Ft in Hh. pose proof (I1 _ Hl Hh). congruence.
      + intros v' Hl Hh. destruct (Nat.eq_dec v' v) as [->|N]; [congruence|]. rewrite Fr in Hh by auto.
        pose proof (I2 _ Hl Hh). congruence.
      + discriminate.
    - subst L'. specialize (Hs eq_refl). repeat split.
      + intros t Hl Hh. rewrite Ft in Hh. pose proof (I1 _ Hl Hh). congruence.
      + intros v' Hl Hh. destruct (Nat.eq_dec v' v) as [->|N]; [auto|]. rewrite Fr in Hh by auto.
        pose proof (I2 _ Hl Hh). congruence.
      + intros p Hp. inversion Hp; subst. auto.
    - subst L'. repeat split.
      + intros t Hl Hh. rewrite Ft in Hh. auto.
      + intros v' Hl Hh. destruct (Nat.eq_dec v' v) as [->|N]; [congruence|rewrite Fr in Hh; auto].
      + intros p Hp. specialize (I3 _ Hp). destruct p as [t|v']; [rewrite Ft; auto|].
        destruct (Nat.eq_dec v' v) as [->|N]; [destruct I3; congruence|rewrite Fr; auto].
  Qed.

  Lemma linv_frame L L' hT hT' hV hV' :
    linv L hT hV -> L' = L -> (forall t, hT' t = hT t) -> (forall v, hV' v = hV v) -> linv L' hT' hV'.
  Proof.
    intros (I1&I2&I3) -> Ft Fv. repeat split.
    - intros t Hl Hh. rewrite Ft in Hh. auto.
    - intros v Hl Hh. rewrite Fv in Hh. auto.
    - intros p Hp. specialize (I3 _ Hp). destruct p; [rewrite Ft|rewrite Fv]; auto.
  Qed.
End PROTO.
