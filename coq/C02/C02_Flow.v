(* C02_Flow.v — data-flow summary of one thread step (in-order mode): what it does to m_count,
   g_refail, every thread's semaphore_count and error_number, and the exact control-flow edge with
   the branch condition that was taken.  Complements C02_Summ.v (queue / waitq / state / pending). *)
From Coq Require Import ZArith List Bool Arith Lia.
From PV Require Import Base.U64 C02.C02_Model C02.C02_Base C02.C02_Cons C02.C02_Locks C02.C02_Summ C02.C02_Credit C02.C02_Struct.
Import ListNotations.
Local Open Scope Z_scope.

Definition errof (s : state) (y : nat) : Z := t_err (getth s y).

Definition same (s s' : state) : Prop :=
  m_count s' = m_count s /\ g_refail s' = g_refail s /\ (forall y, semc s' y = semc s y).
Definition same_but (s s' : state) (t : nat) (v : Z) : Prop :=
  m_count s' = m_count s /\ g_refail s' = g_refail s /\ (forall y, y <> t -> semc s' y = semc s y) /\ semc s' t = v.

Definition ret_pc (k : caller) : pc :=
  match k with CSignal ep => SUnlock ep | CWaitFail a r _ => WRet a r 0 end.
Definition pi_ret_pc (kk : pikont) (x : nat) : pc :=
  match kk with KHead k c => TRUnlockLoop k c x | KScan k c i => SCTUnlock k c i | KIntr => IUnlock x end.

Definition flow (s s' : state) (t : nat) (p p' : pc) : Prop :=
  match p with
  | WLock1 a => (p' = WLock1 a /\ same s s') \/ (p' = WLoad a /\ same_but s s' t (w_c a))
  | WLoad a => (m_count s < w_c a /\ p' = WQLock a /\ m_count s' = m_count s /\
                g_refail s' = (if pend s t then true else g_refail s) /\ (forall y, semc s' y = semc s y))
               \/ (w_c a <= m_count s /\ p' = WCas a (m_count s) /\ same s s' /\ (forall y, pend s' y = pend s y))
  | WCas a mc => (m_count s = mc /\ p' = WRet a 0 (w_c a) /\ m_count s' = mc - w_c a /\ g_refail s' = g_refail s /\
                  (forall y, semc s' y = semc s y) /\ pend s' t = false)
                 \/ (p' = WLoad a /\ same s s' /\ (forall y, pend s' y = pend s y))
  | WLock2 a r => same s s' /\ (p' = WLock2 a r \/ (r < 0 /\ p' = WFailLoad a r) \/ (0 <= r /\ p' = WLoad a))
  | WFailLoad a r => same s s' /\ ((m_count s = 0 /\ p' = WRet a r 0) \/ (exists e, p' = TRHead (CWaitFail a r e) (m_count s)))
  | WRet a r k => same_but s s' t 0 /\ (p' = Idle \/ p' = WLock1 a)
  | SLock n => same s s' /\ (p' = SLock n \/ exists ep, p' = SAdd n ep)
  | SAdd n ep => m_count s' = wrap (m_count s + n) /\ g_refail s' = g_refail s /\ (forall y, semc s' y = semc s y) /\
                 p' = TRHead (CSignal ep) (m_count s')
  | SUnlock ep => same s s' /\ p' = Idle
  | TRHead k c => same s s' /\ ((head s = None /\ p' = TRTail k c) \/ (exists x, head s = Some x /\ p' = TRLockX k c x))
  | TRLockX k c x => same s s' /\ (p' = TRLockX k c x \/ p' = TRRecheck k c x)
  | TRRecheck k c x => same s s' /\ ((p' = TRCmp k c x /\ head s = Some x) \/ p' = TRUnlockRetry k c x)
  | TRUnlockRetry k c x => same s s' /\ p' = TRHead k c
  | TRCmp k c x => same s s' /\
      ((c < semc s x /\ p' = TRUnlockBreak k c x /\ (forall y, pend s' y = pend s y)) \/
       (semc s x <= c /\ p' = PIQLock (KHead k (c - semc s x)) x /\ ((x < nthreads s)%nat -> pend s' x = true)))
  | TRUnlockBreak k c x => same s s' /\ p' = TRTail k c
  | TRUnlockLoop k c x => same s s' /\ p' = TRHead k c
  | TRTail k c => same s s' /\ p' = ret_pc k
  | PIQLock kk x => same s s' /\ (p' = PIQLock kk x \/ p' = PIDeq kk x \/ p' = PIState kk x)
  | PIDeq kk x => same s s' /\ p' = PIState kk x
  | PIState kk x => same s s' /\ p' = pi_ret_pc kk x
  | WAsleep a => same s s' /\ exists r, p' = WLock2 a r /\ (errof s t <> -1 -> r < 0)
  | _ => same s s'
  end.

Ltac fl2 := repeat first
  [ rewrite (fld_modth t_inq) | rewrite (fld_modth t_state) | rewrite (fld_modth t_pend) | rewrite (fld_modth t_vcpu)
  | rewrite (fld_modth t_semcnt) | rewrite (fld_modth t_err) | progress (autorewrite with st) | progress thsimp ].
Ltac sm := unfold same, same_but, semc, pend, errof; repeat split; intros; fl2; eqbs2.

Lemma tstep_flow s t s' : tstep s t = Some s' -> ooo s = false -> noscan (pcof s t) = true ->
  flow s s' t (pcof s t) (pcof s' t).
Proof.
  intros H Ho. tstep_cases H; apply ltb_lt in Hlt; norm; unfold pcof at 1; rewrite ?Hpc; cbn [noscan]; intros Hn; try discriminate Hn;
    unfold pcof; rewrite ?Hpc; cbn [flow ret_pc pi_ret_pc]; zb;
    try (solve [sm]);
    try (solve [split; [sm|eauto 6]]);
    try (solve [left; sm]); try (solve [right; sm]);
    try (solve [split; [sm|left; sm]]); try (solve [split; [sm|right; sm]]);
    try (solve [split; [sm|right; left; sm]]); try (solve [split; [sm|right; right; sm]]).
  all: try (rewrite Ho in *; simpl in *; rewrite ?orb_true_r in *; discriminate).
  all: try (left; unfold pend; match goal with E : t_pend (getth _ _) = _ |- _ => rewrite E end; sm; fail).
  all: try (split; [sm|eexists; split; [reflexivity|unfold errof; intros; lia]]; fail).
  all: try (split; [sm|left; split; [reflexivity|]; match goal with E : Nat.eqb _ _ = true |- _ => apply Nat.eqb_eq in E; subst; assumption end]; fail).
  all: match goal with |- ?G => idtac "GOAL" G end.
Qed.
