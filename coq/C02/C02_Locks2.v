(* C02_Locks2.v — q.lock and thread.lock ownership invariants (in-order mode). *)
From Coq Require Import ZArith List Bool Arith Lia.
From PV Require Import Base.U64 C02.C02_Model C02.C02_Base C02.C02_Locks C02.C02_LockProto.
Import ListNotations.
Local Open Scope Z_scope.

Definition lockof (s : state) (y : nat) : option part := t_lock (getth s y).
Definition nvcpus (s : state) : nat := length (vcpus s).

Lemma lockof_modth s x f y :
  lockof (modth s x f) y = if Nat.eqb x y && Nat.ltb x (nthreads s) then t_lock (f (getth s x)) else lockof s y.
Proof.
  unfold lockof. destruct (Nat.eqb_spec x y) as [->|N]; simpl.
  - destruct (Nat.ltb_spec y (nthreads s)).
    + rewrite getth_modth_same; auto.
    + unfold getth, modth, setth; simpl. rewrite upd_nth_oob by (unfold nthreads in *; lia). reflexivity.
  - rewrite getth_modth_other; auto.
Qed.
Lemma lockof_set_now s v y : lockof (set_now s v) y = lockof s y. Proof. reflexivity. Qed.
Lemma nvcpus_set_now s v : nvcpus (set_now s v) = nvcpus s. Proof. reflexivity. Qed.
Lemma lockof_set_count s v y : lockof (set_count s v) y = lockof s y. Proof. reflexivity. Qed.
Lemma nvcpus_set_count s v : nvcpus (set_count s v) = nvcpus s. Proof. reflexivity. Qed.
Lemma lockof_set_splock s v y : lockof (set_splock s v) y = lockof s y. Proof. reflexivity. Qed.
Lemma nvcpus_set_splock s v : nvcpus (set_splock s v) = nvcpus s. Proof. reflexivity. Qed.
Lemma lockof_set_qlock s v y : lockof (set_qlock s v) y = lockof s y. Proof. reflexivity. Qed.
Lemma nvcpus_set_qlock s v : nvcpus (set_qlock s v) = nvcpus s. Proof. reflexivity. Qed.
Lemma lockof_set_queue s v y : lockof (set_queue s v) y = lockof s y. Proof. reflexivity. Qed.
Lemma nvcpus_set_queue s v : nvcpus (set_queue s v) = nvcpus s. Proof. reflexivity. Qed.
Lemma lockof_set_vcpus s v y : lockof (set_vcpus s v) y = lockof s y. Proof. reflexivity. Qed.
Lemma lockof_set_gsig s v y : lockof (set_gsig s v) y = lockof s y. Proof. reflexivity. Qed.
Lemma nvcpus_set_gsig s v : nvcpus (set_gsig s v) = nvcpus s. Proof. reflexivity. Qed.
Lemma lockof_set_gret0 s v y : lockof (set_gret0 s v) y = lockof s y. Proof. reflexivity. Qed.
Lemma nvcpus_set_gret0 s v : nvcpus (set_gret0 s v) = nvcpus s. Proof. reflexivity. Qed.
Lemma lockof_set_grets s v y : lockof (set_grets s v) y = lockof s y. Proof. reflexivity. Qed.
Lemma nvcpus_set_grets s v : nvcpus (set_grets s v) = nvcpus s. Proof. reflexivity. Qed.
Lemma lockof_set_gcrash s v y : lockof (set_gcrash s v) y = lockof s y. Proof. reflexivity. Qed.
Lemma nvcpus_set_gcrash s v : nvcpus (set_gcrash s v) = nvcpus s. Proof. reflexivity. Qed.
Lemma lockof_set_grefail s v y : lockof (set_grefail s v) y = lockof s y. Proof. reflexivity. Qed.
Lemma nvcpus_set_grefail s v : nvcpus (set_grefail s v) = nvcpus s. Proof. reflexivity. Qed.
Lemma lockof_set_gwakes s v y : lockof (set_gwakes s v) y = lockof s y. Proof. reflexivity. Qed.
Lemma nvcpus_set_gwakes s v : nvcpus (set_gwakes s v) = nvcpus s. Proof. reflexivity. Qed.
Lemma lockof_setv s v p y : lockof (setv s v p) y = lockof s y. Proof. reflexivity. Qed.
Lemma nvcpus_modth s x f : nvcpus (modth s x f) = nvcpus s. Proof. reflexivity. Qed.
Lemma nvcpus_setpc s x f : nvcpus (setpc s x f) = nvcpus s. Proof. reflexivity. Qed.
Lemma nvcpus_setv s v p : nvcpus (setv s v p) = nvcpus s. Proof. unfold nvcpus, setv; simpl. apply length_upd. Qed.
Global Hint Rewrite lockof_set_now nvcpus_set_now lockof_set_count nvcpus_set_count lockof_set_splock nvcpus_set_splock lockof_set_qlock nvcpus_set_qlock lockof_set_queue nvcpus_set_queue lockof_set_vcpus lockof_set_gsig nvcpus_set_gsig lockof_set_gret0 nvcpus_set_gret0 lockof_set_grets nvcpus_set_grets lockof_set_gcrash nvcpus_set_gcrash lockof_set_grefail nvcpus_set_grefail lockof_set_gwakes nvcpus_set_gwakes lockof_setv nvcpus_modth nvcpus_setpc nvcpus_setv : st.

Lemma getv_setv_same s v p : (v < nvcpus s)%nat -> getv (setv s v p) v = p.
Proof. intros. unfold getv, setv; simpl. apply nth_upd_same; auto. Qed.
Lemma getv_setv_other s v w p : v <> w -> getv (setv s v p) w = getv s w.
Proof. intros. unfold getv, setv; simpl. apply nth_upd_other; auto. Qed.

Definition oeqb (o : option nat) (y : nat) : bool := match o with Some x => Nat.eqb x y | None => false end.

(* which thread's lock does thread t hold at pc p (in-order mode: no scan pcs) *)
Definition tl_pc (t : nat) (p : pc) : option nat :=
  match p with
  | WEnq _ => Some t
  | TRRecheck _ _ x | TRUnlockRetry _ _ x | TRCmp _ _ x | TRUnlockBreak _ _ x | TRUnlockLoop _ _ x => Some x
  | PIQLock _ x | PIDeq _ x | PIState _ x => Some x
  | IRecheck x _ | IUnlockOut x _ _ | IUnlock x => Some x
  | _ => None
  end.
Definition tl_v (p : vpc) : option nat :=
  match p with VPop t | VDeqLock t | VDeq t | VReady t | VUnlock t => Some t | _ => None end.
(* does it hold q.lock *)
Definition hq (p : pc) : bool :=
  match p with WTLock _ | WEnq _ | WQUnlock _ | PIDeq _ _ => true | _ => false end.
Definition hqv (p : vpc) : bool := match p with VDeq _ => true | _ => false end.

Ltac eqbs := repeat match goal with
  | |- context [Nat.eqb ?a ?b] => destruct (Nat.eqb_spec a b); try subst
  | |- context [Nat.ltb ?a ?b] => destruct (Nat.ltb_spec a b)
  end; cbn [andb negb orb]; try reflexivity; try congruence; try lia;
  try (intros; discriminate); try (intros; unfold lockof in *; assumption); try (intros; unfold lockof in *; congruence).
Ltac locks := repeat first
  [ rewrite lockof_modth | progress (autorewrite with st) | progress thsimp
  | match goal with |- context [t_lock (getth ?S ?Y)] => change (t_lock (getth S Y)) with (lockof S Y) end ].

(* effect of one thread step on every thread lock and on q.lock *)
Lemma tstep_locks s t s' : tstep s t = Some s' -> ooo s = false -> noscan (pcof s t) = true ->
  (forall y, (y < nthreads s)%nat ->
     lockof s' y = upd_lock (PT t) (oeqb (tl_pc t (pcof s t)) y) (oeqb (tl_pc t (pcof s' t)) y) (lockof s y) /\
     (oeqb (tl_pc t (pcof s' t)) y && negb (oeqb (tl_pc t (pcof s t)) y) = true -> lockof s y = None)) /\
  qlock s' = upd_lock (PT t) (hq (pcof s t)) (hq (pcof s' t)) (qlock s) /\
  (hq (pcof s' t) && negb (hq (pcof s t)) = true -> qlock s = None) /\
  vcpus s' = vcpus s.
Proof.
  intros H Ho. tstep_cases H; apply ltb_lt in Hlt; norm; unfold pcof at 1; rewrite ?Hpc; cbn [noscan]; intros Hn; try discriminate Hn;
    unfold pcof; rewrite ?Hpc; cbn [tl_pc hq oeqb]; unfold upd_lock; cbn [andb negb];
    (split; [intros y Hy; locks; (split; [|intros Hc; revert Hc]); eqbs
            |split; [locks; eqbs|split; [intros Hc; revert Hc; eqbs|locks; try reflexivity]]]).
Qed.
