(* C02_Summ.v — a summary of what one step does to the wait queue, to the scheduler fields of
   every thread and to the stepping thread's program counter (in-order mode).  The structural
   invariants of C02_Queue.v are derived from this summary by pure case analysis on the old pc. *)
From Coq Require Import ZArith List Bool Arith Lia.
From PV Require Import Base.U64 C02.C02_Model C02.C02_Base C02.C02_Cons C02.C02_Locks.
Import ListNotations.
Local Open Scope Z_scope.

Lemma fld_modth {A} (F : thread -> A) s x f y :
  F (getth (modth s x f) y) = if Nat.eqb x y && Nat.ltb x (nthreads s) then F (f (getth s x)) else F (getth s y).
Proof.
  destruct (Nat.eqb_spec x y) as [->|N]; simpl.
  - destruct (Nat.ltb_spec y (nthreads s)).
    + rewrite getth_modth_same; auto.
    + unfold getth, modth, setth; simpl. rewrite upd_nth_oob by (unfold nthreads in *; lia). reflexivity.
  - rewrite getth_modth_other; auto.
Qed.

Definition inq (s : state) (y : nat) : bool := t_inq (getth s y).
Definition stof (s : state) (y : nat) : tstate := t_state (getth s y).
Definition pend (s : state) (y : nat) : bool := t_pend (getth s y).

Definition eff_queue (t : nat) (p : pc) (q : list nat) : list nat :=
  match p with WEnq _ => q ++ [t] | PIDeq _ x => remove_tid x q | _ => q end.
Definition eff_inq (t : nat) (p : pc) (y : nat) (b : bool) : bool :=
  match p with
  | WEnq _ => if Nat.eqb t y then true else b
  | PIDeq _ x => if Nat.eqb x y then false else b
  | _ => b
  end.
Definition eff_state (t : nat) (p : pc) (y : nat) (old new : tstate) : Prop :=
  match p with
  | WEnq _ => if Nat.eqb t y then new = Sleeping else new = old
  | PIState _ x => if Nat.eqb x y then new <> Sleeping else new = old
  | _ => new = old
  end.
Definition eff_pend (t : nat) (p : pc) (y : nat) (old new : bool) : Prop :=
  match p with
  | TRCmp _ _ x => if Nat.eqb x y then new = true \/ new = old else new = old
  | WLoad _ | WCas _ _ => if Nat.eqb t y then new = false \/ new = old else new = old
  | _ => new = old
  end.

(* new pcs that matter to the structural invariants *)
Definition inert (p : pc) : Prop :=
  match p with
  | TRCmp _ _ _ | PIDeq _ _ | PIState _ _ | WQLock _ | WTLock _ | WEnq _ | WQUnlock _ | WDefer _ | WAsleep _ => False
  | PIQLock (KHead _ _) _ => False
  | _ => True
  end.
Definition cfg (s s' : state) (t : nat) (p p' : pc) : Prop :=
  match p with
  | WLoad a => (p' = WQLock a /\ pend s' t = false) \/ (exists mc, p' = WCas a mc)
  | WQLock a => p' = WQLock a \/ p' = WTLock a
  | WTLock a => p' = WTLock a \/ p' = WEnq a
  | WEnq a => p' = WQUnlock a
  | WQUnlock a => p' = WDefer a
  | WDefer a => p' = WAsleep a
  | WAsleep a => can_run (getth s t) = true /\ exists r, p' = WLock2 a r
  | TRRecheck k c x => (p' = TRCmp k c x /\ head s = Some x) \/ p' = TRUnlockRetry k c x
  | TRCmp k c x => (p' = TRUnlockBreak k c x /\ pend s' x = pend s x) \/ (exists c', p' = PIQLock (KHead k c') x /\ ((x < nthreads s)%nat -> pend s' x = true))
  | PIQLock kk x => p' = PIQLock kk x \/ p' = PIDeq kk x \/ (p' = PIState kk x /\ inq s x = false)
  | PIDeq kk x => p' = PIState kk x
  | _ => inert p'
  end.

Definition summ (s s' : state) (t : nat) : Prop :=
  let p := pcof s t in let p' := pcof s' t in
  queue s' = eff_queue t p (queue s) /\
  (forall y, (y < nthreads s)%nat -> inq s' y = eff_inq t p y (inq s y)) /\
  (forall y, (y < nthreads s)%nat -> eff_state t p y (stof s y) (stof s' y)) /\
  (forall y, (y < nthreads s)%nat -> eff_pend t p y (pend s y) (pend s' y)) /\
  (forall y, t_vcpu (getth s' y) = t_vcpu (getth s y)) /\
  (pc_args p' = None \/ pc_args p' = pc_args p) /\
  cfg s s' t p p'.

Ltac eqbs2 := repeat match goal with
  | |- context [Nat.eqb ?a ?b] => destruct (Nat.eqb_spec a b); try subst
  | |- context [Nat.ltb ?a ?b] => destruct (Nat.ltb_spec a b)
  end; cbn [andb negb orb]; try reflexivity; try congruence; try lia; auto.
Ltac flds := repeat first
  [ rewrite (fld_modth t_inq) | rewrite (fld_modth t_state) | rewrite (fld_modth t_pend) | rewrite (fld_modth t_vcpu)
  | progress (autorewrite with st) | progress thsimp ].

Lemma tstep_summ s t s' : tstep s t = Some s' -> ooo s = false -> noscan (pcof s t) = true -> summ s s' t.
Proof.
  intros H Ho. unfold summ. tstep_cases H; apply ltb_lt in Hlt; norm; unfold pcof at 1; rewrite ?Hpc; cbn [noscan]; intros Hn; try discriminate Hn;
    unfold pcof; rewrite ?Hpc; cbn [eff_queue eff_inq eff_state eff_pend cfg inert pc_args pc_caller pik_caller caller_args];
    unfold inq, stof, pend;
    (split; [flds; try reflexivity
    |split; [intros y Hy; flds; eqbs2
    |split; [intros y Hy; flds; eqbs2
    |split; [intros y Hy; flds; eqbs2
    |split; [intros y; flds; eqbs2
    |split; [auto
    |flds; try exact Logic.I; eauto 6]]]]]]).
  all: try (left; split; [reflexivity|eqbs2]; fail).
  all: try (right; eexists; split; [reflexivity|intros; eqbs2]; fail).
  all: try (left; split; [reflexivity|]; match goal with H: Nat.eqb _ _ = true |- _ => apply Nat.eqb_eq in H; subst; assumption end).
Qed.
