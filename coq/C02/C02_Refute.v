(* C02_Refute.v — clauses of C02 that the faithful model VIOLATES: concrete schedules, evaluated
   by vm_compute.  Each is replayed on the implementation (notes/C02.md). *)
From Coq Require Import ZArith List Bool Arith Lia.
From PV Require Import Base.U64 C02.C02_Model C02.C02_Base.
Import ListNotations.
Local Open Scope Z_scope.

Fixpoint adv (t n : nat) : list label := match n with O => [] | S m => LAdv t :: adv t m end.
Fixpoint vadv (v n : nat) : list label := match n with O => [] | S m => LVAdv v :: vadv v m end.

(* no signal / wait call is mid-flight: every thread is outside a call, or asleep in the queue
   with its deferred unlock done; all locks free; no vCPU is half-way through an expiry *)
Definition idle_thread (th : thread) : bool :=
  match t_lock th with Some _ => false | None =>
    match t_pc th with
    | Idle => true
    | WAsleep _ => tstate_eqb (t_state th) Sleeping && t_inq th
    | _ => false
    end
  end.
Definition quiescentb (s : state) : bool :=
  match splock s, qlock s with
  | None, None => forallb idle_thread (threads s) && forallb (fun v => match v with VIdle => true | _ => false end) (vcpus s)
  | _, _ => false
  end.

(* the clause "no waiter stays blocked while the count covers the head's demand" *)
Definition nlw_inorder (s : state) : Prop :=
  quiescentb s = true -> match queue s with x :: _ => m_count s < t_semcnt (getth s x) | [] => True end.
(* out-of-order mode: "... of any waiter" *)
Definition nlw_ooo (s : state) : Prop :=
  quiescentb s = true -> forall x, In x (queue s) -> m_count s < t_semcnt (getth s x).

(* ---- F35 (barging): waiters A:2 (thread 0), B:1 (thread 1); signal(2) by thread 3 wakes A;
   thread 2 arrives with wait(1) and takes a token before A runs; A's re-subtract fails and it
   re-queues behind B.  Quiescent, queue [B; A], count 1 >= B's demand 1. *)
Definition barge_sched : list label :=
  LStart 0 (OpWait 2 MAX64 false) :: adv 0 7 ++ LStart 1 (OpWait 1 MAX64 false) :: adv 1 7 ++
  LStart 3 (OpSignal 2) :: adv 3 17 ++ LStart 2 (OpWait 1 MAX64 false) :: adv 2 4 ++ LRun 0 :: adv 0 8.
Definition four := [Some O; Some O; Some O; Some O].

Lemma barge_inorder : exists s, reachable (init 0 false four 1) s /\ ooo s = false /\ g_crash s = false /\ ~ nlw_inorder s.
Proof.
  destruct (run (init 0 false four 1) barge_sched) as [s|] eqn:E; [|vm_compute in E; discriminate].
  exists s. split; [eapply run_reachable; eauto|].
  vm_compute in E. inversion E; subst s; clear E. repeat split; try reflexivity.
  unfold nlw_inorder. intros H. specialize (H eq_refl). vm_compute in H. discriminate.
Qed.

Lemma barge_ooo : exists s, reachable (init 0 true four 1) s /\ ooo s = true /\ g_crash s = false /\ ~ nlw_ooo s.
Proof.
  destruct (run (init 0 true four 1) barge_sched) as [s|] eqn:E; [|vm_compute in E; discriminate].
  exists s. split; [eapply run_reachable; eauto|].
  vm_compute in E. inversion E; subst s; clear E. repeat split; try reflexivity.
  unfold nlw_ooo. intros H. specialize (H eq_refl 1%nat (or_introl eq_refl)). vm_compute in H. discriminate.
Qed.

(* ---- F9: out-of-order mode, waiters [5, 1], signal(1) by thread 2 (same vCPU): the scan locks
   q.lock, finds waiter 1 satisfiable and calls prelocked_thread_interrupt, whose
   dequeue_ready_atomic spins on q.lock — held by the caller itself.  In the resulting state the
   signal call is in flight and EVERY participant can only stutter (or is not enabled). *)
Definition three := [Some O; Some O; Some O].
Definition f9_sched : list label :=
  LStart 0 (OpWait 5 MAX64 false) :: adv 0 7 ++ LStart 1 (OpWait 1 MAX64 false) :: adv 1 7 ++
  LStart 2 (OpSignal 1) :: adv 2 12.

Definition only_stutter (s : state) (l : label) : Prop := step s l = None \/ step s l = Some s.

Lemma f9_deadlock : exists s, reachable (init 0 true three 1) s /\
  pcof s 2 = PIQLock (KScan (CSignal 0) 0 1) 1 /\ qlock s = Some (PT 2) /\ splock s = Some (PT 2) /\
  Forall (only_stutter s)
    [LAdv 0; LAdv 1; LAdv 2; LRun 0; LRun 1; LRun 2; LVAdv 0; LStandby 0 0; LStandby 0 1; LStandby 0 2;
     LExpire 0 0; LExpire 0 1; LExpire 0 2].
Proof.
  destruct (run (init 0 true three 1) f9_sched) as [s|] eqn:E; [|vm_compute in E; discriminate].
  exists s. split; [eapply run_reachable; eauto|].
  vm_compute in E. inversion E; subst s; clear E. repeat split; try reflexivity.
  repeat constructor; unfold only_stutter; vm_compute; first [left; reflexivity | right; reflexivity].
Qed.

(* ---- out-of-order mode, two vCPUs: try_resume tests q.th at 1921 WITHOUT q.lock; the only waiter
   times out on its own vCPU before the signaller takes q.lock at 1923; then `q.th->next()`
   dereferences nullptr. *)
Definition crash_sched : list label :=
  LStart 0 (OpWait 5 10 false) :: adv 0 7 ++ LStart 1 (OpSignal 1) :: adv 1 8 ++
  LTick 20 :: LExpire 0 0 :: vadv 0 6 ++ adv 1 1.
Lemma ooo_null_deref : exists s, reachable (init 0 true [Some O; Some 1%nat] 2) s /\ g_crash s = true.
Proof.
  destruct (run (init 0 true [Some O; Some 1%nat] 2) crash_sched) as [s|] eqn:E; [|vm_compute in E; discriminate].
  exists s. split; [eapply run_reachable; eauto|].
  vm_compute in E. inversion E; subst s; clear E. reflexivity.
Qed.

(* ---- out-of-order mode, two vCPUs, UNIFORM demands (no waiter is satisfiable): the scan takes
   q.lock and then each waiter's thread.lock — the reverse of the order used by the timeout path
   (thread.lock, then q.lock in dequeue_ready_atomic): ABBA deadlock between signal() and the
   expiry of waiter 1 on its own vCPU. *)
Definition abba_sched : list label :=
  LStart 0 (OpWait 5 10 false) :: adv 0 7 ++ LStart 1 (OpWait 5 10 false) :: adv 1 7 ++
  LStart 2 (OpSignal 1) :: adv 2 9 ++ LTick 20 :: LExpire 0 1 :: vadv 0 2 ++ [].
Lemma ooo_abba_deadlock : exists s, reachable (init 0 true [Some O; Some O; Some 1%nat] 2) s /\
  qlock s = Some (PT 2) /\ t_lock (getth s 1) = Some (PV 0) /\
  pcof s 2 = SCTLock (CSignal 0) 1 1 /\ getv s 0 = VDeqLock 1 /\
  Forall (only_stutter s) [LAdv 0; LAdv 1; LAdv 2; LRun 0; LRun 1; LVAdv 0; LVAdv 1; LStandby 0 0; LStandby 0 1; LExpire 0 0; LExpire 0 1].
Proof.
  destruct (run (init 0 true [Some O; Some O; Some 1%nat] 2) abba_sched) as [s|] eqn:E; [|vm_compute in E; discriminate].
  exists s. split; [eapply run_reachable; eauto|].
  vm_compute in E. inversion E; subst s; clear E. repeat split; try reflexivity.
  repeat constructor; unfold only_stutter; vm_compute; first [left; reflexivity | right; reflexivity].
Qed.

(* ---------------------------------------------------------------------------------------- *)
(* The positive no-lost-wake-up statement under the guard that excludes F35: every wait on the
   semaphore uses the same demand d.  Its IN-ORDER instance (o = false) is PROVED in C02_NLW.v
   (`nlw_inorder_uniform`, theorem `sem_no_lost_wakeup_inorder_uniform`).  The statement below
   quantifies over both resume modes; its out-of-order instance is not proved (that mode is F9's
   class: the scan pcs deadlock / crash), so it stays a Definition and no theorem claims it. *)
Definition label_uniform (d : Z) (l : label) : Prop :=
  match l with LStart _ (OpWait c _ _) => c = d \/ c = 0 | _ => True end.
Inductive reachable_u (d : Z) (s0 : state) : state -> Prop :=
| ru_init : reachable_u d s0 s0
| ru_step : forall s l s', reachable_u d s0 s -> label_uniform d l -> step s l = Some s' -> reachable_u d s0 s'.
Definition no_pending (s : state) : Prop := forall t, t_pend (getth s t) = false.
Definition nlw_uniform_stmt : Prop :=
  forall d c o ths nv s, 0 < d -> 0 <= c < W64 -> reachable_u d (init c o ths nv) s ->
    splock s = None -> no_pending s -> queue s <> [] -> m_count s < d.

(* the guard is satisfiable and non-trivial: the final state of this uniform schedule has a
   non-empty queue, splock free, nobody pending, and indeed m_count < d *)
Example nlw_uniform_example :
  exists s, run (init 0 false three 1)
                (LStart 0 (OpWait 2 MAX64 false) :: adv 0 7 ++ LStart 1 (OpWait 2 MAX64 false) :: adv 1 7 ++
                 LStart 2 (OpSignal 3) :: adv 2 17 ++ LRun 0 :: adv 0 5) = Some s /\
            splock s = None /\ queue s = [1%nat] /\ m_count s = 1 /\ forallb (fun th => negb (t_pend th)) (threads s) = true.
Proof. eexists. split; [vm_compute; reflexivity|]. repeat split. Qed.
