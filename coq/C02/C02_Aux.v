(* C02_Aux.v — auxiliary invariants for the mixed-demand no-lost-wake-up theorem (in-order mode):
     b_sem  semaphore_count(y) = the demand of y's current wait call (0 outside / before 1892)
     b_err  error_number(y) = -1 (the value written by a resume pass)  =>  y is pending and still asleep
     b_ipc  no thread_interrupt call carries the error number -1 (guard on the labels)
     b_cmp  a resume pass at TRCmp _ _ x holds the lock of the HEAD x
   + sums over the thread table when one record changes. *)
From Coq Require Import ZArith List Bool Arith Lia.
From PV Require Import Base.U64 C02.C02_Model C02.C02_Base C02.C02_Cons C02.C02_Safe C02.C02_Locks C02.C02_LockProto C02.C02_Locks2 C02.C02_Locks3 C02.C02_Summ C02.C02_Credit C02.C02_Struct C02.C02_Other C02.C02_Flow C02.C02_Flow2.
Import ListNotations.
Local Open Scope Z_scope.

(* ---- sums ---- *)
Lemma tsum_ext F l l' : length l' = length l -> (forall y, F (nth y l' thread0) = F (nth y l thread0)) -> tsum F l' = tsum F l.
Proof.
  revert l'. induction l as [|a r IH]; intros [|a' r'] Hl Hy; simpl in *; try lia.
  pose proof (Hy O) as H0. simpl in H0. rewrite H0. f_equal. apply IH; [lia|]. intros y. apply (Hy (S y)).
Qed.
Lemma tsum_one F l l' x : length l' = length l -> (x < length l)%nat ->
  (forall y, y <> x -> F (nth y l' thread0) = F (nth y l thread0)) ->
  tsum F l' = tsum F l - F (nth x l thread0) + F (nth x l' thread0).
Proof.
  revert l' x. induction l as [|a r IH]; intros [|a' r'] x Hl Hx Hy; simpl in *; try lia.
  destruct x as [|x].
  - assert (E : tsum F r' = tsum F r). { apply tsum_ext; [lia|]. intros y. apply (Hy (S y)). lia. } lia.
  - pose proof (Hy O ltac:(lia)) as H0. simpl in H0. rewrite (IH r' x); [lia|lia|lia|]. intros y Ny. apply (Hy (S y)). lia.
Qed.
Lemma tsum_nonneg_l F l : (forall y, (y < length l)%nat -> 0 <= F (nth y l thread0)) -> 0 <= tsum F l.
Proof.
  induction l as [|a r IH]; simpl; intros H; [lia|]. pose proof (H O ltac:(lia)) as H0; simpl in H0.
  assert (0 <= tsum F r) by (apply IH; intros y Hy; apply (H (S y)); lia). lia.
Qed.
Lemma tsum_ge F l x : (forall y, (y < length l)%nat -> 0 <= F (nth y l thread0)) -> (x < length l)%nat ->
  F (nth x l thread0) <= tsum F l.
Proof.
  revert x. induction l as [|a r IH]; intros x Hp Hx; simpl in *; [lia|].
  pose proof (Hp O ltac:(lia)) as H0; simpl in H0.
  assert (Hr : forall y, (y < length r)%nat -> 0 <= F (nth y r thread0)) by (intros y Hy; apply (Hp (S y)); lia).
  destruct x as [|x].
  - pose proof (tsum_nonneg_l F r Hr). lia.
  - pose proof (IH x Hr ltac:(lia)). lia.
Qed.
Lemma ssum_one F s s' x : nthreads s' = nthreads s -> (x < nthreads s)%nat ->
  (forall y, y <> x -> F (getth s' y) = F (getth s y)) -> ssum F s' = ssum F s - F (getth s x) + F (getth s' x).
Proof. unfold ssum, getth, nthreads. intros. apply tsum_one; auto. Qed.
Lemma ssum_ext F s s' : nthreads s' = nthreads s -> (forall y, F (getth s' y) = F (getth s y)) -> ssum F s' = ssum F s.
Proof. unfold ssum, getth, nthreads. intros. apply tsum_ext; auto. Qed.
Lemma ssum_ge F s x : (forall y, (y < nthreads s)%nat -> 0 <= F (getth s y)) -> (x < nthreads s)%nat -> F (getth s x) <= ssum F s.
Proof. unfold ssum, getth, nthreads. intros. apply tsum_ge; auto. Qed.

(* ---- the auxiliary invariant ---- *)
Definition semarg (p : pc) : option wargs := match p with WLock1 _ => None | _ => pc_args p end.
Definition semv (p : pc) : Z := match semarg p with Some a => w_c a | None => 0 end.

Record binv (s : state) : Prop := mk_binv {
  b_sem : forall y, (y < nthreads s)%nat -> semc s y = semv (pcof s y);
  b_err : forall y, (y < nthreads s)%nat -> errof s y = -1 -> pend s y = true /\ waitpc (pcof s y) = true;
  b_ipc : forall t e, (t < nthreads s)%nat -> ipc_e (pcof s t) = Some e -> e <> -1;
  b_cmp : forall t k c x, (t < nthreads s)%nat -> pcof s t = TRCmp k c x -> head s = Some x
}.

Lemma semv_none p : pc_args p = None -> semv p = 0.
Proof. unfold semv, semarg. destruct p; cbn [pc_args]; intros E; try rewrite E; try reflexivity; discriminate. Qed.

Lemma flow_semc_frame s s' t p p' : flow s s' t p p' -> forall y, y <> t -> semc s' y = semc s y.
Proof. destruct p; cbn [flow]; unfold same, same_but; intros F y Ny; split_all; auto. Qed.

Ltac finsem := repeat match goal with H : forall y, semc ?s' y = semc ?s y |- _ => rewrite H; clear H end.

Lemma semv_step s s' u p p' : flow s s' u p p' -> cfg s s' u p p' -> noscan p = true ->
  (pc_args p' = None \/ pc_args p' = pc_args p) -> semc s u = semv p -> semc s' u = semv p'.
Proof.
  intros F C N A E.
  destruct p; cbn [noscan] in N; try discriminate N; cbn [flow cfg] in F, C; unfold same, same_but in F;
    try (match goal with kk : pikont |- _ => destruct kk; cbn [noscan] in N; try discriminate N end);
    try (match goal with k : caller |- _ => destruct k end);
    cbn [ret_pc pi_ret_pc] in *; split_all; subst;
    cbn [pc_args pc_caller pik_caller caller_args] in *;
    try (match goal with A : pc_args ?q = None |- semc _ _ = semv ?q => rewrite (semv_none q A) end);
    unfold semv, semarg in *; cbn [pc_args pc_caller pik_caller caller_args] in *; finsem;
    try assumption; try congruence.
Qed.

Lemma err_step t p y old new pd' : eff_err t p y old new pd' -> new = -1 ->
  (old = -1 /\ (forall a, p = WAsleep a -> t <> y)) \/ ((exists k c, p = TRCmp k c y) /\ pd' = true) \/
  (exists e, ipc_e p = Some e /\ e = -1).
Proof.
  intros E N. destruct p; cbn [eff_err ipc_e] in E; try (left; split; [congruence|intros; discriminate]);
    match type of E with context [Nat.eqb ?a ?b] => destruct (Nat.eqb_spec a b); [subst|left; split; [congruence|intros; try discriminate; try congruence]] end.
  - lia.
  - destruct E as [[_ E]|E]; [right; left; split; [eauto|exact E]|left; split; [congruence|intros; discriminate]].
  - destruct E as [E|E]; [right; right; eexists; split; [reflexivity|congruence]|left; split; [congruence|intros; discriminate]].
  - destruct E as [E|E]; [right; right; eexists; split; [reflexivity|congruence]|left; split; [congruence|intros; discriminate]].
Qed.

Lemma summ_pend3 s s' u y : summ s s' u -> (y < nthreads s)%nat ->
  pend s' y = pend s y \/ ((exists k c, pcof s u = TRCmp k c y) /\ pend s' y = true) \/
  (y = u /\ pend s' y = false /\ waitpc (pcof s u) = false /\ holds_sp (pcof s u) = true).
Proof.
  intros H Hy. open_summ H. specialize (Ep y Hy).
  destruct (pcof s u); cbn [eff_pend] in Ep; auto;
    match type of Ep with context [Nat.eqb ?a ?b] => destruct (Nat.eqb_spec a b); [subst|auto] end;
    destruct Ep as [E|E]; auto; [right; right; auto|right; right; auto|right; left; eauto].
Qed.

Lemma head_app s q (x u : nat) : q = x :: s -> match q ++ [u] with [] => None | h :: _ => Some h end = Some x.
Proof. intros ->. reflexivity. Qed.
Lemma head_remove_other (q : list nat) x y : match q with [] => None | h :: _ => Some h end = Some x -> y <> x ->
  match remove_tid y q with [] => None | h :: _ => Some h end = Some x.
Proof.
  destruct q as [|h r]; simpl; [discriminate|]. intros E N. inversion E; subst.
  destruct (Nat.eqb_spec x y); [congruence|reflexivity].
Qed.

Section BT.
  Variables (s s' : state) (u : nat).
  Hypothesis I : sinv s.
  Hypothesis B : binv s.
  Hypothesis It : tl_inv s.
  Hypothesis Hu : (u < nthreads s)%nat.
  Hypothesis Hn : nthreads s' = nthreads s.
  Hypothesis Hs : summ s s' u.
  Hypothesis Hf : flow s s' u (pcof s u) (pcof s' u).
  Hypothesis He : forall y, eff_err u (pcof s u) y (errof s y) (errof s' y) (pend s' y).
  Hypothesis Hi : forall e, ipc_e (pcof s' u) = Some e -> ipc_e (pcof s u) = Some e.
  Hypothesis Hns : noscan (pcof s u) = true.
  Hypothesis Fr : forall t', t' <> u -> pcof s' t' = pcof s t'.

  Lemma bt_sem y : (y < nthreads s')%nat -> semc s' y = semv (pcof s' y).
  Proof.
    intros Hy. rewrite Hn in Hy. destruct (Nat.eq_dec y u) as [->|N].
    - pose proof Hs as Hs2. open_summ Hs2. eapply semv_step; eauto. apply (b_sem _ B); auto.
    - rewrite (flow_semc_frame _ _ _ _ _ Hf) by auto. rewrite Fr by auto. apply (b_sem _ B); auto.
  Qed.

  Lemma bt_err y : (y < nthreads s')%nat -> errof s' y = -1 -> pend s' y = true /\ waitpc (pcof s' y) = true.
  Proof.
    intros Hy E. rewrite Hn in Hy.
    destruct (err_step _ _ _ _ _ _ (He y) E) as [[Eo Hw]|[[(k&c&Ep) Epd]|(e&Ei&->)]].
    - destruct (b_err _ B _ Hy Eo) as [Hp Hwp]. split.
      + destruct (summ_pend3 _ _ _ y Hs Hy) as [E1|[[_ E1]|(->&_&E1&_)]]; congruence.
      + destruct (Nat.eq_dec y u) as [->|N]; [|rewrite Fr; auto].
        destruct (summ_from_wait _ _ _ Hs Hwp) as [E1|(a&Ep&_)]; [exact E1|]. exfalso. eapply Hw; eauto.
    - split; [exact Epd|]. pose proof (b_cmp _ B _ _ _ _ Hu Ep) as Hh. apply head_in in Hh.
      destruct (s_q _ I _ Hh) as (_&_&_&Hw). rewrite Fr; [exact Hw|]. intros ->. rewrite Ep in Hw. discriminate.
    - exfalso. eapply (b_ipc _ B u); eauto.
  Qed.

  Lemma bt_ipc t e : (t < nthreads s')%nat -> ipc_e (pcof s' t) = Some e -> e <> -1.
  Proof.
    intros Ht E. rewrite Hn in Ht. destruct (Nat.eq_dec t u) as [->|N].
    - apply (b_ipc _ B u); auto.
    - rewrite Fr in E by auto. apply (b_ipc _ B t); auto.
  Qed.

  Lemma bt_cmp t k c x : (t < nthreads s')%nat -> pcof s' t = TRCmp k c x -> head s' = Some x.
  Proof.
    intros Ht E. rewrite Hn in Ht. destruct (Nat.eq_dec t u) as [->|N].
    - destruct (summ_to_trcmp _ _ _ _ _ _ Hs E) as [Ep Hh].
      destruct (summ_queue _ _ _ Hs) as [Eq|[(a&Ep2&_)|(kk&y&Ep2&_)]]; try congruence.
      unfold head in *. rewrite Eq. exact Hh.
    - rewrite Fr in E by auto. pose proof (b_cmp _ B _ _ _ _ Ht E) as Hh.
      destruct (summ_queue _ _ _ Hs) as [Eq|[(a&Ep2&Eq)|(kk&y&Ep2&Eq)]]; unfold head in *; rewrite Eq.
      + exact Hh.
      + destruct (queue s) as [|h r]; [discriminate|]. simpl. exact Hh.
      + apply head_remove_other; [exact Hh|]. intros ->. apply N.
        assert (Hx : (x < nthreads s)%nat). { apply (s_q _ I). apply head_in. exact Hh. }
        eapply (tl_excl s x); eauto.
        * rewrite E. reflexivity.
        * rewrite Ep2. reflexivity.
  Qed.

  Lemma binv_tstep_core : binv s'.
  Proof. constructor; [exact bt_sem|exact bt_err|exact bt_ipc|exact bt_cmp]. Qed.
End BT.

Lemma binv_tstep s u s' : sinv s -> binv s -> locks_inv s -> tstep s u = Some s' -> binv s'.
Proof.
  intros I B (Ho&Ins&Iq&It) H.
  pose proof (tstep_sp _ _ _ H) as [Hu _]. pose proof (tstep_nthreads _ _ _ H) as Hn.
  pose proof (tstep_summ _ _ _ H Ho (Ins _ Hu)) as Hs.
  pose proof (tstep_flow _ _ _ H Ho (Ins _ Hu)) as Hf.
  destruct (tstep_err _ _ _ H Ho (Ins _ Hu)) as [He Hi].
  eapply binv_tstep_core; eauto. intros; eapply tstep_pc_frame; eauto.
Qed.

