(* C02_Aux.v — auxiliary invariants for the mixed-demand no-lost-wake-up theorem (in-order mode):
     b_sem  semaphore_count(y) = the demand of y's current wait call (0 outside / before 1892)
     b_err  error_number(y) = -1 (the value written by a resume pass)  =>  y is pending and still asleep
     b_ipc  no thread_interrupt call carries the error number -1 (guard on the labels)
     b_cmp  a resume pass at TRCmp _ _ x holds the lock of the HEAD x
   + sums over the thread table when one record changes. *)
From Coq Require Import ZArith List Bool Arith Lia.
From PV Require Import Base.U64 C02.C02_Model C02.C02_Base C02.C02_Cons C02.C02_Safe C02.C02_Locks C02.C02_LockProto C02.C02_Locks2 C02.C02_Locks3 C02.C02_Summ C02.C02_Credit C02.C02_Struct C02.C02_Other C02.C02_Flow C02.C02_Flow2.
Import ListNotations.
Local Open Scope Z_scope.

(* ---- sums ---- *)
Lemma tsum_ext F l l' : length l' = length l -> (forall y, F (nth y l' thread0) = F (nth y l thread0)) -> tsum F l' = tsum F l.
Proof.
  revert l'. induction l as [|a r IH]; intros [|a' r'] Hl Hy; simpl in *; try lia.
  pose proof (Hy O) as H0. simpl in H0. rewrite H0. f_equal. apply IH; [lia|]. intros y. apply (Hy (S y)).
Qed.
Lemma tsum_one F l l' x : length l' = length l -> (x < length l)%nat ->
  (forall y, y <> x -> F (nth y l' thread0) = F (nth y l thread0)) ->
  tsum F l' = tsum F l - F (nth x l thread0) + F (nth x l' thread0).
Proof.
  revert l' x. induction l as [|a r IH]; intros [|a' r'] x Hl Hx Hy; simpl in *; try lia.
  destruct x as [|x].
  - assert (E : tsum F r' = tsum F r). { apply tsum_ext; [lia|]. intros y. apply (Hy (S y)). lia. } lia.
  - pose proof (Hy O ltac:(lia)) as H0. simpl in H0. rewrite (IH r' x); [lia|lia|lia|]. intros y Ny. apply (Hy (S y)). lia.
Qed.
Lemma tsum_nonneg_l F l : (forall y, (y < length l)%nat -> 0 <= F (nth y l thread0)) -> 0 <= tsum F l.
Proof.
  induction l as [|a r IH]; simpl; intros H; [lia|]. pose proof (H O ltac:(lia)) as H0; simpl in H0.
  assert (0 <= tsum F r) by (apply IH; intros y Hy; apply (H (S y)); lia). lia.
Qed.
Lemma tsum_ge F l x : (forall y, (y < length l)%nat -> 0 <= F (nth y l thread0)) -> (x < length l)%nat ->
  F (nth x l thread0) <= tsum F l.
Proof.
  revert x. induction l as [|a r IH]; intros x Hp Hx; simpl in *; [lia|].
  pose proof (Hp O ltac:(lia)) as H0; simpl in H0.
  assert (Hr : forall y, (y < length r)%nat -> 0 <= F (nth y r thread0)) by (intros y Hy; apply (Hp (S y)); lia).
  destruct x as [|x].
  - pose proof (tsum_nonneg_l F r Hr). lia.
  - pose proof (IH x Hr ltac:(lia)). lia.
Qed.
Lemma ssum_one F s s' x : nthreads s' = nthreads s -> (x < nthreads s)%nat ->
  (forall y, y <> x -> F (getth s' y) = F (getth s y)) -> ssum F s' = ssum F s - F (getth s x) + F (getth s' x).
Proof. unfold ssum, getth, nthreads. intros. apply tsum_one; auto. Qed.
Lemma ssum_ext F s s' : nthreads s' = nthreads s -> (forall y, F (getth s' y) = F (getth s y)) -> ssum F s' = ssum F s.
Proof. unfold ssum, getth, nthreads. intros. apply tsum_ext; auto. Qed.
Lemma ssum_ge F s x : (forall y, (y < nthreads s)%nat -> 0 <= F (getth s y)) -> (x < nthreads s)%nat -> F (getth s x) <= ssum F s.
Proof. unfold ssum, getth, nthreads. intros. apply tsum_ge; auto. Qed.

(* ---- the auxiliary invariant ---- *)
Definition semarg (p : pc) : option wargs := match p with WLock1 _ => None | _ => pc_args p end.
Definition semv (p : pc) : Z := match semarg p with Some a => w_c a | None => 0 end.

Record binv (s : state) : Prop := mk_binv {
  b_sem : forall y, (y < nthreads s)%nat -> semc s y = semv (pcof s y);
  b_err : forall y, (y < nthreads s)%nat -> errof s y = -1 -> pend s y = true /\ waitpc (pcof s y) = true;
  b_ipc : forall t e, (t < nthreads s)%nat -> ipc_e (pcof s t) = Some e -> e <> -1;
  b_cmp : forall t k c x, (t < nthreads s)%nat -> pcof s t = TRCmp k c x -> head s = Some x
}.

Lemma semv_none p : pc_args p = None -> semv p = 0.
Proof. unfold semv, semarg. destruct p; cbn [pc_args]; intros E; try rewrite E; try reflexivity; discriminate. Qed.

Lemma flow_semc_frame s s' t p p' : flow s s' t p p' -> forall y, y <> t -> semc s' y = semc s y.
Proof. destruct p; cbn [flow]; unfold same, same_but; intros F y Ny; split_all; auto. Qed.

Ltac finsem := repeat match goal with H : forall y, semc ?s' y = semc ?s y |- _ => rewrite H; clear H end.

Lemma semv_step s s' u p p' : flow s s' u p p' -> cfg s s' u p p' -> noscan p = true ->
  (pc_args p' = None \/ pc_args p' = pc_args p) -> semc s u = semv p -> semc s' u = semv p'.
Proof.
  intros F C N A E.
  destruct p; cbn [noscan] in N; try discriminate N; cbn [flow cfg] in F, C; unfold same, same_but in F;
    try (match goal with kk : pikont |- _ => destruct kk; cbn [noscan] in N; try discriminate N end);
    try (match goal with k : caller |- _ => destruct k end);
    cbn [ret_pc pi_ret_pc] in *; split_all; subst;
    cbn [pc_args pc_caller pik_caller caller_args] in *;
    try (match goal with A : pc_args ?q = None |- semc _ _ = semv ?q => rewrite (semv_none q A) end);
    unfold semv, semarg in *; cbn [pc_args pc_caller pik_caller caller_args] in *; finsem;
    try assumption; try congruence.
Qed.

Lemma err_step t p y old new pd' : eff_err t p y old new pd' -> new = -1 ->
  (old = -1 /\ (forall a, p = WAsleep a -> t <> y)) \/ ((exists k c, p = TRCmp k c y) /\ pd' = true) \/
  (exists e, ipc_e p = Some e /\ e = -1).
Proof.
  intros E N. destruct p; cbn [eff_err ipc_e] in E; try (left; split; [congruence|intros; discriminate]);
    match type of E with context [Nat.eqb ?a ?b] => destruct (Nat.eqb_spec a b); [subst|left; split; [congruence|intros; try discriminate; try congruence]] end.
  - lia.
  - destruct E as [[_ E]|E]; [right; left; split; [eauto|exact E]|left; split; [congruence|intros; discriminate]].
  - destruct E as [E|E]; [right; right; eexists; split; [reflexivity|congruence]|left; split; [congruence|intros; discriminate]].
  - destruct E as [E|E]; [right; right; eexists; split; [reflexivity|congruence]|left; split; [congruence|intros; discriminate]].
Qed.

Lemma summ_pend3 s s' u y : summ s s' u -> (y < nthreads s)%nat ->
  pend s' y = pend s y \/ ((exists k c, pcof s u = TRCmp k c y) /\ pend s' y = true) \/
  (y = u /\ pend s' y = false /\ waitpc (pcof s u) = false /\ holds_sp (pcof s u) = true).
Proof.
  intros H Hy. open_summ H. specialize (Ep y Hy).
  destruct (pcof s u); cbn [eff_pend] in Ep; auto;
    match type of Ep with context [Nat.eqb ?a ?b] => destruct (Nat.eqb_spec a b); [subst|auto] end;
    destruct Ep as [E|E]; auto; [right; right; auto|right; right; auto|right; left; eauto].
Qed.

Lemma head_app s q (x u : nat) : q = x :: s -> match q ++ [u] with [] => None | h :: _ => Some h end = Some x.
Proof. intros ->. reflexivity. Qed.
Lemma head_remove_other (q : list nat) x y : match q with [] => None | h :: _ => Some h end = Some x -> y <> x ->
  match remove_tid y q with [] => None | h :: _ => Some h end = Some x.
Proof.
  destruct q as [|h r]; simpl; [discriminate|]. intros E N. inversion E; subst.
  destruct (Nat.eqb_spec x y); [congruence|reflexivity].
Qed.

Section BT.
  Variables (s s' : state) (u : nat).
  Hypothesis I : sinv s.
  Hypothesis B : binv s.
  Hypothesis It : tl_inv s.
  Hypothesis Hu : (u < nthreads s)%nat.
  Hypothesis Hn : nthreads s' = nthreads s.
  Hypothesis Hs : summ s s' u.
  Hypothesis Hf : flow s s' u (pcof s u) (pcof s' u).
  Hypothesis He : forall y, eff_err u (pcof s u) y (errof s y) (errof s' y) (pend s' y).
  Hypothesis Hi : forall e, ipc_e (pcof s' u) = Some e -> ipc_e (pcof s u) = Some e.
  Hypothesis Hns : noscan (pcof s u) = true.
  Hypothesis Fr : forall t', t' <> u -> pcof s' t' = pcof s t'.

  Lemma bt_sem y : (y < nthreads s')%nat -> semc s' y = semv (pcof s' y).
  Proof.
    intros Hy. rewrite Hn in Hy. destruct (Nat.eq_dec y u) as [->|N].
    - pose proof Hs as Hs2. open_summ Hs2. eapply semv_step; eauto. apply (b_sem _ B); auto.
    - rewrite (flow_semc_frame _ _ _ _ _ Hf) by auto. rewrite Fr by auto. apply (b_sem _ B); auto.
  Qed.

  Lemma bt_err y : (y < nthreads s')%nat -> errof s' y = -1 -> pend s' y = true /\ waitpc (pcof s' y) = true.
  Proof.
    intros Hy E. rewrite Hn in Hy.
    destruct (err_step _ _ _ _ _ _ (He y) E) as [[Eo Hw]|[[(k&c&Ep) Epd]|(e&Ei&->)]].
    - destruct (b_err _ B _ Hy Eo) as [Hp Hwp]. split.
      + destruct (summ_pend3 _ _ _ y Hs Hy) as [E1|[[_ E1]|(->&_&E1&_)]]; congruence.
      + destruct (Nat.eq_dec y u) as [->|N]; [|rewrite Fr; auto].
        destruct (summ_from_wait _ _ _ Hs Hwp) as [E1|(a&Ep&_)]; [exact E1|]. exfalso. eapply Hw; eauto.
    - split; [exact Epd|]. pose proof (b_cmp _ B _ _ _ _ Hu Ep) as Hh. apply head_in in Hh.
      destruct (s_q _ I _ Hh) as (_&_&_&Hw). rewrite Fr; [exact Hw|]. intros ->. rewrite Ep in Hw. discriminate.
    - exfalso. eapply (b_ipc _ B u); eauto.
  Qed.

  Lemma bt_ipc t e : (t < nthreads s')%nat -> ipc_e (pcof s' t) = Some e -> e <> -1.
  Proof.
    intros Ht E. rewrite Hn in Ht. destruct (Nat.eq_dec t u) as [->|N].
    - apply (b_ipc _ B u); auto.
    - rewrite Fr in E by auto. apply (b_ipc _ B t); auto.
  Qed.

  Lemma bt_cmp t k c x : (t < nthreads s')%nat -> pcof s' t = TRCmp k c x -> head s' = Some x.
  Proof.
    intros Ht E. rewrite Hn in Ht. destruct (Nat.eq_dec t u) as [->|N].
    - destruct (summ_to_trcmp _ _ _ _ _ _ Hs E) as [Ep Hh].
      destruct (summ_queue _ _ _ Hs) as [Eq|[(a&Ep2&_)|(kk&y&Ep2&_)]]; try congruence.
      unfold head in *. rewrite Eq. exact Hh.
    - rewrite Fr in E by auto. pose proof (b_cmp _ B _ _ _ _ Ht E) as Hh.
      destruct (summ_queue _ _ _ Hs) as [Eq|[(a&Ep2&Eq)|(kk&y&Ep2&Eq)]]; unfold head in *; rewrite Eq.
      + exact Hh.
      + destruct (queue s) as [|h r]; [discriminate|]. simpl. exact Hh.
      + apply head_remove_other; [exact Hh|]. intros ->. apply N.
        assert (Hx : (x < nthreads s)%nat). { apply (s_q _ I). apply head_in. exact Hh. }
        eapply (tl_excl s x); eauto.
        * rewrite E. reflexivity.
        * rewrite Ep2. reflexivity.
  Qed.

  Lemma binv_tstep_core : binv s'.
  Proof. constructor; [exact bt_sem|exact bt_err|exact bt_ipc|exact bt_cmp]. Qed.
End BT.

Lemma binv_tstep s u s' : sinv s -> binv s -> locks_inv s -> tstep s u = Some s' -> binv s'.
Proof.
  intros I B (Ho&Ins&Iq&It) H.
  pose proof (tstep_sp _ _ _ H) as [Hu _]. pose proof (tstep_nthreads _ _ _ H) as Hn.
  pose proof (tstep_summ _ _ _ H Ho (Ins _ Hu)) as Hs.
  pose proof (tstep_flow _ _ _ H Ho (Ins _ Hu)) as Hf.
  destruct (tstep_err _ _ _ H Ho (Ins _ Hu)) as [He Hi].
  eapply binv_tstep_core; eauto. intros; eapply tstep_pc_frame; eauto.
Qed.


(* ---- the other labels ---- *)
Lemma binv_vstep s v s' : sinv s -> binv s -> tl_inv s -> vstep s v = Some s' -> binv s'.
Proof.
  intros I B It H. destruct (vstep_effect _ _ _ H) as (Hn&Hp&_). destruct (vstep_locks _ _ _ H) as (Hv&_).
  destruct (vstep_summ _ _ _ H) as (Eq&_&_&Ep&_&Esc&_&_). pose proof (vstep_err _ _ _ H) as Ee.
  constructor.
  - intros y Hy. rewrite Hn in Hy. rewrite Esc, Hp. apply (b_sem _ B); auto.
  - intros y Hy E. rewrite Hn in Hy. rewrite Ee in E. rewrite Ep, Hp. apply (b_err _ B); auto.
  - intros t e Ht E. rewrite Hn in Ht. rewrite Hp in E. apply (b_ipc _ B t); auto.
  - intros t k c x Ht E. rewrite Hn in Ht. rewrite Hp in E. pose proof (b_cmp _ B _ _ _ _ Ht E) as Hh.
    destruct Eq as [Eq|(y&Ev&Eq)]; unfold head in *; rewrite Eq; [exact Hh|].
    apply head_remove_other; [exact Hh|]. intros ->.
    assert (Hx : (x < nthreads s)%nat). { apply (s_q _ I). apply head_in. exact Hh. }
    eapply (tl_excl_v s x t v); eauto; [rewrite E; reflexivity|rewrite Ev; reflexivity].
Qed.

Definition label_noneg (l : label) : Prop :=
  match l with LStart _ (OpInterrupt _ e) => e <> -1 | _ => True end.

Lemma start_pc_semv o p' vc : start_pc o p' vc -> semv p' = 0.
Proof. destruct o; cbn [start_pc]; intros H; split_all; subst; reflexivity. Qed.

Lemma binv_start s t o s' : sinv s -> binv s -> start s t o = Some s' -> label_noneg (LStart t o) -> binv s'.
Proof.
  intros I B H Lg. destruct (start_effect _ _ _ _ H) as (Ht&Hn&Hi&_&Fr&_&_&Eq&_).
  destruct (start_summ _ _ _ _ H) as (_&_&Ep&_&Esc&_&Hpc'). pose proof (start_err _ _ _ _ H) as Ee.
  pose proof (start_pc_facts _ _ _ Hpc') as (F1&F2&F3&F4&F5&F6&F7).
  constructor.
  - intros y Hy. rewrite Hn in Hy. rewrite Esc. destruct (Nat.eq_dec y t) as [->|N]; [|rewrite Fr by auto; apply (b_sem _ B); auto].
    rewrite (b_sem _ B _ Ht), Hi, (start_pc_semv _ _ _ Hpc'). reflexivity.
  - intros y Hy E. rewrite Hn in Hy. rewrite Ee in E. rewrite Ep. destruct (b_err _ B _ Hy E) as [Hp Hw].
    destruct (Nat.eq_dec y t) as [->|N]; [rewrite Hi in Hw; discriminate|rewrite Fr by auto; auto].
  - intros t0 e Ht0 E. rewrite Hn in Ht0. destruct (Nat.eq_dec t0 t) as [->|N]; [|rewrite Fr in E by auto; apply (b_ipc _ B t0); auto].
    destruct o; cbn [start_pc label_noneg] in *; split_all; subst;
      match goal with E1 : pcof s' t = _ |- _ => rewrite E1 in E; cbn [ipc_e] in E; try discriminate E end.
    inversion E; subst; assumption.
  - intros t0 k c x Ht0 E. rewrite Hn in Ht0. destruct (Nat.eq_dec t0 t) as [->|N]; [exfalso; eapply F6; eauto|].
    rewrite Fr in E by auto. unfold head. rewrite Eq. apply (b_cmp _ B _ _ _ _ Ht0 E).
Qed.

Lemma binv_sched s l s' : binv s -> step s l = Some s' ->
  match l with LRun _ | LStandby _ _ | LExpire _ _ | LTick _ => True | _ => False end -> binv s'.
Proof.
  intros B H L. destruct (sched_effect _ _ _ H L) as (Hn&Hp&_&_&_&_&_&_&_&_&Eq).
  destruct (sched_summ _ _ _ H L) as (_&_&Ep&_&Esc&_&_). pose proof (sched_err _ _ _ H L) as Ee.
  constructor.
  - intros y Hy. rewrite Hn in Hy. rewrite Esc, Hp. apply (b_sem _ B); auto.
  - intros y Hy E. rewrite Hn in Hy. rewrite Ee in E. rewrite Ep, Hp. apply (b_err _ B); auto.
  - intros t e Ht E. rewrite Hn in Ht. rewrite Hp in E. apply (b_ipc _ B t); auto.
  - intros t k c x Ht E. rewrite Hn in Ht. rewrite Hp in E. unfold head. rewrite Eq. apply (b_cmp _ B _ _ _ _ Ht E).
Qed.

Lemma binv_step s l s' : sinv s -> binv s -> locks_inv s -> label_noneg l -> step s l = Some s' -> binv s'.
Proof.
  intros I B Il Lg H. destruct l.
  - simpl in H. eapply binv_start; eauto.
  - simpl in H. eapply binv_tstep; eauto.
  - eapply binv_sched; eauto; exact Logic.I.
  - eapply binv_sched; eauto; exact Logic.I.
  - eapply binv_sched; eauto; exact Logic.I.
  - simpl in H. destruct Il as (_&_&_&It). eapply binv_vstep; eauto.
  - eapply binv_sched; eauto; exact Logic.I.
Qed.

Lemma binv_init c o ths nv : binv (init c o ths nv).
Proof.
  constructor.
  - intros y _. rewrite init_pcof. unfold semc. destruct (init_getth c o ths nv y) as [E|(vc&E)]; rewrite E; reflexivity.
  - intros y _ E. exfalso. unfold errof in E. destruct (init_getth c o ths nv y) as [E1|(vc&E1)]; rewrite E1 in E; discriminate.
  - intros t e _ E. rewrite init_pcof in E. discriminate.
  - intros t k c0 x _ E. rewrite init_pcof in E. discriminate.
Qed.

(* ---- consequences ---- *)
Lemma semv_nonneg p : pc_wf p -> 0 <= semv p.
Proof.
  intros [W _]. unfold semv. destruct (semarg p) as [a|] eqn:E; [|lia].
  assert (Ha : pc_args p = Some a). { unfold semarg in E. destruct p; try discriminate E; exact E. }
  specialize (W a Ha). unfold args_ok in W. lia.
Qed.
Lemma semv_wait p : pc_wf p -> waitpc p = true -> 0 < semv p.
Proof.
  intros [W _] Hw. destruct p; cbn [waitpc] in Hw; try discriminate Hw; unfold semv, semarg; cbn [pc_args];
    match goal with |- 0 < w_c ?a => specialize (W a eq_refl); unfold args_ok in W; lia end.
Qed.
