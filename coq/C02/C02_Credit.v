(* C02_Credit.v — the arithmetic half of "no lost wake-up" for in-order mode with one demand
   value d: the CREDIT invariant, stated by the program counter of the splock holder.
   credit := m_count - d * (number of threads woken by a resume pass that have not retried). *)
From Coq Require Import ZArith List Bool Arith Lia.
From PV Require Import Base.U64 C02.C02_Model C02.C02_Base C02.C02_Cons C02.C02_Locks.
Import ListNotations.
Local Open Scope Z_scope.

Definition pendz (th : thread) : Z := if t_pend th then 1 else 0.
Definition npend (s : state) : Z := ssum pendz s.
Definition credit (d : Z) (s : state) : Z := m_count s - d * npend s.
Definition Qfree (d : Z) (s : state) : Prop := queue s = [] \/ credit d s < d.

Definition hinv (d : Z) (s : state) (p : pc) : Prop :=
  match p with
  | WLoad _ | WCas _ _ | WFailLoad _ _ | WRet _ _ _ | SAdd _ _ | SUnlock _ => Qfree d s
  | WQLock _ | WTLock _ | WEnq _ | WQUnlock _ | WDefer _ => m_count s < d
  | TRHead _ c | TRLockX _ c _ | TRRecheck _ c _ | TRUnlockRetry _ c _ | TRCmp _ c _ | TRUnlockLoop _ c _ => credit d s <= c
  | TRUnlockBreak _ c _ => credit d s <= c /\ c < d
  | TRTail _ c => credit d s <= c /\ (queue s = [] \/ c < d)
  | PIQLock (KHead _ c) _ | PIDeq (KHead _ c) _ | PIState (KHead _ c) _ => credit d s <= c
  | _ => True
  end.

Lemma ssum_modth_gen F s x f :
  ssum F (modth s x f) = ssum F s + (if Nat.ltb x (nthreads s) then F (f (getth s x)) - F (getth s x) else 0).
Proof.
  destruct (Nat.ltb_spec x (nthreads s)).
  - rewrite ssum_modth by auto. lia.
  - unfold ssum, modth, setth; simpl. rewrite upd_nth_oob by (unfold nthreads in *; lia). lia.
Qed.

Lemma C02_Summ_fld {A} (F : thread -> A) s x f y :
  F (getth (modth s x f) y) = if Nat.eqb x y && Nat.ltb x (nthreads s) then F (f (getth s x)) else F (getth s y).
Proof.
  destruct (Nat.eqb_spec x y) as [->|N]; simpl.
  - destruct (Nat.ltb_spec y (nthreads s)).
    + rewrite getth_modth_same; auto.
    + unfold getth, modth, setth; simpl. rewrite upd_nth_oob by (unfold nthreads in *; lia). reflexivity.
  - rewrite getth_modth_other; auto.
Qed.

Lemma tstep_args s t s' : tstep s t = Some s' -> pc_args (pcof s' t) = None \/ pc_args (pcof s' t) = pc_args (pcof s t).
Proof.
  intros H. tstep_cases H; apply ltb_lt in Hlt; norm; unfold pcof; rewrite ?Hpc;
    cbn [pc_args pc_caller pik_caller caller_args]; auto.
Qed.

Lemma npend_nonneg s : 0 <= npend s.
Proof. apply ssum_nonneg. intros th. unfold pendz. destruct (t_pend th); lia. Qed.

Ltac psums := repeat first
  [ rewrite ssum_modth_keep by (intros; reflexivity)
  | rewrite ssum_modth_gen
  | rewrite (getth_modth_frame pendz) by (intros; reflexivity)
  | progress (autorewrite with st) ].

Lemma pendz_set th b p : pendz (set_pc (set_pend th b) p) = if b then 1 else 0.
Proof. reflexivity. Qed.
Lemma pendz_set2 th e p : pendz (set_pend (set_err th e) p) = if p then 1 else 0.
Proof. reflexivity. Qed.
Lemma pendz_of s x b : t_pend (getth s x) = b -> pendz (getth s x) = if b then 1 else 0.
Proof. unfold pendz. intros ->. reflexivity. Qed.
Lemma pendz_range th : 0 <= pendz th <= 1.
Proof. unfold pendz. destruct (t_pend th); lia. Qed.

Lemma head_none s : head s = None -> queue s = [].
Proof. unfold head. destruct (queue s); [auto|discriminate]. Qed.

Lemma getth_oob s x : (nthreads s <= x)%nat -> getth s x = thread0.
Proof. intros. unfold getth. apply nth_overflow. exact H. Qed.

Ltac fin :=
  unfold Qfree, credit, npend in *; psums; rewrite ?pendz_set, ?pendz_set2; zb;
  repeat match goal with |- context [Nat.ltb ?a ?b] => destruct (Nat.ltb_spec a b) end;
  try (match goal with H : (?x < nthreads ?s)%nat, H5 : (?x < nthreads ?s)%nat -> t_pend (getth ?s ?x) = false |- _ =>
         rewrite (pendz_of s x false (H5 H)) end);
  try (match goal with H : (nthreads ?s <= ?x)%nat |- _ => rewrite ?(getth_oob s x H) in * end);
  cbn [t_semcnt thread0 pendz t_pend] in *;
  try (match goal with H : head _ = None |- _ => apply head_none in H end);
  unfold pendz in *;
  repeat match goal with |- context [t_pend ?th] => destruct (t_pend th) end;
  try (intuition lia).

Lemma tstep_credit s t s' d : tstep s t = Some s' -> 0 < d -> ooo s = false -> noscan (pcof s t) = true ->
  (forall a, pc_args (pcof s t) = Some a -> w_c a = d) ->
  (forall y, t_semcnt (getth s y) = 0 \/ t_semcnt (getth s y) = d) ->
  (forall k c x, pcof s t = TRCmp k c x -> (x < nthreads s)%nat -> t_pend (getth s x) = false) ->
  (holds_sp (pcof s t) = true -> hinv d s (pcof s t) ->
     (holds_sp (pcof s' t) = true -> hinv d s' (pcof s' t)) /\ (holds_sp (pcof s' t) = false -> Qfree d s')) /\
  (holds_sp (pcof s t) = false ->
     m_count s' = m_count s /\ npend s' = npend s /\ (queue s = [] -> queue s' = [])).
Proof.
  intros H Hd Ho. pose proof (npend_nonneg s) as HP. pose proof (Z.mul_nonneg_nonneg d (npend s) ltac:(lia) HP) as HdP.
  tstep_cases H; apply ltb_lt in Hlt; try (match goal with kk : pikont |- _ => destruct kk end);
    norm; unfold pcof at 1; rewrite ?Hpc; cbn [noscan]; intros Hn; try discriminate Hn;
    unfold pcof; rewrite ?Hpc; cbn [holds_sp pik_sp hinv pc_args pc_caller pik_caller caller_args]; intros Ha Hsem Hp5;
    try (specialize (Ha _ eq_refl));
    try (match type of Hpc with _ = TRCmp ?k ?c ?x => pose proof (Hsem x) as Hsx; pose proof (Hp5 k c x eq_refl) as Hp5x end);
    (split; [intros Hh0 Hi; try discriminate Hh0; (split; intros Hx; try discriminate Hx; clear Hx); fin
            |intros Hh; try discriminate Hh; (split; [|split]); unfold npend; psums; try reflexivity; try (intros ->; reflexivity); try lia]).
Qed.

Lemma tstep_semcnt s t s' : tstep s t = Some s' ->
  forall y, t_semcnt (getth s' y) = t_semcnt (getth s y) \/ t_semcnt (getth s' y) = 0 \/
            (exists a, pc_args (pcof s t) = Some a /\ t_semcnt (getth s' y) = w_c a).
Proof.
  intros H y. tstep_cases H; apply ltb_lt in Hlt; unf; brk; unfold pcof; rewrite ?Hpc; cbn [pc_args];
    repeat first [rewrite (C02_Summ_fld t_semcnt) | progress (autorewrite with st) | progress thsimp];
    repeat match goal with
    | |- context [Nat.eqb ?a ?b] => destruct (Nat.eqb_spec a b); try subst
    | |- context [Nat.ltb ?a ?b] => destruct (Nat.ltb_spec a b)
    end; cbn [andb]; eauto.
Qed.
