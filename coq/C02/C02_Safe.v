(* C02_Safe.v - destroy-after-wait safety (T2), CAS never fails (T3) *)
From Coq Require Import ZArith List Bool Arith Lia.
From PV Require Import Base.U64 C02.C02_Model C02.C02_Base C02.C02_Cons.
Import ListNotations.
Local Open Scope Z_scope.

(* ---------------------------------------------------------------------------------------- *)
(* T2: safe to destroy after wait.  A signal call that has acquired splock (ghost epoch `ep` =
   number of wait returns at that moment) performs ALL its remaining accesses before any wait
   call returns: while it is in flight, g_rets is still `ep`. *)
Definition caller_ep (k : caller) : option nat := match k with CSignal ep => Some ep | _ => None end.
Definition sig_ep (p : pc) : option nat :=
  match p with
  | SAdd _ ep | SUnlock ep => Some ep
  | _ => match pc_caller p with Some k => caller_ep k | None => None end
  end.
Lemma sig_ep_holds p ep : sig_ep p = Some ep -> holds_sp p = true.
Proof. destruct p; simpl; try discriminate; auto; destruct kk; simpl; auto; discriminate. Qed.

Lemma tstep_ep s t s' : tstep s t = Some s' ->
  (forall ep, sig_ep (pcof s' t) = Some ep -> sig_ep (pcof s t) = Some ep \/ ep = g_rets s') /\
  (g_rets s' = g_rets s \/ exists a r k, pcof s t = WRet a r k).
Proof.
  intros H. tstep_cases H; apply ltb_lt in Hlt; norm; unfold pcof; rewrite ?Hpc;
    cbn [sig_ep pc_caller pik_caller caller_ep]; (split; [intros ep0 E; try discriminate; auto; try (inv_some E; auto)|]); eauto.
Qed.

Definition ep_inv (s : state) : Prop :=
  forall t ep, (t < nthreads s)%nat -> sig_ep (pcof s t) = Some ep -> ep = g_rets s.

Lemma ep_inv_step s l s' : sp_inv s -> ep_inv s -> step s l = Some s' -> ep_inv s'.
Proof.
  intros [S1 S2] Iv H t' ep Hl He. destruct l.
  - simpl in H. destruct (start_effect _ _ _ _ H) as (Ht&Hn&Hi&Hh&Fr&_&_&_&_&_&_&_&Er&_). rewrite Hn in Hl. rewrite Er.
    destruct (Nat.eq_dec t' t) as [->|N]; [apply sig_ep_holds in He; congruence|rewrite Fr in He; eauto].
  - simpl in H. rewrite (tstep_nthreads _ _ _ H) in Hl. pose proof (tstep_sp _ _ _ H) as [Ht _].
    destruct (tstep_ep _ _ _ H) as [E1 E2].
    destruct (Nat.eq_dec t' t) as [->|N].
    + destruct (E1 _ He) as [E|E]; auto. specialize (Iv _ _ Hl E).
      destruct E2 as [E2|(a&r&k&E2)]; [congruence|]. rewrite E2 in E. discriminate.
    + erewrite tstep_pc_frame in He by eauto. specialize (Iv _ _ Hl He).
      destruct E2 as [E2|(a&r&k&E2)]; [congruence|].
      apply sig_ep_holds in He. pose proof (S1 _ Hl He) as Hx.
      assert (Hy : holds_sp (pcof s t) = true) by (rewrite E2; reflexivity).
      pose proof (S1 _ Ht Hy). congruence.
  - destruct (sched_effect _ _ _ H Logic.I) as (Hn&Hp&_&_&_&_&Er&_). rewrite Hn in Hl. rewrite Hp in He. rewrite Er. eauto.
  - destruct (sched_effect _ _ _ H Logic.I) as (Hn&Hp&_&_&_&_&Er&_). rewrite Hn in Hl. rewrite Hp in He. rewrite Er. eauto.
  - destruct (sched_effect _ _ _ H Logic.I) as (Hn&Hp&_&_&_&_&Er&_). rewrite Hn in Hl. rewrite Hp in He. rewrite Er. eauto.
  - simpl in H. destruct (vstep_effect _ _ _ H) as (Hn&Hp&_&_&_&_&Er&_). rewrite Hn in Hl. rewrite Hp in He. rewrite Er. eauto.
  - destruct (sched_effect _ _ _ H Logic.I) as (Hn&Hp&_&_&_&_&Er&_). rewrite Hn in Hl. rewrite Hp in He. rewrite Er. eauto.
Qed.

Lemma sp_inv_reachable c o ths nv s : reachable (init c o ths nv) s -> sp_inv s.
Proof. apply reachable_inv; [apply sp_inv_init|apply sp_inv_step]. Qed.

Lemma destroy_safe c o ths nv s : reachable (init c o ths nv) s ->
  forall t ep, (t < nthreads s)%nat -> sig_ep (pcof s t) = Some ep -> ep = g_rets s.
Proof.
  intros R.
  assert (I : sp_inv s /\ ep_inv s).
  { eapply (reachable_inv (fun s => sp_inv s /\ ep_inv s)); [| |exact R].
    - split; [apply sp_inv_init|]. intros t ep _ E. rewrite init_pcof in E. discriminate.
    - intros s1 l s2 [I1 I2] H. split; [eapply sp_inv_step; eauto|eapply ep_inv_step; eauto]. }
  exact (proj2 I).
Qed.

(* at the moment a wait call returns (it is at its final unlock), no signal call is inside *)
Lemma destroy_safe_at_return c o ths nv s : reachable (init c o ths nv) s ->
  forall t a r k, (t < nthreads s)%nat -> pcof s t = WRet a r k ->
  forall t', (t' < nthreads s)%nat -> sig_ep (pcof s t') = None.
Proof.
  intros R t a r k Ht Hp t' Ht'. destruct (sp_inv_reachable _ _ _ _ _ R) as [S1 _].
  destruct (sig_ep (pcof s t')) eqn:E0; auto. pose proof (sig_ep_holds _ _ E0) as E.
  assert (Hy : holds_sp (pcof s t) = true) by (rewrite Hp; reflexivity).
  pose proof (S1 _ Ht Hy). pose proof (S1 _ Ht' E). assert (t = t') by congruence. subst.
  rewrite Hp in E0. simpl in E0. discriminate.
Qed.

(* ---------------------------------------------------------------------------------------- *)
(* T3: m_count is only written by the holder of splock, hence try_subtract's CAS never fails *)
Lemma tstep_mcount s t s' : tstep s t = Some s' -> m_count s' = m_count s \/ holds_sp (pcof s t) = true.
Proof. intros H. tstep_cases H; norm; unfold pcof; rewrite ?Hpc; auto. Qed.
Lemma tstep_to_cas s t s' a mc : tstep s t = Some s' -> pcof s' t = WCas a mc -> mc = m_count s /\ m_count s' = m_count s.
Proof. intros H. tstep_cases H; apply ltb_lt in Hlt; norm; unfold pcof; rewrite ?Hpc; intros E; try discriminate; inv_some E; auto. Qed.

Definition cas_inv (s : state) : Prop := forall t a mc, (t < nthreads s)%nat -> pcof s t = WCas a mc -> m_count s = mc.

Lemma cas_inv_step s l s' : sp_inv s -> cas_inv s -> step s l = Some s' -> cas_inv s'.
Proof.
  intros [S1 S2] Iv H t' a mc Hl He. destruct l.
  - simpl in H. destruct (start_effect _ _ _ _ H) as (Ht&Hn&Hi&Hh&Fr&_&_&_&Em&_). rewrite Hn in Hl. rewrite Em.
    destruct (Nat.eq_dec t' t) as [->|N]; [rewrite He in Hh; discriminate|rewrite Fr in He; eauto].
  - simpl in H. rewrite (tstep_nthreads _ _ _ H) in Hl. pose proof (tstep_sp _ _ _ H) as [Ht _].
    destruct (Nat.eq_dec t' t) as [->|N].
    + destruct (tstep_to_cas _ _ _ _ _ H He). congruence.
    + erewrite tstep_pc_frame in He by eauto. specialize (Iv _ _ _ Hl He).
      destruct (tstep_mcount _ _ _ H) as [E|E]; [congruence|].
      assert (Hy : holds_sp (pcof s t') = true) by (rewrite He; reflexivity).
      pose proof (S1 _ Ht E). pose proof (S1 _ Hl Hy). congruence.
  - destruct (sched_effect _ _ _ H Logic.I) as (Hn&Hp&_&Em&_). rewrite Hn in Hl. rewrite Hp in He. rewrite Em. eauto.
  - destruct (sched_effect _ _ _ H Logic.I) as (Hn&Hp&_&Em&_). rewrite Hn in Hl. rewrite Hp in He. rewrite Em. eauto.
  - destruct (sched_effect _ _ _ H Logic.I) as (Hn&Hp&_&Em&_). rewrite Hn in Hl. rewrite Hp in He. rewrite Em. eauto.
  - simpl in H. destruct (vstep_effect _ _ _ H) as (Hn&Hp&_&Em&_). rewrite Hn in Hl. rewrite Hp in He. rewrite Em. eauto.
  - destruct (sched_effect _ _ _ H Logic.I) as (Hn&Hp&_&Em&_). rewrite Hn in Hl. rewrite Hp in He. rewrite Em. eauto.
Qed.

Lemma cas_never_fails c o ths nv s : reachable (init c o ths nv) s ->
  forall t a mc, (t < nthreads s)%nat -> pcof s t = WCas a mc -> m_count s = mc.
Proof.
  intros R.
  assert (I : sp_inv s /\ cas_inv s).
  { eapply (reachable_inv (fun s => sp_inv s /\ cas_inv s)); [| |exact R].
    - split; [apply sp_inv_init|]. intros t a mc _ E. rewrite init_pcof in E. discriminate.
    - intros s1 l s2 [I1 I2] H. split; [eapply sp_inv_step; eauto|eapply cas_inv_step; eauto]. }
  exact (proj2 I).
Qed.
