(* C02_Locks3.v — footprint_protected: q.lock and every thread.lock are held exactly by the
   participant whose program counter says so, in every reachable state (in-order mode). *)
From Coq Require Import ZArith List Bool Arith Lia.
From PV Require Import Base.U64 C02.C02_Model C02.C02_Base C02.C02_Cons C02.C02_Safe C02.C02_Locks C02.C02_LockProto C02.C02_Locks2.
Import ListNotations.
Local Open Scope Z_scope.

Lemma ltbv_lt v s : Nat.ltb v (length (vcpus s)) = true -> (v < nvcpus s)%nat.
Proof. intros H; apply Nat.ltb_lt in H; exact H. Qed.

Ltac vgets := repeat first [ rewrite getv_setv_same by (autorewrite with st; auto) | rewrite getv_setv_other by auto | progress (autorewrite with st) ].

Lemma vstep_locks s v s' : vstep s v = Some s' ->
  (v < nvcpus s)%nat /\ nvcpus s' = nvcpus s /\ (forall w, w <> v -> getv s' w = getv s w) /\
  (forall y, (y < nthreads s)%nat ->
     lockof s' y = upd_lock (PV v) (oeqb (tl_v (getv s v)) y) (oeqb (tl_v (getv s' v)) y) (lockof s y) /\
     (oeqb (tl_v (getv s' v)) y && negb (oeqb (tl_v (getv s v)) y) = true -> lockof s y = None)) /\
  qlock s' = upd_lock (PV v) (hqv (getv s v)) (hqv (getv s' v)) (qlock s) /\
  (hqv (getv s' v) && negb (hqv (getv s v)) = true -> qlock s = None).
Proof.
  intros H. vstep_cases H; apply ltbv_lt in Hlt; (split; [assumption|]);
    (split; [autorewrite with st; reflexivity|]); (split; [intros w Hw; vgets; reflexivity|]);
    rewrite ?Hpc; vgets; rewrite ?Hpc; cbn [tl_v hqv oeqb]; unfold upd_lock; cbn [andb negb];
    (split; [intros y Hy; locks; (split; [|intros Hc; revert Hc]); eqbs
            |split; [locks; eqbs|intros Hc; revert Hc; eqbs]]).
Qed.

Lemma start_locks s t o s' : start s t o = Some s' ->
  (forall y, lockof s' y = lockof s y) /\ tl_pc t (pcof s' t) = None /\ hq (pcof s' t) = false.
Proof.
  intros H. start_cases H; apply ltb_lt in Hlt; (split; [intros y; unf; locks; eqbs|]); norm; unfold pcof; rewrite ?Hpc; split; reflexivity.
Qed.

Lemma sched_locks s l s' : step s l = Some s' ->
  match l with LRun _ | LStandby _ _ | LExpire _ _ | LTick _ => True | _ => False end ->
  (forall y, lockof s' y = lockof s y) /\ nvcpus s' = nvcpus s /\
  (forall v, tl_v (getv s' v) = tl_v (getv s v) /\ hqv (getv s' v) = hqv (getv s v)).
Proof.
  intros H L. destruct l; try contradiction; simpl in H;
  repeat match type of H with
  | None = Some _ => discriminate
  | context [match ?x with _ => _ end] => destruct x eqn:?
  end; try discriminate; inv_some H; (split; [intros y; locks; eqbs|]); (split; [autorewrite with st; reflexivity|]); intros w; vgets; auto.
  destruct (Nat.eq_dec v w) as [->|N].
  - apply andb_true_iff in Heqb. destruct Heqb as [Hb _]. apply andb_true_iff in Hb. destruct Hb as [Hb _].
    apply andb_true_iff in Hb. destruct Hb as [Hb _]. apply andb_true_iff in Hb. destruct Hb as [_ Hb]. apply ltbv_lt in Hb.
    rewrite getv_setv_same by auto. rewrite Heqv0. split; reflexivity.
  - rewrite getv_setv_other by auto. auto.
Qed.

Definition q_inv (s : state) : Prop :=
  linv (nthreads s) (nvcpus s) (qlock s) (fun t => hq (pcof s t)) (fun v => hqv (getv s v)).
Definition tl_inv (s : state) : Prop :=
  forall y, (y < nthreads s)%nat ->
    linv (nthreads s) (nvcpus s) (lockof s y) (fun t => oeqb (tl_pc t (pcof s t)) y) (fun v => oeqb (tl_v (getv s v)) y).
Definition locks_inv (s : state) : Prop := ooo s = false /\ noscan_inv s /\ q_inv s /\ tl_inv s.

Lemma getv_of_vcpus s s' v : vcpus s' = vcpus s -> getv s' v = getv s v.
Proof. unfold getv. intros ->. reflexivity. Qed.

Lemma locks_inv_step s l s' : locks_inv s -> step s l = Some s' -> locks_inv s'.
Proof.
  intros (Ho&In&Iq&It) H.
  split; [rewrite (step_ooo _ _ _ H); exact Ho|]. split; [eapply noscan_inv_step; eauto|].
  destruct l.
  - (* start *)
    simpl in H. destruct (start_effect _ _ _ _ H) as (Ht&Hn&Hi&Hh&Fr&_&Eq&_&_&Ev&_).
    destruct (start_locks _ _ _ _ H) as (El&Etl&Ehq).
    assert (Env : nvcpus s' = nvcpus s) by (unfold nvcpus; rewrite Ev; reflexivity).
    split.
    + unfold q_inv. rewrite Hn, Env. eapply linv_frame; [exact Iq|exact Eq| |intros w0; rewrite (getv_of_vcpus _ _ _ Ev); reflexivity].
      intros t'. destruct (Nat.eq_dec t' t) as [->|N]; [rewrite Ehq, Hi; reflexivity|rewrite Fr; auto].
    + intros y Hy. rewrite Hn in Hy. rewrite Hn, Env. eapply linv_frame; [exact (It y Hy)|apply El| |intros w0; rewrite (getv_of_vcpus _ _ _ Ev); reflexivity].
      intros t'. destruct (Nat.eq_dec t' t) as [->|N]; [rewrite Etl, Hi; reflexivity|rewrite Fr; auto].
  - (* thread step *)
    simpl in H. pose proof (tstep_sp _ _ _ H) as [Ht _]. pose proof (tstep_nthreads _ _ _ H) as Hn.
    destruct (tstep_locks _ _ _ H Ho (In _ Ht)) as (El&Eq&Sq&Ev).
    assert (Env : nvcpus s' = nvcpus s) by (unfold nvcpus; rewrite Ev; reflexivity).
    assert (Fr : forall t', t' <> t -> pcof s' t' = pcof s t') by (intros; eapply tstep_pc_frame; eauto).
    split.
    + unfold q_inv. rewrite Hn, Env. eapply linv_thread_step with (t := t); [exact Iq|exact Ht|exact Eq|exact Sq| |].
      * intros t' N. cbv beta. rewrite Fr; auto.
      * intros w0. rewrite (getv_of_vcpus _ _ _ Ev). reflexivity.
    + intros y Hy. rewrite Hn in Hy. rewrite Hn, Env. destruct (El y Hy) as [E1 E2].
      eapply linv_thread_step with (t := t); [exact (It y Hy)|exact Ht|exact E1|exact E2| |].
      * intros t' N. cbv beta. rewrite Fr; auto.
      * intros w0. rewrite (getv_of_vcpus _ _ _ Ev). reflexivity.
  - destruct (sched_effect _ _ _ H Logic.I) as (Hn&Hp&_&_&_&_&_&_&_&Eq&_). destruct (sched_locks _ _ _ H Logic.I) as (El&Env&Ev).
    split.
    + unfold q_inv. rewrite Hn, Env. eapply linv_frame; [exact Iq|exact Eq|intros; rewrite Hp; reflexivity|intros w0; apply Ev].
    + intros y Hy. rewrite Hn in Hy. rewrite Hn, Env. eapply linv_frame; [exact (It y Hy)|apply El|intros; rewrite Hp; reflexivity|intros w0; rewrite (proj1 (Ev w0)); reflexivity].
  - destruct (sched_effect _ _ _ H Logic.I) as (Hn&Hp&_&_&_&_&_&_&_&Eq&_). destruct (sched_locks _ _ _ H Logic.I) as (El&Env&Ev).
    split.
    + unfold q_inv. rewrite Hn, Env. eapply linv_frame; [exact Iq|exact Eq|intros; rewrite Hp; reflexivity|intros w0; apply Ev].
    + intros y Hy. rewrite Hn in Hy. rewrite Hn, Env. eapply linv_frame; [exact (It y Hy)|apply El|intros; rewrite Hp; reflexivity|intros w0; rewrite (proj1 (Ev w0)); reflexivity].
  - destruct (sched_effect _ _ _ H Logic.I) as (Hn&Hp&_&_&_&_&_&_&_&Eq&_). destruct (sched_locks _ _ _ H Logic.I) as (El&Env&Ev).
    split.
    + unfold q_inv. rewrite Hn, Env. eapply linv_frame; [exact Iq|exact Eq|intros; rewrite Hp; reflexivity|intros w0; apply Ev].
    + intros y Hy. rewrite Hn in Hy. rewrite Hn, Env. eapply linv_frame; [exact (It y Hy)|apply El|intros; rewrite Hp; reflexivity|intros w0; rewrite (proj1 (Ev w0)); reflexivity].
  - (* vCPU step *)
    simpl in H. destruct (vstep_effect _ _ _ H) as (Hn&Hp&_). destruct (vstep_locks _ _ _ H) as (Hv&Env&Fv&El&Eq&Sq).
    split.
    + unfold q_inv. rewrite Hn, Env. eapply linv_vcpu_step with (v := v); [exact Iq|exact Hv|exact Eq|exact Sq| |].
      * intros v' N. cbv beta. rewrite Fv; auto.
      * intros t. rewrite Hp. reflexivity.
    + intros y Hy. rewrite Hn in Hy. rewrite Hn, Env. destruct (El y Hy) as [E1 E2].
      eapply linv_vcpu_step with (v := v); [exact (It y Hy)|exact Hv|exact E1|exact E2| |].
      * intros v' N. cbv beta. rewrite Fv; auto.
      * intros t. rewrite Hp. reflexivity.
  - destruct (sched_effect _ _ _ H Logic.I) as (Hn&Hp&_&_&_&_&_&_&_&Eq&_). destruct (sched_locks _ _ _ H Logic.I) as (El&Env&Ev).
    split.
    + unfold q_inv. rewrite Hn, Env. eapply linv_frame; [exact Iq|exact Eq|intros; rewrite Hp; reflexivity|intros w0; apply Ev].
    + intros y Hy. rewrite Hn in Hy. rewrite Hn, Env. eapply linv_frame; [exact (It y Hy)|apply El|intros; rewrite Hp; reflexivity|intros w0; rewrite (proj1 (Ev w0)); reflexivity].
Qed.

Lemma locks_inv_init c ths nv : locks_inv (init c false ths nv).
Proof.
  split; [reflexivity|]. split; [intros t _; rewrite init_pcof; reflexivity|].
  assert (Hv : forall v, getv (init c false ths nv) v = VIdle).
  { intros v. unfold getv, init; simpl. revert v. induction nv; destruct v; simpl; auto. }
  assert (Hl : forall y, lockof (init c false ths nv) y = None).
  { intros y. unfold lockof, getth, init; simpl. revert y. induction ths; destruct y; simpl; auto. }
  split.
  - repeat split.
    + intros t _ Hh. rewrite init_pcof in Hh. discriminate.
    + intros v _ Hh. rewrite Hv in Hh. discriminate.
    + simpl. discriminate.
  - intros y _. repeat split.
    + intros t _ Hh. rewrite init_pcof in Hh. discriminate.
    + intros v _ Hh. rewrite Hv in Hh. discriminate.
    + rewrite Hl. discriminate.
Qed.

(* footprint_protected, in-order mode: in every reachable state, q.lock / thread y's lock is held by
   participant p iff p's program counter is inside the corresponding critical section; in
   particular at most one participant is inside, and the queue, `waitq`, `state` wake-up
   transitions and `semaphore_count` reads of thread y (all at such pcs) are mutually exclusive *)
Lemma locks_reachable c ths nv s : reachable (init c false ths nv) s -> locks_inv s.
Proof. apply reachable_inv; [apply locks_inv_init|apply locks_inv_step]. Qed.
